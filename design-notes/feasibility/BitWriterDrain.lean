/-! Scratch: refinement of bits.Writer's (n, v) accumulator to "base-256 digits of the number written so far". -/
namespace BW

/-- `digits x m` : the m least-significant base-256 digits of x, most significant first -/
def digits (x : Nat) : Nat → List Nat
  | 0 => []
  | m+1 => digits (x / 256) m ++ [x % 256]

theorem digits_len (x m) : (digits x m).length = m := by
  induction m generalizing x with
  | zero => rfl
  | succ m ih => simp [digits, ih]

/-- the Go loop `for w.n >= 8 { b := (w.v >> (w.n-8)) & 0xff; write b; w.n -= 8 }` -/
def drain (v : Nat) : Nat → List Nat → Nat × List Nat
  | n, out => if h : 8 ≤ n then drain v (n - 8) (out ++ [(v / 2^(n-8)) % 256]) else (n, out)
termination_by n => n
decreasing_by omega

theorem digits_succ_front (x m : Nat) :
    digits x (m+1) = [(x / 256^m) % 256] ++ digits x m := by
  induction m generalizing x with
  | zero => simp [digits]
  | succ m ih =>
    rw [digits, ih (x/256)]
    simp only [List.append_assoc, List.cons_append, List.nil_append]
    congr 1
    rw [Nat.div_div_eq_div_mul, Nat.pow_succ, Nat.mul_comm]

theorem drain_spec (v : Nat) : ∀ (q r : Nat) (out : List Nat), r < 8 →
    drain v (8*q + r) out = (r, out ++ digits (v / 2^r) q) := by
  intro q
  induction q with
  | zero =>
    intro r out hr
    unfold drain
    simp [digits]; omega
  | succ q ih =>
    intro r out hr
    unfold drain
    have h8 : 8 ≤ 8 * (q+1) + r := by omega
    simp only [h8, dite_true]
    have e : 8 * (q+1) + r - 8 = 8*q + r := by omega
    rw [e, ih r _ hr, digits_succ_front]
    simp only [List.append_assoc, List.cons_append, List.nil_append]
    congr 3
    -- (v / 2^(8q+r)) % 256 = (v / 2^r / 256^q) % 256
    rw [Nat.div_div_eq_div_mul]
    congr 2
    rw [Nat.pow_add, Nat.mul_comm, Nat.pow_mul]
#print axioms drain_spec
end BW
