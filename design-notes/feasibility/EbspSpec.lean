/-! Scratch: byte-level emulation-prevention spec mirroring bits/ebspwriter.go (nr0) and
    bits/ebspreader.go (zeroCount); round trip and "no forbidden triple". -/
namespace Ebsp

def esc : Nat → List UInt8 → List UInt8
  | _, [] => []
  | z, b :: bs =>
    if z = 2 ∧ b ≤ 3 then 3 :: b :: esc (if b = 0 then 1 else 0) bs
    else b :: esc (if b = 0 then z + 1 else 0) bs

def unesc : Nat → List UInt8 → List UInt8
  | _, [] => []
  | z, b :: bs =>
    if z = 2 ∧ b = 3 then
      match bs with
      | [] => []
      | c :: cs => c :: unesc (if c = 0 then 1 else 0) cs
    else b :: unesc (if b = 0 then z + 1 else 0) bs

theorem unesc_esc (bs : List UInt8) : ∀ z, z ≤ 2 → unesc z (esc z bs) = bs := by
  induction bs with
  | nil => intro z _; simp [esc, unesc]
  | cons b bs ih =>
    intro z hz
    unfold esc
    by_cases h : z = 2 ∧ b ≤ 3
    · simp only [h, and_self, if_true]
      obtain ⟨hz2, _⟩ := h
      subst hz2
      simp only [unesc, true_and, if_true]
      by_cases hb : b = 0
      · subst hb; simp; exact ih 1 (by omega)
      · simp [hb]; exact ih 0 (by omega)
    · simp only [h, if_false]
      unfold unesc
      have hne : ¬ (z = 2 ∧ b = 3) := by
        intro ⟨h1, h2⟩; exact h ⟨h1, by subst h2; decide⟩
      simp only [hne, if_false]
      by_cases hb : b = 0
      · subst hb
        have hz1 : z + 1 ≤ 2 := by
          rcases Nat.lt_or_ge z 2 with h2 | h2
          · omega
          · exfalso; exact h ⟨by omega, by decide⟩
        simp; exact ih (z + 1) hz1
      · simp [hb]; exact ih 0 (by omega)

/-- the last `z` bytes already emitted are zeros; forbidden = 00 00 followed by a byte ≤ 2 -/
def NoForbidden : Nat → List UInt8 → Prop
  | _, [] => True
  | z, b :: bs => ¬ (2 ≤ z ∧ b ≤ 2) ∧ NoForbidden (if b = 0 then z + 1 else 0) bs

theorem esc_noForbidden (bs : List UInt8) : ∀ z, z ≤ 2 → NoForbidden z (esc z bs) := by
  induction bs with
  | nil => intro z _; simp [esc, NoForbidden]
  | cons b bs ih =>
    intro z hz
    unfold esc
    by_cases h : z = 2 ∧ b ≤ 3
    · simp only [h, and_self, if_true]
      obtain ⟨hz2, _⟩ := h
      subst hz2
      refine ⟨by intro ⟨_, h3⟩; exact absurd h3 (by decide), ?_⟩
      have h30 : ¬ ((3 : UInt8) = 0) := by decide
      simp only [h30, if_false]
      refine ⟨by intro ⟨h0, _⟩; omega, ?_⟩
      by_cases hb : b = 0
      · subst hb; simp; exact ih 1 (by omega)
      · simp [hb]; exact ih 0 (by omega)
    · simp only [h, if_false]
      refine ⟨?_, ?_⟩
      · intro ⟨h2, hb2⟩
        apply h
        refine ⟨by omega, ?_⟩
        exact UInt8.le_trans hb2 (by decide)
      · by_cases hb : b = 0
        · subst hb
          have hz1 : z + 1 ≤ 2 := by
            rcases Nat.lt_or_ge z 2 with h2 | h2
            · omega
            · exfalso; exact h ⟨by omega, by decide⟩
          simp; exact ih (z + 1) hz1
        · simp [hb]; exact ih 0 (by omega)

example : esc 0 [0,0,0,0,1,0,0,3] = [0,0,3,0,0,3,1,0,0,3,3] := by decide
#print axioms unesc_esc
#print axioms esc_noForbidden
end Ebsp
