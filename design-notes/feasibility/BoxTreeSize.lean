inductive Tree where
  | leaf (ty : List UInt8) (payload : List UInt8)
  | node (ty : List UInt8) (children : List Tree)

def be32 (n : Nat) : List UInt8 :=
  [UInt8.ofNat (n / 2^24 % 256), UInt8.ofNat (n / 2^16 % 256), UInt8.ofNat (n / 2^8 % 256), UInt8.ofNat (n % 256)]
theorem be32_len (n) : (be32 n).length = 4 := rfl

mutual
def Tree.size : Tree → Nat
  | .leaf _ p => 8 + p.length
  | .node _ cs => 8 + sizes cs
def sizes : List Tree → Nat
  | [] => 0
  | c :: cs => c.size + sizes cs
end

mutual
def Tree.enc : Tree → List UInt8
  | .leaf ty p => be32 (8 + p.length) ++ ty ++ p
  | .node ty cs => be32 (8 + sizes cs) ++ ty ++ encs cs
def encs : List Tree → List UInt8
  | [] => []
  | c :: cs => c.enc ++ encs cs
end

mutual
def Tree.WF : Tree → Prop
  | .leaf ty _ => ty.length = 4
  | .node ty cs => ty.length = 4 ∧ WFs cs
def WFs : List Tree → Prop
  | [] => True
  | c :: cs => c.WF ∧ WFs cs
end

mutual
theorem Tree.size_eq : (t : Tree) → t.WF → t.size = t.enc.length
  | .leaf ty p, h => by simp [Tree.size, Tree.enc, be32_len, Tree.WF] at *; omega
  | .node ty cs, h => by
      have := sizes_eq cs (by simp [Tree.WF] at h; exact h.2)
      simp [Tree.size, Tree.enc, be32_len, Tree.WF] at *; omega
theorem sizes_eq : (cs : List Tree) → WFs cs → sizes cs = (encs cs).length
  | [], _ => by simp [sizes, encs]
  | c :: cs, h => by
      have h1 := Tree.size_eq c (by simp [WFs] at h; exact h.1)
      have h2 := sizes_eq cs (by simp [WFs] at h; exact h.2)
      simp [sizes, encs]; omega
end
#print axioms Tree.size_eq
