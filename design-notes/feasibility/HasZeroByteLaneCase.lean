-- lowest zero lane = 3: lanes 0,1,2 nonzero, lane 3 zero
theorem hz_case3 (x : Nat) (hx : x < 2^64)
    (h0 : x % 256 ≠ 0) (h1 : x / 2^8 % 256 ≠ 0) (h2 : x / 2^16 % 256 ≠ 0) (h3 : x / 2^24 % 256 = 0) :
    ((x + 2^64 - 0x0101010101010101) % 2^64) / 2^31 % 2 = 1 ∧ x / 2^31 % 2 = 0 := by
  omega
-- soundness direction for one lane: if flagged at lane 3 and lanes below nonzero then lane 3 zero (not needed)
#print axioms hz_case3
