/-! Scratch: interleaving independence under disjoint footprints (shape of the C20 theorem). -/
namespace Conc
abbrev Heap := Nat → Nat
structure Act where
  loc : Nat
  f   : Heap → Nat

def step (h : Heap) (a : Act) : Heap := fun l => if l = a.loc then a.f h else h l
def run (h : Heap) : List Act → Heap
  | [] => h
  | a :: as => run (step h a) as

/-- all actions of `p` write inside `W` and compute from `R` only -/
def Respects (R W : Nat → Prop) (p : List Act) : Prop :=
  ∀ a ∈ p, W a.loc ∧ ∀ h h' : Heap, (∀ l, R l → h l = h' l) → a.f h = a.f h'

inductive Interleave : List Act → List Act → List Act → Prop
  | nil : Interleave [] [] []
  | left  {a p q m} : Interleave p q m → Interleave (a :: p) q (a :: m)
  | right {b p q m} : Interleave p q m → Interleave p (b :: q) (b :: m)

/-- Agreement on the footprint of p. -/
def Agree (S : Nat → Prop) (h h' : Heap) : Prop := ∀ l, S l → h l = h' l

theorem independence (Rp Wp Wq : Nat → Prop)
    (hdisj : ∀ l, Wq l → ¬ Rp l ∧ ¬ Wp l)
    (p q m : List Act) (hi : Interleave p q m)
    (hp : Respects Rp Wp p) (hq : Respects (fun _ => True) Wq q) :
    ∀ h h' : Heap, Agree (fun l => Rp l ∨ Wp l) h h' →
      Agree (fun l => Rp l ∨ Wp l) (run h m) (run h' p) := by
  induction hi with
  | nil => intro h h' ha; simpa [run] using ha
  | @left a p q m _ ih =>
    intro h h' ha
    simp only [run]
    have hpa := hp a (by simp)
    apply ih (fun x hx => hp x (by simp [hx])) hq
    intro l hl
    simp only [step]
    have hf : a.f h = a.f h' := hpa.2 h h' (fun l hl => ha l (Or.inl hl))
    by_cases hla : l = a.loc
    · simp [hla, hf]
    · simp [hla]; exact ha l hl
  | @right b p q m _ ih =>
    intro h h' ha
    simp only [run]
    have hqb := hq b (by simp)
    apply ih hp (fun x hx => hq x (by simp [hx]))
    intro l hl
    simp only [step]
    by_cases hlb : l = b.loc
    · exfalso
      have := hdisj b.loc hqb.1
      subst hlb
      rcases hl with h1 | h1
      · exact this.1 h1
      · exact this.2 h1
    · simp [hlb]; exact ha l hl
#print axioms independence
end Conc
