/-! Scratch: generic syntax DSL round trip, abstract field codecs, fuel-based. -/
abbrev Bits := List Bool
abbrev Trace := List (String × Nat)

structure Codec where
  enc : Nat → Bits
  dec : Bits → Option (Nat × Bits)
  ok  : Nat → Prop
  rt  : ∀ v r, ok v → dec (enc v ++ r) = some (v, r)

inductive Syn where
  | fld  (name : String) (c : Codec)
  | cond (p : Trace → Bool) (body : List Syn)
  | rep  (count : Trace → Nat) (body : List Syn)

/-- swrite: consumes values from `src` in order, appends to `acc`; returns bits, new acc, rest of src -/
def swrite : Nat → List Syn → Trace → Trace → Option (Bits × Trace × Trace)
  | 0, _, _, _ => none
  | _+1, [], acc, src => some ([], acc, src)
  | f+1, .fld nm c :: rest, acc, src =>
    match src with
    | [] => none
    | (nm', v) :: src' =>
      if nm' = nm then
        match swrite f rest (acc ++ [(nm, v)]) src' with
        | some (bs, a, s) => some (c.enc v ++ bs, a, s)
        | none => none
      else none
  | f+1, .cond p body :: rest, acc, src =>
    if p acc then
      match swrite f body acc src with
      | some (b1, a1, s1) =>
        match swrite f rest a1 s1 with
        | some (b2, a2, s2) => some (b1 ++ b2, a2, s2)
        | none => none
      | none => none
    else swrite f rest acc src
  | f+1, .rep cnt body :: rest, acc, src =>
    match cnt acc with
    | 0 => swrite f rest acc src
    | n+1 =>
      match swrite f body acc src with
      | some (b1, a1, s1) =>
        match swrite f (.rep (fun _ => n) body :: rest) a1 s1 with
        | some (b2, a2, s2) => some (b1 ++ b2, a2, s2)
        | none => none
      | none => none

def sread : Nat → List Syn → Trace → Bits → Option (Trace × Bits)
  | 0, _, _, _ => none
  | _+1, [], acc, bs => some (acc, bs)
  | f+1, .fld nm c :: rest, acc, bs =>
    match c.dec bs with
    | some (v, bs') => sread f rest (acc ++ [(nm, v)]) bs'
    | none => none
  | f+1, .cond p body :: rest, acc, bs =>
    if p acc then
      match sread f body acc bs with
      | some (a1, bs1) => sread f rest a1 bs1
      | none => none
    else sread f rest acc bs
  | f+1, .rep cnt body :: rest, acc, bs =>
    match cnt acc with
    | 0 => sread f rest acc bs
    | n+1 =>
      match sread f body acc bs with
      | some (a1, bs1) => sread f (.rep (fun _ => n) body :: rest) a1 bs1
      | none => none

/-- every field value written satisfies its codec's range predicate -/
def Fits : Nat → List Syn → Trace → Trace → Prop
  | 0, _, _, _ => False
  | _+1, [], _, _ => True
  | f+1, .fld nm c :: rest, acc, src =>
    match src with
    | [] => False
    | (nm', v) :: src' => nm' = nm ∧ c.ok v ∧ Fits f rest (acc ++ [(nm, v)]) src'
  | f+1, .cond p body :: rest, acc, src =>
    if p acc then
      Fits f body acc src ∧
      (match swrite f body acc src with
       | some (_, a1, s1) => Fits f rest a1 s1
       | none => False)
    else Fits f rest acc src
  | f+1, .rep cnt body :: rest, acc, src =>
    match cnt acc with
    | 0 => Fits f rest acc src
    | n+1 =>
      Fits f body acc src ∧
      (match swrite f body acc src with
       | some (_, a1, s1) => Fits f (.rep (fun _ => n) body :: rest) a1 s1
       | none => False)

theorem read_write (f : Nat) : ∀ (S : List Syn) (acc src : Trace) (tail : Bits),
    Fits f S acc src →
    ∀ bs a s, swrite f S acc src = some (bs, a, s) →
      sread f S acc (bs ++ tail) = some (a, tail) := by
  induction f with
  | zero => intro S acc src tail h; simp [Fits] at h
  | succ f ih =>
    intro S acc src tail hfit bs a s hw
    match S with
    | [] => simp [swrite] at hw; obtain ⟨rfl, rfl, rfl⟩ := hw; simp [sread]
    | .fld nm c :: rest =>
      match src with
      | [] => simp [swrite] at hw
      | (nm', v) :: src' =>
        simp only [Fits] at hfit
        obtain ⟨hn, hok, hrest⟩ := hfit
        subst hn
        simp only [swrite, if_true] at hw
        split at hw
        · rename_i bs' a' s' hw'
          simp at hw; obtain ⟨rfl, rfl, rfl⟩ := hw
          simp only [sread, List.append_assoc]
          rw [c.rt v _ hok]
          exact ih rest _ _ tail hrest _ _ _ hw'
        · simp at hw
    | .cond p body :: rest =>
      simp only [Fits] at hfit
      simp only [swrite] at hw
      simp only [sread]
      by_cases hp : p acc
      · simp only [hp, if_true] at hfit hw ⊢
        obtain ⟨hb, hr⟩ := hfit
        split at hw
        · rename_i b1 a1 s1 hw1
          rw [hw1] at hr
          split at hw
          · rename_i b2 a2 s2 hw2
            simp at hw; obtain ⟨rfl, rfl, rfl⟩ := hw
            have h1 := ih body acc src (b2 ++ tail) hb _ _ _ hw1
            simp only [List.append_assoc, h1]
            exact ih rest _ _ tail hr _ _ _ hw2
          · simp at hw
        · simp at hw
      · simp only [hp] at hfit hw ⊢
        exact ih rest _ _ tail hfit _ _ _ hw
    | .rep cnt body :: rest =>
      simp only [Fits] at hfit
      simp only [swrite] at hw
      simp only [sread]
      cases hc : cnt acc with
      | zero =>
        simp only [hc] at hfit hw
        exact ih rest _ _ tail hfit _ _ _ hw
      | succ n =>
        simp only [hc] at hfit hw
        obtain ⟨hb, hr⟩ := hfit
        split at hw
        · rename_i b1 a1 s1 hw1
          rw [hw1] at hr
          split at hw
          · rename_i b2 a2 s2 hw2
            simp at hw; obtain ⟨rfl, rfl, rfl⟩ := hw
            have h1 := ih body acc src (b2 ++ tail) hb _ _ _ hw1
            simp only [List.append_assoc, h1]
            exact ih _ _ _ tail hr _ _ _ hw2
          · simp at hw
        · simp at hw
#print axioms read_write
