import Std.Tactic.BVDecide
def magicL : BitVec 64 := 0x0101010101010101#64
def magicR : BitVec 64 := 0x8080808080808080#64
def hasZeroByte (x : BitVec 64) : Bool := ((x - magicL) &&& ~~~x &&& magicR) != 0#64
def lane (x : BitVec 64) (i : Nat) : BitVec 8 := (x >>> (8*i)).truncate 8
def anyZero (x : BitVec 64) : Bool :=
  lane x 0 == 0 || lane x 1 == 0 || lane x 2 == 0 || lane x 3 == 0 ||
  lane x 4 == 0 || lane x 5 == 0 || lane x 6 == 0 || lane x 7 == 0
theorem hz (x : BitVec 64) : hasZeroByte x = anyZero x := by
  unfold hasZeroByte anyZero lane magicL magicR
  bv_decide
#print axioms hz
