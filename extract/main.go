// Fact extractor: parses /repo's current Go sources (go/parser, go/ast; standard library only) and writes Lean
// definitions of narrow, robust facts into lean/Mp4ff/Generated/*.lean.  The Lean side states what must be true
// of them (Mp4ff/Expect/*.lean, closed by decide/rfl), so every run re-checks the obligations against what the
// code says now.  Anything the extractor cannot classify is emitted as a value that fails the obligation.
package main

import (
	"encoding/json"
	"flag"
	"fmt"
	"go/ast"
	"go/parser"
	"go/token"
	"os"
	"path/filepath"
	"sort"
	"strconv"
	"strings"
)

func parseDir(repo, dir string) map[string]*ast.File {
	fset := token.NewFileSet()
	pkgs, err := parser.ParseDir(fset, filepath.Join(repo, dir), func(fi os.FileInfo) bool {
		return !strings.HasSuffix(fi.Name(), "_test.go") && !strings.HasPrefix(fi.Name(), "verif_")
	}, parser.ParseComments)
	if err != nil {
		fmt.Fprintln(os.Stderr, "parse error:", err)
		os.Exit(1)
	}
	out := map[string]*ast.File{}
	for _, p := range pkgs {
		for name, f := range p.Files {
			out[filepath.Base(name)] = f
		}
	}
	return out
}

// keys of `name = map[string]X{ "k": v, ... }` assignments / declarations anywhere in the package
func mapKeys(files map[string]*ast.File, varName string) (keys []string, vals []string) {
	for _, f := range files {
		ast.Inspect(f, func(n ast.Node) bool {
			var lit *ast.CompositeLit
			switch x := n.(type) {
			case *ast.AssignStmt:
				if len(x.Lhs) == 1 && len(x.Rhs) == 1 {
					if id, ok := x.Lhs[0].(*ast.Ident); ok && id.Name == varName {
						lit, _ = x.Rhs[0].(*ast.CompositeLit)
					}
				}
			case *ast.ValueSpec:
				for i, id := range x.Names {
					if id.Name == varName && i < len(x.Values) {
						lit, _ = x.Values[i].(*ast.CompositeLit)
					}
				}
			}
			if lit != nil {
				for _, e := range lit.Elts {
					if kv, ok := e.(*ast.KeyValueExpr); ok {
						if bl, ok := kv.Key.(*ast.BasicLit); ok {
							s, _ := strconv.Unquote(bl.Value)
							if bl.Kind != token.STRING {
								s = bl.Value
							}
							keys = append(keys, s)
							vals = append(vals, exprString(kv.Value))
						}
					}
				}
			}
			return true
		})
	}
	return
}

func exprString(e ast.Expr) string {
	switch x := e.(type) {
	case *ast.Ident:
		return x.Name
	case *ast.BasicLit:
		return x.Value
	case *ast.SelectorExpr:
		return exprString(x.X) + "." + x.Sel.Name
	}
	return "?"
}

// integer constants `const name = <int literal or simple expression>`
func constInt(files map[string]*ast.File, name string) (int64, bool) {
	for _, f := range files {
		for _, d := range f.Decls {
			gd, ok := d.(*ast.GenDecl)
			if !ok || gd.Tok != token.CONST {
				continue
			}
			for _, s := range gd.Specs {
				vs := s.(*ast.ValueSpec)
				for i, id := range vs.Names {
					if id.Name == name && i < len(vs.Values) {
						if v, ok := evalInt(vs.Values[i]); ok {
							return v, true
						}
					}
				}
			}
		}
	}
	return 0, false
}

func evalInt(e ast.Expr) (int64, bool) {
	switch x := e.(type) {
	case *ast.BasicLit:
		v, err := strconv.ParseInt(x.Value, 0, 64)
		return v, err == nil
	case *ast.ParenExpr:
		return evalInt(x.X)
	case *ast.BinaryExpr:
		a, ok1 := evalInt(x.X)
		b, ok2 := evalInt(x.Y)
		if !ok1 || !ok2 {
			return 0, false
		}
		switch x.Op {
		case token.ADD:
			return a + b, true
		case token.SUB:
			return a - b, true
		case token.MUL:
			return a * b, true
		case token.SHL:
			return a << uint(b), true
		}
	}
	return 0, false
}

func leanStrList(l []string) string {
	q := make([]string, len(l))
	for i, s := range l {
		q[i] = strconv.Quote(s)
	}
	return "[" + strings.Join(q, ", ") + "]"
}

// package-level variables and the functions that write them
type globalVar struct {
	pkg, name, kind string
	writers         []string
}

func globals(repo, dir string) []globalVar {
	files := parseDir(repo, dir)
	vars := map[string]*globalVar{}
	// the package's own type declarations, to see through named types (`type UUID []byte`, `type T struct{...}`)
	typeDecls := map[string]ast.Expr{}
	for _, f := range files {
		for _, d := range f.Decls {
			if gd, ok := d.(*ast.GenDecl); ok && gd.Tok == token.TYPE {
				for _, s := range gd.Specs {
					ts := s.(*ast.TypeSpec)
					typeDecls[ts.Name.Name] = ts.Type
				}
			}
		}
	}
	for _, f := range files {
		for _, d := range f.Decls {
			gd, ok := d.(*ast.GenDecl)
			if !ok || gd.Tok != token.VAR {
				continue
			}
			for _, s := range gd.Specs {
				vs := s.(*ast.ValueSpec)
				for i, id := range vs.Names {
					if id.Name == "_" {
						continue
					}
					var val ast.Expr
					if i < len(vs.Values) {
						val = vs.Values[i]
					}
					kind := globalKind(typeDecls, vs.Type, val)
					vars[id.Name] = &globalVar{pkg: dir, name: id.Name, kind: kind}
				}
			}
		}
	}
	// writers
	for _, f := range files {
		for _, d := range f.Decls {
			fd, ok := d.(*ast.FuncDecl)
			if !ok || fd.Body == nil {
				continue
			}
			fname := fd.Name.Name
			if fd.Recv != nil && len(fd.Recv.List) > 0 {
				fname = exprRecv(fd.Recv.List[0].Type) + "." + fname
			}
			// locals shadowing: collect names declared in this function
			local := map[string]bool{}
			if fd.Type.Params != nil {
				for _, p := range fd.Type.Params.List {
					for _, n := range p.Names {
						local[n.Name] = true
					}
				}
			}
			ast.Inspect(fd.Body, func(n ast.Node) bool {
				if as, ok := n.(*ast.AssignStmt); ok && as.Tok == token.DEFINE {
					for _, l := range as.Lhs {
						if id, ok := l.(*ast.Ident); ok {
							local[id.Name] = true
						}
					}
				}
				if vs, ok := n.(*ast.ValueSpec); ok {
					for _, id := range vs.Names {
						local[id.Name] = true
					}
				}
				return true
			})
			note := func(e ast.Expr) {
				// base identifier of x, x[i], x.f, *x
				for {
					switch y := e.(type) {
					case *ast.IndexExpr:
						e = y.X
						continue
					case *ast.SelectorExpr:
						e = y.X
						continue
					case *ast.StarExpr:
						e = y.X
						continue
					case *ast.ParenExpr:
						e = y.X
						continue
					}
					break
				}
				if id, ok := e.(*ast.Ident); ok {
					if v, ok := vars[id.Name]; ok && !local[id.Name] {
						v.writers = append(v.writers, fname)
					}
				}
			}
			ast.Inspect(fd.Body, func(n ast.Node) bool {
				switch x := n.(type) {
				case *ast.AssignStmt:
					if x.Tok != token.DEFINE {
						for _, l := range x.Lhs {
							note(l)
						}
					}
				case *ast.IncDecStmt:
					note(x.X)
				case *ast.CallExpr:
					if id, ok := x.Fun.(*ast.Ident); ok && (id.Name == "delete" || id.Name == "clear" || id.Name == "copy") && len(x.Args) > 0 {
						note(x.Args[0])
					}
				case *ast.SliceExpr:
					// x[a:b] of a package-level ARRAY is a slice that aliases the variable: whoever receives it can write it
					if id, ok := x.X.(*ast.Ident); ok {
						if v, ok := vars[id.Name]; ok && !local[id.Name] && v.kind == "array" {
							v.writers = append(v.writers, fname+"([:])")
						}
					}
				case *ast.UnaryExpr:
					if x.Op == token.AND {
						// taking the address of a global lets it be written elsewhere
						if id, ok := x.X.(*ast.Ident); ok {
							if v, ok := vars[id.Name]; ok && !local[id.Name] && v.kind != "error" {
								v.writers = append(v.writers, fname+"(&)")
							}
						}
					}
				}
				return true
			})
		}
	}
	var out []globalVar
	for _, v := range vars {
		sort.Strings(v.writers)
		v.writers = uniq(v.writers)
		out = append(out, *v)
	}
	sort.Slice(out, func(i, j int) bool { return out[i].name < out[j].name })
	return out
}

// globalKind classifies a package-level variable from its declared type or, without one, from its initialiser:
// error | map | slice | array | scalar | func | pointer | struct | interface | chan | foreign (type of another
// package) | unknown (initialised by something whose type the syntactic pass cannot see).  Named types of the package
// are followed to their definition.  pointer / struct / interface / chan / foreign / unknown are potential hidden
// state: an object whose pointer-receiver methods mutate it without any assignment to the variable itself, so the
// writers pass cannot vouch for it.
func globalKind(typeDecls map[string]ast.Expr, t, val ast.Expr) string {
	if t == nil {
		switch v := val.(type) {
		case *ast.CompositeLit:
			t = v.Type
		case *ast.UnaryExpr:
			if v.Op == token.AND { // &T{...}
				return "pointer"
			}
			return "scalar"
		case *ast.FuncLit:
			return "func"
		case *ast.CallExpr:
			if se, ok := v.Fun.(*ast.SelectorExpr); ok {
				if x, ok := se.X.(*ast.Ident); ok && ((x.Name == "errors" && se.Sel.Name == "New") || (x.Name == "fmt" && se.Sel.Name == "Errorf")) {
					return "error"
				}
			}
			if id, ok := v.Fun.(*ast.Ident); ok {
				switch {
				case id.Name == "new":
					return "pointer"
				case id.Name == "make" && len(v.Args) > 0:
					return globalKind(typeDecls, v.Args[0], nil)
				case len(v.Args) == 1: // conversion T(x) to a type of the package or a basic type
					if _, ok := typeDecls[id.Name]; ok || basicTypes[id.Name] {
						return globalKind(typeDecls, id, nil)
					}
				}
			}
			return "unknown"
		case *ast.BasicLit, *ast.BinaryExpr:
			return "scalar"
		case *ast.Ident:
			if v.Name == "true" || v.Name == "false" || v.Name == "iota" {
				return "scalar"
			}
			return "unknown"
		default:
			return "unknown"
		}
	}
	for depth := 0; depth < 20; depth++ {
		switch x := t.(type) {
		case *ast.ParenExpr:
			t = x.X
			continue
		case *ast.MapType:
			return "map"
		case *ast.ArrayType:
			if x.Len != nil {
				return "array" // fixed-size storage: slicing it hands out a window into the package-level variable
			}
			return "slice"
		case *ast.StarExpr:
			return "pointer"
		case *ast.FuncType:
			return "func"
		case *ast.StructType:
			return "struct"
		case *ast.InterfaceType:
			return "interface"
		case *ast.ChanType:
			return "chan"
		case *ast.SelectorExpr:
			return "foreign"
		case *ast.Ident:
			if basicTypes[x.Name] {
				return "scalar"
			}
			if x.Name == "error" {
				return "error"
			}
			if u, ok := typeDecls[x.Name]; ok {
				t = u
				continue
			}
			return "unknown"
		default:
			return "unknown"
		}
	}
	return "unknown"
}

var basicTypes = map[string]bool{"bool": true, "string": true, "int": true, "int8": true, "int16": true, "int32": true, "int64": true,
	"uint": true, "uint8": true, "uint16": true, "uint32": true, "uint64": true, "uintptr": true, "byte": true, "rune": true,
	"float32": true, "float64": true, "complex64": true, "complex128": true}

func exprRecv(e ast.Expr) string {
	switch x := e.(type) {
	case *ast.StarExpr:
		return exprRecv(x.X)
	case *ast.Ident:
		return x.Name
	}
	return "?"
}

func uniq(l []string) []string {
	var o []string
	for i, s := range l {
		if i == 0 || l[i-1] != s {
			o = append(o, s)
		}
	}
	return o
}

// transcribedFacts: for every Go function a model file says it transcribes (spec/transcribed.json, "dir:Recv.Name" or
// "dir:Name"), whether that function still exists in the current source
func transcribedFacts(repo, specPath string) string {
	var sb strings.Builder
	sb.WriteString("\n/-- (model file, Go function it transcribes, still present in the source) -/\ndef transcribed : List (String × String × Bool) := [\n")
	raw, err := os.ReadFile(specPath)
	table := map[string][]string{}
	if err == nil {
		err = json.Unmarshal(raw, &table)
	}
	if err != nil {
		sb.WriteString("  (\"spec/transcribed.json\", \"unreadable\", false)]\n")
		return sb.String()
	}
	index := map[string]map[string]bool{} // dir -> set of Recv.Name / Name
	have := func(dir, name string) bool {
		if index[dir] == nil {
			index[dir] = map[string]bool{}
			for _, f := range parseDir(repo, dir) {
				for _, d := range f.Decls {
					fd, ok := d.(*ast.FuncDecl)
					if !ok {
						continue
					}
					n := fd.Name.Name
					if fd.Recv != nil && len(fd.Recv.List) > 0 {
						n = exprRecv(fd.Recv.List[0].Type) + "." + n
					}
					index[dir][n] = true
				}
			}
		}
		return index[dir][name]
	}
	var models []string
	for m := range table {
		models = append(models, m)
	}
	sort.Strings(models)
	first := true
	for _, m := range models {
		for _, fn := range table[m] {
			i := strings.LastIndex(fn, ":")
			if i < 0 {
				continue
			}
			if !first {
				sb.WriteString(",\n")
			}
			first = false
			fmt.Fprintf(&sb, "  (%q, %q, %v)", m, fn, have(fn[:i], fn[i+1:]))
		}
	}
	sb.WriteString("]\n")
	return sb.String()
}

func main() {
	repo := flag.String("repo", "/repo", "repository root")
	out := flag.String("out", "", "output directory for generated Lean files")
	spec := flag.String("transcribed", "../spec/transcribed.json", "table: model file -> Go functions it transcribes")
	flag.Parse()
	mp4 := parseDir(*repo, "mp4")
	var b strings.Builder
	b.WriteString("/-! GENERATED by /verif/extract from /repo's current sources. Do not edit. -/\nnamespace Mp4ff.Generated\n\n")
	dk, dv := mapKeys(mp4, "decoders")
	sk, sv := mapKeys(mp4, "decodersSR")
	gk, _ := mapKeys(mp4, "sgeDecoders")
	fmt.Fprintf(&b, "/-- keys of `decoders` (mp4/box.go) -/\ndef decoderKeys : List String := %s\n\n", leanStrList(dk))
	fmt.Fprintf(&b, "/-- keys of `decodersSR` (mp4/boxsr.go) -/\ndef decoderSRKeys : List String := %s\n\n", leanStrList(sk))
	fmt.Fprintf(&b, "/-- decoder function per key, reader path -/\ndef decoderFuncs : List String := %s\n\n", leanStrList(dv))
	fmt.Fprintf(&b, "/-- decoder function per key, slice-reader path -/\ndef decoderSRFuncs : List String := %s\n\n", leanStrList(sv))
	fmt.Fprintf(&b, "/-- keys of `sgeDecoders` -/\ndef sgeDecoderKeys : List String := %s\n\n", leanStrList(gk))
	for _, c := range []struct{ dir, name string }{{"mp4", "minClearSize"}, {"mp4", "naluHdrLen"}, {"mp4", "maxNormalPayloadSize"}, {"mp4", "boxHeaderSize"}, {"mp4", "largeSizeLen"}, {"bits", "startCodeEmulationPreventionByte"},
		{"mp4", "TrunDataOffsetPresentFlag"}, {"mp4", "TrunFirstSampleFlagsPresentFlag"}, {"mp4", "TrunSampleDurationPresentFlag"},
		{"mp4", "TrunSampleSizePresentFlag"}, {"mp4", "TrunSampleFlagsPresentFlag"}, {"mp4", "TrunSampleCompositionTimeOffsetPresentFlag"},
		{"mp4", "baseDataOffsetPresent"}, {"mp4", "sampleDescriptionIndexPresent"}, {"mp4", "defaultSampleDurationPresent"},
		{"mp4", "defaultSampleSizePresent"}, {"mp4", "defaultSampleFlagsPresent"}, {"mp4", "durationIsEmpty"}, {"mp4", "defaultBaseIsMoof"},
		{"mp4", "SyncSampleFlags"}, {"mp4", "NonSyncSampleFlags"}, {"mp4", "nrAudioSampleBytesBeforeChildren"}} {
		v, ok := constInt(parseDir(*repo, c.dir), c.name)
		if !ok {
			v = -1
		}
		fmt.Fprintf(&b, "def const_%s : Int := %d\n", c.name, v)
	}
	// aac tables
	aac := parseDir(*repo, "aac")
	fk, fv := mapKeys(aac, "FrequencyTable")
	rk, rv := mapKeys(aac, "ReverseFrequencies")
	pair := func(k, v []string) string {
		var p []string
		for i := range k {
			p = append(p, fmt.Sprintf("(%s, %s)", k[i], v[i]))
		}
		return "[" + strings.Join(p, ", ") + "]"
	}
	fmt.Fprintf(&b, "\n/-- aac.FrequencyTable (index, Hz) -/\ndef aacFrequencyTable : List (Nat × Nat) := %s\n", pair(fk, fv))
	fmt.Fprintf(&b, "/-- aac.ReverseFrequencies (Hz, index) -/\ndef aacReverseFrequencies : List (Nat × Nat) := %s\n", pair(rk, rv))
	// globals
	b.WriteString("\n/-- package-level variables: (package, name, kind, functions that write it) -/\ndef globals : List (String × String × String × List String) := [\n")
	first := true
	for _, dir := range []string{"aac", "av1", "avc", "bits", "hevc", "mp4", "sei"} {
		for _, g := range globals(*repo, dir) {
			if !first {
				b.WriteString(",\n")
			}
			first = false
			fmt.Fprintf(&b, "  (%q, %q, %q, %s)", g.pkg, g.name, g.kind, leanStrList(g.writers))
		}
	}
	b.WriteString("]\n")
	b.WriteString(transcribedFacts(*repo, *spec))
	b.WriteString("\nend Mp4ff.Generated\n")
	if *out == "" {
		fmt.Print(b.String())
		return
	}
	os.MkdirAll(*out, 0o755)
	target := filepath.Join(*out, "Facts.lean")
	old, _ := os.ReadFile(target)
	if string(old) != b.String() { // keep mtime when unchanged so lake does not rebuild needlessly
		if err := os.WriteFile(target, []byte(b.String()), 0o644); err != nil {
			fmt.Fprintln(os.Stderr, err)
			os.Exit(1)
		}
	}
	fmt.Println("facts written:", target)
}
