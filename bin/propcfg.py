# per-property configuration for bin/check
PROPS = {
    "C13": {
        "level": "proof",
        "technique": "Lean 4 proof (induction over op lists / refinement accumulator -> bit string -> escaped bytes) + model-vs-code correspondence",
        "level_text": "Theorems in lean/Mp4ff/Props/C13.lean hold for every field/ue/se sequence and every payload (no size bound): plain and EBSP round trips, EBSP output = escape(plain output), no forbidden triple, unescape∘escape = id, escapes only where required, counters count escaped bytes. The model is the transcription of the Go accumulator code; the tie is an exhaustive (alphabet strings) + random correspondence run against the real package on every check.",
        "level_note": "Trusted: Lean kernel; axioms propext/Classical.choice/Quot.sound only; the hand transcription bits/*.go -> Model/Bits.lean (validated by correspondence, not proved); Go uint = 64 bit. io error paths and widths > 56 are outside the theorems.",
        "trusted": ["model Mp4ff/Model/Bits.lean is a hand transcription of bits/{writer,reader,ebspwriter,ebspreader,fixedslicewriter}.go, tied by the correspondence run only"],
        "unmodelled": ["io.Writer/io.Reader error paths (writer stops at first error)", "EBSPReader.MoreRbspData/ReadRbspTrailingBits (modelled under C17)", "bits.Reader.ReadSigned, ByteWriter (byte-level big-endian output)"],
        "partial": [],
        "assumptions": ["Go uint is 64 bit", "widths <= 56 in the theorems (property asks 1..32)"],
    },
}

PROPS["C14"] = {
    "level": "proof",
    "technique": "Lean 4 proof (word-trick lane lemma, walkers over length-prefixed lists by induction) + model-vs-code correspondence",
    "level_text": "Model lean/Mp4ff/Model/Nalu.lean transcribes both start-code scanners, both conversions and every AVC/HEVC walker; theorems in Props/C14.lean; tie = correspondence on well-formed streams (all helpers) and arbitrary strings (scanners) on every run; streams with a NAL unit of 2^24 bytes and more (length field beyond its low three bytes) are run through the real code and the direct oracle only - the list-based model is not executed on them, its conversion theorems hold for every size.",
    "level_note": "Trusted: Lean kernel, allowed axioms only, hand transcription validated by correspondence; amd64 little-endian 64-bit words.",
    "trusted": ["Model/Nalu.lean hand transcription of avc/annexb.go, avc/nalus.go, avc/avc.go, hevc/hevc.go, hevc/annexb.go"],
    "unmodelled": [],
    "partial": [],
    "assumptions": ["uint is 64 bit, little endian (amd64)"],
}

PROPS["C18"] = {
    "level": "proof",
    "technique": "Lean 4 proof (bit round trip lemmas instantiated on the ASC and ADTS syntaxes; sync search by induction on the junk) + complete-grid correspondence",
    "level_text": "Model lean/Mp4ff/Model/Aac.lean transcribes AudioSpecificConfig encode/decode and ADTS encode/decode (188-iteration sync search) on the proved bit writer/reader; theorems in Props/C18.lean cover the whole domain by proof, not enumeration; the tie is the complete finite grid run against the Go code on every check (all 13x8x8185 ADTS headers, all junk lengths 0..187 with random junk and with junk made of sync-word fragments (ff runs, ff right before the sync word, ff + near-sync bytes), 188..200 junk bytes and streams without a sync word, 77 frequencies x 16 channels x 3 object types; sequences of encode/decode calls whose results are held and compared after the last call: the model answers each call on its own), plus, in Props/C18b.lean on Model/Esds.lean (mp4/esds.go + mp4/descriptors.go: ES / DecoderConfig / DecSpecificInfo / SLConfig / raw descriptors, tag + variable-length size coding incl. the padded 0x80 forms, what the decoder accepts vs. what the encoder writes, CreateEsdsBox): decode(encode e) = e for every well-formed descriptor tree, bytes written = Size(), encode(decode bs) = bs up to the dropped trailing bytes, the decoder is total with a decoded tree bounded by the input, and the end-to-end clause: for every configuration in AscDom the esds created from its AudioSpecificConfig, encoded and decoded, carries bytes that decode back to that configuration. Tie: ops esds.create / esds.dec / esds.rt on boxes created from the generated configurations, the repository's esds boxes, random descriptor trees in every size-field form and their mutations (accept/reject, error class, re-encoding compared); the AAC sample entry path through the mp4 package is also checked by the direct oracle.",
    "level_note": "Trusted: Lean kernel, allowed axioms, hand transcription validated by correspondence.",
    "trusted": ["Model/Aac.lean hand transcription of aac/aac.go, aac/adts.go", "Model/Esds.lean hand transcription of mp4/esds.go, mp4/descriptors.go (sticky-error slice reader, uint64/byte wraps of the size coding, signed int(size) arithmetic)"],
    "extra_props": ["C18b"],
    "unmodelled": ["mp4/audiosamplentry.go (the mp4a box around the esds) and TrakBox.SetAACDescriptor plumbing: direct oracle only", "CreateEsdsBox with a decoder configuration above 104 bytes is outside the round-trip theorems (its one-byte descriptor size fields wrap, createEsds_wf needs <= 104; the AudioSpecificConfig domain stays below: theorem asc_length); the model transcribes the wrap and is compared with the code there too (esds.create up to 130 bytes here, 0..131 / around 2^14 under C02, where Size() = bytes written = header field is proved for every length: Props/C02b.lean)"],
    "partial": [],
    "assumptions": [],
}

PROPS["C17"] = {
    "level": "proof",
    "technique": "Lean 4 proof (framing through the proved EBSP writer/reader refinement; typed payload syntaxes by bit round trip) + model-vs-code correspondence",
    "level_text": "Model lean/Mp4ff/Model/Sei.lean transcribes WriteSEIMessages/ExtractSEIData (0xFF-run coding, MoreRbspData look-ahead with state restore, trailing bits) and the typed messages with a serialiser (136, 137, 144, AVC pic timing incl. Size()); theorems in Props/C17.lean; tie = correspondence on message lists and typed values every run; pass-through messages by direct oracle. Complete SEI NAL units through avc.ParseSEINalu / hevc.ParseSEINalu (header test + framing modelled as parseSEINalu, theorem sei_nalu_roundtrip; the per-message decoder dispatch is not modelled: on these lines every typed payload is valid for its decoder) are compared with the model and by direct oracle, with 1..3 NAL units parsed before any returned list is inspected.",
    "level_note": "Trusted: Lean kernel, allowed axioms, hand transcription validated by correspondence. HEVC pic timing / CEA-608 / registered / unregistered user data are pass-through (payload returned unchanged): oracle only.",
    "trusted": ["Model/Sei.lean hand transcription of sei/sei.go, sei136.go, sei137.go, sei144.go, sei1_avc.go, bits/ebspreader.go (MoreRbspData), and of the header test of avc/sei.go, hevc/sei.go"],
    "unmodelled": ["sei4.go/sei5.go/sei1_hevc.go decoders (pass-through: direct oracle only)", "the decoder dispatch by type / codec / SPS inside ParseSEINalu and DecodeSEIMessage (direct oracle + correspondence on (type, payload) only)", "String() methods"],
    "partial": [],
    "assumptions": ["typed message values are canonical (fields the syntax does not carry are zero), as produced by the decoders"],
}

PROPS["C09"] = {
    "level": "proof",
    "technique": "Lean 4 proof (loop invariants for the run-length walks, binary-search invariants over the cached cumulative arrays) + exhaustive-per-table correspondence",
    "level_text": "Model lean/Mp4ff/Model/SampleTables.lean transcribes every query loop for loop (incl. the three binary searches, the cached FirstSampleNr/EndSampleNr and uint32/uint64 arithmetic) next to the naive per-sample expansion; theorems in Props/C09.lean; tie = every query on every sample number / interval / chunk / time of randomly generated consistent tables, real boxes built through the encoders+decoders.",
    "level_note": "Trusted: Lean kernel, allowed axioms, hand transcription validated by correspondence. CopySampleData's copy loop is modelled under C08; here it is queried directly (both decode modes, files with one or several mdat boxes) against the bytes the tables point to.",
    "trusted": ["Model/SampleTables.lean hand transcription of mp4/stts.go ctts.go stsc.go stsz.go stco.go co64.go stss.go sdtp.go trak.go"],
    "unmodelled": ["File.CopySampleData (modelled under C08; direct oracle here)", "GetTimeCode (time.Duration convenience)"],
    "partial": [],
    "assumptions": ["tables are consistent (ISO 14496-12): first_chunk strictly increasing from 1, samples_per_chunk > 0, stss strictly increasing, totals agree, sums below 2^32 / 2^64"],
}

PROPS["C08"] = {
    "level": "proof",
    "tools": ["examples/segmenter"],
    "technique": "Lean 4 proof (buffered copy loop invariant for every work-buffer length; range arithmetic) + model-vs-code correspondence + whole-file lazy/eager comparison",
    "level_text": "Model lean/Mp4ff/Model/Mdat.lean transcribes ReadData/CopyData (both modes), the lazy header-only Encode and the CopySampleData chunk walk with its work-buffer refill loop; theorems in Props/C08.lean (all ranges, all work-buffer lengths); tie = correspondence on synthetic files with boundary ranges and on generated sample tables, plus both-mode decoding of generated progressive files and the repository's test files (same tree, sizes, positions). The segmenter example is built from the working tree on every run and run with and without -lazy on generated progressive files of varied chunk layouts: byte-identical output files, bytes behind every mdat header = what header and truns announce = the samples' bytes in the input; its lazy write path (copyMediaData, a second copy of the CopySampleData chunk walk) is tied to the model's chunk walk (op `seg.copy`: model byte ranges of the segment's sample interval vs the bytes the tool copied behind the header-only mdat).",
    "level_note": "Trusted: Lean kernel, allowed axioms, hand transcription validated by correspondence; io.ReadSeeker over a file behaves like a cursor over a byte list (Read delivers min(len, available)). The segmenter is package main, observed through its output files (the replay re-runs the binary). The third copy of the chunk walk (mp4ff-crop writeMdat) is exercised through C10 binary runs.",
    "trusted": ["Model/Mdat.lean hand transcription of mp4/mdat.go, mp4/file.go CopySampleData, mp4/box.go DecodeBoxLazyMdat"],
    "unmodelled": ["DecodeFile top-level loop in lazy mode (whole-file oracle only)", "segmenter GetFullSamplesForInterval (-m -lazy) and fragment writing (direct oracle: both modes byte-identical); crop writeMdat (C10)"],
    "partial": [],
    "assumptions": ["ranges lie inside the mdat payload (the property's 'valid' ranges)"],
}

_BOX_UNMODELLED = ["boxes without a layout term (skeleton-only): the containers outside Model/Tree.lean (meta, ilst, tref, the audio sample entries - whose two decoders differ on inputs neither reproduces exactly, so one model function cannot answer for both -, stpp, evte, wvtt cue boxes) and avcC/hvcC, senc, sgpd, uuid, mdat, elng and `url ` (layout chosen by look-ahead on the payload), the tref child types (count = payload length / 4), colr/tfra/tlou/alou/dec3/silb/ssix (partly reserved bit fields or size-dependent acceptance), ilst/data (known finding), meta, trep, stpp/wvtt entries: covered by the direct oracle (four code paths, masks from the committed list) only; the esds box has no layout term either but its own model (Model/Esds.lean, ops esds.dec / esds.rt / esds.create), the mp4a / enca entries around it are direct oracle only",
                   "Info text", "File-level top loops (direct oracle on whole files, both decoders, both encoders, both modes)"]
PROPS["C01"] = {
    "level": "proof",
    "technique": "Lean 4 proof (generic layout DSL: encode∘decode = id outside computed don't-care positions, fixed point) + model-vs-code correspondence on every box + committed don't-care list",
    "level_text": "Generic theorems over the layout DSL (lean/Mp4ff/Model/Layout.lean) hold for every layout and every byte string; the 64 hand-modelled box layouts (Model/Boxes.lean) are tied to the Go decoders/encoders by the box.rt correspondence (accept/reject, Size(), re-encoded bytes) on every box of the repository's media and their structured mutations; all registered types and whole files go through the direct oracle with the committed don't-care list. Nesting (Props/C01b.lean on Model/Tree.lean, the transcription of DecodeContainerChildren[SR] / EncodeContainer / the AddChild methods of the 15 plain containers incl. MoovBox.AddChild's trak placement, edts/traf acceptance, the child-size cross check; and the containers with a fixed-syntax prefix: stsd and dref (full box + entry count that must equal the number of children) and the eight visual sample entries avc1 avc3 hvc1 hev1 encv av01 vp08 vp09 (78 bytes incl. the counted compressor name and its padding); a box whose type is not in the decoder registry REGENERATED from mp4/box.go on every run (Generated.decoderKeys) is an UnknownBox and is kept verbatim): an accepted container re-encodes to exactly its input length (container_length), its header field equals the bytes written at every level (header_field), and the re-encoded tree equals the input outside the leaves' don't-care positions shifted to their place (lossless, no moov reordering on the way); the output is a fixed point (fixed_point: decoding it again succeeds and re-encoding gives the same bytes); fuel sufficiency (fuel_mono, roundTripTree_stable). Tie: op tree.rt on every plain container of the repository's media whose leaves are modelled and on trees composed from model-generated leaves (box.gen, Model/BoxGen.lean: boxes drawn from the layout terms themselves, so every flag / version / count shape the model allows reaches the four Go code paths). The esds box (Props/C01c.lean on Model/Esds.lean, the transcription of mp4/esds.go + mp4/descriptors.go): every accepted payload is re-encoded bit for bit up to the end of the ES descriptor - descriptor order at every level (the SLConfig slot is only taken by the descriptor directly after the DecoderConfig), every size-field length, unknown tags and unknown trailing data - the only normalisation being the committed trailing-dropped one (esds_reencode_exact); decode(encode e) = e on well-formed trees. Tie: ops esds.dec / esds.rt on descriptor trees with optional / unknown descriptors at every position (before / between / after the DecoderConfig and SLConfig descriptors, inside the DecoderConfig around its DecSpecificInfo) in minimal, 4-byte padded and mixed size-field forms, and on random descriptor trees; the same boxes alone, in mp4a and in stsd > mp4a through the direct oracle.",
    "level_note": "Trusted: Lean kernel, allowed axioms, hand transcription of layouts validated by correspondence; unmodelled box types are covered by the direct oracle only (listed in the evidence).",
    "extra_props": ["C01b", "C01c"],
    "trusted": ["Model/Layout.lean + Model/Boxes.lean: layout terms hand-transcribed from mp4/<box>.go for 64 box types, validated by the box.rt correspondence", "Model/Tree.lean: hand transcription of mp4/container.go and the plain containers' decoders / AddChild methods, validated by the tree.rt correspondence", "Model/BoxGen.lean (generator; no theorem depends on it: what it emits is filtered through the model's own roundTrip)", "Model/Esds.lean hand transcription of mp4/esds.go, mp4/descriptors.go, validated by the esds.dec / esds.rt correspondence", "spec/C01-dontcare.json (committed list), audited against the model and the code"],
    "unmodelled": _BOX_UNMODELLED,
    "partial": ["field-level model covers 64 of the 134 registered box types; the rest are exercised by the direct oracle"],
    "assumptions": [],
}
PROPS["C02"] = {
    "level": "proof",
    "technique": "Lean 4 proof (box tree: Size = length of encoding = header field, container = header + children; layout DSL size) + model-vs-code correspondence + regenerated source constants",
    "level_text": "Theorems in Props/C02.lean hold for every box tree (mutual structural induction); per-box sizes are tied by the box.rt correspondence (Go Size() vs model size on every case) and the direct oracle checks Size() before/after, bytes written, every header size field (independent box walker), encode twice with Info in between, io.Writer vs SliceWriter, on boxes, fragments, segments, init segments and files. The esds box (Props/C02b.lean on Model/Esds.lean): a descriptor size field is written in exactly sizeFieldSizeMinus1+1 bytes whatever its value, so Encode writes Size() bytes and the header carries that number for EVERY descriptor tree, in particular for CreateEsdsBox with a decoder configuration of any length (created_written; above 104 bytes the one-byte descriptor size fields wrap, the sizes still agree). Tie: esds.create on configurations of 0..131 bytes, around 2^14 and larger, esds.dec / esds.rt on descriptor trees in every size-field form; the built boxes (alone, in stsd > mp4a, in an init segment, with CreateRawDescriptor children of every size-field length) also go through the built-structure oracle (Size() before / after, Encode, EncodeSW exact and with room to spare, header fields).",
    "level_note": "Trusted: Lean kernel, allowed axioms, transcription validated by correspondence.",
    "extra_props": ["C02b"],
    "trusted": ["Model/Layout.lean + Model/Boxes.lean: layout terms hand-transcribed from mp4/<box>.go for 64 box types, validated by the box.rt correspondence", "Model/Esds.lean hand transcription of mp4/esds.go, mp4/descriptors.go (Size / SizeSize / writeDescriptorSize / CreateEsdsBox), validated by the esds.create / esds.rt correspondence", "spec/C01-dontcare.json (committed list), audited against the model and the code"],
    "unmodelled": _BOX_UNMODELLED,
    "partial": [],
    "assumptions": [],
}
PROPS["C03"] = {
    "level": "proof",
    "technique": "Lean 4 (kernel-decided obligations on facts regenerated from the two decoder registries) + four-path correspondence (DecodeBox/DecodeBoxSR x Encode/EncodeSW) against the single model",
    "level_text": "The model has one codec per box; the regenerated registry facts (same key set, DecodeX/DecodeXSR pairing) are kernel-checked on every run, and every case runs both Go decoders and both Go encoders and compares them with each other (bytes, error class, structure via Info, grouping and start positions at file level) and with the model.",
    "level_note": "Trusted: Lean kernel, the fact extractor (go/ast), correspondence harness.",
    "trusted": ["Model/Layout.lean + Model/Boxes.lean: layout terms hand-transcribed from mp4/<box>.go for 64 box types, validated by the box.rt correspondence", "spec/C01-dontcare.json (committed list), audited against the model and the code"] + ["fact extractor /verif/extract (registry keys and decoder function names)"],
    "unmodelled": _BOX_UNMODELLED,
    "partial": ["interchangeability of the separately written Go pairs is established by correspondence, not by a Lean theorem about two transcriptions"],
    "assumptions": [],
}

PROPS["C05"] = {
    "level": "proof",
    "technique": "Lean 4 proof (trun default resolution and optimisation invariance, data-offset arithmetic) + history correspondence/oracle through both encoders and both decoders",
    "level_text": "Histories of sample additions (all five addition APIs, 1..4 tracks, 1..4 fragments per segment, optimisation on/off, both encoders, extra boxes; slice APIs called in several batches from caller-owned slices that the caller re-uses, overwrites or carves from one array afterwards) are encoded, decoded with their init through both decode paths and compared sample by sample with the values that were added; the same built segment is also taken through sequences of Size/Info/explicit optimisation/Encode/EncodeSW and every output must read back; the Lean model covers the trun/tfhd layout (C01 layouts), default-value resolution, OptimizeTfhdTrun (any number of passes: idempotence) and SetTrunDataOffsets.",
    "level_note": "Trusted: Lean kernel, allowed axioms, transcription validated by correspondence. Valid histories: existing track ids, per-track contiguous decode times (the API stores only the first sample's time), sizes < 2^31.",
    "trusted": ["Model/Frag.lean hand transcription of mp4/fragment.go, traf.go (OptimizeTfhdTrun), trun.go (AddSampleDefaultValues, GetFullSamples)"],
    "unmodelled": ["MediaSegment/Fragment container plumbing (direct oracle)", "emsg/prft/free/uuid extra boxes (direct oracle)"],
    "partial": ["the full state-machine theorem (all interleavings) is proved for the per-run resolution/optimisation/offset core; the composition with moof encode/decode is tied by correspondence"],
    "assumptions": ["decode times contiguous per track", "track ids exist"],
}

_CRYPTO_TRUSTED = ["Model/Cenc.lean hand transcription of mp4/crypto.go (protect ranges, AppendProtectRange, CTR over ranges, CBC pattern cipher, incrementIV)",
                   "Model/Aes.lean: executable AES-128 used only to instantiate the abstract block cipher in the driver; validated by FIPS-197 vectors (#guard) and differentially against Go crypto/aes on every run; no theorem depends on it",
                   "Go crypto/aes and crypto/cipher are AES / CTR / CBC"]
PROPS["C07"] = {
    "level": "proof",
    "technique": "Lean 4 proof (sub-sample mask = standard's mask for every well-formed sample; CTR/CBC-pattern modes over an abstract block cipher; IV arithmetic) + function- and fragment-level correspondence with an independent reference cipher",
    "level_text": "Model lean/Mp4ff/Model/Cenc.lean transcribes the range computation for AVC/HEVC under cenc and cbcs (uint32 arithmetic; for cbcs parametric in the slice header size), AppendProtectRange, CryptSampleCenc, cbcsCrypt/cryptSampleCbcs and incrementIV, parametric in the block cipher; theorems in Props/C07.lean (cenc and cbcs masks for every well-formed sample); Model/Protect.lean transcribes the box bookkeeping of EncryptFragment (8-byte caller IV zero-extended before the one-byte size check, saiz/saio/senc appended, per-sample auxiliary sizes, saio offset walk, SetTrunDataOffsets in Fragment.Encode + DecodeFile), theorems in Props/C06b.lean (saiz/saio/senc consistency for every fragment and caller IV length: entries = bytes written, offset + sum = end of senc, or refused); tie = model-vs-code correspondence on ranges (cenc: synthetic samples; cbcs: generated AVC access units, the model composing Model/AvcSlice.lean slice header sizes with the range computation on the serialiser's parameter-set values), CTR/CBC outputs (Lean AES in the driver), IV increments and prot.enc / prot.enciv (caller IV 8/16/invalid x sub-sample entries swept around the saiz byte limit), plus direct oracles: cbcs sub-sample maps against the slice header byte lengths known to the independent AVC serialiser (C15 generator), library-encrypted fragments (repository segments and generated AVC tracks) against crypto/cipher reference implementations, CENC well-formedness (partition, clear headers, saiz/saio/senc consistency incl. an independent byte-level parse of the written boxes, IV sequence).",
    "level_note": "Trusted: Lean kernel, allowed axioms, transcription validated by correspondence; AES itself is not verified. cbcs slice-header sizes come from the slice header parsers (theorems: C15; here AVC is tied end to end by the cbcs.avcranges correspondence and the serialiser oracle, HEVC only through the repository segment and the reference cipher).",
    "trusted": _CRYPTO_TRUSTED,
    "extra_props": ["C06b"],
    "unmodelled": ["second-phase parse of the senc payload bytes (assumed to succeed in Model/Protect.lean)", "int32 wrap of data offsets, tfhd base-data-offset, sort.Slice ties in the trun write order", "cbcs slice header size as a theorem (protectRanges_cbcs holds for every header size function; the AVC parser model of C15 is composed with it in the driver and compared with the code on generated access units; HEVC cbcs header sizes: C15 only)"],
    "partial": [],
    "assumptions": ["samples are well-formed (length-prefixed, non-empty NAL units, total < 2^32)"],
}
PROPS["C06"] = {
    "level": "proof",
    "technique": "Lean 4 proof (CTR involution over the same sub-sample map; CBC pattern decrypt∘encrypt = id from D∘E = id; clear bytes untouched) + encrypt→decrypt round trips through the library API",
    "level_text": "Theorems in Props/C06.lean hold for every sample, every sub-sample map that fits, every IV, every crypt/skip pattern, over an abstract block cipher with D∘E = id; theorems in Props/C06b.lean (model lean/Mp4ff/Model/Protect.lean: boxes with sizes, offsets and positions) hold for every fragment structure: decrypt ∘ write ∘ encrypt restores boxes, order, sizes, trun data offsets and the mdat position, non-protection boxes are kept unchanged, offsets move by exactly the moof growth, the protected sample entry is restored; tie = the C07 correspondence, the prot.enc / prot.enciv / prot.lay / prot.dec / prot.all / prot.init / prot.deinit correspondence ops (real EncryptFragment / Encode+DecodeFile / DecryptFragment / InitProtect / DecryptInit on generated and synthetic fragments, caller IV lengths 8 / 16 / invalid, sub-sample entries swept around the saiz byte limit) plus fragment-level round trips (AVC/HEVC/AAC and generated AVC tracks with slice headers of every kind, cenc/cbcs, 8/16-byte IVs incl. all-ff, 1..3 fragments, extra boxes incl. vendor uuid, free and unknown boxes) comparing samples, timing, sample entry type and every non-protection box with the clear input.",
    "level_note": "Trusted: as C07, plus Model/Protect.lean (hand transcription of the structure side of mp4/crypto.go, validated by the prot.* correspondence ops).",
    "trusted": _CRYPTO_TRUSTED + ["Model/Protect.lean: hand transcription of EncryptFragment / DecryptFragment / InitProtect / DecryptInit at the level of boxes with sizes, offsets and positions (no payload bytes)"],
    "extra_props": ["C06b"],
    "unmodelled": ["second-phase parse of the senc payload bytes, GetFullSamples errors, int32 wrap of offsets, tfhd base-data-offset (Model/Protect.lean assumes them away; direct oracle covers them)", "multi-traf encryption (the library refuses more than one traf; `encryptAll` is a generalisation compared against a harness composition of the box API)", "mp4ff-encrypt/mp4ff-decrypt CLI glue"],
    "partial": [],
    "assumptions": [],
}

PROPS["C12"] = {
    "level": "proof",
    "tools": ["examples/add-sidx"],
    "technique": "Lean 4 proof (grouping state machine: every moof in exactly one fragment of one segment, in order, for every delimiter configuration; sidx tiling arithmetic; MediaSegment.Size of the grouped segments = their written extent and a new index sits at the first byte of the first segment, by an invariant of File.AddChild) + model-vs-code correspondence on generated fragmented files and API modification histories",
    "level_text": "Model lean/Mp4ff/Model/Segments.lean transcribes File.AddChild (styp/sidx/emsg/moof/mdat) and startSegmentIfNeeded (sidx references counted over all top-level sidx boxes from their anchor points, tfra offsets, start-on-moof, default), and what UpdateSidx computes from the segments (Fragment.Size, MediaSegment.Size, MediaSegment.FirstBox, insertSidx's placement, first_offset) also after Fragment.AddEmsg / Fragment.AddChild / MediaSegment.AddFragment / File.AddMediaSegment / a styp set on a segment; theorems in Props/C12.lean; tie = the grouping of every generated file (all delimiter kinds incl. references spread over 2..4 top-level sidx boxes with/without a parent index, x both flags; sidx-delimited files also with a disturbed index) is computed by model and code and compared, and so are the referenced sizes, first_offset and the place of a new index after UpdateSidx on decoded files modified through the public API (usidx lines), plus direct oracles: segment-mode re-encoding byte-identical, and after UpdateSidx+Encode the written index is parsed independently and checked to tile the written media with the reference track's durations - for unmodified files, for files modified through the public API (segment mode) and for box-tree-mode output, through Encode and EncodeSW.",
    "level_note": "Trusted: Lean kernel, allowed axioms, transcription validated by correspondence; the sizes and placement part of findSegmentData/fillSidx/insertSidx is modelled and compared, their durations/EPT part is exercised by the direct oracle (independent sidx parser).",
    "trusted": ["Model/Segments.lean hand transcription of mp4/file.go AddChild + startSegmentIfNeeded + the size/placement part of UpdateSidx (mediasegment.go Size/FirstBox, fragment.go Size/AddEmsg/AddChild)"],
    "unmodelled": ["durations and earliest presentation time in UpdateSidx (findSegmentData over the reference track), segment-level sidx boxes in MediaSegment.Size, the encoders (what Encode/EncodeSW write in either mode: direct oracle on the written bytes), and the examples/add-sidx tool (built from the working tree on every run; options -removeEnc, -nzEPT, -startSegOnMoof): direct oracle on the written file"],
    "partial": [],
    "assumptions": ["single-run fragments carry the canonical data offset (fragments produced by the library)"],
}


PROPS["C19"] = {
    "level": "proof",
    "technique": "Lean 4 proof (invariant by induction over AddEmptyTrack histories: ids 1..n, trex ids, next id, moov child order; MoovBox.AddChild adjacency for arbitrary child sequences; 15-bit language packing round trip) + whole-encoding correspondence",
    "level_text": "Model lean/Mp4ff/Model/Init.lean transcribes CreateEmptyInit/AddEmptyTrack/CreateEmptyTrak/MoovBox.AddChild/MvexBox.AddChild/SetLanguage/CreateHdlr and produces the complete byte image of the init segment (sample entries opaque); theorems in Props/C19.lean; tie = for every generated history the model's bookkeeping state and every byte of InitSegment.Encode are compared with the real code, plus direct oracles on the built and the decoded tree (ids, trex, next id, handler/media header/language, sample-entry contents = supplied parameter sets from an independent writer, Size, decode both paths -> same Info dump and identical re-encoding, IsFragmented, single- and multi-track fragments read back through the decoded trex).",
    "level_note": "Trusted: Lean kernel, allowed axioms, hand transcription validated by the byte-exact correspondence; the Set...Descriptor bodies (sample entry construction) are exercised by the direct oracle only.",
    "trusted": ["Model/Init.lean hand transcription of mp4/initsegment.go, moov.go, mvex.go, mdhd.go (SetLanguage/GetLanguage), hdlr.go (CreateHdlr)"],
    "unmodelled": ["sample entry construction inside Set{AVC,HEVC,AAC,AC3,EC3,Wvtt,Stpp}Descriptor (opaque bytes in the model; checked by the direct oracle against independently written parameter sets)", "examples/initcreator CLI glue"],
    "partial": [],
    "assumptions": ["media types accepted by CreateHdlr (others panic by design: 'mediaType not supported')", "language tags are ASCII"],
}


PROPS["C20"] = {
    "level": "proof",
    "race": True,
    "technique": "Lean 4 proof (non-interference: in a machine whose steps touch only goroutine-private state every interleaving equals running alone) + source facts regenerated by the translator and closed by the kernel (no package-level variable is written outside the registry functions) + race-detector harness tying the machine's assumption to the code",
    "level_text": "Theorems in Props/C20.lean: interleaving_independent / schedules_equivalent for the abstract machine of Model/Conc.lean (any number of goroutines, any schedule), hidden_state_is_observable (a package-level cache breaks it), and no_hidden_state / globals_are_tables_or_errors about the list of package-level variables and their writers that /verif/extract regenerates from the Go sources on every run. The assumption of the machine (a step reads the shared input and writes only its own structures) is tied to the code by running every task alone and then all tasks in parallel goroutines under the Go race detector on shared read-only inputs, comparing per-goroutine digests with the solo digests and the input bytes before/after (every input slice is a window with cap > len into an arena with guard bytes behind it, so a write or append through a sub-slice a decoder retained is seen; protected streams cover cenc/cbcs with 8- and 16-byte per-sample and constant IVs, decoded from separate shared init and media-segment buffers with both decoder paths).",
    "level_note": "Trusted: Lean kernel, allowed axioms, the go/ast extractor (writes through pointers obtained from a package-level variable are flagged as address-taken), the Go race detector (happens-before, reports only races that occur in the explored schedules).",
    "trusted": ["/verif/extract globals pass (go/ast): assignments, inc/dec, address-taking and method calls on package-level variables", "Go race detector"],
    "unmodelled": ["the Go memory model itself (the abstract machine assumes sequentially consistent private state)", "races inside the standard library"],
    "partial": ["the step-locality assumption of the abstract machine is validated by the race harness on the explored schedules and inputs, not proved from the Go source", "no source fact lists the functions that write or append through a slice field a slice-reader decoder filled from the input buffer (needs type and alias information beyond the go/ast pass); such writes are found only when a task reaches them"],
    "assumptions": ["the box-decoder registries are not modified while goroutines run (as the property states)"],
}


TOOLS = ["cmd/mp4ff-crop", "examples/segmenter", "examples/resegmenter", "examples/combine-segs"]

PROPS["C10"] = {
    "level": "proof",
    "tools": TOOLS,
    "technique": "Lean 4 proof (every table-cropping routine against the naive per-sample expansion; cut point = number of samples starting before the end time; interleaved chunk layout) + model-vs-tool correspondence on the tables of the file the built mp4ff-crop binary writes + independent raw-byte oracle",
    "level_text": "Model lean/Mp4ff/Model/Crop.lean transcribes cmd/mp4ff-crop/main.go (findEndTime, findTrakEnds, cropStts/Stss/Ctts/Stsc/Stsz/Sdtp, fillTrakOutsAndByteRanges, byteRanges.addRange; Model/CropHdr.lean: the mvhd/tkhd/elst duration updates of writeUptoMdat) on the proved sample-table queries of C09; theorems in Props/C10.lean. Tie: the binary is built from the working tree on every run; for a sample of successful runs the tables of the input go through the model's `cropAll` and the result (k per track, every cropped table, every new chunk offset, the merged byte ranges; op `crophdr`: movie/track header durations and edit-list entries) is compared with the tables parsed from the output file; op `cropmdat` (small files of every input family): the model's new mdat payload `copied file (mergeRanges pieces)` — the object of `place_spec` / `mergeRanges_copied` — is compared byte for byte with the payload of the mdat the tool wrote (writeMdat). Inputs include files whose chunks are stored in any order inside mdat and files with additional top-level boxes (free/skip/uuid, empty mdat) around moov and the media; the model's layout (`pickMin`/`layout`) and `place_spec` assume no order of the chunk offsets. Direct oracle on every run: independent raw-byte expansion of input and output (own box walker and table parsing), expected k per track from the statement with exact rational arithmetic, prefix equality of bytes/durations/offsets/sync flags, chunk offsets inside the new mdat, mdat tiled exactly, header durations not above the originals.",
    "level_note": "Trusted: Lean kernel, allowed axioms, hand transcription validated by the correspondence; the tool is package main, observed only through its output file (the replay re-runs the binary).",
    "trusted": ["Model/Crop.lean + Model/CropHdr.lean hand transcription of cmd/mp4ff-crop/main.go", "the built binary is the observation point (no source hook)"],
    "unmodelled": ["mdhd durations (the tool leaves them unchanged: direct oracle only)", "position of the new mdat in the output (updateChunkOffsets sums the non-mdat top-level boxes; the model takes the payload start from the output file and predicts every chunk offset relative to it; direct oracle: offsets inside the one mdat, bytes equal)", "CLI flag parsing, file I/O"],
    "partial": [],
    "assumptions": ["table sums below 2^32 / 2^64", "chunk offsets below 2^62 (the tool's sentinel)"],
}

PROPS["C11"] = {
    "level": "proof",
    "tools": TOOLS,
    "technique": "Lean 4 proof (the three grouping algorithms split the sample sequence into consecutive groups whose concatenation is the input; interval partition of 1..N; sync starts) + correspondence of group sizes with the built tools / the library API + sample-conservation oracle on every output",
    "level_text": "Model lean/Mp4ff/Model/Segmenter.lean transcribes examples/segmenter/segment.go (getSegmentStartsFromVideo, getSegmentIntervals), examples/resegmenter/resegment.go (Resegment loop) and mp4/mediasegment.go (Fragmentify); lean/Mp4ff/Model/Combine.lean: examples/combine-segs as expansion with the input's trex followed by fresh runs per output track; theorems in Props/C11.lean. Tie: binaries built from the working tree on every run; group sizes computed by the model are compared with the number of samples in every output segment/fragment. Direct oracle: every output of every tool mode (segmenter single/lazy/mux/muxlazy, resegmenter, Fragmentify through the API, combine-segs) is decoded and expanded with GetFullSamples and the concatenated per-track sample sequence compared with the input's (count, bytes, durations, flags, composition offsets, decode times); every produced segment starts with a sync sample of the reference track.",
    "level_note": "Trusted: Lean kernel, allowed axioms, hand transcription validated by correspondence; examples are package main, observed through their output files.",
    "trusted": ["Model/Segmenter.lean hand transcription of the three grouping loops"],
    "unmodelled": ["sample copying (GetFullSamplesForInterval, copyMediaData, AddFullSampleToTrack): direct oracle only", "combine-segs: Model/Combine.lean composes the run read-back of C05 (tied by the C05 correspondence); the tool itself is observed by the direct oracle only (inputs incl. ones relying on trex defaults)", "init segment creation of the segmenter"],
    "partial": [],
    "assumptions": ["positive sample durations for the sync-start theorem of the segmenter's reference track", "sums of durations below 2^32 for Fragmentify's uint32 accumulator"],
}


PROPS["C04"] = {
    "level": "proof",
    "technique": "Lean 4 proof (the structural container walk is total on every byte string, linear in steps, and yields at most |input|/8 boxes) + model-vs-decoder correspondence on hostile inputs + isolated-worker exploration for the runtime clauses (panic, wall time, allocation) that no model can exhibit",
    "level_text": "PARTIAL by nature. Proved (Props/C04.lean, for every byte string): the transcription of DecodeHeaderSR / DecodeBoxSR / DecodeContainerChildrenSR / the DecodeFileSR loop (Model/Walk.lean) never leaves the input, spends at least 8 input bytes per box, so produces at most |input|/8 boxes, and terminates within |input|+2 nested steps (fuel sufficiency + monotonicity); the size check of the second-stage senc parser (Model/SencSize.lean: IV size from tenc/seig or inferred, announced sample count, per-sample bytes present; branch without sub-sample entries) never allocates more IV slots than the box has per-sample bytes and an accepted senc holds every IV it announces (senc_slots_le, senc_parse_fits; tied to SencBox.ParseReadBox by the `sencsize` op on IV sizes x payload lengths x boundary counts incl. the counts whose 32-bit product with the element size wraps). Tie: on mutated inputs that both decoders accept and Encode reproduces, the model's box skeleton must equal the decoded tree's. NOT provable in a model and decided by exploration instead: absence of Go panics, the time bound and the allocation bound of the real decoders, Info and both encoders; every input runs every entry point (DecodeFile with/without lazy mdat, ISM and start-on-moof flags, DecodeFileSR, DecodeBox, DecodeBoxSR), Info at three detail levels plus a per-box level, Encode/EncodeSW in both modes, in re-exec'd worker processes under RLIMIT_AS with a watchdog; time budget 1 s + 5 us/byte, allocation budget K*len + 16 MiB (K = 16 decode, 64 encode, 400 Info); suspected time/memory violations are re-run alone before they are reported.",
    "level_note": "Trusted: Lean kernel, allowed axioms; the walk model is validated by correspondence only on inputs the library itself round-trips (the decoders are lenient about leaf header sizes, which a header-size based model cannot follow); runtime.MemStats.TotalAlloc and wall clock as measured in the worker.",
    "trusted": ["Model/Walk.lean hand transcription of mp4/boxsr.go + mp4/container.go (structure only)", "Model/SencSize.lean hand transcription of the size check of mp4/senc.go ParseReadBox (branch without sub-sample entries)", "harness workers: RLIMIT_AS, watchdog, TotalAlloc accounting"],
    "unmodelled": ["every leaf decoder (except the senc size check above), Info method and encoder (runtime behaviour: exploration only)", "senc second stage with sub-sample entries (parseAndFillSamples: exploration and scenarios only)", "io.Reader short reads / failing readers", "inputs above 300 kB"],
    "partial": ["no-panic, time and memory clauses are decided by exploration (about 290 000 inputs quick, 2 000 000 thorough), not by proof; the theorem bounds only the structural walk"],
    "assumptions": [],
}


PROPS["C15"] = {
    "level": "proof",
    "technique": "Lean 4 proof (generic NAL-unit round trip for a bitstream-syntax DSL on the proved EBSP writer/reader; AVC SPS with VUI/HRD/scaling lists as a DSL term; picture size = the standard's derivation) + model-vs-parser correspondence on independently serialised SPS + independent-serialiser oracle for all eight syntaxes",
    "level_text": "Proved (Props/C15.lean): for every syntax expressible in the DSL of Model/BitSyn.lean and every in-range value assignment, the NAL unit written by an independent serialiser (emulation prevention, trailing bits) parses back to exactly those values with no error and every byte accounted for; instantiated for the full AVC SPS syntax as avc/sps.go reads it (Model/AvcSps.lean); the parser's width/height equals the standard's cropping derivation for every valid SPS (and a kernel-checked witness that this fails for value assignments the syntax excludes). Props/C15b.lean: the same for the AVC PPS (prefix syntax + more_rbsp_data look-ahead + tail sized by the SPS's chroma format), the AVC slice header (parameterised by the SPS/PPS maps: slice -> PPS -> SPS), the HEVC SPS (profile_tier_level with sub-layers, scaling lists, short-term RPS incl. inter-RPS prediction, long-term pictures, VUI/HRD, the four extensions, ImageSize = the standard's formula), the HEVC PPS (with range / multilayer / 3D / SCC extensions) and the HEVC slice header, each with a termination bound on every byte string. Tie: every generated NAL unit of these six syntaxes (and truncations and hostile variants of it) is parsed by the model and by the Go parser and the complete field records compared (ops avcspsm, avcppsm, avcslicem, hevcspsm, hevcppsm, hevcslicem; about 58 000 lines per quick run). Configuration records, codec strings and sample entries are decided by the direct oracle only; for all syntaxes the direct oracle also runs: the harness's own bit writer serialises random field values of each syntax (all profiles, scaling lists, poc types, frame/field, cropping, VUI/HRD, sub-layers, short-term RPS incl. inter prediction, extensions, pps id != sps id, several parameter sets per map, all slice types) and every exposed field, the derived size, the slice-header length and the record/codec-string contents are compared.",
    "level_note": "Trusted: Lean kernel, allowed axioms, hand transcription of avc/sps.go validated by correspondence; the harness's independent serialiser (c15_esgen.go, c15_eshevc.go).",
    "trusted": ["Model/AvcSps.lean hand transcription of avc/sps.go (ParseSPSNALUnit with full VUI)", "Model/AvcPps.lean, AvcSlice.lean, HevcSps.lean, HevcPps.lean, HevcSlice.lean: hand transcriptions of avc/pps.go, avc/slice.go, hevc/sps.go, hevc/pps.go, hevc/slice.go (reads of computed width as one condition per width, Read(48) as 16+32 bits, read-until-error loops capped by the bit length of the NAL unit: listed in the model file headers), validated by the avcppsm / avcslicem / hevcspsm / hevcppsm / hevcslicem correspondence ops", "harness serialiser of the ISO/IEC 14496-10 and 23008-2 syntaxes"],
    "extra_props": ["C15b"],
    "unmodelled": ["an AVC slice NAL unit that ends inside its header (the parser returns a partly zero-filled struct without error: compared as class `trunc` only)", "HEVC VPS (the library has no parser)", "decoder configuration records, codec strings, Set{AVC,HEVC}Descriptor: direct oracle only"],
    "partial": ["HEVC slice header: round trip at bit level and termination with the generic depth bound only (no closed-form fuel constant)"],
    "assumptions": ["values in range: u(k) fits, ue(v) < 2^32, se(v) within 32 bits"],
}


PROPS["C16"] = {
    "level": "proof",
    "technique": "Lean 4 proof (NAL-unit walkers total and bounded by the input on every byte string; every parser written in the syntax DSL is total with a syntactic bound on its output, instantiated for the AVC SPS) + model-vs-code correspondence on hostile inputs + isolated-worker exploration for the runtime clauses (panic, wall time, allocation)",
    "level_text": "PARTIAL by nature. Proved (Props/C16.lean, for every byte string): the length-prefixed walkers of avc/nalus.go, avc/avc.go, hevc/hevc.go, avc/annexb.go (Model/Nalu.lean, checked cursor) return only pieces of the input (sum of lengths + 4 per unit <= |s|), at most one type per 4 bytes, rewrite in place without changing the length, and stop within |s|+1 steps; every parser expressible in the bitstream-syntax DSL returns on every reader state within a purely syntactic fuel bound with at most a syntactic number of values, and for the AVC SPS these bounds are the constants 5124 steps / 1305 values; Props/C15b.lean gives the corresponding bounds, linear in the NAL unit length, for the AVC PPS, AVC slice header, HEVC SPS, HEVC PPS and HEVC slice header models. Tie: the models answer the same hostile inputs as the real helpers (54 000 lines per quick run: walkers on damaged length fields / short samples / random bytes, ADTS and AudioSpecificConfig decoders, SEI extraction and typed SEI decoders on short payloads, AVC SPS with bit flips / huge Exp-Golomb codes / random bodies) and the answers are compared. NOT provable in a model and decided by exploration: absence of Go panics, time and allocation of the 65 real entry points (avc, hevc, sei, aac, av1, and the library call sequences of mp4ff-nallister / mp4ff-pslister); each (entry point, input) pair runs in an isolated child process (RLIMIT_AS, GOMAXPROCS=1, marker before each entry point so that a dying worker names the culprit); oracle: returns, no panic, time <= 100 ms + 4 us/byte (re-run alone before reporting), TotalAlloc <= 512*len + 256 KiB.",
    "level_note": "Trusted: Lean kernel, allowed axioms, hand transcriptions validated by correspondence; harness workers (RLIMIT_AS, watchdog, TotalAlloc accounting).",
    "trusted": ["Model/Nalu.lean, Model/AvcSps.lean, Model/Aac.lean, Model/Sei.lean hand transcriptions", "harness workers and measurement"],
    "extra_props": ["C15b"],
    "unmodelled": ["configuration-record decoders, String()/Payload() methods: runtime exploration only"],
    "partial": ["no-panic, time and memory clauses are decided by exploration (about 4 000 000 evaluations quick, 48 000 000 thorough), not by proof; the theorems bound the modelled walkers and the AVC SPS parser"],
    "assumptions": [],
}

# reasons for properties that are not claimed (yet)
NOT_CLAIMED = {}
