# per-property configuration for bin/check
PROPS = {
    "C13": {
        "level": "proof",
        "technique": "Lean 4 proof (induction over op lists / refinement accumulator -> bit string -> escaped bytes) + model-vs-code correspondence",
        "level_text": "Theorems in lean/Mp4ff/Props/C13.lean hold for every field/ue/se sequence and every payload (no size bound): plain and EBSP round trips, EBSP output = escape(plain output), no forbidden triple, unescape∘escape = id, escapes only where required, counters count escaped bytes. The model is the transcription of the Go accumulator code; the tie is an exhaustive (alphabet strings) + random correspondence run against the real package on every check.",
        "level_note": "Trusted: Lean kernel; axioms propext/Classical.choice/Quot.sound only; the hand transcription bits/*.go -> Model/Bits.lean (validated by correspondence, not proved); Go uint = 64 bit. io error paths and widths > 56 are outside the theorems.",
        "trusted": ["model Mp4ff/Model/Bits.lean is a hand transcription of bits/{writer,reader,ebspwriter,ebspreader,fixedslicewriter}.go, tied by the correspondence run only"],
        "unmodelled": ["io.Writer/io.Reader error paths (writer stops at first error)", "EBSPReader.MoreRbspData/ReadRbspTrailingBits (modelled under C17)", "bits.Reader.ReadSigned, ByteWriter (byte-level big-endian output)"],
        "partial": [],
        "assumptions": ["Go uint is 64 bit", "widths <= 56 in the theorems (property asks 1..32)"],
    },
}

PROPS["C14"] = {
    "level": "proof",
    "technique": "Lean 4 proof (word-trick lane lemma, walkers over length-prefixed lists by induction) + model-vs-code correspondence",
    "level_text": "Model lean/Mp4ff/Model/Nalu.lean transcribes both start-code scanners, both conversions and every AVC/HEVC walker; theorems in Props/C14.lean; tie = correspondence on well-formed streams (all helpers) and arbitrary strings (scanners) on every run.",
    "level_note": "Trusted: Lean kernel, allowed axioms only, hand transcription validated by correspondence; amd64 little-endian 64-bit words.",
    "trusted": ["Model/Nalu.lean hand transcription of avc/annexb.go, avc/nalus.go, avc/avc.go, hevc/hevc.go, hevc/annexb.go"],
    "unmodelled": [],
    "partial": [],
    "assumptions": ["uint is 64 bit, little endian (amd64)"],
}

# reasons for properties that are not claimed (yet)
NOT_CLAIMED = {}
