# per-property configuration for bin/check
PROPS = {
    "C13": {
        "level": "proof",
        "technique": "Lean 4 proof (induction over op lists / refinement accumulator -> bit string -> escaped bytes) + model-vs-code correspondence",
        "level_text": "Theorems in lean/Mp4ff/Props/C13.lean hold for every field/ue/se sequence and every payload (no size bound): plain and EBSP round trips, EBSP output = escape(plain output), no forbidden triple, unescape∘escape = id, escapes only where required, counters count escaped bytes. The model is the transcription of the Go accumulator code; the tie is an exhaustive (alphabet strings) + random correspondence run against the real package on every check.",
        "level_note": "Trusted: Lean kernel; axioms propext/Classical.choice/Quot.sound only; the hand transcription bits/*.go -> Model/Bits.lean (validated by correspondence, not proved); Go uint = 64 bit. io error paths and widths > 56 are outside the theorems.",
        "trusted": ["model Mp4ff/Model/Bits.lean is a hand transcription of bits/{writer,reader,ebspwriter,ebspreader,fixedslicewriter}.go, tied by the correspondence run only"],
        "unmodelled": ["io.Writer/io.Reader error paths (writer stops at first error)", "EBSPReader.MoreRbspData/ReadRbspTrailingBits (modelled under C17)", "bits.Reader.ReadSigned, ByteWriter (byte-level big-endian output)"],
        "partial": [],
        "assumptions": ["Go uint is 64 bit", "widths <= 56 in the theorems (property asks 1..32)"],
    },
}

PROPS["C14"] = {
    "level": "proof",
    "technique": "Lean 4 proof (word-trick lane lemma, walkers over length-prefixed lists by induction) + model-vs-code correspondence",
    "level_text": "Model lean/Mp4ff/Model/Nalu.lean transcribes both start-code scanners, both conversions and every AVC/HEVC walker; theorems in Props/C14.lean; tie = correspondence on well-formed streams (all helpers) and arbitrary strings (scanners) on every run.",
    "level_note": "Trusted: Lean kernel, allowed axioms only, hand transcription validated by correspondence; amd64 little-endian 64-bit words.",
    "trusted": ["Model/Nalu.lean hand transcription of avc/annexb.go, avc/nalus.go, avc/avc.go, hevc/hevc.go, hevc/annexb.go"],
    "unmodelled": [],
    "partial": [],
    "assumptions": ["uint is 64 bit, little endian (amd64)"],
}

PROPS["C18"] = {
    "level": "proof",
    "technique": "Lean 4 proof (bit round trip lemmas instantiated on the ASC and ADTS syntaxes; sync search by induction on the junk) + complete-grid correspondence",
    "level_text": "Model lean/Mp4ff/Model/Aac.lean transcribes AudioSpecificConfig encode/decode and ADTS encode/decode (188-iteration sync search) on the proved bit writer/reader; theorems in Props/C18.lean cover the whole domain by proof, not enumeration; the tie is the complete finite grid run against the Go code on every check (all 13x8x8185 ADTS headers, all junk lengths 0..187, 77 frequencies x 16 channels x 3 object types), plus the AAC sample entry path through the mp4 package (oracle only).",
    "level_note": "Trusted: Lean kernel, allowed axioms, hand transcription validated by correspondence. esds/descriptor framing is exercised through the real code only.",
    "trusted": ["Model/Aac.lean hand transcription of aac/aac.go, aac/adts.go"],
    "unmodelled": ["mp4/esds.go + mp4/descriptors.go framing (exercised by the direct oracle through SetAACDescriptor -> encode -> decode)"],
    "partial": [],
    "assumptions": [],
}

PROPS["C17"] = {
    "level": "proof",
    "technique": "Lean 4 proof (framing through the proved EBSP writer/reader refinement; typed payload syntaxes by bit round trip) + model-vs-code correspondence",
    "level_text": "Model lean/Mp4ff/Model/Sei.lean transcribes WriteSEIMessages/ExtractSEIData (0xFF-run coding, MoreRbspData look-ahead with state restore, trailing bits) and the typed messages with a serialiser (136, 137, 144, AVC pic timing incl. Size()); theorems in Props/C17.lean; tie = correspondence on message lists and typed values every run; pass-through messages by direct oracle.",
    "level_note": "Trusted: Lean kernel, allowed axioms, hand transcription validated by correspondence. HEVC pic timing / CEA-608 / registered / unregistered user data are pass-through (payload returned unchanged): oracle only.",
    "trusted": ["Model/Sei.lean hand transcription of sei/sei.go, sei136.go, sei137.go, sei144.go, sei1_avc.go, bits/ebspreader.go (MoreRbspData)"],
    "unmodelled": ["sei4.go/sei5.go/sei1_hevc.go decoders (pass-through: direct oracle only)", "String() methods"],
    "partial": [],
    "assumptions": ["typed message values are canonical (fields the syntax does not carry are zero), as produced by the decoders"],
}

PROPS["C09"] = {
    "level": "proof",
    "technique": "Lean 4 proof (loop invariants for the run-length walks, binary-search invariants over the cached cumulative arrays) + exhaustive-per-table correspondence",
    "level_text": "Model lean/Mp4ff/Model/SampleTables.lean transcribes every query loop for loop (incl. the three binary searches, the cached FirstSampleNr/EndSampleNr and uint32/uint64 arithmetic) next to the naive per-sample expansion; theorems in Props/C09.lean; tie = every query on every sample number / interval / chunk / time of randomly generated consistent tables, real boxes built through the encoders+decoders.",
    "level_note": "Trusted: Lean kernel, allowed axioms, hand transcription validated by correspondence. CopySampleData is covered under C08.",
    "trusted": ["Model/SampleTables.lean hand transcription of mp4/stts.go ctts.go stsc.go stsz.go stco.go co64.go stss.go sdtp.go trak.go"],
    "unmodelled": ["File.CopySampleData (C08)", "GetTimeCode (time.Duration convenience)"],
    "partial": [],
    "assumptions": ["tables are consistent (ISO 14496-12): first_chunk strictly increasing from 1, samples_per_chunk > 0, stss strictly increasing, totals agree, sums below 2^32 / 2^64"],
}

PROPS["C08"] = {
    "level": "proof",
    "technique": "Lean 4 proof (buffered copy loop invariant for every work-buffer length; range arithmetic) + model-vs-code correspondence + whole-file lazy/eager comparison",
    "level_text": "Model lean/Mp4ff/Model/Mdat.lean transcribes ReadData/CopyData (both modes), the lazy header-only Encode and the CopySampleData chunk walk with its work-buffer refill loop; theorems in Props/C08.lean (all ranges, all work-buffer lengths); tie = correspondence on synthetic files with boundary ranges and on generated sample tables, plus both-mode decoding of generated progressive files and the repository's test files (same tree, sizes, positions).",
    "level_note": "Trusted: Lean kernel, allowed axioms, hand transcription validated by correspondence; io.ReadSeeker over a file behaves like a cursor over a byte list (Read delivers min(len, available)). The two other copies of the chunk walk (segmenter, mp4ff-crop) are exercised through C11/C10 binary runs.",
    "trusted": ["Model/Mdat.lean hand transcription of mp4/mdat.go, mp4/file.go CopySampleData, mp4/box.go DecodeBoxLazyMdat"],
    "unmodelled": ["DecodeFile top-level loop in lazy mode (whole-file oracle only)", "segmenter copyMediaData / crop writeMdat (C11/C10)"],
    "partial": [],
    "assumptions": ["ranges lie inside the mdat payload (the property's 'valid' ranges)"],
}

# reasons for properties that are not claimed (yet)
NOT_CLAIMED = {}
