package mp4_test

import (
	"bytes"
	"encoding/binary"
	"fmt"
	"testing"

	"github.com/Eyevinn/mp4ff/bits"
	"github.com/Eyevinn/mp4ff/mp4"
)

func TestZZK1EsdsLengths(t *testing.T) {
	for _, n := range []int{0, 2, 104, 105, 112, 113, 127, 128, 130, 16384} {
		cfg := make([]byte, n)
		for i := range cfg {
			cfg[i] = byte(i*7 + 1)
		}
		e := mp4.CreateEsdsBox(cfg)
		sz := e.Size()
		var buf bytes.Buffer
		err := e.Encode(&buf)
		sw := bits.NewFixedSliceWriter(int(sz) + 100)
		err2 := e.EncodeSW(sw)
		out := buf.Bytes()
		hdr := binary.BigEndian.Uint32(out)
		line := fmt.Sprintf("n=%d Size=%d Encode: err=%v len=%d hdr=%d | EncodeSW roomy: err=%v len=%d same=%v", n, sz, err, len(out), hdr, err2, len(sw.Bytes()), bytes.Equal(out, sw.Bytes()))
		// decode back
		b, derr := mp4.DecodeBox(0, bytes.NewReader(out))
		if derr != nil {
			line += fmt.Sprintf(" | decode err: %v", derr)
		} else {
			d := b.(*mp4.EsdsBox)
			got := []byte(nil)
			if d.DecConfigDescriptor != nil && d.DecConfigDescriptor.DecSpecificInfo != nil {
				got = d.DecConfigDescriptor.DecSpecificInfo.DecConfig
			}
			line += fmt.Sprintf(" | decode ok: Size=%d decConfigLen=%d equal=%v unk=%d", d.Size(), len(got), bytes.Equal(got, cfg), len(d.UnknownData))
		}
		t.Log(line)
	}
}
