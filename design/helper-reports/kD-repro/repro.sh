#!/bin/sh
# Reproductions of the mp4ff-nallister defects (helper kD). Usage: repro.sh <path to a built mp4ff-nallister>
# On b785f73 (before the fixes) every command ends with a Go panic (exit 2); with 6797f10 15661a3 34aa459: exit 0 or 1.
N=${1:-mp4ff-nallister}; cd "$(dirname "$0")"
printf '\000\000\001\000\000\001\147' > empty-nalu.264          # two start codes in a row, then an SPS header byte
printf '\000\000\001\116' > sei1.265                             # 1-byte HEVC prefix SEI NAL unit (header is 2 bytes)
set -x
$N -annexb empty-nalu.264                 # defect 1: isAvcAudNalu main.go:499
$N -annexb -c hevc empty-nalu.264         # defect 1: isHEVCAudNalu main.go:503
$N -annexb -c hevc -sei 1 sei1.265        # defect 2: printSEINALus main.go:424  slice bounds out of range [2:1]
# defect 3: avcC without SPS; file made by: cd <mp4ff tree> && go run <this dir>/mk_nosps.go <this dir>
$N nosps_init.mp4                         # parseFragmentedMp4 main.go:271 (same index in parseProgressiveMp4 main.go:171)
