//go:build ignore

// Writes nosps_init.mp4 (fragmented: init segment) and nosps_prog.mp4-like init whose avcC carries no SPS.
// Run from the library tree: cd /tmp/kD/repo && go run /tmp/kD/verif/design/helper-reports/kD-repro/mk_nosps.go <outdir>
package main

import (
	"encoding/hex"
	"os"
	"path/filepath"

	"github.com/Eyevinn/mp4ff/mp4"
)

func main() {
	sps, _ := hex.DecodeString("6764001eacd940a02ff9610000030001000003003c8f162d96")
	pps, _ := hex.DecodeString("68ebecb22c")
	init := mp4.CreateEmptyInit()
	init.AddEmptyTrack(90000, "video", "und")
	if err := init.Moov.Trak.SetAVCDescriptor("avc1", [][]byte{sps}, [][]byte{pps}, true); err != nil {
		panic(err)
	}
	init.Moov.Trak.Mdia.Minf.Stbl.Stsd.AvcX.AvcC.SPSnalus = nil
	f, err := os.Create(filepath.Join(os.Args[1], "nosps_init.mp4"))
	if err != nil {
		panic(err)
	}
	defer f.Close()
	if err := init.Encode(f); err != nil {
		panic(err)
	}
}
