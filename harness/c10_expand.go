package main

import (
	"encoding/binary"
	"fmt"
	"sort"
	"strings"
)

// Independent expansion of a progressive file into per-track sample lists, used by C10 (input and output of
// mp4ff-crop) and C11 (input of the segmenter). It works on the raw bytes of the file: boxes are located with
// the harness' own walker (walkBoxes) and the stts/ctts/stsc/stsz/stco/co64/stss/sdtp/mvhd/tkhd/mdhd/hdlr
// payloads are parsed here, not by the library.

type rawTrack struct {
	trackID   uint32
	hdlr      string
	timescale uint32
	mdhdDur   uint64
	tkhdDur   uint64
	hasStss   bool
	hasCtts   bool
	hasSdtp   bool
	hasEdts   bool
	co64      bool
	uniform   uint32
	n         int
	dur       []uint32
	dec       []uint64
	cto       []int32
	sync      []bool
	size      []uint32
	off       []uint64
	sdtp      []byte
	data      [][]byte
	chunkOff  []uint64
	chunkN    []int
	stsc      [][3]uint32
	sttsRuns  int
	total     uint64 // sum of durations
	problems  []string
}

type rawMdat struct {
	start, payload, end int
}

type rawProg struct {
	tracks        []*rawTrack
	mvhdTimescale uint32
	mvhdDur       uint64
	mdats         []rawMdat
	top           []string
	fragmented    bool
}

func be32(b []byte) uint32 { return binary.BigEndian.Uint32(b) }
func be64(b []byte) uint64 { return binary.BigEndian.Uint64(b) }

func (t *rawTrack) problem(f string, a ...interface{}) {
	if len(t.problems) < 8 {
		t.problems = append(t.problems, fmt.Sprintf(f, a...))
	}
}

// expandProg parses data. An error means the box structure itself cannot be read; table inconsistencies of a
// track are collected in rawTrack.problems (the per-sample lists are then filled as far as they are defined).
func expandProg(data []byte) (rp *rawProg, err error) {
	defer func() {
		if r := recover(); r != nil {
			rp, err = nil, fmt.Errorf("raw parse: %v", r)
		}
	}()
	var bx []rawBox
	walkBoxes(data, 0, "", &bx)
	rp = &rawProg{}
	covered := 0
	var cur *rawTrack
	type tbl struct {
		sttsC, sttsD []uint32
		cttsC        []uint32
		cttsO        []int32
		stss         []uint32
		sizes        []uint32
		nStsz        uint32
	}
	tbls := map[*rawTrack]*tbl{}
	for _, b := range bx {
		body := data[b.start+b.hl : b.start+b.size]
		if strings.Count(b.path, "/") == 1 {
			rp.top = append(rp.top, b.typ)
			if b.start != covered {
				return nil, fmt.Errorf("top-level boxes do not tile the file at %d", b.start)
			}
			covered = b.start + b.size
		}
		switch b.path {
		case "/moof":
			rp.fragmented = true
		case "/mdat":
			rp.mdats = append(rp.mdats, rawMdat{b.start, b.start + b.hl, b.start + b.size})
		case "/moov/mvhd":
			if body[0] == 1 {
				rp.mvhdTimescale = be32(body[20:])
				rp.mvhdDur = be64(body[24:])
			} else {
				rp.mvhdTimescale = be32(body[12:])
				rp.mvhdDur = uint64(be32(body[16:]))
			}
		case "/moov/trak":
			cur = &rawTrack{}
			tbls[cur] = &tbl{}
			rp.tracks = append(rp.tracks, cur)
		case "/moov/trak/tkhd":
			if body[0] == 1 {
				cur.trackID = be32(body[20:])
				cur.tkhdDur = be64(body[28:])
			} else {
				cur.trackID = be32(body[12:])
				cur.tkhdDur = uint64(be32(body[20:]))
			}
		case "/moov/trak/edts":
			cur.hasEdts = true
		case "/moov/trak/mdia/mdhd":
			if body[0] == 1 {
				cur.timescale = be32(body[20:])
				cur.mdhdDur = be64(body[24:])
			} else {
				cur.timescale = be32(body[12:])
				cur.mdhdDur = uint64(be32(body[16:]))
			}
		case "/moov/trak/mdia/hdlr":
			cur.hdlr = string(body[8:12])
		case "/moov/trak/mdia/minf/stbl/stts":
			n := int(be32(body[4:]))
			if len(body) != 8+8*n {
				return nil, fmt.Errorf("stts size")
			}
			t := tbls[cur]
			for i := 0; i < n; i++ {
				t.sttsC = append(t.sttsC, be32(body[8+8*i:]))
				t.sttsD = append(t.sttsD, be32(body[12+8*i:]))
			}
			cur.sttsRuns = n
		case "/moov/trak/mdia/minf/stbl/ctts":
			n := int(be32(body[4:]))
			if len(body) != 8+8*n {
				return nil, fmt.Errorf("ctts size")
			}
			cur.hasCtts = true
			t := tbls[cur]
			for i := 0; i < n; i++ {
				t.cttsC = append(t.cttsC, be32(body[8+8*i:]))
				t.cttsO = append(t.cttsO, int32(be32(body[12+8*i:])))
			}
		case "/moov/trak/mdia/minf/stbl/stss":
			n := int(be32(body[4:]))
			if len(body) != 8+4*n {
				return nil, fmt.Errorf("stss size")
			}
			cur.hasStss = true
			t := tbls[cur]
			for i := 0; i < n; i++ {
				t.stss = append(t.stss, be32(body[8+4*i:]))
			}
		case "/moov/trak/mdia/minf/stbl/stsc":
			n := int(be32(body[4:]))
			if len(body) != 8+12*n {
				return nil, fmt.Errorf("stsc size")
			}
			for i := 0; i < n; i++ {
				cur.stsc = append(cur.stsc, [3]uint32{be32(body[8+12*i:]), be32(body[12+12*i:]), be32(body[16+12*i:])})
			}
		case "/moov/trak/mdia/minf/stbl/stsz":
			t := tbls[cur]
			cur.uniform = be32(body[4:])
			t.nStsz = be32(body[8:])
			if cur.uniform == 0 {
				if len(body) != 12+4*int(t.nStsz) {
					return nil, fmt.Errorf("stsz size")
				}
				for i := 0; i < int(t.nStsz); i++ {
					t.sizes = append(t.sizes, be32(body[12+4*i:]))
				}
			} else if len(body) != 12 {
				return nil, fmt.Errorf("stsz size (uniform)")
			}
		case "/moov/trak/mdia/minf/stbl/stco":
			n := int(be32(body[4:]))
			if len(body) != 8+4*n {
				return nil, fmt.Errorf("stco size")
			}
			for i := 0; i < n; i++ {
				cur.chunkOff = append(cur.chunkOff, uint64(be32(body[8+4*i:])))
			}
		case "/moov/trak/mdia/minf/stbl/co64":
			n := int(be32(body[4:]))
			if len(body) != 8+8*n {
				return nil, fmt.Errorf("co64 size")
			}
			cur.co64 = true
			for i := 0; i < n; i++ {
				cur.chunkOff = append(cur.chunkOff, be64(body[8+8*i:]))
			}
		case "/moov/trak/mdia/minf/stbl/sdtp":
			cur.hasSdtp = true
			cur.sdtp = append([]byte{}, body[4:]...)
		}
	}
	if covered != len(data) {
		return nil, fmt.Errorf("top-level boxes end at %d of %d", covered, len(data))
	}
	for _, t := range rp.tracks {
		tb := tbls[t]
		n := int(tb.nStsz)
		t.n = n
		// sizes
		if t.uniform != 0 {
			t.size = make([]uint32, n)
			for i := range t.size {
				t.size[i] = t.uniform
			}
		} else {
			t.size = tb.sizes
		}
		// durations / decode times
		var acc uint64
		for i := range tb.sttsC {
			for k := uint32(0); k < tb.sttsC[i]; k++ {
				t.dur = append(t.dur, tb.sttsD[i])
				t.dec = append(t.dec, acc)
				acc += uint64(tb.sttsD[i])
				if len(t.dur) > n+1 {
					break
				}
			}
			if tb.sttsC[i] == 0 {
				t.problem("stts entry %d has sample_count 0", i)
			}
		}
		t.total = acc
		if len(t.dur) != n {
			t.problem("stts covers %d samples, stsz has %d", len(t.dur), n)
		}
		// composition offsets
		if t.hasCtts {
			for i := range tb.cttsC {
				for k := uint32(0); k < tb.cttsC[i]; k++ {
					t.cto = append(t.cto, tb.cttsO[i])
					if len(t.cto) > n+1 {
						break
					}
				}
			}
			if len(t.cto) != n {
				t.problem("ctts covers %d samples, stsz has %d", len(t.cto), n)
			}
		} else {
			t.cto = make([]int32, n)
		}
		// sync
		t.sync = make([]bool, n)
		if t.hasStss {
			prev := uint32(0)
			for _, s := range tb.stss {
				if s <= prev {
					t.problem("stss not strictly increasing at %d", s)
				}
				prev = s
				if s >= 1 && int(s) <= n {
					t.sync[s-1] = true
				} else {
					t.problem("stss sample number %d outside 1..%d", s, n)
				}
			}
		} else {
			for i := range t.sync {
				t.sync[i] = true
			}
		}
		if t.hasSdtp && len(t.sdtp) != n {
			t.problem("sdtp has %d entries, stsz has %d", len(t.sdtp), n)
		}
		// chunks: ISO/IEC 14496-12 8.7.4 — first_chunk starts at 1 and increases; entry i covers chunks
		// first_chunk[i] .. first_chunk[i+1]-1 (the last one up to the number of chunk offsets)
		nChunks := len(t.chunkOff)
		t.chunkN = make([]int, nChunks)
		for i, e := range t.stsc {
			if i == 0 && e[0] != 1 {
				t.problem("stsc first entry has first_chunk %d", e[0])
			}
			if i > 0 && e[0] <= t.stsc[i-1][0] {
				t.problem("stsc first_chunk not strictly increasing: entry %d has %d after %d", i, e[0], t.stsc[i-1][0])
			}
			if e[1] == 0 {
				t.problem("stsc entry %d has samples_per_chunk 0", i)
			}
			last := uint32(nChunks)
			if i+1 < len(t.stsc) {
				last = t.stsc[i+1][0] - 1
			}
			for c := e[0]; c <= last && c >= 1 && int(c) <= nChunks; c++ {
				t.chunkN[c-1] = int(e[1])
			}
			if int(e[0]) > nChunks {
				t.problem("stsc entry %d starts at chunk %d but there are %d chunk offsets", i, e[0], nChunks)
			}
		}
		si := 0
		t.off = make([]uint64, 0, n)
		for c := 0; c < nChunks; c++ {
			o := t.chunkOff[c]
			for k := 0; k < t.chunkN[c]; k++ {
				if si < n {
					t.off = append(t.off, o)
					o += uint64(t.size[si])
				}
				si++
			}
		}
		if si != n {
			t.problem("stsc/stco describe %d samples, stsz has %d", si, n)
		}
		for i := 0; i < len(t.off); i++ {
			o, s := t.off[i], uint64(t.size[i])
			if o+s > uint64(len(data)) {
				t.problem("sample %d at %d+%d lies outside the file", i+1, o, s)
				t.data = append(t.data, nil)
				continue
			}
			t.data = append(t.data, data[o:o+s])
		}
	}
	return rp, nil
}

// usable says whether the per-sample lists of all tracks are complete.
func (rp *rawProg) problems() []string {
	var out []string
	for i, t := range rp.tracks {
		for _, p := range t.problems {
			out = append(out, fmt.Sprintf("track %d: %s", i+1, p))
		}
	}
	return out
}

// refTrack: the first track with handler 'vide', else the first with handler 'soun' (cmd/mp4ff-crop findEndTime,
// examples/segmenter getSegmentStartsFromVideo use the same choice); -1 if none.
func (rp *rawProg) refTrack() int {
	for i, t := range rp.tracks {
		if t.hdlr == "vide" {
			return i
		}
	}
	for i, t := range rp.tracks {
		if t.hdlr == "soun" {
			return i
		}
	}
	return -1
}

// samplesTileMdat checks that the samples of all tracks lie inside one mdat payload, do not overlap and cover
// it completely. Returns "" or a description.
func (rp *rawProg) samplesTileMdat() (outside, notExact string) {
	if len(rp.mdats) != 1 {
		return "", fmt.Sprintf("%d mdat boxes", len(rp.mdats))
	}
	m := rp.mdats[0]
	type iv struct{ a, b uint64 }
	var ivs []iv
	for ti, t := range rp.tracks {
		si := 0
		for c := range t.chunkOff {
			a := t.chunkOff[c]
			b := a
			for k := 0; k < t.chunkN[c] && si < t.n; k++ {
				b += uint64(t.size[si])
				si++
			}
			if a < uint64(m.payload) || b > uint64(m.end) {
				if outside == "" {
					outside = fmt.Sprintf("track %d chunk %d [%d,%d) outside mdat payload [%d,%d)", ti+1, c+1, a, b, m.payload, m.end)
				}
			}
			if b > a {
				ivs = append(ivs, iv{a, b})
			}
		}
	}
	sort.Slice(ivs, func(i, j int) bool { return ivs[i].a < ivs[j].a })
	pos := uint64(m.payload)
	for _, x := range ivs {
		if x.a != pos {
			return outside, fmt.Sprintf("chunk bytes [%d,%d) but previous kept bytes end at %d (gap or overlap); mdat payload [%d,%d)", x.a, x.b, pos, m.payload, m.end)
		}
		pos = x.b
	}
	if pos != uint64(m.end) {
		return outside, fmt.Sprintf("kept samples end at %d, mdat ends at %d", pos, m.end)
	}
	return outside, ""
}
