package main

import (
	"bytes"
	"encoding/binary"
	"fmt"
	"math/rand"
	"strings"

	"github.com/Eyevinn/mp4ff/mp4"
)

// C11 input family "fragmented inputs as other packagers write them".
//
// The media segments of an ffTrack are written again from the track's truth by the byte-level writer below (no library
// encoder, no library reader involved), using the freedom ISO/IEC 14496-12 8.8.7 / 8.8.8 gives a writer:
//   - tfhd: base_data_offset present (absolute position of the moof, of the mdat payload, of the first run's data, of an
//     arbitrary earlier position such as 0 or the segment start, or of the end of the mdat so that the run offsets are
//     negative), with and without default-base-is-moof ALSO set (8.8.7.1: base_data_offset, when present, wins);
//     neither flag (first traf of a moof: base = moof start); default-base-is-moof only (what the library writes);
//     sample_description_index present; default duration / size / flags in tfhd where the runs allow
//   - trun: 1..3 runs per traf; data_offset present or absent (absent in the first run: data starts at the base;
//     absent in a later run: data follows the previous run's); first_sample_flags; version 0/1; per-sample fields only
//     where the defaults do not say it
//   - mdat: the data blocks of the runs in any order, unreferenced bytes in front, between and behind them (as left by a
//     removed track or written by an interleaving multiplexer), 8- or 16-byte box header
//   - tfdt version 0/1
//
// The expected samples are the truth's: the bytes at the positions the standard's rules designate are the ones the
// writer put there.  pkFrag keeps what was written for the position correspondence (seg.pos).

type pkRun struct {
	a, b                                      int   // samples [a,b) of the fragment
	hasOff                                    bool  // data_offset present
	dataOff                                   int64 // its value
	pos                                       int   // where the run's data sits in the mdat payload
	hasDur, hasSize, hasFlags, hasCto, hasFsf bool
}

type pkFrag struct {
	moofStart    uint64
	bdo          int64 // -1: base-data-offset-present not set
	dbm          bool
	baseKind     int
	runs         []pkRun
	payloadStart uint64
	sizes        []int // sample sizes in track order
}

func be(n int, v uint64) []byte {
	b := make([]byte, 8)
	binary.BigEndian.PutUint64(b, v)
	return b[8-n:]
}

func fullBox(typ string, version byte, flags uint32, payload []byte) []byte {
	p := append([]byte{version, byte(flags >> 16), byte(flags >> 8), byte(flags)}, payload...)
	return box(typ, p)
}

// packSegment writes segment segIdx of t as a foreign packager would; start = absolute position of its first byte in
// the file the reader will see.  The choices depend on (t.pack, segIdx) only, not on start.
func (t *ffTrack) packSegment(segIdx int, start uint64) ([]byte, []*pkFrag) {
	r := rand.New(rand.NewSource(t.pack*1000003 + int64(segIdx)*7919 + 1))
	var out []byte
	if t.styp {
		out = append(out, box("styp", []byte("msdh\x00\x00\x00\x00msdhmsix"))...)
	}
	a := 0
	seq := uint32(1)
	for s := 0; s < segIdx; s++ {
		for _, n := range t.layout[s] {
			a += n
			seq++
		}
	}
	var frs []*pkFrag
	for _, ns := range t.layout[segIdx] {
		fb, pf := t.packFragment(r, seq, t.truth.samples[a:a+ns], start, start+uint64(len(out)))
		out = append(out, fb...)
		frs = append(frs, pf)
		a += ns
		seq++
	}
	return out, frs
}

func (t *ffTrack) packFragment(r *rand.Rand, seq uint32, ss []tsample, segStart, moofStart uint64) ([]byte, *pkFrag) {
	ns := len(ss)
	pf := &pkFrag{moofStart: moofStart, bdo: -1}
	// runs
	nRuns := []int{1, 1, 2, 2, 3}[r.Intn(5)]
	if nRuns > ns {
		nRuns = ns
	}
	cuts := map[int]bool{}
	for len(cuts) < nRuns-1 {
		cuts[1+r.Intn(ns-1)] = true
	}
	prev := 0
	for k := 1; k <= ns; k++ {
		if k == ns || cuts[k] {
			pf.runs = append(pf.runs, pkRun{a: prev, b: k, hasOff: true})
			prev = k
		}
	}
	// base of the data offsets
	pf.baseKind = r.Intn(7)
	switch pf.baseKind {
	case 0: // neither flag
	case 1:
		pf.dbm = true
	default:
		pf.dbm = r.Intn(2) == 0
	}
	hasBdo := pf.baseKind >= 2
	for k := range pf.runs {
		if k == 0 {
			// without data_offset the first run starts at the base: only when the base is where its data is
			if pf.baseKind == 4 && r.Intn(2) == 0 {
				pf.runs[k].hasOff = false
			}
		} else if r.Intn(2) == 0 {
			pf.runs[k].hasOff = false // follows the previous run
		}
	}
	// per-sample fields and defaults
	tfFlags := uint32(0)
	var tfOpt []byte
	type fieldSel struct {
		def    uint32
		hasDef bool
	}
	get := func(s tsample, f int) uint32 {
		switch f {
		case 0:
			return s.dur
		case 1:
			return uint32(len(s.data))
		}
		return s.flags
	}
	sel := [3]fieldSel{}
	trexHas := [3]bool{t.useDur, t.useSize, t.useFlags}
	tfhdDef := [3]bool{}
	for f := 0; f < 3; f++ {
		if trexHas[f] && r.Intn(2) == 0 {
			sel[f] = fieldSel{def: get(t.truth.samples[0], f), hasDef: true} // from trex (uniform over the track)
			continue
		}
		if r.Intn(2) == 0 {
			run := pf.runs[r.Intn(len(pf.runs))]
			i := run.a
			if f == 2 && run.b-run.a >= 2 {
				i = run.a + 1
			}
			sel[f] = fieldSel{def: get(ss[i], f), hasDef: true}
			tfhdDef[f] = true
		}
	}
	for k := range pf.runs {
		run := &pf.runs[k]
		uni := func(f, from int) bool {
			for i := run.a + from; i < run.b; i++ {
				if get(ss[i], f) != sel[f].def {
					return false
				}
			}
			return true
		}
		run.hasDur = !(sel[0].hasDef && uni(0, 0) && r.Intn(4) > 0)
		run.hasSize = !(sel[1].hasDef && uni(1, 0) && r.Intn(4) > 0)
		run.hasFlags = true
		if sel[2].hasDef && uni(2, 1) && r.Intn(4) > 0 {
			run.hasFlags = false
			run.hasFsf = ss[run.a].flags != sel[2].def || r.Intn(3) == 0
		}
		for i := run.a; i < run.b; i++ {
			if ss[i].cto != 0 {
				run.hasCto = true
			}
		}
		if r.Intn(3) == 0 {
			run.hasCto = true
		}
	}
	if hasBdo {
		tfFlags |= 0x000001
		tfOpt = append(tfOpt, make([]byte, 8)...) // patched below
	}
	if r.Intn(4) == 0 {
		tfFlags |= 0x000002
		tfOpt = append(tfOpt, be(4, 1)...)
	}
	for f, bit := range []uint32{0x000008, 0x000010, 0x000020} {
		if tfhdDef[f] {
			tfFlags |= bit
			tfOpt = append(tfOpt, be(4, uint64(sel[f].def))...)
		}
	}
	if pf.dbm {
		tfFlags |= 0x020000
	}
	tfhd := func(bdo uint64) []byte {
		p := append(be(4, 1), tfOpt...)
		if hasBdo {
			copy(p[4:], be(8, bdo))
		}
		return fullBox("tfhd", 0, tfFlags, p)
	}
	dec := ss[0].dec
	var tfdt []byte
	if dec >= 1<<32 || r.Intn(2) == 0 {
		tfdt = fullBox("tfdt", 1, 0, be(8, dec))
	} else {
		tfdt = fullBox("tfdt", 0, 0, be(4, dec))
	}
	trunVersion := byte(r.Intn(2))
	for _, s := range ss {
		if s.cto < 0 {
			trunVersion = 1
		}
	}
	trun := func(run pkRun) []byte {
		fl := uint32(0)
		p := be(4, uint64(run.b-run.a))
		if run.hasOff {
			fl |= 0x000001
			p = append(p, be(4, uint64(uint32(int32(run.dataOff))))...)
		}
		if run.hasFsf {
			fl |= 0x000004
			p = append(p, be(4, uint64(ss[run.a].flags))...)
		}
		if run.hasDur {
			fl |= 0x000100
		}
		if run.hasSize {
			fl |= 0x000200
		}
		if run.hasFlags {
			fl |= 0x000400
		}
		if run.hasCto {
			fl |= 0x000800
		}
		for i := run.a; i < run.b; i++ {
			if run.hasDur {
				p = append(p, be(4, uint64(ss[i].dur))...)
			}
			if run.hasSize {
				p = append(p, be(4, uint64(len(ss[i].data)))...)
			}
			if run.hasFlags {
				p = append(p, be(4, uint64(ss[i].flags))...)
			}
			if run.hasCto {
				p = append(p, be(4, uint64(uint32(ss[i].cto)))...)
			}
		}
		return fullBox("trun", trunVersion, fl, p)
	}
	moof := func(bdo uint64) []byte {
		traf := append(tfhd(bdo), tfdt...)
		for _, run := range pf.runs {
			traf = append(traf, trun(run)...)
		}
		return box("moof", append(fullBox("mfhd", 0, 0, be(4, uint64(seq))), box("traf", traf)...))
	}
	moofSize := uint64(len(moof(0))) // the size does not depend on the offset values
	mdatHdr := uint64(8)
	if r.Intn(6) == 0 {
		mdatHdr = 16
	}
	pf.payloadStart = moofStart + moofSize + mdatHdr
	// mdat payload: blocks (a run with data_offset + the runs that follow it without one) in any order, junk around
	var blocks [][]int
	for k, run := range pf.runs {
		if k == 0 || run.hasOff {
			blocks = append(blocks, []int{k})
		} else {
			blocks[len(blocks)-1] = append(blocks[len(blocks)-1], k)
		}
	}
	if r.Intn(2) == 0 {
		r.Shuffle(len(blocks), func(i, j int) { blocks[i], blocks[j] = blocks[j], blocks[i] })
	}
	junk := func(lead bool) []byte {
		if r.Intn(3) > 0 {
			return nil
		}
		if lead && pf.baseKind == 3 && r.Intn(2) == 0 {
			return nil
		}
		j := make([]byte, 1+r.Intn(24))
		r.Read(j)
		return j
	}
	var payload []byte
	for bi, bl := range blocks {
		payload = append(payload, junk(bi == 0)...)
		for _, k := range bl {
			pf.runs[k].pos = len(payload)
			for i := pf.runs[k].a; i < pf.runs[k].b; i++ {
				payload = append(payload, ss[i].data...)
			}
		}
	}
	payload = append(payload, junk(false)...)
	mdatEnd := pf.payloadStart + uint64(len(payload))
	var base uint64
	switch pf.baseKind {
	case 0, 1, 2:
		base = moofStart
	case 3:
		base = pf.payloadStart
	case 4:
		base = pf.payloadStart + uint64(pf.runs[0].pos)
	case 5:
		switch r.Intn(3) {
		case 0:
			base = 0
		case 1:
			base = segStart
		default:
			base = moofStart - uint64(r.Int63n(int64(min64(moofStart, 64))+1))
		}
	case 6:
		base = mdatEnd
	}
	if hasBdo {
		pf.bdo = int64(base)
	}
	for k := range pf.runs {
		run := &pf.runs[k]
		abs := pf.payloadStart + uint64(run.pos)
		if run.hasOff {
			run.dataOff = int64(abs) - int64(base)
		}
		for i := run.a; i < run.b; i++ {
			pf.sizes = append(pf.sizes, len(ss[i].data))
		}
	}
	out := moof(base)
	if mdatHdr == 8 {
		out = append(out, box("mdat", payload)...)
	} else {
		out = append(out, be(4, 1)...)
		out = append(out, "mdat"...)
		out = append(out, be(8, 16+uint64(len(payload)))...)
		out = append(out, payload...)
	}
	return out, pf
}

func min64(a, b uint64) uint64 {
	if a < b {
		return a
	}
	return b
}

// segAt: the bytes of segment i as the reader will find them at absolute position start of its file
func (t *ffTrack) segAt(i int, start uint64) []byte {
	if t.pack == 0 {
		return t.segs[i]
	}
	b, _ := t.packSegment(i, start)
	return b
}

func (f *pkFrag) describe(c *Ctx) {
	kind := []string{"neither flag", "default-base-is-moof only", "base_data_offset = moof start", "base_data_offset = mdat payload start",
		"base_data_offset = first run's data", "base_data_offset = earlier position", "base_data_offset = end of mdat (negative run offsets)"}[f.baseKind]
	if f.baseKind >= 2 {
		kind += fmt.Sprintf(", default-base-is-moof also set=%v", f.dbm)
	}
	c.Count("packed fragment: " + kind)
	no := 0
	ordered := true
	for k, run := range f.runs {
		if !run.hasOff {
			no++
		}
		if k > 0 && run.pos < f.runs[k-1].pos {
			ordered = false
		}
	}
	c.Count(fmt.Sprintf("packed fragment: runs=%d without data_offset=%d first run without=%v data in run order=%v", len(f.runs), no, !f.runs[0].hasOff, ordered))
}

// posLine: the request of the position correspondence.
// "seg.pos H=<key> <moofStart> <base_data_offset|-> <default-base-is-moof 0|1> <run> ..." with run = "<data_offset|->:<size>,<size>,..."
// -> the absolute position of the first byte of every sample, in track order
func (f *pkFrag) posLine(key string) string {
	bdo := "-"
	if f.bdo >= 0 {
		bdo = fmt.Sprint(f.bdo)
	}
	p := []string{"seg.pos", "H=" + key, fmt.Sprint(f.moofStart), bdo, b01(f.dbm)}
	for _, run := range f.runs {
		off := "-"
		if run.hasOff {
			off = fmt.Sprint(run.dataOff)
		}
		var sz []string
		for i := run.a; i < run.b; i++ {
			sz = append(sz, fmt.Sprint(f.sizes[i]))
		}
		p = append(p, off+":"+strings.Join(sz, ","))
	}
	return strings.Join(p, " ")
}

func u64sArg(l []uint64) string {
	p := make([]string, len(l))
	for i, x := range l {
		p[i] = fmt.Sprint(x)
	}
	return strings.Join(p, ",")
}

// libraryPositions: where Fragment.GetFullSamples takes the bytes of every sample from, per fragment in file order
// (absolute file positions; the samples' Data are sub-slices of the mdat payload)
func libraryPositions(file []byte) (pos [][]uint64, err error) {
	if p := safe(func() {
		var f *mp4.File
		f, err = mp4.DecodeFile(bytes.NewReader(file))
		if err != nil {
			return
		}
		if f.Init == nil || f.Init.Moov == nil || f.Init.Moov.Mvex == nil || f.Init.Moov.Mvex.Trex == nil {
			err = fmt.Errorf("no init")
			return
		}
		for _, sg := range f.Segments {
			for _, fr := range sg.Fragments {
				fs, e := fr.GetFullSamples(f.Init.Moov.Mvex.Trex)
				if e != nil {
					err = e
					return
				}
				var l []uint64
				for _, s := range fs {
					l = append(l, fr.Mdat.PayloadAbsoluteOffset()+uint64(cap(fr.Mdat.Data)-cap(s.Data)))
				}
				pos = append(pos, l)
			}
		}
	}); p != "" {
		return nil, fmt.Errorf("%s", p)
	}
	return pos, err
}

// checkPacked: the packed file of t through the library's reader: sample list against the truth (fingerprint family
// C11-reader-*) and, per fragment, the positions the reader takes the bytes from against the model of 8.8.7.1 / 8.8.8.1
// (correspondence op seg.pos; the model's answer is where the writer put the data, theorem positions_written_are_read).
// A reader that refuses the file is counted, not failed (as for the tools).
func checkPacked(c *Ctx, spec []string, t *ffTrack) {
	req := "readpacked " + strings.Join(spec, " ")
	file := t.file()
	var frs []*pkFrag
	pos := uint64(len(t.init))
	for i := range t.layout {
		b, f := t.packSegment(i, pos)
		pos += uint64(len(b))
		frs = append(frs, f...)
	}
	for _, f := range frs {
		f.describe(c)
	}
	oe := &outExpanded{}
	if err := expandFragmentedFile(file, oe); err != nil || len(oe.trackIDs) != 1 {
		c.Eval("")
		class := "packed input refused by the library reader: " + reDigits.ReplaceAllString(clipN(fmt.Sprint(err), 100), "N")
		c.Count(class)
		noteFirst(c, class, req)
		return
	}
	c.Eval(req)
	compareTrack(c, "reader", req, "packed fragmented file expanded with GetFullSamples", t.truth, oe.tracks[oe.trackIDs[0]])
	lp, err := libraryPositions(file)
	if err != nil || len(lp) != len(frs) {
		return
	}
	for k, f := range frs {
		key := strings.ReplaceAll(fmt.Sprintf("readpacked %d %s", k, strings.Join(spec, " ")), " ", "/")
		c.Case(f.posLine(key), u64sArg(lp[k]))
	}
}

// execReadPacked replays "readpacked <spec>" (direct oracle) and "seg.pos H=readpacked/<k>/<spec>" (correspondence)
func execReadPacked(f []string, frag int) string {
	t, _, err := ffFromSpec(f)
	if err != nil || t.pack == 0 {
		return "input-err"
	}
	if frag >= 0 {
		lp, err := libraryPositions(t.file())
		if err != nil || frag >= len(lp) {
			return "fail"
		}
		return u64sArg(lp[frag])
	}
	oe := &outExpanded{}
	if err := expandFragmentedFile(t.file(), oe); err != nil {
		return "fail " + reDigits.ReplaceAllString(clipN(err.Error(), 120), "N")
	}
	return oe.summary()
}
