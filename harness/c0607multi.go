package main

// C06 / C07 — multi-track protected init segments as packagers write them.
//
// The other fragment-level families build their init segments through CreateEmptyInit / AddEmptyTrack or take the
// repository's single-track files: trak order = trex order = ascending track IDs starting at 1.  Nothing in ISO/IEC
// 14496-12 asks for that: the trex boxes of mvex may come in any order, track IDs are arbitrary non-zero numbers, mvex
// may precede the trak boxes and both containers may hold further boxes.  This family composes 2..4 tracks (video and
// audio, protected with their own scheme / IV or left clear) into one init segment with
//   * track IDs drawn from a pool (not ascending, not starting at 1, large values),
//   * the trex boxes of mvex in a permutation of the trak order,
//   * mehd / leva / trep / unknown boxes in mvex, pssh / udta boxes in moov, mvex before or after the traks,
//   * trex boxes that carry the default sample duration and flags of their track (trun without them),
// and runs, for every track, InitProtect (on the track's own init; the library protects one track at a time) -> write ->
// decode (io.Reader and slice-reader decoder) -> DecryptInit -> single-track fragments of every track: EncryptFragment
// with that track's protect data -> write -> decode -> DecryptFragment -> write -> decode -> every sample byte-for-byte
// and field-for-field against the clear input; then the same samples as one multi-track fragment (one traf per track,
// saiz / saio / senc taken from the library's own output, tracks in another order, sometimes interleaved truns).
// The decrypt info must give every track the trex box of the same track ID (what DecryptFragment reads the samples
// with); the pairing is also a model line (prot.trex, Model/Protect.lean pairTrexs).

import (
	"bytes"
	"fmt"
	"strconv"
	"strings"

	"github.com/Eyevinn/mp4ff/bits"
	"github.com/Eyevinn/mp4ff/mp4"
)

type mtTrack struct {
	src       *clearSource
	id        uint32
	scheme    string // "" = clear track
	iv        []byte
	trexDef   bool // sample duration and flags only in the trex box
	dur       uint32
	flags     uint32
	origEntry string
	ipd       *mp4.InitProtectData
	trak      *mp4.TrakBox // as InitProtect left it (clear track: untouched)
	trex      *mp4.TrexBox
	clearTrak *mp4.TrakBox // the same track never protected (reference init)
	clearTrex *mp4.TrexBox
	ftyp      *mp4.FtypBox
	mvhd      *mp4.MvhdBox
	// per case
	clear   []mp4.FullSample // clear samples of the single-track fragment
	encFrag []byte           // the fragment as written after EncryptFragment (clear track: the clear fragment)
}

func (t *mtTrack) prepare(key []byte) error {
	mk := func() (*mp4.InitSegment, error) {
		f, err := mp4.DecodeFile(bytes.NewReader(t.src.init))
		if err != nil {
			return nil, err
		}
		init := f.Init
		if init == nil || init.Moov == nil || init.Moov.Trak == nil || init.Moov.Mvex == nil || init.Moov.Mvex.Trex == nil {
			return nil, fmt.Errorf("source init without trak / trex")
		}
		init.Moov.Trak.Tkhd.TrackID = t.id
		trex := init.Moov.Mvex.Trex
		trex.TrackID = t.id
		if t.trexDef {
			trex.DefaultSampleDuration = t.dur
			trex.DefaultSampleFlags = t.flags
		}
		return init, nil
	}
	ci, err := mk()
	if err != nil {
		return err
	}
	t.clearTrak, t.clearTrex, t.ftyp, t.mvhd = ci.Moov.Trak, ci.Moov.Mvex.Trex, ci.Ftyp, ci.Moov.Mvhd
	t.origEntry = ci.Moov.Trak.Mdia.Minf.Stbl.Stsd.Children[0].Type()
	pi, err := mk()
	if err != nil {
		return err
	}
	if t.scheme != "" {
		t.ipd, err = mp4.InitProtect(pi, key, t.iv, t.scheme, protKID, nil)
		if err != nil {
			return fmt.Errorf("InitProtect: %w", err)
		}
	}
	t.trak, t.trex = pi.Moov.Trak, pi.Moov.Mvex.Trex
	return nil
}

// where the boxes go in moov / mvex (drawn once per case; the protected and the reference init share it)
type mtLayout struct {
	trexPerm  []int // mvex: the i-th trex box is the one of track trexPerm[i]
	mvexExtra []int // before the i-th trex box (last entry: after all): 0 nothing, 1 leva, 2 trep, 3 unknown box
	mehd      bool
	mvexFirst bool // mvex before the trak boxes
	udtaAt    int  // 0 none, 1 after mvhd, 2 last
	npssh     int
	psshAt    int // 0 before the traks, 1 after the traks, 2 after everything else
}

func (l *mtLayout) String() string {
	return fmt.Sprintf("trexperm=%v mvexextra=%v mehd=%v mvexfirst=%v udta=%d pssh=%d@%d", l.trexPerm, l.mvexExtra, l.mehd, l.mvexFirst, l.udtaAt, l.npssh, l.psshAt)
}

func (l *mtLayout) assemble(tracks []*mtTrack, protected bool) ([]byte, error) {
	mvex := mp4.NewMvexBox()
	if l.mehd {
		mvex.Children = append(mvex.Children, &mp4.MehdBox{FragmentDuration: 1234567})
	}
	extra := func(kind int, id uint32) {
		switch kind {
		case 1:
			lv, err := mp4.NewLevaLevel(id, false, 2, 0, 0, 0)
			if err == nil {
				mvex.Children = append(mvex.Children, &mp4.LevaBox{Levels: []mp4.LevaLevel{lv}})
			}
		case 2:
			mvex.Children = append(mvex.Children, &mp4.TrepBox{TrackID: id})
		case 3:
			mvex.Children = append(mvex.Children, mp4.CreateUnknownBox("mvxx", 8+6, []byte{6, 5, 4, 3, 2, 1}))
		}
	}
	for pos, ti := range l.trexPerm {
		extra(l.mvexExtra[pos], tracks[ti].id)
		if protected {
			mvex.Children = append(mvex.Children, tracks[ti].trex)
		} else {
			mvex.Children = append(mvex.Children, tracks[ti].clearTrex)
		}
	}
	extra(l.mvexExtra[len(l.trexPerm)], tracks[0].id)
	udta := func() mp4.Box {
		u := &mp4.UdtaBox{}
		u.AddChild(mp4.CreateUnknownBox("name", 8+5, []byte("multi")))
		return u
	}
	var ch []mp4.Box
	ch = append(ch, tracks[0].mvhd)
	if l.udtaAt == 1 {
		ch = append(ch, udta())
	}
	psshs := func(at int) {
		if protected && l.psshAt == at {
			for i := 0; i < l.npssh; i++ {
				ch = append(ch, mkPssh(psshSizes[i]))
			}
		}
	}
	if l.mvexFirst {
		ch = append(ch, mvex)
	}
	psshs(0)
	for _, t := range tracks {
		if protected {
			ch = append(ch, t.trak)
		} else {
			ch = append(ch, t.clearTrak)
		}
	}
	psshs(1)
	if !l.mvexFirst {
		ch = append(ch, mvex)
	}
	psshs(2)
	if l.udtaAt == 2 {
		ch = append(ch, udta())
	}
	moov := mp4.NewMoovBox()
	moov.Children = ch
	init := mp4.NewMP4Init()
	init.AddChild(tracks[0].ftyp)
	init.AddChild(moov)
	var buf bytes.Buffer
	if err := init.Encode(&buf); err != nil {
		return nil, err
	}
	return buf.Bytes(), nil
}

// the two file decoders
func mtDecode(b []byte, sr bool) (*mp4.File, error) {
	if sr {
		return mp4.DecodeFileSR(bits.NewFixedSliceReader(b))
	}
	return mp4.DecodeFile(bytes.NewReader(b))
}

func mtFirstFrag(f *mp4.File) *mp4.Fragment {
	if f == nil || len(f.Segments) == 0 || len(f.Segments[0].Fragments) == 0 {
		return nil
	}
	return f.Segments[0].Fragments[0]
}

// the trex box of a track, found by the harness (track ID comparison over all mvex children)
func mtTrexOf(init *mp4.InitSegment, id uint32) *mp4.TrexBox {
	if init == nil || init.Moov == nil || init.Moov.Mvex == nil {
		return nil
	}
	for _, c := range init.Moov.Mvex.Children {
		if tx, ok := c.(*mp4.TrexBox); ok && tx.TrackID == id {
			return tx
		}
	}
	return nil
}

// "id=pos" per track info: pos = 1-based position of its trex box among the trex boxes of mvex, "-" = none
func showTrexPairing(init *mp4.InitSegment, di mp4.DecryptInfo) string {
	if len(di.TrackInfos) == 0 {
		return "-"
	}
	var s []string
	for _, ti := range di.TrackInfos {
		pos := "-"
		if ti.Trex != nil {
			pos = "?"
			for k, tx := range init.Moov.Mvex.Trexs {
				if tx == ti.Trex {
					pos = strconv.Itoa(k + 1)
					break
				}
			}
		}
		s = append(s, fmt.Sprintf("%d=%s", ti.TrackID, pos))
	}
	return strings.Join(s, ",")
}

// the prot.trex request of a decoded init: traks as id*k (k = number of encv / enca sample entries), trex track IDs
func trexRequest(init *mp4.InitSegment) string {
	var traks, trexs []string
	for _, tr := range init.Moov.Traks {
		k := 0
		for _, e := range tr.Mdia.Minf.Stbl.Stsd.Children {
			if e.Type() == "encv" || e.Type() == "enca" {
				k++
			}
		}
		traks = append(traks, fmt.Sprintf("%d*%d", tr.Tkhd.TrackID, k))
	}
	for _, tx := range init.Moov.Mvex.Trexs {
		trexs = append(trexs, strconv.FormatUint(uint64(tx.TrackID), 10))
	}
	tx := "-"
	if len(trexs) > 0 {
		tx = strings.Join(trexs, "+")
	}
	return "prot.trex " + strings.Join(traks, ",") + " " + tx
}

// prot.trex <id*k,id*k,...> <trex ids>: an init with these traks (k protected sample entries each; 0 = one clear
// entry) and these trex boxes in mvex, through the real DecryptInit
func execProtTrex(a []string) string {
	if len(a) != 2 {
		return "bad-op"
	}
	type td struct {
		id uint32
		k  int
	}
	var tds []td
	for _, p := range strings.Split(a[0], ",") {
		f := strings.Split(p, "*")
		if len(f) != 2 {
			return "bad-desc"
		}
		id, err1 := strconv.ParseUint(f[0], 10, 32)
		k, err2 := strconv.Atoi(f[1])
		if err1 != nil || err2 != nil || k < 0 || k > 8 {
			return "bad-desc"
		}
		tds = append(tds, td{uint32(id), k})
	}
	txl, ok := parsePlus(a[1])
	if !ok || len(tds) == 0 || len(tds) > 16 || len(txl) > 32 {
		return "bad-desc"
	}
	init := mp4.CreateEmptyInit()
	for range tds {
		init.AddEmptyTrack(90000, "video", "und")
	}
	for i, d := range tds {
		tr := init.Moov.Traks[i]
		tr.Tkhd.TrackID = d.id
		stsd := tr.Mdia.Minf.Stbl.Stsd
		if d.k == 0 {
			stsd.AddChild(mp4.NewVisualSampleEntryBox("avc1"))
		}
		for j := 0; j < d.k; j++ {
			se := mp4.NewVisualSampleEntryBox("encv")
			sinf := &mp4.SinfBox{}
			sinf.AddChild(&mp4.FrmaBox{DataFormat: "avc1"})
			sinf.AddChild(&mp4.SchmBox{SchemeType: "cenc", SchemeVersion: 65536})
			schi := &mp4.SchiBox{}
			schi.AddChild(schemeTenc("cenc"))
			sinf.AddChild(schi)
			se.AddChild(sinf)
			stsd.AddChild(se)
		}
	}
	mvex := mp4.NewMvexBox()
	for _, id := range txl {
		if id < 0 || id > 0xffffffff {
			return "bad-desc"
		}
		mvex.AddChild(&mp4.TrexBox{TrackID: uint32(id), DefaultSampleDescriptionIndex: 1})
	}
	for i, c := range init.Moov.Children {
		if c.Type() == "mvex" {
			init.Moov.Children[i] = mvex
		}
	}
	init.Moov.Mvex = mvex
	di, err := mp4.DecryptInit(init)
	if err != nil {
		return "err"
	}
	return showTrexPairing(init, di)
}

var mtIDPool = []uint32{1, 2, 3, 4, 5, 7, 9, 16, 100, 255, 256, 257, 1000, 65535, 65536, 0x7fffffff, 0xfffffffe}

func genMultiInit(c *Ctx, which string) {
	srcs := loadClearSources()
	if len(srcs) == 0 {
		c.Note("repository segments not found: multi-track init family skipped")
		return
	}
	pe := &protEmit{c: c, which: which}
	for it := 0; it < c.N(60, 900); it++ {
		pe.multiInitCase(srcs, it)
	}
	for it := 0; it < c.N(80, 1000); it++ {
		pe.trexSynthetic(it)
	}
	if pe.mismatch > 0 {
		c.St.Distribution["prot.trex-rebuild-mismatch"] = pe.mismatch
		c.Fail(which+"-prot-rebuild", "an init rebuilt from its prot.trex description is paired differently by DecryptInit than the original", "", fmt.Sprint(pe.mismatch), "0")
	}
}

// DecryptInit's trex pairing on synthetic inits: any number of traks and trex boxes, repeated and missing IDs, traks
// with several protected sample entries
func (pe *protEmit) trexSynthetic(it int) {
	r := pe.c.R
	pool := []uint32{1, 2, 3, 5, 9, 300, 0xfffffffe}
	ntr := 1 + r.Intn(4)
	var traks []string
	var ids []uint32
	for _, k := range r.Perm(len(pool))[:ntr] {
		id := pool[k]
		if len(ids) > 0 && r.Intn(8) == 0 {
			id = ids[r.Intn(len(ids))] // a repeated track ID
		}
		ids = append(ids, id)
		traks = append(traks, fmt.Sprintf("%d*%d", id, []int{0, 1, 1, 1, 2, 3}[r.Intn(6)]))
	}
	var trexs []string
	for _, k := range r.Perm(ntr) {
		switch r.Intn(10) {
		case 0: // no trex box for this track
			continue
		case 1: // two of them
			trexs = append(trexs, fmt.Sprint(ids[k]))
		case 2: // one of a track that is not there
			trexs = append(trexs, fmt.Sprint(pool[r.Intn(len(pool))]))
		}
		trexs = append(trexs, fmt.Sprint(ids[k]))
	}
	tx := "-"
	if len(trexs) > 0 {
		tx = strings.Join(trexs, "+")
	}
	req := "prot.trex " + strings.Join(traks, ",") + " " + tx
	pe.emit(req, execProt(req), false)
	pe.c.Eval(req)
}

func (pe *protEmit) multiInitCase(srcs []*clearSource, it int) {
	c := pe.c
	r := c.R
	key := protKey
	ntr := 2 + r.Intn(3)
	tracks := make([]*mtTrack, ntr)
	perm := r.Perm(len(mtIDPool))
	classic := r.Intn(6) == 0 // IDs 1..n in trak order (what CreateEmptyInit gives)
	anyProt := false
	for i := range tracks {
		t := &mtTrack{id: mtIDPool[perm[i]]}
		if classic {
			t.id = uint32(i + 1)
		}
		t.src = srcs[r.Intn(len(srcs))]
		if i == 1 && r.Intn(3) > 0 { // mostly video + audio
			want := "aac"
			if tracks[0].src.codec == "aac" {
				want = "avc"
			}
			for _, s := range srcs {
				if s.codec == want {
					t.src = s
				}
			}
		} else if r.Intn(5) == 0 {
			if es := esClearSource(c, 5); es != nil {
				t.src = es
			}
		}
		t.scheme = []string{"", "cenc", "cbcs", "cenc", "cbcs"}[r.Intn(5)]
		t.iv = make([]byte, []int{8, 16}[r.Intn(2)])
		r.Read(t.iv)
		t.trexDef = r.Intn(2) == 0
		t.dur = uint32(512 + 128*r.Intn(40))
		t.flags = []uint32{mp4.SyncSampleFlags, mp4.NonSyncSampleFlags}[r.Intn(2)]
		tracks[i] = t
	}
	for _, t := range tracks {
		anyProt = anyProt || t.scheme != ""
	}
	if !anyProt {
		tracks[r.Intn(ntr)].scheme = []string{"cenc", "cbcs"}[r.Intn(2)]
	}
	lay := &mtLayout{trexPerm: r.Perm(ntr), mehd: r.Intn(2) == 0, mvexFirst: r.Intn(5) == 0, udtaAt: r.Intn(3), npssh: r.Intn(3), psshAt: r.Intn(3)}
	if r.Intn(6) == 0 {
		for i := range lay.trexPerm {
			lay.trexPerm[i] = i
		}
	}
	for i := 0; i <= ntr; i++ {
		k := 0
		if r.Intn(4) == 0 {
			k = 1 + r.Intn(3)
		}
		lay.mvexExtra = append(lay.mvexExtra, k)
	}
	srDec := r.Intn(2) == 0 // decoder for the fragments; the init goes through both
	var ds []string
	for _, t := range tracks {
		ds = append(ds, fmt.Sprintf("%d:%s:%s:iv%d:trexdef=%v", t.id, t.src.codec, t.scheme, len(t.iv), t.trexDef))
	}
	desc := fmt.Sprintf("multi-init it=%d tracks=[%s] %s sr=%v", it, strings.Join(ds, " "), lay, srDec)
	fail := func(kind, what, got, exp string) { pe.fail("C06", "multi-"+kind, what, desc, got, exp) }
	protBytes := false
	p := safe(func() {
		for _, t := range tracks {
			if err := t.prepare(key); err != nil {
				fail("init-protect", "InitProtect fails on a clear single-track init: "+err.Error(), err.Error(), "")
				return
			}
		}
		encInit, err := lay.assemble(tracks, true)
		if err != nil {
			fail("init-encode", "protected multi-track init does not encode", err.Error(), "")
			return
		}
		clearInit, err := lay.assemble(tracks, false)
		if err != nil {
			return
		}
		// ---- the init: both decoders, DecryptInit
		var di mp4.DecryptInfo
		var decInitBytes []byte
		var decInit *mp4.InitSegment
		var pairing [2]string
		for k, sr := range []bool{false, true} {
			f, err := mtDecode(encInit, sr)
			if err != nil || f.Init == nil || f.Init.Moov == nil {
				fail("init-decode", "protected multi-track init does not decode", fmt.Sprint(err), "")
				return
			}
			req := trexRequest(f.Init)
			d, err := mp4.DecryptInit(f.Init)
			if err != nil {
				pe.emit(req, "err", false)
				fail("decrypt-init", "DecryptInit fails on a multi-track init: "+err.Error(), err.Error(), "")
				return
			}
			pairing[k] = showTrexPairing(f.Init, d)
			pe.emit(req, pairing[k], it%5 == 0)
			// every track is in the decrypt info, with the trex box of its own track ID
			for _, t := range tracks {
				for _, ti := range d.TrackInfos {
					if ti.TrackID != t.id {
						continue
					}
					if (ti.Sinf != nil) != (t.scheme != "") {
						fail("decinfo-sinf", "DecryptInfo marks a protected track as clear or a clear track as protected", fmt.Sprintf("track %d sinf=%v", t.id, ti.Sinf != nil), t.scheme)
					}
					if ti.Sinf != nil && ti.Sinf.Schm != nil && ti.Sinf.Schm.SchemeType != t.scheme {
						fail("decinfo-scheme", "DecryptInfo names another scheme than the one the track was protected with", ti.Sinf.Schm.SchemeType, t.scheme)
					}
					if ti.Trex == nil || ti.Trex.TrackID != t.id {
						got := "none"
						if ti.Trex != nil {
							got = fmt.Sprintf("trex of track %d", ti.Trex.TrackID)
						}
						fail("decinfo-trex", "DecryptInfo does not give a track the trex box of its own track ID (mvex holds one)", fmt.Sprintf("track %d: %s (%s)", t.id, got, pairing[k]), fmt.Sprintf("trex of track %d", t.id))
					}
				}
			}
			// sample entries restored, everything but the pssh boxes still there and unchanged
			for i, tr := range f.Init.Moov.Traks {
				if i < len(tracks) {
					if got := tr.Mdia.Minf.Stbl.Stsd.Children[0].Type(); got != tracks[i].origEntry {
						fail("sample-entry", "sample entry type not restored by DecryptInit", got, tracks[i].origEntry)
					}
				}
			}
			// (pssh boxes are protection signalling: whether DecryptInit leaves them in the moov is not compared)
			var kept []mp4.Box
			for _, ch := range f.Init.Moov.Children {
				if ch.Type() != "pssh" {
					kept = append(kept, ch)
				}
			}
			f.Init.Moov.Children = kept
			var buf bytes.Buffer
			if err := f.Init.Encode(&buf); err != nil {
				fail("init-reencode", "decrypted init does not encode", err.Error(), "")
				return
			}
			if cf, err := mtDecode(clearInit, sr); err == nil && cf.Init != nil {
				var cb bytes.Buffer
				if cf.Init.Encode(&cb) == nil && !bytes.Equal(cb.Bytes(), buf.Bytes()) {
					fail("init-boxes", "DecryptInit(InitProtect(init)): the init differs from the never-protected init (a box that is not protection signalling changed or is missing, or the sample entry is not the original one)", clip(hx(buf.Bytes())), clip(hx(cb.Bytes())))
				}
			}
			if sr == srDec {
				di, decInit, decInitBytes = d, f.Init, buf.Bytes()
			}
		}
		if pairing[0] != pairing[1] {
			fail("decinfo-decoders", "DecryptInit pairs tracks and trex boxes differently after DecodeFile and after DecodeFileSR", pairing[1], pairing[0])
		}
		// ---- what comes back from DecryptFragment, against the clear samples of one track
		compare := func(kind string, t *mtTrack, fr *mp4.Fragment, init *mp4.InitSegment) {
			fss, err := fr.GetFullSamples(mtTrexOf(init, t.id))
			if err != nil {
				fail(kind+"-samples", "samples of the decrypted fragment cannot be read through its data offsets", err.Error(), "")
				return
			}
			if len(fss) != len(t.clear) {
				fail(kind+"-sample-count", "sample count of a track differs after decryption", fmt.Sprintf("track %d: %d", t.id, len(fss)), fmt.Sprint(len(t.clear)))
				return
			}
			for i, fs := range fss {
				w := t.clear[i]
				if !bytes.Equal(fs.Data, w.Data) {
					fail(kind+"-sample-bytes", "decrypted sample bytes differ from the clear input", fmt.Sprintf("track %d (%s) sample %d: %s", t.id, t.scheme, i, clip(hx(fs.Data))), clip(hx(w.Data)))
					return
				}
				if fs.Sample != w.Sample || fs.DecodeTime != w.DecodeTime {
					fail(kind+"-sample-meta", "size, duration, flags, composition offset or decode time differ after decryption", fmt.Sprintf("track %d sample %d: %+v@%d", t.id, i, fs.Sample, fs.DecodeTime), fmt.Sprintf("%+v@%d", w.Sample, w.DecodeTime))
					return
				}
			}
		}
		decryptCycle := func(kind string, enc []byte, ts []*mtTrack) {
			ef, err := mtDecode(append(cp(encInit), enc...), srDec)
			fr := mtFirstFrag(ef)
			if err != nil || fr == nil {
				fail(kind+"-enc-decode", "encrypted fragment does not decode against the protected init", fmt.Sprint(err), "")
				return
			}
			if err := mp4.DecryptFragment(fr, di, key); err != nil {
				fail(kind+"-decrypt", "DecryptFragment fails: "+err.Error(), err.Error(), "")
				return
			}
			for _, t := range ts {
				compare(kind, t, fr, decInit)
			}
			var db bytes.Buffer
			if err := fr.Encode(&db); err != nil {
				fail(kind+"-decrypt-encode", "decrypted fragment does not encode", err.Error(), "")
				return
			}
			rf, err := mtDecode(append(cp(decInitBytes), db.Bytes()...), srDec)
			fr2 := mtFirstFrag(rf)
			if err != nil || fr2 == nil {
				fail(kind+"-decrypted-decode", "decrypted output does not decode", fmt.Sprint(err), "")
				return
			}
			for _, t := range ts {
				compare(kind, t, fr2, rf.Init)
			}
		}
		// ---- single-track fragments of every track
		decTime := uint64(r.Intn(100000))
		for ti, t := range tracks {
			fr, _ := mp4.CreateFragment(uint32(ti+1), t.id)
			ns := 1 + r.Intn(4)
			si := r.Intn(len(t.src.samples))
			t.clear = nil
			for k := 0; k < ns; k++ {
				s := t.src.samples[(si+k)%len(t.src.samples)]
				s.Data = cp(s.Data)
				s.Size = uint32(len(s.Data))
				if t.trexDef {
					s.Dur, s.Flags = t.dur, t.flags
				}
				s.DecodeTime = decTime
				decTime += uint64(s.Dur)
				fr.AddFullSample(s)
				t.clear = append(t.clear, s)
			}
			if t.trexDef {
				fr.Moof.Traf.Trun.Flags &^= mp4.TrunSampleDurationPresentFlag | mp4.TrunSampleFlagsPresentFlag
			}
			var cb bytes.Buffer
			if err := fr.Encode(&cb); err != nil {
				return
			}
			t.encFrag = cb.Bytes()
			if t.scheme != "" {
				cf, err := mtDecode(append(cp(encInit), cb.Bytes()...), srDec)
				f0 := mtFirstFrag(cf)
				if err != nil || f0 == nil {
					fail("clear-decode", "clear fragment does not decode against the protected multi-track init", fmt.Sprint(err), "")
					return
				}
				if err := mp4.EncryptFragment(f0, key, t.iv, t.ipd); err != nil {
					fail("encrypt", "EncryptFragment fails on a clear fragment: "+err.Error(), err.Error(), "")
					return
				}
				var eb bytes.Buffer
				if err := f0.Encode(&eb); err != nil {
					fail("encrypt-encode", "encrypted fragment does not encode", err.Error(), "")
					return
				}
				t.encFrag = eb.Bytes()
			}
			decryptCycle("frag", t.encFrag, []*mtTrack{t})
		}
		// ---- the same samples as one multi-track fragment: trafs in another order than the traks
		var sel []*mtTrack
		for _, k := range r.Perm(ntr) {
			if len(sel) < 2 || r.Intn(3) > 0 {
				sel = append(sel, tracks[k])
			}
		}
		interleave := r.Intn(4) == 0
		ids := make([]uint32, len(sel))
		encS := make([][]mp4.FullSample, len(sel))
		sencs := make([]*mp4.SencBox, len(sel))
		for i, t := range sel {
			ids[i] = t.id
			ef, err := mtDecode(append(cp(encInit), t.encFrag...), srDec)
			fr := mtFirstFrag(ef)
			if err != nil || fr == nil {
				return
			}
			encS[i], err = fr.GetFullSamples(mtTrexOf(ef.Init, t.id))
			if err != nil || len(encS[i]) != len(t.clear) {
				return
			}
			sencs[i] = fr.Moof.Traf.Senc
			if t.scheme != "" {
				if sencs[i] == nil {
					return
				}
				for k := range encS[i] {
					if !bytes.Equal(encS[i][k].Data, t.clear[k].Data) {
						protBytes = true
					}
				}
			}
		}
		mf, _ := mp4.CreateMultiTrackFragment(uint32(ntr+1), ids)
		add := func(i, k int) bool {
			s := encS[i][k]
			s.Data = cp(s.Data)
			return mf.AddFullSampleToTrack(s, ids[i]) == nil
		}
		if interleave {
			for k := 0; k < 4; k++ {
				for i := range sel {
					if k < len(encS[i]) && !add(i, k) {
						return
					}
				}
			}
		} else {
			for i := range sel {
				for k := range encS[i] {
					if !add(i, k) {
						return
					}
				}
			}
		}
		for i, t := range sel {
			traf := mf.Moof.Trafs[i]
			if t.trexDef {
				for _, trun := range traf.Truns {
					trun.Flags &^= mp4.TrunSampleDurationPresentFlag | mp4.TrunSampleFlagsPresentFlag
				}
			}
			if t.scheme == "" {
				continue
			}
			n := len(encS[i])
			saiz, saio := mp4.NewSaizBox(n), mp4.NewSaioBox()
			senc := mp4.NewSencBox(0, n)
			if t.scheme == "cenc" {
				senc = mp4.NewSencBox(n, n)
			}
			_ = traf.AddChild(saiz)
			_ = traf.AddChild(saio)
			_ = traf.AddChild(senc)
			for k := 0; k < n; k++ {
				var iv []byte
				if k < len(sencs[i].IVs) {
					iv = sencs[i].IVs[k]
				}
				var subs []mp4.SubSamplePattern
				if k < len(sencs[i].SubSamples) {
					subs = sencs[i].SubSamples[k]
				}
				_ = senc.AddSample(mp4.SencSample{IV: iv, SubSamples: subs})
				saiz.AddSampleInfo(iv, subs)
			}
		}
		offset := uint64(8) // saio offsets: the first senc entry of each traf, from the moof start
		for _, ch := range mf.Moof.Children {
			traf, ok := ch.(*mp4.TrafBox)
			if !ok {
				offset += ch.Size()
				continue
			}
			inner := offset + 8
			for _, tc := range traf.Children {
				if tc.Type() == "senc" && traf.Saio != nil {
					traf.Saio.Offset[0] = int64(inner + 16)
				}
				inner += tc.Size()
			}
			offset += traf.Size()
		}
		var mb bytes.Buffer
		if err := mf.Encode(&mb); err != nil {
			return
		}
		decryptCycle("mfrag", mb.Bytes(), sel)
		c.Count("multi-init.complete") // reached the end of the pipeline (no silent early exit)
	})
	k := ""
	if protBytes {
		k = desc
	}
	c.Eval(k)
	c.Count("multi-init")
	if it < 2 {
		c.Sample(desc)
	}
	if p != "" {
		pe.fail(pe.which, "multi-panic", "panic in the multi-track init / fragment pipeline: "+p, desc, p, "")
	}
}
