package main

// C04 input generation: seeds, bases and structured mutations. Every mutation is recorded as a list of splice edits so
// that an input is a short, replayable protocol line even when the base file is large.

import (
	"encoding/binary"
	"fmt"
	"io/fs"
	"math/rand"
	"os"
	"path/filepath"
	"runtime"
	"sort"
	"strings"
	"sync"
	"time"

	"github.com/Eyevinn/mp4ff/mp4"
)

// ---- bases

var c04BaseCache = map[string][]byte{}
var c04BaseMu sync.Mutex

func c04ResolveBase(ref string) ([]byte, error) {
	c04BaseMu.Lock()
	defer c04BaseMu.Unlock()
	if d, ok := c04BaseCache[ref]; ok {
		return d, nil
	}
	if len(ref) < 3 || ref[1] != ':' {
		return nil, fmt.Errorf("bad base %q", ref)
	}
	arg := ref[2:]
	var d []byte
	switch ref[0] {
	case 'F', 'S':
		b, err := os.ReadFile(repoPath(arg))
		if err != nil {
			return nil, err
		}
		d = b
		if ref[0] == 'S' {
			d = c04Strip(b)
		}
	case 'P':
		seed := int64(atoi(arg))
		r := rand.New(rand.NewSource(seed))
		d = genProgFile(r, 1+int(seed%3), 2+int(seed%37)).bytes
	case 'E':
		b, err := c04EncBase(int64(atoi(arg)))
		if err != nil {
			return nil, err
		}
		d = b
	case 'G':
		seed := int64(atoi(arg))
		cc := &Ctx{R: rand.New(rand.NewSource(seed))}
		s := genFF(cc)
		b, err := buildFF(s)
		if err != nil {
			return nil, err
		}
		d = b.bytes
	default:
		return nil, fmt.Errorf("bad base %q", ref)
	}
	c04BaseCache[ref] = d
	return d, nil
}

// c04Strip cuts every mdat payload longer than 64 bytes to 64 bytes (size field adjusted).
func c04Strip(d []byte) []byte {
	var bx []rawBox
	c04Walk(d, 0, "", &bx)
	out := append([]byte{}, d...)
	for i := len(bx) - 1; i >= 0; i-- {
		b := bx[i]
		if b.typ != "mdat" || strings.Count(b.path, "/") != 1 || b.size-b.hl <= 64 {
			continue
		}
		cut := b.size - b.hl - 64
		out = append(out[:b.start+b.hl+64], out[b.start+b.size:]...)
		if b.hl == 8 {
			binary.BigEndian.PutUint32(out[b.start:], uint32(b.size-cut))
		} else {
			binary.BigEndian.PutUint64(out[b.start+8:], uint64(b.size-cut))
		}
	}
	return out
}

func c04RepoSeedFiles() []string {
	root := repoPath("")
	var rels []string
	exts := map[string]bool{".mp4": true, ".m4s": true, ".cmfv": true, ".cmfa": true, ".cmft": true, ".isma": true, ".ismv": true, ".ismt": true,
		".m4a": true, ".m4v": true, ".mov": true, ".dat": true, ".bin": true}
	_ = filepath.WalkDir(root, func(p string, de fs.DirEntry, err error) error {
		if err != nil {
			return nil
		}
		if de.IsDir() {
			if de.Name() == ".git" || de.Name() == "fuzz" {
				return filepath.SkipDir
			}
			return nil
		}
		if !exts[filepath.Ext(p)] || !strings.Contains(p, "testdata") {
			return nil
		}
		if fi, err := de.Info(); err != nil || fi.Size() > c04MaxInput || fi.Size() < 8 {
			return nil
		}
		rel, _ := filepath.Rel(root, p)
		rels = append(rels, rel)
		return nil
	})
	sort.Strings(rels)
	return rels
}

type c04Seed struct {
	ref  string
	data []byte
}

// c04Walk: independent box walker, robust against hostile size fields (boxcheck.go's walkBoxes assumes sane sizes)
func c04Walk(data []byte, base int, path string, out *[]rawBox) {
	pos := 0
	for pos+8 <= len(data) && len(*out) < 20000 {
		size64 := uint64(binary.BigEndian.Uint32(data[pos:]))
		typ := string(data[pos+4 : pos+8])
		hl := 8
		if size64 == 1 {
			if pos+16 > len(data) {
				return
			}
			size64 = binary.BigEndian.Uint64(data[pos+8:])
			hl = 16
		}
		if size64 < uint64(hl) || size64 > uint64(len(data)-pos) {
			return
		}
		size := int(size64)
		*out = append(*out, rawBox{typ, base + pos, hl, size, path + "/" + typ})
		if skip, ok := walkContainers[typ]; ok && size >= hl+skip && strings.Count(path, "/") < 24 {
			c04Walk(data[pos+hl+skip:pos+size], base+pos+hl+skip, path+"/"+typ, out)
		}
		pos += size
	}
}

// ---- mutator

type c04M struct {
	r     *rand.Rand
	ref   string
	buf   []byte
	edits []string
	kinds []string
	types []string // registered box types
	bank  [][]byte // donor boxes
	focus int      // >= 0: start offset of a container; mutations are confined to the boxes inside it (coordinated edits)
}

func (m *c04M) splice(off, del int, ins []byte) {
	if off < 0 || del < 0 || off+del > len(m.buf) {
		return
	}
	nb := make([]byte, 0, len(m.buf)-del+len(ins))
	nb = append(nb, m.buf[:off]...)
	nb = append(nb, ins...)
	nb = append(nb, m.buf[off+del:]...)
	m.buf = nb
	m.edits = append(m.edits, fmt.Sprintf("%d:%d:%s", off, del, hx(ins)))
}

func (m *c04M) put32(off int, v uint32) {
	if off+4 > len(m.buf) {
		return
	}
	var b [4]byte
	binary.BigEndian.PutUint32(b[:], v)
	m.splice(off, 4, b[:])
}

func (m *c04M) put64(off int, v uint64) {
	if off+8 > len(m.buf) {
		return
	}
	var b [8]byte
	binary.BigEndian.PutUint64(b[:], v)
	m.splice(off, 8, b[:])
}

func (m *c04M) walk() []rawBox {
	var bx []rawBox
	c04Walk(m.buf, 0, "", &bx)
	return bx
}

func (m *c04M) setSize(b rawBox, size int) {
	if size < 0 {
		size = 0
	}
	if b.hl == 8 {
		m.put32(b.start, uint32(size))
	} else {
		m.put64(b.start+8, uint64(size))
	}
}

// ancestors of t (boxes containing it)
func c04Ancestors(bx []rawBox, t rawBox) []rawBox {
	var out []rawBox
	for _, a := range bx {
		if a.start <= t.start && t.start+t.size <= a.start+a.size && len(a.path) < len(t.path) && strings.HasPrefix(t.path, a.path+"/") {
			out = append(out, a)
		}
	}
	return out
}

func c04ParentStart(bx []rawBox, t rawBox) int {
	a := c04Ancestors(bx, t)
	if len(a) == 0 {
		return -1
	}
	return a[len(a)-1].start
}

func (m *c04M) fixAncestors(bx []rawBox, t rawBox, delta int) {
	for _, a := range c04Ancestors(bx, t) {
		m.setSize(a, a.size+delta)
	}
}

func (m *c04M) pick(bx []rawBox) (rawBox, bool) {
	if m.focus > 0 {
		// the focus container is identified by its start offset (stable: edits happen inside or after it)
		for _, f := range bx {
			if f.start == m.focus {
				var in []rawBox
				for _, b := range bx {
					if b.start > f.start && b.start+b.size <= f.start+f.size {
						in = append(in, b)
					}
				}
				if len(in) > 0 {
					bx = in
				}
				break
			}
		}
	}
	if len(bx) == 0 {
		return rawBox{}, false
	}
	for try := 0; try < 8; try++ {
		b := bx[m.r.Intn(len(bx))]
		if b.typ == "mdat" && m.r.Intn(20) != 0 {
			continue
		}
		return b, true
	}
	return bx[m.r.Intn(len(bx))], true
}

func (m *c04M) randBytes(n int) []byte {
	b := make([]byte, n)
	switch m.r.Intn(4) {
	case 0:
	case 1:
		for i := range b {
			b[i] = 0xff
		}
	default:
		m.r.Read(b)
	}
	return b
}

var c04BigCounts = []uint32{0, 1, 2, 1 << 16, 1 << 24, 1<<24 + 1, 1 << 26, 1 << 28, 1<<28 + 7, 1<<29 - 1, 1 << 30, 1<<31 - 1, 1 << 31, 1<<32 - 2, 1<<32 - 1, 0x0fffffff, 0x15555556, 0x20000000}

// count field offsets (from box start, 8-byte header) of the tables whose length is announced by a count
func c04CountOffset(typ string, d []byte) int {
	if len(d) < 12 {
		return -1
	}
	ver, fl := d[8], d[11]
	switch typ {
	case "stts", "ctts", "stsc", "stco", "co64", "stss", "elst", "stsd", "dref", "subs", "senc", "trun", "stsh", "stdp", "padb":
		return 12
	case "stsz", "stz2":
		return 16
	case "tfra":
		return 20
	case "sgpd":
		if ver >= 1 {
			return 20
		}
		return 16
	case "sbgp":
		if ver >= 1 {
			return 20
		}
		return 16
	case "saio":
		if fl&1 != 0 {
			return 20
		}
		return 12
	case "saiz":
		if fl&1 != 0 {
			return 21
		}
		return 13
	case "uuid":
		return 28 // PIFF senc: 16-byte usertype + version/flags + count
	case "pssh":
		if ver >= 1 {
			return 28
		}
		return 28
	}
	return -1
}

// one mutation step; returns its kind ("" = not applicable)
func (m *c04M) step() string {
	bx := m.walk()
	t, ok := m.pick(bx)
	r := m.r
	if !ok {
		// no box structure left: random bytes
		if len(m.buf) == 0 {
			return ""
		}
		p := r.Intn(len(m.buf))
		m.splice(p, 1, []byte{byte(r.Intn(256))})
		return "bytes"
	}
	end := t.start + t.size
	switch k := r.Intn(100); {
	case k < 10: // truncation at box boundaries and inside headers
		var p int
		switch r.Intn(6) {
		case 0:
			p = t.start
		case 1:
			p = t.start + 1 + r.Intn(t.hl+5)
		case 2:
			p = end - 1
		case 3:
			p = end
		case 4:
			p = t.start + t.hl
		default:
			p = t.start + r.Intn(t.size)
		}
		if p >= len(m.buf) || p < 0 {
			return ""
		}
		m.splice(p, len(m.buf)-p, nil)
		if p > t.start && p < t.start+t.hl {
			return "trunc-header"
		}
		if p == t.start || p == end || p == t.start+t.hl {
			return "trunc-boundary"
		}
		return "trunc-inside"
	case k < 18: // shrink payload, sizes fixed
		pl := t.size - t.hl
		if pl <= 0 {
			return ""
		}
		cut := []int{1, 2, 3, 4, 5, 8, pl, pl - 1, pl - 3, pl - 4, pl - 7, pl - 8, 1 + r.Intn(pl)}[r.Intn(13)]
		if cut <= 0 || cut > pl {
			cut = pl
		}
		m.splice(end-cut, cut, nil)
		m.setSize(t, t.size-cut)
		m.fixAncestors(bx, t, -cut)
		return "shrink"
	case k < 22: // grow payload, sizes fixed
		add := m.randBytes([]int{1, 2, 3, 4, 7, 8, 16, 1 + r.Intn(64)}[r.Intn(8)])
		m.splice(end, 0, add)
		m.setSize(t, t.size+len(add))
		m.fixAncestors(bx, t, len(add))
		return "grow"
	case k < 34: // 32-bit size field corruption
		vals := []uint32{0, 1, 2, 7, 8, 9, 12, 15, 16, uint32(t.size + 1), uint32(t.size - 1), uint32(t.size + 8), uint32(t.size - 4), 1 << 31, 1<<32 - 1, 1<<31 - 1,
			uint32(len(m.buf) - t.start + 1), uint32(len(m.buf) - t.start), 1 << 24, r.Uint32()}
		v := vals[r.Intn(len(vals))]
		m.put32(t.start, v)
		return fmt.Sprintf("size32=%s", c04SizeName(v, t.size))
	case k < 42: // 64-bit size
		if t.hl != 8 {
			v := []uint64{0, 8, 15, 16, 17, uint64(t.size + 1), 1 << 31, 1 << 32, 1 << 63, 1<<64 - 1, 1<<63 - 1}[r.Intn(11)]
			m.put64(t.start+8, v)
			return "size64-corrupt"
		}
		ls := []uint64{uint64(t.size + 8), uint64(t.size + 8), 1 << 63, 1<<64 - 1, 16, 15, 0, 8, uint64(t.size + 9), 1 << 32, 1 << 31, 1<<63 - 1, uint64(t.size)}
		i := r.Intn(len(ls))
		hdr := []byte{0, 0, 0, 1, m.buf[t.start+4], m.buf[t.start+5], m.buf[t.start+6], m.buf[t.start+7], 0, 0, 0, 0, 0, 0, 0, 0}
		binary.BigEndian.PutUint64(hdr[8:], ls[i])
		m.splice(t.start, 8, hdr)
		if i < 2 || r.Intn(2) == 0 {
			m.fixAncestors(bx, t, 8)
		}
		if i < 2 {
			return "size64-valid"
		}
		if ls[i] == 16 {
			// empty payload behind a 16-byte header
			if r.Intn(2) == 0 {
				m.splice(t.start+16, t.size-8, nil)
				m.fixAncestors(m.walk(), rawBox{start: t.start, size: 16, path: t.path}, 0)
				return "size64=16-empty"
			}
		}
		return "size64-corrupt"
	case k < 50: // removal
		if r.Intn(4) == 0 {
			// remove every box of this type under the same parent
			ps := c04ParentStart(bx, t)
			tot := 0
			for i := len(bx) - 1; i >= 0; i-- {
				b := bx[i]
				if b.typ == t.typ && b.path == t.path && c04ParentStart(bx, b) == ps {
					m.splice(b.start, b.size, nil)
					tot += b.size
				}
			}
			m.fixAncestors(bx, t, -tot)
			return "remove-all:" + c04TypeName(t.typ)
		}
		m.splice(t.start, t.size, nil)
		if r.Intn(10) != 0 {
			m.fixAncestors(bx, t, -t.size)
			return "remove:" + c04TypeName(t.typ)
		}
		return "remove-nofix"
	case k < 55: // duplication
		if t.size > 20000 {
			return ""
		}
		cpy := append([]byte{}, m.buf[t.start:end]...)
		m.splice(end, 0, cpy)
		m.fixAncestors(bx, t, t.size)
		return "dup:" + c04TypeName(t.typ)
	case k < 61: // swap with next sibling / reorder
		for _, s := range bx {
			if s.start == end && s.path[:strings.LastIndex(s.path, "/")] == t.path[:strings.LastIndex(t.path, "/")] {
				if s.size+t.size > 40000 {
					return ""
				}
				nb := append(append([]byte{}, m.buf[s.start:s.start+s.size]...), m.buf[t.start:end]...)
				m.splice(t.start, t.size+s.size, nb)
				return "swap:" + c04TypeName(t.typ) + "," + c04TypeName(s.typ)
			}
		}
		return ""
	case k < 68: // insertion of a donor box at a child boundary
		if len(m.bank) == 0 {
			return ""
		}
		donor := m.bank[r.Intn(len(m.bank))]
		if r.Intn(3) == 0 {
			// a box of the same input
			d, ok := m.pick(bx)
			if ok && d.size <= 4000 {
				donor = append([]byte{}, m.buf[d.start:d.start+d.size]...)
			}
		}
		pos := end // after t (as a sibling)
		if skip, isC := walkContainers[t.typ]; isC && t.size >= t.hl+skip && r.Intn(2) == 0 {
			pos = t.start + t.hl + skip // first child of t
			m.splice(pos, 0, donor)
			m.setSize(t, t.size+len(donor))
			m.fixAncestors(bx, t, len(donor))
			return "insert-child:" + c04TypeName(string(donor[4:8])) + ">" + c04TypeName(t.typ)
		}
		m.splice(pos, 0, donor)
		m.fixAncestors(bx, t, len(donor))
		par := "top"
		if el := strings.Split(t.path, "/"); len(el) >= 3 {
			par = el[len(el)-2]
		}
		return "insert-child:" + c04TypeName(string(donor[4:8])) + ">" + c04TypeName(par)
	case k < 80: // count fields
		return m.countStep(bx, t)
	case k < 86: // type change
		var nt []byte
		switch r.Intn(4) {
		case 0:
			o := bx[r.Intn(len(bx))]
			nt = []byte(o.typ)
		case 1:
			nt = []byte{byte(32 + r.Intn(95)), byte(32 + r.Intn(95)), byte(32 + r.Intn(95)), byte(32 + r.Intn(95))}
		default:
			nt = []byte(m.types[r.Intn(len(m.types))])
		}
		m.splice(t.start+4, 4, nt)
		return "type"
	case k < 92: // version / flags
		if t.size < t.hl+4 {
			return ""
		}
		p := t.start + t.hl
		if r.Intn(2) == 0 {
			m.splice(p, 1, []byte{[]byte{0, 1, 2, 3, 4, 0x7f, 0x80, 0xff}[r.Intn(8)]})
			return "version"
		}
		fl := []byte{m.buf[p+1], m.buf[p+2], m.buf[p+3]}
		switch r.Intn(4) {
		case 0:
			fl = []byte{0xff, 0xff, 0xff}
		case 1:
			fl = []byte{0, 0, 0}
		default:
			fl[r.Intn(3)] ^= 1 << uint(r.Intn(8))
		}
		m.splice(p+1, 3, fl)
		return "flags"
	default: // random bytes
		if t.size <= t.hl {
			return ""
		}
		n := 1 + r.Intn(6)
		if r.Intn(5) == 0 {
			// overwrite a stretch
			l := 1 + r.Intn(minInt(32, t.size-t.hl))
			p := t.start + t.hl + r.Intn(t.size-t.hl-l+1)
			m.splice(p, l, m.randBytes(l))
			return "bytes-stretch"
		}
		for i := 0; i < n; i++ {
			span := t.size - t.hl
			if span > 96 && r.Intn(3) != 0 {
				span = 96
			}
			p := t.start + t.hl + r.Intn(span)
			m.splice(p, 1, []byte{[]byte{0, 1, 0x7f, 0x80, 0xff, byte(r.Intn(256))}[r.Intn(6)]})
		}
		return "bytes"
	}
}

// countStep: count-field mutation of box t (table-driven count offset or a generic aligned word): the round huge values,
// +-2 around the present value, and the values whose 32-bit product with an element size wraps to something that fits
func (m *c04M) countStep(bx []rawBox, t rawBox) string {
	r := m.r
	end := t.start + t.size
	off := c04CountOffset(t.typ, m.buf[t.start:end])
	if t.hl == 16 && off > 0 {
		off += 8
	}
	tag := "count"
	if off < 0 || off+4 > t.size || r.Intn(4) == 0 {
		// generic: any aligned word near the start of the payload
		maxw := (t.size - t.hl) / 4
		if maxw > 16 {
			maxw = 16
		}
		if maxw <= 0 {
			return ""
		}
		off = t.hl + 4*r.Intn(maxw)
		tag = "word"
	}
	v := c04BigCounts[r.Intn(len(c04BigCounts))]
	old := binary.BigEndian.Uint32(m.buf[t.start+off:])
	wrap := false
	switch r.Intn(6) {
	case 0:
		v = old + uint32(r.Intn(5)) - 2
	case 1, 2:
		// count * element size wraps 32 bits and fits what is there
		v, _ = c04WrapCount(r, old, t.size-off-4)
		wrap = true
	}
	m.put32(t.start+off, v)
	if wrap {
		return tag + "-wrap"
	}
	switch r.Intn(5) {
	case 0: // announce a bigger box, ancestors too
		inc := []int{4, 8, 12, 16, 1 << 16, 1 << 24}[r.Intn(6)]
		m.setSize(t, t.size+inc)
		if r.Intn(2) == 0 {
			m.fixAncestors(bx, t, inc)
		}
		return tag + "-inflate-size"
	case 1:
		if v == 0 && tag == "count" {
			cut := t.size - off - 4
			if cut > 0 {
				m.splice(t.start+off+4, cut, nil)
				m.setSize(t, t.size-cut)
				m.fixAncestors(bx, t, -cut)
				return "count-zero-fit"
			}
		}
	}
	if v < 3 {
		return tag + "-small"
	}
	return tag + "-big"
}

// resync repairs the cross-box links that gate deeper code after other mutations moved things: the saio offset that
// must point at the senc payload (else the senc is never parsed), or drops the saio (parsing is then attempted without
// it), and the mfro size field that must match the mfra box (else the ISM path rejects the file).
func (m *c04M) resync() string {
	r := m.r
	bx := m.walk()
	did := ""
	dropSaio := r.Intn(4) == 0
	for i := len(bx) - 1; i >= 0; i-- {
		b := bx[i]
		if b.typ != "saio" || !strings.HasSuffix(b.path, "/moof/traf/saio") {
			continue
		}
		anc := c04Ancestors(bx, b)
		if len(anc) < 2 {
			continue
		}
		traf, moof := anc[len(anc)-1], anc[len(anc)-2]
		if dropSaio {
			m.splice(b.start, b.size, nil)
			m.fixAncestors(bx, b, -b.size)
			did = "drop-saio"
			bx = m.walk()
			continue
		}
		for _, s := range bx {
			if s.typ == "senc" && s.path == traf.path+"/senc" && s.start >= traf.start && s.start < traf.start+traf.size {
				p := b.start + b.hl
				if p+4 > b.start+b.size {
					break
				}
				ver, fl := m.buf[p], m.buf[p+3]
				p += 4
				if fl&1 != 0 {
					p += 8
				}
				p += 4
				want := uint64(s.start + s.hl + 8 - moof.start)
				if ver == 0 && p+4 <= b.start+b.size {
					m.put32(p, uint32(want))
					did = "resync-saio"
				} else if ver != 0 && p+8 <= b.start+b.size {
					m.put64(p, want)
					did = "resync-saio"
				}
				break
			}
		}
	}
	// mfro
	if n := len(m.buf); n >= 16 && string(m.buf[n-12:n-8]) == "mfro" {
		for _, b := range bx {
			if b.typ == "mfra" && strings.Count(b.path, "/") == 1 && b.start+b.size == n {
				if int(binary.BigEndian.Uint32(m.buf[n-4:])) != b.size {
					m.put32(n-4, uint32(b.size))
					if did == "" {
						did = "resync-mfro"
					}
				}
			}
		}
	}
	return did
}

func c04TypeName(t string) string {
	for _, ch := range t {
		if ch < 32 || (ch > 126 && ch != 0xa9) || ch == '~' || ch == '|' || ch == ',' || ch == ':' || ch == '+' || ch == '>' {
			return "bin"
		}
	}
	return t
}

func c04SizeName(v uint32, size int) string {
	switch {
	case v < 17:
		return fmt.Sprint(v)
	case int(v) == size+1:
		return "lenplus1"
	case int(v) == size-1:
		return "len-1"
	case v == 1<<31:
		return "2^31"
	case v == 1<<32-1:
		return "2^32-1"
	case int(v) > size:
		return "bigger"
	default:
		return "smaller"
	}
}

// line renders the protocol line of the current state
func (m *c04M) line(lvl string) string {
	if lvl == "" {
		lvl = "-"
	}
	if len(m.buf) <= 3000 || m.ref == "" {
		return "in " + lvl + " " + hx(m.buf)
	}
	e := "-"
	if len(m.edits) > 0 {
		e = strings.Join(m.edits, ",")
	}
	return "mut " + lvl + " " + m.ref + " " + e
}

// ---- synthetic boxes: every registered type with short / degenerate payloads

func c04Synthetic(r *rand.Rand, typ string) ([]byte, string) {
	L := r.Intn(41)
	if r.Intn(8) == 0 {
		L = []int{48, 64, 100, 256, 1000}[r.Intn(5)]
	}
	pl := make([]byte, L)
	pat := r.Intn(6)
	switch pat {
	case 0:
	case 1:
		for i := range pl {
			pl[i] = 0xff
		}
	case 2:
		r.Read(pl)
	case 3: // version/flags 0, then a huge count
		for i := 4; i < L && i < 8; i++ {
			pl[i] = 0xff
		}
	case 4: // small counts
		for i := 3; i < L; i += 4 {
			pl[i] = 1
		}
	case 5: // version 1, flags set, count 1
		if L > 0 {
			pl[0] = 1
		}
		for i := 1; i < L && i < 4; i++ {
			pl[i] = byte(r.Intn(256))
		}
		if L > 7 {
			pl[7] = byte(1 + r.Intn(3))
		}
	}
	large := r.Intn(5) == 0
	var b []byte
	if large {
		b = make([]byte, 16, 16+L)
		binary.BigEndian.PutUint32(b, 1)
		copy(b[4:], typ)
		binary.BigEndian.PutUint64(b[8:], uint64(16+L))
	} else {
		b = make([]byte, 8, 8+L)
		binary.BigEndian.PutUint32(b, uint32(8+L))
		copy(b[4:], typ)
	}
	b = append(b, pl...)
	kind := fmt.Sprintf("synthetic-pat%d", pat)
	if large {
		kind += "-largesize"
	}
	return b, kind
}

// ---- generation (parent)

type c04Case struct {
	line    string
	kind    string // mutation kinds joined by +
	origin  string // F S P G box synth seed
	mutated bool
	size    int
}

func c04SizeBucket(n int) string {
	switch {
	case n < 64:
		return "<64"
	case n < 1024:
		return "<1k"
	case n < 16384:
		return "<16k"
	case n < 65536:
		return "<64k"
	default:
		return ">=64k"
	}
}

var c04LevelTypes = []string{"trun", "senc", "saio", "saiz", "stsz", "stts", "ctts", "stss", "stsc", "stco", "co64", "sidx", "tfra", "sbgp", "sgpd", "subs", "sdtp", "emsg", "pssh", "uuid", "esds", "elst", "cslg", "leva", "ssix"}

func c04RandLevel(r *rand.Rand) string {
	t := c04LevelTypes[r.Intn(len(c04LevelTypes))]
	switch r.Intn(8) {
	case 0:
		return t + ":x"
	case 1:
		return "all:-1," + t + ":3"
	case 2:
		return t + ":1,all:2"
	case 3:
		return t + ":2"
	default:
		return t + ":1"
	}
}

var c04StructTypes = map[string]bool{"moov": true, "trak": true, "moof": true, "traf": true, "tfhd": true, "trun": true, "tfdt": true, "mfhd": true, "mvex": true, "trex": true,
	"mdia": true, "minf": true, "stbl": true, "stsd": true, "stts": true, "stsc": true, "stsz": true, "stco": true, "mdhd": true, "hdlr": true, "tkhd": true, "mvhd": true,
	"ftyp": true, "styp": true, "sidx": true, "saio": true, "saiz": true, "senc": true, "mdat": true, "mfra": true, "tfra": true, "mfro": true, "emsg": true, "sinf": true, "schi": true, "tenc": true}

var c04Registered = map[string]bool{}

type c04Gen struct {
	c        *Ctx
	seeds    []c04Seed
	encSeeds []c04Seed // the E: (library-encrypted) seeds among seeds
	types    []string
	bank     [][]byte
}

func (g *c04Gen) pickSeed() c04Seed {
	r := g.c.R
	for {
		s := g.seeds[r.Intn(len(g.seeds))]
		if len(s.data) > 100000 && r.Intn(4) != 0 {
			continue
		}
		if len(s.data) > 30000 && r.Intn(2) != 0 {
			continue
		}
		return s
	}
}

func (g *c04Gen) fileCase() (c04Case, bool) {
	r := g.c.R
	s := g.pickSeed()
	m := &c04M{r: r, ref: s.ref, buf: s.data, types: g.types, bank: g.bank}
	steps := 1
	if x := r.Intn(100); x < 10 {
		steps = 3
	} else if x < 40 {
		steps = 2
	}
	var kinds []string
	if r.Intn(4) == 0 {
		// coordinated edits: all steps inside one traf / trak / stbl / mvex / mfra / stsd / moof / moov
		var cands []rawBox
		for _, b := range m.walk() {
			switch b.typ {
			case "traf", "trak", "stbl", "mvex", "mfra", "stsd", "moof", "moov", "sinf", "minf":
				if b.start > 0 {
					cands = append(cands, b)
				}
			}
		}
		if len(cands) > 0 {
			m.focus = cands[r.Intn(len(cands))].start
			steps = 2 + r.Intn(3)
			kinds = append(kinds, "focus")
		}
	}
	for j := 0; j < steps; j++ {
		if k := m.step(); k != "" {
			kinds = append(kinds, k)
		}
	}
	if len(kinds) == 0 {
		return c04Case{}, false
	}
	if r.Intn(2) == 0 {
		if k := m.resync(); k != "" {
			kinds = append(kinds, k)
		}
	}
	return c04Case{m.line(c04RandLevel(r)), strings.Join(kinds, "+"), s.ref[:1], true, len(m.buf)}, true
}

func (g *c04Gen) boxCase() (c04Case, bool) {
	r := g.c.R
	s := g.pickSeed()
	var bx []rawBox
	c04Walk(s.data, 0, "", &bx)
	if len(bx) == 0 {
		return c04Case{}, false
	}
	m := &c04M{r: r, ref: s.ref, buf: s.data, types: g.types, bank: g.bank}
	t, _ := m.pick(bx)
	if t.start+t.size < len(m.buf) {
		m.splice(t.start+t.size, len(m.buf)-t.start-t.size, nil)
	}
	if t.start > 0 {
		m.splice(0, t.start, nil)
	}
	var kinds []string
	steps := 1 + r.Intn(2)
	if r.Intn(12) == 0 {
		steps = 0
	}
	for j := 0; j < steps; j++ {
		if k := m.step(); k != "" {
			kinds = append(kinds, k)
		}
	}
	kind := "single-box-unmodified"
	if len(kinds) > 0 {
		kind = strings.Join(kinds, "+")
	}
	return c04Case{m.line(c04RandLevel(r)), kind, "box", len(kinds) > 0, len(m.buf)}, true
}

func (g *c04Gen) synthCase() (c04Case, bool) {
	r := g.c.R
	if r.Intn(12) == 0 {
		n := r.Intn(200)
		b := make([]byte, n)
		r.Read(b)
		if n >= 8 && r.Intn(2) == 0 {
			binary.BigEndian.PutUint32(b, uint32(n))
			copy(b[4:], g.types[r.Intn(len(g.types))])
		}
		return c04Case{"in - " + hx(b), "random", "synth", true, n}, true
	}
	t := g.types[r.Intn(len(g.types))]
	b, kind := c04Synthetic(r, t)
	if r.Intn(6) == 0 {
		wr := [][]string{{"traf", "moof"}, {"trak", "moov"}, {"stbl", "minf", "mdia", "trak", "moov"}, {"moov"}, {"moof"}}[r.Intn(5)]
		for _, w := range wr {
			b = box(w, b)
		}
		kind += "-wrapped"
	}
	return c04Case{"in " + c04RandLevel(r) + " " + hx(b), kind, "synth", true, len(b)}, true
}

func (g *c04Gen) apiCase() (c04Case, bool) {
	r := g.c.R
	b, _ := c04BuildAPIBox(r)
	if b == nil {
		return c04Case{}, false
	}
	if r.Intn(4) == 0 {
		wr := [][]string{{"traf", "moof"}, {"trak", "moov"}, {"stbl", "minf", "mdia", "trak", "moov"}, {"moov"}, {"moof"}, {"stsd"}}[r.Intn(6)]
		for _, w := range wr {
			if w == "stsd" {
				b = box(w, append([]byte{0, 0, 0, 0, 0, 0, 0, 1}, b...))
			} else {
				b = box(w, b)
			}
		}
	}
	m := &c04M{r: r, ref: "", buf: b, types: g.types, bank: g.bank}
	var kinds []string
	steps := r.Intn(3)
	for j := 0; j < steps; j++ {
		if k := m.step(); k != "" {
			kinds = append(kinds, k)
		}
	}
	kind := "api-built"
	if len(kinds) > 0 {
		kind += "+" + strings.Join(kinds, "+")
	}
	return c04Case{m.line(c04RandLevel(r)), kind, "api", true, len(m.buf)}, true
}

type c04Pending struct {
	cs c04Case
	v  c04Viol
}

func genC04(c *Ctx) {
	r := c.R
	g := &c04Gen{c: c}
	// --- seeds
	for _, rel := range c04RepoSeedFiles() {
		for _, p := range []string{"F:", "S:"} {
			d, err := c04ResolveBase(p + rel)
			if err != nil {
				continue
			}
			if p == "S:" {
				if full, _ := c04ResolveBase("F:" + rel); len(full) == len(d) {
					continue
				}
			}
			g.seeds = append(g.seeds, c04Seed{p + rel, d})
		}
	}
	nRepo := len(g.seeds)
	for i := 0; i < c.N(20, 60); i++ {
		ref := fmt.Sprintf("P:%d", 1+r.Intn(1000000))
		if d, err := c04ResolveBase(ref); err == nil && len(d) <= c04MaxInput {
			g.seeds = append(g.seeds, c04Seed{ref, d})
		}
	}
	for i := 0; i < c.N(40, 120); i++ {
		ref := fmt.Sprintf("G:%d", 1+r.Intn(1000000))
		if d, err := c04ResolveBase(ref); err == nil && len(d) <= c04MaxInput {
			g.seeds = append(g.seeds, c04Seed{ref, d})
		}
	}
	for i := 0; i < c.N(18, 54); i++ {
		// every clear source x {cenc 8-byte IV, cenc 16-byte IV, cbcs} (seed mod 9), then random fragment shapes
		ref := fmt.Sprintf("E:%d", 9*(1+r.Intn(100000))+i%9)
		if d, err := c04ResolveBase(ref); err == nil && len(d) <= c04MaxInput {
			g.seeds = append(g.seeds, c04Seed{ref, d})
			g.encSeeds = append(g.encSeeds, c04Seed{ref, d})
		}
	}
	c.Note(fmt.Sprintf("seeds: %d repository files/variants, %d generated (%d of them encrypted through the library)", nRepo, len(g.seeds)-nRepo, len(g.encSeeds)))
	rdr, _ := mp4.VerifDecoderKeys()
	sort.Strings(rdr)
	g.types = rdr
	for _, t := range rdr {
		c04Registered[c04TypeName(t)] = true
	}
	// donor bank: small boxes of the seeds + empty/short boxes of every registered type
	seenBank := map[string]bool{}
	for _, s := range g.seeds {
		var bx []rawBox
		c04Walk(s.data, 0, "", &bx)
		for _, b := range bx {
			if b.size <= 1200 && b.typ != "mdat" {
				k := string(s.data[b.start : b.start+b.size])
				if !seenBank[k] {
					seenBank[k] = true
					g.bank = append(g.bank, []byte(k))
				}
			}
		}
	}
	for _, t := range g.types {
		for _, l := range []int{0, 4, 8, 16} {
			b := make([]byte, 8+l)
			binary.BigEndian.PutUint32(b, uint32(8+l))
			copy(b[4:], t)
			g.bank = append(g.bank, b)
		}
	}
	workers := runtime.NumCPU()
	if workers > 16 {
		workers = 16
	}
	if v := atoi(os.Getenv("VERIF_C04_WORKERS")); v > 0 {
		workers = v
	}
	var confirm []c04Pending
	confirmSeen := map[string]int{}
	walkBudget := c.N(8000, 42000)
	runRound := func(cases []c04Case) {
		lines := make([]string, len(cases))
		for i := range cases {
			lines[i] = cases[i].line
		}
		answers := c04RunPool(lines, workers, 200, nil)
		c04Evaluate(c, cases, answers, &confirm, confirmSeen)
		// model correspondence on a sample of this round's file-level inputs
		var sample []string
		for i, cs := range cases {
			if strings.Contains(answers[i], " | ") {
				continue // the worker reported a violation on this input: it is not decoded again outside the measured phases
			}
			if walkBudget > 0 && i%3 == 0 && (cs.kindTop() == "file" || len(cases) < 200) {
				sample = append(sample, cs.line)
				walkBudget--
			}
		}
		c04WalkCorrespondence(c, sample, workers)
	}
	// (a) every seed unmodified: valid inputs must satisfy the oracle
	var cases []c04Case
	for _, s := range g.seeds {
		m := &c04M{r: r, ref: s.ref, buf: s.data}
		cases = append(cases, c04Case{m.line("all:1"), "unmodified", s.ref[:1], false, len(s.data)})
	}
	runRound(cases)
	// (a') hand-built scenarios (cross-box situations; minimal forms of the defect classes of the unchanged tree)
	cases = nil
	for i, sc := range c04Scenarios() {
		cases = append(cases, c04Case{fmt.Sprintf("scen all:2 %d", i), "scenario: " + sc.name, "scenario", true, len(sc.data)})
	}
	runRound(cases)
	c04SencSizeCorrespondence(c, workers)
	// (b) whole-file mutations, (c) single boxes mutated, (d) synthetic boxes of every registered type; in rounds
	total := c.N(300000, 2000000)
	if v := atoi(os.Getenv("VERIF_C04_TOTAL")); v > 0 {
		total = v
	}
	const roundSize = 40000
	for done := 0; done < total; {
		n := total - done
		if n > roundSize {
			n = roundSize
		}
		cases = cases[:0]
		for i := 0; i < n; i++ {
			var cs c04Case
			var ok bool
			switch x := r.Intn(100); {
			case x < 42:
				cs, ok = g.fileCase()
			case x < 48:
				cs, ok = g.countCase()
			case x < 70:
				cs, ok = g.boxCase()
			case x < 90:
				cs, ok = g.apiCase()
			default:
				cs, ok = g.synthCase()
			}
			if ok {
				cases = append(cases, cs)
			}
		}
		runRound(cases)
		done += n
		if !c.deadline.IsZero() && time.Now().After(c.deadline) {
			c.Note(fmt.Sprintf("time budget reached after %d of %d inputs", done, total))
			break
		}
	}
	// --- confirmation of time / memory violations: the input alone in a fresh worker, trace mode (sites from the heap profile)
	for _, p := range confirm {
		a := c04RunIsolated([]string{p.cs.line}, true, "")[0]
		found := false
		for _, vs := range strings.Split(a, " | ")[1:] {
			v, ok := c04ParseViol(vs)
			if !ok {
				continue
			}
			if v.kind == p.v.kind || (p.v.kind == "slow" && v.kind == "hang") || (p.v.kind == "hang" && v.kind == "slow") || strings.HasPrefix(p.v.kind, "flaky") {
				found = true
				c04Report(c, p.cs, v)
			}
		}
		if !found {
			c.Count("violation not reproduced alone: " + p.v.kind)
			if len(c.St.Notes) < 8 {
				l := p.cs.line
				if len(l) > 700 {
					l = l[:700] + "…"
				}
				c.Note(fmt.Sprintf("not reproduced alone: %s in %s [%s] input %s: %s", p.v.kind, p.v.detail, p.v.nums, p.cs.kind, l))
			}
		}
	}
}

func c04Evaluate(c *Ctx, cases []c04Case, answers []string, confirm *[]c04Pending, confirmSeen map[string]int) {
	for i, a := range answers {
		cs := cases[i]
		parts := strings.Split(a, " | ")
		anyOK := false
		if parts[0] != "-" {
			for _, o := range strings.Split(parts[0], ",") {
				if strings.HasPrefix(o, "T:") {
					for _, t := range strings.Split(o[2:], ":") {
						if c04Registered[t] {
							c.Count("decoded box type " + t)
						} else {
							c.Count("decoded box type (not registered)")
						}
					}
					continue
				}
				c.Count("outcome " + o)
				if strings.HasSuffix(o, "=ok") {
					anyOK = true
				}
			}
		}
		key := ""
		if cs.mutated && anyOK {
			key = cs.line
		}
		c.Eval(key)
		c.Count("origin " + cs.origin)
		c.Count("size " + c04SizeBucket(cs.size))
		kindList := strings.Split(cs.kind, "+")
		if strings.HasPrefix(cs.kind, "scenario: ") {
			kindList = []string{"scenario"}
		}
		for _, k := range kindList {
			if j := strings.Index(k, ":"); j > 0 {
				c.Count("mutation " + k[:j])
				t := k[j+1:]
				if (strings.HasPrefix(k, "remove") || strings.HasPrefix(k, "dup")) && c04StructTypes[t] {
					c.Count("mutation " + k)
				}
			} else {
				c.Count("mutation " + k)
			}
		}
		if anyOK {
			c.Count("accepted by at least one entry point")
		} else {
			c.Count("rejected by every entry point")
		}
		if len(c.St.Samples) < 10 && len(cs.line) < 300 && cs.mutated && i%997 == 0 {
			c.Sample(cs.kind + ": " + cs.line + " -> " + parts[0])
		}
		for _, vs := range parts[1:] {
			v, ok := c04ParseViol(vs)
			if !ok {
				c.Fail("C04-harness-bad-answer", "unparsable worker answer", cs.line, clip(a), "")
				continue
			}
			c.Count("violation " + v.kind)
			switch v.kind {
			case "panic", "oom", "stackoverflow", "crash":
				c04Report(c, cs, v)
			case "hang":
				if v.nums == "still running after 4x the time budget" {
					// answered by the watchdog inside a batch: confirm alone
					k := v.kind + v.class + v.site
					if confirmSeen[k] < 2 {
						confirmSeen[k]++
						*confirm = append(*confirm, c04Pending{cs, v})
					} else {
						c.Count("violation not re-run (same site already queued twice)")
					}
				} else {
					c04Report(c, cs, v)
				}
			default: // mem, slow, flaky-*: confirm alone in trace mode
				k := v.kind + v.class + cs.kind
				if confirmSeen[k] < 2 && len(*confirm) < 150 {
					confirmSeen[k]++
					*confirm = append(*confirm, c04Pending{cs, v})
				} else {
					c.Count("violation not re-run (cap)")
				}
			}
		}
	}
}

func c04Report(c *Ctx, cs c04Case, v c04Viol) {
	what := map[string]string{
		"panic":         "panic",
		"oom":           "fatal out-of-memory (worker process killed by the runtime under a 4 GiB address-space limit)",
		"stackoverflow": "fatal stack exhaustion",
		"crash":         "worker process died",
		"hang":          "does not finish within 4x the time budget",
		"slow":          "exceeds the time budget",
		"mem":           "allocation exceeds K*len+C",
	}[v.kind]
	if what == "" {
		what = v.kind
	}
	c.Fail(v.fingerprint(), fmt.Sprintf("%s in %s [%s; input: %s of %s, %d bytes]", what, v.detail, v.nums, cs.kind, cs.origin, cs.size), cs.line, v.kind+" @ "+v.site, "a structure or an error, within the time and memory budget")
}
