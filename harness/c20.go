package main

import (
	"bytes"
	"crypto/sha256"
	"encoding/json"
	"fmt"
	"io"
	"math/rand"
	"os"
	"os/exec"
	"path/filepath"
	"regexp"
	"runtime"
	"sort"
	"strings"
	"sync"

	"github.com/Eyevinn/mp4ff/avc"
	"github.com/Eyevinn/mp4ff/bits"
	"github.com/Eyevinn/mp4ff/hevc"
	"github.com/Eyevinn/mp4ff/mp4"
)

func init() {
	props["C20"] = &propDef{
		rule: "cases = scenarios: a pool of shared read-only inputs (clear and cenc/cbcs-encrypted fragmented files built from AVC/HEVC/AAC samples, protected streams in every IV layout {cenc per-sample IV 16/8, cbcs constant IV 16/8, cbcs per-sample IV 16/8} both as one file and as separate init-segment / media-segment buffers (with the clear segments next to them), generated progressive files, repo test files, single-box blobs (moov, moof, mdat), header-only boxes (size 8: free, skip, unknown types, empty mdat, empty containers = well-formed; boxes with mandatory fields = malformed) alone and as small files behind an ftyp, AC-3/E-AC-3 init segments, one shared table of 8-byte IVs) x tasks {decode via io.Reader / slice reader / lazy mdat, Info at several levels, re-encode, sample extraction (GetFullSamples, GetSampleInterval, sample-table ranges + MdatBox.ReadData on all three decoder paths, MdatBox.Data) + NAL inspection + in-place Annex B conversion and overwriting of the sample bytes handed out, in-place Annex B conversion on the goroutine's own decoded samples, encrypt (InitProtect+EncryptFragment, 16-byte IVs and 8-byte IVs cut from the shared table), AC-3/E-AC-3 channel-layout helpers, decrypt (DecryptInit+DecryptSegment), decrypt pipeline (shared init decoded as file or box by box with either decoder, DecryptInit, shared media segments decoded with either decoder, DecryptFragment / DecryptSegment), encrypt pipeline (ExtractInitProtectData of the shared protected init + EncryptFragment of the shared clear segments), DecodeBox/DecodeBoxSR}; every input slice handed to the library is a window with cap > len into an arena with guard bytes behind each slice; every task is first run alone (tasks on malformed inputs last), then all tasks of the scenario run in parallel goroutines (several rounds, GOMAXPROCS 1..16) under the race detector; then every task runs alone once more in a shuffled order; checks: each goroutine's digest and the later solo digest equal the first solo digest, the shared input bytes and the guard bytes behind them are unchanged, and the race detector reports nothing inside mp4ff; non-trivial = distinct (task, input) pair",
		gen:  genC20,
		exec: execC20,
	}
}

type c20Input struct {
	name   string
	data   []byte
	key    []byte // for decrypt
	scheme string // "" clear | cenc | cbcs
	kind   string // frag | prog | box | boxes | pipe
	// malformed: the input is deliberately not a well-formed box / file (the library must reject it).  Tasks on
	// malformed inputs run LAST in the solo pass: the solo reference of every well-formed input is taken in a process
	// that has not yet been shown a malformed one, so state left behind by an error path shows up as a difference
	malformed bool
	// kind "pipe": a protected stream as separate shared buffers (init segment, media segments)
	init        []byte
	segs        [][]byte
	clearSegs   [][]byte // the same media segments before encryption (input of the encrypt pipeline)
	clearDigest string   // digest of the clear sample payloads the stream was made from (non-vacuity count only)
	// every byte slice above is a window into ONE arena: [part | guard | part | guard ...]; each window has
	// cap > len (its capacity runs over the guard bytes and the parts behind it), so an append / a write past the
	// end through a retained sub-slice lands in memory the check compares afterwards
	arena, ref []byte
	layout     []c20Part
}

type c20Part struct {
	what     string
	off, len int
}

const c20GuardLen = 48

// seal moves all byte slices of the input into one arena with guard bytes behind each and keeps a reference copy
func (in *c20Input) seal() *c20Input {
	parts := []*[]byte{&in.data, &in.init}
	names := []string{"data", "init"}
	for i := range in.segs {
		parts = append(parts, &in.segs[i])
		names = append(names, fmt.Sprintf("segment %d", i))
	}
	for i := range in.clearSegs {
		parts = append(parts, &in.clearSegs[i])
		names = append(names, fmt.Sprintf("clear segment %d", i))
	}
	parts = append(parts, &in.key)
	names = append(names, "key")
	total := 0
	for _, p := range parts {
		if *p != nil {
			total += len(*p) + c20GuardLen
		}
	}
	in.arena = make([]byte, total)
	in.layout = nil
	off := 0
	for i, p := range parts {
		if *p == nil {
			continue
		}
		n := copy(in.arena[off:], *p)
		in.layout = append(in.layout, c20Part{names[i], off, n})
		for k := 0; k < c20GuardLen; k++ {
			in.arena[off+n+k] = byte(0xc3 ^ (k * 29))
		}
		*p = in.arena[off : off+n] // len n, capacity up to the end of the arena
		off += n + c20GuardLen
	}
	in.ref = cp(in.arena)
	return in
}

// mutated: "" when every shared byte (parts and guards) still has its original value, else where the first change is
func (in *c20Input) mutated() string {
	if bytes.Equal(in.arena, in.ref) {
		return ""
	}
	for i := range in.arena {
		if in.arena[i] != in.ref[i] {
			for _, p := range in.layout {
				if i >= p.off && i < p.off+p.len {
					return fmt.Sprintf("%s of %s: byte %d (of %d) changed %02x -> %02x", p.what, in.name, i-p.off, p.len, in.ref[i], in.arena[i])
				}
				if i >= p.off+p.len && i < p.off+p.len+c20GuardLen {
					return fmt.Sprintf("%s of %s: byte %d BEHIND the %d-byte slice handed to the library (within its capacity) changed %02x -> %02x", p.what, in.name, i-p.off-p.len, p.len, in.ref[i], in.arena[i])
				}
			}
		}
	}
	return "changed"
}

// c20IVTable: 8-byte IVs cut from ONE shared table (each sub-slice has spare capacity behind it: the following IVs, and
// 16 guard bytes behind the last one): shared, read-only input
var c20IVTableRef = []byte{0xa1, 2, 3, 4, 5, 6, 7, 8, 0xb1, 12, 13, 14, 15, 16, 17, 18, 0xc1, 22, 23, 24, 25, 26, 27, 28, 0xd1, 32, 33, 34, 35, 36, 37, 38,
	0xe1, 42, 43, 44, 45, 46, 47, 48, 0xf1, 52, 53, 54, 55, 56, 57, 58, 0x91, 62, 63, 64, 65, 66, 67, 68, 0x81, 72, 73, 74, 75, 76, 77, 78,
	0xc3, 0xde, 0xf9, 0x94, 0xb7, 0x52, 0x6d, 0x08, 0x2b, 0xc6, 0xe1, 0xfc, 0x9f, 0xba, 0x55, 0x70}
var c20IVTable = cp(c20IVTableRef)

type c20Task struct {
	op string
	in *c20Input
}

func digest(parts ...[]byte) string {
	h := sha256.New()
	for _, p := range parts {
		h.Write(p)
		h.Write([]byte{0xfe})
	}
	return fmt.Sprintf("%x", h.Sum(nil)[:10])
}

func decodeBy(path string, in []byte) (*mp4.File, error) {
	switch path {
	case "sr":
		return mp4.DecodeFileSR(bits.NewFixedSliceReader(in))
	case "lazy":
		return mp4.DecodeFile(bytes.NewReader(in), mp4.WithDecodeMode(mp4.DecModeLazyMdat))
	}
	return mp4.DecodeFile(bytes.NewReader(in))
}

// runTask executes one task on (shared, read-only) input bytes; everything it creates is its own.
func runTask(t c20Task) (out string) {
	in := t.in.data
	defer func() {
		if r := recover(); r != nil {
			out = fmt.Sprintf("panic: %v", r)
		}
	}()
	f := strings.Split(t.op, "/")
	switch f[0] {
	case "info-enc": // decode, Info, Encode
		file, err := decodeBy(f[1], in)
		if err != nil {
			return "err: " + err.Error()
		}
		var ib, eb bytes.Buffer
		if err := file.Info(&ib, f[2], "", "  "); err != nil {
			return "info err: " + err.Error()
		}
		if f[1] != "lazy" {
			if err := file.Encode(&eb); err != nil {
				return "enc err: " + err.Error()
			}
		}
		return digest(ib.Bytes(), eb.Bytes())
	case "samples": // extract samples, inspect NAL units (read only)
		file, err := decodeBy(f[1], in)
		if err != nil {
			return "err: " + err.Error()
		}
		h := sha256.New()
		if file.Init != nil && file.Init.Moov.Mvex != nil && f[1] != "lazy" {
			for _, s := range file.Segments {
				for _, fr := range s.Fragments {
					for _, trex := range file.Init.Moov.Mvex.Trexs {
						fss, err := fr.GetFullSamples(trex)
						if err != nil {
							continue
						}
						for _, fs := range fss {
							h.Write(fs.Data)
							fmt.Fprintf(h, "%d %d %d %d;", fs.DecodeTime, fs.Dur, fs.Flags, fs.CompositionTimeOffset)
							if t.in.scheme == "" && strings.Contains(t.in.name, "avc") {
								fmt.Fprint(h, avc.FindNaluTypes(fs.Data), avc.IsIDRSample(fs.Data))
								sps, pps := avc.GetParameterSets(fs.Data)
								fmt.Fprint(h, len(sps), len(pps))
							}
							if t.in.scheme == "" && strings.Contains(t.in.name, "hevc") {
								fmt.Fprint(h, hevc.FindNaluTypes(fs.Data), hevc.IsRAPSample(fs.Data))
							}
							c20UseSample(h, fs.Data, t.in.scheme == "" && (strings.Contains(t.in.name, "avc") || strings.Contains(t.in.name, "hevc")))
						}
						// (a traf without tfdt, as in Smooth Streaming files, is not given to GetSampleInterval: it dereferences traf.Tfdt)
						if n := uint32(len(fss)); n > 0 && fr.Moof.Traf != nil && fr.Moof.Traf.Tfdt != nil {
							// the same samples as one interval (the accessor the segmenter-style callers use)
							if si, err := fr.GetSampleInterval(trex, 1+n/2, n); err == nil {
								fmt.Fprint(h, si.FirstDecodeTime, si.OffsetInMdat, si.Size, len(si.Samples))
								c20UseSample(h, si.Data, false)
							}
						}
					}
					// the fragment's media data box itself (public field of the task's own decoded structure)
					if fr.Mdat != nil && !fr.Mdat.IsLazy() {
						c20UseSample(h, fr.Mdat.Data, false)
					}
				}
			}
		} else if file.Moov != nil {
			for _, tr := range file.Moov.Traks {
				n := tr.Mdia.Minf.Stbl.Stsz.SampleNumber
				if n == 0 {
					continue
				}
				ss, err := tr.GetSampleData(1, n)
				fmt.Fprint(h, len(ss), err == nil)
				if err == nil && f[1] != "lazy" {
					for _, s := range ss {
						fmt.Fprintf(h, "%+v;", s)
					}
				}
				if file.Mdat == nil {
					continue
				}
				// the sample payloads, the way the progressive-file callers (and the library's own tools) fetch them:
				// byte ranges from the sample tables, bytes from MdatBox.ReadData (lazy mdat: through a ReadSeeker
				// on the shared input); each sample alone, then the whole track as chunk ranges
				var rs io.ReadSeeker
				if file.Mdat.IsLazy() {
					rs = bytes.NewReader(in)
				}
				video := tr.Mdia.Hdlr != nil && tr.Mdia.Hdlr.HandlerType == "vide"
				for nr := uint32(1); nr <= n && nr <= 64; nr++ {
					rgs, err := tr.GetRangesForSampleInterval(nr, nr)
					fmt.Fprint(h, len(rgs), err == nil)
					for _, rg := range rgs {
						data, err := file.Mdat.ReadData(int64(rg.Offset), int64(rg.Size), rs)
						fmt.Fprint(h, rg.Offset, rg.Size, err == nil)
						if err == nil {
							c20UseSample(h, data, video)
						}
					}
				}
				if rgs, err := tr.GetRangesForSampleInterval(1, n); err == nil {
					for _, rg := range rgs {
						if data, err := file.Mdat.ReadData(int64(rg.Offset), int64(rg.Size), rs); err == nil {
							c20UseSample(h, data, false)
						}
					}
				}
			}
			if file.Mdat != nil && !file.Mdat.IsLazy() {
				c20UseSample(h, file.Mdat.Data, false)
			}
		}
		return fmt.Sprintf("%x", h.Sum(nil)[:10])
	case "annexb": // in-place conversion on the task's OWN decoded samples (documented in-place helpers)
		file, err := decodeBy(f[1], in)
		if err != nil {
			return "err: " + err.Error()
		}
		h := sha256.New()
		if file.Init != nil && file.Init.Moov.Mvex != nil {
			for _, s := range file.Segments {
				for _, fr := range s.Fragments {
					fss, err := fr.GetFullSamples(file.Init.Moov.Mvex.Trex)
					if err != nil {
						continue
					}
					for _, fs := range fss {
						bs := avc.ConvertSampleToByteStream(fs.Data)
						h.Write(bs)
						back := avc.ConvertByteStreamToNaluSample(bs)
						h.Write(back)
					}
				}
			}
		}
		return fmt.Sprintf("%x", h.Sum(nil)[:10])
	case "encrypt":
		file, err := decodeBy(f[1], in)
		if err != nil {
			return "err: " + err.Error()
		}
		key := []byte("0123456789abcdef")
		iv := []byte{1, 2, 3, 4, 5, 6, 7, 8, 0, 0, 0, 0, 0, 0, 0, 0}
		if len(f) > 3 && f[3] == "iv8" {
			// an 8-byte IV that is a window into the shared table
			k := (len(t.in.name) + len(f[1]) + len(f[2])) % 8
			iv = c20IVTable[8*k : 8*k+8]
		}
		kid, _ := mp4.NewUUIDFromString("11112222333344445555666677778888")
		ipd, err := mp4.InitProtect(file.Init, key, iv, f[2], kid, nil)
		if err != nil {
			return "initprotect err: " + err.Error()
		}
		for _, s := range file.Segments {
			for _, fr := range s.Fragments {
				if err := mp4.EncryptFragment(fr, key, iv, ipd); err != nil {
					return "encrypt err: " + err.Error()
				}
			}
		}
		var eb bytes.Buffer
		if err := file.Encode(&eb); err != nil {
			return "enc err: " + err.Error()
		}
		return digest(eb.Bytes())
	case "decrypt":
		file, err := decodeBy(f[1], in)
		if err != nil {
			return "err: " + err.Error()
		}
		di, err := mp4.DecryptInit(file.Init)
		if err != nil {
			return "decryptinit err: " + err.Error()
		}
		for _, s := range file.Segments {
			if err := mp4.DecryptSegment(s, di, t.in.key); err != nil {
				return "decrypt err: " + err.Error()
			}
		}
		var eb bytes.Buffer
		if err := file.Encode(&eb); err != nil {
			return "enc err: " + err.Error()
		}
		return digest(eb.Bytes())
	case "pipe": // pipe/<init path>/<segment path>/<frag|seg>: the decrypt pipeline on separate shared init and media segment buffers
		init, err := c20DecodeInit(f[1], t.in.init)
		if err != nil {
			return "init err: " + err.Error()
		}
		di, err := mp4.DecryptInit(init)
		if err != nil {
			return "decryptinit err: " + err.Error()
		}
		var eb bytes.Buffer
		if err := init.Encode(&eb); err != nil {
			return "init enc err: " + err.Error()
		}
		var payload [][]byte
		for _, sb := range t.in.segs {
			sf, err := decodeBy(f[2], sb)
			if err != nil {
				return "segment err: " + err.Error()
			}
			for _, s := range sf.Segments {
				if f[3] == "seg" {
					if err := mp4.DecryptSegment(s, di, t.in.key); err != nil {
						return "decrypt err: " + err.Error()
					}
				} else {
					for _, fr := range s.Fragments {
						if err := mp4.DecryptFragment(fr, di, t.in.key); err != nil {
							return "decrypt err: " + err.Error()
						}
					}
				}
				for _, fr := range s.Fragments {
					fss, err := fr.GetFullSamples(init.Moov.Mvex.Trex)
					if err != nil {
						return "samples err: " + err.Error()
					}
					for _, fs := range fss {
						payload = append(payload, fs.Data)
					}
				}
				if err := s.Encode(&eb); err != nil {
					return "enc err: " + err.Error()
				}
			}
		}
		return fmt.Sprintf("%s clear=%v", digest(eb.Bytes()), digest(payload...) == t.in.clearDigest)
	case "pipeenc": // pipeenc/<init path>/<segment path>: protection data taken from the shared protected init, clear shared segments encrypted
		init, err := c20DecodeInit(f[1], t.in.init)
		if err != nil {
			return "init err: " + err.Error()
		}
		ipd, err := mp4.ExtractInitProtectData(init)
		if err != nil {
			return "extract err: " + err.Error()
		}
		iv := []byte{0x51, 2, 3, 4, 5, 6, 7, 0xf8, 0, 0, 0, 0, 0, 0, 0, 0}
		if ipd.Scheme == "cbcs" && ipd.Tenc.DefaultConstantIV != nil {
			iv = ipd.Tenc.DefaultConstantIV // the stream's constant IV, as decoded (8 or 16 bytes)
		}
		var eb bytes.Buffer
		for _, sb := range t.in.clearSegs {
			sf, err := decodeBy(f[2], sb)
			if err != nil {
				return "segment err: " + err.Error()
			}
			for _, s := range sf.Segments {
				for _, fr := range s.Fragments {
					if err := mp4.EncryptFragment(fr, t.in.key, iv, ipd); err != nil {
						return "encrypt err: " + err.Error()
					}
				}
				if err := s.Encode(&eb); err != nil {
					return "enc err: " + err.Error()
				}
			}
		}
		return digest(eb.Bytes())
	case "chaninfo": // AC-3 / E-AC-3 configuration boxes: channel layout helpers and Info
		file, err := decodeBy(f[1], in)
		if err != nil {
			return "err: " + err.Error()
		}
		h := sha256.New()
		for _, tr := range file.Init.Moov.Traks {
			stsd := tr.Mdia.Minf.Stbl.Stsd
			for rep := 0; rep < 20; rep++ {
				if stsd.AC3 != nil && stsd.AC3.Dac3 != nil {
					n, m := stsd.AC3.Dac3.ChannelInfo()
					fmt.Fprint(h, n, m, stsd.AC3.Dac3.BitrateBps(), stsd.AC3.Dac3.SamplingFrequency())
					_ = stsd.AC3.Dac3.Info(h, "all:1", "", " ")
				}
				if stsd.EC3 != nil && stsd.EC3.Dec3 != nil {
					n, m := stsd.EC3.Dec3.ChannelInfo()
					fmt.Fprint(h, n, m)
					_ = stsd.EC3.Dec3.Info(h, "all:1", "", " ")
				}
			}
		}
		return fmt.Sprintf("%x", h.Sum(nil)[:10])
	case "box":
		var b mp4.Box
		var err error
		if f[1] == "sr" {
			b, err = mp4.DecodeBoxSR(0, bits.NewFixedSliceReader(in))
		} else {
			b, err = mp4.DecodeBox(0, bytes.NewReader(in))
		}
		if err != nil {
			return "err: " + err.Error()
		}
		var ib, eb bytes.Buffer
		_ = b.Info(&ib, "all:1", "", " ")
		_ = b.Encode(&eb)
		if md, ok := b.(*mp4.MdatBox); ok {
			// a media data box decoded on its own: its payload is the caller's to work on in place
			c20UseSample(&ib, md.Data, false)
			_ = b.Encode(&eb)
		}
		return digest(ib.Bytes(), eb.Bytes())
	}
	return "bad-op"
}

// c20UseSample does with sample bytes handed out by the library (Fragment.GetFullSamples, GetSampleInterval,
// MdatBox.ReadData, MdatBox.Data of the task's OWN decoded structure) what callers do with them: hash them, convert
// them in place between length-prefixed NAL units and Annex B byte stream (avc.ConvertSampleToByteStream /
// ConvertByteStreamToNaluSample work in place, as do the crypto helpers), and finally overwrite every byte.  The media
// data of a decoded file belongs to the decoded structure, not to the input the file was decoded from: the library's
// in-place sample helpers are documented as such and DecodeMdatSR copies the payload for exactly this reason; no
// comment of DecodeFileSR / DecodeBoxSR / MdatBox says that sample data refers to the caller's buffer.  (Parameter
// sets, IVs, unknown-box payloads ... decoded through the slice reader are NOT written to: the unchanged library keeps
// them as sub-slices of the input without saying either way, so writing through them is not covered by the property.)
func c20UseSample(h io.Writer, data []byte, nalus bool) {
	h.Write(data)
	if nalus && len(data) > 4 {
		if _, err := avc.GetNalusFromSample(data); err == nil {
			bs := avc.ConvertSampleToByteStream(data)
			h.Write(bs)
			back := avc.ConvertByteStreamToNaluSample(bs)
			h.Write(back)
		}
	}
	for i := range data {
		data[i] ^= 0xa5
	}
	h.Write([]byte{0xfd})
}

// c20DecodeInit: an init segment from shared bytes, as a file (rd | sr) or box by box (boxrd | boxsr)
func c20DecodeInit(path string, in []byte) (*mp4.InitSegment, error) {
	if path == "rd" || path == "sr" {
		f, err := decodeBy(path, in)
		if err != nil {
			return nil, err
		}
		if f.Init == nil || f.Init.Moov == nil || f.Init.Moov.Mvex == nil {
			return nil, fmt.Errorf("no init segment")
		}
		return f.Init, nil
	}
	init := mp4.NewMP4Init()
	sr := bits.NewFixedSliceReader(in)
	rd := bytes.NewReader(in)
	for pos := uint64(0); pos < uint64(len(in)); {
		var b mp4.Box
		var err error
		if path == "boxsr" {
			b, err = mp4.DecodeBoxSR(pos, sr)
		} else {
			b, err = mp4.DecodeBox(pos, rd)
		}
		if err != nil {
			return nil, err
		}
		if b.Size() == 0 {
			return nil, fmt.Errorf("empty box")
		}
		init.AddChild(b)
		pos += b.Size()
	}
	if init.Moov == nil || init.Moov.Mvex == nil {
		return nil, fmt.Errorf("no init segment")
	}
	return init, nil
}

// c20Variants: scheme x where the IV lives x IV size.  InitProtect/EncryptFragment themselves only write 16-byte
// IVs (api); the other layouts ISO/IEC 23001-7 allows (8-byte per-sample IVs, 8-byte constant IV, cbcs with
// per-sample IVs) are written with the exported building blocks, see c20EncryptFragment.
var c20Variants = []struct {
	name, scheme string
	ivSize       int
	perSample    bool
	api          bool
}{
	{"cenc-iv16", "cenc", 16, true, true},
	{"cenc-iv8", "cenc", 8, true, false},
	{"cbcs-civ16", "cbcs", 16, false, true},
	{"cbcs-civ8", "cbcs", 8, false, false},
	{"cbcs-piv16", "cbcs", 16, true, false},
	{"cbcs-piv8", "cbcs", 8, true, false},
}

// c20EncryptFragment: EncryptFragment's steps with the exported pieces (ProtFunc, CryptSampleCenc / EncryptSampleCbcs,
// saiz/saio/senc constructors) for per-sample IVs of ivSize bytes
func c20EncryptFragment(fr *mp4.Fragment, key, iv []byte, ivSize int, ipd *mp4.InitProtectData) error {
	if len(fr.Moof.Trafs) != 1 || len(fr.Moof.Traf.Truns) != 1 {
		return fmt.Errorf("one traf with one trun expected")
	}
	traf := fr.Moof.Traf
	fss, err := fr.GetFullSamples(ipd.Trex)
	if err != nil {
		return err
	}
	pats := make([][]mp4.SubSamplePattern, len(fss))
	for i := range fss {
		if pats[i], err = ipd.ProtFunc(fss[i].Data, ipd.Scheme); err != nil {
			return err
		}
		if (len(pats[i]) > 0) != (len(pats[0]) > 0) || ivSize+2+6*len(pats[i]) > 255 {
			return fmt.Errorf("sub-sample layout not representable")
		}
	}
	saiz, saio, senc := mp4.NewSaizBox(len(fss)), mp4.NewSaioBox(), mp4.NewSencBox(len(fss), len(fss))
	_ = traf.AddChild(saiz)
	_ = traf.AddChild(saio)
	_ = traf.AddChild(senc)
	cur := make([]byte, 16)
	copy(cur, iv[:ivSize])
	for i, fs := range fss {
		if ipd.Scheme == "cenc" {
			err = mp4.CryptSampleCenc(fs.Data, key, cur, pats[i])
		} else {
			err = mp4.EncryptSampleCbcs(fs.Data, key, cur, pats[i], ipd.Tenc)
		}
		if err != nil {
			return err
		}
		siv := cp(cur[:ivSize])
		if err := senc.AddSample(mp4.SencSample{IV: siv, SubSamples: pats[i]}); err != nil {
			return err
		}
		saiz.AddSampleInfo(siv, pats[i])
		// next sample's IV: 8-byte IVs count samples (the block counter is the other half of the counter block),
		// 16-byte IVs advance by the number of cipher blocks
		step := 1
		if ivSize == 16 {
			step = (len(fs.Data) + 15) / 16
		}
		for k := ivSize - 1; k >= 0 && step > 0; k-- {
			step += int(cur[k])
			cur[k] = byte(step)
			step >>= 8
		}
	}
	offset := uint64(8)
	for _, c := range fr.Moof.Children {
		if c.Type() != "traf" {
			offset += c.Size()
			continue
		}
		offset += 8
		for _, tc := range c.(*mp4.TrafBox).Children {
			if tc.Type() == "senc" {
				saio.Offset[0] = int64(offset + 16)
			}
			offset += tc.Size()
		}
		break
	}
	return nil
}

// c20BuildPipe: one protected stream (init segment + media segments as separate buffers) from a clear fragmented file
func c20BuildPipe(r *rand.Rand, codec string, clear []byte, vi int) *c20Input {
	v := c20Variants[vi]
	key, iv := make([]byte, 16), make([]byte, 16)
	r.Read(key)
	r.Read(iv[:v.ivSize])
	f, err := mp4.DecodeFile(bytes.NewReader(clear))
	if err != nil || f.Init == nil {
		return nil
	}
	var payload [][]byte
	for _, s := range f.Segments {
		for _, fr := range s.Fragments {
			fss, _ := fr.GetFullSamples(f.Init.Moov.Mvex.Trex)
			for _, fs := range fss {
				payload = append(payload, cp(fs.Data))
			}
		}
	}
	kid := make([]byte, 16)
	r.Read(kid)
	ipd, err := mp4.InitProtect(f.Init, key, iv, v.scheme, mp4.UUID(kid), nil)
	if err != nil {
		return nil
	}
	switch {
	case v.scheme == "cenc":
		ipd.Tenc.DefaultPerSampleIVSize = byte(v.ivSize)
	case v.perSample:
		ipd.Tenc.DefaultPerSampleIVSize, ipd.Tenc.DefaultConstantIV = byte(v.ivSize), nil
	default:
		ipd.Tenc.DefaultConstantIV = cp(iv[:v.ivSize]) // decryption zero-pads a shorter constant IV, as EncryptFragment does
	}
	in := &c20Input{name: "pipe-" + v.name + "-" + codec, key: key, scheme: v.scheme, kind: "pipe", clearDigest: digest(payload...)}
	var ib bytes.Buffer
	if f.Init.Encode(&ib) != nil {
		return nil
	}
	in.init = ib.Bytes()
	// media segments: the fragments are cut into buffers of 1..2 fragments
	var sb, cb bytes.Buffer
	n := 0
	for _, s := range f.Segments {
		for _, fr := range s.Fragments {
			if fr.Encode(&cb) != nil {
				return nil
			}
			if v.api || !v.perSample {
				err = mp4.EncryptFragment(fr, key, iv[:v.ivSize], ipd)
			} else {
				err = c20EncryptFragment(fr, key, iv, v.ivSize, ipd)
			}
			if err != nil || fr.Encode(&sb) != nil {
				return nil
			}
			if v.perSample {
				iv[v.ivSize-1] += 0x10 // a fresh IV range for the next fragment (a constant IV stays)
			}
			if n++; n == 2 || r.Intn(2) == 0 {
				in.segs, in.clearSegs = append(in.segs, cp(sb.Bytes())), append(in.clearSegs, cp(cb.Bytes()))
				sb.Reset()
				cb.Reset()
				n = 0
			}
		}
	}
	if sb.Len() > 0 {
		in.segs, in.clearSegs = append(in.segs, cp(sb.Bytes())), append(in.clearSegs, cp(cb.Bytes()))
	}
	return in
}

// ---- inputs ----

func c20BuildInputs(r *rand.Rand, thorough bool) []*c20Input {
	var ins []*c20Input
	for _, src := range loadClearSources() {
		init, err := mp4.DecodeFile(bytes.NewReader(src.init))
		if err != nil {
			continue
		}
		trackID := init.Init.Moov.Trak.Tkhd.TrackID
		var seg bytes.Buffer
		si := r.Intn(len(src.samples))
		dec := uint64(0)
		for fi := 0; fi < 3; fi++ {
			fr, _ := mp4.CreateFragment(uint32(fi+1), trackID)
			for k := 0; k < 3; k++ {
				s := src.samples[(si+k)%len(src.samples)]
				s.Data = cp(s.Data)
				s.DecodeTime = dec
				dec += uint64(s.Dur)
				fr.AddFullSample(s)
			}
			si += 3
			_ = fr.Encode(&seg)
		}
		clear := append(cp(src.init), seg.Bytes()...)
		ins = append(ins, &c20Input{name: "clear-" + src.codec, data: clear, kind: "frag"})
		for _, scheme := range []string{"cenc", "cbcs"} {
			key := []byte("fedcba9876543210")
			iv := []byte{9, 8, 7, 6, 5, 4, 3, 2, 0, 0, 0, 0, 0, 0, 0, 0}
			kid, _ := mp4.NewUUIDFromString("00112233445566778899aabbccddeeff")
			f, err := mp4.DecodeFile(bytes.NewReader(clear))
			if err != nil {
				continue
			}
			ipd, err := mp4.InitProtect(f.Init, key, iv, scheme, kid, nil)
			if err != nil {
				continue
			}
			ok := true
			for _, s := range f.Segments {
				for _, fr := range s.Fragments {
					if err := mp4.EncryptFragment(fr, key, iv, ipd); err != nil {
						ok = false
					}
				}
			}
			var eb bytes.Buffer
			if !ok || f.Encode(&eb) != nil {
				continue
			}
			ins = append(ins, &c20Input{name: scheme + "-" + src.codec, data: eb.Bytes(), key: key, scheme: scheme, kind: "frag"})
		}
		for vi := range c20Variants {
			if in := c20BuildPipe(r, src.codec, clear, vi); in != nil {
				ins = append(ins, in)
				if !c20Variants[vi].api { // the IV layouts InitProtect does not write, also as one file (init + media segments)
					ins = append(ins, &c20Input{name: c20Variants[vi].name + "-" + src.codec, data: bytes.Join(append([][]byte{in.init}, in.segs...), nil),
						key: cp(in.key), scheme: in.scheme, kind: "frag"})
				}
			}
		}
	}
	// AC-3 / E-AC-3 init segments: same acmod, different LFE / channel location bits
	for _, v := range [][3]byte{{2, 0, 0}, {2, 1, 0}, {7, 0, 0}, {7, 1, 0}, {7, 1, 1}, {7, 0, 1}} {
		for _, kind := range []string{"ac3", "ec3"} {
			init := mp4.CreateEmptyInit()
			init.AddEmptyTrack(48000, "audio", "und")
			var err error
			if kind == "ac3" {
				err = init.Moov.Trak.SetAC3Descriptor(&mp4.Dac3Box{FSCod: 0, BSID: 8, ACMod: v[0], LFEOn: v[1], BitRateCode: 10})
			} else {
				sub := mp4.EC3Sub{FSCod: 0, BSID: 16, ACMod: v[0], LFEOn: v[1]}
				if v[2] == 1 {
					sub.NumDepSub, sub.ChanLoc = 1, 0x0003
				}
				err = init.Moov.Trak.SetEC3Descriptor(&mp4.Dec3Box{DataRate: 192, EC3Subs: []mp4.EC3Sub{sub}})
			}
			var ib bytes.Buffer
			if err == nil && init.Encode(&ib) == nil {
				ins = append(ins, &c20Input{name: fmt.Sprintf("%s-acmod%d-lfe%d-loc%d", kind, v[0], v[1], v[2]), data: ib.Bytes(), kind: "acinit"})
			}
		}
	}
	np := 2
	if thorough {
		np = 5
	}
	for i := 0; i < np; i++ {
		pf := genProgFile(r, 1+r.Intn(3), 40)
		ins = append(ins, &c20Input{name: fmt.Sprintf("prog%d", i), data: pf.bytes, kind: "prog"})
	}
	// at least two progressive files whose mdat carries a 16-byte (largesize) header, of different sizes: the header
	// variants of the encoders are exercised by several goroutines at once
	for i, tries := 0, 0; i < 2 && tries < 60; tries++ {
		pf := genProgFile(r, 1+r.Intn(2), 30)
		if pf.largeMdat {
			ins = append(ins, &c20Input{name: fmt.Sprintf("proglarge%d", i), data: pf.bytes, kind: "prog"})
			i++
		}
	}
	for _, rel := range []string{"mp4/testdata/prog_8s.mp4", "mp4/testdata/bbb5s_aac.isma", "mp4/testdata/multi_sidx_segment.m4s"} {
		if b, err := os.ReadFile(repoPath(rel)); err == nil && len(b) < 400000 {
			ins = append(ins, &c20Input{name: filepath.Base(rel), data: b, kind: "any"})
		}
	}
	// single boxes: the moov/moof of the first inputs
	for _, in := range ins[:3] {
		for _, w := range walkTop(in.data) {
			if w.typ == "moov" || w.typ == "moof" || w.typ == "mdat" {
				ins = append(ins, &c20Input{name: fmt.Sprintf("box-%s@%d-%s", w.typ, w.off, in.name), data: cp(in.data[w.off : w.off+w.size]), kind: "box"})
			}
		}
	}
	ins = append(ins, c20EmptyBodyInputs(r)...)
	for _, in := range ins {
		in.seal()
	}
	return ins
}

// c20EmptyBodyInputs: boxes at the lower size boundary, header only (size field 8, no body).  Well-formed ones: the
// padding boxes free/skip, boxes the library does not know (QuickTime's wide, a random four-character code), an empty
// mdat, containers without children; malformed ones: boxes whose definition has mandatory fields (full-box
// version/flags and more), cut right behind the header.  Each as a single-box input (DecodeBox / DecodeBoxSR) and
// as small files: ftyp followed by a random selection of well-formed empty boxes, and the same with one malformed box
// appended.  Every decode wraps such a body in a per-call reader of zero bytes.
func c20EmptyBodyInputs(r *rand.Rand) []*c20Input {
	hdr := func(typ string) []byte { return append([]byte{0, 0, 0, 8}, typ[:4]...) }
	unk := make([]byte, 4)
	for i := range unk {
		unk[i] = byte('a' + r.Intn(26))
	}
	unk[0] = 'z' // no registered type starts with z
	valid := []string{"free", "skip", "wide", string(unk), "mdat", "udta", "dinf", "edts", "mvex", "mfra", "moof"}
	bad := []string{"traf", "mfhd", "tfdt", "mvhd", "tkhd", "mdhd", "hdlr", "stsd", "stts", "trex", "tfhd", "trun", "sidx", "ftyp", "styp"}
	var ins []*c20Input
	for _, t := range valid {
		ins = append(ins, &c20Input{name: "box-empty-" + t, data: hdr(t), kind: "box"})
	}
	ftyp := []byte{0, 0, 0, 16, 'f', 't', 'y', 'p', 'i', 's', 'o', 'm', 0, 0, 0, 0}
	top := []string{"free", "skip", "wide", string(unk), "udta", "mdat"}
	for i := 0; i < 3; i++ {
		file := cp(ftyp)
		for k, n := 0, 1+r.Intn(4); k < n; k++ {
			file = append(file, hdr(top[r.Intn(len(top))])...)
		}
		ins = append(ins, &c20Input{name: fmt.Sprintf("boxes-empty%d", i), data: file, kind: "boxes"})
		b := bad[r.Intn(len(bad)-2)]
		ins = append(ins, &c20Input{name: fmt.Sprintf("boxes-empty%d-then-%s", i, b), data: append(cp(file), hdr(b)...), kind: "boxes", malformed: true})
	}
	for _, t := range bad {
		ins = append(ins, &c20Input{name: "box-headeronly-" + t, data: hdr(t), kind: "box", malformed: true})
	}
	return ins
}

type topBox struct {
	typ       string
	off, size int
}

func walkTop(b []byte) []topBox {
	var out []topBox
	pos := 0
	for pos+8 <= len(b) {
		sz := int(uint32(b[pos])<<24 | uint32(b[pos+1])<<16 | uint32(b[pos+2])<<8 | uint32(b[pos+3]))
		if sz == 1 && pos+16 <= len(b) { // 64-bit size follows the type
			sz = 0
			for _, x := range b[pos+8 : pos+16] {
				sz = sz<<8 | int(x)
			}
			if sz < 16 {
				break
			}
		}
		if sz < 8 || pos+sz > len(b) {
			break
		}
		out = append(out, topBox{string(b[pos+4 : pos+8]), pos, sz})
		pos += sz
	}
	return out
}

func c20Tasks(ins []*c20Input) []c20Task {
	var ts []c20Task
	for _, in := range ins {
		switch in.kind {
		case "box":
			ts = append(ts, c20Task{"box/rd", in}, c20Task{"box/sr", in})
		case "boxes":
			for _, p := range []string{"rd", "sr", "lazy"} {
				ts = append(ts, c20Task{"info-enc/" + p + "/all:1", in})
			}
		case "prog", "any":
			for _, p := range []string{"rd", "sr", "lazy"} {
				ts = append(ts, c20Task{"info-enc/" + p + "/all:1", in}, c20Task{"samples/" + p, in})
			}
			ts = append(ts, c20Task{"info-enc/rd/trun:1,stss:1", in}, c20Task{"info-enc/sr/", in})
		case "acinit":
			for _, p := range []string{"rd", "sr"} {
				ts = append(ts, c20Task{"chaninfo/" + p, in}, c20Task{"info-enc/" + p + "/all:1", in})
			}
		case "pipe":
			for i, ip := range []string{"rd", "sr", "boxrd", "boxsr"} {
				for j, sp := range []string{"rd", "sr"} {
					ts = append(ts, c20Task{"pipe/" + ip + "/" + sp + "/" + []string{"frag", "seg"}[(i+j)%2], in})
				}
			}
			ts = append(ts, c20Task{"pipe/sr/sr/seg", in}, c20Task{"pipe/boxsr/sr/frag", in})
			ts = append(ts, c20Task{"pipeenc/sr/sr", in}, c20Task{"pipeenc/boxsr/rd", in}, c20Task{"pipeenc/rd/sr", in})
		case "frag":
			for _, p := range []string{"rd", "sr"} {
				ts = append(ts, c20Task{"info-enc/" + p + "/all:1", in}, c20Task{"info-enc/" + p + "/moof:1,senc:1", in}, c20Task{"samples/" + p, in})
				if in.scheme == "" {
					ts = append(ts, c20Task{"encrypt/" + p + "/cenc", in}, c20Task{"encrypt/" + p + "/cbcs", in}, c20Task{"encrypt/" + p + "/cenc/iv8", in}, c20Task{"encrypt/" + p + "/cbcs/iv8", in})
					if strings.Contains(in.name, "avc") {
						ts = append(ts, c20Task{"annexb/" + p, in})
					}
				} else {
					ts = append(ts, c20Task{"decrypt/" + p, in})
				}
			}
		}
	}
	// tasks on malformed inputs last (see c20Input.malformed); the order is otherwise kept
	sort.SliceStable(ts, func(i, j int) bool { return !ts[i].in.malformed && ts[j].in.malformed })
	return ts
}

func (t c20Task) id() string { return t.op + " " + t.in.name }

// execC20: "task <op> <input-name> <seed>" runs one task alone (inputs regenerated from the seed)
func execC20(req string) string {
	f := strings.Fields(req)
	if len(f) != 4 || f[0] != "task" {
		return "bad-op"
	}
	var seed int64
	fmt.Sscan(f[3], &seed)
	ins := c20BuildInputs(rand.New(rand.NewSource(seed)), false)
	for _, in := range ins {
		if in.name == f[2] {
			out := runTask(c20Task{f[1], in})
			if m := in.mutated(); m != "" {
				return out + " INPUT-MUTATED " + m
			}
			return out
		}
	}
	return "no-such-input"
}

var raceFrame = regexp.MustCompile(`github\.com/Eyevinn/mp4ff/([A-Za-z0-9_/]+)\.([^\s(]+)\(`)

// parseRaceLogs groups race reports by the first mp4ff frames of the two accesses
func parseRaceLogs(dir string) map[string]string {
	out := map[string]string{}
	files, _ := filepath.Glob(filepath.Join(dir, "race.*"))
	for _, fn := range files {
		b, err := os.ReadFile(fn)
		if err != nil {
			continue
		}
		for _, rep := range strings.Split(string(b), "==================") {
			if !strings.Contains(rep, "DATA RACE") {
				continue
			}
			var sites []string
			for _, blk := range strings.Split(rep, "\n\n") {
				if !(strings.Contains(blk, "Write at") || strings.Contains(blk, "Read at") || strings.Contains(blk, "Previous write") || strings.Contains(blk, "Previous read")) {
					continue
				}
				if m := raceFrame.FindStringSubmatch(blk); m != nil {
					sites = append(sites, m[1]+"."+m[2])
				} else {
					sites = append(sites, "?")
				}
			}
			sort.Strings(sites)
			key := strings.Join(sites, " <-> ")
			if _, ok := out[key]; !ok {
				if len(rep) > 3000 {
					rep = rep[:3000]
				}
				out[key] = rep
			}
		}
	}
	return out
}

func genC20(c *Ctx) {
	if os.Getenv("VERIF_C20_CHILD") == "" {
		// parent: re-exec under GORACE settings so that reports go to files and do not abort the run
		child := filepath.Join(c.OutDir, "child")
		os.MkdirAll(child, 0o755)
		cmd := exec.Command(os.Args[0], "-prop", "C20", "-tier", c.Tier, "-seed", fmt.Sprint(c.Seed), "-out", child)
		cmd.Env = append(os.Environ(), "VERIF_C20_CHILD=1", "GORACE=log_path="+filepath.Join(c.OutDir, "race")+" halt_on_error=0 exitcode=0 history_size=3")
		outb, err := cmd.CombinedOutput()
		var st Stats
		b, rerr := os.ReadFile(filepath.Join(child, "stats.json"))
		if err != nil || rerr != nil || json.Unmarshal(b, &st) != nil {
			c.Fail("C20-child-crash", "the concurrent run died: "+clip(string(outb)), "scenario seed "+fmt.Sprint(c.Seed), fmt.Sprint(err), "")
			return
		}
		c.St.Evaluations = st.Evaluations
		c.St.Distribution = st.Distribution
		c.St.Samples = st.Samples
		c.St.Notes = st.Notes
		for _, f := range st.Failures {
			c.Fail(f.Fingerprint, f.What, f.Request, f.Impl, f.Expected)
		}
		// distinct keys cannot be merged from the child: re-count from its note
		for i := 0; i < st.Nontrivial; i++ {
			c.distinct[[16]byte{byte(i), byte(i >> 8), byte(i >> 16)}] = struct{}{}
		}
		for key, rep := range parseRaceLogs(c.OutDir) {
			c.Fail("C20-race "+key, "the race detector reports a data race between goroutines that share only read-only input", "scenario seed "+fmt.Sprint(c.Seed), rep, "no report")
		}
		if !raceEnabled {
			c.Note("WARNING: harness built without -race; only digest and input-integrity checks are active")
		}
		return
	}
	// child: the actual scenarios
	ins := c20BuildInputs(c.R, c.Thorough())
	tasks := c20Tasks(ins)
	for _, in := range ins {
		c.Count("input=" + in.kind + "/" + in.scheme)
	}
	checkIVTable := func(when string) {
		if !bytes.Equal(c20IVTable, c20IVTableRef) {
			c.Fail("C20-input-mutated ivtable", "the shared table of initialization vectors (read-only input of the encryption calls) was written to", "ivtable "+when+" seed "+fmt.Sprint(c.Seed), hx(c20IVTable), hx(c20IVTableRef))
			copy(c20IVTable, c20IVTableRef)
		}
	}
	// solo results
	solo := make([]string, len(tasks))
	for i, t := range tasks {
		solo[i] = runTask(t)
		c.Eval(t.id())
		c.Count("op=" + strings.Split(t.op, "/")[0] + "/" + strings.Split(t.op, "/")[1])
		if strings.HasPrefix(solo[i], "panic") {
			c.Fail("C20-solo-panic "+t.op, "task panics when run alone", fmt.Sprintf("task %s %s %d", t.op, t.in.name, c.Seed), solo[i], "")
		}
		if strings.Contains(solo[i], "err") {
			c.Count("solo-error")
			if t.in.kind == "pipe" {
				c.Count("pipe-solo-error " + t.in.name + ": " + clip(solo[i]))
			}
		}
		if strings.HasPrefix(t.op, "pipe/") && !strings.Contains(solo[i], "err") {
			c.Count(fmt.Sprintf("pipe-decrypts-to-clear=%v", strings.HasSuffix(solo[i], "clear=true")))
		}
		if i < 4 {
			c.Sample(fmt.Sprintf("task %s %s %d -> %s", t.op, t.in.name, c.Seed, solo[i]))
		}
		if m := t.in.mutated(); m != "" {
			c.Fail("C20-input-mutated "+strings.Join(strings.Split(t.op, "/")[:2], "/"), "a task running alone wrote into the shared input bytes or into the capacity behind them (its decoded structure aliases the caller's buffer and a later operation wrote or appended through it)", fmt.Sprintf("task %s %s %d", t.op, t.in.name, c.Seed), m, "shared input and the guard bytes behind each slice unchanged")
			// restore for the following tasks
			*t.in = *rebuildInput(c.Seed, c.Thorough(), t.in.name)
		}
	}
	checkIVTable("after the solo runs")
	// concurrent rounds
	rounds := c.N(4, 80)
	for round := 0; round < rounds; round++ {
		procs := []int{16, 4, 2, 8, 1, 16}[round%6]
		old := runtime.GOMAXPROCS(procs)
		order := c.R.Perm(len(tasks))
		reps := 1 + round%2
		res := make([][]string, len(tasks))
		var wg sync.WaitGroup
		start := make(chan struct{})
		for _, ti := range order {
			ti := ti
			res[ti] = make([]string, reps)
			for k := 0; k < reps; k++ {
				k := k
				wg.Add(1)
				go func() {
					defer wg.Done()
					<-start
					res[ti][k] = runTask(tasks[ti])
				}()
			}
		}
		close(start)
		wg.Wait()
		runtime.GOMAXPROCS(old)
		c.Count(fmt.Sprintf("round-gomaxprocs=%d", procs))
		for ti, t := range tasks {
			for k := 0; k < reps; k++ {
				c.Eval("")
				if res[ti][k] != solo[ti] {
					c.Fail("C20-differs "+strings.Join(strings.Split(t.op, "/")[:2], "/"), "a goroutine's result differs from the result of the same task run alone", fmt.Sprintf("task %s %s %d (round %d, with %d other goroutines)", t.op, t.in.name, c.Seed, round, len(tasks)*reps-1), res[ti][k], solo[ti])
				}
			}
		}
		checkIVTable(fmt.Sprintf("after concurrent round %d", round))
		for _, in := range ins {
			if m := in.mutated(); m != "" {
				c.Fail("C20-input-mutated-concurrent "+in.kind+"/"+in.scheme, "the shared input bytes (or the capacity behind them) changed during the concurrent round", fmt.Sprintf("round %d input %s seed %d", round, in.name, c.Seed), m, "shared input and the guard bytes behind each slice unchanged")
				*in = *rebuildInput(c.Seed, c.Thorough(), in.name)
			}
		}
	}
	// every task alone once more, after all the others (well-formed and malformed, alone and concurrently) have run in
	// this process, in a shuffled order: "no hidden mutable state across calls" - the result must be the first one
	for _, ti := range c.R.Perm(len(tasks)) {
		t := tasks[ti]
		again := runTask(t)
		c.Eval("")
		if again != solo[ti] {
			c.Fail("C20-differs-later "+strings.Join(strings.Split(t.op, "/")[:2], "/"), "a task run alone gives another result after other tasks have run in the same process than it gave when it ran first: state is kept across calls", fmt.Sprintf("task %s %s %d (alone again after the concurrent rounds)", t.op, t.in.name, c.Seed), again, solo[ti])
		}
		if m := t.in.mutated(); m != "" {
			c.Fail("C20-input-mutated "+strings.Join(strings.Split(t.op, "/")[:2], "/"), "a task running alone wrote into the shared input bytes or into the capacity behind them", fmt.Sprintf("task %s %s %d (alone again after the concurrent rounds)", t.op, t.in.name, c.Seed), m, "shared input and the guard bytes behind each slice unchanged")
			*t.in = *rebuildInput(c.Seed, c.Thorough(), t.in.name)
		}
	}
	checkIVTable("after the second solo pass")
}

func rebuildInput(seed int64, thorough bool, name string) *c20Input {
	for _, in := range c20BuildInputs(rand.New(rand.NewSource(seed)), thorough) {
		if in.name == name {
			return in
		}
	}
	return &c20Input{name: name}
}
