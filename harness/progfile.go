package main

import (
	"bytes"
	"encoding/hex"
	"fmt"
	"math/rand"

	"github.com/Eyevinn/mp4ff/mp4"
)

// Generated progressive files, shared by C08, C10, C11: realistic moov (built from the library's own
// CreateEmptyTrak tree with the sample tables filled in) + one mdat with the chunks of all tracks interleaved.

const sps1nalu = "674d401fe4605017fcb80b4f00000300010000030032e4800753003a9e08200e58e189c0"
const pps1nalu = "685bdf20"

type progTrack struct {
	media     string // video | audio
	timescale uint32
	durs      []uint32
	ctos      []int32
	hasCtts   bool
	sync      []bool
	hasStss   bool
	hasSdtp   bool
	sdtp      []byte
	sizes     []uint32
	chunkLens []int    // samples per chunk
	data      [][]byte // per sample
	// filled by layout
	chunkOffs []uint64
}

type progFile struct {
	tracks    []*progTrack
	mdatFirst bool
	bad       string // set by build when the library's Size() and Encode disagree
	largeMdat bool
	co64      bool
	bytes     []byte
	mdatStart uint64
	mdatHdr   int
	mdatSize  uint64
	// optional extras (variants() below): a free box with a 16-byte (largesize) header between ftyp and the rest,
	// and an empty mdat box at the very end of the file
	largeFree    bool
	trailingMdat bool
	// header lengths (0 = none, 8, 16 = largesize header) of further EMPTY mdat boxes: one right after ftyp/free, i.e.
	// before both moov and the real mdat, and one at the very end of the file (several media-data boxes in one file)
	emptyMdatBefore, emptyMdatAfter int
}

func emptyMdatBox(hdr int) []byte {
	switch hdr {
	case 8:
		return []byte{0, 0, 0, 8, 'm', 'd', 'a', 't'}
	case 16:
		return []byte{0, 0, 0, 1, 'm', 'd', 'a', 't', 0, 0, 0, 0, 0, 0, 0, 16}
	}
	return nil
}

func runLengths32(v []uint32) (counts, vals []uint32) {
	for i, x := range v {
		if i > 0 && vals[len(vals)-1] == x {
			counts[len(counts)-1]++
		} else {
			counts = append(counts, 1)
			vals = append(vals, x)
		}
	}
	return
}

func genProgTrack(r *rand.Rand, media string, n int) *progTrack {
	t := &progTrack{media: media}
	if media == "video" {
		t.timescale = []uint32{90000, 25000, 30000, 12800}[r.Intn(4)]
	} else {
		t.timescale = []uint32{48000, 44100, 22050}[r.Intn(3)]
	}
	base := uint32(1024)
	if media == "video" {
		base = t.timescale / uint32([]int{24, 25, 30, 50}[r.Intn(4)])
	}
	gop := 1 + r.Intn(12)
	t.hasStss = media == "video" && r.Intn(5) > 0
	t.hasCtts = media == "video" && r.Intn(3) > 0
	t.hasSdtp = media == "video" && r.Intn(3) == 0
	for i := 0; i < n; i++ {
		d := base
		if r.Intn(9) == 0 {
			d = base + uint32(r.Intn(int(base)))
		}
		t.durs = append(t.durs, d)
		isSync := !t.hasStss || i%gop == 0 || r.Intn(25) == 0
		t.sync = append(t.sync, isSync)
		cto := int32(0)
		if t.hasCtts {
			cto = int32(r.Intn(4)) * int32(base)
		}
		t.ctos = append(t.ctos, cto)
		sz := 1 + r.Intn(40)
		if r.Intn(8) == 0 {
			sz = 1 + r.Intn(700)
		}
		t.sizes = append(t.sizes, uint32(sz))
		d2 := make([]byte, sz)
		r.Read(d2)
		t.data = append(t.data, d2)
		if t.hasSdtp {
			t.sdtp = append(t.sdtp, byte(r.Intn(256)))
		}
	}
	left := n
	cur := 1 + r.Intn(6)
	for left > 0 {
		if r.Intn(3) == 0 {
			cur = 1 + r.Intn(6)
		}
		k := cur
		if k > left {
			k = left
		}
		t.chunkLens = append(t.chunkLens, k)
		left -= k
	}
	return t
}

func genProgFile(r *rand.Rand, nTracks int, maxSamples int) *progFile {
	pf := &progFile{mdatFirst: r.Intn(3) == 0, largeMdat: r.Intn(4) == 0, co64: r.Intn(4) == 0}
	for i := 0; i < nTracks; i++ {
		media := "video"
		if i > 0 && r.Intn(3) > 0 {
			media = "audio"
		}
		pf.tracks = append(pf.tracks, genProgTrack(r, media, 1+r.Intn(maxSamples)))
	}
	pf.build(r)
	for try := 0; pf.bad != "" && try < 20; try++ {
		progBadBuilds = append(progBadBuilds, pf.bad)
		pf.bad = ""
		for i := range pf.tracks {
			media := "video"
			if i > 0 && r.Intn(3) > 0 {
				media = "audio"
			}
			pf.tracks[i] = genProgTrack(r, media, 1+r.Intn(maxSamples))
		}
		pf.build(r)
	}
	return pf
}

func (pf *progFile) buildMoov() *mp4.MoovBox {
	init := mp4.CreateEmptyInit()
	for _, t := range pf.tracks {
		init.AddEmptyTrack(t.timescale, t.media, "und")
	}
	moov := init.Moov
	// drop mvex: progressive file
	var kids []mp4.Box
	for _, c := range moov.Children {
		if c.Type() != "mvex" {
			kids = append(kids, c)
		}
	}
	moov.Children = kids
	moov.Mvex = nil
	moov.Mvhd.Timescale = 1000
	var maxDur uint64
	for i, t := range pf.tracks {
		trak := moov.Traks[i]
		if t.media == "video" {
			sps, _ := hex.DecodeString(sps1nalu)
			pps, _ := hex.DecodeString(pps1nalu)
			_ = trak.SetAVCDescriptor("avc1", [][]byte{sps}, [][]byte{pps}, true)
		} else {
			_ = trak.SetAACDescriptor(2, int(t.timescale))
		}
		stbl := trak.Mdia.Minf.Stbl
		var total uint64
		for _, d := range t.durs {
			total += uint64(d)
		}
		trak.Mdia.Mdhd.Duration = total
		if total > 0xffffffff {
			trak.Mdia.Mdhd.Version = 1 // 64-bit duration field
		}
		trak.Tkhd.Duration = total * 1000 / uint64(t.timescale)
		if trak.Tkhd.Duration > maxDur {
			maxDur = trak.Tkhd.Duration
		}
		c, v := runLengths32(t.durs)
		stbl.Stts.SampleCount, stbl.Stts.SampleTimeDelta = c, v
		// rebuild children in ISO order: stsd stts [ctts] [stss] stsc stsz stco [sdtp]
		newStbl := mp4.NewStblBox()
		newStbl.AddChild(stbl.Stsd)
		newStbl.AddChild(stbl.Stts)
		if t.hasCtts {
			ct := &mp4.CttsBox{}
			var cc []uint32
			var co []int32
			for i, o := range t.ctos {
				if i > 0 && co[len(co)-1] == o {
					cc[len(cc)-1]++
				} else {
					cc = append(cc, 1)
					co = append(co, o)
				}
			}
			_ = ct.AddSampleCountsAndOffset(cc, co)
			newStbl.AddChild(ct)
		}
		if t.hasStss {
			ss := &mp4.StssBox{}
			for i, s := range t.sync {
				if s {
					ss.SampleNumber = append(ss.SampleNumber, uint32(i+1))
				}
			}
			newStbl.AddChild(ss)
		}
		sc := &mp4.StscBox{}
		for ci, k := range t.chunkLens {
			if ci == 0 || t.chunkLens[ci-1] != k {
				_ = sc.AddEntry(uint32(ci+1), uint32(k), 1)
			}
		}
		newStbl.AddChild(sc)
		newStbl.AddChild(&mp4.StszBox{SampleNumber: uint32(len(t.sizes)), SampleSize: t.sizes})
		if pf.co64 {
			newStbl.AddChild(&mp4.Co64Box{ChunkOffset: make([]uint64, len(t.chunkLens))})
		} else {
			newStbl.AddChild(&mp4.StcoBox{ChunkOffset: make([]uint32, len(t.chunkLens))})
		}
		if t.hasSdtp {
			es := make([]mp4.SdtpEntry, len(t.sdtp))
			for i, b := range t.sdtp {
				es[i] = mp4.SdtpEntry(b)
			}
			newStbl.AddChild(mp4.CreateSdtpBox(es))
		}
		// replace stbl in minf
		minf := trak.Mdia.Minf
		for i, c := range minf.Children {
			if c.Type() == "stbl" {
				minf.Children[i] = newStbl
			}
		}
		minf.Stbl = newStbl
	}
	moov.Mvhd.Duration = maxDur
	return moov
}

func (pf *progFile) build(r *rand.Rand) {
	moov := pf.buildMoov()
	ftyp := mp4.NewFtyp("isom", 0x200, []string{"isom", "iso2", "avc1", "mp41"})
	hdr := 8
	if pf.largeMdat {
		hdr = 16
	}
	pf.mdatHdr = hdr
	var extra []byte // free box with a largesize header: size field 1, then the 64-bit size
	if pf.largeFree {
		extra = []byte{0, 0, 0, 1, 'f', 'r', 'e', 'e', 0, 0, 0, 0, 0, 0, 0, 21, 1, 2, 3, 4, 5}
	}
	extra = append(extra, emptyMdatBox(pf.emptyMdatBefore)...)
	var payloadStart uint64
	if pf.mdatFirst {
		payloadStart = ftyp.Size() + uint64(len(extra)) + uint64(hdr)
	} else {
		payloadStart = ftyp.Size() + uint64(len(extra)) + moov.Size() + uint64(hdr)
	}
	// interleave chunks
	var payload []byte
	next := make([]int, len(pf.tracks))  // next chunk idx
	nextS := make([]int, len(pf.tracks)) // next sample idx
	for {
		var cand []int
		for i, t := range pf.tracks {
			if next[i] < len(t.chunkLens) {
				cand = append(cand, i)
			}
		}
		if len(cand) == 0 {
			break
		}
		i := cand[r.Intn(len(cand))]
		t := pf.tracks[i]
		if r.Intn(5) == 0 {
			payload = append(payload, make([]byte, r.Intn(5))...) // unused gap bytes between chunks
		}
		t.chunkOffs = append(t.chunkOffs, payloadStart+uint64(len(payload)))
		for k := 0; k < t.chunkLens[next[i]]; k++ {
			payload = append(payload, t.data[nextS[i]]...)
			nextS[i]++
		}
		next[i]++
	}
	for i, t := range pf.tracks {
		stbl := moov.Traks[i].Mdia.Minf.Stbl
		if stbl.Co64 != nil {
			stbl.Co64.ChunkOffset = t.chunkOffs
		} else {
			for k, o := range t.chunkOffs {
				stbl.Stco.ChunkOffset[k] = uint32(o)
			}
		}
	}
	mdat := &mp4.MdatBox{LargeSize: pf.largeMdat}
	mdat.SetData(payload)
	var buf bytes.Buffer
	must(ftyp.Encode(&buf))
	buf.Write(extra)
	if pf.mdatFirst {
		pf.mdatStart = uint64(buf.Len())
		must(mdat.Encode(&buf))
		must(moov.Encode(&buf))
	} else {
		must(moov.Encode(&buf))
		pf.mdatStart = uint64(buf.Len())
		must(mdat.Encode(&buf))
	}
	pf.mdatSize = uint64(hdr + len(payload))
	if pf.trailingMdat {
		buf.Write([]byte{0, 0, 0, 8, 'm', 'd', 'a', 't'})
	}
	buf.Write(emptyMdatBox(pf.emptyMdatAfter))
	pf.bytes = buf.Bytes()
	if pf.mdatStart+uint64(hdr) != payloadStart {
		// the chunk offsets were computed from moov.Size(): the library wrote another number of bytes than Size() said
		pf.bad = fmt.Sprintf("built progressive file: media starts at %d, Size() of the boxes in front of it predicted %d", pf.mdatStart+uint64(hdr), payloadStart)
	}
}

// progBadBuilds: generated progressive files the library wrote with sizes other than Size() predicted (a C02 matter; the
// other properties draw another file)
var progBadBuilds []string

func must(err error) {
	if err != nil {
		panic(err)
	}
}

// variants returns the file itself plus layout variants of the same tracks: with a largesize-header free box before
// the media, with an empty mdat box at the end, and both (chunk offsets are recomputed).
func (pf *progFile) variants(r *rand.Rand) []*progFile {
	out := []*progFile{pf}
	for _, v := range [][2]bool{{true, false}, {false, true}, {true, true}} {
		q := *pf
		q.tracks = nil
		for _, t := range pf.tracks {
			tc := *t
			tc.chunkOffs = nil
			q.tracks = append(q.tracks, &tc)
		}
		q.largeFree, q.trailingMdat = v[0], v[1]
		q.build(rand.New(rand.NewSource(r.Int63())))
		out = append(out, &q)
	}
	return out
}
