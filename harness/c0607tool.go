package main

// C06 — two fragment-level families added by helper kA.
//
// (1) "bdo": clear fragments whose tfhd carries base-data-offset-present.  ISO/IEC 14496-12 8.8.7 lets a writer give
// the base of the run offsets as an absolute file position (older / Smooth-Streaming style packagers do); fragments
// written by the library always use default-base-is-moof.  A library-written single-fragment media segment ([styp] moof
// mdat) is rewritten at byte level (no library encoder): 8 bytes base_data_offset = position of the moof in the segment
// file are inserted into the tfhd, flag 0x000001 is set, default-base-is-moof is kept or cleared (8.8.7.1: the explicit
// base wins), the sizes of tfhd / traf / moof and the trun data offset grow by 8.  The segment is a file of its own
// (separate init), so the moof sits at the same position in the clear, the encrypted and the decrypted form and an
// unchanged tfhd stays valid.  Pipeline: decode -> EncryptFragment -> encode -> decode -> DecryptInit + DecryptSegment
// -> encode -> decode; oracle: samples byte-for-byte and field-for-field, every moof box unchanged (boxList; trun data
// offsets excepted), and - from the written bytes, without the library's sample reader - base_data_offset + trun
// data_offset is the position of the first sample byte.
//
// (2) "tool": the command line tools.  cmd/mp4ff-encrypt and cmd/mp4ff-decrypt are built from $VERIF_REPO into
// $VERIF_BUILD/tools and run on generated multi-fragment inputs in every flow they offer: a combined file (init +
// fragments), or a protected init segment (made by the tool from the init alone, or by InitProtect) + media segment
// encrypted with -init; scheme cenc / cbcs given with -scheme or left to the default (with -init the scheme of the init
// segment is the one in use; the flag is documented as needed only without -init), 8- or 16-byte IV, kid, optional pssh
// file.  The decrypted output is decoded and compared with the clear input: samples byte-for-byte and field-for-field,
// sample entry type, moof boxes.  A tool refusing a combination is counted, not failed; mp4ff-decrypt refusing what
// mp4ff-encrypt wrote is a failure (the property promises the round trip).

import (
	"bytes"
	"encoding/binary"
	"fmt"
	"os"
	"path/filepath"
	"strings"

	"github.com/Eyevinn/mp4ff/mp4"
)

const cryptoRuleKA = "; plus (C06 only) clear single-fragment media segments whose tfhd is rewritten at byte level to base-data-offset-present (base = moof position, with/without default-base-is-moof, with/without styp in front) through EncryptFragment -> write -> read -> DecryptSegment -> write -> read: samples, moof boxes, and base + trun data offset = position of the sample bytes in the written file; plus (C06 only) the built cmd/mp4ff-encrypt and cmd/mp4ff-decrypt binaries ($VERIF_BUILD/tools) on generated 1..4-fragment AVC/HEVC/AAC inputs: combined file or protected init (by the tool or InitProtect) + media segment with -init, scheme cenc/cbcs explicit or default, IV 8/16 bytes, optional pssh file: decrypted output vs clear input (samples, sample entry type, moof boxes); tool refusals counted"

type kaFrag struct {
	clear   []byte // encoded clear fragment (moof + mdat)
	samples []mp4.FullSample
}

// kaBuildFrags writes nfr clear fragments of 1..4 consecutive samples of src through the library's fragment API.
func kaBuildFrags(c *Ctx, src *clearSource, trackID uint32, nfr int, extras string) []kaFrag {
	var frags []kaFrag
	si := c.R.Intn(len(src.samples))
	decTime := uint64(c.R.Intn(100000))
	for fi := 0; fi < nfr; fi++ {
		fr, err := mp4.CreateFragment(uint32(fi+1), trackID)
		if err != nil {
			return nil
		}
		ns := 1 + c.R.Intn(4)
		var ss []mp4.FullSample
		for k := 0; k < ns; k++ {
			s := src.samples[(si+k)%len(src.samples)]
			s.Data = cp(s.Data)
			s.Size = uint32(len(s.Data))
			s.DecodeTime = decTime
			decTime += uint64(s.Dur)
			fr.AddFullSample(s)
			ss = append(ss, s)
		}
		si += ns
		for _, ch := range extras {
			switch ch {
			case 'u':
				_ = fr.Moof.Traf.AddChild(mp4.NewTfxdBox(12345, 678))
			case 'f':
				_ = fr.Moof.AddChild(mp4.NewFreeBox([]byte{1, 2, 3}))
			case 'x':
				_ = fr.Moof.Traf.AddChild(mp4.CreateUnknownBox("abcd", 8+5, []byte{5, 4, 3, 2, 1}))
			}
		}
		var buf bytes.Buffer
		if err := fr.Encode(&buf); err != nil {
			return nil
		}
		frags = append(frags, kaFrag{buf.Bytes(), ss})
	}
	return frags
}

var kaStyp = box("styp", []byte("msdh\x00\x00\x00\x00msdhmsix"))

// kaBdoRewrite turns the tfhd of the (single) traf of seg = [styp] moof mdat into one with base-data-offset-present,
// base_data_offset = position of the moof in seg.  Byte level; ok=false if seg does not have the expected shape.
func kaBdoRewrite(seg []byte, keepDbm bool) (out []byte, ok bool) {
	var bx []rawBox
	walkBoxes(seg, 0, "", &bx)
	var moof, traf, tfhd *rawBox
	var truns []*rawBox
	for i := range bx {
		b := &bx[i]
		switch b.path {
		case "/moof":
			if moof != nil {
				return nil, false
			}
			moof = b
		case "/moof/traf":
			if traf != nil {
				return nil, false
			}
			traf = b
		case "/moof/traf/tfhd":
			tfhd = b
		case "/moof/traf/trun":
			truns = append(truns, b)
		}
	}
	if moof == nil || traf == nil || tfhd == nil || len(truns) != 1 || moof.hl != 8 || traf.hl != 8 || tfhd.hl != 8 {
		return nil, false
	}
	s := cp(seg)
	flags := binary.BigEndian.Uint32(s[tfhd.start+8:]) & 0xffffff
	if flags&1 != 0 {
		return nil, false
	}
	flags |= 1
	if !keepDbm {
		flags &^= 0x020000
	}
	s[tfhd.start+9], s[tfhd.start+10], s[tfhd.start+11] = byte(flags>>16), byte(flags>>8), byte(flags)
	for _, b := range []*rawBox{moof, traf, tfhd} {
		binary.BigEndian.PutUint32(s[b.start:], uint32(b.size+8))
	}
	tr := truns[0]
	if binary.BigEndian.Uint32(s[tr.start+8:])&1 == 0 {
		return nil, false
	}
	off := int32(binary.BigEndian.Uint32(s[tr.start+16:]))
	binary.BigEndian.PutUint32(s[tr.start+16:], uint32(off+8))
	at := tfhd.start + 16 // behind version/flags and track_ID
	out = append(out, s[:at]...)
	out = append(out, be(8, uint64(moof.start))...)
	out = append(out, s[at:]...)
	return out, true
}

// kaRawDataPos: position base + trun.data_offset of the single run of seg, by the standard's rules, from the bytes.
func kaRawDataPos(seg []byte) (pos int64, desc string, ok bool) {
	var bx []rawBox
	walkBoxes(seg, 0, "", &bx)
	var moofStart int64 = -1
	base := int64(-1)
	for _, b := range bx {
		switch b.path {
		case "/moof":
			moofStart = int64(b.start)
		case "/moof/traf/tfhd":
			flags := binary.BigEndian.Uint32(seg[b.start+8:]) & 0xffffff
			if flags&1 != 0 {
				base = int64(binary.BigEndian.Uint64(seg[b.start+16:]))
				desc = fmt.Sprintf("tfhd flags %06x base_data_offset %d", flags, uint64(base))
			} else {
				base = moofStart
				desc = fmt.Sprintf("tfhd flags %06x (base = moof start %d)", flags, moofStart)
			}
		case "/moof/traf/trun":
			if base < 0 || binary.BigEndian.Uint32(seg[b.start+8:])&1 == 0 {
				return 0, desc, false
			}
			off := int64(int32(binary.BigEndian.Uint32(seg[b.start+16:])))
			return base + off, desc + fmt.Sprintf(" trun data_offset %d", off), true
		}
	}
	return 0, desc, false
}

func kaConcat(ss []mp4.FullSample) []byte {
	var b []byte
	for _, s := range ss {
		b = append(b, s.Data...)
	}
	return b
}

func kaIV(c *Ctx) []byte {
	iv := make([]byte, []int{8, 16}[c.R.Intn(2)])
	c.R.Read(iv)
	if c.R.Intn(3) == 0 {
		for k := range iv {
			iv[k] = 0xff
		}
		if c.R.Intn(2) == 0 {
			iv[len(iv)-1] = 0xf0
		}
	}
	return iv
}

func kaPickSource(c *Ctx, srcs []*clearSource) *clearSource {
	src := srcs[c.R.Intn(len(srcs))]
	if c.R.Intn(3) == 0 {
		if es := esClearSource(c, 8); es != nil {
			src = es
		}
	}
	return src
}

// kaCompareSamples compares the samples of the fragments of f (read with trex) with want; returns "" or kind, got, exp.
func kaCompareSamples(frs []*mp4.Fragment, trex *mp4.TrexBox, want []mp4.FullSample) (kind, got, exp string) {
	k := 0
	for _, fr := range frs {
		fss, err := fr.GetFullSamples(trex)
		if err != nil {
			return "samples-unreadable", err.Error(), ""
		}
		for _, fs := range fss {
			if k >= len(want) {
				return "sample-count", "more samples than the clear input", fmt.Sprint(len(want))
			}
			w := want[k]
			if !bytes.Equal(fs.Data, w.Data) {
				return "sample-bytes", fmt.Sprintf("sample %d: %s", k, clip(hx(fs.Data))), clip(hx(w.Data))
			}
			if fs.Sample != w.Sample || fs.DecodeTime != w.DecodeTime {
				return "sample-meta", fmt.Sprintf("sample %d: %+v@%d", k, fs.Sample, fs.DecodeTime), fmt.Sprintf("%+v@%d", w.Sample, w.DecodeTime)
			}
			k++
		}
	}
	if k != len(want) {
		return "sample-count", fmt.Sprint(k), fmt.Sprint(len(want))
	}
	return "", "", ""
}

var kaWhat = map[string]string{
	"samples-unreadable": "samples of the decrypted output cannot be read (data offsets?)",
	"sample-count":       "sample count differs after decryption",
	"sample-bytes":       "decrypted sample bytes differ from the clear input",
	"sample-meta":        "decrypted sample metadata differs from the clear input",
}

func kaAllFrags(f *mp4.File) []*mp4.Fragment {
	var out []*mp4.Fragment
	for _, s := range f.Segments {
		out = append(out, s.Fragments...)
	}
	return out
}

// ---------------------------------------------------------------- (1) base-data-offset-present clear fragments

func genBdoFrags(c *Ctx, key []byte) {
	srcs := loadClearSources()
	if len(srcs) == 0 {
		return
	}
	for it := 0; it < c.N(60, 800); it++ {
		src := kaPickSource(c, srcs)
		scheme := []string{"cenc", "cbcs"}[c.R.Intn(2)]
		iv := kaIV(c)
		keepDbm := c.R.Intn(2) == 0
		styp := c.R.Intn(2) == 0
		extras := ""
		for _, ch := range "ufx" {
			if c.R.Intn(4) == 0 {
				extras += string(ch)
			}
		}
		bdoCase(c, src, scheme, key, iv, keepDbm, styp, extras)
	}
}

func bdoCase(c *Ctx, src *clearSource, scheme string, key, iv []byte, keepDbm, styp bool, extras string) {
	desc := fmt.Sprintf("bdo %s %s iv=%s default-base-is-moof=%v styp=%v extras=%s", src.codec, scheme, hx(iv), keepDbm, styp, extras)
	ok := false
	fail := func(kind, what, got, exp string) {
		c.Fail("C06-bdo-"+kind, what, desc, clip(got), clip(exp))
	}
	p := safe(func() {
		initF, err := mp4.DecodeFile(bytes.NewReader(src.init))
		if err != nil {
			return
		}
		clearTrex := initF.Init.Moov.Mvex.Trex
		frags := kaBuildFrags(c, src, initF.Init.Moov.Trak.Tkhd.TrackID, 1, extras)
		if len(frags) != 1 {
			return
		}
		want := frags[0].samples
		seg := cp(frags[0].clear)
		if styp {
			seg = append(cp(kaStyp), seg...)
		}
		seg, rok := kaBdoRewrite(seg, keepDbm)
		if !rok {
			c.Count("bdo.not-rewritten")
			return
		}
		desc += " clear=" + hx(seg)
		// the rewritten clear input must be right by the standard's rules (harness self-check) and readable
		if pos, _, pok := kaRawDataPos(seg); !pok || pos < 0 || int(pos)+len(kaConcat(want)) > len(seg) || !bytes.Equal(seg[pos:int(pos)+len(kaConcat(want))], kaConcat(want)) {
			c.Note("harness: rewritten base-data-offset fragment is not consistent: " + clip(desc))
			return
		}
		cf, err := mp4.DecodeFile(bytes.NewReader(seg))
		if err != nil || len(cf.Segments) != 1 || len(cf.Segments[0].Fragments) != 1 {
			c.Count("bdo.clear-not-decoded")
			return
		}
		if kind, _, _ := kaCompareSamples(kaAllFrags(cf), clearTrex, want); kind != "" {
			c.Count("bdo.clear-not-read:" + kind) // reading such inputs is C11's matter
			return
		}
		wantBoxes := boxList(cf.Segments[0].Fragments[0].Moof)
		kid, _ := mp4.NewUUIDFromString("11112222333344445555666677778888")
		ipd, err := mp4.InitProtect(initF.Init, key, iv, scheme, kid, nil)
		if err != nil {
			fail("initprotect", "InitProtect fails", err.Error(), "")
			return
		}
		var encInit bytes.Buffer
		if err := initF.Init.Encode(&encInit); err != nil {
			fail("init-encode", "protected init does not encode", err.Error(), "")
			return
		}
		if err := mp4.EncryptFragment(cf.Segments[0].Fragments[0], key, iv, ipd); err != nil {
			fail("encrypt", "EncryptFragment fails on a clear fragment with base-data-offset-present", err.Error(), "")
			return
		}
		var eb bytes.Buffer
		if err := cf.Segments[0].Encode(&eb); err != nil {
			fail("encrypt-encode", "encrypted segment does not encode", err.Error(), "")
			return
		}
		ef, err := mp4.DecodeFile(bytes.NewReader(eb.Bytes()))
		if err != nil || len(ef.Segments) != 1 {
			fail("enc-decode", "encrypted segment does not decode", fmt.Sprint(err), "")
			return
		}
		eif, err := mp4.DecodeFile(bytes.NewReader(encInit.Bytes()))
		if err != nil {
			fail("enc-decode", "protected init does not decode", err.Error(), "")
			return
		}
		di, err := mp4.DecryptInit(eif.Init)
		if err != nil {
			fail("decrypt-init", "DecryptInit fails", err.Error(), "")
			return
		}
		if err := mp4.DecryptSegment(ef.Segments[0], di, key); err != nil {
			fail("decrypt", "DecryptSegment fails on what the library encrypted", err.Error(), "")
			return
		}
		var db bytes.Buffer
		if err := ef.Segments[0].Encode(&db); err != nil {
			fail("decrypt-encode", "decrypted segment does not encode", err.Error(), "")
			return
		}
		dec := db.Bytes()
		rf, err := mp4.DecodeFile(bytes.NewReader(dec))
		if err != nil || len(rf.Segments) != 1 || len(rf.Segments[0].Fragments) != 1 {
			fail("decrypted-decode", "decrypted segment does not decode", fmt.Sprint(err), "")
			return
		}
		ok = true
		// boxes unchanged (tfhd with its base_data_offset among them)
		if got := boxList(rf.Segments[0].Fragments[0].Moof); got != wantBoxes {
			fail("boxes", "boxes that are not protection signalling are not all present and unchanged after decryption (clear tfhd has base-data-offset-present)", got, wantBoxes)
		}
		// data offsets point at the right bytes, from the written bytes
		all := kaConcat(want)
		pos, pd, pok := kaRawDataPos(dec)
		if !pok || pos < 0 || int(pos)+len(all) > len(dec) || !bytes.Equal(dec[pos:int(pos)+len(all)], all) {
			fail("offsets", "in the written decrypted segment base_data_offset + trun data_offset is not the position of the sample bytes", fmt.Sprintf("%s -> %d (file of %d bytes)", pd, pos, len(dec)), "")
		}
		// samples through the library's reader
		if kind, got, exp := kaCompareSamples(kaAllFrags(rf), clearTrex, want); kind != "" {
			fail(kind, kaWhat[kind], got, exp)
		}
	})
	if p != "" {
		fail("panic", "panic in encrypt/decrypt pipeline: "+p, p, "")
	}
	k := ""
	if ok {
		k = desc
		c.Count("bdo." + src.codec + "." + scheme)
	}
	c.Eval(k)
}

// ---------------------------------------------------------------- (2) mp4ff-encrypt / mp4ff-decrypt binaries

func genCryptoTools(c *Ctx) {
	for _, t := range []string{"mp4ff-encrypt", "mp4ff-decrypt"} {
		if _, err := os.Stat(toolPath(t)); err != nil {
			c.Note("tool binary missing: " + toolPath(t) + " (set VERIF_BUILD; packages ./cmd/mp4ff-encrypt ./cmd/mp4ff-decrypt): tool family skipped")
			return
		}
	}
	srcs := loadClearSources()
	if len(srcs) == 0 {
		return
	}
	old := scratchRoot
	scratchRoot = absScratch(c, "c06work")
	defer func() { os.RemoveAll(scratchRoot); scratchRoot = old }()
	for it := 0; it < c.N(70, 900); it++ {
		toolCase(c, kaPickSource(c, srcs), it)
	}
}

func toolCase(c *Ctx, src *clearSource, it int) {
	flow := []string{"combined", "init-by-tool", "init-by-library"}[it%3]
	scheme := []string{"cenc", "cbcs"}[c.R.Intn(2)]
	key := make([]byte, 16)
	c.R.Read(key)
	kidB := make([]byte, 16)
	c.R.Read(kidB)
	iv := kaIV(c)
	nfr := 1 + c.R.Intn(4)
	if it%3 != 0 && c.R.Intn(2) == 0 {
		nfr = 2 + c.R.Intn(3)
	}
	// -scheme on the step that protects the init: must be given for cbcs, may be left out for cenc (the default)
	schemeOnInit := scheme == "cbcs" || c.R.Intn(2) == 0
	// -scheme on the media step with -init: documented as needed only without -init
	schemeOnMedia := c.R.Intn(2) == 0
	withPssh := c.R.Intn(3) == 0
	withStyp := c.R.Intn(2) == 0
	extras := ""
	for _, ch := range "ufx" {
		if c.R.Intn(5) == 0 {
			extras += string(ch)
		}
	}
	desc := fmt.Sprintf("tool %s %s %s key=%s kid=%s iv=%s nfr=%d scheme-flag(init step)=%v scheme-flag(media step)=%v pssh=%v styp=%v extras=%s",
		flow, src.codec, scheme, hx(key), hx(kidB), hx(iv), nfr, schemeOnInit, schemeOnMedia, withPssh, withStyp, extras)
	fail := func(kind, what, got, exp string) {
		c.Fail("C06-tool-"+kind, what, desc, clip(got), clip(exp))
	}
	success := false
	p := safe(func() {
		initF, err := mp4.DecodeFile(bytes.NewReader(src.init))
		if err != nil {
			return
		}
		origEntry := initF.Init.Moov.Trak.Mdia.Minf.Stbl.Stsd.Children[0].Type()
		frags := kaBuildFrags(c, src, initF.Init.Moov.Trak.Tkhd.TrackID, nfr, extras)
		if len(frags) != nfr {
			return
		}
		var media []byte
		var want []mp4.FullSample
		for _, fd := range frags {
			media = append(media, fd.clear...)
			want = append(want, fd.samples...)
		}
		dir, cleanup := scratchDir("t")
		defer cleanup()
		write := func(name string, b []byte) string {
			p := filepath.Join(dir, name)
			if err := os.WriteFile(p, b, 0o644); err != nil {
				panic(err)
			}
			return p
		}
		psshArgs := []string{}
		if withPssh {
			sys := make([]byte, 16)
			c.R.Read(sys)
			data := make([]byte, c.R.Intn(40))
			c.R.Read(data)
			pl := append(cp(sys), be(4, uint64(len(data)))...)
			pl = append(pl, data...)
			psshArgs = []string{"-pssh", write("pssh.bin", fullBox("pssh", 0, 0, pl))}
		}
		// run: 0 ok; 1 refused (counted); 2 failure recorded
		run := func(step, tool string, args ...string) int {
			r := runTool(tool, dir, args...)
			if r.exit == 0 {
				return 0
			}
			cl := failureClass(r)
			if strings.HasPrefix(cl, "panic") {
				fail("panic", tool+" panics ("+step+"): "+cl, cl, "")
				return 2
			}
			c.Count("tool.refused." + step + ": " + cl)
			return 1
		}
		protArgs := func(withScheme bool) []string {
			a := []string{"-kid", hx(kidB), "-key", hx(key), "-iv", hx(iv)}
			if withScheme {
				a = append(a, "-scheme", scheme)
			}
			return append(a, psshArgs...)
		}
		var decFile []byte // what is decoded for the comparison: init + decrypted media
		var decInit []byte // decrypted init where the tool wrote one
		switch flow {
		case "combined":
			in := write("in.mp4", append(cp(src.init), media...))
			desc += " in=" + hx(append(cp(src.init), media...))
			if run("encrypt", "mp4ff-encrypt", append(protArgs(schemeOnInit), in, "enc.mp4")...) != 0 {
				return
			}
			if rc := run("decrypt", "mp4ff-decrypt", "-key", hx(key), "enc.mp4", "dec.mp4"); rc != 0 {
				if rc == 1 {
					fail("decrypt-refuses", "mp4ff-decrypt refuses what mp4ff-encrypt wrote", "", "")
				}
				return
			}
			b, err := os.ReadFile(filepath.Join(dir, "dec.mp4"))
			if err != nil {
				return
			}
			decFile, decInit = b, b
		default:
			if withStyp {
				media = append(cp(kaStyp), media...)
			}
			desc += " init=" + hx(src.init) + " media=" + hx(media)
			write("init.mp4", src.init)
			write("media.m4s", media)
			if flow == "init-by-tool" {
				if run("encrypt-init", "mp4ff-encrypt", append(protArgs(schemeOnInit), "init.mp4", "init_enc.mp4")...) != 0 {
					return
				}
				// the tool's decrypter on the protected init alone
				if run("decrypt-init", "mp4ff-decrypt", "-key", hx(key), "init_enc.mp4", "init_dec.mp4") == 0 {
					decInit, _ = os.ReadFile(filepath.Join(dir, "init_dec.mp4"))
				}
			} else {
				kid, _ := mp4.NewUUIDFromString(hx(kidB))
				if _, err := mp4.InitProtect(initF.Init, key, iv, scheme, kid, nil); err != nil {
					c.Count("tool.initprotect-refused")
					return
				}
				var eb bytes.Buffer
				if err := initF.Init.Encode(&eb); err != nil {
					return
				}
				write("init_enc.mp4", eb.Bytes())
			}
			a := []string{"-init", "init_enc.mp4", "-key", hx(key), "-iv", hx(iv)}
			if schemeOnMedia {
				a = append(a, "-scheme", scheme)
			}
			if run("encrypt-media", "mp4ff-encrypt", append(a, "media.m4s", "media_enc.m4s")...) != 0 {
				return
			}
			if rc := run("decrypt-media", "mp4ff-decrypt", "-init", "init_enc.mp4", "-key", hx(key), "media_enc.m4s", "media_dec.m4s"); rc != 0 {
				if rc == 1 {
					fail("decrypt-refuses", "mp4ff-decrypt refuses what mp4ff-encrypt wrote", "", "")
				}
				return
			}
			b, err := os.ReadFile(filepath.Join(dir, "media_dec.m4s"))
			if err != nil {
				return
			}
			decFile = append(cp(src.init), b...)
		}
		success = true
		if decInit != nil {
			if f, err := mp4.DecodeFile(bytes.NewReader(decInit)); err != nil || f.Init == nil {
				fail("decrypted-decode", "init written by mp4ff-decrypt does not decode", fmt.Sprint(err), "")
			} else if got := f.Init.Moov.Trak.Mdia.Minf.Stbl.Stsd.Children[0].Type(); got != origEntry {
				fail("sample-entry", "sample entry type not restored by mp4ff-decrypt", got, origEntry)
			}
		}
		rf, err := mp4.DecodeFile(bytes.NewReader(decFile))
		if err != nil || rf.Init == nil {
			fail("decrypted-decode", "output of mp4ff-decrypt does not decode", fmt.Sprint(err), "")
			return
		}
		frs := kaAllFrags(rf)
		if kind, got, exp := kaCompareSamples(frs, rf.Init.Moov.Mvex.Trex, want); kind != "" {
			fail(kind, kaWhat[kind]+" (mp4ff-encrypt -> mp4ff-decrypt)", got, exp)
		}
		if len(frs) != len(frags) {
			fail("fragment-count", "number of fragments changed by mp4ff-encrypt -> mp4ff-decrypt", fmt.Sprint(len(frs)), fmt.Sprint(len(frags)))
			return
		}
		for i, fr := range frs {
			cf, err := mp4.DecodeFile(bytes.NewReader(append(cp(src.init), frags[i].clear...)))
			if err != nil {
				continue
			}
			if want, got := boxList(cf.Segments[0].Fragments[0].Moof), boxList(fr.Moof); want != got {
				fail("boxes", "boxes that are not protection signalling are not all present and unchanged after mp4ff-encrypt -> mp4ff-decrypt", got, want)
			}
		}
	})
	if p != "" {
		fail("harness-panic", "panic in the harness around the tool run: "+p, p, "")
	}
	k := ""
	if success {
		k = desc
		c.Count(fmt.Sprintf("tool.%s.%s.%s", flow, src.codec, scheme))
	}
	c.Eval(k)
}
