package main

import (
	"bytes"
	"encoding/binary"
	"fmt"
	"strconv"
	"strings"

	"github.com/Eyevinn/mp4ff/avc"
	"github.com/Eyevinn/mp4ff/hevc"
)

func init() {
	props["C14"] = &propDef{
		rule: "cases = well-formed Annex B streams (1..8 emulation-free NAL units that do not end in 00, sizes 1..40 and around multiples of 8 up to 300, 3/4-byte start codes in any mix, every stream-length residue mod 8, AVC and HEVC headers of all types) run through every framing helper; plus streams with one NAL unit of 2^24-1, 2^24, 2^24+1 and above 2^25 bytes (more sizes in the thorough tier) among small units, with 4-byte start codes only and with mixed start codes, AVC and HEVC, described compactly (unit sizes + one repeated emulation-free filler block) and checked by the direct oracle only (scanner, both conversions, GetNalusFromSample, FindNaluTypes[UpToFirstVideo], ContainsNaluType); plus zero-heavy arbitrary byte strings through the two start-code scanners; non-trivial = distinct stream with >= 2 NAL units, or an arbitrary string containing >= 1 start code",
		gen:  genC14,
		exec: execC14,
	}
}

func cp(b []byte) []byte { return append([]byte{}, b...) }

func showList(l [][]byte) string {
	if len(l) == 0 {
		return "none"
	}
	s := make([]string, len(l))
	for i, b := range l {
		s[i] = hx(b)
	}
	return strings.Join(s, " ")
}

func execC14(req string) string {
	f := strings.Fields(req)
	if len(f) == 0 {
		return ""
	}
	var out string
	if f[0] == "huge" { // huge <codec> <filler block hex> <sc:type:size,...>
		p := safe(func() {
			if len(f) != 4 {
				out = "bad-request"
				return
			}
			out = hugeSummary(hugeCheck(f[1], f[2], f[3]))
		})
		if p != "" {
			return p
		}
		return out
	}
	p := safe(func() { out = execC14Inner(f[0], f[1:]) })
	if p != "" {
		return p
	}
	return out
}

func execC14Inner(op string, a []string) string {
	last := a[len(a)-1]
	data, _ := unhx(last)
	data = cp(data)
	switch op {
	case "sc":
		scs, min := avc.VerifGetStartCodePositions(data)
		s := []string{}
		for _, c := range scs {
			s = append(s, fmt.Sprintf("%d:%d", c.StartCodeLength, c.StartPos))
		}
		if len(s) == 0 {
			return fmt.Sprintf("- min=%d", min)
		}
		return fmt.Sprintf("%s min=%d", strings.Join(s, ","), min)
	case "scref":
		return scRef(data)
	case "hzb":
		v, _ := strconv.ParseUint(a[0], 10, 64)
		if avc.VerifHasZeroByte(uint(v)) {
			return "1"
		}
		return "0"
	case "tosample":
		return hx(avc.ConvertByteStreamToNaluSample(data))
	case "tobs":
		return hx(avc.ConvertSampleToByteStream(data))
	case "nalus":
		l, err := avc.GetNalusFromSample(data)
		if err != nil {
			return "err"
		}
		return showList(l)
	case "extract":
		return showList(avc.ExtractNalusFromByteStream(data))
	case "types":
		var ts []string
		if a[0] == "avc" {
			var l []avc.NaluType
			if a[1] == "1" {
				l = avc.FindNaluTypesUpToFirstVideoNALU(data)
			} else {
				l = avc.FindNaluTypes(data)
			}
			for _, t := range l {
				ts = append(ts, strconv.Itoa(int(t)))
			}
		} else {
			var l []hevc.NaluType
			if a[1] == "1" {
				l = hevc.FindNaluTypesUpToFirstVideoNalu(data)
			} else {
				l = hevc.FindNaluTypes(data)
			}
			for _, t := range l {
				ts = append(ts, strconv.Itoa(int(t)))
			}
		}
		if len(ts) == 0 {
			return "-"
		}
		return strings.Join(ts, ",")
	case "contains":
		t, _ := strconv.Atoi(a[1])
		var r bool
		if a[0] == "avc" {
			r = avc.ContainsNaluType(data, avc.NaluType(t))
		} else {
			r = hevc.ContainsNaluType(data, hevc.NaluType(t))
		}
		return b01(r)
	case "ps", "psbs":
		var out []string
		add := func(t int, l [][]byte) {
			for _, b := range l {
				out = append(out, fmt.Sprintf("%d:%s", t, hx(b)))
			}
		}
		// the model lists parameter sets in stream order; the API returns them per type.
		// canonical form: stream order is recovered by the harness only for comparison purposes, so
		// both sides print per-type lists in type order instead.
		if a[0] == "avc" {
			var s, p [][]byte
			if op == "ps" {
				s, p = avc.GetParameterSets(data)
			} else {
				s, p = avc.GetParameterSetsFromByteStream(data)
			}
			add(7, s)
			add(8, p)
		} else {
			var v, s, p [][]byte
			if op == "ps" {
				v, s, p = hevc.GetParameterSets(data)
			} else {
				v, s, p = hevc.GetParameterSetsFromByteStream(data)
			}
			add(32, v)
			add(33, s)
			add(34, p)
		}
		if len(out) == 0 {
			return "none"
		}
		return strings.Join(out, " ")
	case "oftype":
		t, _ := strconv.Atoi(a[1])
		if a[0] == "avc" {
			return showList(avc.ExtractNalusOfTypeFromByteStream(avc.NaluType(t), data, a[2] == "1"))
		}
		return showList(hevc.ExtractNalusOfTypeFromByteStream(hevc.NaluType(t), data, a[2] == "1"))
	case "firstvideo":
		r := avc.GetFirstAVCVideoNALUFromByteStream(data)
		if r == nil {
			return "nil"
		}
		return hx(r)
	case "hasps":
		if a[0] == "avc" {
			return b01(avc.HasParameterSets(data))
		}
		return b01(hevc.HasParameterSets(data))
	case "anytype":
		lo, _ := strconv.Atoi(a[1])
		hi, _ := strconv.Atoi(a[2])
		if a[0] == "avc" && lo == 5 && hi == 5 {
			return b01(avc.IsIDRSample(data))
		}
		if a[0] == "hevc" && lo == 16 && hi == 23 {
			return b01(hevc.IsRAPSample(data))
		}
		if a[0] == "hevc" && lo == 19 && hi == 20 {
			return b01(hevc.IsIDRSample(data))
		}
		return "bad-op"
	}
	return "bad-op"
}

func b01(b bool) string {
	if b {
		return "1"
	}
	return "0"
}

// byte-by-byte reference scan, written from the Annex B definition
func scRef(d []byte) string {
	s := []string{}
	for i := 0; i+3 < len(d); i++ {
		if d[i] == 0 && d[i+1] == 0 && d[i+2] == 1 {
			l := 3
			if i > 0 && d[i-1] == 0 {
				l = 4
			}
			s = append(s, fmt.Sprintf("%d:%d", l, i+3))
		}
	}
	if len(s) == 0 {
		return "-"
	}
	return strings.Join(s, ",")
}

type unit struct {
	sc   int
	nalu []byte
}

func genNalu(c *Ctx, codec string, typ int, size int) []byte {
	raw := make([]byte, 0, size)
	for len(raw) < size {
		switch c.R.Intn(5) {
		case 0, 1:
			raw = append(raw, 0)
		case 2:
			raw = append(raw, byte(c.R.Intn(4)))
		default:
			raw = append(raw, byte(c.R.Intn(256)))
		}
	}
	var hdr []byte
	if codec == "avc" {
		hdr = []byte{byte(0x60 | typ)} // nal_ref_idc=3 keeps the header non-zero
	} else {
		hdr = []byte{byte(typ << 1), 1}
	}
	n := append(hdr, escRef(raw)...)
	if len(n) > size && size >= len(hdr) {
		n = n[:size]
	}
	// emulation-free after truncation? re-check tail, and never end in 00
	if n[len(n)-1] == 0 {
		n[len(n)-1] = 0x80
	}
	// the header byte(s) followed by zeros could form 00 00 0x with a zero header: avoid header 0 for hevc type 0
	if hasForbidden(n) || bytes.Contains(n, []byte{0, 0, 3}) && false {
		// fall back to non-zero filler
		for i := len(hdr); i < len(n); i++ {
			if n[i] == 0 {
				n[i] = 0x11
			}
		}
	}
	return n
}

func buildAnnexB(us []unit) []byte {
	var b []byte
	for _, u := range us {
		if u.sc == 4 {
			b = append(b, 0, 0, 0, 1)
		} else {
			b = append(b, 0, 0, 1)
		}
		b = append(b, u.nalu...)
	}
	return b
}

func buildLenPrefixed(us []unit) []byte {
	var b []byte
	for _, u := range us {
		var l [4]byte
		binary.BigEndian.PutUint32(l[:], uint32(len(u.nalu)))
		b = append(b, l[:]...)
		b = append(b, u.nalu...)
	}
	return b
}

func typOf(codec string, n []byte) int {
	if codec == "avc" {
		return int(n[0] & 0x1f)
	}
	return int(n[0]>>1) & 0x3f
}

func isVideo(codec string, t int) bool {
	if codec == "avc" {
		return t <= 5
	}
	return t <= 31
}

func isPS(codec string, t int) bool {
	if codec == "avc" {
		return t == 7 || t == 8
	}
	return t == 32 || t == 33 || t == 34
}

func genC14(c *Ctx) {
	n := c.N(6000, 120000)
	avcTypes := []int{1, 5, 6, 7, 8, 9, 12, 2, 19, 31}
	hevcTypes := []int{0, 1, 19, 20, 21, 16, 23, 32, 33, 34, 35, 39, 40, 63, 31}
	for it := 0; it < n; it++ {
		codec := "avc"
		if it%2 == 1 {
			codec = "hevc"
		}
		nu := 1 + c.R.Intn(8)
		us := make([]unit, nu)
		for i := range us {
			var typ int
			if codec == "avc" {
				typ = avcTypes[c.R.Intn(len(avcTypes))]
				if c.R.Intn(6) == 0 {
					typ = c.R.Intn(32)
				}
			} else {
				typ = hevcTypes[c.R.Intn(len(hevcTypes))]
				if c.R.Intn(6) == 0 {
					typ = c.R.Intn(64)
				}
			}
			// parameter sets tend to come first
			if i < 3 && c.R.Intn(2) == 0 {
				if codec == "avc" {
					typ = []int{7, 8, 9, 6}[c.R.Intn(4)]
				} else {
					typ = []int{32, 33, 34, 35, 39}[c.R.Intn(5)]
				}
			}
			var size int
			switch c.R.Intn(4) {
			case 0:
				size = 1 + c.R.Intn(6)
			case 1:
				size = 8*(1+c.R.Intn(36)) + c.R.Intn(5) - 2
			default:
				size = 1 + c.R.Intn(40)
			}
			if codec == "hevc" && size < 2 {
				size = 2
			}
			if size < 1 {
				size = 1
			}
			sc := 3 + c.R.Intn(2)
			if it%5 == 0 {
				sc = 4
			}
			us[i] = unit{sc, genNalu(c, codec, typ, size)}
		}
		ab := buildAnnexB(us)
		lp := buildLenPrefixed(us)
		want := make([][]byte, nu)
		types := make([]int, nu)
		for i, u := range us {
			want[i] = u.nalu
			types[i] = typOf(codec, u.nalu)
		}
		key := ""
		if nu >= 2 {
			key = hx(ab)
		}
		c.Eval(key)
		c.Count(fmt.Sprintf("units=%d", nu))
		c.Count(fmt.Sprintf("len%%8=%d", len(ab)%8))
		c.Count("codec=" + codec)
		if it < 3 {
			c.Sample("annexb " + codec + " " + hx(ab))
		}
		run := func(req string) string {
			r := execC14(req)
			c.Case(req, r)
			return r
		}
		fail := func(fp, what, req, got, exp string) { c.Fail(fp, what, req, got, exp) }
		// scanners
		r1 := run("sc " + hx(ab))
		r2 := scRef(ab)
		if strings.Fields(r1)[0] != r2 {
			fail("C14-scanner", "word-at-a-time scanner differs from byte-by-byte scan", "sc "+hx(ab), r1, r2)
		}
		// expected start codes from construction
		exp := []string{}
		pos := 0
		for _, u := range us {
			pos += u.sc
			exp = append(exp, fmt.Sprintf("%d:%d", u.sc, pos))
			pos += len(u.nalu)
		}
		if r2 != strings.Join(exp, ",") {
			// generator produced an ambiguous stream: not a property failure
			c.Count("generator-ambiguous")
			continue
		}
		// extraction
		if r := run("extract " + hx(ab)); r != showList(want) {
			fail("C14-extract", "ExtractNalusFromByteStream != units between start codes", "extract "+hx(ab), r, showList(want))
		}
		// annexb -> sample
		if r := run("tosample " + hx(ab)); r != hx(lp) {
			fail("C14-tosample", "ConvertByteStreamToNaluSample != 4-byte length-prefixed units", "tosample "+hx(ab), r, hx(lp))
		}
		// sample -> annexb (4-byte start codes)
		us4 := make([]unit, nu)
		for i, u := range us {
			us4[i] = unit{4, u.nalu}
		}
		if r := run("tobs " + hx(lp)); r != hx(buildAnnexB(us4)) {
			fail("C14-tobytestream", "ConvertSampleToByteStream != units behind 4-byte start codes", "tobs "+hx(lp), r, hx(buildAnnexB(us4)))
		}
		if r := run("nalus " + hx(lp)); r != showList(want) {
			fail("C14-nalusfromsample", "GetNalusFromSample != units", "nalus "+hx(lp), r, showList(want))
		}
		// type walkers
		ts := []string{}
		tsUp := []string{}
		seenVideo := false
		for _, t := range types {
			ts = append(ts, strconv.Itoa(t))
			if !seenVideo {
				tsUp = append(tsUp, strconv.Itoa(t))
			}
			if isVideo(codec, t) {
				seenVideo = true
			}
		}
		if r := run("types " + codec + " 0 " + hx(lp)); r != strings.Join(ts, ",") {
			fail("C14-types", "FindNaluTypes != types of the unit sequence", "types "+codec+" 0 "+hx(lp), r, strings.Join(ts, ","))
		}
		if r := run("types " + codec + " 1 " + hx(lp)); r != strings.Join(tsUp, ",") {
			fail("C14-types-upto", "FindNaluTypesUpToFirstVideoNALU != types up to first video unit", "types "+codec+" 1 "+hx(lp), r, strings.Join(tsUp, ","))
		}
		// contains: a present and an absent type
		probeT := types[c.R.Intn(nu)]
		absent := -1
		for cand := 0; cand < 32; cand++ {
			found := false
			for _, t := range types {
				if t == cand {
					found = true
				}
			}
			if !found {
				absent = cand
				break
			}
		}
		for _, t := range []int{probeT, absent} {
			if t < 0 {
				continue
			}
			e := false
			for _, x := range types {
				if x == t {
					e = true
				}
			}
			rq := fmt.Sprintf("contains %s %d %s", codec, t, hx(lp))
			if r := run(rq); r != b01(e) {
				fail("C14-contains", "ContainsNaluType disagrees with the unit sequence", rq, r, b01(e))
			}
		}
		// parameter sets (sample): PS units before first video, per type
		psExp := func(bs bool) string {
			var out []string
			psTypes := []int{7, 8}
			if codec == "hevc" {
				psTypes = []int{32, 33, 34}
			}
			for _, pt := range psTypes {
				for _, u := range us {
					t := typOf(codec, u.nalu)
					if isVideo(codec, t) {
						break
					}
					if t == pt {
						out = append(out, fmt.Sprintf("%d:%s", t, hx(u.nalu)))
					}
				}
			}
			if len(out) == 0 {
				return "none"
			}
			return strings.Join(out, " ")
		}
		if r := run("ps " + codec + " " + hx(lp)); r != psExp(false) {
			fail("C14-paramsets", "GetParameterSets != parameter sets before first video unit", "ps "+codec+" "+hx(lp), r, psExp(false))
		}
		if r := run("psbs " + codec + " " + hx(ab)); r != psExp(true) {
			fp := "C14-paramsets-bytestream"
			if !seenVideo {
				fp = "C14-paramsets-bytestream-novideo"
			}
			fail(fp, "GetParameterSetsFromByteStream != parameter sets before first video unit", "psbs "+codec+" "+hx(ab), r, psExp(true))
		}
		// of-type extraction
		for _, stop := range []bool{false, true} {
			t := probeT
			var e [][]byte
			for _, u := range us {
				ut := typOf(codec, u.nalu)
				if stop && isVideo(codec, ut) {
					break
				}
				if ut == t {
					e = append(e, u.nalu)
				}
			}
			rq := fmt.Sprintf("oftype %s %d %s %s", codec, t, b01(stop), hx(ab))
			if r := run(rq); r != showList(e) {
				fail("C14-oftype", "ExtractNalusOfTypeFromByteStream disagrees with the unit sequence", rq, r, showList(e))
			}
		}
		if codec == "avc" {
			e := "nil"
			for _, u := range us {
				if isVideo(codec, typOf(codec, u.nalu)) {
					e = hx(u.nalu)
					break
				}
			}
			if r := run("firstvideo " + hx(ab)); r != e {
				fail("C14-firstvideo", "GetFirstAVCVideoNALUFromByteStream != first video unit", "firstvideo "+hx(ab), r, e)
			}
		}
		// has parameter sets: all PS kinds present before (and including types up to) first video
		need := []int{7, 8}
		if codec == "hevc" {
			need = []int{32, 33, 34}
		}
		has := true
		for _, nt := range need {
			f := false
			for _, s := range tsUp {
				if s == strconv.Itoa(nt) {
					f = true
				}
			}
			has = has && f
		}
		if r := run("hasps " + codec + " " + hx(lp)); r != b01(has) {
			fail("C14-hasps", "HasParameterSets disagrees with the unit sequence", "hasps "+codec+" "+hx(lp), r, b01(has))
		}
		rng := func(lo, hi int) bool {
			for _, t := range types {
				if lo <= t && t <= hi {
					return true
				}
			}
			return false
		}
		if codec == "avc" {
			rq := "anytype avc 5 5 " + hx(lp)
			if r := run(rq); r != b01(rng(5, 5)) {
				fail("C14-idr", "avc.IsIDRSample disagrees with the unit sequence", rq, r, b01(rng(5, 5)))
			}
		} else {
			rq := "anytype hevc 16 23 " + hx(lp)
			if r := run(rq); r != b01(rng(16, 23)) {
				fail("C14-rap", "hevc.IsRAPSample disagrees with the unit sequence", rq, r, b01(rng(16, 23)))
			}
			rq = "anytype hevc 19 20 " + hx(lp)
			if r := run(rq); r != b01(rng(19, 20)) {
				fail("C14-idr", "hevc.IsIDRSample disagrees with the unit sequence", rq, r, b01(rng(19, 20)))
			}
		}
	}
	genHugeC14(c)
	// arbitrary zero-heavy strings through both scanners (the scanner theorem has no well-formedness hypothesis)
	m := c.N(20000, 400000)
	for it := 0; it < m; it++ {
		l := c.R.Intn(48)
		if it%7 == 0 {
			l = 8*(1+c.R.Intn(12)) + c.R.Intn(8)
		}
		d := make([]byte, l)
		for i := range d {
			d[i] = []byte{0, 0, 0, 1, 1, 2, 0x80, 0xff}[c.R.Intn(8)]
		}
		r1 := execC14("sc " + hx(d))
		c.Case("sc "+hx(d), r1)
		r2 := scRef(d)
		key := ""
		if r2 != "-" {
			key = hx(d)
		}
		c.Eval(key)
		c.Count("arbitrary-scan")
		if strings.Fields(r1)[0] != r2 {
			c.Fail("C14-scanner", "word-at-a-time scanner differs from byte-by-byte scan", "sc "+hx(d), r1, r2)
		}
	}
	// hasZeroByte on words with exactly controlled zero lanes
	for it := 0; it < c.N(5000, 50000); it++ {
		var w uint64
		anyZero := false
		for k := 0; k < 8; k++ {
			b := uint64([]byte{0, 1, 0x7f, 0x80, 0x81, 0xff, byte(c.R.Intn(256)), 0}[c.R.Intn(8)])
			if b == 0 {
				anyZero = true
			}
			w |= b << (8 * uint(k))
		}
		rq := fmt.Sprintf("hzb %d", w)
		r := execC14(rq)
		c.Case(rq, r)
		c.Eval("")
		if anyZero && r != "1" {
			c.Fail("C14-haszerobyte", "hasZeroByte misses a zero lane", rq, r, "1")
		}
	}
}

// ---------- streams with a NAL unit of 16 MiB and more ("NAL units of any sizes": the 4-byte length field is used
// beyond its low three bytes). The streams are described compactly (start-code length, type and size of every unit, one
// filler block that is repeated inside the units) and expanded here; they are checked by the direct oracle only - the
// list-based Lean model is not run on inputs of this size (its conversion theorems hold for every size).

type hugeFinding struct{ fp, what, got, exp string }

// buffers reused from stream to stream (fresh 16..64 MiB allocations cost more than the checks themselves)
var hugeScratch [3][]byte

func hugeBuf(i, n int) []byte {
	if cap(hugeScratch[i]) < n {
		hugeScratch[i] = make([]byte, n)
	}
	return hugeScratch[i][:n]
}

func hugeSummary(l []hugeFinding) string {
	if len(l) == 0 {
		return "ok"
	}
	var t []string
	for _, x := range l {
		t = append(t, fmt.Sprintf("%s: got %s want %s", x.fp, x.got, x.exp))
	}
	return strings.Join(t, "; ")
}

// digest of a byte string too long to print: length, first difference against the expectation, bytes around it
func diffAt(got, exp []byte) (string, string) {
	n := len(got)
	if len(exp) < n {
		n = len(exp)
	}
	i := 0
	for i < n && got[i] == exp[i] {
		i++
	}
	win := func(b []byte) string {
		lo, hi := i-4, i+8
		if lo < 0 {
			lo = 0
		}
		if hi > len(b) {
			hi = len(b)
		}
		if lo > hi {
			lo = hi
		}
		return fmt.Sprintf("len=%d,first-difference-at=%d,bytes[%d:%d]=%s", len(b), i, lo, hi, hx(b[lo:hi]))
	}
	return win(got), win(exp)
}

func hugeCheck(codec, fillHex, desc string) (res []hugeFinding) {
	bad := []hugeFinding{{"C14-harness", "malformed huge-unit request", "bad-request", ""}}
	fill, err := unhx(fillHex)
	if err != nil || len(fill) < 2 || (codec != "avc" && codec != "hevc") {
		return bad
	}
	// the filler must be emulation-free also when repeated, and must not start or end with 00
	if fill[0] == 0 || fill[len(fill)-1] == 0 || hasForbidden(fill) || bytes.Contains(fill, []byte{0, 0}) {
		return bad
	}
	type udesc struct{ sc, typ, size int }
	var ds []udesc
	total, payload := 0, 0
	for _, w := range strings.Split(desc, ",") {
		x := strings.Split(w, ":")
		if len(x) != 3 {
			return bad
		}
		d := udesc{atoi(x[0]), atoi(x[1]), atoi(x[2])}
		hl := 1
		if codec == "hevc" {
			hl = 2
		}
		if (d.sc != 3 && d.sc != 4) || d.typ < 0 || d.typ > 63 || (codec == "avc" && d.typ > 31) || d.size < hl || d.size > 1<<28 {
			return bad
		}
		ds = append(ds, d)
		total += 4 + d.size
		payload += d.size
	}
	if total > 1<<29 {
		return bad
	}
	var us []unit
	units := hugeBuf(0, payload)
	for _, d := range ds {
		hdr := []byte{byte(0x60 | d.typ)}
		if codec == "hevc" {
			hdr = []byte{byte(d.typ << 1), 1}
		}
		n := units[:d.size:d.size]
		units = units[d.size:]
		copy(n, hdr)
		for at := len(hdr); at < d.size; at += copy(n[at:], fill) {
		}
		if n[d.size-1] == 0 {
			n[d.size-1] = 0x80
		}
		us = append(us, unit{d.sc, n})
	}
	add := func(fp, what, got, exp string) { res = append(res, hugeFinding{fp, what, got, exp}) }
	guard := func(fp string, f func()) {
		if p := safe(f); p != "" {
			add(fp, "panic on a stream with a huge NAL unit", p, "no panic")
		}
	}
	nu := len(us)
	ab, lp := hugeBuf(1, total)[:0], hugeBuf(2, total)[:0]
	types := make([]int, nu)
	for i, u := range us {
		ab = append(append(ab, []byte{0, 0, 0, 1}[4-u.sc:]...), u.nalu...)
		lp = append(binary.BigEndian.AppendUint32(lp, uint32(len(u.nalu))), u.nalu...)
		types[i] = typOf(codec, u.nalu)
	}
	// got = the units, each behind what prefix(i) gives? (compared piecewise: the expectation is not materialised)
	framed := func(got []byte, prefix func(i int) []byte) (string, string, bool) {
		at := 0
		for i, u := range us {
			for _, part := range [][]byte{prefix(i), u.nalu} {
				if len(got)-at < len(part) || !bytes.Equal(got[at:at+len(part)], part) {
					end := at + len(part)
					if end > len(got) {
						end = len(got)
					}
					g, e := diffAt(got[at:end], part)
					return fmt.Sprintf("unit %d at byte %d of %d: %s", i, at, len(got), g), fmt.Sprintf("unit %d: %s", i, e), false
				}
				at += len(part)
			}
		}
		if at != len(got) {
			return fmt.Sprintf("%d bytes", len(got)), fmt.Sprintf("%d bytes", at), false
		}
		return "", "", true
	}
	sameList := func(l [][]byte) (string, string, bool) {
		if len(l) != nu {
			return fmt.Sprintf("%d units", len(l)), fmt.Sprintf("%d units", nu), false
		}
		for i := range l {
			if !bytes.Equal(l[i], us[i].nalu) {
				g, e := diffAt(l[i], us[i].nalu)
				return fmt.Sprintf("unit %d: %s", i, g), fmt.Sprintf("unit %d: %s", i, e), false
			}
		}
		return "", "", true
	}
	// start codes laid down = start codes found
	guard("C14-scanner", func() {
		var exp []string
		pos := 0
		for _, u := range us {
			pos += u.sc
			exp = append(exp, fmt.Sprintf("%d:%d", u.sc, pos))
			pos += len(u.nalu)
		}
		scs, _ := avc.VerifGetStartCodePositions(ab)
		var got []string
		for k, x := range scs {
			if k < 20 {
				got = append(got, fmt.Sprintf("%d:%d", x.StartCodeLength, x.StartPos))
			}
		}
		if len(scs) != nu || strings.Join(got, ",") != strings.Join(exp, ",") {
			add("C14-scanner", "start codes found by the word-at-a-time scanner != start codes of the stream", fmt.Sprintf("%d found: %s", len(scs), strings.Join(got, ",")), strings.Join(exp, ","))
		}
	})
	// walkers over the length-prefixed form
	guard("C14-nalusfromsample", func() {
		l, err := avc.GetNalusFromSample(lp)
		if err != nil {
			add("C14-nalusfromsample", "GetNalusFromSample != units", "error: "+err.Error(), fmt.Sprintf("%d units", nu))
		} else if g, e, ok := sameList(l); !ok {
			add("C14-nalusfromsample", "GetNalusFromSample != units", g, e)
		}
	})
	var ts, tsUp []string
	seenVideo := false
	for _, t := range types {
		ts = append(ts, strconv.Itoa(t))
		if !seenVideo {
			tsUp = append(tsUp, strconv.Itoa(t))
		}
		seenVideo = seenVideo || isVideo(codec, t)
	}
	guard("C14-types", func() {
		if r := execC14Types(codec, false, lp); r != strings.Join(ts, ",") {
			add("C14-types", "FindNaluTypes != types of the unit sequence", r, strings.Join(ts, ","))
		}
	})
	guard("C14-types-upto", func() {
		if r := execC14Types(codec, true, lp); r != strings.Join(tsUp, ",") {
			add("C14-types-upto", "FindNaluTypesUpToFirstVideoNALU != types up to first video unit", r, strings.Join(tsUp, ","))
		}
	})
	guard("C14-contains", func() {
		for t := 0; t < 32; t++ {
			e := false
			for _, x := range types {
				e = e || x == t
			}
			var r bool
			if codec == "avc" {
				r = avc.ContainsNaluType(lp, avc.NaluType(t))
			} else {
				r = hevc.ContainsNaluType(lp, hevc.NaluType(t))
			}
			if r != e {
				add("C14-contains", fmt.Sprintf("ContainsNaluType(%d) disagrees with the unit sequence", t), b01(r), b01(e))
				return
			}
		}
	})
	// Annex B -> length-prefixed (in place when every start code has 4 bytes), and length-prefixed -> Annex B; last,
	// because the conversions may overwrite their argument
	guard("C14-tosample", func() {
		out := avc.ConvertByteStreamToNaluSample(ab)
		if g, e, ok := framed(out, func(i int) []byte { return binary.BigEndian.AppendUint32(nil, uint32(len(us[i].nalu))) }); !ok {
			add("C14-tosample", "ConvertByteStreamToNaluSample != 4-byte length-prefixed units", g, e)
		}
	})
	guard("C14-tobytestream", func() {
		out := avc.ConvertSampleToByteStream(lp)
		if g, e, ok := framed(out, func(int) []byte { return []byte{0, 0, 0, 1} }); !ok {
			add("C14-tobytestream", "ConvertSampleToByteStream != units behind 4-byte start codes", g, e)
		}
	})
	return res
}

func execC14Types(codec string, upTo bool, lp []byte) string {
	var ts []string
	if codec == "avc" {
		l := avc.FindNaluTypes(lp)
		if upTo {
			l = avc.FindNaluTypesUpToFirstVideoNALU(lp)
		}
		for _, t := range l {
			ts = append(ts, strconv.Itoa(int(t)))
		}
	} else {
		l := hevc.FindNaluTypes(lp)
		if upTo {
			l = hevc.FindNaluTypesUpToFirstVideoNalu(lp)
		}
		for _, t := range l {
			ts = append(ts, strconv.Itoa(int(t)))
		}
	}
	return strings.Join(ts, ",")
}

// genHugeC14: a few streams with one NAL unit whose size sits at the boundaries of the length field's bytes (2^24 -1/+0/+1,
// above 2^25; more in the thorough tier) among small units, once with 4-byte start codes only (in-place conversion) and
// once with mixed start codes (copying conversion); AVC and HEVC alternate.
func genHugeC14(c *Ctx) {
	r := c.R
	sizes := []int{1<<24 - 1, 1 << 24, 1<<24 + 1, 1<<25 + 1 + r.Intn(4096)}
	if c.Thorough() {
		sizes = append(sizes, 1<<24-2, 1<<24+5, 1<<24+256, 1<<24+65536, 1<<25-1, 1<<25, 3<<24+0x010203, 1<<26+r.Intn(1<<16))
	}
	// filler: emulation-free when repeated (no 00 00, no 00 at either end); 257 bytes (odd, so that its single zero
	// bytes meet every position of the machine words)
	fill := make([]byte, 257)
	for i := range fill {
		fill[i] = byte(r.Intn(256))
		if r.Intn(6) == 0 {
			fill[i] = 0
		}
		if fill[i] == 0 && (i == 0 || i == len(fill)-1 || fill[i-1] == 0) {
			fill[i] = byte(1 + r.Intn(255))
		}
	}
	small := func(codec string) string {
		var typ int
		if codec == "avc" {
			typ = []int{7, 8, 6, 9, 1, 5}[r.Intn(6)]
		} else {
			typ = []int{32, 33, 34, 35, 39, 1, 19}[r.Intn(7)]
		}
		return fmt.Sprintf("%d:%d", typ, 2+r.Intn(40))
	}
	k := 0
	for _, size := range sizes {
		for _, mixed := range []bool{false, true} {
			codec := []string{"avc", "hevc"}[k%2]
			k++
			before, after := r.Intn(4), r.Intn(3)
			bigTyp := []int{5, 1}[r.Intn(2)]
			if codec == "hevc" {
				bigTyp = []int{19, 1, 20}[r.Intn(3)]
			}
			var ds []string
			for i := 0; i < before; i++ {
				ds = append(ds, small(codec))
			}
			ds = append(ds, fmt.Sprintf("%d:%d", bigTyp, size))
			for i := 0; i < after; i++ {
				ds = append(ds, small(codec))
			}
			short := -1 // with mixed start codes at least one has 3 bytes
			if mixed {
				short = r.Intn(len(ds))
			}
			for i := range ds {
				sc := 4
				if mixed && (i == short || r.Intn(2) == 0) {
					sc = 3
				}
				ds[i] = fmt.Sprintf("%d:%s", sc, ds[i])
			}
			req := fmt.Sprintf("huge %s %s %s", codec, hx(fill), strings.Join(ds, ","))
			c.Eval(req)
			c.Count(fmt.Sprintf("huge-unit stream: mixed start codes=%v", mixed))
			if !mixed && size == 1<<24 {
				c.Sample(req)
			}
			var res []hugeFinding
			if p := safe(func() { res = hugeCheck(codec, hx(fill), strings.Join(ds, ",")) }); p != "" {
				c.Fail("C14-panic", "panic: "+p, req, p, "")
			}
			all := hugeSummary(res)
			for _, x := range res {
				c.Fail(x.fp, x.what+" (stream with a NAL unit of "+strconv.Itoa(size)+" bytes)", req, all, "ok")
			}
		}
	}
}
