package main

import (
	"bytes"
	"fmt"
	"strconv"
	"strings"

	"github.com/Eyevinn/mp4ff/bits"
	"github.com/Eyevinn/mp4ff/mp4"
)

func init() {
	props["C05"] = &propDef{
		rule: "cases = random histories of sample additions to fragments: 1..4 tracks (incl. tracks that receive no sample in a fragment), 1..4 fragments per segment, per fragment one of the modes {AddFullSample (1 track), AddFullSampleToTrack interleaved, AddSampleToTrack/AddSamples with separately written data, AddSampleInterval}, equal/unequal durations, sizes, flags, composition offsets (to hit every trun optimisation branch), EncOptimize on/off, Encode vs EncodeSW, extra boxes (emsg, prft, free, uuid, unknown) in moof/traf and between fragments; the slice APIs are called with 1..n batches per run and the caller keeps using its own slices like a packager does (buf: fresh slice per call | one batch buffer re-used for every call and overwritten after the last one | windows of one long array with live data in the spare capacity; FullSample.Data buffers likewise), the expected samples being the values that were added; a step sequence over {Size, Info, caller-run OptimizeTfhdTrun, Encode, EncodeSW} (2..5 steps, any order, repeated) is applied to ONE built segment and every output written must read back; the encoded segment is decoded with its init (both decode paths) and every track's samples are read back; single runs go through 0..3 optimisation passes (re-encoded fragment) against the Lean model; non-trivial = distinct history with >= 2 samples in some track",
		gen:  genC05,
		exec: execC05,
	}
}

// history line: "frag <ntracks> <opt> <enc> | <frag> | <frag> ..." ; a <frag> is "<mode> <extras> op op ..."
// op = "<track>:<dur>:<size>:<flags>:<cto>" ; decode times are contiguous per track, starting at 1000*track.
type fragOp struct {
	track            int
	dur, size, flags uint32
	cto              int32
}
type fragSpec struct {
	mode   string // full1 | fullmt | lazy | lazyss | itvl
	extras string // combination of letters: e(emsg) p(prft) f(free in moof) u(uuid in traf) x(unknown in traf) b(free between)
	ops    []fragOp
	cut    map[int]bool // slice APIs (AddSamples / AddSampleInterval): a new batch (a new call) starts with op k (written "...:c")
}
type history struct {
	ntracks int
	opt     bool
	enc     string
	frags   []fragSpec
	// what the caller does with the slices it hands to the addition APIs (value semantics: what counts is what was added):
	// "" / f = a fresh slice per call; r = one batch buffer re-used for every call (overwritten by the next batch and
	// scribbled over after the last call, before Encode); a = windows of one long array (spare capacity behind every window
	// holds other batches that are still live)
	buf string
	// steps applied, in order, to the SAME built segment: w = Encode, s = EncodeSW, z = Size(), i = Info,
	// o = the caller runs TrafBox.OptimizeTfhdTrun itself (as Fragment.Encode does: first traf of every fragment);
	// every output written must read back the samples added
	seq string
	// decode time of the first sample of track 1 (0 = the default 1000; the other tracks start 1000 ticks apart):
	// late timelines, in particular around 2^32 where the tfdt box changes version
	t0 uint64
}

func (h *history) line() string {
	var p []string
	hdr := fmt.Sprintf("frag %d %s %s", h.ntracks, b01(h.opt), h.enc)
	if h.buf != "" {
		hdr += " buf=" + h.buf
	}
	if h.seq != "" {
		hdr += " seq=" + h.seq
	}
	if h.t0 != 0 {
		hdr += fmt.Sprintf(" t0=%d", h.t0)
	}
	p = append(p, hdr)
	for _, f := range h.frags {
		s := []string{f.mode, f.extras}
		for k, o := range f.ops {
			x := fmt.Sprintf("%d:%d:%d:%d:%d", o.track, o.dur, o.size, o.flags, o.cto)
			if f.cut[k] {
				x += ":c"
			}
			s = append(s, x)
		}
		p = append(p, strings.Join(s, " "))
	}
	return strings.Join(p, " | ")
}

func parseHistory(req string) *history {
	parts := strings.Split(req, " | ")
	f0 := strings.Fields(parts[0])
	h := &history{ntracks: atoi(f0[1]), opt: f0[2] == "1", enc: f0[3]}
	for _, kv := range f0[4:] {
		if strings.HasPrefix(kv, "buf=") {
			h.buf = kv[4:]
		} else if strings.HasPrefix(kv, "seq=") {
			h.seq = kv[4:]
		} else if strings.HasPrefix(kv, "t0=") {
			h.t0, _ = strconv.ParseUint(kv[3:], 10, 64)
		}
	}
	for _, p := range parts[1:] {
		f := strings.Fields(p)
		fs := fragSpec{mode: f[0], extras: f[1]}
		for _, o := range f[2:] {
			x := strings.Split(o, ":")
			if len(x) > 5 {
				if fs.cut == nil {
					fs.cut = map[int]bool{}
				}
				fs.cut[len(fs.ops)] = true
			}
			fs.ops = append(fs.ops, fragOp{atoi(x[0]), uint32(atoi(x[1])), uint32(atoi(x[2])), uint32(atoi(x[3])), int32(atoi(x[4]))})
		}
		h.frags = append(h.frags, fs)
	}
	return h
}

func sampleData(track, idx int, size uint32) []byte {
	d := make([]byte, size)
	for k := range d {
		d[k] = byte(track*31 + idx*7 + k*13 + 1)
	}
	return d
}

type addedSample struct {
	mp4.Sample
	dec  uint64
	data []byte
}

type built struct {
	init  *mp4.InitSegment
	seg   *mp4.MediaSegment
	added map[int][]addedSample
	lazy  [][]byte // per fragment: data to write after the fragment (metadata-only modes), else nil
}

// callerBufs: the slices the caller hands to the addition APIs (history.buf). The library is given exactly the values
// that were added; afterwards the slices are the caller's own again and are re-used like a real packager re-uses them.
type callerBufs struct {
	mode   string
	batch  []mp4.Sample // r: the one []Sample batch buffer
	data   []byte       // r: the one sample-data buffer (full-sample APIs, which copy the data into the mdat)
	arena  []mp4.Sample // a: one long array; windows are handed out from its end towards its start, so the spare
	apos   int          //    capacity behind a window holds the batches handed out before (still live for the caller)
	darena []byte
	dpos   int
}

func newCallerBufs(h *history) *callerBufs {
	cb := &callerBufs{mode: h.buf}
	n, nb := 0, 0
	for _, f := range h.frags {
		for _, o := range f.ops {
			n++
			nb += int(o.size)
		}
	}
	switch h.buf {
	case "r":
		cb.batch = make([]mp4.Sample, 0, 16)
		cb.data = make([]byte, 0, 64)
	case "a":
		cb.arena, cb.apos = make([]mp4.Sample, n), n
		cb.darena, cb.dpos = make([]byte, nb), nb
	}
	return cb
}

// samples returns the slice the caller passes to a slice API for the batch ss
func (cb *callerBufs) samples(ss []mp4.Sample) []mp4.Sample {
	switch cb.mode {
	case "r":
		cb.batch = append(cb.batch[:0], ss...)
		return cb.batch
	case "a":
		i := cb.apos - len(ss)
		w := cb.arena[i:cb.apos] // cap(w) reaches the end of the arena
		copy(w, ss)
		cb.apos = i
		return w
	}
	return ss
}

// bytes returns the Data slice the caller puts into a FullSample (AddFullSample / AddFullSampleToTrack copy it).
// SampleInterval.Data is NOT re-used: AddSampleInterval keeps it by reference by design (MdatBox.AddSampleDataPart).
func (cb *callerBufs) bytes(d []byte) []byte {
	switch cb.mode {
	case "r":
		cb.data = append(cb.data[:0], d...)
		return cb.data
	case "a":
		i := cb.dpos - len(d)
		w := cb.darena[i:cb.dpos]
		copy(w, d)
		cb.dpos = i
		return w
	}
	return d
}

// scribble: after its last call the caller uses its re-usable buffers for something else
func (cb *callerBufs) scribble() {
	if cb.mode != "r" {
		return
	}
	b := cb.batch[:cap(cb.batch)]
	for i := range b {
		b[i] = mp4.Sample{Flags: 0x00aa0000, Dur: 77, Size: 1, CompositionTimeOffset: -5}
	}
	d := cb.data[:cap(cb.data)]
	for i := range d {
		d[i] = 0xee
	}
}

func buildHistory(h *history) (*built, error) {
	b := &built{added: map[int][]addedSample{}}
	b.init = mp4.CreateEmptyInit()
	for t := 1; t <= h.ntracks; t++ {
		b.init.AddEmptyTrack(90000, "video", "und")
	}
	b.seg = mp4.NewMediaSegment()
	if h.opt {
		b.seg.EncOptimize = mp4.OptimizeTrun
	}
	cb := newCallerBufs(h)
	next := map[int]uint64{}
	cnt := map[int]int{}
	for t := 1; t <= h.ntracks; t++ {
		next[t] = uint64(1000 * t)
		if h.t0 != 0 {
			next[t] = h.t0 + uint64(1000*(t-1))
		}
	}
	for fi, fs := range h.frags {
		var frag *mp4.Fragment
		var err error
		if fs.mode == "full1" || fs.mode == "itvl" || fs.mode == "lazyss" || h.ntracks == 1 {
			frag, err = mp4.CreateFragment(uint32(fi+1), 1)
		} else {
			ids := make([]uint32, h.ntracks)
			for i := range ids {
				ids[i] = uint32(i + 1)
			}
			frag, err = mp4.CreateMultiTrackFragment(uint32(fi+1), ids)
		}
		if err != nil {
			return nil, err
		}
		if h.opt {
			frag.EncOptimize = mp4.OptimizeTrun
		}
		var lazyData []byte
		// slice APIs: the batch being collected (a batch = one AddSamples / AddSampleInterval call)
		var pend []mp4.Sample
		var pendData []byte
		var pendFirst uint64
		flush := func() error {
			if len(pend) == 0 {
				return nil
			}
			ss, first, data := pend, pendFirst, pendData
			pend, pendData = nil, nil
			if fs.mode == "itvl" {
				return frag.AddSampleInterval(mp4.SampleInterval{FirstDecodeTime: first, Samples: cb.samples(ss), Data: data})
			}
			if fs.cut == nil {
				// in two calls when there are several samples (the second call meets a fragment that already holds samples)
				if k := len(ss) / 2; k > 0 && (len(ss)+fi)%2 == 0 {
					frag.AddSamples(cb.samples(ss[:k]), first)
					var d uint64
					for _, x := range ss[:k] {
						d += uint64(x.Dur)
					}
					frag.AddSamples(cb.samples(ss[k:]), first+d)
					return nil
				}
			}
			frag.AddSamples(cb.samples(ss), first)
			return nil
		}
		for k, o := range fs.ops {
			tr := o.track
			if fs.mode == "full1" || fs.mode == "itvl" || fs.mode == "lazyss" || h.ntracks == 1 {
				tr = 1
			}
			s := mp4.Sample{Flags: o.flags, Dur: o.dur, Size: o.size, CompositionTimeOffset: o.cto}
			d := sampleData(tr, cnt[tr], o.size)
			dec := next[tr]
			switch fs.mode {
			case "full1":
				frag.AddFullSample(mp4.FullSample{Sample: s, DecodeTime: dec, Data: cb.bytes(d)})
			case "fullmt":
				if err := frag.AddFullSampleToTrack(mp4.FullSample{Sample: s, DecodeTime: dec, Data: cb.bytes(d)}, uint32(tr)); err != nil {
					return nil, err
				}
			case "lazy":
				if err := frag.AddSampleToTrack(s, uint32(tr), dec); err != nil {
					return nil, err
				}
				lazyData = append(lazyData, d...)
			case "lazyss", "itvl":
				if fs.cut[k] {
					if err := flush(); err != nil {
						return nil, err
					}
				}
				if len(pend) == 0 {
					pendFirst = dec
				}
				pend = append(pend, s)
				if fs.mode == "lazyss" {
					lazyData = append(lazyData, d...)
				} else {
					pendData = append(pendData, d...)
				}
			}
			b.added[tr] = append(b.added[tr], addedSample{s, dec, d})
			next[tr] += uint64(o.dur)
			cnt[tr]++
		}
		if err := flush(); err != nil {
			return nil, err
		}
		// extra boxes
		for _, ch := range fs.extras {
			switch ch {
			case 'e':
				frag.AddEmsg(&mp4.EmsgBox{Version: 1, TimeScale: 90000, PresentationTime: 12345, EventDuration: 90, ID: uint32(fi), SchemeIDURI: "urn:x", Value: "v", MessageData: []byte{1, 2, 3}})
			case 'p':
				prft := mp4.CreatePrftBox(1, 0, 1, 0x1234567890, 77)
				frag.Children = append([]mp4.Box{prft}, frag.Children...)
			case 'f':
				_ = frag.Moof.AddChild(mp4.NewFreeBox([]byte{9, 9, 9, 9, 9}))
			case 'u':
				_ = frag.Moof.Traf.AddChild(mp4.CreateUnknownBox("xyzw", 8+6, []byte{1, 2, 3, 4, 5, 6}))
			case 'x':
				_ = frag.Moof.Trafs[len(frag.Moof.Trafs)-1].AddChild(mp4.NewFreeBox([]byte{7}))
			}
		}
		if fs.mode == "lazy" || fs.mode == "lazyss" {
			b.lazy = append(b.lazy, lazyData)
		} else {
			b.lazy = append(b.lazy, nil)
		}
		b.seg.AddFragment(frag)
	}
	cb.scribble()
	return b, nil
}

// encode the segment; for metadata-only fragments the sample data is written by the caller after the fragment
func (b *built) encode(enc string) ([]byte, error) {
	var out bytes.Buffer
	anyLazy := false
	for _, l := range b.lazy {
		if l != nil {
			anyLazy = true
		}
	}
	if !anyLazy {
		if enc == "w" {
			if err := b.seg.Encode(&out); err != nil {
				return nil, err
			}
		} else {
			sw := bits.NewFixedSliceWriter(int(b.seg.Size()))
			if err := b.seg.EncodeSW(sw); err != nil {
				return nil, err
			}
			out.Write(sw.Bytes())
		}
		return out.Bytes(), nil
	}
	if b.seg.Styp != nil {
		if err := b.seg.Styp.Encode(&out); err != nil {
			return nil, err
		}
	}
	for i, f := range b.seg.Fragments {
		if enc == "w" {
			if err := f.Encode(&out); err != nil {
				return nil, err
			}
		} else {
			sw := bits.NewFixedSliceWriter(int(f.Size()))
			if err := f.EncodeSW(sw); err != nil {
				return nil, err
			}
			out.Write(sw.Bytes())
		}
		out.Write(b.lazy[i])
	}
	return out.Bytes(), nil
}

func readBack(initBytes, seg []byte, sr bool, ntracks int) (map[int][]addedSample, error) {
	all := append(append([]byte{}, initBytes...), seg...)
	var f *mp4.File
	var err error
	if sr {
		f, err = mp4.DecodeFileSR(bits.NewFixedSliceReader(all))
	} else {
		f, err = mp4.DecodeFile(bytes.NewReader(all))
	}
	if err != nil {
		return nil, err
	}
	out := map[int][]addedSample{}
	for _, s := range f.Segments {
		for _, fr := range s.Fragments {
			for t := 1; t <= ntracks; t++ {
				trex, ok := f.Init.Moov.Mvex.GetTrex(uint32(t))
				if !ok {
					return nil, fmt.Errorf("no trex for %d", t)
				}
				fss, err := fr.GetFullSamples(trex)
				if err != nil {
					return nil, err
				}
				for _, fs := range fss {
					out[t] = append(out[t], addedSample{fs.Sample, fs.DecodeTime, append([]byte{}, fs.Data...)})
				}
			}
		}
	}
	return out, nil
}

func sameSamples(a, b []addedSample) string {
	if len(a) != len(b) {
		return fmt.Sprintf("count %d vs %d", len(a), len(b))
	}
	for i := range a {
		x, y := a[i], b[i]
		if x.Sample != y.Sample {
			return fmt.Sprintf("sample %d meta %+v vs %+v", i+1, x.Sample, y.Sample)
		}
		if x.dec != y.dec {
			return fmt.Sprintf("sample %d decode time %d vs %d", i+1, x.dec, y.dec)
		}
		if !bytes.Equal(x.data, y.data) {
			return fmt.Sprintf("sample %d bytes differ", i+1)
		}
	}
	return ""
}

// trun.rt <opt> <trexDur:trexSize:trexFlags> <flags:dur:size:cto>... : one run through optimise/encode/decode/resolve
// <opt> = number of OptimizeTfhdTrun passes the run has gone through when the inspected output is written:
// 0 none; 1 Encode; 2 Encode, then EncodeSW of the same fragment (second output inspected);
// 3 explicit OptimizeTfhdTrun + Size(), EncodeSW, then Encode (last output inspected)
func trunRT(f []string) string {
	passes := atoi(f[1])
	tx := strings.Split(f[2], ":")
	frag, _ := mp4.CreateFragment(1, 1)
	if passes > 0 {
		frag.EncOptimize = mp4.OptimizeTrun
	}
	dec := uint64(5000)
	for i, x := range f[3:] {
		p := strings.Split(x, ":")
		s := mp4.Sample{Flags: uint32(atoi(p[0])), Dur: uint32(atoi(p[1])), Size: uint32(atoi(p[2])), CompositionTimeOffset: int32(atoi(p[3]))}
		frag.AddFullSample(mp4.FullSample{Sample: s, DecodeTime: dec, Data: sampleData(1, i, s.Size)})
		dec += uint64(s.Dur)
	}
	var buf bytes.Buffer
	if passes == 3 {
		if err := frag.Moof.Traf.OptimizeTfhdTrun(); err != nil {
			return "bad-op"
		}
	}
	if passes >= 2 {
		sw := bits.NewFixedSliceWriter(int(frag.Size()))
		if passes == 2 {
			if err := frag.Encode(&buf); err != nil {
				return "bad-op"
			}
			buf.Reset()
		}
		if err := frag.EncodeSW(sw); err != nil {
			return "bad-op"
		}
		buf.Write(sw.Bytes())
	}
	if passes != 2 {
		buf.Reset()
		if err := frag.Encode(&buf); err != nil {
			return "bad-op" // the model returns none for "no samples in trun"
		}
	}
	box, err := mp4.DecodeBox(0, bytes.NewReader(buf.Bytes()))
	if err != nil {
		return "dec-err"
	}
	moof := box.(*mp4.MoofBox)
	mdatBox, err := mp4.DecodeBox(moof.Size(), bytes.NewReader(buf.Bytes()[moof.Size():]))
	if err != nil {
		return "dec-err"
	}
	fr := mp4.NewFragment()
	fr.AddChild(moof)
	fr.AddChild(mdatBox)
	trex := &mp4.TrexBox{TrackID: 1, DefaultSampleDuration: uint32(atoi(tx[0])), DefaultSampleSize: uint32(atoi(tx[1])), DefaultSampleFlags: uint32(atoi(tx[2]))}
	tfhd := moof.Traf.Tfhd
	trun := moof.Traf.Trun
	o := func(has bool, v uint32) string {
		if has {
			return fmt.Sprint(v)
		}
		return "-"
	}
	ff, hasFF := trun.FirstSampleFlags()
	hdr := fmt.Sprintf("tfhd=%s,%s,%s trun=%s%s%s%s,%s", o(tfhd.HasDefaultSampleDuration(), tfhd.DefaultSampleDuration),
		o(tfhd.HasDefaultSampleSize(), tfhd.DefaultSampleSize), o(tfhd.HasDefaultSampleFlags(), tfhd.DefaultSampleFlags),
		b01(trun.HasSampleDuration()), b01(trun.HasSampleSize()), b01(trun.HasSampleFlags()), b01(trun.HasSampleCompositionTimeOffset()), o(hasFF, ff))
	fss, err := fr.GetFullSamples(trex)
	if err != nil {
		return "full-err"
	}
	var ss []string
	for _, s := range fss {
		ss = append(ss, fmt.Sprintf("%d:%d:%d:%d", s.Flags, s.Dur, s.Size, s.CompositionTimeOffset))
	}
	return hdr + " " + strings.Join(ss, " ")
}

type seqIssue struct{ kind, what, got string }

// runSeq builds the history once more and applies h.seq to that one segment object; every output is read back
func runSeq(h *history, initBytes []byte) (issues []seqIssue) {
	b3, err := buildHistory(h)
	if err != nil {
		return []seqIssue{{"build", "", err.Error()}}
	}
	for k, st := range h.seq {
		at := fmt.Sprintf("step %d of %q on one segment object: ", k+1, h.seq)
		switch st {
		case 'z':
			_ = b3.seg.Size()
			for _, f := range b3.seg.Fragments {
				_ = f.Size()
			}
		case 'i':
			var ibuf bytes.Buffer
			_ = b3.seg.Info(&ibuf, "all:1", "", "  ")
		case 'o':
			for _, f := range b3.seg.Fragments {
				if f.Moof != nil && f.Moof.Traf != nil {
					if err := f.Moof.Traf.OptimizeTfhdTrun(); err != nil {
						issues = append(issues, seqIssue{"optimize-seq", at + "OptimizeTfhdTrun fails on a traf that holds samples", err.Error()})
					}
				}
			}
		case 'w', 's':
			out, err := b3.encode(map[rune]string{'w': "w", 's': "sw"}[st])
			if err != nil {
				issues = append(issues, seqIssue{"encode-seq", at + "encoding fails", err.Error()})
				continue
			}
			for _, sr := range []bool{false, true} {
				got, err := readBack(initBytes, out, sr, h.ntracks)
				if err != nil {
					issues = append(issues, seqIssue{"decode-seq", at + "the output does not decode with its init", err.Error()})
					continue
				}
				for t := 1; t <= h.ntracks; t++ {
					if d := sameSamples(b3.added[t], got[t]); d != "" {
						issues = append(issues, seqIssue{"readback-seq", at + fmt.Sprintf("track %d samples read back differ from the samples added (sliceReader=%v): %s", t, sr, d), d})
					}
				}
			}
		}
	}
	return issues
}

func execC05(req string) string {
	if strings.HasPrefix(req, "trun.rt ") {
		var out string
		if p := safe(func() { out = trunRT(strings.Fields(req)) }); p != "" {
			return p
		}
		return out
	}
	var out string
	p := safe(func() {
		h := parseHistory(req)
		b, err := buildHistory(h)
		if err != nil {
			out = "build-err:" + err.Error()
			return
		}
		seg, err := b.encode(h.enc)
		if err != nil {
			out = "enc-err:" + err.Error()
			return
		}
		var ib bytes.Buffer
		_ = b.init.Encode(&ib)
		got, err := readBack(ib.Bytes(), seg, false, h.ntracks)
		if err != nil {
			out = "dec-err:" + err.Error()
			return
		}
		res := []string{hx(seg)}
		for t := 1; t <= h.ntracks; t++ {
			if d := sameSamples(b.added[t], got[t]); d != "" {
				res = append(res, fmt.Sprintf("track%d:%s", t, d))
			}
		}
		if h.seq != "" {
			for _, is := range runSeq(h, ib.Bytes()) {
				res = append(res, is.kind+":"+strings.ReplaceAll(is.what+" "+is.got, " ", "_"))
			}
		}
		out = strings.Join(res, " ")
	})
	if p != "" {
		return p
	}
	return out
}

func genHistory(c *Ctx) *history {
	r := c.R
	h := &history{ntracks: 1 + r.Intn(4), opt: r.Intn(2) == 0, enc: []string{"w", "sw"}[r.Intn(2)]}
	if r.Intn(3) == 0 {
		h.ntracks = 1
	}
	nf := 1 + r.Intn(4)
	for fi := 0; fi < nf; fi++ {
		modes := []string{"fullmt", "fullmt", "lazy"}
		if h.ntracks == 1 {
			modes = []string{"full1", "fullmt", "lazy", "lazyss", "itvl"}
		}
		fs := fragSpec{mode: modes[r.Intn(len(modes))]}
		ex := ""
		for _, ch := range "epfux" {
			if r.Intn(6) == 0 {
				ex += string(ch)
			}
		}
		if ex == "" {
			ex = "-"
		}
		if fs.mode == "itvl" || fs.mode == "lazyss" {
			// these APIs assume exactly one trun
		}
		fs.extras = ex
		nops := 1 + r.Intn(10)
		// per-fragment style: which fields vary
		varyDur, varySize, varyFlags, varyCto := r.Intn(2) == 0, r.Intn(2) == 0, r.Intn(3), r.Intn(3)
		active := []int{}
		for t := 1; t <= h.ntracks; t++ {
			if r.Intn(4) > 0 {
				active = append(active, t)
			}
		}
		if len(active) == 0 {
			active = []int{1 + r.Intn(h.ntracks)}
		}
		for k := 0; k < nops; k++ {
			o := fragOp{track: active[r.Intn(len(active))], dur: 3000, size: 20, flags: 0x01010000}
			if varyDur && r.Intn(2) == 0 {
				o.dur = uint32(1 + r.Intn(5000))
			}
			if varySize {
				o.size = uint32(r.Intn(60))
			}
			switch varyFlags {
			case 1: // first differs
				if k == 0 {
					o.flags = 0x02000000
				}
			case 2:
				if r.Intn(2) == 0 {
					o.flags = 0x02000000
				}
			}
			switch varyCto {
			case 1:
				o.cto = int32(r.Intn(3)) * 3000
			case 2:
				o.cto = -int32(r.Intn(3)) * 3000
			}
			fs.ops = append(fs.ops, o)
		}
		h.frags = append(h.frags, fs)
	}
	return h
}

// decorateHistory adds the dimensions only C05 looks at (C02/C03 share genHistory): how the caller treats the slices it
// passes to the addition APIs, how the slice APIs' samples are cut into calls, and which steps (Size / Info / explicit
// optimisation / Encode / EncodeSW, several times, in any order) are applied to the one built segment
func decorateHistory(c *Ctx, h *history) {
	r := c.R
	h.buf = []string{"f", "r", "r", "a"}[r.Intn(4)]
	for i := range h.frags {
		fs := &h.frags[i]
		if (fs.mode == "lazyss" || fs.mode == "itvl") && len(fs.ops) > 1 && r.Intn(4) > 0 {
			cut := map[int]bool{}
			for k := 1; k < len(fs.ops); k++ {
				if r.Intn(3) == 0 {
					cut[k] = true
				}
			}
			if len(cut) > 0 {
				fs.cut = cut
			}
		}
	}
	// long sample durations (timescales such as 10 MHz, long-GOP or sparse tracks): one in six histories has durations of
	// 2^26 .. 2^31, so that the duration of a run (count x duration) does not fit 32 bits while every field still does
	if r.Intn(6) == 0 {
		big := uint32(1) << uint(26+r.Intn(6))
		if r.Intn(2) == 0 {
			big -= uint32(1 + r.Intn(1000))
		}
		for i := range h.frags {
			for k := range h.frags[i].ops {
				o := &h.frags[i].ops[k]
				if o.dur == 3000 {
					o.dur = big
				} else {
					o.dur = big/2 + o.dur
				}
			}
		}
	}
	// late timelines: one history in five starts at a boundary of the decode-time representations
	if r.Intn(5) == 0 {
		bs := []uint64{1<<32 - 1, 1 << 32, 1<<32 + 1, 1<<32 - 3000, 1<<32 - 1000, 1 << 31, 1<<31 - 1, 1 << 33, 1<<63 - 1<<20, 1<<40 + 7}
		h.t0 = bs[r.Intn(len(bs))]
	}
	n := 2 + r.Intn(4)
	seq := make([]byte, n)
	for k := range seq {
		seq[k] = "wwssszoi"[r.Intn(8)]
	}
	seq[n-1] = "ws"[r.Intn(2)] // the sequence ends with an output
	h.seq = string(seq)
}

func genC05(c *Ctx) {
	// single-run correspondence with the Lean model of optimise / wire / resolve
	for it := 0; it < c.N(4000, 80000); it++ {
		r := c.R
		n := 1 + r.Intn(6)
		var ss []string
		pick := func(vals []int, same bool, first int) int {
			if same {
				return first
			}
			return vals[r.Intn(len(vals))]
		}
		sameD, sameS, sameC := r.Intn(2) == 0, r.Intn(2) == 0, r.Intn(2) == 0
		flagMode := r.Intn(3)
		d0, s0 := []int{1000, 3000, 0}[r.Intn(3)], []int{0, 10, 40}[r.Intn(3)]
		for i := 0; i < n; i++ {
			fl := 0x01010000
			switch flagMode {
			case 1:
				if i == 0 {
					fl = 0x02000000
				}
			case 2:
				fl = []int{0x01010000, 0x02000000, 0}[r.Intn(3)]
			}
			cto := 0
			if !sameC {
				cto = []int{0, 3000, -3000}[r.Intn(3)]
			}
			ss = append(ss, fmt.Sprintf("%d:%d:%d:%d", fl, pick([]int{1000, 3000, 0, 4001}, sameD, d0), pick([]int{0, 10, 40, 7}, sameS, s0), cto))
		}
		req := fmt.Sprintf("trun.rt %d %d:%d:%d %s", []int{0, 1, 1, 2, 2, 3}[r.Intn(6)], []int{0, 1000}[r.Intn(2)], []int{0, 10}[r.Intn(2)], []int{0, 0x01010000}[r.Intn(2)], strings.Join(ss, " "))
		res := execC05(req)
		c.Case(req, res)
		c.Eval(req)
		c.Count("trun.rt")
		// direct oracle: what is read back is what was added
		if f := strings.Fields(res); len(f) < 2 || strings.Join(f[2:], " ") != strings.Join(ss, " ") {
			c.Fail("C05-run-readback", "a single run read back differs from the samples added", req, clip(res), strings.Join(ss, " "))
		}
	}
	n := c.N(2500, 60000)
	for it := 0; it < n; it++ {
		h := genHistory(c)
		decorateHistory(c, h)
		checkHistory(c, "C05", h)
	}
}

// checkHistory runs the round trip (C05) and, for C02/C03, the size / twice / two-encoder checks on the API-built segment
func checkHistory(c *Ctx, which string, h *history) {
	req := h.line()
	maxPerTrack := 0
	fail := func(prop, kind, what, got, exp string) {
		if prop == which {
			c.Fail(prop+"-"+kind, what, req, clip(got), clip(exp))
		}
	}
	var msg string
	p := safe(func() {
		b, err := buildHistory(h)
		if err != nil {
			msg = "build-err:" + err.Error()
			return
		}
		for _, l := range b.added {
			if len(l) > maxPerTrack {
				maxPerTrack = len(l)
			}
		}
		var ib bytes.Buffer
		_ = b.init.Encode(&ib)
		sizeBefore := b.seg.Size()
		seg, err := b.encode(h.enc)
		if err != nil {
			msg = "enc-err:" + err.Error()
			return
		}
		// ---- C02 on the API-built segment (only when the library encodes the whole segment itself)
		anyLazy := false
		var lazyTotal int
		for _, l := range b.lazy {
			if l != nil {
				anyLazy = true
				lazyTotal += len(l)
			}
		}
		sizeAfter := b.seg.Size()
		if int(sizeAfter) != len(seg) {
			fail("C02", "segment-size-after", "MediaSegment.Size() after encoding != bytes written (incl. separately written sample data)", fmt.Sprintf("Size()=%d written=%d", sizeAfter, len(seg)), "")
		}
		if !h.opt && int(sizeBefore) != len(seg) {
			fail("C02", "segment-size-before", "MediaSegment.Size() before encoding != bytes written (no trun optimisation)", fmt.Sprintf("Size()=%d written=%d", sizeBefore, len(seg)), "")
		}
		if msg2 := checkSizeFieldsFile(seg); msg2 != "" && !anyLazy {
			fail("C02", "segment-size-field", "header size fields of the encoded segment do not tile it: "+msg2, "", "")
		}
		// encode again (Info in between) -> identical
		var ibuf bytes.Buffer
		_ = b.seg.Info(&ibuf, "all:1", "", "  ")
		seg2, err2 := b.encode(h.enc)
		if err2 != nil || !bytes.Equal(seg, seg2) {
			fail("C02", "segment-encode-twice", "encoding the same segment twice (Info in between) yields different bytes", fmt.Sprintf("%v", err2), "")
		}
		// ---- C03: the other encoder on an identically built structure
		b2, _ := buildHistory(h)
		other := "sw"
		if h.enc == "sw" {
			other = "w"
		}
		segO, errO := b2.encode(other)
		if errO != nil || !bytes.Equal(seg, segO) {
			fail("C03", "segment-encoders", "MediaSegment/Fragment Encode and EncodeSW produce different bytes for the same history", fmt.Sprintf("%v len %d vs %d", errO, len(seg), len(segO)), "")
		}
		// ... and after the structure has been encoded once, both encoders still agree (stale state)
		seg3, err3 := b.encode(other)
		if err3 != nil || !bytes.Equal(seg, seg3) {
			fail("C03", "segment-encoders-second", "after a first encode, the other encoder produces different bytes", fmt.Sprintf("%v", err3), "")
		}
		// ---- C05: read back through both decoders
		for _, sr := range []bool{false, true} {
			got, err := readBack(ib.Bytes(), seg, sr, h.ntracks)
			if err != nil {
				fail("C05", "decode", "the encoded segment does not decode with its init", err.Error(), "")
				continue
			}
			for t := 1; t <= h.ntracks; t++ {
				if d := sameSamples(b.added[t], got[t]); d != "" {
					fail("C05", "readback", fmt.Sprintf("track %d samples read back differ from the samples added (sliceReader=%v): %s", t, sr, d), d, "")
				}
			}
		}
		// ---- growing an already encoded fragment and encoding again (C02/C03/C05: no stale offsets)
		if !anyLazy && len(b.seg.Fragments) > 0 {
			last := b.seg.Fragments[len(b.seg.Fragments)-1]
			if len(last.Moof.Trafs) == 1 && len(last.Moof.Traf.Truns) == 1 && len(last.Mdat.DataParts) == 0 {
				tr := int(last.Moof.Traf.Tfhd.TrackID)
				la := b.added[tr]
				if len(la) > 0 {
					prev := la[len(la)-1]
					s := mp4.Sample{Flags: prev.Flags, Dur: prev.Dur, Size: 33, CompositionTimeOffset: prev.CompositionTimeOffset}
					d := sampleData(tr, 999, 33)
					last.AddFullSample(mp4.FullSample{Sample: s, DecodeTime: prev.dec + uint64(prev.Dur), Data: d})
					b.added[tr] = append(b.added[tr], addedSample{s, prev.dec + uint64(prev.Dur), d})
					// both orders: the encoder that runs first on the grown fragment must not rely on stale offsets
					first, second := "w", "sw"
					if len(req)%2 == 0 {
						first, second = "sw", "w"
					}
					g1, e1 := b.encode(first)
					g2, e2 := b.encode(second)
					if e1 != nil || e2 != nil || !bytes.Equal(g1, g2) {
						fail("C03", "segment-encoders-grown", "after adding a sample to an already encoded fragment, Encode and EncodeSW differ", fmt.Sprintf("%v %v", e1, e2), "")
					}
					if e1 == nil {
						if int(b.seg.Size()) != len(g1) {
							fail("C02", "segment-size-grown", "Size() != bytes written after growing an encoded fragment", "", "")
						}
						got, err := readBack(ib.Bytes(), g1, false, h.ntracks)
						if err != nil {
							fail("C05", "decode-grown", "segment does not decode after growing an encoded fragment", err.Error(), "")
						} else if dd := sameSamples(b.added[tr], got[tr]); dd != "" && !h.opt {
							fail("C05", "readback-grown", "samples read back differ after growing an already encoded fragment: "+dd, dd, "")
						}
					}
				}
			}
		}
		_ = lazyTotal
		// ---- C05: a sequence of steps on ONE built segment; every output written must read back the samples added
		if which == "C05" && h.seq != "" {
			for _, is := range runSeq(h, ib.Bytes()) {
				if is.kind == "build" {
					msg = "build-err:" + is.got
					return
				}
				fail("C05", is.kind, is.what, is.got, "")
			}
		}
	})
	key := ""
	if maxPerTrack >= 2 {
		key = req
	}
	c.Eval(key)
	c.Count(fmt.Sprintf("tracks=%d", h.ntracks))
	c.Count(fmt.Sprintf("opt=%v", h.opt))
	for _, f := range h.frags {
		c.Count("mode=" + f.mode)
		if f.cut != nil {
			c.Count("slice-api-batches>1")
		}
	}
	if h.buf != "" {
		c.Count("buf=" + h.buf)
	}
	if strings.Count(h.seq, "w")+strings.Count(h.seq, "s") > 1 {
		c.Count("seq:outputs>1")
	}
	if strings.Contains(h.seq, "o") {
		c.Count("seq:caller-optimize")
	}
	if len(c.St.Samples) < 4 {
		c.Sample(req)
	}
	if p != "" {
		fp := "panic"
		if strings.Contains(p, "OptimizeTfhdTrun") {
			fp = "panic-optimize-empty-first-track"
		}
		if which == "C05" {
			c.Fail("C05-"+fp, "panic while building/encoding/decoding the history: "+p, req, p, "")
		}
		return
	}
	if msg != "" && which == "C05" {
		fp := "C05-error"
		if strings.Contains(msg, "no samples in trun") {
			fp = "C05-optimize-no-samples"
		}
		c.Fail(fp, "history cannot be built/encoded: "+msg, req, msg, "")
	}
}
