package main

import (
	"bytes"
	"fmt"
	"strings"

	"github.com/Eyevinn/mp4ff/bits"
	"github.com/Eyevinn/mp4ff/mp4"
)

func init() {
	props["C05"] = &propDef{
		rule: "cases = random histories of sample additions to fragments: 1..4 tracks (incl. tracks that receive no sample in a fragment), 1..4 fragments per segment, per fragment one of the modes {AddFullSample (1 track), AddFullSampleToTrack interleaved, AddSampleToTrack/AddSamples with separately written data, AddSampleInterval}, equal/unequal durations, sizes, flags, composition offsets (to hit every trun optimisation branch), EncOptimize on/off, Encode vs EncodeSW, extra boxes (emsg, prft, free, uuid, unknown) in moof/traf and between fragments; the encoded segment is decoded with its init (both decode paths) and every track's samples are read back; non-trivial = distinct history with >= 2 samples in some track",
		gen:  genC05,
		exec: execC05,
	}
}

// history line: "frag <ntracks> <opt> <enc> | <frag> | <frag> ..." ; a <frag> is "<mode> <extras> op op ..."
// op = "<track>:<dur>:<size>:<flags>:<cto>" ; decode times are contiguous per track, starting at 1000*track.
type fragOp struct {
	track                 int
	dur, size, flags      uint32
	cto                   int32
}
type fragSpec struct {
	mode   string // full1 | fullmt | lazy | lazyss | itvl
	extras string // combination of letters: e(emsg) p(prft) f(free in moof) u(uuid in traf) x(unknown in traf) b(free between)
	ops    []fragOp
}
type history struct {
	ntracks int
	opt     bool
	enc     string
	frags   []fragSpec
}

func (h *history) line() string {
	var p []string
	p = append(p, fmt.Sprintf("frag %d %s %s", h.ntracks, b01(h.opt), h.enc))
	for _, f := range h.frags {
		s := []string{f.mode, f.extras}
		for _, o := range f.ops {
			s = append(s, fmt.Sprintf("%d:%d:%d:%d:%d", o.track, o.dur, o.size, o.flags, o.cto))
		}
		p = append(p, strings.Join(s, " "))
	}
	return strings.Join(p, " | ")
}

func parseHistory(req string) *history {
	parts := strings.Split(req, " | ")
	f0 := strings.Fields(parts[0])
	h := &history{ntracks: atoi(f0[1]), opt: f0[2] == "1", enc: f0[3]}
	for _, p := range parts[1:] {
		f := strings.Fields(p)
		fs := fragSpec{mode: f[0], extras: f[1]}
		for _, o := range f[2:] {
			x := strings.Split(o, ":")
			fs.ops = append(fs.ops, fragOp{atoi(x[0]), uint32(atoi(x[1])), uint32(atoi(x[2])), uint32(atoi(x[3])), int32(atoi(x[4]))})
		}
		h.frags = append(h.frags, fs)
	}
	return h
}

func sampleData(track, idx int, size uint32) []byte {
	d := make([]byte, size)
	for k := range d {
		d[k] = byte(track*31 + idx*7 + k*13 + 1)
	}
	return d
}

type addedSample struct {
	mp4.Sample
	dec  uint64
	data []byte
}

type built struct {
	init    *mp4.InitSegment
	seg     *mp4.MediaSegment
	added   map[int][]addedSample
	lazy    [][]byte // per fragment: data to write after the fragment (metadata-only modes), else nil
}

func buildHistory(h *history) (*built, error) {
	b := &built{added: map[int][]addedSample{}}
	b.init = mp4.CreateEmptyInit()
	for t := 1; t <= h.ntracks; t++ {
		b.init.AddEmptyTrack(90000, "video", "und")
	}
	b.seg = mp4.NewMediaSegment()
	if h.opt {
		b.seg.EncOptimize = mp4.OptimizeTrun
	}
	next := map[int]uint64{}
	cnt := map[int]int{}
	for t := 1; t <= h.ntracks; t++ {
		next[t] = uint64(1000 * t)
	}
	for fi, fs := range h.frags {
		var frag *mp4.Fragment
		var err error
		if fs.mode == "full1" || fs.mode == "itvl" || fs.mode == "lazyss" || h.ntracks == 1 {
			frag, err = mp4.CreateFragment(uint32(fi+1), 1)
		} else {
			ids := make([]uint32, h.ntracks)
			for i := range ids {
				ids[i] = uint32(i + 1)
			}
			frag, err = mp4.CreateMultiTrackFragment(uint32(fi+1), ids)
		}
		if err != nil {
			return nil, err
		}
		if h.opt {
			frag.EncOptimize = mp4.OptimizeTrun
		}
		var lazyData []byte
		var itvlSamples []mp4.Sample
		var itvlData []byte
		var itvlFirst uint64
		var ssSamples []mp4.Sample
		var ssFirst uint64
		for _, o := range fs.ops {
			tr := o.track
			if fs.mode == "full1" || fs.mode == "itvl" || fs.mode == "lazyss" || h.ntracks == 1 {
				tr = 1
			}
			s := mp4.Sample{Flags: o.flags, Dur: o.dur, Size: o.size, CompositionTimeOffset: o.cto}
			d := sampleData(tr, cnt[tr], o.size)
			dec := next[tr]
			switch fs.mode {
			case "full1":
				frag.AddFullSample(mp4.FullSample{Sample: s, DecodeTime: dec, Data: d})
			case "fullmt":
				if err := frag.AddFullSampleToTrack(mp4.FullSample{Sample: s, DecodeTime: dec, Data: d}, uint32(tr)); err != nil {
					return nil, err
				}
			case "lazy":
				if err := frag.AddSampleToTrack(s, uint32(tr), dec); err != nil {
					return nil, err
				}
				lazyData = append(lazyData, d...)
			case "lazyss":
				if len(ssSamples) == 0 {
					ssFirst = dec
				}
				ssSamples = append(ssSamples, s)
				lazyData = append(lazyData, d...)
			case "itvl":
				if len(itvlSamples) == 0 {
					itvlFirst = dec
				}
				itvlSamples = append(itvlSamples, s)
				itvlData = append(itvlData, d...)
			}
			b.added[tr] = append(b.added[tr], addedSample{s, dec, d})
			next[tr] += uint64(o.dur)
			cnt[tr]++
		}
		if fs.mode == "itvl" && len(itvlSamples) > 0 {
			if err := frag.AddSampleInterval(mp4.SampleInterval{FirstDecodeTime: itvlFirst, Samples: itvlSamples, Data: itvlData}); err != nil {
				return nil, err
			}
		}
		if fs.mode == "lazyss" && len(ssSamples) > 0 {
			// in two calls when there are several samples (the second call meets a fragment that already holds samples)
			if k := len(ssSamples) / 2; k > 0 && (len(ssSamples)+fi)%2 == 0 {
				frag.AddSamples(ssSamples[:k], ssFirst)
				var d uint64
				for _, x := range ssSamples[:k] {
					d += uint64(x.Dur)
				}
				frag.AddSamples(ssSamples[k:], ssFirst+d)
			} else {
				frag.AddSamples(ssSamples, ssFirst)
			}
		}
		// extra boxes
		for _, ch := range fs.extras {
			switch ch {
			case 'e':
				frag.AddEmsg(&mp4.EmsgBox{Version: 1, TimeScale: 90000, PresentationTime: 12345, EventDuration: 90, ID: uint32(fi), SchemeIDURI: "urn:x", Value: "v", MessageData: []byte{1, 2, 3}})
			case 'p':
				prft := mp4.CreatePrftBox(1, 0, 1, 0x1234567890, 77)
				frag.Children = append([]mp4.Box{prft}, frag.Children...)
			case 'f':
				_ = frag.Moof.AddChild(mp4.NewFreeBox([]byte{9, 9, 9, 9, 9}))
			case 'u':
				_ = frag.Moof.Traf.AddChild(mp4.CreateUnknownBox("xyzw", 8+6, []byte{1, 2, 3, 4, 5, 6}))
			case 'x':
				_ = frag.Moof.Trafs[len(frag.Moof.Trafs)-1].AddChild(mp4.NewFreeBox([]byte{7}))
			}
		}
		if fs.mode == "lazy" || fs.mode == "lazyss" {
			b.lazy = append(b.lazy, lazyData)
		} else {
			b.lazy = append(b.lazy, nil)
		}
		b.seg.AddFragment(frag)
	}
	return b, nil
}

// encode the segment; for metadata-only fragments the sample data is written by the caller after the fragment
func (b *built) encode(enc string) ([]byte, error) {
	var out bytes.Buffer
	anyLazy := false
	for _, l := range b.lazy {
		if l != nil {
			anyLazy = true
		}
	}
	if !anyLazy {
		if enc == "w" {
			if err := b.seg.Encode(&out); err != nil {
				return nil, err
			}
		} else {
			sw := bits.NewFixedSliceWriter(int(b.seg.Size()))
			if err := b.seg.EncodeSW(sw); err != nil {
				return nil, err
			}
			out.Write(sw.Bytes())
		}
		return out.Bytes(), nil
	}
	if b.seg.Styp != nil {
		if err := b.seg.Styp.Encode(&out); err != nil {
			return nil, err
		}
	}
	for i, f := range b.seg.Fragments {
		if enc == "w" {
			if err := f.Encode(&out); err != nil {
				return nil, err
			}
		} else {
			sw := bits.NewFixedSliceWriter(int(f.Size()))
			if err := f.EncodeSW(sw); err != nil {
				return nil, err
			}
			out.Write(sw.Bytes())
		}
		out.Write(b.lazy[i])
	}
	return out.Bytes(), nil
}

func readBack(initBytes, seg []byte, sr bool, ntracks int) (map[int][]addedSample, error) {
	all := append(append([]byte{}, initBytes...), seg...)
	var f *mp4.File
	var err error
	if sr {
		f, err = mp4.DecodeFileSR(bits.NewFixedSliceReader(all))
	} else {
		f, err = mp4.DecodeFile(bytes.NewReader(all))
	}
	if err != nil {
		return nil, err
	}
	out := map[int][]addedSample{}
	for _, s := range f.Segments {
		for _, fr := range s.Fragments {
			for t := 1; t <= ntracks; t++ {
				trex, ok := f.Init.Moov.Mvex.GetTrex(uint32(t))
				if !ok {
					return nil, fmt.Errorf("no trex for %d", t)
				}
				fss, err := fr.GetFullSamples(trex)
				if err != nil {
					return nil, err
				}
				for _, fs := range fss {
					out[t] = append(out[t], addedSample{fs.Sample, fs.DecodeTime, append([]byte{}, fs.Data...)})
				}
			}
		}
	}
	return out, nil
}

func sameSamples(a, b []addedSample) string {
	if len(a) != len(b) {
		return fmt.Sprintf("count %d vs %d", len(a), len(b))
	}
	for i := range a {
		x, y := a[i], b[i]
		if x.Sample != y.Sample {
			return fmt.Sprintf("sample %d meta %+v vs %+v", i+1, x.Sample, y.Sample)
		}
		if x.dec != y.dec {
			return fmt.Sprintf("sample %d decode time %d vs %d", i+1, x.dec, y.dec)
		}
		if !bytes.Equal(x.data, y.data) {
			return fmt.Sprintf("sample %d bytes differ", i+1)
		}
	}
	return ""
}

// trun.rt <opt> <trexDur:trexSize:trexFlags> <flags:dur:size:cto>... : one run through optimise/encode/decode/resolve
func trunRT(f []string) string {
	opt := f[1] == "1"
	tx := strings.Split(f[2], ":")
	frag, _ := mp4.CreateFragment(1, 1)
	if opt {
		frag.EncOptimize = mp4.OptimizeTrun
	}
	dec := uint64(5000)
	for i, x := range f[3:] {
		p := strings.Split(x, ":")
		s := mp4.Sample{Flags: uint32(atoi(p[0])), Dur: uint32(atoi(p[1])), Size: uint32(atoi(p[2])), CompositionTimeOffset: int32(atoi(p[3]))}
		frag.AddFullSample(mp4.FullSample{Sample: s, DecodeTime: dec, Data: sampleData(1, i, s.Size)})
		dec += uint64(s.Dur)
	}
	var buf bytes.Buffer
	if err := frag.Encode(&buf); err != nil {
		return "bad-op" // the model returns none for "no samples in trun"
	}
	box, err := mp4.DecodeBox(0, bytes.NewReader(buf.Bytes()))
	if err != nil {
		return "dec-err"
	}
	moof := box.(*mp4.MoofBox)
	mdatBox, err := mp4.DecodeBox(moof.Size(), bytes.NewReader(buf.Bytes()[moof.Size():]))
	if err != nil {
		return "dec-err"
	}
	fr := mp4.NewFragment()
	fr.AddChild(moof)
	fr.AddChild(mdatBox)
	trex := &mp4.TrexBox{TrackID: 1, DefaultSampleDuration: uint32(atoi(tx[0])), DefaultSampleSize: uint32(atoi(tx[1])), DefaultSampleFlags: uint32(atoi(tx[2]))}
	tfhd := moof.Traf.Tfhd
	trun := moof.Traf.Trun
	o := func(has bool, v uint32) string {
		if has {
			return fmt.Sprint(v)
		}
		return "-"
	}
	ff, hasFF := trun.FirstSampleFlags()
	hdr := fmt.Sprintf("tfhd=%s,%s,%s trun=%s%s%s%s,%s", o(tfhd.HasDefaultSampleDuration(), tfhd.DefaultSampleDuration),
		o(tfhd.HasDefaultSampleSize(), tfhd.DefaultSampleSize), o(tfhd.HasDefaultSampleFlags(), tfhd.DefaultSampleFlags),
		b01(trun.HasSampleDuration()), b01(trun.HasSampleSize()), b01(trun.HasSampleFlags()), b01(trun.HasSampleCompositionTimeOffset()), o(hasFF, ff))
	fss, err := fr.GetFullSamples(trex)
	if err != nil {
		return "full-err"
	}
	var ss []string
	for _, s := range fss {
		ss = append(ss, fmt.Sprintf("%d:%d:%d:%d", s.Flags, s.Dur, s.Size, s.CompositionTimeOffset))
	}
	return hdr + " " + strings.Join(ss, " ")
}

func execC05(req string) string {
	if strings.HasPrefix(req, "trun.rt ") {
		var out string
		if p := safe(func() { out = trunRT(strings.Fields(req)) }); p != "" {
			return p
		}
		return out
	}
	var out string
	p := safe(func() {
		h := parseHistory(req)
		b, err := buildHistory(h)
		if err != nil {
			out = "build-err:" + err.Error()
			return
		}
		seg, err := b.encode(h.enc)
		if err != nil {
			out = "enc-err:" + err.Error()
			return
		}
		var ib bytes.Buffer
		_ = b.init.Encode(&ib)
		got, err := readBack(ib.Bytes(), seg, false, h.ntracks)
		if err != nil {
			out = "dec-err:" + err.Error()
			return
		}
		res := []string{hx(seg)}
		for t := 1; t <= h.ntracks; t++ {
			if d := sameSamples(b.added[t], got[t]); d != "" {
				res = append(res, fmt.Sprintf("track%d:%s", t, d))
			}
		}
		out = strings.Join(res, " ")
	})
	if p != "" {
		return p
	}
	return out
}

func genHistory(c *Ctx) *history {
	r := c.R
	h := &history{ntracks: 1 + r.Intn(4), opt: r.Intn(2) == 0, enc: []string{"w", "sw"}[r.Intn(2)]}
	if r.Intn(3) == 0 {
		h.ntracks = 1
	}
	nf := 1 + r.Intn(4)
	for fi := 0; fi < nf; fi++ {
		modes := []string{"fullmt", "fullmt", "lazy"}
		if h.ntracks == 1 {
			modes = []string{"full1", "fullmt", "lazy", "lazyss", "itvl"}
		}
		fs := fragSpec{mode: modes[r.Intn(len(modes))]}
		ex := ""
		for _, ch := range "epfux" {
			if r.Intn(6) == 0 {
				ex += string(ch)
			}
		}
		if ex == "" {
			ex = "-"
		}
		if fs.mode == "itvl" || fs.mode == "lazyss" {
			// these APIs assume exactly one trun
		}
		fs.extras = ex
		nops := 1 + r.Intn(10)
		// per-fragment style: which fields vary
		varyDur, varySize, varyFlags, varyCto := r.Intn(2) == 0, r.Intn(2) == 0, r.Intn(3), r.Intn(3)
		active := []int{}
		for t := 1; t <= h.ntracks; t++ {
			if r.Intn(4) > 0 {
				active = append(active, t)
			}
		}
		if len(active) == 0 {
			active = []int{1 + r.Intn(h.ntracks)}
		}
		for k := 0; k < nops; k++ {
			o := fragOp{track: active[r.Intn(len(active))], dur: 3000, size: 20, flags: 0x01010000}
			if varyDur && r.Intn(2) == 0 {
				o.dur = uint32(1 + r.Intn(5000))
			}
			if varySize {
				o.size = uint32(r.Intn(60))
			}
			switch varyFlags {
			case 1: // first differs
				if k == 0 {
					o.flags = 0x02000000
				}
			case 2:
				if r.Intn(2) == 0 {
					o.flags = 0x02000000
				}
			}
			switch varyCto {
			case 1:
				o.cto = int32(r.Intn(3)) * 3000
			case 2:
				o.cto = -int32(r.Intn(3)) * 3000
			}
			fs.ops = append(fs.ops, o)
		}
		h.frags = append(h.frags, fs)
	}
	return h
}

func genC05(c *Ctx) {
	// single-run correspondence with the Lean model of optimise / wire / resolve
	for it := 0; it < c.N(4000, 80000); it++ {
		r := c.R
		n := 1 + r.Intn(6)
		var ss []string
		pick := func(vals []int, same bool, first int) int {
			if same {
				return first
			}
			return vals[r.Intn(len(vals))]
		}
		sameD, sameS, sameC := r.Intn(2) == 0, r.Intn(2) == 0, r.Intn(2) == 0
		flagMode := r.Intn(3)
		d0, s0 := []int{1000, 3000, 0}[r.Intn(3)], []int{0, 10, 40}[r.Intn(3)]
		for i := 0; i < n; i++ {
			fl := 0x01010000
			switch flagMode {
			case 1:
				if i == 0 {
					fl = 0x02000000
				}
			case 2:
				fl = []int{0x01010000, 0x02000000, 0}[r.Intn(3)]
			}
			cto := 0
			if !sameC {
				cto = []int{0, 3000, -3000}[r.Intn(3)]
			}
			ss = append(ss, fmt.Sprintf("%d:%d:%d:%d", fl, pick([]int{1000, 3000, 0, 4001}, sameD, d0), pick([]int{0, 10, 40, 7}, sameS, s0), cto))
		}
		req := fmt.Sprintf("trun.rt %d %d:%d:%d %s", r.Intn(2), []int{0, 1000}[r.Intn(2)], []int{0, 10}[r.Intn(2)], []int{0, 0x01010000}[r.Intn(2)], strings.Join(ss, " "))
		res := execC05(req)
		c.Case(req, res)
		c.Eval(req)
		c.Count("trun.rt")
		// direct oracle: what is read back is what was added
		if f := strings.Fields(res); len(f) < 2 || strings.Join(f[2:], " ") != strings.Join(ss, " ") {
			c.Fail("C05-run-readback", "a single run read back differs from the samples added", req, clip(res), strings.Join(ss, " "))
		}
	}
	n := c.N(2500, 60000)
	for it := 0; it < n; it++ {
		h := genHistory(c)
		checkHistory(c, "C05", h)
	}
}

// checkHistory runs the round trip (C05) and, for C02/C03, the size / twice / two-encoder checks on the API-built segment
func checkHistory(c *Ctx, which string, h *history) {
	req := h.line()
	maxPerTrack := 0
	fail := func(prop, kind, what, got, exp string) {
		if prop == which {
			c.Fail(prop+"-"+kind, what, req, clip(got), clip(exp))
		}
	}
	var msg string
	p := safe(func() {
		b, err := buildHistory(h)
		if err != nil {
			msg = "build-err:" + err.Error()
			return
		}
		for _, l := range b.added {
			if len(l) > maxPerTrack {
				maxPerTrack = len(l)
			}
		}
		var ib bytes.Buffer
		_ = b.init.Encode(&ib)
		sizeBefore := b.seg.Size()
		seg, err := b.encode(h.enc)
		if err != nil {
			msg = "enc-err:" + err.Error()
			return
		}
		// ---- C02 on the API-built segment (only when the library encodes the whole segment itself)
		anyLazy := false
		var lazyTotal int
		for _, l := range b.lazy {
			if l != nil {
				anyLazy = true
				lazyTotal += len(l)
			}
		}
		sizeAfter := b.seg.Size()
		if int(sizeAfter) != len(seg) {
			fail("C02", "segment-size-after", "MediaSegment.Size() after encoding != bytes written (incl. separately written sample data)", fmt.Sprintf("Size()=%d written=%d", sizeAfter, len(seg)), "")
		}
		if !h.opt && int(sizeBefore) != len(seg) {
			fail("C02", "segment-size-before", "MediaSegment.Size() before encoding != bytes written (no trun optimisation)", fmt.Sprintf("Size()=%d written=%d", sizeBefore, len(seg)), "")
		}
		if msg2 := checkSizeFieldsFile(seg); msg2 != "" && !anyLazy {
			fail("C02", "segment-size-field", "header size fields of the encoded segment do not tile it: "+msg2, "", "")
		}
		// encode again (Info in between) -> identical
		var ibuf bytes.Buffer
		_ = b.seg.Info(&ibuf, "all:1", "", "  ")
		seg2, err2 := b.encode(h.enc)
		if err2 != nil || !bytes.Equal(seg, seg2) {
			fail("C02", "segment-encode-twice", "encoding the same segment twice (Info in between) yields different bytes", fmt.Sprintf("%v", err2), "")
		}
		// ---- C03: the other encoder on an identically built structure
		b2, _ := buildHistory(h)
		other := "sw"
		if h.enc == "sw" {
			other = "w"
		}
		segO, errO := b2.encode(other)
		if errO != nil || !bytes.Equal(seg, segO) {
			fail("C03", "segment-encoders", "MediaSegment/Fragment Encode and EncodeSW produce different bytes for the same history", fmt.Sprintf("%v len %d vs %d", errO, len(seg), len(segO)), "")
		}
		// ... and after the structure has been encoded once, both encoders still agree (stale state)
		seg3, err3 := b.encode(other)
		if err3 != nil || !bytes.Equal(seg, seg3) {
			fail("C03", "segment-encoders-second", "after a first encode, the other encoder produces different bytes", fmt.Sprintf("%v", err3), "")
		}
		// ---- C05: read back through both decoders
		for _, sr := range []bool{false, true} {
			got, err := readBack(ib.Bytes(), seg, sr, h.ntracks)
			if err != nil {
				fail("C05", "decode", "the encoded segment does not decode with its init", err.Error(), "")
				continue
			}
			for t := 1; t <= h.ntracks; t++ {
				if d := sameSamples(b.added[t], got[t]); d != "" {
					fail("C05", "readback", fmt.Sprintf("track %d samples read back differ from the samples added (sliceReader=%v): %s", t, sr, d), d, "")
				}
			}
		}
		// ---- growing an already encoded fragment and encoding again (C02/C03/C05: no stale offsets)
		if !anyLazy && len(b.seg.Fragments) > 0 {
			last := b.seg.Fragments[len(b.seg.Fragments)-1]
			if len(last.Moof.Trafs) == 1 && len(last.Moof.Traf.Truns) == 1 && len(last.Mdat.DataParts) == 0 {
				tr := int(last.Moof.Traf.Tfhd.TrackID)
				la := b.added[tr]
				if len(la) > 0 {
					prev := la[len(la)-1]
					s := mp4.Sample{Flags: prev.Flags, Dur: prev.Dur, Size: 33, CompositionTimeOffset: prev.CompositionTimeOffset}
					d := sampleData(tr, 999, 33)
					last.AddFullSample(mp4.FullSample{Sample: s, DecodeTime: prev.dec + uint64(prev.Dur), Data: d})
					b.added[tr] = append(b.added[tr], addedSample{s, prev.dec + uint64(prev.Dur), d})
					// both orders: the encoder that runs first on the grown fragment must not rely on stale offsets
					first, second := "w", "sw"
					if len(req)%2 == 0 {
						first, second = "sw", "w"
					}
					g1, e1 := b.encode(first)
					g2, e2 := b.encode(second)
					if e1 != nil || e2 != nil || !bytes.Equal(g1, g2) {
						fail("C03", "segment-encoders-grown", "after adding a sample to an already encoded fragment, Encode and EncodeSW differ", fmt.Sprintf("%v %v", e1, e2), "")
					}
					if e1 == nil {
						if int(b.seg.Size()) != len(g1) {
							fail("C02", "segment-size-grown", "Size() != bytes written after growing an encoded fragment", "", "")
						}
						got, err := readBack(ib.Bytes(), g1, false, h.ntracks)
						if err != nil {
							fail("C05", "decode-grown", "segment does not decode after growing an encoded fragment", err.Error(), "")
						} else if dd := sameSamples(b.added[tr], got[tr]); dd != "" && !h.opt {
							fail("C05", "readback-grown", "samples read back differ after growing an already encoded fragment: "+dd, dd, "")
						}
					}
				}
			}
		}
		_ = lazyTotal
	})
	key := ""
	if maxPerTrack >= 2 {
		key = req
	}
	c.Eval(key)
	c.Count(fmt.Sprintf("tracks=%d", h.ntracks))
	c.Count(fmt.Sprintf("opt=%v", h.opt))
	for _, f := range h.frags {
		c.Count("mode=" + f.mode)
	}
	if len(c.St.Samples) < 4 {
		c.Sample(req)
	}
	if p != "" {
		fp := "panic"
		if strings.Contains(p, "OptimizeTfhdTrun") {
			fp = "panic-optimize-empty-first-track"
		}
		if which == "C05" {
			c.Fail("C05-"+fp, "panic while building/encoding/decoding the history: "+p, req, p, "")
		}
		return
	}
	if msg != "" && which == "C05" {
		fp := "C05-error"
		if strings.Contains(msg, "no samples in trun") {
			fp = "C05-optimize-no-samples"
		}
		c.Fail(fp, "history cannot be built/encoded: "+msg, req, msg, "")
	}
}
