package main

import (
	"bytes"
	"fmt"
	"io"
	"os"
	"path/filepath"
	"strings"

	"github.com/Eyevinn/mp4ff/mp4"
)

func init() {
	props["C08"] = &propDef{
		rule: "cases = (a) synthetic files with an mdat (8/16-byte header) at a random position: every interesting (start,size) range (each payload edge +-1, ranges ending at the last byte, zero length, outside) through ReadData and CopyData in lazy and in-memory mode; lazy Encode = header only; histories of 2..6 ReadData/CopyData calls on one mdat object whose results are all held until the last call returned (later ranges shorter and longer than earlier ones), also on the mdat boxes of whole decoded files; (b) CopySampleData over chunk ranges and over generated sample tables, all sample intervals, work buffers {0,1,2,3,5,7,8,64,4096}, both modes; (c) generated progressive files (1..3 tracks, mdat before/after moov, 32/64-bit mdat header, stco/co64) and the repository's test files decoded in both modes: same box tree, sizes, positions; (d) multi-GiB progressive files presented by a sparse io.ReadSeeker (8-byte mdat headers with size fields up to 0xffffffff, 16-byte headers with sizes around 2^32 and up to 2^36, moov before or after, co64 chunks at the first payload byte, across offset 2^32 and ending at the last payload byte) decoded lazily: tree, Size/HeaderSize/payload offset/File.Size against the header bytes in the file, Encode = that header, ReadData/CopyData/CopySampleData against the file bytes; (e) the built examples/segmenter binary with and without -lazy (one file per track and -m) on generated progressive files whose chunk layout varies per track (one sample per chunk, all samples in one chunk, long chunks so that segment intervals lie inside one chunk, short random chunks, mixed; video with optional audio track; segment durations from 1 ms to longer than the track): byte-identical output files in both modes, bytes behind every mdat header = what the header and the truns announce = the bytes of the segment's samples in the input, and the copied payload of every lazily written segment against the model's chunk walk; non-trivial = distinct (file, query) whose range is non-empty",
		gen:  genC08,
		exec: execC08,
	}
}

func execC08(req string) string {
	f := strings.Fields(req)
	if len(f) == 0 {
		return ""
	}
	var out string
	p := safe(func() { out = execC08Inner(f[0], f[1:]) })
	if p != "" {
		return p
	}
	return out
}

func mkMdat(lazy string, F []byte, ms, hl, sz int) *mp4.MdatBox {
	hdr := mp4.BoxHeader{Name: "mdat", Size: uint64(sz), Hdrlen: hl}
	var b mp4.Box
	if lazy == "1" {
		b, _ = mp4.DecodeMdatLazily(hdr, uint64(ms))
	} else {
		b, _ = mp4.DecodeMdat(hdr, uint64(ms), bytes.NewReader(F[ms+hl:]))
	}
	return b.(*mp4.MdatBox)
}

func execC08Inner(op string, a []string) string {
	switch op {
	case "md.virt":
		return execC08Virt(a)
	case "seg.cmp", "seg.copy":
		return execC08Seg(op, a)
	case "md.read":
		F, _ := unhx(a[6])
		m := mkMdat(a[0], F, atoi(a[1]), atoi(a[2]), atoi(a[3]))
		st, ln := int64(atoi(a[4])), int64(atoi(a[5]))
		d, err := m.ReadData(st, ln, bytes.NewReader(F))
		var buf bytes.Buffer
		n, err2 := m.CopyData(st, ln, bytes.NewReader(F), &buf)
		r1, r2 := "err", "err"
		if err == nil {
			r1 = hx(d)
		}
		if err2 == nil && n == ln {
			r2 = hx(buf.Bytes())
		}
		if r1 != r2 {
			return "ReadData=" + r1 + " CopyData=" + r2
		}
		return r1
	case "md.hist":
		// md.hist <lazy> <mdat start> <hdr len> <box size> <start:len:kind,...> <file>: the reads are made one after the
		// other on ONE mdat object (kind r = ReadData, c = CopyData into a writer of its own), every result is HELD
		// until the last read has returned, and only then rendered
		F, _ := unhx(a[5])
		m := mkMdat(a[0], F, atoi(a[1]), atoi(a[2]), atoi(a[3]))
		rs := bytes.NewReader(F)
		var held [][]byte
		for _, x := range strings.Split(a[4], ",") {
			p := strings.Split(x, ":")
			st, ln := int64(atoi(p[0])), int64(atoi(p[1]))
			if p[2] == "c" {
				var buf bytes.Buffer
				n, err := m.CopyData(st, ln, rs, &buf)
				if err != nil || n != ln {
					held = append(held, nil)
				} else {
					held = append(held, buf.Bytes())
				}
			} else {
				d, err := m.ReadData(st, ln, rs)
				if err != nil {
					d = nil
				}
				held = append(held, d)
			}
		}
		var l []string
		for _, d := range held {
			if d == nil {
				l = append(l, "err")
			} else {
				l = append(l, hx(d))
			}
		}
		return strings.Join(l, ",")
	case "md.enc":
		F, _ := unhx(a[4])
		m := mkMdat(a[0], F, atoi(a[1]), atoi(a[2]), atoi(a[3]))
		var buf bytes.Buffer
		if err := m.Encode(&buf); err != nil {
			return "err"
		}
		return fmt.Sprintf("%s size=%d", hx(buf.Bytes()), m.Size())
	case "md.copy", "md.copyt":
		var t *tables
		var rest []string
		if op == "md.copy" {
			// one sample per chunk: the ranges are the samples
			t = &tables{sttsC: []uint32{1}, sttsD: []uint32{1}, stsc: [][3]uint32{{1, 1, 1}}}
			if a[5] != "-" {
				for _, x := range strings.Split(a[5], ",") {
					p := strings.Split(x, ":")
					t.offsets = append(t.offsets, uint64(atoi(p[0])))
					t.sizes = append(t.sizes, uint32(atoi(p[1])))
				}
			}
			t.n = uint32(len(t.sizes))
			t.sttsC[0] = t.n
			rest = []string{a[0], a[1], a[2], a[3], a[4], "1", fmt.Sprint(t.n), a[6]}
		} else {
			t, _ = parseTablesLine(a[0:7])
			rest = a[7:]
		}
		F, _ := unhx(rest[7])
		m := mkMdat(rest[0], F, atoi(rest[1]), atoi(rest[2]), atoi(rest[3]))
		wl := atoi(rest[4])
		x, y := atoi(rest[5]), atoi(rest[6])
		if t.n == 0 {
			return "-"
		}
		trak, err := t.build()
		if err != nil {
			return "build-err"
		}
		f := mp4.NewFile()
		f.Mdat = m
		var buf bytes.Buffer
		var ws []byte
		if wl > 0 {
			ws = make([]byte, wl)
		}
		err = f.CopySampleData(&buf, bytes.NewReader(F), trak, uint32(x), uint32(y), ws)
		if err != nil {
			return "err"
		}
		return hx(buf.Bytes())
	}
	return "bad-op"
}

type synth struct {
	F          []byte
	ms, hl, sz int
}

func genSynth(c *Ctx) synth {
	r := c.R
	pre := r.Intn(40)
	pl := r.Intn(120)
	if r.Intn(10) == 0 {
		pl = 0
	}
	post := r.Intn(30)
	hl := 8
	if r.Intn(3) == 0 {
		hl = 16
	}
	F := make([]byte, pre)
	r.Read(F)
	sz := hl + pl
	if hl == 8 {
		F = append(F, byte(sz>>24), byte(sz>>16), byte(sz>>8), byte(sz), 'm', 'd', 'a', 't')
	} else {
		F = append(F, 0, 0, 0, 1, 'm', 'd', 'a', 't', 0, 0, 0, 0, byte(sz>>24), byte(sz>>16), byte(sz>>8), byte(sz))
	}
	p := make([]byte, pl+post)
	r.Read(p)
	F = append(F, p...)
	return synth{F, pre, hl, sz}
}

func genC08(c *Ctx) {
	workLens := []int{0, 1, 2, 3, 5, 7, 8, 64, 4096}
	// (a) + (b) synthetic
	for it := 0; it < c.N(1500, 30000); it++ {
		s := genSynth(c)
		ps := s.ms + s.hl
		pe := s.ms + s.sz
		pl := s.sz - s.hl
		fh := hx(s.F)
		// ranges: edges
		var rngs [][2]int
		for _, st := range []int{ps - 1, ps, ps + 1, ps + pl/2, pe - 2, pe - 1, pe} {
			for _, ln := range []int{0, 1, 2, pl / 2, pl - 1, pl, pe - st, pe - st - 1, pe - st + 1} {
				if st >= 0 && ln >= 0 && c.R.Intn(3) == 0 {
					rngs = append(rngs, [2]int{st, ln})
				}
			}
		}
		rngs = append(rngs, [2]int{ps, pl}, [2]int{ps + pl/3, pl - pl/3})
		for _, rg := range rngs {
			st, ln := rg[0], rg[1]
			valid := st >= ps && st+ln <= pe && ln > 0
			var res [2]string
			for li, lazy := range []string{"0", "1"} {
				req := fmt.Sprintf("md.read %s %d %d %d %d %d %s", lazy, s.ms, s.hl, s.sz, st, ln, fh)
				res[li] = execC08(req)
				c.Case(req, res[li])
			}
			key := ""
			if valid {
				key = fmt.Sprintf("%s %d %d", fh, st, ln)
			}
			c.Eval(key)
			c.Count("read-range")
			if valid {
				want := hx(s.F[st : st+ln])
				if res[0] != want || res[1] != want {
					c.Fail("C08-read-range", "ReadData/CopyData of a valid range differs between modes or from the file bytes",
						fmt.Sprintf("md.read 0|1 %d %d %d %d %d %s", s.ms, s.hl, s.sz, st, ln, fh), "eager="+clip(res[0])+" lazy="+clip(res[1]), clip(want))
				}
			}
		}
		// histories: 2..6 reads of valid non-empty ranges on ONE mdat object per mode, all results held until the end
		// (a caller that reads several samples and then uses them); later ranges shorter, equal and longer than earlier
		// ones; each held result must still be the file bytes of its range, in both modes
		if pl > 0 {
			nr := 2 + c.R.Intn(5)
			var rs, wants []string
			for k := 0; k < nr; k++ {
				o := ps + c.R.Intn(pl)
				l := 1 + c.R.Intn(pe-o)
				switch c.R.Intn(5) {
				case 0:
					o, l = ps, pl // the whole payload
				case 1:
					l = pe - o // up to the last byte
				case 2:
					l = 1 + c.R.Intn(minInt(pe-o, 4)) // short
				}
				kind := "r"
				if c.R.Intn(4) == 0 {
					kind = "c"
				}
				rs = append(rs, fmt.Sprintf("%d:%d:%s", o, l, kind))
				wants = append(wants, hx(s.F[o:o+l]))
			}
			want := strings.Join(wants, ",")
			var res [2]string
			for li, lazy := range []string{"0", "1"} {
				req := fmt.Sprintf("md.hist %s %d %d %d %s %s", lazy, s.ms, s.hl, s.sz, strings.Join(rs, ","), fh)
				res[li] = execC08(req)
				c.Case(req, res[li])
				c.Eval(req)
				c.Count("read-history")
			}
			if res[0] != want || res[1] != want {
				c.Fail("C08-read-history", "results of several ReadData/CopyData calls on one mdat object, held until the last call returned, differ between modes or from the file bytes of their ranges",
					fmt.Sprintf("md.hist 0|1 %d %d %d %s %s", s.ms, s.hl, s.sz, strings.Join(rs, ","), fh), "eager="+clip(res[0])+" lazy="+clip(res[1]), clip(want))
			}
		}
		// lazy encode = header; header + payload = original box
		if pl > 0 {
			req := fmt.Sprintf("md.enc 1 %d %d %d %s", s.ms, s.hl, s.sz, fh)
			r := execC08(req)
			c.Case(req, r)
			req0 := fmt.Sprintf("md.enc 0 %d %d %d %s", s.ms, s.hl, s.sz, fh)
			r0 := execC08(req0)
			c.Case(req0, r0)
			c.Eval(req)
			hdrBytes, _ := unhx(strings.Fields(r)[0])
			whole := append(append([]byte{}, hdrBytes...), s.F[ps:pe]...)
			if !bytes.Equal(whole, s.F[s.ms:pe]) || !strings.HasSuffix(r, fmt.Sprintf("size=%d", s.sz)) {
				c.Fail("C08-lazy-encode", "lazily decoded mdat: encoded header + payload != original box (or Size wrong)", req, clip(r), hx(s.F[s.ms:ps]))
			}
			if strings.Fields(r0)[0] != hx(s.F[s.ms:pe]) {
				c.Fail("C08-eager-encode", "in-memory mdat does not re-encode to the original box", req0, clip(r0), "")
			}
		}
		// chunk-range copies
		if pl > 0 {
			nr := 1 + c.R.Intn(5)
			var rs []string
			var want []byte
			for k := 0; k < nr; k++ {
				o := ps + c.R.Intn(pl)
				l := c.R.Intn(pe - o + 1)
				if c.R.Intn(4) == 0 {
					l = pe - o
				}
				rs = append(rs, fmt.Sprintf("%d:%d", o, l))
				want = append(want, s.F[o:o+l]...)
			}
			for _, wl := range workLens {
				if c.R.Intn(2) == 0 && wl > 8 {
					continue
				}
				for _, lazy := range []string{"0", "1"} {
					req := fmt.Sprintf("md.copy %s %d %d %d %d %s %s", lazy, s.ms, s.hl, s.sz, wl, strings.Join(rs, ","), fh)
					r := execC08(req)
					c.Case(req, r)
					c.Eval(req)
					c.Count(fmt.Sprintf("copy.work%d", wl))
					if r != hx(want) {
						c.Fail("C08-copy-ranges", "CopySampleData output != concatenated sample bytes", req, clip(r), clip(hx(want)))
					}
				}
			}
		}
	}
	// (b2) real tables over a synthetic payload
	genTablesMaxSize = 48
	defer func() { genTablesMaxSize = 3000 }()
	for it := 0; it < c.N(120, 2500); it++ {
		t, e := genTables(c)
		// place chunks inside an mdat: rebase offsets
		var maxEnd uint64
		base := t.offsets[0]
		for i := range e.off {
			end := e.off[i] - base + uint64(e.size[i])
			if end > maxEnd {
				maxEnd = end
			}
		}
		if maxEnd > 60000 || t.co64 {
			continue
		}
		pre := c.R.Intn(20)
		hl := 8
		if c.R.Intn(3) == 0 {
			hl = 16
		}
		pl := int(maxEnd) + c.R.Intn(4)
		sz := hl + pl
		F := make([]byte, pre)
		c.R.Read(F)
		if hl == 8 {
			F = append(F, byte(sz>>24), byte(sz>>16), byte(sz>>8), byte(sz), 'm', 'd', 'a', 't')
		} else {
			F = append(F, 0, 0, 0, 1, 'm', 'd', 'a', 't', 0, 0, 0, 0, byte(sz>>24), byte(sz>>16), byte(sz>>8), byte(sz))
		}
		p := make([]byte, pl)
		c.R.Read(p)
		F = append(F, p...)
		shift := uint64(pre+hl) - base
		for i := range t.offsets {
			t.offsets[i] += shift
		}
		n := int(t.n)
		fh := hx(F)
		for q := 0; q < 6; q++ {
			a := 1 + c.R.Intn(n)
			b := a + c.R.Intn(n-a+1)
			if q == 0 {
				a, b = 1, n
			}
			var want []byte
			for k := a; k <= b; k++ {
				o := e.off[k-1] + shift
				want = append(want, F[o:o+uint64(e.size[k-1])]...)
			}
			wl := workLens[c.R.Intn(len(workLens))]
			for _, lazy := range []string{"0", "1"} {
				req := fmt.Sprintf("md.copyt %s %s %d %d %d %d %d %d %s", t.line(), lazy, pre, hl, sz, wl, a, b, fh)
				r := execC08(req)
				c.Case(req, r)
				c.Eval(req)
				c.Count("copy-tables")
				if r != hx(want) {
					c.Fail("C08-copy-samples", "CopySampleData over a sample interval != concatenated sample bytes", clip(req), clip(r), clip(hx(want)))
				}
			}
		}
	}
	// (b') directed: zero-size samples, the last one ending exactly at the end of the input (a Read there reports EOF)
	for _, hl := range []int{8, 16} {
		for pre := 0; pre <= 3; pre += 3 {
			sizes := []int{5, 0, 3, 0}
			sz := hl + 8
			F := make([]byte, pre)
			if hl == 8 {
				F = append(F, 0, 0, 0, byte(sz), 'm', 'd', 'a', 't')
			} else {
				F = append(F, 0, 0, 0, 1, 'm', 'd', 'a', 't', 0, 0, 0, 0, 0, 0, 0, byte(sz))
			}
			F = append(F, 1, 2, 3, 4, 5, 6, 7, 8)
			tl := fmt.Sprintf("4:10 - 1:4:1 5,0,3,0 %d - -", pre+hl)
			for _, iv := range [][2]int{{4, 4}, {2, 2}, {1, 4}, {3, 4}, {2, 4}, {1, 2}} {
				var want []byte
				o := pre + hl
				for k := 1; k <= 4; k++ {
					if k >= iv[0] && k <= iv[1] {
						want = append(want, F[o:o+sizes[k-1]]...)
					}
					o += sizes[k-1]
				}
				for _, wl := range []int{0, 1, 4, 4096} {
					for _, lazy := range []string{"0", "1"} {
						req := fmt.Sprintf("md.copyt %s %s %d %d %d %d %d %d %s", tl, lazy, pre, hl, sz, wl, iv[0], iv[1], hx(F))
						r := execC08(req)
						c.Case(req, r)
						c.Eval(req)
						c.Count("copy-tables-zero-size")
						if r != hx(want) {
							c.Fail("C08-copy-samples", "CopySampleData over a sample interval != concatenated sample bytes", clip(req), clip(r), clip(hx(want)))
						}
					}
				}
			}
		}
	}
	// (c) whole files
	var files [][]byte
	var names []string
	for it := 0; it < c.N(40, 600); it++ {
		pf0 := genProgFile(c.R, 1+c.R.Intn(3), 40)
		vs := []*progFile{pf0}
		if it%3 == 0 {
			vs = pf0.variants(c.R)
		}
		for _, pf := range vs {
			files = append(files, pf.bytes)
			names = append(names, fmt.Sprintf("generated#%d(tracks=%d,mdatFirst=%v,large=%v,co64=%v,largeFree=%v,trailingMdat=%v)", it, len(pf.tracks), pf.mdatFirst, pf.largeMdat, pf.co64, pf.largeFree, pf.trailingMdat))
		}
	}
	repo := os.Getenv("VERIF_REPO")
	if repo == "" {
		repo = "/repo"
	}
	for _, pat := range []string{"mp4/testdata/*.mp4", "mp4/testdata/*.m4s", "mp4/testdata/*.cmfv", "examples/*/testdata/*.mp4", "cmd/*/testdata/*.mp4"} {
		ms, _ := filepath.Glob(filepath.Join(repo, pat))
		for _, m := range ms {
			d, err := os.ReadFile(m)
			if err == nil && len(d) < 8<<20 {
				files = append(files, d)
				names = append(names, strings.TrimPrefix(m, repo+"/"))
			}
		}
	}
	for i, d := range files {
		req := "file " + names[i]
		c.Eval(req)
		c.Count("whole-file")
		var msg string
		p := safe(func() { msg = compareLazyEager(d, 0) })
		if p != "" {
			msg = p
		}
		if msg == "" && i%4 == 0 {
			pre := 1 + c.R.Intn(40)
			c.Count("whole-file-reader-not-at-zero")
			if p := safe(func() { msg = compareLazyEager(d, pre) }); p != "" {
				msg = p
			}
			if msg != "" {
				msg = fmt.Sprintf("(readers positioned at offset %d of a larger stream) ", pre) + msg
				c.Fail("C08-positions-reader-offset", "lazy and in-memory decode differ: "+msg, req+" "+clip(hx(d)), msg, "")
				msg = ""
			}
		}
		if strings.HasPrefix(msg, heldMsg) {
			c.Fail("C08-read-history-file", "lazy and in-memory decode differ: "+msg, req+" "+clip(hx(d)), msg, "")
			msg = ""
		}
		if msg != "" {
			c.Fail("C08-tree-equal", "lazy and in-memory decode differ: "+msg, req+" "+clip(hx(d)), msg, "")
		}
	}
	// (d) multi-GiB files behind a sparse io.ReadSeeker (lazy mode only), see c08_virt.go
	genC08Virt(c)
	// (e) the segmenter tool with and without -lazy on generated progressive files of varied chunk layouts, see c08_seg.go
	genC08Seg(c)
}

const heldMsg = "held ReadData results:"

func minI64(a, b int64) int64 {
	if a < b {
		return a
	}
	return b
}

// compareLazyEager decodes d in both modes; with prefix > 0 the file sits behind `prefix` foreign bytes of a larger
// stream and the readers are positioned at its first byte (tree, sizes and positions must still agree between the
// modes; the absolute-offset read API is only exercised for prefix 0).
func compareLazyEager(d []byte, prefix int) string {
	rd := func() *bytes.Reader {
		r := bytes.NewReader(append(make([]byte, prefix), d...))
		_, _ = r.Seek(int64(prefix), 0)
		return r
	}
	fe, errE := mp4.DecodeFile(rd())
	fl, errL := mp4.DecodeFile(rd(), mp4.WithDecodeMode(mp4.DecModeLazyMdat))
	if (errE == nil) != (errL == nil) {
		return fmt.Sprintf("eager err=%v lazy err=%v", errE, errL)
	}
	if errE != nil {
		return ""
	}
	if fe.Size() != fl.Size() {
		return fmt.Sprintf("File.Size %d vs %d", fe.Size(), fl.Size())
	}
	if len(fe.Children) != len(fl.Children) {
		return "different number of top-level boxes"
	}
	var pos uint64
	var trueMdats []topBox
	for _, b := range walkTop(d) {
		if b.typ == "mdat" {
			trueMdats = append(trueMdats, b)
		}
	}
	mdatIdx := 0
	for i := range fe.Children {
		a, b := fe.Children[i], fl.Children[i]
		if a.Type() != b.Type() || a.Size() != b.Size() {
			return fmt.Sprintf("box %d: %s/%d vs %s/%d", i, a.Type(), a.Size(), b.Type(), b.Size())
		}
		if ma, ok := a.(*mp4.MdatBox); ok {
			mb := b.(*mp4.MdatBox)
			if ma.StartPos != mb.StartPos || ma.PayloadAbsoluteOffset() != mb.PayloadAbsoluteOffset() {
				return fmt.Sprintf("mdat positions: eager %d lazy %d", ma.StartPos, mb.StartPos)
			}
			// the real position in the file (earlier boxes with a 16-byte header re-encode 8 bytes shorter, so the
			// running sum of Size() is not a file position); it must hold an mdat header
			pos = ma.StartPos
			if prefix > 0 {
				continue
			}
			// the original box = the next mdat of an independent top-level walk of the file bytes
			if mdatIdx >= len(trueMdats) {
				return "more mdat boxes decoded than the file holds"
			}
			tm := trueMdats[mdatIdx]
			mdatIdx++
			// header + payload == original box
			var buf bytes.Buffer
			if err := mb.Encode(&buf); err != nil {
				return "lazy mdat encode: " + err.Error()
			}
			pe := pos + mb.Size()
			if mb.PayloadAbsoluteOffset() > pe || pe > uint64(len(d)) {
				return fmt.Sprintf("lazy mdat extent [%d,%d) outside the file", mb.PayloadAbsoluteOffset(), pe)
			}
			whole := append(buf.Bytes(), d[mb.PayloadAbsoluteOffset():pe]...)
			if !bytes.Equal(whole, d[tm.off:tm.off+tm.size]) {
				return fmt.Sprintf("lazy mdat header + payload copied from the reported position %d != the original box at %d", mb.PayloadAbsoluteOffset(), tm.off)
			}
			// whole payload through both modes
			if ma.Size() > ma.HeaderSize() {
				st := int64(ma.PayloadAbsoluteOffset())
				ln := int64(ma.Size() - ma.HeaderSize())
				x, e1 := ma.ReadData(st, ln, nil)
				y, e2 := mb.ReadData(st, ln, bytes.NewReader(d))
				if e1 != nil || e2 != nil || !bytes.Equal(x, y) {
					return fmt.Sprintf("full payload read differs (%v, %v)", e1, e2)
				}
			}
			// several ranges read from the decoded file's mdat object in each mode, every result held until the last
			// read has returned: each must (still) be the file bytes of its range
			if L := int64(ma.Size() - ma.HeaderSize()); L > 0 {
				st := int64(ma.PayloadAbsoluteOffset())
				rgs := [][2]int64{{st, L - L/2}, {st + L/2, L - L/2}, {st + L/3, minI64(5, L-L/3)}, {st, L}, {st + L - 1, 1}, {st, 1}, {st + L/4, L - L/4}}
				for mode, m := range []*mp4.MdatBox{ma, mb} {
					var held [][]byte
					for _, rg := range rgs {
						var x []byte
						var err error
						if mode == 1 {
							x, err = m.ReadData(rg[0], rg[1], bytes.NewReader(d))
						} else {
							x, err = m.ReadData(rg[0], rg[1], nil)
						}
						if err != nil {
							return fmt.Sprintf("%s read of range %d+%d fails in mode %d: %v", heldMsg, rg[0], rg[1], mode, err)
						}
						held = append(held, x)
					}
					for k, rg := range rgs {
						if !bytes.Equal(held[k], d[rg[0]:rg[0]+rg[1]]) {
							return fmt.Sprintf("%s the bytes returned for range %d+%d (read %d of %d) are not the file bytes of the range after the later reads (mode %d, 1 = lazy)", heldMsg, rg[0], rg[1], k+1, len(rgs), mode)
						}
					}
				}
			}
		} else {
			var ba, bb bytes.Buffer
			if err := a.Info(&ba, "all:1", "", "  "); err != nil {
				return "info: " + err.Error()
			}
			_ = b.Info(&bb, "all:1", "", "  ")
			if ba.String() != bb.String() {
				return "Info of box " + a.Type() + " differs"
			}
		}
		pos += a.Size()
	}
	// fragment / moof positions
	if len(fe.Segments) != len(fl.Segments) {
		return "segment count differs"
	}
	for si := range fe.Segments {
		if len(fe.Segments[si].Fragments) != len(fl.Segments[si].Fragments) {
			return "fragment count differs"
		}
		for fi := range fe.Segments[si].Fragments {
			x, y := fe.Segments[si].Fragments[fi], fl.Segments[si].Fragments[fi]
			if x.StartPos != y.StartPos || (x.Moof != nil && y.Moof != nil && x.Moof.StartPos != y.Moof.StartPos) ||
				(x.Mdat != nil && y.Mdat != nil && (x.Mdat.StartPos != y.Mdat.StartPos || x.Mdat.Size() != y.Mdat.Size())) {
				return "fragment positions differ"
			}
		}
	}
	// progressive: every track's full sample copy agrees
	if fe.Moov != nil && fe.Mdat != nil && !fe.IsFragmented() {
		for _, trak := range fe.Moov.Traks {
			n := trak.GetNrSamples()
			if n == 0 {
				continue
			}
			var be, bl bytes.Buffer
			e1 := fe.CopySampleData(&be, nil, trak, 1, n, nil)
			e2 := fl.CopySampleData(&bl, bytes.NewReader(d), trak, 1, n, make([]byte, 7))
			if e1 != nil || e2 != nil || !bytes.Equal(be.Bytes(), bl.Bytes()) {
				return fmt.Sprintf("CopySampleData differs for track %d (%v, %v)", trak.Tkhd.TrackID, e1, e2)
			}
		}
	}
	_ = io.EOF
	return ""
}
