package main

// C06 / C07 — (1) HEVC access units with real, varied slice segment headers under cbcs and cenc, (2) sub-sample maps
// with clear-only and zero-clear entries, (3) samples with more than 65535 clear bytes before / between protected NAL
// units.
//
// (1) is the HEVC analogue of the generated-AVC family of c0607es.go: parameter sets and slice segment headers come from
// the independent HEVC serialiser of the C15 harness (c15_eshevc.go, written from ITU-T H.265, nothing of mp4ff in it).
// It draws picture sizes as multiples of the minimum coding block size, i.e. mostly NOT multiples of the CTB size, first
// and non-first slice segments (slice_segment_address present, ceil(log2(PicSizeInCtbsY)) bits), dependent and
// independent segments, and knows how many bytes of each NAL unit the slice segment header occupies. Under cbcs that is
// the clear part of the unit (ISO/IEC 23001-7 9.5), so the expected sub-sample map is known without the library's parser:
//   - function level: `cbcs.hevcranges <sps hex list> <pps hex list> <sample hex>` runs mp4.GetHEVCProtectRanges(...,
//     "cbcs") with parameter sets parsed as InitProtect's protect function parses them; the Lean driver answers with
//     Model/Cenc.lean protectRanges fed by the slice header model Model/HevcSlice.lean; direct oracle checkCbcsShape;
//   - fragment level: tracks whose init is built through SetHEVCDescriptor from the generated sets go through fragCase.
//
// (2) CryptSampleCenc / EncryptSampleCbcs take the sub-sample map as given: maps with entries without protected bytes
// (what AppendProtectRange writes when a clear run exceeds the 16-bit BytesOfClearData field) at every position, entries
// without clear bytes, protected sizes that are not multiples of 16 — against the independent reference and the model.
//
// (3) a non-video NAL unit (SEI) of about 64 KiB / 128 KiB and more is inserted before the first or between the NAL units
// of a sample: function level (ranges, shape, cipher vs reference and model) and fragment level (EncryptFragment ->
// senc read back -> reference cipher -> decrypt).

import (
	"bytes"
	"encoding/binary"
	"fmt"
	"math/rand"
	"strings"

	"github.com/Eyevinn/mp4ff/mp4"
)

type hesTrack struct {
	spss     []*hevcSPSInfo
	ppss     []*hevcPPSInfo
	vpsN     [][]byte
	spsN     [][]byte
	ppsN     [][]byte
	spsByID  map[uint32]*hevcSPSInfo
	hdrSizes map[string]int // slice NAL unit bytes -> bytes occupied by its slice segment header (serialiser's count)
}

func genHesTrack(r *rand.Rand, modest bool) *hesTrack {
	t := &hesTrack{spsByID: map[uint32]*hevcSPSInfo{}, hdrSizes: map[string]int{}}
	for _, id := range distinctIDs(r, 1+r.Intn(2), 15) {
		s := genHEVCSPSOpt(r, esOpt{ID: id, Modest: modest})
		t.spss = append(t.spss, s)
		t.spsN = append(t.spsN, s.NALU)
		t.spsByID[s.ID] = s
	}
	for _, id := range distinctIDs(r, 1+r.Intn(3), 63) {
		p := genHEVCPPSOpt(r, t.spss[r.Intn(len(t.spss))], esOpt{ID: id, Modest: modest})
		t.ppss = append(t.ppss, p)
		t.ppsN = append(t.ppsN, p.NALU)
	}
	t.vpsN = nalList(genHEVCVPS(r, t.spss[0]))
	return t
}

// slice: one slice segment NAL unit (types 0..9, 16..21) from the serialiser, extended with non-zero slice data to at
// least `want` bytes: first / non-first segments, dependent segments, I/P/B, coded and referenced reference picture sets,
// long-term pictures, list modification, weighted prediction, entry points, header extension.
func (t *hesTrack) slice(r *rand.Rand, want int) []byte {
	p := t.ppss[r.Intn(len(t.ppss))]
	sl := genHEVCSlice(r, t.spsByID[p.SPSID], p)
	n := sl.NALU
	for len(n) < want {
		n = append(n, byte(1+r.Intn(255)))
	}
	t.hdrSizes[string(n)] = sl.Size
	return n
}

func (t *hesTrack) hdrOf(nalu []byte) int {
	if h, ok := t.hdrSizes[string(nalu)]; ok {
		return h
	}
	return -1
}

func hevcNonVideoNALU(r *rand.Rand, typ byte, size int) []byte {
	if size < 2 {
		size = 2
	}
	n := make([]byte, size)
	for i := range n {
		n[i] = byte(1 + r.Intn(255))
	}
	n[0], n[1] = typ<<1, 1
	return n
}

// sample: an access unit: optional access unit delimiter, in-band parameter sets, prefix SEI; nSlices slice segments
// whose sizes straddle the property's size classes; optional suffix SEI / end-of-sequence.
func (t *hesTrack) sample(r *rand.Rand, nSlices int) []byte {
	var nalus [][]byte
	if r.Intn(2) == 0 {
		nalus = append(nalus, []byte{35 << 1, 1, byte(0x10 | r.Intn(3)<<5)})
	}
	if r.Intn(5) == 0 {
		nalus = append(nalus, t.vpsN[0], t.spsN[r.Intn(len(t.spsN))], t.ppsN[r.Intn(len(t.ppsN))])
	}
	if r.Intn(3) == 0 {
		nalus = append(nalus, hevcNonVideoNALU(r, 39, 3+r.Intn(60)))
	}
	targets := []int{0, 0, 20, 60, 100, 108, 112, 120, 126, 127, 128, 129, 140, 200, 400, 1000}
	for i := 0; i < nSlices; i++ {
		want := targets[r.Intn(len(targets))]
		if r.Intn(40) == 0 {
			want = 3000 + r.Intn(3000)
		}
		nalus = append(nalus, t.slice(r, want))
	}
	switch r.Intn(6) {
	case 0:
		nalus = append(nalus, hevcNonVideoNALU(r, 40, 3+r.Intn(30)))
	case 1:
		nalus = append(nalus, []byte{36 << 1, 1})
	}
	return lenPrefix(nalus...)
}

// execCbcsHevcRanges: a = [sps hex list, pps hex list, sample hex]
func execCbcsHevcRanges(a []string) string {
	if len(a) != 3 {
		return "bad-op"
	}
	spsN, err1 := unhxList(a[0])
	ppsN, err2 := unhxList(a[1])
	s, err3 := unhx(a[2])
	if err1 != nil || err2 != nil || err3 != nil {
		return "bad-op"
	}
	spsMap, ppsMap, err := esHEVCMaps(spsN, ppsN) // as mp4.InitProtect's protect function builds them (getHEVCPSMaps)
	if err != nil {
		return "err"
	}
	r, err := mp4.GetHEVCProtectRanges(spsMap, ppsMap, s, "cbcs")
	if err != nil {
		return "err"
	}
	return showRanges(r)
}

// genCbcsHevcRanges: function-level cases of the cbcs range computation on generated HEVC access units
func genCbcsHevcRanges(c *Ctx, which string) {
	var t *hesTrack
	for it := 0; it < c.N(300, 5000); it++ {
		if it%4 == 0 {
			t = genHesTrack(c.R, c.R.Intn(4) > 0)
		}
		s := t.sample(c.R, 1+c.R.Intn(4))
		req := fmt.Sprintf("cbcs.hevcranges %s %s %s", hxList(t.spsN), hxList(t.ppsN), hx(s))
		ans := execCrypto(req)
		c.Case(req, ans)
		c.Eval(req)
		c.Count("ranges.hevc.cbcs")
		if which != "C07" {
			continue
		}
		if ans == "err" || strings.HasPrefix(ans, "panic") || strings.HasPrefix(ans, "bad") {
			c.Fail("C07-ranges-error", "protect ranges of a well-formed sample fail", req, ans, "")
			continue
		}
		checkCbcsShape(c, "hevc", s, parseRanges(ans), t.hdrOf, req)
	}
}

// hesClearSource: a clear HEVC track for fragCase: init segment built through the API from generated parameter sets
func hesClearSource(c *Ctx, nSamples int) *clearSource {
	for try := 0; try < 8; try++ {
		t := genHesTrack(c.R, true)
		init := mp4.CreateEmptyInit()
		init.AddEmptyTrack(90000, "video", "und")
		entry := []string{"hvc1", "hev1"}[c.R.Intn(2)]
		if err := init.Moov.Trak.SetHEVCDescriptor(entry, t.vpsN, t.spsN, t.ppsN, nil, true); err != nil {
			continue
		}
		var buf bytes.Buffer
		if err := init.Encode(&buf); err != nil {
			continue
		}
		cs := &clearSource{name: "generated HEVC elementary stream", codec: "hevc", init: buf.Bytes(), hdrOf: t.hdrOf}
		for i := 0; i < nSamples; i++ {
			d := t.sample(c.R, 1+c.R.Intn(4))
			flags := uint32(mp4.NonSyncSampleFlags)
			if i == 0 {
				flags = mp4.SyncSampleFlags
			}
			cs.samples = append(cs.samples, mp4.FullSample{
				Sample: mp4.Sample{Flags: flags, Dur: uint32(1000 + c.R.Intn(3000)), Size: uint32(len(d)), CompositionTimeOffset: int32(c.R.Intn(3) * 1500)},
				Data:   d})
		}
		return cs
	}
	return nil
}

// ---------------------------------------------------------------- hand-made sub-sample maps

// genSubSampleMaps: maps of 1..8 entries partitioning a small sample: entries without protected bytes at every position
// (first, middle, last, several in a row), entries without clear bytes, clear counts at the 16-bit limit now and then.
func genSubSampleMaps(c *Ctx, which string, key []byte) {
	for it := 0; it < c.N(200, 5000); it++ {
		n := 1 + c.R.Intn(8)
		var rs []mp4.SubSamplePattern
		total := 0
		anyProt := false
		for i := 0; i < n; i++ {
			cl := []int{1, 2, 4, 5, 15, 16, 17, 31, 40, 100}[c.R.Intn(10)]
			if c.R.Intn(60) == 0 {
				cl = 65535
			}
			pr := []int{1, 7, 15, 16, 17, 31, 32, 33, 48, 64, 100}[c.R.Intn(11)]
			switch c.R.Intn(5) {
			case 0, 1: // clear-only entry
				pr = 0
			case 2: // no clear bytes
				cl = 0
			}
			if pr > 0 {
				anyProt = true
			}
			rs = append(rs, mp4.SubSamplePattern{BytesOfClearData: uint16(cl), BytesOfProtectedData: uint32(pr)})
			total += cl + pr
		}
		s := make([]byte, total)
		c.R.Read(s)
		iv := make([]byte, 16)
		c.R.Read(iv)
		if it%5 == 0 {
			for k := 8; k < 16; k++ {
				iv[k] = 0xff
			}
		}
		modelLine := total <= 2000 // the model answers the short ones; the long ones (a 65535-byte clear entry) go to the reference only
		emit := func(q string) string {
			r := execCrypto(q)
			if modelLine {
				c.Case(q, r)
			}
			return r
		}
		q := fmt.Sprintf("cenc.crypt %s %s %s %s", hx(key), hx(iv), showRanges(rs), hx(s))
		enc := emit(q)
		if which == "C07" {
			if ref := refCenc(s, key, iv, rs); enc != hx(ref) {
				c.Fail("C07-ctr-reference", "CryptSampleCenc output differs from an independent AES-CTR over the sub-sample map", clip(q), clip(enc), clip(hx(ref)))
			}
		}
		if which == "C06" {
			back := execCrypto(fmt.Sprintf("cenc.crypt %s %s %s %s", hx(key), hx(iv), showRanges(rs), enc))
			if back != hx(s) {
				c.Fail("C06-cenc-involution", "decrypting what CryptSampleCenc encrypted does not restore the sample", clip(q), clip(back), clip(hx(s)))
			}
		}
		key2 := ""
		if anyProt {
			key2 = q
		}
		c.Eval(key2)
		c.Count("submap.cenc")
		if it%3 == 0 {
			qe := fmt.Sprintf("cbcs.crypt e %s %s 16 144 %s %s", hx(key), hx(iv), showRanges(rs), hx(s))
			e2 := emit(qe)
			if which == "C07" {
				if ref := refCbcs(s, key, iv, rs, 1, 9); e2 != hx(ref) {
					c.Fail("C07-cbc-reference", "cbcs output differs from an independent AES-CBC pattern implementation", clip(qe), clip(e2), clip(hx(ref)))
				}
			}
			if which == "C06" {
				back := execCrypto(fmt.Sprintf("cbcs.crypt d %s %s 16 144 %s %s", hx(key), hx(iv), showRanges(rs), e2))
				if back != hx(s) {
					c.Fail("C06-cbcs-roundtrip", "cbcs decrypt(encrypt(x)) != x", clip(qe), clip(back), clip(hx(s)))
				}
			}
			c.Eval(key2)
			c.Count("submap.cbcs")
		}
	}
}

// ---------------------------------------------------------------- more than 65535 clear bytes in a row

// insertBigNonVideo puts an SEI NAL unit of about 64 KiB, 128 KiB or something in between before one of the NAL units
// of a sample with 4-byte length fields (before the first one or between two), so that the clear run in front of the
// next protected range needs more than one sub-sample entry.
func insertBigNonVideo(r *rand.Rand, codec string, s []byte) []byte {
	var starts []int
	pos := 0
	for pos+4 <= len(s) {
		n := int(binary.BigEndian.Uint32(s[pos:]))
		if pos+4+n > len(s) {
			break
		}
		starts = append(starts, pos)
		pos += 4 + n
	}
	at := 0
	if len(starts) > 0 {
		at = starts[r.Intn(len(starts))]
	}
	size := []int{65300 + r.Intn(400), 66000 + r.Intn(70000), 130900 + r.Intn(400)}[r.Intn(3)]
	var big []byte
	if codec == "hevc" {
		big = hevcNonVideoNALU(r, 39, size)
	} else {
		big = nonVideoNALU(r, 6, size)
	}
	out := append([]byte{}, s[:at]...)
	out = append(out, lenPrefix(big)...)
	return append(out, s[at:]...)
}

func bigKey(req string) string { // identity of a case with a large sample: not the whole hex
	if len(req) > 3000 {
		return req[:1500] + req[len(req)-1500:]
	}
	return req
}

// genBigClear: function level
func genBigClear(c *Ctx, which string, key []byte) {
	for it := 0; it < c.N(4, 60); it++ {
		iv := make([]byte, 16)
		c.R.Read(iv)
		var s []byte
		var rs, req string
		var hdrOf func([]byte) int
		codec := []string{"avc", "hevc"}[it%2]
		scheme := []string{"cenc", "cbcs"}[it/2%2]
		switch {
		case scheme == "cenc":
			t := genEsTrack(c.R, true)
			s = t.sample(c.R, 1+c.R.Intn(3), 130)
			if codec == "hevc" {
				ht := genHesTrack(c.R, true)
				s = lenPrefix(ht.slice(c.R, 130+c.R.Intn(300)), ht.slice(c.R, c.R.Intn(300)), ht.slice(c.R, 130+c.R.Intn(300)))
			}
			s = insertBigNonVideo(c.R, codec, s)
			req = "cenc.ranges " + codec + " " + hx(s)
		case codec == "avc":
			t := genEsTrack(c.R, true)
			ss, ps := t.infos()
			s = insertBigNonVideo(c.R, codec, t.sample(c.R, 1+c.R.Intn(3), 130))
			hdrOf = t.hdrOf
			req = fmt.Sprintf("cbcs.avcranges %s %s %s %s %s", ss, ps, hxList(t.spsN), hxList(t.ppsN), hx(s))
		default:
			t := genHesTrack(c.R, true)
			s = lenPrefix(t.slice(c.R, 130+c.R.Intn(300)), t.slice(c.R, c.R.Intn(300)), t.slice(c.R, 130+c.R.Intn(300)))
			s = insertBigNonVideo(c.R, codec, s)
			hdrOf = t.hdrOf
			req = fmt.Sprintf("cbcs.hevcranges %s %s %s", hxList(t.spsN), hxList(t.ppsN), hx(s))
		}
		rs = execCrypto(req)
		c.Case(req, rs)
		c.Eval(bigKey(req))
		c.Count("bigclear." + codec + "." + scheme)
		if rs == "err" || strings.HasPrefix(rs, "panic") || strings.HasPrefix(rs, "bad") {
			if which == "C07" {
				c.Fail("C07-ranges-error", "protect ranges of a well-formed sample fail", clip(req), rs, "")
			}
			continue
		}
		ranges := parseRanges(rs)
		if which == "C07" {
			if scheme == "cenc" {
				checkRangesShape(c, codec, s, ranges, clip(req))
			} else {
				checkCbcsShape(c, codec, s, ranges, hdrOf, clip(req))
			}
		}
		if scheme == "cenc" {
			q := fmt.Sprintf("cenc.crypt %s %s %s %s", hx(key), hx(iv), rs, hx(s))
			enc := execCrypto(q)
			c.Case(q, enc)
			ref := refCenc(s, key, iv, ranges)
			if which == "C07" && enc != hx(ref) {
				c.Fail("C07-ctr-reference", "CryptSampleCenc output differs from an independent AES-CTR over the sub-sample map", clip(q), clip(enc), clip(hx(ref)))
			}
			if which == "C06" {
				if back := execCrypto(fmt.Sprintf("cenc.crypt %s %s %s %s", hx(key), hx(iv), rs, enc)); back != hx(s) {
					c.Fail("C06-cenc-involution", "decrypting what CryptSampleCenc encrypted does not restore the sample", clip(q), clip(back), clip(hx(s)))
				}
			}
		} else {
			q := fmt.Sprintf("cbcs.crypt e %s %s 16 144 %s %s", hx(key), hx(iv), rs, hx(s))
			enc := execCrypto(q)
			c.Case(q, enc)
			ref := refCbcs(s, key, iv, ranges, 1, 9)
			if which == "C07" && enc != hx(ref) {
				c.Fail("C07-cbc-reference", "cbcs output differs from an independent AES-CBC pattern implementation", clip(q), clip(enc), clip(hx(ref)))
			}
			if which == "C06" {
				if back := execCrypto(fmt.Sprintf("cbcs.crypt d %s %s 16 144 %s %s", hx(key), hx(iv), rs, enc)); back != hx(s) {
					c.Fail("C06-cbcs-roundtrip", "cbcs decrypt(encrypt(x)) != x", clip(q), clip(back), clip(hx(s)))
				}
			}
		}
		c.Eval("")
	}
}

// genBigClearFrags: fragment level: the first sample of every fragment gets the large SEI (fragCase, bigClear)
func genBigClearFrags(c *Ctx, which string, key []byte, srcs []*clearSource) {
	for it := 0; it < c.N(4, 40); it++ {
		var src *clearSource
		switch it % 4 {
		case 0:
			src = esClearSource(c, 6)
		case 1:
			src = hesClearSource(c, 6)
		default:
			for _, x := range srcs {
				if (it%4 == 2 && x.codec == "avc") || (it%4 == 3 && x.codec == "hevc") {
					cpy := *x
					src = &cpy
				}
			}
		}
		if src == nil {
			continue
		}
		src.bigClear = true
		scheme := []string{"cenc", "cbcs"}[c.R.Intn(2)]
		iv := make([]byte, []int{8, 16}[c.R.Intn(2)])
		c.R.Read(iv)
		fragCase(c, which, src, scheme, key, iv, 1+c.R.Intn(2), "", false)
		c.Count("bigclear.frag." + src.codec + "." + scheme)
	}
}
