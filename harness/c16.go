package main

// C16: untrusted elementary-stream bytes never crash or hang the codec helpers.
//
// Layout of this component
//   c16.go      registration, protocol, worker side (runs entry points, measures time + allocation)
//   c16_ops.go  the entry-point table (one op per exported entry point / cmd call sequence)
//   c16_pool.go parent side: pool of isolated worker child processes, death classification
//   c16_gen.go  input generators and the generator/oracle loop
//   c16_tool.go the built command-line tools (cmd/mp4ff-pslister, cmd/mp4ff-nallister) run as processes on parameter-set lists / access units
//
// Protocol line (all fields always present):
//   <op>        <p1> <p2> <ctx1hex> <ctx2hex> <datahex>      one entry point
//   bat <group> <p1> <p2> <ctx1hex> <ctx2hex> <datahex>      every entry point of the group on the same input
// Answer: "<op>:<result>" items joined by ";" where result is "ok ...", "err", "panic: ... @ site",
// optionally followed by " !mem" (allocation bound exceeded) and/or " !time" (time budget exceeded).
// In worker mode a tab and "alloc,micros" per op follow (used for calibration and failure texts).
//
// Because a fatal out-of-memory or an endless loop cannot be recovered, every line is executed in a
// child process: the harness binary re-executed with VERIF_WORKER=C16 and "-prop C16 -exec /dev/stdin",
// address space capped with RLIMIT_AS, killed after a timeout.

import (
	"fmt"
	"os"
	"runtime"
	"runtime/debug"
	"strconv"
	"strings"
	"sync"
	"syscall"
	"time"
)

// ---- oracle constants (calibrated, see REPORT.md) ----
const (
	// allocation bound: TotalAlloc delta of one entry-point call <= c16MemK*len + c16MemC
	c16MemK = 512
	c16MemC = 256 << 10
	// time budget of one entry-point call: c16TimeC + c16TimePerByte*len
	c16TimeC       = 100 * time.Millisecond
	c16TimePerByte = 4 * time.Microsecond
	// hard limits of a worker child
	c16WorkerHeap  = 1536 << 20 // RLIMIT_AS = VmSize at start + this
	c16KillTimeout = 3 * time.Second
)

func init() {
	props["C16"] = &propDef{
		rule: "cases = (entry point, byte string) pairs: every exported avc/hevc/sei/aac/av1 entry point that takes elementary-stream bytes (length-prefixed walkers, Annex B scanners, SPS/PPS/slice-header parsers, SEI extraction, every SEI message decoder with String/Payload/Size, ADTS/ASC, AVC/HEVC/AV1 configuration records, and the library call sequences of mp4ff-nallister/mp4ff-pslister on sample bytes) run on structured-hostile inputs: repo captures and generated well-formed streams mutated by truncation, bit/byte flips, length fields near 2^32, 0..3-byte samples, spliced huge Exp-Golomb codes, syntax-directed SPS/PPS/slice headers with hostile counts, SEI payloads shorter than their headers, zero clock timestamps, random bytes; each pair executed in an isolated child process; oracle: returns (value or error), no panic, time <= 100ms+4us/byte, allocation <= 512*len+256KiB (64 bytes per input bit); plus the built cmd/mp4ff-pslister binary run as a process on parameter-set lists from the C15 serialiser: scenarios {all valid, first/second SPS broken with/without a good one beside it, first/second PPS broken, VPS broken, all broken, PPS naming an absent or later SPS id, no SPS, only VPS, nothing, sets repeated after a slice, reversed, duplicated} x 12 ways of breaking a set (empty, short, header only, truncated, garbage, fill, huge ue(v), trailing bytes, bit flips, other NAL type, other body, other codec) x {avc, hevc} x input modes {-vps/-sps/-pps hex, Annex B file, mp4 init with avcC/hvcC, fragmented mp4, progressive mp4} x {-c avc, -c hevc, -v}; oracle: exit status 0 or 1 (no Go panic / fatal error / signal), no hang (4 s, 1s+4us/byte CPU), resident set <= 64MiB+1024*len; plus the built cmd/mp4ff-nallister binary on the same list shapes and breakages (and NAL units of 1..3 bytes), access units with generated / captured SEI NAL units with the unit at each position broken in turn, SEI-only streams x {avc, hevc} x {-annexb, fragmented mp4, progressive mp4; parameter sets in the samples only or also in avcC/hvcC; last length field too large; sample cut short} x every combination of -sei/-ps/-raw/-m x -c, same oracle; non-trivial = distinct (entry point, non-empty input)",
		gen:  genC16,
		exec: execC16,
	}
}

func c16IsWorker() bool { return os.Getenv("VERIF_WORKER") == "C16" }

var c16WorkerOnce sync.Once

func c16WorkerInit() {
	c16WorkerOnce.Do(func() {
		runtime.GOMAXPROCS(1)
		vm := uint64(2 << 30)
		if b, err := os.ReadFile("/proc/self/status"); err == nil {
			for _, l := range strings.Split(string(b), "\n") {
				if strings.HasPrefix(l, "VmSize:") {
					f := strings.Fields(l)
					if len(f) >= 2 {
						if kb, err := strconv.ParseUint(f[1], 10, 64); err == nil {
							vm = kb << 10
						}
					}
				}
			}
		}
		lim := syscall.Rlimit{Cur: vm + c16WorkerHeap, Max: vm + c16WorkerHeap}
		_ = syscall.Setrlimit(syscall.RLIMIT_AS, &lim)
		// warm-up: one-time lazy initialisation (encoding/json type caches, fmt, maps of the packages) must not
		// be charged to the first measured call
		for _, l := range c16WarmLines() {
			_ = c16RunLine(l)
		}
	})
}

// execC16 executes one protocol line. In a worker it runs the real code in-process; otherwise it
// forwards the line to a persistent isolated worker child so that replay survives fatal inputs.
func execC16(req string) string {
	if strings.TrimSpace(req) == "" {
		return ""
	}
	if ans, ok := execC16Model(req); ok {
		return ans
	}
	if strings.HasPrefix(req, "tool.") {
		return execC16Tool(req) // built command-line tool run as a process of its own (c16_tool.go)
	}
	if c16IsWorker() {
		c16WorkerInit()
		return c16RunLine(req)
	}
	r := c16ReplayRun(req)
	return r.canonical()
}

// ---- one input as seen by an op ----
type c16In struct {
	p1, p2     int
	ctx1, ctx2 []byte
	d          []byte
	ctx        *c16Ctx // lazily built parameter-set context (nalu groups)
}

func (x *c16In) n() int { return len(x.d) + len(x.ctx1) + len(x.ctx2) }

type c16Op struct {
	name  string
	group string
	run   func(x *c16In) string
}

var c16Ops []c16Op
var c16OpIdx = map[string]int{}
var c16Groups = map[string][]int{}

func c16Reg(group, name string, run func(x *c16In) string) {
	c16OpIdx[name] = len(c16Ops)
	c16Groups[group] = append(c16Groups[group], len(c16Ops))
	c16Ops = append(c16Ops, c16Op{name, group, run})
}

func c16Bound(n int) uint64         { return uint64(c16MemK)*uint64(n) + c16MemC }
func c16Budget(n int) time.Duration { return c16TimeC + time.Duration(n)*c16TimePerByte }

// c16RunOp runs one op with panic recovery and measures allocation and time.
func c16RunOp(op *c16Op, x *c16In) (res string, alloc uint64, dur time.Duration) {
	var ms runtime.MemStats
	one := func() (string, uint64, time.Duration) {
		var out string
		runtime.ReadMemStats(&ms)
		a0 := ms.TotalAlloc
		t0 := cpuNow()
		p := c16Safe(func() { out = op.run(x) })
		d := cpuNow() - t0
		runtime.ReadMemStats(&ms)
		a := ms.TotalAlloc - a0
		if p != "" {
			out = p
		}
		return out, a, d
	}
	res, alloc, dur = one()
	if alloc > c16Bound(x.n()) {
		res += " !mem"
	}
	if dur > c16Budget(x.n()) {
		res += " !time"
	}
	return
}

func c16ParseLine(req string) (ops []int, x *c16In, err error) {
	f := strings.Fields(req)
	if len(f) < 6 {
		return nil, nil, fmt.Errorf("short line")
	}
	if f[0] == "bat" {
		if len(f) != 7 {
			return nil, nil, fmt.Errorf("bad bat line")
		}
		// "group" or "group~i,j" (entry points i, j of the group are skipped)
		gname, skip := f[1], map[int]bool{}
		if k := strings.IndexByte(gname, '~'); k >= 0 {
			for _, t := range strings.Split(gname[k+1:], ",") {
				v, e := strconv.Atoi(t)
				if e != nil {
					return nil, nil, fmt.Errorf("bad skip list")
				}
				skip[v] = true
			}
			gname = gname[:k]
		}
		g, ok := c16Groups[gname]
		if !ok {
			return nil, nil, fmt.Errorf("unknown group")
		}
		for j, oi := range g {
			if !skip[j] {
				ops = append(ops, oi)
			}
		}
		f = f[2:]
	} else {
		if len(f) != 6 {
			return nil, nil, fmt.Errorf("bad line")
		}
		i, ok := c16OpIdx[f[0]]
		if !ok {
			return nil, nil, fmt.Errorf("unknown op")
		}
		ops = []int{i}
		f = f[1:]
	}
	x = &c16In{}
	x.p1, _ = strconv.Atoi(f[0])
	x.p2, _ = strconv.Atoi(f[1])
	if x.ctx1, err = unhx(f[2]); err != nil {
		return
	}
	if x.ctx2, err = unhx(f[3]); err != nil {
		return
	}
	if x.d, err = unhx(f[4]); err != nil {
		return
	}
	return
}

// c16RunLine: worker side. Returns canonical answer + "\t" + stats. Before each entry point a marker
// ("\x01<op index>\n") goes to stderr so that the parent knows which one was running when the worker died.
func c16RunLine(req string) string {
	ops, x, err := c16ParseLine(req)
	if err != nil {
		return "bad-line: " + err.Error()
	}
	var canon, stats []string
	if len(ops) > 0 && len(x.ctx1)+len(x.ctx2) > 0 {
		// parameter-set context of the nalu groups: built outside the measured calls (the same parameter sets
		// are inputs of their own parser entry points in separate lines)
		os.Stderr.WriteString("\x01ctx\n")
		switch c16Ops[ops[0]].group {
		case "nalu.avc":
			x.avcCtx()
		case "nalu.hevc":
			x.hevcCtx()
		}
	}
	for _, i := range ops {
		op := &c16Ops[i]
		os.Stderr.WriteString("\x01" + strconv.Itoa(i) + "\n")
		res, a, d := c16RunOp(op, x)
		canon = append(canon, op.name+":"+res)
		stats = append(stats, fmt.Sprintf("%d,%d", a, d.Microseconds()))
	}
	return strings.Join(canon, ";") + "\t" + strings.Join(stats, ";")
}

func c16Line(op string, p1, p2 int, ctx1, ctx2, d []byte) string {
	return fmt.Sprintf("%s %d %d %s %s %s", op, p1, p2, hx(ctx1), hx(ctx2), hx(d))
}

// c16Safe is safe() with a site that keeps method receivers: "sei.(*TimeCodeSEI).String sei136.go:143".
func c16Safe(f func()) (panicked string) {
	defer func() {
		if r := recover(); r != nil {
			msg := fmt.Sprint(r)
			if len(msg) > 200 {
				msg = msg[:200]
			}
			panicked = fmt.Sprintf("panic: %s @ %s", strings.ReplaceAll(strings.ReplaceAll(msg, "\n", " "), ";", ","), c16PanicSite(string(debug.Stack())))
		}
	}()
	f()
	return ""
}

func c16PanicSite(stack string) string {
	lines := strings.Split(stack, "\n")
	seen := false
	for i := 0; i+1 < len(lines); i++ {
		l := lines[i]
		if strings.HasPrefix(l, "panic(") {
			seen = true
			continue
		}
		if !seen || strings.HasPrefix(l, "\t") || !strings.Contains(l, "Eyevinn/mp4ff/") {
			continue
		}
		fn := l[strings.Index(l, "mp4ff/")+6:]
		if j := strings.LastIndex(fn, "("); j > 0 {
			fn = fn[:j]
		}
		loc := strings.TrimSpace(lines[i+1])
		if k := strings.LastIndex(loc, "/"); k >= 0 {
			loc = loc[k+1:]
		}
		if k := strings.Index(loc, " "); k >= 0 {
			loc = loc[:k]
		}
		return fn + " " + loc
	}
	return "?"
}
