package main

// C15 — parameter sets and slice headers parse to the values that were coded.
// Generators/serializers: c15_esgen.go (AVC), c15_eshevc.go (HEVC). This file: protocol ops on the real parsers,
// the canonical field dump (reflection over the parsed structs: every exported field), and the oracle.

import (
	"bytes"
	"fmt"
	"math/rand"
	"os"
	"reflect"
	"regexp"
	"sort"
	"strconv"
	"strings"

	"github.com/Eyevinn/mp4ff/avc"
	"github.com/Eyevinn/mp4ff/hevc"
	"github.com/Eyevinn/mp4ff/mp4"
)

func init() {
	props["C15"] = &propDef{
		rule: "cases = parameter sets and slice headers written by an independent serializer of ISO/IEC 14496-10 7.3.2.1/7.3.2.2/7.3.3 and ISO/IEC 23008-2 7.3.2.2/7.3.2.3/7.3.6 (own bit writer, ue/se, trailing bits, emulation prevention) from drawn field values: 1..3 SPS + 1..4 PPS per scenario with independent ids (pps id != sps id in most), 2..5 slice headers of all slice/NAL types; checks per NAL unit: every coded (or standard-inferred) field is reported with its value (all exported fields of the parsed structs are dumped by reflection), width/height equal the standard's cropping formula, slice Size equals the bytes of the NAL unit occupied by the header (NAL header and emulation prevention bytes included); per scenario: decoder configuration records (create, encode, decode), codec strings and the avc1/avc3/hvc1/hev1 sample entries carry profile, compatibility, level, chroma format, bit depths and the parameter set NAL units verbatim; non-trivial = distinct NAL unit",
		gen:  genC15,
		exec: execC15,
	}
}

// ---------------------------------------------------------------------------------------------------------------
// canonical dump of a parsed struct

func esScalarKind(k reflect.Kind) bool {
	switch k {
	case reflect.Bool, reflect.Int, reflect.Int8, reflect.Int16, reflect.Int32, reflect.Int64,
		reflect.Uint, reflect.Uint8, reflect.Uint16, reflect.Uint32, reflect.Uint64, reflect.String:
		return true
	}
	return false
}

func esScalar(v reflect.Value) string {
	switch v.Kind() {
	case reflect.Bool:
		if v.Bool() {
			return "true"
		}
		return "false"
	case reflect.Int, reflect.Int8, reflect.Int16, reflect.Int32, reflect.Int64:
		return strconv.FormatInt(v.Int(), 10)
	case reflect.Uint, reflect.Uint8, reflect.Uint16, reflect.Uint32, reflect.Uint64:
		return strconv.FormatUint(v.Uint(), 10)
	case reflect.String:
		return strings.ReplaceAll(v.String(), " ", "_")
	}
	return "?"
}

func esFlatten(prefix string, v reflect.Value, out *[]esKV) {
	add := func(k, val string) { *out = append(*out, esKV{K: k, V: val}) }
	switch v.Kind() {
	case reflect.Ptr:
		if v.IsNil() {
			add(prefix, "nil")
			return
		}
		esFlatten(prefix, v.Elem(), out)
	case reflect.Struct:
		t := v.Type()
		for i := 0; i < t.NumField(); i++ {
			f := t.Field(i)
			if f.PkgPath != "" { // unexported
				continue
			}
			name := f.Name
			if prefix != "" {
				name = prefix + "." + f.Name
			}
			esFlatten(name, v.Field(i), out)
		}
	case reflect.Slice:
		if esScalarKind(v.Type().Elem().Kind()) {
			s := make([]string, v.Len())
			for i := range s {
				s[i] = esScalar(v.Index(i))
			}
			add(prefix, "["+strings.Join(s, ",")+"]")
			return
		}
		add(prefix+".len", strconv.Itoa(v.Len()))
		for i := 0; i < v.Len(); i++ {
			esFlatten(fmt.Sprintf("%s[%d]", prefix, i), v.Index(i), out)
		}
	case reflect.Array:
		for i := 0; i < v.Len(); i++ {
			esFlatten(fmt.Sprintf("%s[%d]", prefix, i), v.Index(i), out)
		}
	case reflect.Map:
		add(prefix+".len", strconv.Itoa(v.Len()))
		keys := v.MapKeys()
		sort.Slice(keys, func(i, j int) bool { return fmt.Sprint(keys[i].Interface()) < fmt.Sprint(keys[j].Interface()) })
		for _, k := range keys {
			esFlatten(fmt.Sprintf("%s[%v]", prefix, k.Interface()), v.MapIndex(k), out)
		}
	default:
		if esScalarKind(v.Kind()) {
			add(prefix, esScalar(v))
		}
	}
}

func esDump(x interface{}, extra ...esKV) string {
	var kv []esKV
	esFlatten("", reflect.ValueOf(x), &kv)
	kv = append(kv, extra...)
	p := make([]string, len(kv))
	for i, e := range kv {
		p[i] = e.K + "=" + e.V
	}
	return "ok " + strings.Join(p, " ")
}

func esParseAnswer(ans string) (map[string]string, bool) {
	if !strings.HasPrefix(ans, "ok") {
		return nil, false
	}
	m := map[string]string{}
	for _, f := range strings.Fields(ans)[1:] {
		if i := strings.Index(f, "="); i > 0 {
			m[f[:i]] = f[i+1:]
		}
	}
	return m, true
}

// ---------------------------------------------------------------------------------------------------------------
// protocol ops

func hxList(l [][]byte) string {
	if len(l) == 0 {
		return "-"
	}
	s := make([]string, len(l))
	for i, b := range l {
		s[i] = hx(b)
	}
	return strings.Join(s, ",")
}

func unhxList(s string) ([][]byte, error) {
	if s == "-" {
		return nil, nil
	}
	var l [][]byte
	for _, p := range strings.Split(s, ",") {
		b, err := unhx(p)
		if err != nil {
			return nil, err
		}
		l = append(l, b)
	}
	return l, nil
}

func execC15(req string) (resp string) {
	a := strings.Fields(req)
	if len(a) == 0 {
		return "err empty request"
	}
	if p := safe(func() { resp = execC15Inner(a[0], a[1:]) }); p != "" {
		return p
	}
	return resp
}

func esAVCMaps(spsL, ppsL [][]byte) (map[uint32]*avc.SPS, map[uint32]*avc.PPS, error) {
	spsMap := map[uint32]*avc.SPS{}
	for i, n := range spsL {
		s, err := avc.ParseSPSNALUnit(n, true)
		if err != nil {
			return nil, nil, fmt.Errorf("sps %d: %v", i, err)
		}
		spsMap[s.ParameterID] = s
	}
	ppsMap := map[uint32]*avc.PPS{}
	for i, n := range ppsL {
		p, err := avc.ParsePPSNALUnit(n, spsMap)
		if err != nil {
			return nil, nil, fmt.Errorf("pps %d: %v", i, err)
		}
		ppsMap[p.PicParameterSetID] = p
	}
	return spsMap, ppsMap, nil
}

func esHEVCMaps(spsL, ppsL [][]byte) (map[uint32]*hevc.SPS, map[uint32]*hevc.PPS, error) {
	spsMap := map[uint32]*hevc.SPS{}
	for i, n := range spsL {
		s, err := hevc.ParseSPSNALUnit(n)
		if err != nil {
			return nil, nil, fmt.Errorf("sps %d: %v", i, err)
		}
		spsMap[uint32(s.SpsID)] = s
	}
	ppsMap := map[uint32]*hevc.PPS{}
	for i, n := range ppsL {
		p, err := hevc.ParsePPSNALUnit(n, spsMap)
		if err != nil {
			return nil, nil, fmt.Errorf("pps %d: %v", i, err)
		}
		ppsMap[p.PicParameterSetID] = p
	}
	return spsMap, ppsMap, nil
}

func errAns(err error) string { return "err " + strings.ReplaceAll(err.Error(), "\n", " ") }

// c15Sample implements the op `sample <kind> <tag|-> <seed>`: it draws up to 400 single-SPS/single-PPS cases of the kind
// (avcsps, avcpps, avcslice, hevcsps, hevcpps, hevcslice) from the seed and answers with the shortest replayable request
// whose generator tags contain the tag, followed by the generator's expectations. A debugging aid: it runs no parser.
func c15Sample(kind, tag string, seed int64) string {
	r := rand.New(rand.NewSource(seed))
	best, bestExp := "", []esKV(nil)
	has := func(tags []string) bool {
		if tag == "-" {
			return true
		}
		for _, t := range tags {
			if t == tag {
				return true
			}
		}
		return false
	}
	for i := 0; i < 400; i++ {
		var req string
		var exp []esKV
		var tags []string
		switch kind {
		case "avcsps", "avcpps", "avcslice":
			s := genAVCSPSOpt(r, esOpt{ID: -1})
			p := genAVCPPSOpt(r, s, esOpt{ID: -1})
			switch kind {
			case "avcsps":
				req, exp, tags = "avcsps "+hx(s.NALU), s.Exp, s.Tags
			case "avcpps":
				req, exp, tags = "avcpps "+hx(p.NALU)+" "+hx(s.NALU), p.Exp, p.Tags
			default:
				sl := genAVCSlice(r, s, p)
				req, tags = "avcslice "+hx(sl.NALU)+" "+hx(s.NALU)+" "+hx(p.NALU), sl.Tags
				exp = append(append([]esKV{}, sl.Exp...), esKV{K: "Size", V: fmt.Sprint(sl.Size)})
			}
		case "hevcsps", "hevcpps", "hevcslice":
			s := genHEVCSPSOpt(r, esOpt{ID: -1})
			p := genHEVCPPSOpt(r, s, esOpt{ID: -1})
			switch kind {
			case "hevcsps":
				req, exp, tags = "hevcsps "+hx(s.NALU), s.Exp, s.Tags
			case "hevcpps":
				req, exp, tags = "hevcpps "+hx(p.NALU)+" "+hx(s.NALU), p.Exp, p.Tags
			default:
				sl := genHEVCSlice(r, s, p)
				req, tags = "hevcslice "+hx(sl.NALU)+" "+hx(s.NALU)+" "+hx(p.NALU), sl.Tags
				exp = append(append([]esKV{}, sl.Exp...), esKV{K: "Size", V: fmt.Sprint(sl.Size)})
			}
		default:
			return "err unknown kind " + kind
		}
		if has(tags) && (best == "" || len(req) < len(best)) {
			best, bestExp = req, exp
		}
	}
	if best == "" {
		return "err no case with tag " + tag
	}
	p := make([]string, len(bestExp))
	for i, e := range bestExp {
		p[i] = e.K + "=" + e.V
	}
	return "ok " + best + " | expect " + strings.Join(p, " ")
}

var c15ModelCases int

func execC15Inner(op string, a []string) string {
	if op == "avcspsm" {
		if len(a) != 2 {
			return "err avcspsm needs <mode> <hex>"
		}
		b, err := unhx(a[1])
		if err != nil {
			return "err bad hex"
		}
		return avcSPSRecord(b)
	}
	if op == "sample" {
		if len(a) != 3 {
			return "err sample needs <kind> <tag|-> <seed>"
		}
		seed, _ := strconv.ParseInt(a[2], 10, 64)
		return c15Sample(a[0], a[1], seed)
	}
	need := map[string]int{"avcsps": 1, "avcpps": 2, "avcslice": 3, "hevcsps": 1, "hevcpps": 2, "hevcslice": 3,
		"avcconf": 2, "hevcconf": 3, "avctrak": 4, "hevctrak": 5}
	n, ok := need[op]
	if !ok {
		return "err unknown op " + op
	}
	if len(a) != n {
		return fmt.Sprintf("err %s needs %d arguments", op, n)
	}
	lists := make([][][]byte, len(a))
	for i, s := range a {
		if (op == "avctrak" || op == "hevctrak") && i < 2 {
			continue
		}
		l, err := unhxList(s)
		if err != nil {
			return "err bad hex"
		}
		lists[i] = l
	}
	one := func(i int) []byte {
		if len(lists[i]) == 0 {
			return []byte{}
		}
		return lists[i][0]
	}
	switch op {
	case "avcsps":
		s, err := avc.ParseSPSNALUnit(one(0), true)
		if err != nil {
			return errAns(err)
		}
		return esDump(s, esKV{K: "ChromaArrayType()", V: fmt.Sprint(s.ChromaArrayType())},
			esKV{K: "CpbDpbDelaysPresent()", V: fmt.Sprint(s.CpbDpbDelaysPresent())},
			esKV{K: "PicStructPresent()", V: fmt.Sprint(s.PicStructPresent())})
	case "avcpps":
		spsMap, _, err := esAVCMaps(lists[1], nil)
		if err != nil {
			return errAns(err)
		}
		p, err := avc.ParsePPSNALUnit(one(0), spsMap)
		if err != nil {
			return errAns(err)
		}
		return esDump(p)
	case "avcslice":
		spsMap, ppsMap, err := esAVCMaps(lists[1], lists[2])
		if err != nil {
			return errAns(err)
		}
		sh, err := avc.ParseSliceHeader(one(0), spsMap, ppsMap)
		if err != nil {
			return errAns(err)
		}
		st, err := avc.GetSliceTypeFromNALU(one(0))
		if err != nil {
			return errAns(fmt.Errorf("GetSliceTypeFromNALU: %v", err))
		}
		return esDump(sh, esKV{K: "GetSliceTypeFromNALU", V: fmt.Sprint(uint(st))})
	case "hevcsps":
		s, err := hevc.ParseSPSNALUnit(one(0))
		if err != nil {
			return errAns(err)
		}
		wd, ht := s.ImageSize()
		return esDump(s, esKV{K: "ImageSize.Width", V: fmt.Sprint(wd)}, esKV{K: "ImageSize.Height", V: fmt.Sprint(ht)})
	case "hevcpps":
		spsMap, _, err := esHEVCMaps(lists[1], nil)
		if err != nil {
			return errAns(err)
		}
		p, err := hevc.ParsePPSNALUnit(one(0), spsMap)
		if err != nil {
			return errAns(err)
		}
		return esDump(p)
	case "hevcslice":
		spsMap, ppsMap, err := esHEVCMaps(lists[1], lists[2])
		if err != nil {
			return errAns(err)
		}
		sh, err := hevc.ParseSliceHeader(one(0), spsMap, ppsMap)
		if err != nil {
			return errAns(err)
		}
		return esDump(sh)
	case "avcconf":
		// create with parameter sets, encode, decode; codec string of the first SPS
		rec, err := avc.CreateAVCDecConfRec(lists[0], lists[1], true)
		if err != nil {
			return errAns(err)
		}
		var buf bytes.Buffer
		if err := rec.Encode(&buf); err != nil {
			return errAns(fmt.Errorf("encode: %v", err))
		}
		dec, err := avc.DecodeAVCDecConfRec(buf.Bytes())
		if err != nil {
			return errAns(fmt.Errorf("decode: %v", err))
		}
		sps, err := avc.ParseSPSNALUnit(one(0), false)
		if err != nil {
			return errAns(err)
		}
		return "ok " + avcRecString("created", rec) + " " + avcRecString("decoded", &dec) +
			fmt.Sprintf(" encodedLen=%d sizeFn=%d codec=%s", buf.Len(), rec.Size(), avc.CodecString("avc1", sps))
	case "hevcconf":
		rec, err := hevc.CreateHEVCDecConfRec(lists[0], lists[1], lists[2], true, true, true, true)
		if err != nil {
			return errAns(err)
		}
		var buf bytes.Buffer
		if err := rec.Encode(&buf); err != nil {
			return errAns(fmt.Errorf("encode: %v", err))
		}
		dec, err := hevc.DecodeHEVCDecConfRec(buf.Bytes())
		if err != nil {
			return errAns(fmt.Errorf("decode: %v", err))
		}
		sps, err := hevc.ParseSPSNALUnit(one(1))
		if err != nil {
			return errAns(err)
		}
		return "ok " + hevcRecString("created", &rec) + " " + hevcRecString("decoded", &dec) +
			fmt.Sprintf(" encodedLen=%d sizeFn=%d codec=%s", buf.Len(), rec.Size(), hevc.CodecString("hvc1", sps))
	case "avctrak", "hevctrak":
		init := mp4.CreateEmptyInit()
		init.AddEmptyTrack(90000, "video", "und")
		trak := init.Moov.Trak
		var err error
		if op == "avctrak" {
			err = trak.SetAVCDescriptor(a[0], lists[2], lists[3], a[1] == "1")
		} else {
			err = trak.SetHEVCDescriptor(a[0], lists[2], lists[3], lists[4], nil, a[1] == "1")
		}
		if err != nil {
			return errAns(err)
		}
		var buf bytes.Buffer
		if err := init.Encode(&buf); err != nil {
			return errAns(fmt.Errorf("encode: %v", err))
		}
		f, err := mp4.DecodeFile(bytes.NewReader(buf.Bytes()))
		if err != nil {
			return errAns(fmt.Errorf("decode: %v", err))
		}
		t2 := f.Init.Moov.Trak
		stsd := t2.Mdia.Minf.Stbl.Stsd
		if op == "avctrak" {
			e := stsd.AvcX
			if e == nil || e.AvcC == nil {
				return "err no avcC after decode"
			}
			return fmt.Sprintf("ok entry=%s entryWidth=%d entryHeight=%d tkhdWidth=%d tkhdHeight=%d ", e.Type(), e.Width, e.Height,
				uint32(t2.Tkhd.Width), uint32(t2.Tkhd.Height)) + avcRecString("decoded", &e.AvcC.DecConfRec)
		}
		e := stsd.HvcX
		if e == nil || e.HvcC == nil {
			return "err no hvcC after decode"
		}
		return fmt.Sprintf("ok entry=%s entryWidth=%d entryHeight=%d tkhdWidth=%d tkhdHeight=%d ", e.Type(), e.Width, e.Height,
			uint32(t2.Tkhd.Width), uint32(t2.Tkhd.Height)) + hevcRecString("decoded", &e.HvcC.DecConfRec)
	}
	return "err unreachable"
}

func avcRecString(pfx string, r *avc.DecConfRec) string {
	return fmt.Sprintf("%[1]s.profile=%[2]d %[1]s.compat=%[3]d %[1]s.level=%[4]d %[1]s.chroma=%[5]d %[1]s.bitDepthLumaMinus8=%[6]d %[1]s.bitDepthChromaMinus8=%[7]d %[1]s.sps=%[8]s %[1]s.pps=%[9]s",
		pfx, r.AVCProfileIndication, r.ProfileCompatibility, r.AVCLevelIndication, r.ChromaFormat, r.BitDepthLumaMinus1,
		r.BitDepthChromaMinus1, hxList(r.SPSnalus), hxList(r.PPSnalus))
}

func hevcRecString(pfx string, r *hevc.DecConfRec) string {
	tier := 0
	if r.GeneralTierFlag {
		tier = 1
	}
	return fmt.Sprintf("%[1]s.space=%[2]d %[1]s.tier=%[3]d %[1]s.profile=%[4]d %[1]s.compat=%[5]d %[1]s.constraint=%[6]d %[1]s.level=%[7]d %[1]s.chroma=%[8]d %[1]s.bitDepthLumaMinus8=%[9]d %[1]s.bitDepthChromaMinus8=%[10]d %[1]s.vps=%[11]s %[1]s.sps=%[12]s %[1]s.pps=%[13]s",
		pfx, r.GeneralProfileSpace, tier, r.GeneralProfileIDC, r.GeneralProfileCompatibilityFlags, r.GeneralConstraintIndicatorFlags,
		r.GeneralLevelIDC, r.ChromaFormatIDC, r.BitDepthLumaMinus8, r.BitDepthChromaMinus8,
		hxList(r.GetNalusForType(hevc.NALU_VPS)), hxList(r.GetNalusForType(hevc.NALU_SPS)), hxList(r.GetNalusForType(hevc.NALU_PPS)))
}

// ---------------------------------------------------------------------------------------------------------------
// oracle

var esIdxRe = regexp.MustCompile(`\[[^\]]*\]`)

func esClass(k string) string { return esIdxRe.ReplaceAllString(k, "[]") }

func esErrClass(ans string) string {
	s := regexp.MustCompile(`[0-9]+`).ReplaceAllString(ans, "N")
	if len(s) > 90 {
		s = s[:90]
	}
	return s
}

// checkFields runs one parser op and compares every expectation. It returns false when anything failed.
func checkFields(c *Ctx, op, req string, exp []esKV) bool {
	ans := execC15(req)
	m, ok := esParseAnswer(ans)
	if !ok {
		if strings.HasPrefix(ans, "panic") {
			c15Fail(c, "C15-"+op+"-panic-"+ans[strings.LastIndex(ans, "@")+1:], "parser panics on a valid NAL unit", req, ans, "no panic")
		} else {
			c.Count("first-mismatch:" + op + ":" + esErrClass(ans))
			c15Fail(c, "C15-"+op+"-error-"+esErrClass(ans), "parser rejects a valid NAL unit", req, ans, "parsed fields")
		}
		return false
	}
	if esCoverage != nil {
		for k := range m {
			esCoverage[op+":"+esClass(k)] |= 1
		}
		for _, e := range exp {
			esCoverage[op+":"+esClass(e.K)] |= 2
		}
	}
	alts := map[string][]string{}
	for _, e := range exp {
		if e.Alt {
			alts[e.K] = append(alts[e.K], e.V)
		}
	}
	good := true
	seen := map[string]bool{}
	for _, e := range exp {
		got, present := m[e.K]
		if !present {
			got = "<absent>"
		}
		if e.Alt {
			if seen[e.K] {
				continue
			}
			seen[e.K] = true
			match := false
			for _, v := range alts[e.K] {
				if v == got {
					match = true
				}
			}
			if !match {
				if good {
					c.Count("first-mismatch:" + op + ":" + esClass(e.K))
				}
				good = false
				c15Fail(c, "C15-"+op+"-field-"+esClass(e.K), "field differs from every coded value", req, e.K+"="+got, e.K+" in "+strings.Join(alts[e.K], "|"))
			}
			continue
		}
		if got != e.V {
			if good {
				c.Count("first-mismatch:" + op + ":" + esClass(e.K))
			}
			good = false
			c15Fail(c, "C15-"+op+"-field-"+esClass(e.K), "field differs from the coded value", req, e.K+"="+got, e.K+"="+e.V)
		}
	}
	return good
}

func checkKV(c *Ctx, op, req string, m map[string]string, k, want string) {
	if got := m[k]; got != want {
		c15Fail(c, "C15-"+op+"-"+k, "record/descriptor does not carry the value of the parameter set", req, k+"="+got, k+"="+want)
	}
}

func countTags(c *Ctx, pfx string, tags []string) {
	for _, t := range tags {
		c.Count(pfx + ":" + t)
	}
}

func nalList(l ...[]byte) [][]byte { return l }

// distinctIDs draws n distinct ids from [0,max].
func distinctIDs(r *rand.Rand, n int, max int) []int {
	seen := map[int]bool{}
	var out []int
	for len(out) < n {
		var v int
		if r.Intn(3) == 0 {
			v = r.Intn(max + 1)
		} else {
			v = r.Intn(minInt(max, 5) + 1)
		}
		if !seen[v] {
			seen[v] = true
			out = append(out, v)
		}
	}
	return out
}

// c15Fail records the failure and remembers the shortest failing request of each fingerprint (reported as a note).
type c15Short struct{ req, impl, expected string }

var c15Shortest = map[string]c15Short{}

func c15Fail(c *Ctx, fp, what, req, impl, expected string) {
	c.Fail(fp, what, req, impl, expected)
	if old, ok := c15Shortest[fp]; !ok || len(req) < len(old.req) {
		c15Shortest[fp] = c15Short{req, impl, expected}
	}
}

// esCoverage (debug, C15_COVERAGE=1): bit 0 = field class dumped by a parser op, bit 1 = field class expected by the oracle.
var esCoverage map[string]int

func genC15(c *Ctx) {
	if os.Getenv("C15_COVERAGE") != "" {
		esCoverage = map[string]int{}
	}
	n := c.N(20000, 150000)
	for i := 0; i < n; i++ {
		c15AVCScenario(c)
		c15HEVCScenario(c)
	}
	for fp, sh := range c15Shortest {
		c.Note(fmt.Sprintf("shortest failing request of %s: %s => %s (expected %s)", fp, sh.req, sh.impl, sh.expected))
	}
	if esCoverage != nil {
		var never []string
		for k, v := range esCoverage {
			if v == 1 {
				never = append(never, k)
			}
		}
		sort.Strings(never)
		c.Note("fields dumped but never expected (not coded in any generated case, or not part of the syntax): " + strings.Join(never, " "))
	}
}

func c15AVCScenario(c *Ctx) {
	r := c.R
	nSPS, nPPS := 1+r.Intn(3), 1+r.Intn(4)
	var spss []*avcSPSInfo
	var spsN [][]byte
	modest := r.Intn(10) == 0 // the variant offered to other harness files
	if modest {
		c.Count("avc-scenario:modest-option")
	}
	for _, id := range distinctIDs(r, nSPS, 31) {
		s := genAVCSPSOpt(r, esOpt{ID: id, Modest: modest})
		spss = append(spss, s)
		spsN = append(spsN, s.NALU)
	}
	var ppss []*avcPPSInfo
	var ppsN [][]byte
	for _, id := range distinctIDs(r, nPPS, 255) {
		p := genAVCPPSOpt(r, spss[r.Intn(len(spss))], esOpt{ID: id, Modest: modest})
		ppss = append(ppss, p)
		ppsN = append(ppsN, p.NALU)
	}
	byID := map[uint32]*avcSPSInfo{}
	for _, s := range spss {
		byID[s.ID] = s
	}
	for _, s := range spss {
		if c15ModelCases < c.N(6000, 40000) {
			c15ModelCases++
			avcSPSModelCases(c, r, s.NALU)
		}
		req := "avcsps " + hx(s.NALU)
		c.Eval(req)
		c.Count("avc-sps")
		countTags(c, "avc-sps", s.Tags)
		c.Count(fmt.Sprintf("avc-sps:profile-%d", s.Profile))
		c.Count(fmt.Sprintf("avc-sps:chroma-%d", s.ChromaFormatIDC))
		checkFields(c, "avcsps", req, s.Exp)
		c.Sample(req)
	}
	for _, p := range ppss {
		avcPPSModelCases(c, r, p.NALU, spsN)
		req := "avcpps " + hx(p.NALU) + " " + hxList(spsN)
		c.Eval(req)
		c.Count("avc-pps")
		countTags(c, "avc-pps", p.Tags)
		if p.ID == p.SPSID {
			c.Count("avc-pps:pps-id-equals-sps-id")
		} else {
			c.Count("avc-pps:pps-id-differs-from-sps-id")
		}
		checkFields(c, "avcpps", req, p.Exp)
	}
	for k := 2 + r.Intn(4); k > 0; k-- {
		p := ppss[r.Intn(len(ppss))]
		s := byID[p.SPSID]
		sl := genAVCSlice(r, s, p)
		avcSliceModelCases(c, r, sl.NALU, spsN, ppsN)
		req := "avcslice " + hx(sl.NALU) + " " + hxList(spsN) + " " + hxList(ppsN)
		c.Eval("avcslice " + hx(sl.NALU))
		c.Count("avc-slice")
		countTags(c, "avc-slice", sl.Tags)
		if _, clash := byID[p.ID]; clash && p.ID != p.SPSID {
			c.Count("avc-slice:another-sps-has-the-pps-id")
		}
		exp := append(append([]esKV{}, sl.Exp...), esKV{K: "Size", V: fmt.Sprint(sl.Size)})
		for _, e := range sl.Exp {
			if e.K == "SliceType" {
				st, _ := strconv.Atoi(e.V)
				exp = append(exp, esKV{K: "GetSliceTypeFromNALU", V: fmt.Sprint(st % 5)})
			}
		}
		checkFields(c, "avcslice", req, exp)
	}
	// configuration record, codec string, sample entry: first SPS drives
	s0 := spss[0]
	req := "avcconf " + hxList(spsN) + " " + hxList(ppsN)
	c.Eval(req)
	c.Count("avc-conf")
	ans := execC15(req)
	if m, ok := esParseAnswer(ans); !ok {
		c15Fail(c, "C15-avcconf-error-"+esErrClass(ans), "configuration record cannot be built from valid parameter sets", req, ans, "record")
	} else {
		for _, pfx := range []string{"created", "decoded"} {
			checkKV(c, "avcconf", req, m, pfx+".profile", fmt.Sprint(s0.Profile))
			checkKV(c, "avcconf", req, m, pfx+".compat", fmt.Sprint(s0.Compat))
			checkKV(c, "avcconf", req, m, pfx+".level", fmt.Sprint(s0.Level))
			checkKV(c, "avcconf", req, m, pfx+".sps", hxList(spsN))
			checkKV(c, "avcconf", req, m, pfx+".pps", hxList(ppsN))
			if s0.High { // the record has the fields only for these profiles (14496-15 5.3.3.1.2)
				checkKV(c, "avcconf", req, m, pfx+".chroma", fmt.Sprint(s0.ChromaFormatIDC))
				checkKV(c, "avcconf", req, m, pfx+".bitDepthLumaMinus8", fmt.Sprint(s0.BitDepthLumaM8))
				checkKV(c, "avcconf", req, m, pfx+".bitDepthChromaMinus8", fmt.Sprint(s0.BitDepthChromaM8))
			}
		}
		checkKV(c, "avcconf", req, m, "encodedLen", m["sizeFn"])
		checkKV(c, "avcconf", req, m, "codec", fmt.Sprintf("avc1.%02X%02X%02X", s0.Profile, s0.Compat, s0.Level))
	}
	if s0.Width < 65536 && s0.Height < 65536 {
		entry := []string{"avc1", "avc3"}[r.Intn(2)]
		incl := entry == "avc1" || r.Intn(2) == 0
		req := fmt.Sprintf("avctrak %s %s %s %s", entry, b01(incl), hxList(spsN), hxList(ppsN))
		c.Eval(req)
		c.Count("avc-trak:" + entry + "-includePS-" + b01(incl))
		ans := execC15(req)
		if m, ok := esParseAnswer(ans); !ok {
			c15Fail(c, "C15-avctrak-error-"+esErrClass(ans), "sample entry cannot be built from valid parameter sets", req, ans, "sample entry")
		} else {
			checkKV(c, "avctrak", req, m, "entry", entry)
			checkKV(c, "avctrak", req, m, "entryWidth", fmt.Sprint(s0.Width))
			checkKV(c, "avctrak", req, m, "entryHeight", fmt.Sprint(s0.Height))
			checkKV(c, "avctrak", req, m, "tkhdWidth", fmt.Sprint(s0.Width<<16))
			checkKV(c, "avctrak", req, m, "tkhdHeight", fmt.Sprint(s0.Height<<16))
			checkKV(c, "avctrak", req, m, "decoded.profile", fmt.Sprint(s0.Profile))
			checkKV(c, "avctrak", req, m, "decoded.compat", fmt.Sprint(s0.Compat))
			checkKV(c, "avctrak", req, m, "decoded.level", fmt.Sprint(s0.Level))
			if incl {
				checkKV(c, "avctrak", req, m, "decoded.sps", hxList(spsN))
				checkKV(c, "avctrak", req, m, "decoded.pps", hxList(ppsN))
			}
			if s0.High {
				checkKV(c, "avctrak", req, m, "decoded.chroma", fmt.Sprint(s0.ChromaFormatIDC))
				checkKV(c, "avctrak", req, m, "decoded.bitDepthLumaMinus8", fmt.Sprint(s0.BitDepthLumaM8))
				checkKV(c, "avctrak", req, m, "decoded.bitDepthChromaMinus8", fmt.Sprint(s0.BitDepthChromaM8))
			}
		}
	}
}

// checkHEVCCodec parses a codec string per ISO/IEC 14496-15 Annex E and compares its parts with the coded values
// (trailing zero constraint bytes may be omitted, so the string is parsed rather than compared literally).
func checkHEVCCodec(c *Ctx, req, codec string, t hevcPTLInfo) {
	fail := func(what string) {
		c15Fail(c, "C15-hevcconf-codec-"+what, "codec string does not carry the "+what+" of the SPS", req, codec,
			fmt.Sprintf("space=%d profile=%d compat=%08x(reversed in the string) tier=%v level=%d constraint=%012x", t.Space, t.IDC, t.Compat, t.Tier, t.Level, t.Constraint))
	}
	p := strings.Split(codec, ".")
	if len(p) < 4 || len(p) > 10 || p[0] != "hvc1" {
		fail("form")
		return
	}
	prof := p[1]
	space := uint64(0)
	if len(prof) > 0 && prof[0] >= 'A' && prof[0] <= 'C' {
		space = uint64(prof[0]-'A') + 1
		prof = prof[1:]
	}
	if v, err := strconv.ParseUint(prof, 10, 8); err != nil || v != t.IDC || space != t.Space {
		fail("profile")
	}
	// general_profile_compatibility_flags in reverse bit order: flag[0] is the least significant bit of the hex number
	rev := uint64(0)
	for i := 0; i < 32; i++ {
		if t.Compat>>uint(31-i)&1 == 1 {
			rev |= 1 << uint(i)
		}
	}
	if v, err := strconv.ParseUint(p[2], 16, 32); err != nil || v != rev {
		fail("compatibility")
	}
	lvl := p[3]
	if len(lvl) < 2 || (lvl[0] != 'L' && lvl[0] != 'H') || (lvl[0] == 'H') != t.Tier {
		fail("tier")
	} else if v, err := strconv.ParseUint(lvl[1:], 10, 8); err != nil || v != t.Level {
		fail("level")
	}
	var cons uint64
	for i := 0; i < 6; i++ {
		b := uint64(0)
		if 4+i < len(p) {
			v, err := strconv.ParseUint(p[4+i], 16, 8)
			if err != nil {
				fail("constraint")
				return
			}
			b = v
		}
		cons = cons<<8 | b
	}
	if cons != t.Constraint {
		fail("constraint")
	}
}

func c15HEVCScenario(c *Ctx) {
	r := c.R
	nSPS, nPPS := 1+r.Intn(3), 1+r.Intn(4)
	var spss []*hevcSPSInfo
	var spsN [][]byte
	modest := r.Intn(10) == 0
	if modest {
		c.Count("hevc-scenario:modest-option")
	}
	for _, id := range distinctIDs(r, nSPS, 15) {
		s := genHEVCSPSOpt(r, esOpt{ID: id, Modest: modest})
		spss = append(spss, s)
		spsN = append(spsN, s.NALU)
	}
	var ppss []*hevcPPSInfo
	var ppsN [][]byte
	for _, id := range distinctIDs(r, nPPS, 63) {
		p := genHEVCPPSOpt(r, spss[r.Intn(len(spss))], esOpt{ID: id, Modest: modest})
		ppss = append(ppss, p)
		ppsN = append(ppsN, p.NALU)
	}
	byID := map[uint32]*hevcSPSInfo{}
	for _, s := range spss {
		byID[s.ID] = s
	}
	for _, s := range spss {
		hevcSPSModelCases(c, r, s.NALU)
		req := "hevcsps " + hx(s.NALU)
		c.Eval(req)
		c.Count("hevc-sps")
		countTags(c, "hevc-sps", s.Tags)
		c.Count(fmt.Sprintf("hevc-sps:chroma-%d", s.ChromaFormatIDC))
		c.Count(fmt.Sprintf("hevc-sps:sub-layers-%d", s.MaxSubLayersM1+1))
		checkFields(c, "hevcsps", req, s.Exp)
	}
	for _, p := range ppss {
		hevcPPSModelCases(c, r, p.NALU, spsN)
		req := "hevcpps " + hx(p.NALU) + " " + hxList(spsN)
		c.Eval(req)
		c.Count("hevc-pps")
		countTags(c, "hevc-pps", p.Tags)
		if p.ID == p.SPSID {
			c.Count("hevc-pps:pps-id-equals-sps-id")
		} else {
			c.Count("hevc-pps:pps-id-differs-from-sps-id")
		}
		checkFields(c, "hevcpps", req, p.Exp)
	}
	for k := 2 + r.Intn(4); k > 0; k-- {
		p := ppss[r.Intn(len(ppss))]
		s := byID[p.SPSID]
		sl := genHEVCSlice(r, s, p)
		hevcSliceModelCases(c, r, sl.NALU, spsN, ppsN)
		req := "hevcslice " + hx(sl.NALU) + " " + hxList(spsN) + " " + hxList(ppsN)
		c.Eval("hevcslice " + hx(sl.NALU))
		c.Count("hevc-slice")
		countTags(c, "hevc-slice", sl.Tags)
		exp := append(append([]esKV{}, sl.Exp...), esKV{K: "Size", V: fmt.Sprint(sl.Size)})
		checkFields(c, "hevcslice", req, exp)
	}
	s0 := spss[0]
	vps := genHEVCVPS(r, s0)
	vpsN := nalList(vps)
	req := "hevcconf " + hxList(vpsN) + " " + hxList(spsN) + " " + hxList(ppsN)
	c.Eval(req)
	c.Count("hevc-conf")
	depthsFit := s0.BitDepthLumaM8 <= 7 && s0.BitDepthChromaM8 <= 7 // the record has 3 bits for each (14496-15 8.3.3.1.2)
	ans := execC15(req)
	recChecks := func(op string, m map[string]string, pfx string, withPS bool) {
		tier := "0"
		if s0.PTL.Tier {
			tier = "1"
		}
		checkKV(c, op, req, m, pfx+".space", fmt.Sprint(s0.PTL.Space))
		checkKV(c, op, req, m, pfx+".tier", tier)
		checkKV(c, op, req, m, pfx+".profile", fmt.Sprint(s0.PTL.IDC))
		checkKV(c, op, req, m, pfx+".compat", fmt.Sprint(s0.PTL.Compat))
		checkKV(c, op, req, m, pfx+".constraint", fmt.Sprint(s0.PTL.Constraint))
		checkKV(c, op, req, m, pfx+".level", fmt.Sprint(s0.PTL.Level))
		checkKV(c, op, req, m, pfx+".chroma", fmt.Sprint(s0.ChromaFormatIDC))
		if depthsFit || pfx == "created" {
			checkKV(c, op, req, m, pfx+".bitDepthLumaMinus8", fmt.Sprint(s0.BitDepthLumaM8))
			checkKV(c, op, req, m, pfx+".bitDepthChromaMinus8", fmt.Sprint(s0.BitDepthChromaM8))
		}
		if withPS {
			checkKV(c, op, req, m, pfx+".vps", hxList(vpsN))
			checkKV(c, op, req, m, pfx+".sps", hxList(spsN))
			checkKV(c, op, req, m, pfx+".pps", hxList(ppsN))
		}
	}
	if m, ok := esParseAnswer(ans); !ok {
		c15Fail(c, "C15-hevcconf-error-"+esErrClass(ans), "configuration record cannot be built from valid parameter sets", req, ans, "record")
	} else {
		recChecks("hevcconf", m, "created", true)
		recChecks("hevcconf", m, "decoded", true)
		checkKV(c, "hevcconf", req, m, "encodedLen", m["sizeFn"])
		checkHEVCCodec(c, req, m["codec"], s0.PTL)
	}
	if s0.Width < 65536 && s0.Height < 65536 {
		entry := []string{"hvc1", "hev1"}[r.Intn(2)]
		incl := entry == "hvc1" || r.Intn(2) == 0
		req = fmt.Sprintf("hevctrak %s %s %s %s %s", entry, b01(incl), hxList(vpsN), hxList(spsN), hxList(ppsN))
		c.Eval(req)
		c.Count("hevc-trak:" + entry + "-includePS-" + b01(incl))
		ans := execC15(req)
		if m, ok := esParseAnswer(ans); !ok {
			c15Fail(c, "C15-hevctrak-error-"+esErrClass(ans), "sample entry cannot be built from valid parameter sets", req, ans, "sample entry")
		} else {
			checkKV(c, "hevctrak", req, m, "entry", entry)
			checkKV(c, "hevctrak", req, m, "entryWidth", fmt.Sprint(s0.Width))
			checkKV(c, "hevctrak", req, m, "entryHeight", fmt.Sprint(s0.Height))
			checkKV(c, "hevctrak", req, m, "tkhdWidth", fmt.Sprint(s0.Width<<16))
			checkKV(c, "hevctrak", req, m, "tkhdHeight", fmt.Sprint(s0.Height<<16))
			recChecks("hevctrak", m, "decoded", incl)
		}
	}
}
