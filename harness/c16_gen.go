package main

// C16 generator + oracle loop (parent side).

import (
	"bytes"
	"crypto/sha256"
	"encoding/binary"
	"encoding/hex"
	"fmt"
	"math/rand"
	"os"
	"sort"
	"strconv"
	"strings"

	"github.com/Eyevinn/mp4ff/aac"
	"github.com/Eyevinn/mp4ff/mp4"
)

// ---------------------------------------------------------------- corpus of well-formed material

type c16Corpus struct {
	avcNalus, hevcNalus       [][]byte // all NAL units (slices cut to 160 bytes)
	avcSps, avcPps            [][]byte
	avcSei, hevcSei           [][]byte
	avcSlices, hevcSlices     [][]byte
	hevcVps, hevcSps, hevcPps [][]byte
	avcSamples, hevcSamples   [][]byte // length-prefixed samples from repo segments
	annexbAvc, annexbHevc     [][]byte // whole Annex B files
	avcC, hvcC, av1C          [][]byte
	seiPayloads               []c16SeiPl
}

type c16SeiPl struct {
	typ int
	pl  []byte
}

func c16Hex(s string) []byte {
	b, err := hex.DecodeString(s)
	if err != nil {
		panic(err)
	}
	return b
}

// parameter sets and SEI NAL units taken from the unit tests of the avc, hevc and sei packages
var c16KnownAvc = []string{
	"6764001eacd940a02ff9610000030001000003003c8f162d96",
	"6764002aac2cac0780227e5c04f000003e90001d4c0e6a000337ec001bcef5ef80f8442370",
	"67640020accac05005bb0169e0000003002000000c9c4c000432380008647c12401cb1c31380",
	"6764000dacd941419f9e10000003001000000303c0f1429960",
	"27640020ac2ec05005bb011000000300100000078e840016e300005b8d8bdef83b438627",
	"68ebecb22c", "68e84332c8b0",
	"06010e0000030000030000030002120806ff0b80",
	"25888040ffde08e47a7bff05ab",
	"419a6649e10f2653022fff8700000302c8a32d32",
	"0600078b71b0000003004080", "0605ff" + "ff" + "0a" + strings.Repeat("ab", 16) + strings.Repeat("cd", 40),
}

var c16KnownHevc = []string{
	"40010c01ffff016000000300900000030000030078959809",
	"420101016000000300900000030000030078a00502016965959a4932bc05a80808082000000300200000030321",
	"4401c172b46240", "4401c0f7c0cc90", "4401c1ac9383b240",
	"420101016000000300b0000003000003007ba003c08010e59447924525ac041400000300040000030067c36bdcf50007a12000f42640",
	"420101016000000300900000030000030078a0021c801e0596566924caf01680800001f480003a9804",
	"420101014000000300400000030000030078a003c080221f7a3ee46c1bdf4f60280d00000303e80000c350601def7e00028b1c001443c8",
	"4e0101071000001a0000030180",
	"420101022000000300b0000003000003007ba0078200887db6718b92448053888892cf24a69272c9124922dc91aa48fca223ff000100016a02020201",
	"420101022000000300b0000003000003009ca001e020021c4d8815ee4595602d4244024020",
	"42010101400000030000030000030000030096a001e02002207c4e5ad290964b8c0404000003000400000300658017794400014fb1000004c4b3c40" + "0",
	"40010c01ffff090040000003000c000003000078ac09",
	"420101090040000003000c00000300007890007810021cff2d7248db3db643cd81000843",
	"4e01891800000300000300000300000300000300000300000300000300000300000300000300009004000003000080",
	"4e01" + "0434b500314741393403cefffc9420fc94aefc9162fce56efc67bafc91b9fcb0b0fcbab0fcb0bafcb031fcbab0fcb080fc942cfc942f80",
	"4e01" + "0001c001061b0509b8000080",
	"4e01" + "010f00011a00000300090c2e268a000003004080",
	"4e01" + "000a8000000300403dc017a6900105040000be05880660404198b41080",
}

func c16SplitAnnexB(d []byte) [][]byte {
	var out [][]byte
	start := -1
	for i := 0; i+2 < len(d); i++ {
		if d[i] == 0 && d[i+1] == 0 && d[i+2] == 1 {
			if start >= 0 {
				e := i
				for e > start && d[e-1] == 0 {
					e--
				}
				out = append(out, cp(d[start:e]))
			}
			start = i + 3
			i += 2
		}
	}
	if start >= 0 && start <= len(d) {
		out = append(out, cp(d[start:]))
	}
	return out
}

func c16SplitSample(d []byte) [][]byte {
	var out [][]byte
	p := 0
	for p+4 <= len(d) {
		l := int(binary.BigEndian.Uint32(d[p:]))
		p += 4
		if l < 0 || p+l > len(d) {
			break
		}
		out = append(out, cp(d[p:p+l]))
		p += l
	}
	return out
}

func c16Cut(b []byte, n int) []byte {
	if len(b) > n {
		return cp(b[:n])
	}
	return b
}

func (k *c16Corpus) addAvc(n []byte) {
	if len(n) == 0 {
		return
	}
	t := int(n[0] & 0x1f)
	switch {
	case t == 7:
		k.avcSps = append(k.avcSps, n)
	case t == 8:
		k.avcPps = append(k.avcPps, n)
	case t == 6:
		k.avcSei = append(k.avcSei, c16Cut(n, 400))
	case t <= 5:
		k.avcSlices = append(k.avcSlices, c16Cut(n, 160))
	}
	k.avcNalus = append(k.avcNalus, c16Cut(n, 160))
}

func (k *c16Corpus) addHevc(n []byte) {
	if len(n) < 2 {
		return
	}
	t := int(n[0]>>1) & 0x3f
	switch {
	case t == 32:
		k.hevcVps = append(k.hevcVps, n)
	case t == 33:
		k.hevcSps = append(k.hevcSps, n)
	case t == 34:
		k.hevcPps = append(k.hevcPps, n)
	case t == 39 || t == 40:
		k.hevcSei = append(k.hevcSei, c16Cut(n, 400))
	case t <= 31:
		k.hevcSlices = append(k.hevcSlices, c16Cut(n, 160))
	}
	k.hevcNalus = append(k.hevcNalus, c16Cut(n, 160))
}

func c16LoadCorpus() *c16Corpus {
	k := &c16Corpus{}
	for _, h := range c16KnownAvc {
		k.addAvc(c16Hex(h))
	}
	for _, h := range c16KnownHevc {
		k.addHevc(c16Hex(h))
	}
	for _, f := range []string{"avc/testdata/blackframe.264", "avc/testdata/two-frames.264", "cmd/mp4ff-nallister/testdata/4pics.264"} {
		if d, err := os.ReadFile(repoPath(f)); err == nil {
			k.annexbAvc = append(k.annexbAvc, d)
			for _, n := range c16SplitAnnexB(d) {
				k.addAvc(n)
			}
		}
	}
	for _, f := range []string{"hevc/testdata/blackframe.265", "cmd/mp4ff-nallister/testdata/hevc.265"} {
		if d, err := os.ReadFile(repoPath(f)); err == nil {
			k.annexbHevc = append(k.annexbHevc, d)
			for _, n := range c16SplitAnnexB(d) {
				k.addHevc(n)
			}
		}
	}
	for _, cs := range loadClearSources() {
		if cs.codec != "avc" && cs.codec != "hevc" {
			continue
		}
		if f, err := mp4.DecodeFile(bytes.NewReader(cs.init)); err == nil && f.Init != nil && f.Init.Moov != nil && f.Init.Moov.Trak != nil {
			stsd := f.Init.Moov.Trak.Mdia.Minf.Stbl.Stsd
			if stsd.AvcX != nil && stsd.AvcX.AvcC != nil {
				var b bytes.Buffer
				if stsd.AvcX.AvcC.DecConfRec.Encode(&b) == nil {
					k.avcC = append(k.avcC, b.Bytes())
				}
				for _, n := range stsd.AvcX.AvcC.SPSnalus {
					k.addAvc(cp(n))
				}
				for _, n := range stsd.AvcX.AvcC.PPSnalus {
					k.addAvc(cp(n))
				}
			}
			if stsd.HvcX != nil && stsd.HvcX.HvcC != nil {
				var b bytes.Buffer
				if stsd.HvcX.HvcC.DecConfRec.Encode(&b) == nil {
					k.hvcC = append(k.hvcC, b.Bytes())
				}
				for _, a := range stsd.HvcX.HvcC.NaluArrays {
					for _, n := range a.Nalus {
						k.addHevc(cp(n))
					}
				}
			}
		}
		for i, s := range cs.samples {
			if i >= 12 {
				break
			}
			if cs.codec == "avc" {
				k.avcSamples = append(k.avcSamples, s.Data)
				for _, n := range c16SplitSample(s.Data) {
					k.addAvc(n)
				}
			} else {
				k.hevcSamples = append(k.hevcSamples, s.Data)
				for _, n := range c16SplitSample(s.Data) {
					k.addHevc(n)
				}
			}
		}
	}
	k.avcC = append(k.avcC, c16Hex("0164001effe100196764001eacd940a02ff9610000030001000003003c8f162d9601000568ebecb22cfdf8f800"))
	k.av1C = append(k.av1C, c16Hex("81094c000a0b0000004aabbfc377ffe701"), c16Hex("81094c00"))
	// SEI payloads (type, rbsp payload) from the sei tests
	for _, x := range []struct {
		t int
		h string
	}{
		{1, "0000000000000002120811" + "4de1"}, {1, "00000008000000021208313de1"}, {1, "0000000c000000021208313de1"},
		{136, "60404198b410"}, {136, "40"}, {137, "11223344556677889900aabbccddeeff0011223344556677"},
		{144, "03e803e8"}, {4, "b500314741393403cefffc9420fc94aefc9162fce56efc67bafc91b9fcb0b0fcbab0fcb0bafcb031fcbab0fcb080fc942cfc942f"},
		{5, "dc45e9bde6d948b7962cd820d923eeef" + "78323634202d20636f7265"}, {0, "c001061b0509b8"}, {1, "1a000003"},
	} {
		k.seiPayloads = append(k.seiPayloads, c16SeiPl{x.t, c16Hex(x.h)})
	}
	return k
}

// ---------------------------------------------------------------- generic mutators

var c16U32 = []uint32{0, 1, 2, 3, 4, 5, 0x7f, 0xff, 0x100, 0xffff, 0x10000, 0x7ffffffb, 0x7ffffffc, 0x7fffffff, 0x80000000, 0x80000001,
	0xfffffff0, 0xfffffff7, 0xfffffff8, 0xfffffff9, 0xfffffffa, 0xfffffffb, 0xfffffffc, 0xfffffffd, 0xfffffffe, 0xffffffff}

type c16G struct {
	r     *rand.Rand
	k     *c16Corpus
	extra []c16Case // cases derived from other cases (context parameter sets as inputs of their own)
}

func (g *c16G) pick(l [][]byte) []byte {
	if len(l) == 0 {
		return nil
	}
	return cp(l[g.r.Intn(len(l))])
}

func (g *c16G) randBytes(n int) []byte {
	b := make([]byte, n)
	switch g.r.Intn(4) {
	case 0:
		g.r.Read(b)
	case 1: // zero-heavy
		for i := range b {
			b[i] = []byte{0, 0, 0, 1, 1, 2, 3, 0x80, 0xff, byte(g.r.Intn(256))}[g.r.Intn(10)]
		}
	case 2: // ff-heavy
		for i := range b {
			b[i] = []byte{0xff, 0xff, 0xff, 0xfe, 0, 0x7f, byte(g.r.Intn(256))}[g.r.Intn(7)]
		}
	default:
		g.r.Read(b)
		for i := range b {
			if g.r.Intn(3) == 0 {
				b[i] = 0
			}
		}
	}
	return b
}

// spliceUE inserts a hostile Exp-Golomb code at a random bit position >= fromBit; the remaining original
// bits follow it (or are dropped / replaced).
func (g *c16G) spliceUE(d []byte, fromBit int) []byte {
	nb := len(d) * 8
	if nb <= fromBit {
		return d
	}
	pos := fromBit + g.r.Intn(nb-fromBit)
	w := &c16BW{}
	for i := 0; i < pos; i++ {
		w.bit(uint64(d[i/8]>>uint(7-i%8)) & 1)
	}
	s := &c16Syn{r: g.r, w: w}
	s.hugeUE()
	switch g.r.Intn(3) {
	case 0:
		for i := pos; i < nb; i++ {
			w.bit(uint64(d[i/8]>>uint(7-i%8)) & 1)
		}
	case 1:
		for i, n := 0, g.r.Intn(64); i < n; i++ {
			w.bit(uint64(g.r.Intn(2)))
		}
	}
	return w.bytes()
}

// mutate applies 1..3 generic mutations; hdr = number of leading bytes usually kept intact
func (g *c16G) mutate(d []byte, hdr int) ([]byte, string) {
	d = cp(d)
	kind := ""
	for it, n := 0, 1+g.r.Intn(3); it < n; it++ {
		m := g.r.Intn(12)
		switch m {
		case 0: // truncate
			if len(d) > 0 {
				d = d[:g.r.Intn(len(d))]
			}
			kind += "trunc,"
		case 1: // truncate to a tiny size
			if k := g.r.Intn(5); len(d) > k {
				d = d[:k]
			}
			kind += "tiny,"
		case 2: // bit flips
			for i, f := 0, 1+g.r.Intn(4); i < f && len(d) > 0; i++ {
				p := g.r.Intn(len(d) * 8)
				if p/8 < hdr && g.r.Intn(4) != 0 {
					continue
				}
				d[p/8] ^= 1 << uint(p%8)
			}
			kind += "bitflip,"
		case 3: // byte overwrite
			for i, f := 0, 1+g.r.Intn(3); i < f && len(d) > hdr; i++ {
				d[hdr+g.r.Intn(len(d)-hdr)] = []byte{0, 0xff, 0x80, 1, 3, byte(g.r.Intn(256))}[g.r.Intn(6)]
			}
			kind += "byteset,"
		case 4: // insert run
			if len(d) >= hdr {
				p := hdr
				if len(d) > hdr {
					p += g.r.Intn(len(d) - hdr + 1)
				}
				fill := []byte{0, 0xff, 0xaa}[g.r.Intn(3)]
				run := bytes.Repeat([]byte{fill}, 1+g.r.Intn(40))
				d = append(d[:p], append(run, d[p:]...)...)
			}
			kind += "run,"
		case 5: // overwrite 4 bytes with a hostile u32
			if len(d) >= 4 {
				p := g.r.Intn(len(d) - 3)
				binary.BigEndian.PutUint32(d[p:], c16U32[g.r.Intn(len(c16U32))])
			}
			kind += "u32,"
		case 6, 7: // splice hostile Exp-Golomb code
			d = g.spliceUE(d, hdr*8)
			kind += "ue,"
		case 8: // random tail
			d = append(d, g.randBytes(g.r.Intn(32))...)
			kind += "tail,"
		case 9: // duplicate a region
			if len(d) > 2 {
				a := g.r.Intn(len(d))
				b := a + g.r.Intn(len(d)-a)
				d = append(d[:b], append(cp(d[a:b]), d[b:]...)...)
			}
			kind += "dup,"
		case 10: // zero tail (the accumulated-error reader yields zeros: make them real)
			d = append(d, make([]byte, g.r.Intn(64))...)
			kind += "zerotail,"
		case 11: // drop a region
			if len(d) > hdr+1 {
				a := hdr + g.r.Intn(len(d)-hdr)
				b := a + g.r.Intn(len(d)-a)
				d = append(d[:a], d[b:]...)
			}
			kind += "drop,"
		}
	}
	return d, strings.TrimSuffix(kind, ",")
}

// inflate makes a large input (64 KiB .. 256 KiB) out of d
func (g *c16G) inflate(d []byte) []byte {
	target := 16<<10 + g.r.Intn(240<<10)
	if len(d) == 0 {
		d = []byte{0}
	}
	out := make([]byte, 0, target)
	switch g.r.Intn(4) {
	case 0: // repeat
		for len(out) < target {
			out = append(out, d...)
		}
	case 1: // d + zeros
		out = append(out, d...)
		out = append(out, make([]byte, target-len(out)+1)...)
	case 2: // d + ones (every bit a complete Exp-Golomb code / set flag: the densest stream of syntax elements)
		out = append(out, d...)
		out = append(out, bytes.Repeat([]byte{0xff}, target-len(out)+1)...)
	default: // d + random
		out = append(out, d...)
		out = append(out, g.randBytes(target)...)
	}
	return out
}

// ---------------------------------------------------------------- group-specific builders

type c16Case struct {
	group      string
	kind       string
	p1, p2     int
	ctx1, ctx2 []byte
	d          []byte
}

func c16LenPrefixed(nalus [][]byte) []byte {
	var b []byte
	for _, n := range nalus {
		var l [4]byte
		binary.BigEndian.PutUint32(l[:], uint32(len(n)))
		b = append(b, l[:]...)
		b = append(b, n...)
	}
	return b
}

func (g *c16G) naluList(codec string) [][]byte {
	n := 1 + g.r.Intn(5)
	var l [][]byte
	for i := 0; i < n; i++ {
		var x []byte
		if g.r.Intn(3) == 0 {
			// generated unit (c14 generator): any type, emulation-free
			if codec == "avc" {
				x = genNalu(&Ctx{R: g.r}, "avc", g.r.Intn(32), 1+g.r.Intn(40))
			} else {
				x = genNalu(&Ctx{R: g.r}, "hevc", g.r.Intn(64), 2+g.r.Intn(40))
			}
		} else if codec == "avc" {
			x = g.pick(g.k.avcNalus)
		} else {
			x = g.pick(g.k.hevcNalus)
		}
		l = append(l, x)
	}
	return l
}

func (g *c16G) probeType(codec string) int {
	if codec == "avc" {
		return []int{1, 5, 6, 7, 8, 9, 0, 31, g.r.Intn(32)}[g.r.Intn(9)]
	}
	return []int{0, 1, 19, 20, 21, 32, 33, 34, 35, 39, 40, 63, g.r.Intn(64)}[g.r.Intn(13)]
}

// sample: length-prefixed NAL unit lists with hostile length fields
func (g *c16G) genSample() c16Case {
	codec := []string{"avc", "hevc"}[g.r.Intn(2)]
	c := c16Case{group: "sample", p1: g.probeType(codec)}
	switch k := g.r.Intn(20); {
	case k == 0: // tiny: 0..7 bytes
		c.d = g.randBytes(g.r.Intn(8))
		c.kind = "tiny"
	case k == 1: // random
		c.d = g.randBytes(g.r.Intn(200))
		c.kind = "random"
	case k == 2: // repo sample, generic mutation
		if codec == "avc" {
			c.d = g.pick(g.k.avcSamples)
		} else {
			c.d = g.pick(g.k.hevcSamples)
		}
		if len(c.d) > 3000 {
			c.d = c.d[:3000]
		}
		c.d, c.kind = g.mutate(c.d, 0)
		c.kind = "repo:" + c.kind
	case k == 3: // valid
		c.d = c16LenPrefixed(g.naluList(codec))
		c.kind = "valid"
	default: // valid list, one or more length fields made hostile
		l := g.naluList(codec)
		d := c16LenPrefixed(l)
		// positions of the length fields
		var pos []int
		p := 0
		for _, n := range l {
			pos = append(pos, p)
			p += 4 + len(n)
		}
		for i, nmut := 0, 1+g.r.Intn(2); i < nmut; i++ {
			at := pos[g.r.Intn(len(pos))]
			var v uint32
			switch g.r.Intn(6) {
			case 0:
				v = c16U32[g.r.Intn(len(c16U32))]
			case 1: // exact wrap: pos+4+v == small value mod 2^32
				v = uint32(g.r.Intn(12)) - uint32(at+4)
			case 2: // wrap back to an earlier position (cycle)
				back := 0
				if at > 0 {
					back = g.r.Intn(at + 1)
				}
				v = uint32(back) - uint32(at+4)
			case 3: // just beyond / at the end of the sample
				v = uint32(len(d) - at - 4 + g.r.Intn(6) - 2)
			case 4: // 2^32 - small
				v = uint32(0) - uint32(1+g.r.Intn(16))
			default: // ends inside the next length field
				v = binary.BigEndian.Uint32(d[at:]) + uint32(g.r.Intn(7)) - 3
			}
			binary.BigEndian.PutUint32(d[at:], v)
		}
		c.kind = "lenfield"
		if g.r.Intn(4) == 0 {
			d = d[:g.r.Intn(len(d)+1)]
			c.kind += "+trunc"
		}
		if g.r.Intn(6) == 0 {
			d = append(d, g.randBytes(g.r.Intn(6))...)
			c.kind += "+tail"
		}
		c.d = d
	}
	return c
}

// annexb: start-code streams
func (g *c16G) genAnnexB() c16Case {
	codec := []string{"avc", "hevc"}[g.r.Intn(2)]
	c := c16Case{group: "annexb", p1: g.probeType(codec), p2: g.r.Intn(2)}
	build := func(l [][]byte) []byte {
		var b []byte
		if g.r.Intn(4) == 0 {
			b = append(b, make([]byte, g.r.Intn(5))...)
		}
		for _, n := range l {
			if g.r.Intn(2) == 0 {
				b = append(b, 0)
			}
			b = append(b, 0, 0, 1)
			b = append(b, n...)
			if g.r.Intn(5) == 0 {
				b = append(b, make([]byte, g.r.Intn(4))...)
			}
		}
		return b
	}
	switch k := g.r.Intn(12); {
	case k == 0:
		c.d = g.randBytes(g.r.Intn(8))
		c.kind = "tiny"
	case k == 1:
		c.d = g.randBytes(g.r.Intn(300))
		c.kind = "random"
	case k == 2: // only start codes and zeros
		n := g.r.Intn(40)
		for i := 0; i < n; i++ {
			c.d = append(c.d, []byte{0, 0, 0, 1, 1, 0, 0, 0, 2, 3}[g.r.Intn(10)])
		}
		c.kind = "startcodes"
	case k == 3: // stream ending in a start code (with 0..2 bytes after it)
		c.d = build(g.naluList(codec))
		c.d = append(c.d, 0, 0, 1)
		c.d = append(c.d, g.randBytes(g.r.Intn(3))...)
		c.kind = "endsc"
	case k == 4: // empty NAL units
		l := g.naluList(codec)
		l[g.r.Intn(len(l))] = nil
		c.d = build(l)
		c.kind = "emptynalu"
	case k == 5: // repo file prefix, mutated
		if codec == "avc" {
			c.d = g.pick(g.k.annexbAvc)
		} else {
			c.d = g.pick(g.k.annexbHevc)
		}
		if len(c.d) > 2000 {
			c.d = c.d[:2000]
		}
		c.d, c.kind = g.mutate(c.d, 0)
		c.kind = "repo:" + c.kind
	case k == 6:
		c.d = build(g.naluList(codec))
		c.kind = "valid"
	default:
		c.d, c.kind = g.mutate(build(g.naluList(codec)), 0)
		c.kind = "mut:" + c.kind
	}
	return c
}

// one NAL unit + parameter-set context
func (g *c16G) genNaluAvc() c16Case {
	c := c16Case{group: "nalu.avc"}
	c.ctx1 = g.pick(g.k.avcSps)
	c.ctx2 = g.pick(g.k.avcPps)
	how := g.r.Intn(4)
	switch k := g.r.Intn(20); {
	case k == 0:
		c.d = g.randBytes(g.r.Intn(4))
		c.kind = "tiny"
	case k == 1:
		c.d = g.randBytes(g.r.Intn(120))
		if len(c.d) > 0 && g.r.Intn(2) == 0 {
			c.d[0] = []byte{0x67, 0x68, 0x65, 0x41, 0x06, 0x21}[g.r.Intn(6)]
		}
		c.kind = "random"
	case k <= 4: // corpus unit, mutated
		c.d = g.pick(g.k.avcNalus)
		if g.r.Intn(2) == 0 {
			c.d = g.pick([][][]byte{g.k.avcSps, g.k.avcPps, g.k.avcSei, g.k.avcSlices}[g.r.Intn(4)])
		}
		if g.r.Intn(6) != 0 {
			c.d, c.kind = g.mutate(c.d, 1)
		}
		c.kind = "corpus:" + c.kind
	case k <= 8: // syntax-directed SPS
		host := g.r.Intn(4) != 0
		c.d, _ = c16AvcSPS(g.r, host, how)
		c.kind = "syn.sps" + c16Hk(host)
	case k <= 12: // syntax-directed PPS (context: generated benign SPS)
		sps, si := c16AvcSPS(g.r, false, 0)
		host := g.r.Intn(4) != 0
		c.ctx1 = sps
		c.d, _ = c16AvcPPS(g.r, host, how, si.id, si.chromaArray == 3)
		c.kind = "syn.pps" + c16Hk(host)
	case k <= 17: // syntax-directed slice header with generated context; the hostile part is in one of the three
		which := g.r.Intn(4) // 0 none, 1 sps, 2 pps, 3 slice
		sps, si := c16AvcSPS(g.r, which == 1, 0)
		pps, pi := c16AvcPPS(g.r, which == 2, 0, si.id, si.chromaArray == 3)
		c.ctx1, c.ctx2 = sps, pps
		c.d = c16AvcSlice(g.r, which == 3, how, si, pi)
		c.kind = "syn.slice." + []string{"benign", "hostile-sps", "hostile-pps", "hostile-slice"}[which]
		g.extra = append(g.extra, c16Case{group: "nalu.avc", kind: "syn.slice-context-sps", d: sps},
			c16Case{group: "nalu.avc", kind: "syn.slice-context-pps", ctx1: sps, d: pps})
	default: // SEI NAL unit built from messages
		c.d = append([]byte{0x06}, g.seiRbsp()...)
		c.kind = "syn.sei"
		if g.r.Intn(2) == 0 {
			sps, _ := c16AvcSPS(g.r, false, 0)
			c.ctx1 = sps
		}
	}
	if g.r.Intn(60) == 0 {
		c.d = g.inflate(c.d)
		c.kind += "+large"
	}
	return c
}

func c16Hk(h bool) string {
	if h {
		return ".hostile"
	}
	return ".benign"
}

func (g *c16G) genNaluHevc() c16Case {
	c := c16Case{group: "nalu.hevc"}
	c.ctx1 = g.pick(g.k.hevcSps)
	c.ctx2 = g.pick(g.k.hevcPps)
	how := g.r.Intn(4)
	switch k := g.r.Intn(20); {
	case k == 0:
		c.d = g.randBytes(g.r.Intn(4))
		c.kind = "tiny"
	case k == 1:
		c.d = g.randBytes(g.r.Intn(120))
		if len(c.d) > 0 && g.r.Intn(2) == 0 {
			c.d[0] = []byte{0x42, 0x44, 0x26, 0x02, 0x4e, 0x50, 0x40}[g.r.Intn(7)]
		}
		c.kind = "random"
	case k <= 4:
		c.d = g.pick(g.k.hevcNalus)
		if g.r.Intn(2) == 0 {
			c.d = g.pick([][][]byte{g.k.hevcSps, g.k.hevcPps, g.k.hevcSei, g.k.hevcSlices}[g.r.Intn(4)])
		}
		if g.r.Intn(6) != 0 {
			c.d, c.kind = g.mutate(c.d, 2)
		}
		c.kind = "corpus:" + c.kind
	case k <= 8:
		host := g.r.Intn(4) != 0
		chain := g.r.Intn(25) == 0
		c.d, _ = c16HevcSPS(g.r, host && !chain, how, chain)
		c.kind = "syn.sps" + c16Hk(host)
		if chain {
			c.kind = "syn.sps.rpschain"
		}
	case k <= 12:
		sps, si := c16HevcSPS(g.r, false, 0, false)
		host := g.r.Intn(4) != 0
		c.ctx1 = sps
		c.d, _ = c16HevcPPS(g.r, host, how, si.id)
		c.kind = "syn.pps" + c16Hk(host)
	case k <= 17:
		which := g.r.Intn(4)
		sps, si := c16HevcSPS(g.r, which == 1, 0, false)
		pps, pi := c16HevcPPS(g.r, which == 2, 0, si.id)
		c.ctx1, c.ctx2 = sps, pps
		c.d = c16HevcSlice(g.r, which == 3, how, si, pi)
		c.kind = "syn.slice." + []string{"benign", "hostile-sps", "hostile-pps", "hostile-slice"}[which]
		g.extra = append(g.extra, c16Case{group: "nalu.hevc", kind: "syn.slice-context-sps", d: sps},
			c16Case{group: "nalu.hevc", kind: "syn.slice-context-pps", ctx1: sps, d: pps})
	default:
		c.d = append([]byte{[]byte{0x4e, 0x50}[g.r.Intn(2)], 0x01}, g.seiRbsp()...)
		c.kind = "syn.sei"
		if g.r.Intn(2) == 0 {
			sps, _ := c16HevcSPS(g.r, false, 0, false)
			c.ctx1 = sps
		}
	}
	if g.r.Intn(60) == 0 {
		c.d = g.inflate(c.d)
		c.kind += "+large"
	}
	return c
}

// ---- SEI

// seiPayload returns (type, payload) of one message: structurally valid typed messages that are then cut
// below their fixed headers, zero clock timestamps, or arbitrary bytes
func (g *c16G) seiPayload() (int, []byte, string) {
	types := []int{0, 1, 4, 5, 6, 45, 136, 137, 144, 255, 256, 1000}
	switch k := g.r.Intn(14); {
	case k == 0: // arbitrary
		return types[g.r.Intn(len(types))], g.randBytes(g.r.Intn(40)), "arbitrary"
	case k == 1: // corpus payload mutated
		p := g.k.seiPayloads[g.r.Intn(len(g.k.seiPayloads))]
		d, kind := g.mutate(p.pl, 0)
		return p.typ, d, "corpus:" + kind
	case k == 2: // corpus payload as is
		p := g.k.seiPayloads[g.r.Intn(len(g.k.seiPayloads))]
		return p.typ, cp(p.pl), "corpus"
	case k <= 4: // time code 136: 0..3 clocks, possibly all flags zero
		w := &c16BW{}
		n := g.r.Intn(4)
		w.u(2, uint64(n))
		for i := 0; i < n; i++ {
			if g.r.Intn(3) == 0 {
				w.bit(0)
				continue
			}
			w.bit(1)
			w.u(17, g.r.Uint64())
			w.u(1+g.r.Intn(30), g.r.Uint64())
		}
		w.trailing()
		d := w.bytes()
		kind := "timecode"
		if n == 0 {
			kind = "timecode.zeroclocks"
		}
		if g.r.Intn(3) == 0 && len(d) > 0 {
			d = d[:g.r.Intn(len(d))]
			kind += "+trunc"
		}
		return 136, d, kind
	case k <= 6: // user data registered: shorter than the 8-byte header, CEA-608 with bad counts
		d := []byte{0xb5, 0x00, 0x31, 0x47, 0x41, 0x39, 0x34, 0x03}
		if g.r.Intn(3) == 0 {
			d[g.r.Intn(8)] ^= byte(1 + g.r.Intn(255))
		}
		cc := g.r.Intn(32)
		d = append(d, 0xc0|byte(cc), 0xff)
		have := cc
		if g.r.Intn(2) == 0 {
			have = g.r.Intn(cc + 1)
		}
		for i := 0; i < have; i++ {
			d = append(d, 0xfc|byte(g.r.Intn(4)), byte(g.r.Intn(256)), byte(g.r.Intn(256)))
		}
		d = append(d, 0xff)
		kind := "registered"
		if g.r.Intn(2) == 0 {
			d = d[:g.r.Intn(len(d)+1)]
			if g.r.Intn(2) == 0 {
				d = d[:g.r.Intn(11)%(len(d)+1)]
			}
			kind += "+short"
		}
		return 4, d, kind
	case k == 7: // unregistered: around the 16-byte UUID
		return 5, g.randBytes([]int{0, 1, 15, 16, 17, 30}[g.r.Intn(6)]), "unregistered"
	case k == 8: // MDCV / CLL sizes around 24 / 4
		if g.r.Intn(2) == 0 {
			return 137, g.randBytes([]int{0, 1, 23, 24, 25, 48}[g.r.Intn(6)]), "mdcv"
		}
		return 144, g.randBytes([]int{0, 1, 3, 4, 5, 8}[g.r.Intn(6)]), "cll"
	case k <= 10: // AVC pic timing: bytes of 0..20, zero heavy
		return 1, g.randBytes(g.r.Intn(20)), "pictiming"
	case k == 11: // HEVC pic timing with decoding units: huge ue count
		w := &c16BW{}
		w.u(g.r.Intn(40), g.r.Uint64())
		s := &c16Syn{r: g.r, w: w}
		if g.r.Intn(2) == 0 {
			s.hugeUE()
		} else {
			w.ue(uint64(g.r.Intn(5)))
		}
		w.u(g.r.Intn(64), g.r.Uint64())
		w.trailing()
		return 1, w.bytes(), "pictiming.du"
	default: // payloads of many 0xff / zeros
		fill := []byte{0, 0xff}[g.r.Intn(2)]
		return types[g.r.Intn(len(types))], bytes.Repeat([]byte{fill}, g.r.Intn(40)), "fill"
	}
}

func c16SeiVal(v int) []byte {
	var b []byte
	for v >= 255 {
		b = append(b, 0xff)
		v -= 255
	}
	return append(b, byte(v))
}

// seiRbsp: SEI NAL unit payload (ebsp) with 0..4 messages; declared sizes may exceed what follows
func (g *c16G) seiRbsp() []byte {
	var rb []byte
	n := g.r.Intn(5)
	for i := 0; i < n; i++ {
		t, pl, _ := g.seiPayload()
		rb = append(rb, c16SeiVal(t)...)
		sz := len(pl)
		switch g.r.Intn(10) {
		case 0:
			sz += 1 + g.r.Intn(300)
		case 1:
			sz = g.r.Intn(sz + 1)
		case 2: // long run of ff size bytes
			rb = append(rb, bytes.Repeat([]byte{0xff}, g.r.Intn(200))...)
		}
		rb = append(rb, c16SeiVal(sz)...)
		rb = append(rb, pl...)
	}
	switch g.r.Intn(6) {
	case 0: // missing trailing bits
	case 1:
		rb = append(rb, 0x80, 0x00)
	default:
		rb = append(rb, 0x80)
	}
	out := escRef(rb)
	if g.r.Intn(8) == 0 && len(out) > 0 {
		out = out[:g.r.Intn(len(out))]
	}
	return out
}

func (g *c16G) genSeiMsg() c16Case {
	t, pl, kind := g.seiPayload()
	c := c16Case{group: "seimsg", kind: kind, p1: t, d: pl}
	c.p2 = g.r.Intn(1 << 19)
	if g.r.Intn(3) == 0 {
		c.p2 |= 0xf << 15 // all HEVC pic timing parts present
	}
	if g.r.Intn(40) == 0 {
		c.d = g.inflate(c.d)
		c.kind += "+large"
	}
	return c
}

func (g *c16G) genSeiRbsp() c16Case {
	c := c16Case{group: "seirbsp"}
	switch g.r.Intn(8) {
	case 0:
		c.d = g.randBytes(g.r.Intn(60))
		c.kind = "random"
	case 1: // corpus SEI NAL unit without header
		if g.r.Intn(2) == 0 {
			if d := g.pick(g.k.avcSei); len(d) > 1 {
				c.d = d[1:]
			}
		} else if d := g.pick(g.k.hevcSei); len(d) > 2 {
			c.d = d[2:]
		}
		c.kind = "corpus"
		if g.r.Intn(3) != 0 {
			c.d, c.kind = g.mutate(c.d, 0)
			c.kind = "corpus:" + c.kind
		}
	case 2: // ff runs: type / size accumulate
		c.d = append(bytes.Repeat([]byte{0xff}, g.r.Intn(300)), g.randBytes(g.r.Intn(6))...)
		if g.r.Intn(2) == 0 {
			c.d = append([]byte{byte(g.r.Intn(200))}, c.d...)
		}
		c.kind = "ffrun"
	default:
		c.d = g.seiRbsp()
		c.kind = "built"
	}
	if g.r.Intn(40) == 0 {
		c.d = g.inflate(c.d)
		c.kind += "+large"
	}
	return c
}

// ---- configuration records, ADTS, ASC
func (g *c16G) genConf() c16Case {
	c := c16Case{group: "conf"}
	be16 := func(v int) []byte { return []byte{byte(v >> 8), byte(v)} }
	switch k := g.r.Intn(16); {
	case k == 0:
		c.d = g.randBytes(g.r.Intn(8))
		c.kind = "tiny"
	case k == 1:
		c.d = g.randBytes(g.r.Intn(200))
		c.kind = "random"
	case k <= 4: // avcC built
		prof := []byte{66, 77, 88, 100, 110, 244}[g.r.Intn(6)]
		d := []byte{1, prof, 0, 30, 0xff}
		if g.r.Intn(10) == 0 {
			d[4] = byte(g.r.Intn(256))
		}
		ns := g.r.Intn(4)
		if g.r.Intn(6) == 0 {
			ns = g.r.Intn(32)
		}
		d = append(d, 0xe0|byte(ns))
		lenOf := func(n []byte) int {
			switch g.r.Intn(8) {
			case 0:
				return []int{0, 1, 0xffff, 0xfffe, len(n) + 1, 0x8000}[g.r.Intn(6)]
			}
			return len(n)
		}
		for i := 0; i < ns && i < 4; i++ {
			n := g.pick(g.k.avcSps)
			d = append(d, be16(lenOf(n))...)
			d = append(d, n...)
		}
		np := g.r.Intn(3)
		if g.r.Intn(6) == 0 {
			np = g.r.Intn(256)
		}
		d = append(d, byte(np))
		for i := 0; i < np && i < 4; i++ {
			n := g.pick(g.k.avcPps)
			d = append(d, be16(lenOf(n))...)
			d = append(d, n...)
		}
		if g.r.Intn(2) == 0 {
			d = append(d, 0xfd, 0xf8, 0xf8, byte(g.r.Intn(2)))
		}
		c.d = d
		c.kind = "avcC.built"
		if g.r.Intn(3) == 0 {
			c.d = c.d[:g.r.Intn(len(c.d)+1)]
			c.kind += "+trunc"
		}
	case k <= 7: // hvcC built
		d := make([]byte, 22)
		g.r.Read(d)
		d[0] = 1
		d[21] |= 3
		if g.r.Intn(10) == 0 {
			d[21] = byte(g.r.Intn(256))
		}
		na := g.r.Intn(4)
		if g.r.Intn(5) == 0 {
			na = g.r.Intn(256)
		}
		d = append(d, byte(na))
		for i := 0; i < na && i < 6; i++ {
			d = append(d, byte(g.r.Intn(256)))
			nn := g.r.Intn(3)
			if g.r.Intn(4) == 0 {
				nn = []int{0xffff, 0xfffe, 0x8000, 300}[g.r.Intn(4)]
			}
			d = append(d, be16(nn)...)
			for j := 0; j < nn && j < 3; j++ {
				n := g.pick(g.k.hevcNalus)
				l := len(n)
				if g.r.Intn(6) == 0 {
					l = []int{0, 0xffff, l + 1, 0x7fff}[g.r.Intn(4)]
				}
				d = append(d, be16(l)...)
				d = append(d, n...)
			}
		}
		c.d = d
		c.kind = "hvcC.built"
		if g.r.Intn(4) == 0 {
			c.d = c.d[:g.r.Intn(len(c.d)+1)]
			c.kind += "+trunc"
		}
		if g.r.Intn(10) == 0 {
			// many arrays each announcing 65535 NAL units, nothing behind them
			c.d = c.d[:23]
			c.d[22] = 255
			for i := 0; i < 255; i++ {
				c.d = append(c.d, 0xa0, 0xff, 0xff)
			}
			c.kind = "hvcC.counts"
		}
	case k <= 9: // corpus records mutated
		c.d = g.pick([][][]byte{g.k.avcC, g.k.hvcC, g.k.av1C}[g.r.Intn(3)])
		c.kind = "corpus"
		if g.r.Intn(4) != 0 {
			c.d, c.kind = g.mutate(c.d, 0)
			c.kind = "corpus:" + c.kind
		}
	case k <= 11: // av1C
		d := []byte{0x81, byte(g.r.Intn(256)), byte(g.r.Intn(256)), byte(g.r.Intn(32))}
		if g.r.Intn(4) == 0 {
			d[0] = byte(g.r.Intn(256))
		}
		if g.r.Intn(4) == 0 {
			d[3] = byte(g.r.Intn(256))
		}
		d = append(d, g.randBytes(g.r.Intn(30))...)
		c.d = d[:g.r.Intn(len(d)+1)]
		c.kind = "av1C.built"
	case k <= 13: // ADTS: junk + header, truncated
		h := aac.ADTSHeader{ObjectType: byte(1 + g.r.Intn(4)), SamplingFrequencyIndex: byte(g.r.Intn(16)), ChannelConfig: byte(g.r.Intn(8)),
			HeaderLength: 7, PayloadLength: uint16(g.r.Intn(8185)), BufferFullness: uint16(g.r.Intn(2048))}
		d := h.Encode()
		if g.r.Intn(3) == 0 {
			d[1] &^= 1 // protection present: CRC follows
		}
		if g.r.Intn(3) == 0 {
			d[3], d[4], d[5] = d[3]&0xfc, 0, d[5]&0x1f // frame length < header length
		}
		junk := g.randBytes(g.r.Intn(200))
		if g.r.Intn(3) == 0 {
			junk = bytes.Repeat([]byte{0xff}, g.r.Intn(200))
		}
		d = append(junk, d...)
		c.d = d[:len(d)-g.r.Intn(8)%(len(d)+1)]
		c.kind = "adts.built"
	default: // ASC
		asc := &aac.AudioSpecificConfig{ObjectType: []byte{2, 5, 29}[g.r.Intn(3)], ChannelConfiguration: byte(g.r.Intn(16)),
			SamplingFrequency: []int{48000, 44100, 7350, 12345, 1 << 23}[g.r.Intn(5)], ExtensionFrequency: []int{96000, 88200, 5}[g.r.Intn(3)]}
		var b bytes.Buffer
		_ = asc.Encode(&b)
		d := b.Bytes()
		if g.r.Intn(2) == 0 {
			d, _ = g.mutate(d, 0)
		}
		c.d = d
		c.kind = "asc.built"
	}
	if g.r.Intn(40) == 0 {
		c.d = g.inflate(c.d)
		c.kind += "+large"
	}
	return c
}

// ---------------------------------------------------------------- the generator / oracle loop

func c16SizeBucket(n int) string {
	switch {
	case n == 0:
		return "0"
	case n < 4:
		return "1-3"
	case n < 16:
		return "4-15"
	case n < 64:
		return "16-63"
	case n < 256:
		return "64-255"
	case n < 4096:
		return "256-4095"
	case n < 65536:
		return "4K-64K"
	}
	return ">=64K"
}

type c16Calib struct {
	maxAlloc, maxAllocLen uint64
	maxUs, maxUsLen       int64
	maxPerByte            float64 // (alloc - C) / len for len >= 32
	n                     int
	maxSmallAlloc         uint64 // largest allocation for an input of < 1 KiB
	maxSmallLine          string
}

func genC16(c *Ctx) {
	if c16IsWorker() {
		return
	}
	// model correspondences on hostile inputs (Lean models proved total/bounded in Props/C16.lean)
	c16ModelCorrespondence(c)
	g := &c16G{r: c.R, k: c16LoadCorpus()}
	// the built command-line tools on parameter-set material (c16_tool.go); a generator of its own so that the
	// input stream of the rounds below does not depend on it
	c16ToolFamily(c, &c16G{r: rand.New(rand.NewSource(c.Seed*7919 + 16)), k: g.k})
	if os.Getenv("VERIF_C16_ONLYTOOL") != "" { // developer switch: only the tool-level family
		return
	}
	g.extra = append(g.extra, c16ValidSyntaxCases(rand.New(rand.NewSource(c.Seed*104729+5)), c.N(1500, 15000))...)
	_ = os.WriteFile(c.OutDir+"/warmup-lines.txt", []byte(strings.Join(c16WarmLines(), "\n")+"\n"), 0o644)
	c.Count(fmt.Sprintf("corpus.avc.nalus=%d", len(g.k.avcNalus)))
	c.Count(fmt.Sprintf("corpus.hevc.nalus=%d", len(g.k.hevcNalus)))
	// inputs are generated and evaluated round by round (bounded memory; quarantine decisions at round starts)
	rounds := c.N(100, 600)
	per := c.N(400, 800) // inputs per group and round (the two nalu groups get twice as many)
	plan := []struct {
		gen func() c16Case
		n   int
	}{
		{g.genSample, per}, {g.genAnnexB, per}, {g.genNaluAvc, per * 2}, {g.genNaluHevc, per * 2},
		{g.genSeiMsg, per}, {g.genSeiRbsp, per}, {g.genConf, per},
	}
	genRound := func() []c16Case {
		var cases []c16Case
		for _, p := range plan {
			for i := 0; i < p.n; i++ {
				cases = append(cases, p.gen())
			}
		}
		cases = append(cases, g.extra...)
		g.extra = nil
		// the same random / tiny strings through every group
		for i := 0; i < per/8; i++ {
			d := g.randBytes([]int{0, 1, 2, 3, 4, 5, 7, 8, 9, 16, 33, 100}[g.r.Intn(12)])
			for _, grp := range []string{"sample", "annexb", "nalu.avc", "nalu.hevc", "seimsg", "seirbsp", "conf"} {
				cases = append(cases, c16Case{group: grp, kind: "all-groups-random", p1: g.r.Intn(64), p2: g.r.Intn(1 << 19), d: d, ctx1: nil, ctx2: nil})
			}
		}
		return cases
	}
	nw := 12
	if v, err := strconv.Atoi(os.Getenv("VERIF_C16_WORKERS")); err == nil && v > 0 {
		nw = v
	}
	// an entry point that has killed this many workers is established as failing: later rounds skip it
	// (each death costs a worker restart and up to the kill timeout); VERIF_C16_NOQUARANTINE=1 disables
	quarantineAt := 6
	if os.Getenv("VERIF_C16_NOQUARANTINE") != "" {
		quarantineAt = 1 << 30
	}
	opDeaths := map[int]int{}
	calib := map[string]*c16Calib{}
	type pending struct {
		line, op string
		n        int
	}
	var slow []pending
	deaths := 0
	seq := 0
	for rd := 0; rd < rounds; rd++ {
		cases := genRound()
		if rd == 0 {
			for _, sd := range c16Seeds {
				cs := c16Case{group: sd[0], kind: "seed", d: c16Hex(sd[3])}
				if sd[1] != "" {
					cs.ctx1 = c16Hex(sd[1])
				}
				if sd[2] != "" {
					cs.ctx2 = c16Hex(sd[2])
				}
				if sd[0] == "seimsg" {
					cs.p1 = 136
				}
				cases = append(cases, cs)
			}
		}
		lo, hi := 0, len(cases)
		quarantined := map[int]bool{}
		for oi, nd := range opDeaths {
			if nd >= quarantineAt {
				quarantined[oi] = true
			}
		}
		type item struct {
			ci    int
			skip  []int // entry points (index within the group) already known to kill the worker on this input
			retry int   // battery timeouts that did not reproduce on the single entry point
		}
		var items []item
		for i := lo; i < hi; i++ {
			it := item{ci: i}
			for jj, oi := range c16Groups[cases[i].group] {
				if quarantined[oi] {
					it.skip = append(it.skip, jj)
					c.Count("skipped-quarantined=" + c16Ops[oi].name)
				}
			}
			items = append(items, it)
		}
		first := true
		for len(items) > 0 {
			lines := make([]string, len(items))
			for k, it := range items {
				cs := &cases[it.ci]
				grp := cs.group
				if len(it.skip) > 0 {
					grp += "~" + joinInts(it.skip)
				}
				lines[k] = c16Line("bat "+grp, cs.p1, cs.p2, cs.ctx1, cs.ctx2, cs.d)
			}
			res := c16RunPool(lines, nw)
			var next []item
			for k, it := range items {
				cs := &cases[it.ci]
				r := &res[k]
				n := len(cs.d) + len(cs.ctx1) + len(cs.ctx2)
				gops := c16Groups[cs.group]
				if first {
					c.Count("group=" + cs.group)
					c.Count("kind=" + cs.group + "/" + strings.SplitN(cs.kind, ":", 2)[0])
					c.Count("size=" + c16SizeBucket(len(cs.d)))
					if seq++; seq%9973 == 1 {
						c.Sample(lines[k])
					}
					for _, oi := range gops {
						if !quarantined[oi] {
							c16Eval(c, cs, c16Ops[oi].name, n)
						}
					}
				}
				if r.death != "" {
					deaths++
					c.Count("worker-death=" + r.death)
					j := -1
					for jj, oi := range gops {
						if oi == r.opIdx {
							j = jj
						}
					}
					if r.opIdx == -2 {
						// the context parameter sets kill their parser: reported on the lines where they are the input
						c.Count("context-parse-death=" + cs.group)
						continue
					}
					if j < 0 {
						c.Fail("C16-harness-"+r.death, "worker died outside an entry point", lines[k], r.canonical()+" | "+r.tail, "")
						continue
					}
					name := c16Ops[gops[j]].name
					single := c16Line(name, cs.p1, cs.p2, cs.ctx1, cs.ctx2, cs.d)
					if r.death == "hang" {
						// confirm alone (the pool is idle now) before reporting: a loaded machine must not produce hangs
						rr := c16RunPool([]string{single}, 1)
						if rr[0].death == "" && !strings.Contains(rr[0].canon, " !time") {
							c.Count("hang-not-reproduced-alone")
							if it.retry >= 2 {
								c.Fail("C16-harness-battery-timeout", "battery line times out repeatedly although the entry point alone is within budget", lines[k], r.canonical(), "")
								continue
							}
							next = append(next, item{ci: it.ci, skip: it.skip, retry: it.retry + 1})
							continue
						}
						if rr[0].death != "" {
							r = &rr[0]
						}
					}
					opDeaths[gops[j]]++
					c.Count("result=" + name + "/" + r.death)
					c16FailDeath(c, name, single, r, n)
					// the other entry points still have to be evaluated on this input
					next = append(next, item{ci: it.ci, skip: append(append([]int{}, it.skip...), j)})
					continue
				}
				var live []int
				for jj, oi := range gops {
					skipped := false
					for _, sk := range it.skip {
						if sk == jj {
							skipped = true
						}
					}
					if !skipped {
						live = append(live, oi)
					}
				}
				parts := strings.Split(r.canon, ";")
				stats := strings.Split(r.stats, ";")
				if len(parts) != len(live) || len(stats) != len(live) {
					c.Fail("C16-harness-protocol", "malformed worker answer", lines[k], r.canon, "")
					continue
				}
				for jj, oi := range live {
					c16EvalOp(c, cs, c16Ops[oi].name, parts[jj], stats[jj], n, calib, func(op, l string) {
						slow = append(slow, pending{l, op, n})
					})
				}
			}
			items = next
			first = false
		}
	}
	// suspected time-budget violations: re-run each alone (nothing else running) before reporting
	for _, p := range slow {
		rr := c16RunPool([]string{p.line}, 1)
		if rr[0].death != "" {
			c16FailDeath(c, p.op, p.line, &rr[0], p.n)
			continue
		}
		if strings.Contains(rr[0].canon, " !time") {
			us := strings.SplitN(rr[0].stats, ",", 2)
			c.Fail("C16-hang-"+p.op, fmt.Sprintf("time budget exceeded (re-run alone): %s us for %d input bytes, budget %d us", us[len(us)-1], p.n, c16Budget(p.n).Microseconds()),
				p.line, rr[0].canon, "returns within 100ms + 4us/byte")
		} else {
			c.Count("slow-not-reproduced-alone")
		}
	}
	// calibration evidence
	var names []string
	for k := range calib {
		names = append(names, k)
	}
	sort.Strings(names)
	for _, k := range names {
		q := calib[k]
		c.Note(fmt.Sprintf("calib %s: n=%d maxAlloc=%dB (input %dB) max(alloc-C)/len=%.1f maxTime=%dus (input %dB) maxAllocSmallInput=%dB", k, q.n, q.maxAlloc, q.maxAllocLen, q.maxPerByte, q.maxUs, q.maxUsLen, q.maxSmallAlloc))
		if os.Getenv("VERIF_C16_CALIB") != "" && q.maxSmallAlloc > 32<<10 {
			c.Note("calibline " + q.maxSmallLine)
		}
	}
	c.Note(fmt.Sprintf("oracle constants: alloc <= %d*len+%d bytes, time <= %v + %v/byte, worker heap cap %d MiB, kill timeout %v", c16MemK, c16MemC, c16TimeC, c16TimePerByte, c16WorkerHeap>>20, c16KillTimeout))
}

func c16Eval(c *Ctx, cs *c16Case, op string, n int) {
	key := ""
	if len(cs.d) > 0 {
		h := sha256.Sum256(append(append(append([]byte(op+"\x00"), cs.d...), cs.ctx1...), cs.ctx2...))
		key = op + string(h[:12])
	}
	c.Eval(key)
}

func c16FailDeath(c *Ctx, op, line string, r *c16Res, n int) {
	cls := r.death
	what := map[string]string{
		"oom":   "fatal out of memory in the worker (address space capped at start size + 1.5 GiB)",
		"hang":  "no answer within the kill timeout",
		"crash": "worker process died",
	}[cls]
	fn := r.fn
	if fn == "" || cls == "hang" {
		fn = op // an endless loop is sampled at an arbitrary (often inlined) leaf: name the entry point
	}
	c.Fail("C16-"+cls+"-"+fn, fmt.Sprintf("%s; entry point %s; %d input bytes; stack site %s", what, op, n, r.site), line, r.canonical()+" | "+r.tail, "returns a value or an error")
}

// c16EvalOp evaluates the oracle on one "op:result" item
func c16EvalOp(c *Ctx, cs *c16Case, op, item, stat string, n int, calib map[string]*c16Calib, slow func(op, line string)) {
	res := strings.TrimPrefix(item, op+":")
	var alloc uint64
	var us int64
	if f := strings.Split(stat, ","); len(f) == 2 {
		alloc, _ = strconv.ParseUint(f[0], 10, 64)
		us, _ = strconv.ParseInt(f[1], 10, 64)
	}
	q := calib[op]
	if q == nil {
		q = &c16Calib{}
		calib[op] = q
	}
	q.n++
	if alloc > q.maxAlloc {
		q.maxAlloc, q.maxAllocLen = alloc, uint64(n)
	}
	if n < 1024 && alloc > q.maxSmallAlloc {
		q.maxSmallAlloc = alloc
		q.maxSmallLine = c16Line(op, cs.p1, cs.p2, cs.ctx1, cs.ctx2, cs.d)
	}
	if us > q.maxUs {
		q.maxUs, q.maxUsLen = us, int64(n)
	}
	if n >= 32 && alloc > c16MemC {
		if pb := float64(alloc-c16MemC) / float64(n); pb > q.maxPerByte {
			q.maxPerByte = pb
		}
	}
	line := ""
	if strings.HasPrefix(res, "panic") || strings.Contains(res, " !") {
		line = c16Line(op, cs.p1, cs.p2, cs.ctx1, cs.ctx2, cs.d)
	}
	switch {
	case strings.HasPrefix(res, "panic"):
		site := "?"
		if k := strings.LastIndex(res, " @ "); k >= 0 {
			site = strings.Fields(res[k+3:] + " ?")[0] + " " + c16SiteLoc(res[k+3:])
		}
		c.Count("result=" + op + "/panic")
		c.Fail("C16-panic-"+strings.TrimSpace(site), "panic instead of a value or an error (entry point "+op+")", line, res, "returns a value or an error")
	case strings.HasPrefix(res, "ok"):
		c.Count("result=" + op + "/ok")
		if sh := c16Shape(op, res); sh != "" {
			c.Count("shape=" + op + "/" + sh)
		}
	case strings.HasPrefix(res, "err"):
		c.Count("result=" + op + "/err")
	default:
		c.Count("result=" + op + "/other")
	}
	if strings.Contains(res, " !mem") {
		c.Count("result=" + op + "/mem-bound-exceeded")
		c.Fail("C16-oom-"+op, fmt.Sprintf("allocation bound exceeded: %d bytes allocated for %d input bytes, bound %d", alloc, n, c16Bound(n)), line, res, fmt.Sprintf("allocates <= %d*len + %d KiB", c16MemK, c16MemC>>10))
	}
	if strings.Contains(res, " !time") {
		c.Count("result=" + op + "/time-suspect")
		slow(op, line)
	}
}

func c16SiteLoc(s string) string {
	f := strings.Fields(s)
	if len(f) >= 2 {
		return f[1]
	}
	return ""
}

// c16Shape extracts a coarse description of a successful parse (evidence that deep syntax was reached)
func c16Shape(op, res string) string {
	switch op {
	case "avc.ParsePPSNALUnit":
		for _, f := range strings.Fields(res) {
			if strings.HasPrefix(f, "sg=") {
				p := strings.Split(strings.TrimPrefix(f, "sg="), "/")
				if p[0] == "0" {
					return "slicegroups=0"
				}
				if len(p[0]) > 2 {
					return "slicegroups=huge"
				}
				return "slicegroups>0,maptype=" + p[1]
			}
		}
	case "hevc.ParsePPSNALUnit", "hevc.ParseSPSNALUnit":
		var s []string
		for _, f := range strings.Fields(res) {
			if strings.HasPrefix(f, "ext=") || strings.HasPrefix(f, "tiles=") || strings.HasPrefix(f, "hrd=") {
				s = append(s, f)
			}
		}
		return strings.Join(s, ",")
	case "avc.ParseSPSNALUnit.vui":
		var s []string
		for _, f := range strings.Fields(res) {
			if strings.HasPrefix(f, "poc=") && len(f) > 5 {
				f = "poc=other"
			}
			if strings.HasPrefix(f, "poc=") || strings.HasPrefix(f, "hrd=") {
				s = append(s, f)
			}
		}
		return strings.Join(s, ",")
	case "avc.ParseSliceHeader", "hevc.ParseSliceHeader":
		f := strings.Fields(res)
		if len(f) > 1 {
			return f[1]
		}
	case "avc.ParseSEINalu.sps", "hevc.ParseSEINalu.sps", "avc.ParseSEINalu.nosps", "hevc.ParseSEINalu.nosps":
		if strings.TrimSpace(res) == "ok" {
			return "msgs=0"
		}
		return fmt.Sprintf("msgs=%d", 1+strings.Count(res, ","))
	}
	return ""
}

// c16WarmLines: well-formed inputs for every group (worker warm-up)
func c16WarmLines() []string {
	h := c16Hex
	avcSps, avcPps := h(c16KnownAvc[1]), h(c16KnownAvc[6])
	avcSei, avcIdr := h(c16KnownAvc[7]), h(c16KnownAvc[8])
	hSps, hPps, hVps := h(c16KnownHevc[1]), h(c16KnownHevc[2]), h(c16KnownHevc[0])
	hSei := h(c16KnownHevc[8])
	hSlice := h("2601af1d44c8f702357fff7639fb1c007f6304ab28")
	var l []string
	avcAll := [][]byte{avcSps, avcPps, avcSei, avcIdr}
	hevcAll := [][]byte{hVps, hSps, hPps, hSei, hSlice}
	ab := func(ns [][]byte) []byte {
		var b []byte
		for _, n := range ns {
			b = append(append(b, 0, 0, 0, 1), n...)
		}
		return b
	}
	l = append(l, c16Line("bat sample", 7, 0, nil, nil, c16LenPrefixed(avcAll)), c16Line("bat sample", 33, 0, nil, nil, c16LenPrefixed(hevcAll)))
	l = append(l, c16Line("bat annexb", 7, 0, nil, nil, ab(avcAll)), c16Line("bat annexb", 33, 1, nil, nil, ab(hevcAll)))
	for _, n := range avcAll {
		l = append(l, c16Line("bat nalu.avc", 0, 0, avcSps, avcPps, n))
	}
	for _, n := range hevcAll {
		l = append(l, c16Line("bat nalu.hevc", 0, 0, hSps, hPps, n))
	}
	for _, p := range []c16SeiPl{{1, h("00000008000000021208313de1")}, {136, h("60404198b410")}, {137, h("11223344556677889900aabbccddeeff0011223344556677")},
		{144, h("03e803e8")}, {4, h("b500314741393403cefffc9420fc94aefc9162ff")}, {5, h("dc45e9bde6d948b7962cd820d923eeef7832")}} {
		l = append(l, c16Line("bat seimsg", p.typ, 0xf<<15|7<<10|7<<5|7, nil, nil, p.pl))
	}
	l = append(l, c16Line("bat seirbsp", 0, 0, nil, nil, avcSei[1:]), c16Line("bat seirbsp", 0, 0, nil, nil, hSei[2:]))
	for _, d := range [][]byte{h("0164001effe100196764001eacd940a02ff9610000030001000003003c8f162d9601000568ebecb22cfdf8f800"), h("81094c000a0b0000004aabbfc377ffe701"),
		h("fff14c802b5ffc21aa14"), h("1210"), append(append(h("01016000000090000000000078f000fcfdf8f800000f01a00001"), 0, byte(len(hVps))), hVps...)} {
		l = append(l, c16Line("bat conf", 0, 0, nil, nil, d))
	}
	return l
}

// c16Seeds: hand-built inputs for value combinations the random generators reach rarely (each is one exact
// boundary value): group, ctx1, ctx2, data.
var c16Seeds = [][4]string{
	{"nalu.avc", "6742001e8000000300000300000300800000030000030000057710", "68ce3880", "41ffffe0"},                                                                        // avc slice header, SPS log2_max_frame_num_minus4 >= 2^63 (negative bit count)
	{"nalu.avc", "6742001eddc4", "68c440000003000003000003000400000300000300000300031c40", "658884c0"},                                                                    // avc slice header, PPS slice_group_change_rate_minus1 = 2^64-1
	{"nalu.hevc", "", "", "4201010160000003000003000003000003005da00502016977fc2080"},                                                                                     // minimal valid hevc SPS
	{"nalu.hevc", "4201010160000003000003000003000003005da00502016977fc2080", "", "4401c071801500c02000"},                                                                 // hevc PPS colour mapping table, num_cm_ref_layers_minus1 = 255
	{"nalu.hevc", "4201010160000003000003000003000003005da00502016977fc2080", "", "4401c0718014408000000300004000000300006000000300000300000300200000030000030000030240"}, // hevc PPS scc extension, luma_bit_depth_entry_minus8 >= 2^63
	{"nalu.hevc", "4201010160000003000003000003000003005da0050201697707df0820", "4401c0718012", "02017fc0"},                                                               // hevc slice header, SPS log2_min_luma_coding_block_size_minus3 = 61
	{"sample", "", "", "fffffffc0000000000"},                                             // length field 2^32-4: cursor wraps to 0
	{"sample", "", "", "00000002"},                                                       // length field without any NAL unit byte
	{"sample", "", "", "0000000109fffffff70000"},                                         // wrap back into the sample
	{"annexb", "", "", "000001000001"},                                                   // empty NAL units
	{"seimsg", "", "", "00"},                                                             // time code with zero clock timestamps (p1 is set below)
	{"conf", "", "", "0101600000009000000000005df000fcfdf8f800000fffa0ffffa1ffffa2ffff"}, // hvcC arrays announcing 65535 NAL units each
}
