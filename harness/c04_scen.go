package main

// C04 scenario inputs: small hand-built members of the input space (cross-box situations named by the property text
// and minimal forms of every defect class found on the unchanged tree). They run in every tier before the random rounds.

import (
	"bytes"
	"encoding/binary"
	"fmt"
	"os"
	"sync"
)

func c04Cat(parts ...[]byte) []byte {
	var out []byte
	for _, p := range parts {
		out = append(out, p...)
	}
	return out
}

func c04U32(vs ...uint32) []byte {
	var out []byte
	for _, v := range vs {
		out = binary.BigEndian.AppendUint32(out, v)
	}
	return out
}

type c04Scenario struct {
	name string
	data []byte
}

var c04ScenCache struct {
	once sync.Once
	list []c04Scenario
}

// c04Scenarios: the list is built once per process (a worker resolves every `scen` line against it)
func c04Scenarios() []c04Scenario {
	c04ScenCache.once.Do(func() { c04ScenCache.list = c04BuildScenarios() })
	return c04ScenCache.list
}

func c04BuildScenarios() []c04Scenario {
	var out []c04Scenario
	add := func(name string, d []byte) { out = append(out, c04Scenario{name, d}) }
	readRepo := func(rel string) []byte {
		d, err := os.ReadFile(repoPath(rel))
		if err != nil {
			return nil
		}
		return d
	}
	mfhd := box("mfhd", c04U32(0, 1))
	tfhd := box("tfhd", c04U32(0x020000, 1))
	mdat := box("mdat", []byte{1, 2, 3, 4})
	trun2 := box("trun", c04U32(0x000301, 2, 0, 1000, 2, 1000, 2)) // data offset, duration, size; two samples
	initSeg := readRepo("mp4/testdata/init.mp4")
	ftypLen := 0
	if len(initSeg) > 8 {
		ftypLen = int(binary.BigEndian.Uint32(initSeg))
	}

	add("moov without trak", box("moov", nil))
	add("moov with mvhd only + moof + mdat", c04Cat(box("moov", box("mvhd", make([]byte, 100))), box("moof", c04Cat(mfhd, box("traf", c04Cat(tfhd, trun2)))), mdat))
	add("trak without mdia", box("moov", box("trak", box("tkhd", make([]byte, 84)))))
	if ftypLen > 0 && ftypLen < len(initSeg) {
		add("fragmented init without ftyp, then a fragment", c04Cat(initSeg[ftypLen:], box("moof", c04Cat(mfhd, box("traf", c04Cat(tfhd, trun2)))), mdat))
		add("init + moof whose traf has senc but no tfhd", c04Cat(initSeg, box("moof", c04Cat(mfhd, box("traf", box("senc", c04Cat(c04U32(0, 1), make([]byte, 8)))))), mdat))
		add("init with trak lacking tkhd + encrypted-looking fragment", c04Cat(initSeg[:ftypLen], box("moov", box("trak", nil)), box("moof", c04Cat(mfhd, box("traf", c04Cat(tfhd, box("senc", c04Cat(c04U32(0, 1), make([]byte, 8))))))), mdat))
		add("two moov boxes", c04Cat(initSeg, initSeg[ftypLen:]))
	}
	sidx := box("sidx", c04Cat(c04U32(0, 1, 90000, 0, 100), []byte{0, 0, 0, 1}, c04U32(1000, 9000, 0x90000000)))
	add("sidx announcing another position than the first moof", c04Cat(sidx, box("moof", c04Cat(mfhd, box("traf", c04Cat(tfhd, trun2)))), mdat))
	add("sidx then emsg", c04Cat(sidx, box("emsg", c04Cat(c04U32(0), []byte("a\x00b\x00"), c04U32(1, 0, 0, 0)))))
	add("moof without traf", box("moof", mfhd))
	add("moof without traf + mdat", c04Cat(box("moof", mfhd), mdat))
	add("traf without tfhd, two-sample trun, + mdat", c04Cat(box("moof", c04Cat(mfhd, box("traf", trun2))), mdat))
	add("traf without tfhd (single box)", box("traf", trun2))
	add("mdat before moof", c04Cat(box("styp", []byte("msdh\x00\x00\x00\x00msdh")), mdat, box("moof", c04Cat(mfhd, box("traf", c04Cat(tfhd, trun2)))), mdat))
	add("mdat directly after a fragmented init", c04Cat(initSeg, mdat))
	add("emsg then mdat", c04Cat(box("emsg", c04Cat(c04U32(0), []byte("a\x00b\x00"), c04U32(1, 0, 0, 0))), mdat))
	add("mfra with mfro but no tfra", box("mfra", box("mfro", c04U32(0, 24))))
	// mfra boxes with several tfra boxes of equal / different entry counts and offsets (ISM-flag path reads them first)
	tfra := func(track uint32, offs ...uint32) []byte {
		p := c04U32(0, track, 0, uint32(len(offs)))
		for i, o := range offs {
			p = append(p, c04U32(uint32(i)*1000, o)...)
			p = append(p, 1, 1, 1)
		}
		return box("tfra", p)
	}
	mfra := func(tfras ...[]byte) []byte {
		body := c04Cat(tfras...)
		return box("mfra", c04Cat(body, box("mfro", c04U32(0, uint32(8+len(body)+16)))))
	}
	frag1 := c04Cat(box("moof", c04Cat(mfhd, box("traf", c04Cat(tfhd, trun2)))), mdat)
	pre := c04Cat(initSeg, frag1)
	o1 := uint32(len(initSeg))
	for _, v := range []struct {
		name string
		m    []byte
	}{
		{"two tfra, second longer", mfra(tfra(1, o1), tfra(2, o1, o1+100, o1+200))},
		{"two tfra, second shorter", mfra(tfra(1, o1, o1+100, o1+200), tfra(2, o1))},
		{"two tfra, first empty", mfra(tfra(1), tfra(2, o1, o1+100))},
		{"two tfra, same counts different offsets", mfra(tfra(1, o1, o1+100), tfra(2, o1, o1+50))},
		{"two tfra, same track", mfra(tfra(1, o1), tfra(1, o1))},
		{"three tfra, growing", mfra(tfra(1, o1), tfra(2, o1, o1+1), tfra(3, o1, o1+1, o1+2))},
		{"one tfra, offset beyond the file", mfra(tfra(1, 0xfffffff0))},
	} {
		add("mfra: "+v.name, c04Cat(pre, v.m))
	}
	add("ftyp without payload", box("ftyp", nil))
	add("ftyp with 4 payload bytes", box("ftyp", []byte("isom")))
	add("ftyp with 7 payload bytes", box("ftyp", []byte("isom\x00\x00\x00")))
	add("styp without payload", box("styp", nil))
	add("styp with 6 payload bytes", box("styp", []byte("msdh\x00\x00")))
	add("saio without entries", box("saio", c04U32(0, 0)))
	add("traf with empty saio and senc", c04Cat(box("moof", c04Cat(mfhd, box("traf", c04Cat(tfhd, box("saio", c04U32(0, 0)), box("senc", c04Cat(c04U32(0, 1), make([]byte, 8))))))), mdat))
	add("dac3 with reserved sample rate code", box("dac3", []byte{0xc0, 0, 0}))
	add("dac3 with reserved bit rate code", box("dac3", []byte{0x10, 0x03, 0xe0}))
	add("dec3 with sample rate code 3", box("dec3", []byte{0, 0, 0xc0, 0, 0}))
	add("senc with 16-byte header and no payload", c04Cat(c04U32(1), []byte("senc"), c04U32(0, 16)))
	add("senc with 16-byte header and 4 payload bytes", c04Cat(c04U32(1), []byte("senc"), c04U32(0, 20, 0)))
	add("senc announcing 2^32-1 samples in a 84-byte moof", box("moof", c04Cat(mfhd, box("traf", c04Cat(box("tfhd", c04U32(0, 1)), box("senc", c04Cat(c04U32(0, 0xffffffff), make([]byte, 20))))))))
	add("senc announcing 2^32-1 samples and no data", box("senc", c04U32(0, 0xffffffff)))
	add("senc with subsample flag, count 2^31", box("senc", c04U32(2, 1<<31)))
	{
		ids := make([]byte, 4*12000)
		for i := 0; i < 12000; i++ {
			binary.BigEndian.PutUint32(ids[4*i:], uint32(1000000+i))
		}
		add("tref type box with 12000 track IDs", box("cdsc", ids))
	}
	if d := readRepo("mp4/testdata/moof_enc.m4s"); len(d) == 3091 {
		// sgpd(seig) emptied, saio removed (the senc is then parsed without it), sizes adjusted
		x := append([]byte{}, d...)
		x = append(x[:329], x[361:]...) // saio
		x = append(x[:160], x[180:]...) // the sgpd entry
		binary.BigEndian.PutUint32(x[156:], 0)
		binary.BigEndian.PutUint32(x[136:], 24)
		binary.BigEndian.PutUint32(x[92:], 2999-52)
		binary.BigEndian.PutUint32(x[68:], 3023-52)
		add("seig sbgp referring to an sgpd without entries", x)
		// the sbgp entry's group_description_index set to every interesting value (1-based global, 65536+ fragment-local)
		if i := bytes.Index(d, []byte("sbgp")); i > 0 && i+24 <= len(d) {
			for _, v := range []uint32{0, 1, 2, 65535, 65536, 65538, 65539, 0x1ffff, 0x7fffffff, 0xffffffff} {
				y := append([]byte{}, d...)
				binary.BigEndian.PutUint32(y[i+20:], v)
				add(fmt.Sprintf("seig sbgp with group_description_index %d", v), y)
			}
		}
	}
	add("stsz with uniform size and 2^32-1 samples", box("stsz", c04U32(0, 100, 0xffffffff)))
	add("trun without per-sample fields and 2^32-1 samples", box("trun", c04U32(0, 0xffffffff)))
	add("stts announcing 2^28 entries in 16 bytes", box("stts", c04U32(0, 1<<28)))
	add("68-byte moof with senc count 2^31", box("moof", c04Cat(mfhd, box("traf", c04Cat(box("tfhd", c04U32(0, 1)), box("senc", c04Cat(c04U32(0, 1<<31), make([]byte, 4))))))))
	add("box of size 2^63 (64-bit size)", c04Cat(c04U32(1), []byte("mdat"), c04U32(1<<31, 0)))
	add("free box with size field 0", c04Cat(c04U32(0), []byte("free")))
	add("nested containers, 200 levels", func() []byte {
		b := box("free", nil)
		for i := 0; i < 200; i++ {
			b = box("udta", b)
		}
		return b
	}())
	// mdat with a 64-bit largesize that makes the lazy decoder's relative seek (size - header length, as int64) go
	// BACKWARDS onto the start of an earlier top-level box: 2^64 - (distance back to that box)
	backSeek := func(name string, file []byte) {
		var starts []int
		pos := 0
		for pos+8 <= len(file) {
			sz := int(binary.BigEndian.Uint32(file[pos:]))
			if string(file[pos+4:pos+8]) == "mdat" {
				for _, q := range starts {
					hdr := make([]byte, 16)
					binary.BigEndian.PutUint32(hdr, 1)
					copy(hdr[4:], "mdat")
					binary.BigEndian.PutUint64(hdr[8:], uint64(0)-uint64(pos-q))
					add(fmt.Sprintf("%s: mdat largesize seeking back %d bytes onto an earlier box", name, pos-q), c04Cat(file[:pos], hdr, file[pos+8:]))
				}
				// ... and onto itself / just behind its own header
				for _, v := range []uint64{^uint64(0), ^uint64(0) - 15, 1 << 63, 1<<63 + 16} {
					hdr := make([]byte, 16)
					binary.BigEndian.PutUint32(hdr, 1)
					copy(hdr[4:], "mdat")
					binary.BigEndian.PutUint64(hdr[8:], v)
					add(fmt.Sprintf("%s: mdat largesize %#x", name, v), c04Cat(file[:pos], hdr, file[pos+8:]))
				}
				break
			}
			if sz < 8 || pos+sz > len(file) {
				break
			}
			starts = append(starts, pos)
			pos += sz
		}
	}
	backSeek("synthetic segment", c04Cat(box("styp", []byte("msdh\x00\x00\x00\x00msdh")), box("moof", c04Cat(mfhd, box("traf", c04Cat(tfhd, trun2)))), mdat))
	if seg := readRepo("mp4/testdata/1.m4s"); len(seg) > 0 && len(seg) < 1<<20 {
		backSeek("mp4/testdata/1.m4s", seg)
	}
	if len(initSeg) > 0 {
		backSeek("init + fragment", c04Cat(initSeg, box("moof", c04Cat(mfhd, box("traf", c04Cat(tfhd, trun2)))), mdat))
	}
	// sgpd: every sample group entry type the library decodes (and an unknown one) x versions x default lengths from 0
	// to beyond the minimal entry size x small / all-ones / truncated entry bytes (length arithmetic in the entry decoders)
	for _, gt := range []string{"seig", "roll", "rap ", "alst", "prol", "zzzz"} {
		for _, ver := range []byte{0, 1, 2} {
			for _, dl := range []uint32{0, 1, 2, 3, 4, 5, 7, 8, 12, 20, 0xffffffff} {
				for k, body := range [][]byte{{0, 1, 0, 0}, {0, 1, 0, 0, 0, 0, 0, 9}, {0xff, 0xff, 0xff, 0xff}, {0, 0}, {0, 2, 0, 1, 0, 0, 0, 1, 0, 0, 0, 2, 0, 1, 0, 2}} {
					pl := []byte{ver, 0, 0, 0}
					pl = append(pl, gt...)
					if ver >= 1 {
						pl = append(pl, c04U32(dl)...)
					}
					if ver >= 2 {
						pl = append(pl, c04U32(1)...)
					}
					pl = append(pl, c04U32(1)...) // entry_count
					if ver >= 1 && dl == 0 {
						pl = append(pl, c04U32(uint32(len(body)))...)
					}
					pl = append(pl, body...)
					if dl <= 5 || k == 0 || dl == 0xffffffff {
						add(fmt.Sprintf("sgpd %q v%d default_length %d body#%d", gt, ver, dl, k), box("sgpd", pl))
					}
				}
			}
		}
	}
	// count x element size: every table box and the senc box in every traf context, with counts whose 32-bit product
	// with the element size wraps (c04_count.go). Appended last: the indices of the scenarios above stay what they were.
	c04CountScenarios(add, readRepo)
	return out
}
