package main

import (
	"bytes"
	"fmt"
	"math/rand"
	"os"
	"path/filepath"
	"sort"
	"strconv"
	"strings"

	"github.com/Eyevinn/mp4ff/mp4"
)

// C08 part (e): the segmenter example (anchor examples/segmenter/segment.go) is the repository's user of the lazy mode:
// `segmenter -lazy` decodes the progressive input with the media data left on disk and, for one file per track, writes
// each media segment as moof + header-only mdat followed by the sample bytes copied straight from the input
// (makeSingleTrackSegmentsLazyWrite -> copyMediaData, a second copy of the CopySampleData chunk walk); `-m -lazy` reads
// every sample through the io.ReadSeeker. Without -lazy the same segments are built from the in-memory mdat.
// The property, literally: the two modes are observationally equal, i.e. they write byte-identical files, a lazily
// written mdat header plus the copied payload is the box the header announces, and the payload is the bytes of the
// segment's samples in the input file.
//
// Inputs: generated progressive files (harness/progfile.go) whose CHUNK LAYOUT is varied per track: one sample per
// chunk, all samples in one chunk, long chunks (so that segment intervals begin and end inside one chunk), short
// random chunks, a mix of short and long chunks; 1 video track with an optional audio track before or after it; mdat
// before/after moov, 8/16-byte mdat header, stco/co64, optional further empty mdat boxes. Segment durations: 1 ms
// (every sync sample starts a segment), a few frame durations, half the track, longer than the track.

type segTrackOut struct {
	trackID uint32
	first   int // 1-based number of the first sample of this track in the segment
	count   int
	payload []byte // bytes the trun of this track points to
}

type segFileInfo struct {
	name   string
	tracks []segTrackOut
	behind []byte // every byte behind the mdat header up to the end of the file
}

// c08SegInput builds the input file of a sub-seed.
func c08SegInput(sub int64) (*progFile, string) {
	r := rand.New(rand.NewSource(sub))
	pf := &progFile{mdatFirst: r.Intn(3) == 0, largeMdat: r.Intn(4) == 0, co64: r.Intn(4) == 0}
	v := genProgTrack(r, "video", 2+r.Intn(40))
	if !v.hasStss {
		// the tool takes its segment starts from the stss box of the video track: give it one (every sample sync)
		v.hasStss = true
	}
	pf.tracks = []*progTrack{v}
	switch r.Intn(4) {
	case 0:
		pf.tracks = append(pf.tracks, genProgTrack(r, "audio", 1+r.Intn(70)))
	case 1:
		pf.tracks = []*progTrack{genProgTrack(r, "audio", 1+r.Intn(70)), v}
	}
	var layouts []string
	for _, t := range pf.tracks {
		n := len(t.data)
		lay := []string{"one-per-chunk", "single-chunk", "long-chunks", "short-chunks", "mixed"}[r.Intn(5)]
		var cl []int
		left := n
		for left > 0 {
			var k int
			switch lay {
			case "one-per-chunk":
				k = 1
			case "single-chunk":
				k = n
			case "long-chunks":
				k = 5 + r.Intn(26)
			case "mixed":
				k = []int{1, 1, 2, 3, 8, 13, 25}[r.Intn(7)]
			}
			if lay == "short-chunks" {
				break
			}
			if k > left {
				k = left
			}
			cl = append(cl, k)
			left -= k
		}
		if lay != "short-chunks" {
			t.chunkLens = cl
		}
		layouts = append(layouts, t.media+":"+lay)
	}
	switch r.Intn(8) {
	case 0:
		pf.emptyMdatAfter = []int{8, 16}[r.Intn(2)]
	case 1:
		pf.emptyMdatBefore = []int{8, 16}[r.Intn(2)]
	case 2:
		pf.largeFree = true
	}
	pf.build(r)
	return pf, strings.Join(layouts, ",")
}

func (t *progTrack) tablesLine(co64 bool) string {
	tb := &tables{n: uint32(len(t.sizes)), sizes: t.sizes, offsets: t.chunkOffs, co64: co64}
	tb.sttsC, tb.sttsD = runLengths32(t.durs)
	for ci, k := range t.chunkLens {
		if ci == 0 || t.chunkLens[ci-1] != k {
			tb.stsc = append(tb.stsc, [3]uint32{uint32(ci + 1), uint32(k), 1})
		}
	}
	return tb.line()
}

func readDirFiles(dir string) (map[string][]byte, []string) {
	out := map[string][]byte{}
	var names []string
	es, _ := os.ReadDir(dir)
	for _, e := range es {
		if e.IsDir() || e.Name() == "in.mp4" {
			continue
		}
		b, err := os.ReadFile(filepath.Join(dir, e.Name()))
		if err == nil {
			out[e.Name()] = b
			names = append(names, e.Name())
		}
	}
	sort.Strings(names)
	return out, names
}

// runSegmenterDir runs the built tool on data in a fresh directory and returns the files it wrote.
func runSegmenterDir(data []byte, ms uint64, mux, lazy bool) (toolResult, map[string][]byte, []string) {
	dir, done := scratchDir("c08seg")
	defer done()
	in := filepath.Join(dir, "in.mp4")
	must(os.WriteFile(in, data, 0o644))
	args := []string{"-d", strconv.FormatUint(ms, 10)}
	if mux {
		args = append(args, "-m")
	}
	if lazy {
		args = append(args, "-lazy")
	}
	args = append(args, "in.mp4", "out")
	tr := runTool("segmenter", dir, args...)
	for try := 0; try < 2 && tr.exit == -1; try++ {
		// could not be started (process limit on a loaded machine) or timed out: not an answer of the tool, try again
		tr = runTool("segmenter", dir, args...)
	}
	files, names := readDirFiles(dir)
	return tr, files, names
}

// parseSegFile: a media segment the tool wrote. Returns "" and the per-track payloads, or a description of how the
// file contradicts its own headers (mdat header vs bytes behind it, trun sizes vs mdat payload).
func parseSegFile(name string, b []byte) (*segFileInfo, string) {
	info := &segFileInfo{name: name}
	tops := walkTop(b)
	var moofOff, mdatOff, mdatSize, mdatHdr = -1, -1, 0, 0
	for _, t := range tops {
		switch t.typ {
		case "moof":
			if moofOff >= 0 {
				return nil, "several moof boxes"
			}
			moofOff = t.off
		case "mdat":
			if mdatOff >= 0 {
				return nil, "several mdat boxes"
			}
			mdatOff, mdatSize = t.off, t.size
			mdatHdr = 8
			if b[t.off+3] == 1 && b[t.off] == 0 && b[t.off+1] == 0 && b[t.off+2] == 0 {
				mdatHdr = 16
			}
		}
	}
	if moofOff < 0 {
		return nil, "no moof box"
	}
	if mdatOff < 0 {
		// the header may announce more bytes than the file holds: walkTop stops there
		return nil, "no complete mdat box (the mdat header announces more bytes than follow it, or is missing)"
	}
	info.behind = b[mdatOff+mdatHdr:]
	problem := ""
	if mdatOff+mdatSize != len(b) {
		// keep going on the boxes proper, so that the sample interval of the segment is known to the caller
		problem = fmt.Sprintf("mdat header announces a payload of %d bytes, %d bytes follow the header", mdatSize-mdatHdr, len(b)-mdatOff-mdatHdr)
	}
	f, err := mp4.DecodeFile(bytes.NewReader(b[:mdatOff+mdatSize]))
	if err != nil {
		return info, "segment does not decode: " + err.Error()
	}
	var moof *mp4.MoofBox
	for _, s := range f.Segments {
		for _, fr := range s.Fragments {
			if fr.Moof != nil {
				moof = fr.Moof
			}
		}
	}
	if moof == nil {
		return info, "no fragment decoded"
	}
	var total int
	for _, traf := range moof.Trafs {
		if traf.Tfhd == nil || traf.Tfhd.HasBaseDataOffset() {
			return info, "tfhd missing or with explicit base data offset"
		}
		to := segTrackOut{trackID: traf.Tfhd.TrackID}
		for _, trun := range traf.Truns {
			if !trun.HasDataOffset() {
				return info, "trun without data offset"
			}
			var sz int
			for _, s := range trun.Samples {
				if trun.HasSampleSize() {
					sz += int(s.Size)
				} else if traf.Tfhd.HasDefaultSampleSize() {
					sz += int(traf.Tfhd.DefaultSampleSize)
				} else {
					return info, "sample sizes neither in trun nor in tfhd"
				}
			}
			start := moofOff + int(trun.DataOffset)
			if start < mdatOff+mdatHdr || start+sz > mdatOff+mdatSize {
				return info, fmt.Sprintf("trun of track %d points to [%d,%d) outside the mdat payload [%d,%d)", to.trackID, start, start+sz, mdatOff+mdatHdr, mdatOff+mdatSize)
			}
			to.payload = append(to.payload, b[start:start+sz]...)
			to.count += len(trun.Samples)
			total += sz
		}
		info.tracks = append(info.tracks, to)
	}
	if problem == "" && total != mdatSize-mdatHdr {
		problem = fmt.Sprintf("truns announce %d bytes of sample data, the mdat payload has %d", total, mdatSize-mdatHdr)
	}
	return info, problem
}

func segNr(name string) int {
	s := strings.TrimSuffix(name, ".m4s")
	return atoi(s[strings.LastIndex(s, "_")+1:])
}

// checkSegOutput: every media segment of one run agrees with its own headers, and the payload of every track is the
// bytes of consecutive samples of the input track. Returns (fingerprint, message) of the first problem, or "", "".
func checkSegOutput(pf *progFile, mux bool, files map[string][]byte, names []string) (string, string, map[string]*segFileInfo) {
	infos := map[string]*segFileInfo{}
	var segs []string
	for _, n := range names {
		if strings.HasSuffix(n, ".m4s") {
			segs = append(segs, n)
		}
	}
	sort.Slice(segs, func(i, j int) bool { return segNr(segs[i]) < segNr(segs[j]) })
	next := map[int]int{} // input track index -> samples consumed so far
	firstOf := func(media string) int {
		for i, t := range pf.tracks {
			if t.media == media {
				return i
			}
		}
		return -1
	}
	fp, first := "", ""
	note := func(f, m string) {
		if fp == "" {
			fp, first = f, m
		}
	}
	for _, n := range segs {
		info, msg := parseSegFile(n, files[n])
		if info != nil {
			infos[n] = info
		}
		if msg != "" {
			note("C08-segmenter-mdat-length", n+": "+msg)
		}
		if info == nil {
			continue
		}
		for k := range info.tracks {
			to := &info.tracks[k]
			ti := int(to.trackID) - 1 // multiplexed: output track IDs 1..n in input order
			if !mux {
				if strings.HasPrefix(n, "out_v") {
					ti = firstOf("video")
				} else {
					ti = firstOf("audio")
				}
			}
			if ti < 0 || ti >= len(pf.tracks) {
				note("C08-segmenter-sample-bytes", fmt.Sprintf("%s: track %d has no input track", n, to.trackID))
				continue
			}
			t := pf.tracks[ti]
			to.first = next[ti] + 1
			var want []byte
			for j := 0; j < to.count && next[ti] < len(t.data); j++ {
				want = append(want, t.data[next[ti]]...)
				next[ti]++
			}
			if !bytes.Equal(want, to.payload) {
				note("C08-segmenter-sample-bytes", fmt.Sprintf("%s: payload of track %d (%d samples from sample %d) is not the bytes of these samples in the input: got %s want %s",
					n, to.trackID, to.count, to.first, clipN(hx(to.payload), 120), clipN(hx(want), 120)))
			}
		}
	}
	return fp, first, infos
}

// c08SegCompare runs the tool in-memory and lazily and evaluates the oracle. ans = stable one-line summary (replay).
func c08SegCompare(pf *progFile, ms uint64, mux bool) (ans, fp, msg string, lazyInfos map[string]*segFileInfo) {
	trE, fe, ne := runSegmenterDir(pf.bytes, ms, mux, false)
	if trE.exit != 0 {
		return "not compared: in-memory mode fails: " + failureClass(trE), "", "", nil
	}
	trL, fl, nl := runSegmenterDir(pf.bytes, ms, mux, true)
	if trL.exit == -1 {
		return "not compared: lazy run could not be started or timed out: " + failureClass(trL), "", "", nil
	}
	if trL.exit != 0 {
		m := "lazy mode fails where in-memory mode succeeds: " + failureClass(trL)
		return m, "C08-segmenter-lazy-differs", m, nil
	}
	if f, m, _ := checkSegOutput(pf, mux, fe, ne); f != "" {
		// the in-memory path is the reference of this property; a wrong in-memory output is still a wrong output
		return "in-memory: " + m, f, "in-memory mode: " + m, nil
	}
	f, m, infos := checkSegOutput(pf, mux, fl, nl)
	if f != "" {
		return "lazy: " + m, f, "lazy mode: " + m, infos
	}
	if strings.Join(ne, " ") != strings.Join(nl, " ") {
		m := fmt.Sprintf("different output files: in-memory [%s] lazy [%s]", strings.Join(ne, " "), strings.Join(nl, " "))
		return m, "C08-segmenter-lazy-differs", m, infos
	}
	for _, n := range ne {
		if !bytes.Equal(fe[n], fl[n]) {
			k := 0
			for k < len(fe[n]) && k < len(fl[n]) && fe[n][k] == fl[n][k] {
				k++
			}
			m := fmt.Sprintf("%s differs between the modes: in-memory %d bytes, lazy %d bytes, first difference at byte %d", n, len(fe[n]), len(fl[n]), k)
			return m, "C08-segmenter-lazy-differs", m, infos
		}
	}
	return fmt.Sprintf("same %d files", len(ne)), "", "", infos
}

// execC08Seg replays "seg.cmp <sub-seed> <ms> <mux>" and
// "seg.copy <tables (7 fields)> <mdat start> <hdr len> <size> <a> <b> <file hex> <ms> <v|a> <segment nr>"
func execC08Seg(op string, a []string) string {
	switch op {
	case "seg.cmp":
		if len(a) < 3 {
			return "bad-op"
		}
		sub, _ := strconv.ParseInt(a[0], 10, 64)
		pf, _ := c08SegInput(sub)
		ms, _ := strconv.ParseUint(a[1], 10, 64)
		ans, _, _, _ := c08SegCompare(pf, ms, a[2] == "1")
		return ans
	case "seg.copy":
		if len(a) != 16 {
			return "bad-op"
		}
		F, err := unhx(a[12])
		if err != nil {
			return "bad-op"
		}
		ms, _ := strconv.ParseUint(a[13], 10, 64)
		tr, files, _ := runSegmenterDir(F, ms, false, true)
		if tr.exit != 0 {
			return "err"
		}
		b, ok := files[fmt.Sprintf("out_%s1_%s.m4s", a[14], a[15])]
		if !ok {
			return "no-such-segment"
		}
		info, _ := parseSegFile("", b)
		if info == nil {
			return "err"
		}
		return hx(info.behind)
	}
	return "bad-op"
}

func genC08Seg(c *Ctx) {
	if _, err := os.Stat(toolPath("segmenter")); err != nil {
		c.Note("tool binary missing: " + toolPath("segmenter") + " (set VERIF_BUILD)")
		c.Fail("C08-tool-missing", "the built segmenter binary was not found", toolPath("segmenter"), err.Error(), "")
		return
	}
	old := scratchRoot
	scratchRoot = absScratch(c, "c08work")
	defer func() { os.RemoveAll(scratchRoot); scratchRoot = old }()
	type job struct {
		sub      int64
		pf       *progFile
		layout   string
		ms       uint64
		mux      bool
		ans, fp  string
		msg      string
		lazyInfo map[string]*segFileInfo
	}
	var jobs []*job
	nf := c.N(36, 500)
	for it := 0; it < nf; it++ {
		sub := c.R.Int63()
		pf, layout := c08SegInput(sub)
		var v *progTrack
		for _, t := range pf.tracks {
			if t.media == "video" {
				v = t
			}
		}
		var total uint64
		for _, d := range v.durs {
			total += uint64(d)
		}
		frameMs := uint64(v.durs[0]) * 1000 / uint64(v.timescale)
		totalMs := total * 1000 / uint64(v.timescale)
		cand := []uint64{1, frameMs * uint64(2+c.R.Intn(3)), frameMs * uint64(5+c.R.Intn(12)), totalMs/2 + 1, totalMs + 10}
		seen := map[uint64]bool{}
		nd := 0
		for _, k := range c.R.Perm(len(cand)) {
			ms := cand[k]
			if ms == 0 || seen[ms] || nd >= 3 {
				continue
			}
			seen[ms] = true
			nd++
			jobs = append(jobs, &job{sub: sub, pf: pf, layout: layout, ms: ms, mux: false})
			if c.R.Intn(2) == 0 {
				jobs = append(jobs, &job{sub: sub, pf: pf, layout: layout, ms: ms, mux: true})
			}
		}
	}
	parallelDo(len(jobs), func(i int) {
		j := jobs[i]
		p := safe(func() { j.ans, j.fp, j.msg, j.lazyInfo = c08SegCompare(j.pf, j.ms, j.mux) })
		if p != "" {
			j.ans, j.fp, j.msg = p, "C08-segmenter-harness", p
		}
	})
	modelLines := 0
	for _, j := range jobs {
		req := fmt.Sprintf("seg.cmp %d %d %s", j.sub, j.ms, b01(j.mux))
		if strings.HasPrefix(j.ans, "not compared: ") {
			c.Eval("")
			c.Count("segmenter: " + clipN(j.ans, 100))
			continue
		}
		c.Eval(req)
		c.Count(fmt.Sprintf("segmenter lazy-vs-memory mux=%v tracks=%d", j.mux, len(j.pf.tracks)))
		for _, l := range strings.Split(j.layout, ",") {
			c.Count("segmenter input track " + l)
		}
		nseg := 0
		inside := 0 // segments whose samples of a track are a proper part of ONE chunk
		for _, info := range j.lazyInfo {
			nseg++
			for _, to := range info.tracks {
				ti := -1
				if j.mux {
					ti = int(to.trackID) - 1
				} else {
					for i, t := range j.pf.tracks {
						if (strings.HasPrefix(info.name, "out_v") && t.media == "video") || (strings.HasPrefix(info.name, "out_a") && t.media == "audio") {
							ti = i
							break
						}
					}
				}
				if ti < 0 || ti >= len(j.pf.tracks) || to.count == 0 {
					continue
				}
				s := 1
				for _, cl := range j.pf.tracks[ti].chunkLens {
					if to.first >= s && to.first+to.count-1 < s+cl-1 {
						inside++
					}
					s += cl
				}
			}
		}
		c.Count(fmt.Sprintf("segmenter segments<=%d", bucket(nseg, []int{1, 2, 5, 20, 1000})))
		if inside > 0 {
			c.Count("segmenter runs with an interval ending inside its first chunk")
		}
		if j.fp != "" {
			c.Fail(j.fp, "segmenter -lazy vs in-memory (input chunk layout "+j.layout+"): "+clipN(j.msg, 600), req, clipN(j.ans, 300), "same files in both modes, mdat payload = bytes of the segment's samples")
		}
		// correspondence: the model's chunk walk (Model/Mdat.lean copySampleData, lazy, no work buffer) on the track's
		// tables and the input file gives the bytes the tool copied behind the header-only mdat
		if !j.mux && len(j.pf.bytes) <= 5000 && modelLines < c.N(400, 4000) {
			var names []string
			for n := range j.lazyInfo {
				names = append(names, n)
			}
			sort.Strings(names)
			fh := hx(j.pf.bytes)
			for _, n := range names {
				info := j.lazyInfo[n]
				if len(info.tracks) != 1 || info.tracks[0].count == 0 || info.tracks[0].first == 0 {
					continue
				}
				which, media := "v", "video"
				if strings.HasPrefix(n, "out_a") {
					which, media = "a", "audio"
				}
				for _, t := range j.pf.tracks {
					if t.media != media {
						continue
					}
					to := info.tracks[0]
					line := fmt.Sprintf("seg.copy %s %d %d %d %d %d %s %d %s %d", t.tablesLine(j.pf.co64), j.pf.mdatStart, j.pf.mdatHdr, j.pf.mdatSize,
						to.first, to.first+to.count-1, fh, j.ms, which, segNr(n))
					c.Case(line, hx(info.behind))
					modelLines++
					c.Count("segmenter model lines (copyMediaData vs Model/Mdat chunk walk)")
					break
				}
			}
		}
	}
}
