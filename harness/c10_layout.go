package main

import (
	"encoding/binary"
	"fmt"
	"math/rand"
	"sort"
	"strings"
)

// Layout family for C10 (input spec "lay <seed> <ntracks> <max>"): the tracks, tables and headers of the extended
// generator (c10_gen.go), stored the way ISO/IEC 14496-12 allows but ordinary muxers do not write:
//
//   - chunk placement inside mdat is an arbitrary arrangement of the chunks of all tracks ("arbitrary chunking and
//     interleaving"): a random permutation, tracks stored back to front, every track's chunks in descending order,
//     everything backwards, places of two chunks of a track exchanged, late chunks stored first, or (control) the
//     usual ascending interleaving; with or without unreferenced bytes before, between and after the chunks;
//   - the top level of the file carries additional boxes around moov and the media ("whatever DecodeFile accepts as
//     a progressive file"): free / skip / uuid boxes (8- and 16-byte headers), empty mdat boxes (8- and 16-byte
//     headers) before / between / after moov and the mdat holding the media; moov before or after the media;
//     8- or 16-byte header on the media mdat.
//
// The file is assembled from raw bytes: ftyp and moov are taken from the extended generator's file, the chunk offset
// entries of stco/co64 are overwritten in place (their number does not change, so moov keeps its size), every other
// box is written here. progSelfCheck (raw expansion == what the generator knows per sample) guards the result.

var layOrders = []string{"shuffled", "shuffled", "tracks-back-to-front", "per-track-descending", "backwards", "swapped-pairs", "late-chunks-first", "ascending"}

func layBox(typ string, payload []byte, large bool) []byte {
	var b []byte
	if large {
		b = make([]byte, 16)
		binary.BigEndian.PutUint32(b, 1)
		copy(b[4:], typ)
		binary.BigEndian.PutUint64(b[8:], uint64(16+len(payload)))
	} else {
		b = make([]byte, 8)
		binary.BigEndian.PutUint32(b, uint32(8+len(payload)))
		copy(b[4:], typ)
	}
	return append(b, payload...)
}

func layRandBytes(r *rand.Rand, n int) []byte {
	b := make([]byte, n)
	for i := range b {
		b[i] = byte(1 + r.Intn(255))
	}
	return b
}

// layExtraBox draws one additional top-level box; wantMdat forces an empty mdat.
func layExtraBox(r *rand.Rand, wantMdat bool) []byte {
	k := r.Intn(9)
	if wantMdat {
		k = 6 + r.Intn(3)
	}
	switch k {
	case 0:
		return layBox("free", nil, false)
	case 1:
		return layBox("free", layRandBytes(r, 1+r.Intn(40)), false)
	case 2:
		return layBox("skip", layRandBytes(r, r.Intn(24)), false)
	case 3:
		return layBox("uuid", layRandBytes(r, 16+r.Intn(30)), false)
	case 4:
		return layBox("free", layRandBytes(r, r.Intn(12)), true)
	case 5:
		return layBox("uuid", layRandBytes(r, 16+r.Intn(8)), true)
	case 6, 7:
		return layBox("mdat", nil, false)
	default:
		return layBox("mdat", nil, true)
	}
}

type layChunk struct{ t, c int }

// layChunkOrder returns the storage order of all chunks of all tracks.
func layChunkOrder(r *rand.Rand, tracks []*progTrack, mode string) []layChunk {
	// the ascending random interleaving every other generator uses
	var asc []layChunk
	next := make([]int, len(tracks))
	for {
		var cand []int
		for i, t := range tracks {
			if next[i] < len(t.chunkLens) {
				cand = append(cand, i)
			}
		}
		if len(cand) == 0 {
			break
		}
		i := cand[r.Intn(len(cand))]
		asc = append(asc, layChunk{i, next[i]})
		next[i]++
	}
	rev := func(l []layChunk) {
		for i, j := 0, len(l)-1; i < j; i, j = i+1, j-1 {
			l[i], l[j] = l[j], l[i]
		}
	}
	switch mode {
	case "shuffled":
		r.Shuffle(len(asc), func(i, j int) { asc[i], asc[j] = asc[j], asc[i] })
	case "tracks-back-to-front":
		var out []layChunk
		for i := len(tracks) - 1; i >= 0; i-- {
			for c := range tracks[i].chunkLens {
				out = append(out, layChunk{i, c})
			}
		}
		if len(tracks) == 1 { // a single track stored back to front = its chunks in descending order
			rev(out)
		}
		return out
	case "per-track-descending":
		for i := range asc {
			asc[i].c = len(tracks[asc[i].t].chunkLens) - 1 - asc[i].c
		}
	case "backwards":
		rev(asc)
	case "swapped-pairs":
		for n := 1 + r.Intn(3); n > 0; n-- {
			t := r.Intn(len(tracks))
			var idx []int
			for i, x := range asc {
				if x.t == t {
					idx = append(idx, i)
				}
			}
			if len(idx) < 2 {
				continue
			}
			a := r.Intn(len(idx) - 1)
			b := a + 1
			if r.Intn(3) == 0 {
				b = a + 1 + r.Intn(len(idx)-a-1)
			}
			asc[idx[a]], asc[idx[b]] = asc[idx[b]], asc[idx[a]]
		}
	case "late-chunks-first":
		t := r.Intn(len(tracks))
		nc := len(tracks[t].chunkLens)
		from := r.Intn(nc)
		if from == 0 && nc > 1 {
			from = 1
		}
		var first, rest []layChunk
		for _, x := range asc {
			if x.t == t && x.c >= from && len(first) < 1+nc/3 {
				first = append(first, x)
			} else {
				rest = append(rest, x)
			}
		}
		return append(first, rest...)
	}
	return asc
}

func genProgLayout(r *rand.Rand, nTracks, maxSamples int) *progExt {
	fl := []string{"mixed", "mixed", "va", "audio"}[r.Intn(4)]
	pe := genProgExt(rand.New(rand.NewSource(r.Int63())), nTracks, maxSamples, fl)
	pe.relayout(r)
	return pe
}

func (pe *progExt) relayout(r *rand.Rand) {
	pf := pe.progFile
	var bx []rawBox
	walkBoxes(pf.bytes, 0, "", &bx)
	var ftyp, moov []byte
	var offBoxes []rawBox
	moovStart := 0
	for _, b := range bx {
		switch {
		case b.path == "/ftyp":
			ftyp = append([]byte{}, pf.bytes[b.start:b.start+b.size]...)
		case b.path == "/moov":
			moov = append([]byte{}, pf.bytes[b.start:b.start+b.size]...)
			moovStart = b.start
		case strings.HasSuffix(b.path, "/stbl/stco") || strings.HasSuffix(b.path, "/stbl/co64"):
			offBoxes = append(offBoxes, b)
		}
	}
	if ftyp == nil || moov == nil || len(offBoxes) != len(pf.tracks) {
		panic("relayout: unexpected file structure")
	}
	mode := layOrders[r.Intn(len(layOrders))]
	order := layChunkOrder(r, pf.tracks, mode)
	pe.layout = "lay:" + mode

	// top level: ftyp S0 A S1 B S2 with {A, B} = {moov, media mdat}
	pf.mdatFirst = r.Intn(2) == 0
	pf.largeMdat = r.Intn(3) == 0
	var slots [3][][]byte
	switch r.Intn(4) {
	case 0: // no additional boxes: the chunk placement alone
	case 1: // exactly one additional empty mdat somewhere
		s := r.Intn(3)
		slots[s] = append(slots[s], layExtraBox(r, true))
	default:
		for s := 0; s < 3; s++ {
			for n := r.Intn(3); n > 0; n-- {
				slots[s] = append(slots[s], layExtraBox(r, false))
			}
		}
		if r.Intn(3) == 0 {
			s := r.Intn(3)
			slots[s] = append(slots[s], layExtraBox(r, true))
		}
	}
	sz := func(bs [][]byte) int {
		n := 0
		for _, b := range bs {
			n += len(b)
		}
		return n
	}
	hdr := 8
	if pf.largeMdat {
		hdr = 16
	}
	mdatStart := len(ftyp) + sz(slots[0])
	if !pf.mdatFirst {
		mdatStart += len(moov) + sz(slots[1])
	}
	payloadStart := uint64(mdatStart + hdr)

	// media: the chunks in storage order, optionally with unreferenced bytes around them
	gaps := r.Intn(3) == 0
	var payload []byte
	for _, t := range pf.tracks {
		t.chunkOffs = make([]uint64, len(t.chunkLens))
	}
	firstSample := make([][]int, len(pf.tracks))
	for i, t := range pf.tracks {
		s := 0
		for _, k := range t.chunkLens {
			firstSample[i] = append(firstSample[i], s)
			s += k
		}
	}
	if gaps && r.Intn(2) == 0 {
		payload = append(payload, layRandBytes(r, 1+r.Intn(16))...)
	}
	for _, x := range order {
		t := pf.tracks[x.t]
		if gaps && r.Intn(4) == 0 {
			payload = append(payload, layRandBytes(r, 1+r.Intn(9))...)
		}
		t.chunkOffs[x.c] = payloadStart + uint64(len(payload))
		s0 := firstSample[x.t][x.c]
		for k := 0; k < t.chunkLens[x.c]; k++ {
			payload = append(payload, t.data[s0+k]...)
		}
	}
	if gaps && r.Intn(2) == 0 {
		payload = append(payload, layRandBytes(r, 1+r.Intn(16))...)
	}
	// chunk offsets into the moov bytes
	for i, t := range pf.tracks {
		b := offBoxes[i]
		p := b.start - moovStart + b.hl
		if int(binary.BigEndian.Uint32(moov[p+4:])) != len(t.chunkOffs) {
			panic("relayout: chunk offset entry count")
		}
		for k, o := range t.chunkOffs {
			if b.typ == "co64" {
				binary.BigEndian.PutUint64(moov[p+8+8*k:], o)
			} else {
				binary.BigEndian.PutUint32(moov[p+8+4*k:], uint32(o))
			}
		}
	}
	var out []byte
	out = append(out, ftyp...)
	put := func(bs [][]byte) {
		for _, b := range bs {
			out = append(out, b...)
		}
	}
	put(slots[0])
	media := layBox("mdat", payload, pf.largeMdat)
	if pf.mdatFirst {
		out = append(out, media...)
		put(slots[1])
		out = append(out, moov...)
	} else {
		out = append(out, moov...)
		put(slots[1])
		out = append(out, media...)
	}
	put(slots[2])
	pf.mdatStart, pf.mdatHdr, pf.mdatSize = uint64(mdatStart), hdr, uint64(len(media))
	pf.bytes = out
	if string(out[mdatStart+4:mdatStart+8]) != "mdat" {
		panic(fmt.Sprintf("relayout: media mdat not at %d", mdatStart))
	}
}

// ---------- coverage evidence, derived from the raw expansion of the input (not from the generator)

// describeLayout counts the top-level shape and the chunk placement of an input file.
func describeLayout(c *Ctx, in *rawProg) {
	media := -1 // index in in.top of the mdat holding the media (the non-empty one)
	nm := 0
	for i, x := range in.top {
		if x == "mdat" {
			if nm < len(in.mdats) && in.mdats[nm].end > in.mdats[nm].payload {
				media = i
			}
			nm++
		}
	}
	c.Count(fmt.Sprintf("layout: mdat boxes=%d", nm))
	if media >= 0 {
		moovAt := -1
		for i, x := range in.top {
			if x == "moov" {
				moovAt = i
			}
		}
		other := func(lo, hi int) (n int) { // additional boxes strictly between positions lo and hi
			for i := lo + 1; i < hi && i < len(in.top); i++ {
				if in.top[i] != "moov" && i != media {
					n++
				}
			}
			return
		}
		a, b := moovAt, media
		if a > b {
			a, b = b, a
		}
		c.Count(fmt.Sprintf("layout: additional boxes between moov and media=%v after both=%v", other(a, b) > 0, other(b, len(in.top)) > 0))
	}
	for _, t := range in.tracks {
		asc := true
		for i := 1; i < len(t.chunkOff); i++ {
			if t.chunkOff[i] < t.chunkOff[i-1] {
				asc = false
			}
		}
		c.Count(fmt.Sprintf("layout: track chunk offsets ascending=%v", asc))
	}
}

// keptOrderShape tells whether the chunks kept by a crop lie in the input in the order in which the output stores
// them (output chunk offsets ascending = storage order of the new mdat).
func keptOrderShape(in, o *rawProg) string {
	type kc struct{ inOff, outOff uint64 }
	var l []kc
	for ti, ot := range o.tracks {
		it := in.tracks[ti]
		for ci := range ot.chunkOff {
			if ci < len(it.chunkOff) {
				l = append(l, kc{it.chunkOff[ci], ot.chunkOff[ci]})
			}
		}
	}
	sort.Slice(l, func(i, j int) bool { return l[i].outOff < l[j].outOff })
	for i := 1; i < len(l); i++ {
		if l[i].inOff < l[i-1].inOff {
			return "kept chunks: stored in the input in another order than in the output"
		}
	}
	return "kept chunks: same storage order in input and output"
}
