package main

// C16 entry-point table. Every op returns a short canonical summary ("ok ..." or "err"); panics
// propagate to c16RunOp which recovers them.

import (
	"bytes"
	"encoding/json"
	"fmt"
	"io"
	"strings"

	"github.com/Eyevinn/mp4ff/aac"
	"github.com/Eyevinn/mp4ff/av1"
	"github.com/Eyevinn/mp4ff/avc"
	"github.com/Eyevinn/mp4ff/hevc"
	"github.com/Eyevinn/mp4ff/sei"
)

// parameter-set context of the nalu groups: maps built from ctx1 (SPS NAL unit) and ctx2 (PPS NAL unit)
// exactly as a caller (mp4ff-pslister, the mp4 package) would: only error-free parses are entered.
type c16Ctx struct {
	avcSps    *avc.SPS
	avcSpsMap map[uint32]*avc.SPS
	avcPpsMap map[uint32]*avc.PPS
	hevSps    *hevc.SPS
	hevSpsMap map[uint32]*hevc.SPS
	hevPpsMap map[uint32]*hevc.PPS
}

func (x *c16In) avcCtx() *c16Ctx {
	if x.ctx != nil {
		return x.ctx
	}
	c := &c16Ctx{avcSpsMap: map[uint32]*avc.SPS{}, avcPpsMap: map[uint32]*avc.PPS{}}
	x.ctx = c
	_ = safe(func() {
		if len(x.ctx1) > 0 {
			if s, err := avc.ParseSPSNALUnit(x.ctx1, true); err == nil && s != nil {
				c.avcSps = s
				c.avcSpsMap[s.ParameterID] = s
			}
		}
		if len(x.ctx2) > 0 {
			if p, err := avc.ParsePPSNALUnit(x.ctx2, c.avcSpsMap); err == nil && p != nil {
				c.avcPpsMap[p.PicParameterSetID] = p
			}
		}
	})
	return c
}

func (x *c16In) hevcCtx() *c16Ctx {
	if x.ctx != nil {
		return x.ctx
	}
	c := &c16Ctx{hevSpsMap: map[uint32]*hevc.SPS{}, hevPpsMap: map[uint32]*hevc.PPS{}}
	x.ctx = c
	_ = safe(func() {
		if len(x.ctx1) > 0 {
			if s, err := hevc.ParseSPSNALUnit(x.ctx1); err == nil && s != nil {
				c.hevSps = s
				c.hevSpsMap[uint32(s.SpsID)] = s
			}
		}
		if len(x.ctx2) > 0 {
			if p, err := hevc.ParsePPSNALUnit(x.ctx2, c.hevSpsMap); err == nil && p != nil {
				c.hevPpsMap[p.PicParameterSetID] = p
			}
		}
	})
	return c
}

func c16Tot(l [][]byte) int {
	n := 0
	for _, b := range l {
		n += len(b)
	}
	return n
}

func c16OkErr(err error) string {
	if err != nil {
		return "err"
	}
	return "ok"
}

// c16Msg exercises every method of a decoded SEI message.
func c16Msg(m sei.SEIMessage) string {
	if m == nil {
		return "nil"
	}
	t := m.Type()
	sz := m.Size()
	s := m.String()
	pl := m.Payload()
	return fmt.Sprintf("%d/%d/%d/%d", t, sz, len(s), len(pl))
}

// c16MaxMsgs: String/Payload/Size are exercised on the first messages of a NAL unit only, so that the harness'
// own output does not dominate the allocation of NAL units with tens of thousands of empty messages (every
// decoder's methods are exercised on every input of the seimsg group).
const c16MaxMsgs = 64

func c16Msgs(ms []sei.SEIMessage) string {
	var s []string
	for i, m := range ms {
		if i >= c16MaxMsgs {
			s = append(s, fmt.Sprintf("+%d", len(ms)-i))
			break
		}
		s = append(s, c16Msg(m))
	}
	return strings.Join(s, ",")
}

func c16DecMsg(m sei.SEIMessage, err error) string {
	if err != nil {
		return "err"
	}
	return "ok " + c16Msg(m)
}

// the library calls mp4ff-nallister makes on the bytes of one sample (printAVCNalus/printHEVCNalus/
// printSEINALus with seiLevel 1); empty NAL units are skipped (the tool indexes nalu[0] itself).
func c16Nallister(codec string, nalus [][]byte) string {
	var avcSPS *avc.SPS
	nSei, nMsg := 0, 0
	seiErr := 0
	for _, nalu := range nalus {
		if len(nalu) == 0 {
			continue
		}
		var seiCodec sei.Codec
		hdrLen := 1
		isSei := false
		if codec == "avc" {
			seiCodec = sei.AVC
			t := avc.GetNaluType(nalu[0])
			_ = t.String()
			switch t {
			case avc.NALU_SPS:
				s, err := avc.ParseSPSNALUnit(nalu, true)
				if err != nil {
					return "err sps"
				}
				avcSPS = s
			case avc.NALU_NON_IDR, avc.NALU_IDR:
				st, err := avc.GetSliceTypeFromNALU(nalu)
				if err == nil {
					_ = st.String()
				}
			case avc.NALU_SEI:
				isSei = true
			}
		} else {
			seiCodec = sei.HEVC
			hdrLen = 2
			t := hevc.GetNaluType(nalu[0])
			_ = t.String()
			isSei = t == hevc.NALU_SEI_PREFIX || t == hevc.NALU_SEI_SUFFIX
		}
		if !isSei {
			continue
		}
		nSei++
		if len(nalu) < hdrLen {
			continue // the tool slices seiNALU[hdrLen:] itself
		}
		seiDatas, err := sei.ExtractSEIData(bytes.NewReader(nalu[hdrLen:]))
		if err != nil && err != sei.ErrRbspTrailingBitsMissing {
			seiErr++
			continue
		}
		for i := range seiDatas {
			sd := seiDatas[i]
			var m sei.SEIMessage
			switch {
			case codec == "avc" && sd.Type() == sei.SEIPicTimingType && avcSPS != nil && avcSPS.VUI != nil:
				var cd *sei.CbpDbpDelay
				var tol byte
				hp := avcSPS.VUI.VclHrdParameters
				if hp == nil {
					hp = avcSPS.VUI.NalHrdParameters
				}
				if hp != nil {
					cd = &sei.CbpDbpDelay{CpbRemovalDelayLengthMinus1: byte(hp.CpbRemovalDelayLengthMinus1), DpbOutputDelayLengthMinus1: byte(hp.DpbOutputDelayLengthMinus1)}
					tol = byte(hp.TimeOffsetLength)
				}
				m, err = sei.DecodePicTimingAvcSEIHRD(&sd, cd, tol)
			default:
				m, err = sei.DecodeSEIMessage(&sd, seiCodec)
			}
			if err != nil {
				seiErr++
				continue
			}
			_ = m.String()
			nMsg++
		}
	}
	return fmt.Sprintf("ok nalus=%d sei=%d msgs=%d seierr=%d", len(nalus), nSei, nMsg, seiErr)
}

// the library calls mp4ff-pslister makes on parameter sets (printAvcPS / printHevcPS, verbose)
func c16PslisterAvc(spss, ppss [][]byte) string {
	if len(spss) == 0 {
		return "err nosps"
	}
	m := map[uint32]*avc.SPS{}
	for _, n := range spss {
		s, err := avc.ParseSPSNALUnit(n, true)
		if err != nil {
			return "err sps"
		}
		_, _ = json.MarshalIndent(s, "", "  ")
		m[s.ParameterID] = s
	}
	for _, n := range ppss {
		p, err := avc.ParsePPSNALUnit(n, m)
		if err != nil {
			return "err pps"
		}
		_, _ = json.MarshalIndent(p, "", "  ")
	}
	s, _ := avc.ParseSPSNALUnit(spss[0], true)
	return "ok " + avc.CodecString("avc1", s)
}

func c16PslisterHevc(vpss, spss, ppss [][]byte) string {
	m := map[uint32]*hevc.SPS{}
	for _, n := range spss {
		s, err := hevc.ParseSPSNALUnit(n)
		if err != nil {
			return "err sps"
		}
		_, _ = json.MarshalIndent(s, "", "  ")
		m[uint32(s.SpsID)] = s
	}
	for _, n := range ppss {
		p, err := hevc.ParsePPSNALUnit(n, m)
		if err != nil {
			return "err pps"
		}
		_, _ = json.MarshalIndent(p, "", "  ")
	}
	if len(spss) > 0 {
		s, _ := hevc.ParseSPSNALUnit(spss[0])
		return "ok " + hevc.CodecString("hvc1", s)
	}
	return "ok"
}

func c16NonEmpty(l [][]byte) [][]byte {
	var o [][]byte
	for _, n := range l {
		if len(n) > 0 {
			o = append(o, n)
		}
	}
	return o
}

func c16SeiParams(p int) (a, b, c byte, flags int) {
	return byte(p & 31), byte((p >> 5) & 31), byte((p >> 10) & 31), (p >> 15) & 15
}

func init() {
	// ------------------------------------------------------------------ group "sample"
	// d = length-prefixed sample, p1 = NAL unit type probed by the Contains ops
	c16Reg("sample", "avc.GetNalusFromSample", func(x *c16In) string {
		l, err := avc.GetNalusFromSample(x.d)
		if err != nil {
			return "err"
		}
		return fmt.Sprintf("ok n=%d b=%d", len(l), c16Tot(l))
	})
	c16Reg("sample", "avc.FindNaluTypes", func(x *c16In) string {
		return fmt.Sprintf("ok n=%d", len(avc.FindNaluTypes(x.d)))
	})
	c16Reg("sample", "avc.FindNaluTypesUpToFirstVideoNALU", func(x *c16In) string {
		return fmt.Sprintf("ok n=%d", len(avc.FindNaluTypesUpToFirstVideoNALU(x.d)))
	})
	c16Reg("sample", "avc.ContainsNaluType", func(x *c16In) string {
		return "ok " + b01(avc.ContainsNaluType(x.d, avc.NaluType(x.p1)))
	})
	c16Reg("sample", "avc.IsIDRSample", func(x *c16In) string { return "ok " + b01(avc.IsIDRSample(x.d)) })
	c16Reg("sample", "avc.HasParameterSets", func(x *c16In) string { return "ok " + b01(avc.HasParameterSets(x.d)) })
	c16Reg("sample", "avc.GetParameterSets", func(x *c16In) string {
		s, p := avc.GetParameterSets(x.d)
		return fmt.Sprintf("ok s=%d p=%d b=%d", len(s), len(p), c16Tot(s)+c16Tot(p))
	})
	c16Reg("sample", "avc.ConvertSampleToByteStream", func(x *c16In) string {
		return fmt.Sprintf("ok b=%d", len(avc.ConvertSampleToByteStream(cp(x.d))))
	})
	c16Reg("sample", "hevc.FindNaluTypes", func(x *c16In) string {
		return fmt.Sprintf("ok n=%d", len(hevc.FindNaluTypes(x.d)))
	})
	c16Reg("sample", "hevc.FindNaluTypesUpToFirstVideoNalu", func(x *c16In) string {
		return fmt.Sprintf("ok n=%d", len(hevc.FindNaluTypesUpToFirstVideoNalu(x.d)))
	})
	c16Reg("sample", "hevc.ContainsNaluType", func(x *c16In) string {
		return "ok " + b01(hevc.ContainsNaluType(x.d, hevc.NaluType(x.p1)))
	})
	c16Reg("sample", "hevc.IsRAPSample", func(x *c16In) string { return "ok " + b01(hevc.IsRAPSample(x.d)) })
	c16Reg("sample", "hevc.IsIDRSample", func(x *c16In) string { return "ok " + b01(hevc.IsIDRSample(x.d)) })
	c16Reg("sample", "hevc.HasParameterSets", func(x *c16In) string { return "ok " + b01(hevc.HasParameterSets(x.d)) })
	c16Reg("sample", "hevc.GetParameterSets", func(x *c16In) string {
		v, s, p := hevc.GetParameterSets(x.d)
		return fmt.Sprintf("ok v=%d s=%d p=%d b=%d", len(v), len(s), len(p), c16Tot(v)+c16Tot(s)+c16Tot(p))
	})
	c16Reg("sample", "nallister.avc.sample", func(x *c16In) string {
		l, err := avc.GetNalusFromSample(x.d)
		if err != nil {
			return "err"
		}
		return c16Nallister("avc", l)
	})
	c16Reg("sample", "nallister.hevc.sample", func(x *c16In) string {
		l, err := avc.GetNalusFromSample(x.d)
		if err != nil {
			return "err"
		}
		return c16Nallister("hevc", l)
	})
	c16Reg("sample", "pslister.avc.sample", func(x *c16In) string {
		s, p := avc.GetParameterSets(x.d)
		return c16PslisterAvc(s, p)
	})
	c16Reg("sample", "pslister.hevc.sample", func(x *c16In) string {
		v, s, p := hevc.GetParameterSets(x.d)
		if len(s) == 0 {
			return "err nosps"
		}
		return c16PslisterHevc(v, s, p)
	})

	// ------------------------------------------------------------------ group "annexb"
	// d = Annex B byte stream, p1 = NAL unit type, p2 = stopAtVideo
	c16Reg("annexb", "avc.ExtractNalusFromByteStream", func(x *c16In) string {
		l := avc.ExtractNalusFromByteStream(x.d)
		return fmt.Sprintf("ok n=%d b=%d", len(l), c16Tot(l))
	})
	c16Reg("annexb", "avc.ConvertByteStreamToNaluSample", func(x *c16In) string {
		return fmt.Sprintf("ok b=%d", len(avc.ConvertByteStreamToNaluSample(cp(x.d))))
	})
	c16Reg("annexb", "avc.GetParameterSetsFromByteStream", func(x *c16In) string {
		s, p := avc.GetParameterSetsFromByteStream(x.d)
		return fmt.Sprintf("ok s=%d p=%d b=%d", len(s), len(p), c16Tot(s)+c16Tot(p))
	})
	c16Reg("annexb", "avc.ExtractNalusOfTypeFromByteStream", func(x *c16In) string {
		l := avc.ExtractNalusOfTypeFromByteStream(avc.NaluType(x.p1), x.d, x.p2 != 0)
		return fmt.Sprintf("ok n=%d b=%d", len(l), c16Tot(l))
	})
	c16Reg("annexb", "avc.GetFirstAVCVideoNALUFromByteStream", func(x *c16In) string {
		return fmt.Sprintf("ok b=%d", len(avc.GetFirstAVCVideoNALUFromByteStream(x.d)))
	})
	c16Reg("annexb", "hevc.GetParameterSetsFromByteStream", func(x *c16In) string {
		v, s, p := hevc.GetParameterSetsFromByteStream(x.d)
		return fmt.Sprintf("ok v=%d s=%d p=%d b=%d", len(v), len(s), len(p), c16Tot(v)+c16Tot(s)+c16Tot(p))
	})
	c16Reg("annexb", "hevc.ExtractNalusOfTypeFromByteStream", func(x *c16In) string {
		l := hevc.ExtractNalusOfTypeFromByteStream(hevc.NaluType(x.p1), x.d, x.p2 != 0)
		return fmt.Sprintf("ok n=%d b=%d", len(l), c16Tot(l))
	})
	nallAnnexB := func(codec string) func(x *c16In) string {
		return func(x *c16In) string {
			// mp4ff-nallister -annexb: ConvertByteStreamToNaluSample + GetNalusFromSample, then per NAL unit
			sd := avc.ConvertByteStreamToNaluSample(cp(x.d))
			l, err := avc.GetNalusFromSample(sd)
			if err != nil {
				return "err"
			}
			return c16Nallister(codec, l)
		}
	}
	c16Reg("annexb", "nallister.avc.annexb", nallAnnexB("avc"))
	c16Reg("annexb", "nallister.hevc.annexb", nallAnnexB("hevc"))
	c16Reg("annexb", "pslister.avc.annexb", func(x *c16In) string {
		var s, p [][]byte
		for _, n := range c16NonEmpty(avc.ExtractNalusFromByteStream(x.d)) {
			switch avc.GetNaluType(n[0]) {
			case avc.NALU_SPS:
				if len(p) == 0 {
					s = append(s, n)
				}
			case avc.NALU_PPS:
				p = append(p, n)
			}
		}
		return c16PslisterAvc(s, p)
	})
	c16Reg("annexb", "pslister.hevc.annexb", func(x *c16In) string {
		var v, s, p [][]byte
		for _, n := range c16NonEmpty(avc.ExtractNalusFromByteStream(x.d)) {
			switch hevc.GetNaluType(n[0]) {
			case hevc.NALU_VPS:
				if len(s) == 0 {
					v = append(v, n)
				}
			case hevc.NALU_SPS:
				s = append(s, n)
			case hevc.NALU_PPS:
				p = append(p, n)
			}
		}
		return c16PslisterHevc(v, s, p)
	})

	// ------------------------------------------------------------------ group "nalu.avc"
	// d = one NAL unit (with header), ctx1 = SPS NAL unit, ctx2 = PPS NAL unit of the context
	avcSps := func(vui bool) func(x *c16In) string {
		return func(x *c16In) string {
			s, err := avc.ParseSPSNALUnit(x.d, vui)
			if err != nil {
				return "err"
			}
			_ = avc.CodecString("avc1", s)
			_ = s.ConstraintFlags()
			_ = s.ChromaArrayType()
			hrd := 0
			if s.VUI != nil && (s.VUI.NalHrdParameters != nil || s.VUI.VclHrdParameters != nil) {
				hrd = 1
			}
			return fmt.Sprintf("ok %dx%d poc=%d sl=%d vui=%s hrd=%d dly=%s ps=%s", s.Width, s.Height, s.PicOrderCntType, len(s.SeqScalingLists),
				b01(s.VUI != nil), hrd, b01(s.CpbDpbDelaysPresent()), b01(s.PicStructPresent()))
		}
	}
	c16Reg("nalu.avc", "avc.ParseSPSNALUnit.novui", avcSps(false))
	c16Reg("nalu.avc", "avc.ParseSPSNALUnit.vui", avcSps(true))
	c16Reg("nalu.avc", "avc.ParsePPSNALUnit", func(x *c16In) string {
		p, err := avc.ParsePPSNALUnit(x.d, x.avcCtx().avcSpsMap)
		if err != nil {
			return "err"
		}
		return fmt.Sprintf("ok sg=%d/%d sl=%d", p.NumSliceGroupsMinus1, p.SliceGroupMapType, len(p.PicScalingLists))
	})
	c16Reg("nalu.avc", "avc.ParseSliceHeader", func(x *c16In) string {
		c := x.avcCtx()
		sh, err := avc.ParseSliceHeader(x.d, c.avcSpsMap, c.avcPpsMap)
		if err != nil {
			return "err"
		}
		return fmt.Sprintf("ok t=%s size=%d", sh.SliceType, sh.Size)
	})
	c16Reg("nalu.avc", "avc.GetSliceTypeFromNALU", func(x *c16In) string {
		st, err := avc.GetSliceTypeFromNALU(x.d)
		if err != nil {
			return "err"
		}
		return "ok " + st.String()
	})
	c16Reg("nalu.avc", "avc.ParseSEINalu.nosps", func(x *c16In) string {
		ms, err := avc.ParseSEINalu(x.d, nil)
		if err != nil && err != sei.ErrRbspTrailingBitsMissing {
			return "err"
		}
		return "ok " + c16Msgs(ms)
	})
	c16Reg("nalu.avc", "avc.ParseSEINalu.sps", func(x *c16In) string {
		ms, err := avc.ParseSEINalu(x.d, x.avcCtx().avcSps)
		if err != nil && err != sei.ErrRbspTrailingBitsMissing {
			return "err"
		}
		return "ok " + c16Msgs(ms)
	})
	c16Reg("nalu.avc", "avc.CreateAVCDecConfRec", func(x *c16In) string {
		r, err := avc.CreateAVCDecConfRec([][]byte{x.d}, [][]byte{x.ctx2}, true)
		if err != nil {
			return "err"
		}
		err = r.Encode(io.Discard)
		return fmt.Sprintf("ok size=%d enc=%s", r.Size(), c16OkErr(err))
	})

	// ------------------------------------------------------------------ group "nalu.hevc"
	c16Reg("nalu.hevc", "hevc.ParseSPSNALUnit", func(x *c16In) string {
		s, err := hevc.ParseSPSNALUnit(x.d)
		if err != nil {
			return "err"
		}
		w, h := s.ImageSize()
		_ = hevc.CodecString("hvc1", s)
		ext := 0
		if s.RangeExtension != nil {
			ext |= 1
		}
		if s.MultilayerExtension != nil {
			ext |= 2
		}
		if s.D3Extension != nil {
			ext |= 4
		}
		if s.SccExtension != nil {
			ext |= 8
		}
		hrd := 0
		if s.VUI != nil && s.VUI.HrdParameters != nil {
			hrd = 1
		}
		return fmt.Sprintf("ok %dx%d st=%d lt=%d vui=%s hrd=%d ext=%d", w, h, len(s.ShortTermRefPicSets), len(s.LongTermRefPicSets), b01(s.VUI != nil), hrd, ext)
	})
	c16Reg("nalu.hevc", "hevc.ParsePPSNALUnit", func(x *c16In) string {
		p, err := hevc.ParsePPSNALUnit(x.d, x.hevcCtx().hevSpsMap)
		if err != nil {
			return "err"
		}
		ext := 0
		if p.RangeExtension != nil {
			ext |= 1
		}
		if p.MultilayerExtension != nil {
			ext |= 2
		}
		if p.D3Extension != nil {
			ext |= 4
		}
		if p.SccExtension != nil {
			ext |= 8
		}
		return fmt.Sprintf("ok tiles=%s ext=%d", b01(p.TilesEnabledFlag), ext)
	})
	c16Reg("nalu.hevc", "hevc.ParseSliceHeader", func(x *c16In) string {
		c := x.hevcCtx()
		sh, err := hevc.ParseSliceHeader(x.d, c.hevSpsMap, c.hevPpsMap)
		if err != nil {
			return "err"
		}
		return fmt.Sprintf("ok t=%d size=%d", sh.SliceType, sh.Size)
	})
	c16Reg("nalu.hevc", "hevc.ParseSEINalu.nosps", func(x *c16In) string {
		ms, err := hevc.ParseSEINalu(x.d, nil)
		if err != nil && err != sei.ErrRbspTrailingBitsMissing {
			return "err"
		}
		return "ok " + c16Msgs(ms)
	})
	c16Reg("nalu.hevc", "hevc.ParseSEINalu.sps", func(x *c16In) string {
		ms, err := hevc.ParseSEINalu(x.d, x.hevcCtx().hevSps)
		if err != nil && err != sei.ErrRbspTrailingBitsMissing {
			return "err"
		}
		return "ok " + c16Msgs(ms)
	})
	c16Reg("nalu.hevc", "hevc.CreateHEVCDecConfRec", func(x *c16In) string {
		r, err := hevc.CreateHEVCDecConfRec(nil, [][]byte{x.d}, [][]byte{x.ctx2}, true, true, true, true)
		if err != nil {
			return "err"
		}
		err = r.Encode(io.Discard)
		return fmt.Sprintf("ok size=%d enc=%s", r.Size(), c16OkErr(err))
	})

	// ------------------------------------------------------------------ group "seimsg"
	// d = SEI payload (rbsp), p1 = payload type, p2 = packed external parameters
	c16Reg("seimsg", "sei.DecodeSEIMessage.avc", func(x *c16In) string {
		return c16DecMsg(sei.DecodeSEIMessage(sei.NewSEIData(uint(x.p1), x.d), sei.AVC))
	})
	c16Reg("seimsg", "sei.DecodeSEIMessage.hevc", func(x *c16In) string {
		return c16DecMsg(sei.DecodeSEIMessage(sei.NewSEIData(uint(x.p1), x.d), sei.HEVC))
	})
	c16Reg("seimsg", "sei.DecodeGeneralSEI", func(x *c16In) string {
		return "ok " + c16Msg(sei.DecodeGeneralSEI(sei.NewSEIData(uint(x.p1), x.d)))
	})
	c16Reg("seimsg", "sei.DecodePicTimingAvcSEI", func(x *c16In) string {
		return c16DecMsg(sei.DecodePicTimingAvcSEI(sei.NewSEIData(1, x.d)))
	})
	c16Reg("seimsg", "sei.DecodePicTimingAvcSEIHRD", func(x *c16In) string {
		a, b, c, fl := c16SeiParams(x.p2)
		var cd *sei.CbpDbpDelay
		if fl&1 != 0 {
			cd = &sei.CbpDbpDelay{CpbRemovalDelayLengthMinus1: a, DpbOutputDelayLengthMinus1: b}
		}
		return c16DecMsg(sei.DecodePicTimingAvcSEIHRD(sei.NewSEIData(1, x.d), cd, c))
	})
	c16Reg("seimsg", "sei.DecodePicTimingHevcSEI", func(x *c16In) string {
		a, b, c, fl := c16SeiParams(x.p2)
		par := sei.HEVCPicTimingParams{FrameFieldInfoPresentFlag: fl&1 != 0, CpbDpbDelaysPresentFlag: fl&2 != 0,
			SubPicHrdParamsPresentFlag: fl&4 != 0, SubPicCpbParamsInPicTimingSeiFlag: fl&8 != 0,
			AuCbpRemovalDelayLengthMinus1: a, DpbOutputDelayLengthMinus1: b, DpbOutputDelayDuLengthMinus1: c,
			DuCpbRemovalDelayIncrementLengthMinus1: c}
		return c16DecMsg(sei.DecodePicTimingHevcSEI(sei.NewSEIData(1, x.d), par))
	})
	c16Reg("seimsg", "sei.DecodeTimeCodeSEI", func(x *c16In) string {
		return c16DecMsg(sei.DecodeTimeCodeSEI(sei.NewSEIData(136, x.d)))
	})
	c16Reg("seimsg", "sei.DecodeMasteringDisplayColourVolumeSEI", func(x *c16In) string {
		return c16DecMsg(sei.DecodeMasteringDisplayColourVolumeSEI(sei.NewSEIData(137, x.d)))
	})
	c16Reg("seimsg", "sei.DecodeContentLightLevelInformationSEI", func(x *c16In) string {
		return c16DecMsg(sei.DecodeContentLightLevelInformationSEI(sei.NewSEIData(144, x.d)))
	})
	c16Reg("seimsg", "sei.DecodeUserDataRegisteredSEI", func(x *c16In) string {
		return c16DecMsg(sei.DecodeUserDataRegisteredSEI(sei.NewSEIData(4, x.d)))
	})
	c16Reg("seimsg", "sei.DecodeUserDataUnregisteredSEI", func(x *c16In) string {
		return c16DecMsg(sei.DecodeUserDataUnregisteredSEI(sei.NewSEIData(5, x.d)))
	})
	c16Reg("seimsg", "sei.ExtractCEA608sei", func(x *c16In) string {
		m, err := sei.ExtractCEA608sei(sei.NewSEIData(4, x.d))
		if err != nil {
			return "err"
		}
		return "ok " + c16Msg(m)
	})
	c16Reg("seimsg", "sei.ParseCEA608", func(x *c16In) string {
		f1, f2, err := sei.ParseCEA608(x.d)
		if err != nil {
			return "err"
		}
		return fmt.Sprintf("ok %d/%d", len(f1), len(f2))
	})

	// ------------------------------------------------------------------ group "seirbsp"
	// d = SEI NAL unit payload (ebsp after the NAL unit header)
	c16Reg("seirbsp", "sei.ExtractSEIData", func(x *c16In) string {
		l, err := sei.ExtractSEIData(bytes.NewReader(x.d))
		if err != nil && err != sei.ErrRbspTrailingBitsMissing {
			return "err"
		}
		n := 0
		for i := range l {
			n += len(l[i].Payload())
			if i < c16MaxMsgs {
				_ = l[i].String()
			}
		}
		return fmt.Sprintf("ok n=%d b=%d tm=%s", len(l), n, b01(err != nil))
	})
	seiAll := func(codec sei.Codec) func(x *c16In) string {
		return func(x *c16In) string {
			l, err := sei.ExtractSEIData(bytes.NewReader(x.d))
			if err != nil && err != sei.ErrRbspTrailingBitsMissing {
				return "err"
			}
			var s []string
			for i := range l {
				m, err := sei.DecodeSEIMessage(&l[i], codec)
				if i >= c16MaxMsgs {
					continue
				}
				if err != nil {
					s = append(s, "e")
					continue
				}
				s = append(s, c16Msg(m))
			}
			return "ok " + strings.Join(s, ",")
		}
	}
	c16Reg("seirbsp", "sei.ExtractSEIData+DecodeSEIMessage.avc", seiAll(sei.AVC))
	c16Reg("seirbsp", "sei.ExtractSEIData+DecodeSEIMessage.hevc", seiAll(sei.HEVC))

	// ------------------------------------------------------------------ group "conf"
	// d = ADTS header / AudioSpecificConfig / configuration record bytes
	c16Reg("conf", "aac.DecodeADTSHeader", func(x *c16In) string {
		h, off, err := aac.DecodeADTSHeader(bytes.NewReader(x.d))
		if err != nil {
			return "err"
		}
		_ = h.Frequency()
		e := h.Encode()
		return fmt.Sprintf("ok off=%d pl=%d enc=%d", off, h.PayloadLength, len(e))
	})
	c16Reg("conf", "aac.DecodeAudioSpecificConfig", func(x *c16In) string {
		a, err := aac.DecodeAudioSpecificConfig(bytes.NewReader(x.d))
		if err != nil {
			return "err"
		}
		err = a.Encode(io.Discard)
		return fmt.Sprintf("ok ot=%d f=%d enc=%s", a.ObjectType, a.SamplingFrequency, c16OkErr(err))
	})
	c16Reg("conf", "av1.DecodeAV1CodecConfRec", func(x *c16In) string {
		r, err := av1.DecodeAV1CodecConfRec(x.d)
		if err != nil {
			return "err"
		}
		err = r.Encode(io.Discard)
		return fmt.Sprintf("ok size=%d enc=%s", r.Size(), c16OkErr(err))
	})
	c16Reg("conf", "avc.DecodeAVCDecConfRec", func(x *c16In) string {
		r, err := avc.DecodeAVCDecConfRec(x.d)
		if err != nil && err != avc.ErrCannotParseAVCExtension {
			return "err"
		}
		e := r.Encode(io.Discard)
		return fmt.Sprintf("ok s=%d p=%d size=%d enc=%s", len(r.SPSnalus), len(r.PPSnalus), r.Size(), c16OkErr(e))
	})
	c16Reg("conf", "hevc.DecodeHEVCDecConfRec", func(x *c16In) string {
		r, err := hevc.DecodeHEVCDecConfRec(x.d)
		if err != nil {
			return "err"
		}
		e := r.Encode(io.Discard)
		n := len(r.GetNalusForType(hevc.NALU_VPS)) + len(r.GetNalusForType(hevc.NALU_SPS)) + len(r.GetNalusForType(hevc.NALU_PPS))
		return fmt.Sprintf("ok arrays=%d ps=%d size=%d enc=%s", len(r.NaluArrays), n, r.Size(), c16OkErr(e))
	})
}
