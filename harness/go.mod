module verif/harness

go 1.21

require github.com/Eyevinn/mp4ff v0.0.0

replace github.com/Eyevinn/mp4ff => /repo
