package main

// C04: untrusted container input never crashes, hangs or balloons memory.
//
// Architecture
//   parent (gen):  builds seeds, derives structured mutations (c04_mut.go), writes protocol lines into batch files and
//                  runs them in isolated WORKER child processes (c04_pool.go): the harness binary re-executed with
//                  VERIF_WORKER=C04 and `-prop C04 -exec <batch>`; the worker limits its own address space (RLIMIT_AS),
//                  runs a watchdog, and answers one line per input. A worker that dies (fatal out-of-memory, stack
//                  exhaustion) or stalls is detected by the parent, the culprit is re-run alone in trace mode to obtain
//                  the entry point / phase / site, and the rest of the batch continues in a fresh worker.
//   worker (exec): runs ONE input through every decode entry point and, for every structure returned, through Info at
//                  several levels and Encode / EncodeSW in every mode; each phase is timed and its allocation measured.
//
// Protocol lines
//   in  <lvl> <hex>                       raw input bytes
//   mut <lvl> <base> <off:del:hex,...>    splice edits applied in order to a base (F:<repo file> S:<repo file, mdat payloads
//                                         cut to 64 bytes> P:<seed> generated progressive file, G:<seed> generated fragmented file)
//   scen <lvl> <index>                   hand-built scenario input number <index> of c04_scen.go
//   <lvl> is the additional specificBoxLevels argument tried for Info ("-" = none), besides "", "all:1", "all:2".
// Answer: `<entry>=<ok|err>,... | <kind>~<phase class>~<site>~<entry/phase detail>~<numbers> | ...`

import (
	"bytes"
	"fmt"
	"io"
	"os"
	"runtime"
	"runtime/debug"
	"runtime/metrics"
	"sort"
	"strings"
	"sync"
	"syscall"
	"time"

	"github.com/Eyevinn/mp4ff/bits"
	"github.com/Eyevinn/mp4ff/mp4"
)

func init() {
	props["C04"] = &propDef{
		rule: "cases = (a) every repository media file <= 300 kB unmodified, the same files with mdat payloads cut to 64 bytes, generated progressive and fragmented files, fragmented files encrypted through the library (AVC/HEVC with sub-samples, AAC without; cenc with 8- and 16-byte IVs, cbcs); (b) hand-built cross-box scenarios (moov without trak, moof without traf, traf without tfhd, mdat before moof, two moovs, empty saio, short ftyp/styp, senc with 2^32-1 samples in a 84-byte moof, ...) and the count x element-size family: every count-prefixed table box (stts ctts stsc stco co64 stss stsz stz2 stsd dref elst trun saiz saio sbgp sgpd subs tfra pssh ssix senc, PIFF uuid senc) with 3 real entries, bare and inside its container chain, and the senc box inside moof/traf in every context that fixes its per-sample IV size (none, seig group with IV size 0/1/8/16/255, preceding init with tenc IV size 0/8/16) with/without saiz+saio, with/without sub-sample entries, plain and PIFF form, each with the counts around ceil(k*2^32/e) for the element sizes e in play (count*e wraps 32 bits to 0, e, or the real table size) plus 0, n+1, 2^24, 2^31-1, 2^31, 2^32-2, 2^32-1; (c) structured mutations of (a), 1-4 steps each, optionally confined to one container and followed by a repair of the saio/mfro cross links: truncation at box boundaries and inside headers, payload shrink/grow with size fix-up, 32-bit size-field corruption {0,1,2,7,8,9,12,15,16,len+-1,len+8,2^31,2^32-1,...}, 64-bit sizes {valid,2^63,2^64-1,16,15,0,8,2^32,...}, removal / removal of all siblings of a type / duplication / swap / insertion of donor boxes with or without fix-up, count-field inflation and deflation (table-driven count offsets and generic aligned words; round huge values, +-2, or a count whose 32-bit product with an element size - the one the box exhibits, a usual one, or any small one - wraps to what fits the payload; box size unchanged, inflated, or fitted to a zero count), also aimed at a count-prefixed box of the seed instead of a random box, type changes, version/flags changes, random bytes; (d) the same mutations on every single box of (a) and on boxes of every exported box type built through the library API with reflection-filled fields; (e) synthetic short/degenerate payloads for every registered box type (8- and 16-byte headers) and random strings. Each input runs in an isolated worker process (re-executed harness, RLIMIT_AS 4 GiB, watchdog) through DecodeFile {plain io.Reader, lazy mdat, ISM flag, start-on-moof flag, all combined}, DecodeFileSR {plain, start-on-moof}, DecodeBox, DecodeBoxSR, and every returned structure through Info at levels {\"\", all:1, all:2, one per-box level spec}, Size, Encode and EncodeSW in {box-tree, segment} x {no optimisation, OptimizeTrun}, and Info/Size of the init segment, segments and fragments; oracle per phase: no panic, no fatal runtime error (out of memory, stack exhaustion), wall time <= 1 s + 5 us/byte (hang = 4x that), bytes allocated <= K*len + 16 MiB with K = 16 (decode), 64 (encode), 400 (Info); time/memory violations are confirmed by re-running the input alone; non-trivial = distinct mutated input for which at least one entry point returned a structure",
		gen:  genC04,
		exec: execC04,
	}
	if os.Getenv("VERIF_C04_TRACE") == "1" {
		runtime.MemProfileRate = 4096
	}
}

// ---- oracle constants (calibrated on the repository files: see REPORT.md)

const (
	c04MemConst   = 16 << 20 // C
	c04KDecode    = 16       // K for decode phases
	c04KEncode    = 64       // K for encode phases
	c04KInfo      = 400      // K for Info phases (text output: one line per sample-table entry)
	c04TimeConst  = 1 * time.Second
	c04TimePerB   = 5 * time.Microsecond
	c04AddrLimit  = 4 << 30
	c04MaxInput   = 300 * 1024
	c04InputTO    = 60 * time.Second  // worker safety net for one whole input (all phases)
	c04ProgressTO = 120 * time.Second // parent kills a worker that gives no answer for this long
)

func c04TimeBudget(n int) time.Duration { return c04TimeConst + time.Duration(n)*c04TimePerB }

func c04MemBudget(phaseClass string, n int) uint64 {
	k := c04KDecode
	switch {
	case strings.HasSuffix(phaseClass, "Info"):
		k = c04KInfo
	case strings.Contains(phaseClass, "Encode"):
		k = c04KEncode
	}
	return uint64(k)*uint64(n) + c04MemConst
}

// ---- worker state

type c04Viol struct {
	kind   string // panic | mem | slow | hang | oom | crash
	class  string // phase class: DecodeFile, DecodeFileSR, DecodeBox, DecodeBoxSR, File.Info, File.Encode, File.EncodeSW, Box.Info, Box.Encode, Box.EncodeSW
	site   string
	detail string // entry + phase
	nums   string
}

func (v c04Viol) String() string {
	cl := func(s string) string {
		s = strings.ReplaceAll(s, "~", "-")
		s = strings.ReplaceAll(s, " | ", " / ")
		s = strings.ReplaceAll(s, "\n", " ")
		if len(s) > 300 {
			s = s[:300]
		}
		return s
	}
	return cl(v.kind) + "~" + cl(v.class) + "~" + cl(v.site) + "~" + cl(v.detail) + "~" + cl(v.nums)
}

// fingerprint: kind + phase class + site. For slow/hang the site is a stack sample taken by the watchdog, so only the
// function (not the line) is kept to make the fingerprint stable.
func (v c04Viol) fingerprint() string {
	site := v.site
	if v.kind == "slow" || v.kind == "hang" {
		if i := strings.LastIndex(site, ":"); i > 0 && !strings.Contains(site[i:], " ") {
			site = site[:i]
		}
	}
	return "C04-" + v.kind + "-" + v.class + "-" + site
}

func c04ParseViol(s string) (v c04Viol, ok bool) {
	p := strings.Split(s, "~")
	if len(p) != 5 {
		return v, false
	}
	return c04Viol{p[0], p[1], p[2], p[3], p[4]}, true
}

var c04w struct {
	once     sync.Once
	trace    bool
	mu       sync.Mutex
	active   bool
	deadline time.Time
	class    string
	detail   string
	outcomes []string
	viols    []c04Viol
	sample   []metrics.Sample
	calib    map[string]float64 // trace/calibration: max (alloc-C)/len per class
	budgetAt time.Time          // when the running phase exceeds its budget (1x)
	slowSite string             // site sampled by the watchdog at that moment
	abort    bool               // a phase of the current input exceeded its time budget: skip the remaining phases
	started  time.Time          // start of the current input
}

func c04WorkerInit() {
	c04w.once.Do(func() {
		c04w.trace = os.Getenv("VERIF_C04_TRACE") == "1"
		c04w.sample = []metrics.Sample{{Name: "/gc/heap/allocs:bytes"}}
		if os.Getenv("VERIF_C04_CALIB") == "1" {
			c04w.calib = map[string]float64{}
		}
		if os.Getenv("VERIF_WORKER") == "C04" {
			lim := syscall.Rlimit{Cur: c04AddrLimit, Max: c04AddrLimit}
			_ = syscall.Setrlimit(syscall.RLIMIT_AS, &lim)
			runtime.GOMAXPROCS(2)
			buf := make([]byte, 4<<20)
			go c04Watchdog(buf)
		}
	})
}

func c04Allocs() uint64 {
	metrics.Read(c04w.sample)
	return c04w.sample[0].Value.Uint64()
}

// watchdog: a phase that exceeds 4x its budget is reported as a hang (with the site the worker goroutine is at) and the
// worker exits with status 3; the parent restarts the rest of the batch.
func c04Watchdog(buf []byte) {
	for {
		time.Sleep(50 * time.Millisecond)
		c04w.mu.Lock()
		if c04w.active && !time.Now().After(c04w.deadline) && time.Since(c04w.started) > c04InputTO {
			// safety net: the phases stay within their budgets but the input as a whole takes too long
			v := c04Viol{"slow", c04w.class, "?", c04w.detail, "whole input exceeds " + c04InputTO.String()}
			c04w.viols = append(c04w.viols, v)
			fmt.Println(c04Answer(c04w.outcomes, c04w.viols))
			os.Stdout.Sync()
			os.Exit(3)
		}
		if c04w.active && c04w.slowSite == "" && time.Now().After(c04w.budgetAt) {
			n := runtime.Stack(buf, true)
			c04w.slowSite = c04SiteFromStack(string(buf[:n]), false)
		}
		if c04w.active && time.Now().After(c04w.deadline) {
			n := runtime.Stack(buf, true)
			site := c04SiteFromStack(string(buf[:n]), false)
			v := c04Viol{"hang", c04w.class, site, c04w.detail, "still running after 4x the time budget"}
			c04w.viols = append(c04w.viols, v)
			fmt.Println(c04Answer(c04w.outcomes, c04w.viols))
			os.Stdout.Sync()
			os.Exit(3)
		}
		c04w.mu.Unlock()
	}
}

// c04SiteFromStack extracts "pkg.Func file.go:line" of the innermost mp4ff frame of the goroutine that runs the input.
// For a frame inside package bits the nearest non-bits mp4ff caller is appended.
func c04SiteFromStack(stack string, afterPanic bool) string {
	// pick the goroutine block that runs the input
	blocks := strings.Split(stack, "\n\n")
	block := ""
	for _, b := range blocks {
		if strings.Contains(b, "main.c04RunInput") || strings.Contains(b, "main.c04Phase") {
			block = b
			break
		}
	}
	if block == "" {
		block = stack
	}
	lines := strings.Split(block, "\n")
	type fr struct{ fn, loc string }
	var frames []fr
	seenPanic := !afterPanic
	for i := 0; i < len(lines); i++ {
		l := lines[i]
		if strings.HasPrefix(l, "panic(") {
			seenPanic = true
			frames = frames[:0]
			continue
		}
		if !seenPanic || strings.HasPrefix(l, "\t") || !strings.Contains(l, "Eyevinn/mp4ff/") {
			continue
		}
		fn := l
		if j := strings.LastIndex(fn, "("); j > 0 {
			fn = fn[:j]
		}
		fn = fn[strings.Index(fn, "mp4ff/")+6:]
		loc := ""
		if i+1 < len(lines) {
			loc = strings.TrimSpace(lines[i+1])
			if k := strings.LastIndex(loc, "/"); k >= 0 {
				loc = loc[k+1:]
			}
			if k := strings.Index(loc, " "); k >= 0 {
				loc = loc[:k]
			}
		}
		frames = append(frames, fr{fn, loc})
	}
	if len(frames) == 0 {
		return "?"
	}
	s := frames[0].fn + " " + frames[0].loc
	if strings.HasPrefix(frames[0].fn, "bits.") {
		for _, f := range frames[1:] {
			if !strings.HasPrefix(f.fn, "bits.") {
				s += " < " + f.fn + " " + f.loc
				break
			}
		}
	}
	return s
}

func c04Answer(outcomes []string, viols []c04Viol) string {
	s := strings.Join(outcomes, ",")
	if s == "" {
		s = "-"
	}
	seen := map[string]bool{}
	for _, v := range viols {
		k := v.fingerprint()
		if seen[k] {
			continue
		}
		seen[k] = true
		s += " | " + v.String()
	}
	return s
}

// c04Phase runs f as one measured phase. Returns true when f completed without panic.
func c04Phase(class, detail string, n int, f func()) bool {
	if c04w.abort {
		return false
	}
	budget := c04TimeBudget(n)
	if c04w.trace {
		fmt.Fprintf(os.Stderr, "PH %s %s\n", class, strings.ReplaceAll(detail, " ", "_"))
	}
	c04w.mu.Lock()
	c04w.active, c04w.class, c04w.detail = true, class, detail
	c04w.deadline = time.Now().Add(4 * budget)
	c04w.budgetAt = time.Now().Add(budget)
	c04w.slowSite = ""
	c04w.mu.Unlock()
	var before []runtime.MemProfileRecord
	if c04w.trace {
		before = c04MemProfile()
	}
	a0 := c04Allocs()
	t0 := cpuNow()
	var stack string
	var pval interface{}
	func() {
		defer func() {
			if r := recover(); r != nil {
				pval = r
				stack = string(debug.Stack())
			}
		}()
		f()
	}()
	el := cpuNow() - t0
	alloc := c04Allocs() - a0
	c04w.mu.Lock()
	c04w.active = false
	if pval != nil {
		msg := fmt.Sprint(pval)
		if len(msg) > 120 {
			msg = msg[:120]
		}
		c04w.viols = append(c04w.viols, c04Viol{"panic", class, c04SiteFromStack(stack, true), detail, msg})
	}
	if el > budget {
		c04w.abort = true
		site := "?"
		if c04w.slowSite != "" {
			site = c04w.slowSite
		}
		c04w.viols = append(c04w.viols, c04Viol{"slow", class, site, detail, fmt.Sprintf("%.2fs for %d bytes (budget %.2fs)", el.Seconds(), n, budget.Seconds())})
	}
	if mb := c04MemBudget(class, n); alloc > mb {
		site := "?"
		if c04w.trace {
			site = c04TopAllocSite(before)
		}
		c04w.viols = append(c04w.viols, c04Viol{"mem", class, site, detail, fmt.Sprintf("allocated %d bytes for a %d-byte input (budget %d)", alloc, n, mb)})
	}
	if c04w.calib != nil && n > 0 {
		cl := class
		if r := float64(alloc) / float64(n); r > c04w.calib[cl] {
			c04w.calib[cl] = r
		}
		if float64(alloc) > c04w.calib["abs "+cl] {
			c04w.calib["abs "+cl] = float64(alloc)
		}
		if s := el.Seconds(); s > c04w.calib["time "+cl] {
			c04w.calib["time "+cl] = s
		}
	}
	c04w.mu.Unlock()
	return pval == nil
}

func c04MemProfile() []runtime.MemProfileRecord {
	runtime.GC()
	runtime.GC()
	n, _ := runtime.MemProfile(nil, true)
	for {
		p := make([]runtime.MemProfileRecord, n+50)
		m, ok := runtime.MemProfile(p, true)
		if ok {
			return p[:m]
		}
		n = m
	}
}

// c04TopAllocSite: mp4ff frame responsible for most bytes allocated since `before` (sampled heap profile, trace mode only)
func c04TopAllocSite(before []runtime.MemProfileRecord) string {
	after := c04MemProfile()
	prev := map[[32]uintptr]int64{}
	for _, r := range before {
		prev[r.Stack0] += r.AllocBytes
	}
	bySite := map[string]int64{}
	for _, r := range after {
		d := r.AllocBytes - prev[r.Stack0]
		prev[r.Stack0] = 0
		if d <= 0 {
			continue
		}
		frames := runtime.CallersFrames(r.Stack())
		site := ""
		for {
			f, more := frames.Next()
			if strings.Contains(f.Function, "Eyevinn/mp4ff/") {
				fn := f.Function[strings.Index(f.Function, "mp4ff/")+6:]
				file := f.File
				if k := strings.LastIndex(file, "/"); k >= 0 {
					file = file[k+1:]
				}
				site = fmt.Sprintf("%s %s:%d", fn, file, f.Line)
				break
			}
			if !more {
				break
			}
		}
		if site != "" {
			bySite[site] += d
		}
	}
	best, bestN := "?", int64(0)
	var keys []string
	for k := range bySite {
		keys = append(keys, k)
	}
	sort.Strings(keys)
	for _, k := range keys {
		if bySite[k] > bestN {
			best, bestN = k, bySite[k]
		}
	}
	return best
}

// ---- the entry points

type c04CountWriter struct{ n int64 }

func (w *c04CountWriter) Write(p []byte) (int, error) { w.n += int64(len(p)); return len(p), nil }

type c04OnlyReader struct{ r io.Reader } // hides Seek: the plain io.Reader path

func (o c04OnlyReader) Read(p []byte) (int, error) { return o.r.Read(p) }

type c04Entry struct {
	name  string
	class string
	file  func(d []byte) (*mp4.File, error)
	box   func(d []byte) (mp4.Box, error)
}

var c04Entries = []c04Entry{
	{name: "file", class: "DecodeFile", file: func(d []byte) (*mp4.File, error) {
		return mp4.DecodeFile(c04OnlyReader{bytes.NewReader(d)})
	}},
	{name: "lazy", class: "DecodeFile", file: func(d []byte) (*mp4.File, error) {
		return mp4.DecodeFile(bytes.NewReader(d), mp4.WithDecodeMode(mp4.DecModeLazyMdat))
	}},
	{name: "ism", class: "DecodeFile", file: func(d []byte) (*mp4.File, error) {
		return mp4.DecodeFile(bytes.NewReader(d), mp4.WithDecodeFlags(mp4.DecISMFlag))
	}},
	{name: "som", class: "DecodeFile", file: func(d []byte) (*mp4.File, error) {
		return mp4.DecodeFile(bytes.NewReader(d), mp4.WithDecodeFlags(mp4.DecStartOnMoof))
	}},
	{name: "all", class: "DecodeFile", file: func(d []byte) (*mp4.File, error) {
		return mp4.DecodeFile(bytes.NewReader(d), mp4.WithDecodeMode(mp4.DecModeLazyMdat), mp4.WithDecodeFlags(mp4.DecISMFlag|mp4.DecStartOnMoof))
	}},
	{name: "sr", class: "DecodeFileSR", file: func(d []byte) (*mp4.File, error) {
		return mp4.DecodeFileSR(bits.NewFixedSliceReader(d))
	}},
	{name: "srsom", class: "DecodeFileSR", file: func(d []byte) (*mp4.File, error) {
		return mp4.DecodeFileSR(bits.NewFixedSliceReader(d), mp4.WithDecodeFlags(mp4.DecStartOnMoof))
	}},
	{name: "box", class: "DecodeBox", box: func(d []byte) (mp4.Box, error) {
		return mp4.DecodeBox(0, bytes.NewReader(d))
	}},
	{name: "boxsr", class: "DecodeBoxSR", box: func(d []byte) (mp4.Box, error) {
		return mp4.DecodeBoxSR(0, bits.NewFixedSliceReader(d))
	}},
}

var c04StdLevels = []string{"", "all:1", "all:2"}

type c04HasChildren interface{ GetChildren() []mp4.Box }

func c04CollectTypes(b mp4.Box, set map[string]bool, depth int) {
	if b == nil || depth > 40 || len(set) > 400 {
		return
	}
	defer func() { _ = recover() }()
	set[c04TypeName(b.Type())] = true
	if c, ok := b.(c04HasChildren); ok {
		for _, ch := range c.GetChildren() {
			c04CollectTypes(ch, set, depth+1)
		}
	}
}

// c04RunInput runs every entry point on d. SR paths get a private copy (they alias their input).
func c04RunInput(d []byte, lvl string) string {
	c04WorkerInit()
	c04w.mu.Lock()
	c04w.outcomes = c04w.outcomes[:0]
	c04w.viols = c04w.viols[:0]
	c04w.abort = false
	c04w.started = time.Now()
	c04w.mu.Unlock()
	n := len(d)
	levels := c04StdLevels
	if lvl != "-" && lvl != "" {
		levels = append(append([]string{}, c04StdLevels...), lvl)
	}
	swCap := 2*n + 1<<16
	types := map[string]bool{}
	for _, e := range c04Entries {
		in := append([]byte{}, d...)
		var f *mp4.File
		var b mp4.Box
		var err error
		ok := c04Phase(e.class, e.name+" decode", n, func() {
			if e.file != nil {
				f, err = e.file(in)
			} else {
				b, err = e.box(in)
			}
		})
		res := "err"
		if ok && err == nil && (f != nil || b != nil) {
			res = "ok"
		}
		if c04w.abort {
			res = "skip"
			if ok {
				res = "slow"
			}
		}
		c04w.mu.Lock()
		c04w.outcomes = append(c04w.outcomes, e.name+"="+res)
		c04w.mu.Unlock()
		if res != "ok" {
			continue
		}
		if e.name == "file" {
			for _, ch := range f.Children {
				c04CollectTypes(ch, types, 0)
			}
		} else if e.name == "box" || e.name == "boxsr" {
			c04CollectTypes(b, types, 0)
		}
		if f != nil {
			for _, l := range levels {
				c04Phase("File.Info", e.name+" Info("+l+")", n, func() {
					_ = f.Info(&c04CountWriter{}, l, "", "  ")
				})
			}
			type em struct {
				mode mp4.EncFragFileMode
				opt  mp4.EncOptimize
				tag  string
			}
			for _, m := range []em{{mp4.EncModeBoxTree, mp4.OptimizeNone, "boxtree"}, {mp4.EncModeSegment, mp4.OptimizeNone, "segment"},
				{mp4.EncModeSegment, mp4.OptimizeTrun, "segment+opt"}, {mp4.EncModeBoxTree, mp4.OptimizeTrun, "boxtree+opt"}} {
				f.FragEncMode = m.mode
				f.EncOptimize = m.opt
				c04Phase("File.Encode", e.name+" Encode("+m.tag+")", n, func() {
					_ = f.Encode(&c04CountWriter{})
				})
				var sz uint64
				if !c04Phase("File.Encode", e.name+" Size("+m.tag+")", n, func() { sz = f.Size() }) {
					continue
				}
				if sz > uint64(swCap) {
					sz = uint64(swCap) // the writer reports overflow as an error
				}
				sw := bits.NewFixedSliceWriter(int(sz) + 1024)
				c04Phase("File.EncodeSW", e.name+" EncodeSW("+m.tag+")", n, func() {
					_ = f.EncodeSW(sw)
				})
			}
			c04Phase("File.Info", e.name+" Info(all:1) after encoding", n, func() {
				_ = f.Info(&c04CountWriter{}, "all:1", "", "  ")
			})
			c04Phase("File.Info", e.name+" Init/Segments Info+Size", n, func() {
				w := &c04CountWriter{}
				if f.Init != nil {
					_ = f.Init.Info(w, "all:1", "", "  ")
					_ = f.Init.Size()
				}
				for _, sg := range f.Segments {
					_ = sg.Info(w, "all:1", "", "  ")
					_ = sg.Size()
					for _, fr := range sg.Fragments {
						_ = fr.Info(w, "", "", "  ")
						_ = fr.Size()
					}
				}
				_ = f.IsFragmented()
				_ = f.LastSegment()
			})
		} else {
			for _, l := range levels {
				c04Phase("Box.Info", e.name+" Info("+l+")", n, func() {
					_ = b.Info(&c04CountWriter{}, l, "", "  ")
				})
			}
			c04Phase("Box.Encode", e.name+" Encode", n, func() {
				_ = b.Encode(&c04CountWriter{})
			})
			var sz uint64
			if c04Phase("Box.Encode", e.name+" Size", n, func() { sz = b.Size() }) {
				if sz > uint64(swCap) {
					sz = uint64(swCap)
				}
				sw := bits.NewFixedSliceWriter(int(sz) + 1024)
				c04Phase("Box.EncodeSW", e.name+" EncodeSW", n, func() {
					_ = b.EncodeSW(sw)
				})
			}
			c04Phase("Box.Info", e.name+" Info(all:1) after encoding", n, func() {
				_ = b.Info(&c04CountWriter{}, "all:1", "", "  ")
			})
		}
	}
	c04w.mu.Lock()
	defer c04w.mu.Unlock()
	if len(types) > 0 {
		var ts []string
		for t := range types {
			ts = append(ts, t)
		}
		sort.Strings(ts)
		c04w.outcomes = append(c04w.outcomes, "T:"+strings.Join(ts, ":"))
	}
	if c04w.calib != nil {
		var ks []string
		for k := range c04w.calib {
			ks = append(ks, k)
		}
		sort.Strings(ks)
		for _, k := range ks {
			fmt.Fprintf(os.Stderr, "CAL %d %s %.3f\n", n, k, c04w.calib[k])
		}
		c04w.calib = map[string]float64{}
	}
	return c04Answer(c04w.outcomes, c04w.viols)
}

// ---- protocol

func c04DecodeLine(req string) (d []byte, lvl string, err error) {
	f := strings.Fields(req)
	if len(f) < 3 {
		return nil, "", fmt.Errorf("bad request")
	}
	lvl = f[1]
	switch f[0] {
	case "in":
		d, err = unhx(f[2])
		return
	case "scen":
		sc := c04Scenarios()
		i := atoi(f[2])
		if i < 0 || i >= len(sc) {
			return nil, "", fmt.Errorf("no scenario %d", i)
		}
		return sc[i].data, lvl, nil
	case "mut":
		if len(f) != 4 {
			return nil, "", fmt.Errorf("bad mut request")
		}
		base, e := c04ResolveBase(f[2])
		if e != nil {
			return nil, "", e
		}
		d = append([]byte{}, base...)
		if f[3] != "-" {
			for _, es := range strings.Split(f[3], ",") {
				p := strings.Split(es, ":")
				if len(p) != 3 {
					return nil, "", fmt.Errorf("bad edit %q", es)
				}
				off, del := atoi(p[0]), atoi(p[1])
				ins, e := unhx(p[2])
				if e != nil || off < 0 || del < 0 || off+del > len(d) {
					return nil, "", fmt.Errorf("bad edit %q", es)
				}
				nd := make([]byte, 0, len(d)-del+len(ins))
				nd = append(nd, d[:off]...)
				nd = append(nd, ins...)
				nd = append(nd, d[off+del:]...)
				d = nd
			}
		}
		return
	}
	return nil, "", fmt.Errorf("unknown op %q", f[0])
}

// execC04: inside a worker the line is executed in-process; otherwise (replay) it is executed in an isolated worker so
// that a fatal error is reported instead of killing the replay.
func execC04(req string) string {
	if strings.HasPrefix(req, "tree ") {
		// diagnostic: box structure of an input as seen by the independent walker
		d, _, err := c04DecodeLine("in" + req[4:])
		if err != nil {
			d, _, err = c04DecodeLine("mut" + req[4:])
		}
		if err != nil {
			return "bad-request: " + err.Error()
		}
		var bx []rawBox
		c04Walk(d, 0, "", &bx)
		var sb strings.Builder
		fmt.Fprintf(&sb, "%d bytes:", len(d))
		for _, b := range bx {
			fmt.Fprintf(&sb, " %s@%d+%d", b.path, b.start, b.size)
		}
		return sb.String()
	}
	if strings.HasPrefix(req, "scenlist") {
		// diagnostic: index, size and name of every scenario whose name contains the argument
		var sb strings.Builder
		for i, sc := range c04Scenarios() {
			if strings.Contains(sc.name, strings.TrimSpace(req[8:])) {
				fmt.Fprintf(&sb, "%d [%d bytes] %s; ", i, len(sc.data), sc.name)
			}
		}
		return sb.String()
	}
	if strings.HasPrefix(req, "sencsize ") && os.Getenv("VERIF_WORKER") == "C04" {
		c04WorkerInit()
		return c04SencSizeAnswer(req)
	}
	if strings.HasPrefix(req, "walk ") && os.Getenv("VERIF_WORKER") == "C04" {
		d, err := unhx(strings.TrimSpace(req[5:]))
		if err != nil {
			return "bad-request: " + err.Error()
		}
		c04WorkerInit() // the address-space limit also holds when a worker's first line is a walk request
		return c04WalkAnswer(d)
	}
	if os.Getenv("VERIF_WORKER") == "C04" {
		d, lvl, err := c04DecodeLine(req)
		if err != nil {
			return "bad-request: " + err.Error()
		}
		return c04RunInput(d, lvl)
	}
	return c04RunIsolated([]string{req}, true, "")[0]
}
