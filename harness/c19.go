package main

import (
	"bytes"
	"fmt"
	"math/rand"
	"strings"

	"github.com/Eyevinn/mp4ff/aac"
	"github.com/Eyevinn/mp4ff/bits"
	"github.com/Eyevinn/mp4ff/mp4"
)

func init() {
	props["C19"] = &propDef{
		rule: "cases = histories: CreateEmptyInit, then 1..6 AddEmptyTrack(timescale, media in {video,audio,subtitle,stpp,text,wvtt,meta,clcp} (the media types CreateHdlr accepts), language in {3-letter codes, 2-letter codes, BCP-47 tags with sub-tags}) interleaved with Set{AVC(avc1/avc3, PS in/out),HEVC(hvc1/hev1),AAC(LC/HE/HEv2 x frequencies),AC3,EC3,Wvtt,Stpp}Descriptor on any existing track (incl. tracks not yet last); parameter sets from an independent minimal SPS/PPS/VPS writer with random dimensions, cropping, ids, profiles, HEVC profile_tier_level (profile space, Main/High tier, compatibility and constraint flags, levels 1..6.2); EC-3 configurations with 1..8 independent substreams, 0..8 dependent substreams each and channel locations; checks: ids 1..n, trex per track, next id, handler/media header/language per media type, sample entry contents = supplied (hvcC: every general profile_tier_level field = SPS; dec3: every substream), Size = encoded length, decode (both paths) -> equal Info dump and identical re-encoding, IsFragmented, single- and multi-track fragments for the track ids read back through the decoded init's trex; correspondence: the model predicts the whole encoded init (every byte) and the bookkeeping state; non-trivial = distinct history with >= 2 tracks",
		gen:  genC19,
		exec: execC19,
	}
}

// ---- independent minimal parameter-set writer (own bit writer; not mp4ff's) ----

type bw19 struct {
	b    []byte
	cur  byte
	nbit int
}

func (w *bw19) u(n int, v uint64) {
	for i := n - 1; i >= 0; i-- {
		w.cur = w.cur<<1 | byte((v>>uint(i))&1)
		w.nbit++
		if w.nbit == 8 {
			w.b = append(w.b, w.cur)
			w.cur, w.nbit = 0, 0
		}
	}
}
func (w *bw19) ue(v uint64) {
	x := v + 1
	n := 0
	for t := x; t > 1; t >>= 1 {
		n++
	}
	w.u(n, 0)
	w.u(n+1, x)
}
func (w *bw19) se(v int64) {
	if v > 0 {
		w.ue(uint64(2*v - 1))
	} else {
		w.ue(uint64(-2 * v))
	}
}
func (w *bw19) flag(b bool) {
	if b {
		w.u(1, 1)
	} else {
		w.u(1, 0)
	}
}

// trailing bits + emulation prevention, prefixed by the NAL header bytes
func (w *bw19) nalu(hdr ...byte) []byte {
	w.u(1, 1)
	for w.nbit != 0 {
		w.u(1, 0)
	}
	out := append([]byte{}, hdr...)
	zeros := 0
	for _, x := range w.b {
		if zeros >= 2 && x <= 3 {
			out = append(out, 3)
			zeros = 0
		}
		out = append(out, x)
		if x == 0 {
			zeros++
		} else {
			zeros = 0
		}
	}
	return out
}

type psSet struct {
	codec            string // avc | hevc
	vps, sps, pps    [][]byte
	w, h             int
	profile, compat  byte
	level            byte
	chroma, bdl, bdc int
	// HEVC profile_tier_level (general part), as written into VPS and SPS
	space      byte
	tier       bool
	compat32   uint32
	constraint uint64 // 48 bits: progressive, interlaced, non-packed, frame-only, 43 profile-dependent bits, inbld/reserved
}

func genAVCPS19(r *rand.Rand) *psSet {
	ps := &psSet{codec: "avc", chroma: 1}
	profiles := []byte{66, 77, 88, 100, 110, 122, 244}
	ps.profile = profiles[r.Intn(len(profiles))]
	ps.compat = byte(r.Intn(256)) & 0xfc
	ps.level = []byte{10, 13, 21, 30, 31, 40, 41, 50, 51}[r.Intn(9)]
	spsID := uint64(r.Intn(32))
	w := &bw19{}
	w.u(8, uint64(ps.profile))
	w.u(8, uint64(ps.compat))
	w.u(8, uint64(ps.level))
	w.ue(spsID)
	if ps.profile >= 100 {
		ps.chroma = []int{1, 1, 1, 0, 2, 3}[r.Intn(6)]
		if ps.profile == 100 && ps.chroma > 1 {
			ps.chroma = 1
		}
		w.ue(uint64(ps.chroma))
		if ps.chroma == 3 {
			w.flag(false)
		}
		if ps.profile > 100 {
			ps.bdl, ps.bdc = r.Intn(3), r.Intn(3)
		}
		w.ue(uint64(ps.bdl))
		w.ue(uint64(ps.bdc))
		w.flag(false)
		w.flag(false)
	}
	w.ue(uint64(r.Intn(13)))
	poc := r.Intn(3)
	w.ue(uint64(poc))
	switch poc {
	case 0:
		w.ue(uint64(r.Intn(13)))
	case 1:
		w.flag(r.Intn(2) == 0)
		w.se(0)
		w.se(0)
		n := r.Intn(4)
		w.ue(uint64(n))
		for i := 0; i < n; i++ {
			w.se(int64(r.Intn(5)))
		}
	}
	w.ue(uint64(r.Intn(17)))
	w.flag(r.Intn(4) == 0)
	wm := 1 + r.Intn(256)
	hm := 1 + r.Intn(136)
	if r.Intn(4) == 0 {
		wm, hm = []int{20, 40, 80, 120, 240}[r.Intn(5)], []int{12, 23, 45, 68, 135}[r.Intn(5)]
	}
	w.ue(uint64(wm - 1))
	w.ue(uint64(hm - 1))
	fmo := r.Intn(4) != 0
	w.flag(fmo)
	if !fmo {
		w.flag(r.Intn(2) == 0)
	}
	w.flag(true)
	f := 1
	if !fmo {
		f = 2
	}
	ps.w, ps.h = 16*wm, 16*hm*f
	crop := r.Intn(2) == 0
	w.flag(crop)
	if crop {
		cx, cy := 2, 2*f
		switch ps.chroma {
		case 0:
			cx, cy = 1, f
		case 2:
			cx, cy = 2, f
		case 3:
			cx, cy = 1, f
		}
		l, rr, t, b := r.Intn(4), r.Intn(4), r.Intn(3), r.Intn(5)
		w.ue(uint64(l))
		w.ue(uint64(rr))
		w.ue(uint64(t))
		w.ue(uint64(b))
		ps.w -= cx * (l + rr)
		ps.h -= cy * (t + b)
	}
	w.flag(false) // no VUI
	ps.sps = [][]byte{w.nalu(0x67)}
	npps := 1 + r.Intn(2)
	for i := 0; i < npps; i++ {
		p := &bw19{}
		p.ue(uint64(r.Intn(200)))
		p.ue(spsID)
		p.flag(r.Intn(2) == 0)
		p.flag(false)
		p.ue(0)
		p.ue(uint64(r.Intn(4)))
		p.ue(uint64(r.Intn(4)))
		p.flag(r.Intn(2) == 0)
		p.u(2, uint64(r.Intn(3)))
		p.se(int64(r.Intn(20) - 10))
		p.se(int64(r.Intn(20) - 10))
		p.se(int64(r.Intn(10) - 5))
		p.flag(true)
		p.flag(false)
		p.flag(false)
		ps.pps = append(ps.pps, p.nalu(0x68))
	}
	return ps
}

// profile_tier_level(1, 0): general part only (ISO/IEC 23008-2 7.3.3)
func hevcPTL19(w *bw19, ps *psSet) {
	w.u(2, uint64(ps.space))
	w.flag(ps.tier)
	w.u(5, uint64(ps.profile))
	w.u(32, uint64(ps.compat32))
	w.u(48, ps.constraint)
	w.u(8, uint64(ps.level))
}

// genHEVCPTL19 draws the general profile_tier_level fields: Main / Main10 / RExt profile, any level of Table A.8, High tier
// only from level 4 up (A.4.1), compatibility flags with the bit of the profile set plus random further ones, the four
// source/constraint flags free, the 43 profile-dependent bits zero, a few RExt constraint flags, or arbitrary.
func genHEVCPTL19(r *rand.Rand, ps *psSet) {
	ps.profile = []byte{1, 2, 4}[r.Intn(3)]
	ps.level = []byte{30, 60, 63, 90, 93, 120, 123, 150, 153, 156, 180, 183, 186}[r.Intn(13)]
	if r.Intn(16) == 0 {
		ps.space = byte(1 + r.Intn(3))
	}
	if ps.level >= 120 {
		ps.tier = r.Intn(2) == 0
	}
	ps.compat32 = 1 << (31 - uint(ps.profile))
	switch r.Intn(3) {
	case 0:
		ps.compat32 |= r.Uint32()
	case 1:
		ps.compat32 |= 1 << (31 - uint(r.Intn(8)))
	}
	ps.constraint = uint64(r.Intn(16)) << 44
	switch r.Intn(4) {
	case 0:
		ps.constraint |= uint64(r.Intn(512)) << 35 // max_12bit .. lower_bit_rate constraint flags
	case 1:
		ps.constraint |= uint64(r.Int63()) & (1<<44 - 1)
	}
}

func genHEVCPS19(r *rand.Rand) *psSet {
	ps := &psSet{codec: "hevc", chroma: 1}
	genHEVCPTL19(r, ps)
	vpsID := uint64(r.Intn(16))
	v := &bw19{}
	v.u(4, vpsID)
	v.u(1, 1)
	v.u(1, 1)
	v.u(6, 0)
	v.u(3, 0)
	v.u(1, 1)
	v.u(16, 0xffff)
	hevcPTL19(v, ps)
	v.flag(true)
	v.ue(4)
	v.ue(2)
	v.ue(0)
	v.u(6, 0)
	v.ue(0)
	v.flag(false)
	v.flag(false)
	ps.vps = [][]byte{v.nalu(0x40, 0x01)}

	spsID := uint64(r.Intn(16))
	s := &bw19{}
	s.u(4, vpsID)
	s.u(3, 0)
	s.u(1, 1)
	hevcPTL19(s, ps)
	s.ue(spsID)
	ps.chroma = []int{1, 1, 1, 0, 2, 3}[r.Intn(6)]
	s.ue(uint64(ps.chroma))
	if ps.chroma == 3 {
		s.flag(false)
	}
	wd, ht := 8*(1+r.Intn(512)), 8*(1+r.Intn(280))
	if r.Intn(4) == 0 {
		wd, ht = []int{640, 960, 1280, 1920, 3840}[r.Intn(5)], []int{360, 544, 720, 1088, 2160}[r.Intn(5)]
	}
	s.ue(uint64(wd))
	s.ue(uint64(ht))
	ps.w, ps.h = wd, ht
	cw := r.Intn(2) == 0
	s.flag(cw)
	if cw {
		sx, sy := 2, 2
		switch ps.chroma {
		case 0, 3:
			sx, sy = 1, 1
		case 2:
			sx, sy = 2, 1
		}
		l, rr, t, b := r.Intn(3), r.Intn(3), r.Intn(3), r.Intn(3)
		s.ue(uint64(l))
		s.ue(uint64(rr))
		s.ue(uint64(t))
		s.ue(uint64(b))
		ps.w -= sx * (l + rr)
		ps.h -= sy * (t + b)
	}
	if ps.profile != 1 {
		ps.bdl, ps.bdc = r.Intn(3), r.Intn(3)
	}
	s.ue(uint64(ps.bdl))
	s.ue(uint64(ps.bdc))
	s.ue(uint64(r.Intn(13)))
	s.flag(true)
	s.ue(4)
	s.ue(2)
	s.ue(0)
	s.ue(0)
	s.ue(uint64(r.Intn(3)))
	s.ue(0)
	s.ue(uint64(r.Intn(3)))
	s.ue(uint64(r.Intn(3)))
	s.ue(uint64(r.Intn(3)))
	s.flag(false)
	s.flag(r.Intn(2) == 0)
	s.flag(r.Intn(2) == 0)
	s.flag(false)
	s.ue(0)
	s.flag(false)
	s.flag(r.Intn(2) == 0)
	s.flag(r.Intn(2) == 0)
	s.flag(false)
	s.flag(false)
	ps.sps = [][]byte{s.nalu(0x42, 0x01)}

	p := &bw19{}
	p.ue(uint64(r.Intn(64)))
	p.ue(spsID)
	p.flag(false)
	p.flag(false)
	p.u(3, 0)
	p.flag(r.Intn(2) == 0)
	p.flag(r.Intn(2) == 0)
	p.ue(uint64(r.Intn(3)))
	p.ue(uint64(r.Intn(3)))
	p.se(int64(r.Intn(10) - 5))
	p.flag(false)
	p.flag(false)
	p.flag(false)
	p.se(int64(r.Intn(6) - 3))
	p.se(int64(r.Intn(6) - 3))
	p.flag(false)
	p.flag(false)
	p.flag(false)
	p.flag(false)
	p.flag(false)
	p.flag(r.Intn(2) == 0)
	p.flag(true)
	p.flag(false)
	p.flag(false)
	p.flag(false)
	p.ue(0)
	p.flag(false)
	p.flag(false)
	ps.pps = [][]byte{p.nalu(0x44, 0x01)}
	return ps
}

// ---- histories ----

type trackPlan struct {
	ts    uint32
	media string
	lang  string
	desc  string // "" | avc1 | avc3 | avc3nops | hvc1 | hev1 | hev1nops | aac | ac3 | ec3 | wvtt | stpp
	after int    // descriptor is set after this many further AddEmptyTrack calls
	seed  int64  // parameters of the descriptor
	again int    // > 0: the same Set...Descriptor is called once more at the end, with other parameters (seed+again)
}

type initPlan struct{ tracks []trackPlan }

func (p *initPlan) line() string {
	var s []string
	for _, t := range p.tracks {
		d := t.desc
		if d == "" {
			d = "-"
		}
		w := fmt.Sprintf("%d:%s:%s:%s:%d:%d", t.ts, t.media, t.lang, d, t.after, t.seed)
		if t.again > 0 {
			w += fmt.Sprintf(":%d", t.again)
		}
		s = append(s, w)
	}
	return "inithist " + strings.Join(s, " ")
}

func parseInitPlan(req string) *initPlan {
	p := &initPlan{}
	for _, w := range strings.Fields(req)[1:] {
		x := strings.Split(w, ":")
		if len(x) != 6 && len(x) != 7 {
			continue
		}
		d := x[3]
		if d == "-" {
			d = ""
		}
		var seed int64
		fmt.Sscan(x[5], &seed)
		tp := trackPlan{uint32(atoi(x[0])), x[1], x[2], d, atoi(x[4]), seed, 0}
		if len(x) == 7 {
			tp.again = atoi(x[6])
		}
		p.tracks = append(p.tracks, tp)
	}
	return p
}

var langs19 = []string{"und", "eng", "swe", "fra", "deu", "zho", "jpn", "abc", "zzz", "aaa", "en", "sv", "fr", "en-US", "zh-Hant", "zh-Hant-TW", "sr-Latn-RS", "es-419", "de-CH-1901", "nb-NO", "x-klingon", "yue-Hans"}

func genInitPlan(r *rand.Rand) *initPlan {
	n := 1 + r.Intn(6)
	p := &initPlan{}
	for i := 0; i < n; i++ {
		t := trackPlan{seed: r.Int63n(1 << 40)}
		t.ts = []uint32{1, 1000, 12800, 15360, 44100, 48000, 90000, 10000000, 4294967295}[r.Intn(9)]
		t.lang = langs19[r.Intn(len(langs19))]
		switch r.Intn(10) {
		case 0, 1, 2, 3:
			t.media = "video"
			t.desc = []string{"avc1", "avc3", "avc3nops", "hvc1", "hev1", "hev1nops", ""}[r.Intn(7)]
		case 4, 5, 6:
			t.media = "audio"
			t.desc = []string{"aac", "aac", "ac3", "ec3", ""}[r.Intn(5)]
		case 7:
			t.media = []string{"subtitle", "subtitle", "stpp"}[r.Intn(3)]
			t.desc = []string{"stpp", ""}[r.Intn(2)]
		case 8:
			t.media = []string{"text", "wvtt"}[r.Intn(2)]
			t.desc = []string{"wvtt", ""}[r.Intn(2)]
		default:
			t.media = []string{"meta", "clcp"}[r.Intn(2)]
		}
		t.after = r.Intn(3)
		if t.desc != "" && r.Intn(6) == 0 {
			t.again = 1 + r.Intn(3) // the descriptor of this track is set a second time (a caller correcting its parameters)
		}
		p.tracks = append(p.tracks, t)
	}
	return p
}

// what the harness expects of each track (independent of the library)
type expTrack struct {
	entryType string
	w, h      int
	ps        *psSet
	includePS bool
	aacObj    byte
	aacFreq   int
	dac3      *mp4.Dac3Box
	dec3      *mp4.Dec3Box
	vtt       string
	stpp      [3]string
}

var hdlr19 = map[string]string{"video": "vide", "audio": "soun", "subtitle": "subt", "subtitles": "", "stpp": "", "text": "text", "wvtt": "text", "meta": "meta", "clcp": "subt"}
var mhdr19 = map[string]string{"video": "vmhd", "audio": "smhd", "subtitle": "sthd", "subtitles": "sthd", "stpp": "sthd", "text": "nmhd", "wvtt": "nmhd", "meta": "nmhd", "clcp": "nmhd"}

// buildInit runs the history on the real API
func buildInit(p *initPlan) (*mp4.InitSegment, []*expTrack, error) {
	init := mp4.CreateEmptyInit()
	exp := make([]*expTrack, len(p.tracks))
	salt := int64(0)
	apply := func(i int) error {
		t := p.tracks[i]
		e := exp[i]
		r := rand.New(rand.NewSource(t.seed + salt))
		trak := init.Moov.Traks[i]
		switch t.desc {
		case "avc1", "avc3", "avc3nops":
			e.ps = genAVCPS19(r)
			e.entryType = t.desc[:4]
			e.includePS = t.desc != "avc3nops"
			e.w, e.h = e.ps.w, e.ps.h
			return trak.SetAVCDescriptor(e.entryType, e.ps.sps, e.ps.pps, e.includePS)
		case "hvc1", "hev1", "hev1nops":
			e.ps = genHEVCPS19(r)
			e.entryType = t.desc[:4]
			e.includePS = t.desc != "hev1nops"
			e.w, e.h = e.ps.w, e.ps.h
			if e.entryType == "hev1" && e.includePS {
				// hev1 may carry only part of the parameter sets in the sample entry (the rest in band)
				switch r.Intn(6) {
				case 0:
					e.ps.vps = nil
				case 1:
					e.ps.pps = nil
				case 2:
					e.ps.vps, e.ps.pps = nil, nil
				}
			}
			return trak.SetHEVCDescriptor(e.entryType, e.ps.vps, e.ps.sps, e.ps.pps, nil, e.includePS)
		case "aac":
			e.entryType = "mp4a"
			e.aacObj = []byte{aac.AAClc, aac.HEAACv1, aac.HEAACv2}[r.Intn(3)]
			e.aacFreq = []int{8000, 16000, 22050, 24000, 32000, 44100, 48000}[r.Intn(7)]
			return trak.SetAACDescriptor(e.aacObj, e.aacFreq)
		case "ac3":
			e.entryType = "ac-3"
			e.dac3 = &mp4.Dac3Box{FSCod: byte(r.Intn(3)), BSID: byte(r.Intn(32)), BSMod: byte(r.Intn(8)), ACMod: byte(r.Intn(8)), LFEOn: byte(r.Intn(2)), BitRateCode: byte(r.Intn(19))}
			cp := *e.dac3
			return trak.SetAC3Descriptor(&cp)
		case "ec3":
			e.entryType = "ec-3"
			e.dec3 = genDec319(r)
			cp := *e.dec3
			cp.EC3Subs = append([]mp4.EC3Sub{}, e.dec3.EC3Subs...)
			return trak.SetEC3Descriptor(&cp)
		case "wvtt":
			e.entryType = "wvtt"
			// the configuration is the header block of the WebVTT file as the author wrote it: with or without line
			// terminators at its end, CRLF, style/region blocks, leading/trailing blanks
			e.vtt = []string{"", "WEBVTT", "WEBVTT\n\nNOTE x", "WEBVTT\n", "WEBVTT\r\n", "WEBVTT\n\n", "WEBVTT - title \n\nSTYLE\n::cue { color: lime }\n\n",
				" WEBVTT ", "WEBVTT\n\nREGION\nid:r1\nlines:3\n", "WEBVTT\t"}[r.Intn(10)]
			return trak.SetWvttDescriptor(e.vtt)
		case "stpp":
			e.entryType = "stpp"
			e.stpp = [3]string{[]string{"", "http://www.w3.org/ns/ttml", "urn:x a:b"}[r.Intn(3)], []string{"", "loc1 loc2"}[r.Intn(2)], []string{"", "image/png", "image/png font/woff"}[r.Intn(3)]}
			return trak.SetStppDescriptor(e.stpp[0], e.stpp[1], e.stpp[2])
		}
		return nil
	}
	pending := map[int]int{} // track index -> remaining adds
	for i, t := range p.tracks {
		init.AddEmptyTrack(t.ts, t.media, t.lang)
		exp[i] = &expTrack{}
		for j := range pending {
			pending[j]--
			if pending[j] <= 0 {
				if err := apply(j); err != nil {
					return nil, nil, fmt.Errorf("descriptor of track %d: %w", j+1, err)
				}
				delete(pending, j)
			}
		}
		if t.after == 0 {
			if err := apply(i); err != nil {
				return nil, nil, fmt.Errorf("descriptor of track %d: %w", i+1, err)
			}
		} else {
			pending[i] = t.after
		}
	}
	for j := 0; j < len(p.tracks); j++ {
		if _, ok := pending[j]; ok {
			if err := apply(j); err != nil {
				return nil, nil, fmt.Errorf("descriptor of track %d: %w", j+1, err)
			}
		}
	}
	// descriptors set a second time: what counts is the last call
	for j, t := range p.tracks {
		if t.again > 0 && t.desc != "" {
			salt = int64(t.again)
			ne := &expTrack{}
			exp[j] = ne
			if err := apply(j); err != nil {
				return nil, nil, fmt.Errorf("second descriptor of track %d: %w", j+1, err)
			}
			salt = 0
		}
	}
	return init, exp, nil
}

// genDec319 draws an EC3SpecificBox content (ETSI TS 102 366 F.6): 1..8 independent substreams, each with 0..8 dependent
// substreams and, when it has any, a 9-bit channel location mask. The box is a literal built in code: the NumIndSub field
// (redundant with len(EC3Subs)) is either left at its zero value or set to the number of independent substreams minus one.
func genDec319(r *rand.Rand) *mp4.Dec3Box {
	d := &mp4.Dec3Box{DataRate: uint16(r.Intn(8192))}
	n := 1
	if r.Intn(2) == 0 {
		n = 2 + r.Intn(7)
	}
	for i := 0; i < n; i++ {
		sub := mp4.EC3Sub{FSCod: byte(r.Intn(3)), BSID: byte(r.Intn(32)), ASVC: byte(r.Intn(2)), BSMod: byte(r.Intn(8)), ACMod: byte(r.Intn(8)), LFEOn: byte(r.Intn(2))}
		if r.Intn(2) == 0 {
			sub.NumDepSub = byte(1 + r.Intn(8))
			sub.ChanLoc = uint16(r.Intn(512))
			if r.Intn(4) == 0 {
				sub.ChanLoc = []uint16{0, 1, 256, 511}[r.Intn(4)]
			}
		}
		d.EC3Subs = append(d.EC3Subs, sub)
	}
	if r.Intn(2) == 0 {
		d.NumIndSub = uint16(n - 1)
	}
	return d
}

// dec3Diff compares the configuration carried by a dec3 box with the supplied one: data rate, every independent substream
// (incl. number of dependent substreams and channel locations) in order, and nothing else in the box.
func dec3Diff(got, want *mp4.Dec3Box) string {
	if got == nil {
		return "no dec3"
	}
	if got.DataRate != want.DataRate {
		return fmt.Sprintf("data rate %d, supplied %d", got.DataRate, want.DataRate)
	}
	if len(got.EC3Subs) != len(want.EC3Subs) {
		return fmt.Sprintf("%d independent substreams (%d trailing reserved bytes), supplied %d", len(got.EC3Subs), len(got.Reserved), len(want.EC3Subs))
	}
	for i := range want.EC3Subs {
		if got.EC3Subs[i] != want.EC3Subs[i] {
			return fmt.Sprintf("substream %d of %d: %+v, supplied %+v", i+1, len(want.EC3Subs), got.EC3Subs[i], want.EC3Subs[i])
		}
	}
	if len(got.Reserved) != 0 {
		return fmt.Sprintf("%d trailing reserved bytes, none supplied", len(got.Reserved))
	}
	return ""
}

func nalusEq(a, b [][]byte) bool {
	if len(a) != len(b) {
		return false
	}
	for i := range a {
		if !bytes.Equal(a[i], b[i]) {
			return false
		}
	}
	return true
}

// checkInitTree: the statement's structural clauses on an init (built or decoded). Returns "" or a description.
func checkInitTree(init *mp4.InitSegment, p *initPlan, exp []*expTrack) (string, string) {
	moov := init.Moov
	if moov == nil || moov.Mvhd == nil || moov.Mvex == nil {
		return "C19-structure", "moov/mvhd/mvex missing"
	}
	n := len(p.tracks)
	if len(moov.Traks) != n || len(moov.Mvex.Trexs) != n {
		return "C19-ids", fmt.Sprintf("%d traks, %d trexs for %d tracks", len(moov.Traks), len(moov.Mvex.Trexs), n)
	}
	// traks adjacent in the child list
	first, last, cnt := -1, -1, 0
	for i, c := range moov.Children {
		if c.Type() == "trak" {
			if first < 0 {
				first = i
			}
			last = i
			cnt++
		}
	}
	if cnt != n || last-first+1 != cnt {
		return "C19-order", fmt.Sprintf("trak boxes not adjacent: first %d last %d count %d", first, last, cnt)
	}
	for i, tr := range moov.Traks {
		t := p.tracks[i]
		e := exp[i]
		id := uint32(i + 1)
		if tr.Tkhd == nil || tr.Tkhd.TrackID != id {
			return "C19-ids", fmt.Sprintf("track %d has id %d", i+1, tr.Tkhd.TrackID)
		}
		if moov.Mvex.Trexs[i].TrackID != id {
			return "C19-ids", fmt.Sprintf("trex %d has id %d", i+1, moov.Mvex.Trexs[i].TrackID)
		}
		if moov.Mvhd.NextTrackID <= id {
			return "C19-nextid", fmt.Sprintf("next track id %d not above %d", moov.Mvhd.NextTrackID, id)
		}
		md := tr.Mdia
		if md == nil || md.Mdhd == nil || md.Hdlr == nil || md.Minf == nil || md.Minf.Stbl == nil || md.Minf.Stbl.Stsd == nil {
			return "C19-structure", fmt.Sprintf("track %d incomplete", i+1)
		}
		if md.Mdhd.Timescale != t.ts {
			return "C19-mdhd", fmt.Sprintf("track %d timescale %d, supplied %d", i+1, md.Mdhd.Timescale, t.ts)
		}
		if want := hdlr19[t.media]; want != "" && md.Hdlr.HandlerType != want {
			return "C19-hdlr", fmt.Sprintf("track %d media %s handler %q, want %q", i+1, t.media, md.Hdlr.HandlerType, want)
		}
		mh := ""
		switch {
		case md.Minf.Vmhd != nil:
			mh = "vmhd"
		case md.Minf.Smhd != nil:
			mh = "smhd"
		}
		for _, c := range md.Minf.Children {
			if c.Type() == "sthd" || c.Type() == "nmhd" {
				mh = c.Type()
			}
		}
		if mh != mhdr19[t.media] {
			return "C19-mediaheader", fmt.Sprintf("track %d media %s has media header %q, want %q", i+1, t.media, mh, mhdr19[t.media])
		}
		if len(t.lang) == 3 {
			if md.Mdhd.GetLanguage() != t.lang || md.Elng != nil {
				return "C19-language", fmt.Sprintf("track %d language %q -> mdhd %q elng %v", i+1, t.lang, md.Mdhd.GetLanguage(), md.Elng != nil)
			}
		} else if md.Elng == nil || md.Elng.Language != t.lang || md.Mdhd.GetLanguage() != "und" {
			return "C19-language", fmt.Sprintf("track %d language tag %q -> mdhd %q elng %v", i+1, t.lang, md.Mdhd.GetLanguage(), md.Elng)
		}
		stsd := md.Minf.Stbl.Stsd
		if e.entryType == "" {
			if len(stsd.Children) != 0 {
				return "C19-entry", fmt.Sprintf("track %d: unexpected sample entry", i+1)
			}
			continue
		}
		// one entry per Set...Descriptor call (a second call appends a further entry: the one that counts is the last);
		// the count field must say what the box holds
		n := len(stsd.Children)
		if n < 1 || n > 2 || stsd.Children[n-1].Type() != e.entryType || int(stsd.SampleCount) != n {
			return "C19-entry", fmt.Sprintf("track %d: stsd has %d entries (count %d), want the last one to be the %s supplied", i+1, len(stsd.Children), stsd.SampleCount, e.entryType)
		}
		switch e.entryType {
		case "avc1", "avc3":
			v := stsd.AvcX
			if v == nil || v.AvcC == nil {
				return "C19-entry", "no avcC"
			}
			if int(v.Width) != e.w || int(v.Height) != e.h || uint32(tr.Tkhd.Width)>>16 != uint32(e.w) || uint32(tr.Tkhd.Height)>>16 != uint32(e.h) {
				return "C19-dims", fmt.Sprintf("track %d avc: entry %dx%d tkhd %dx%d, coded %dx%d", i+1, v.Width, v.Height, uint32(tr.Tkhd.Width)>>16, uint32(tr.Tkhd.Height)>>16, e.w, e.h)
			}
			a := v.AvcC
			if a.AVCProfileIndication != e.ps.profile || a.ProfileCompatibility != e.ps.compat || a.AVCLevelIndication != e.ps.level {
				return "C19-config", fmt.Sprintf("track %d avcC profile/compat/level %d/%d/%d, SPS %d/%d/%d", i+1, a.AVCProfileIndication, a.ProfileCompatibility, a.AVCLevelIndication, e.ps.profile, e.ps.compat, e.ps.level)
			}
			if p := a.AVCProfileIndication; p == 100 || p == 110 || p == 122 || p == 144 {
				// the record carries chroma format and bit depths for these profiles (ISO/IEC 14496-15 5.3.3.1.2)
				if int(a.ChromaFormat) != e.ps.chroma || int(a.BitDepthLumaMinus1) != e.ps.bdl || int(a.BitDepthChromaMinus1) != e.ps.bdc {
					return "C19-config", fmt.Sprintf("track %d avcC chroma/bit depths %d/%d/%d, SPS %d/%d/%d", i+1, a.ChromaFormat, a.BitDepthLumaMinus1, a.BitDepthChromaMinus1, e.ps.chroma, e.ps.bdl, e.ps.bdc)
				}
			}
			if e.includePS {
				if !nalusEq(a.SPSnalus, e.ps.sps) || !nalusEq(a.PPSnalus, e.ps.pps) {
					return "C19-ps", fmt.Sprintf("track %d avcC parameter sets differ from those supplied", i+1)
				}
			} else if len(a.SPSnalus) != 0 || len(a.PPSnalus) != 0 {
				return "C19-ps", fmt.Sprintf("track %d avc3 without PS carries parameter sets", i+1)
			}
		case "hvc1", "hev1":
			v := stsd.HvcX
			if v == nil || v.HvcC == nil {
				return "C19-entry", "no hvcC"
			}
			if int(v.Width) != e.w || int(v.Height) != e.h || uint32(tr.Tkhd.Width)>>16 != uint32(e.w) || uint32(tr.Tkhd.Height)>>16 != uint32(e.h) {
				return "C19-dims", fmt.Sprintf("track %d hevc: entry %dx%d tkhd %dx%d, coded %dx%d", i+1, v.Width, v.Height, uint32(tr.Tkhd.Width)>>16, uint32(tr.Tkhd.Height)>>16, e.w, e.h)
			}
			h := v.HvcC
			if h.GeneralProfileIDC != e.ps.profile || h.GeneralLevelIDC != e.ps.level || int(h.ChromaFormatIDC) != e.ps.chroma || int(h.BitDepthLumaMinus8) != e.ps.bdl || int(h.BitDepthChromaMinus8) != e.ps.bdc {
				return "C19-config", fmt.Sprintf("track %d hvcC profile %d level %d chroma %d depths %d/%d, SPS %d %d %d %d/%d", i+1, h.GeneralProfileIDC, h.GeneralLevelIDC, h.ChromaFormatIDC, h.BitDepthLumaMinus8, h.BitDepthChromaMinus8, e.ps.profile, e.ps.level, e.ps.chroma, e.ps.bdl, e.ps.bdc)
			}
			// every general profile_tier_level field of the record equals that of the supplied SPS (ISO/IEC 14496-15 8.3.3.1.3)
			if h.GeneralProfileSpace != e.ps.space || h.GeneralTierFlag != e.ps.tier || h.GeneralProfileCompatibilityFlags != e.ps.compat32 || h.GeneralConstraintIndicatorFlags != e.ps.constraint {
				return "C19-config", fmt.Sprintf("track %d hvcC profile space %d tier %v compatibility %08x constraints %012x, SPS %d %v %08x %012x", i+1, h.GeneralProfileSpace, h.GeneralTierFlag, h.GeneralProfileCompatibilityFlags, h.GeneralConstraintIndicatorFlags, e.ps.space, e.ps.tier, e.ps.compat32, e.ps.constraint)
			}
			if e.includePS {
				if !nalusEq(h.GetNalusForType(32), e.ps.vps) || !nalusEq(h.GetNalusForType(33), e.ps.sps) || !nalusEq(h.GetNalusForType(34), e.ps.pps) {
					return "C19-ps", fmt.Sprintf("track %d hvcC parameter sets differ from those supplied", i+1)
				}
			} else if len(h.NaluArrays) != 0 {
				return "C19-ps", fmt.Sprintf("track %d hev1 without PS carries parameter sets", i+1)
			}
		case "mp4a":
			m := stsd.Mp4a
			if m == nil || m.Esds == nil {
				return "C19-entry", "no esds"
			}
			asc, err := aac.DecodeAudioSpecificConfig(bytes.NewReader(m.Esds.DecConfigDescriptor.DecSpecificInfo.DecConfig))
			if err != nil {
				return "C19-config", "ASC: " + err.Error()
			}
			ch := 2
			if e.aacObj == aac.HEAACv2 {
				ch = 1
			}
			if asc.ObjectType != e.aacObj || asc.SamplingFrequency != e.aacFreq || int(asc.ChannelConfiguration) != ch || int(m.SampleRate) != e.aacFreq || int(m.ChannelCount) != ch {
				return "C19-config", fmt.Sprintf("track %d aac: asc %+v entry rate %d ch %d; supplied obj %d freq %d", i+1, asc, m.SampleRate, m.ChannelCount, e.aacObj, e.aacFreq)
			}
		case "ac-3":
			m := stsd.AC3
			if m == nil || m.Dac3 == nil || *m.Dac3 != *e.dac3 {
				return "C19-config", fmt.Sprintf("track %d dac3 differs: %+v vs %+v", i+1, m.Dac3, e.dac3)
			}
		case "ec-3":
			m := stsd.EC3
			if m == nil {
				return "C19-entry", "no ec-3 entry"
			}
			if d := dec3Diff(m.Dec3, e.dec3); d != "" {
				return "C19-config", fmt.Sprintf("track %d dec3: %s", i+1, d)
			}
		case "wvtt":
			want := e.vtt
			if want == "" {
				want = "WEBVTT"
			}
			if stsd.Wvtt == nil || stsd.Wvtt.VttC == nil || stsd.Wvtt.VttC.Config != want {
				return "C19-config", fmt.Sprintf("track %d vttC config differs", i+1)
			}
		case "stpp":
			ns := e.stpp[0]
			if ns == "" {
				ns = "http://www.w3.org/ns/ttml"
			}
			s := stsd.Stpp
			if s == nil || s.Namespace != ns || s.SchemaLocation != e.stpp[1] || s.AuxiliaryMimeTypes != e.stpp[2] {
				return "C19-config", fmt.Sprintf("track %d stpp differs: %+v vs %v", i+1, s, e.stpp)
			}
		}
	}
	return "", ""
}

func initInfo(i *mp4.InitSegment) string {
	var b bytes.Buffer
	if err := i.Info(&b, "all:1", "", "  "); err != nil {
		return "info error: " + err.Error()
	}
	return b.String()
}

// modelLine: the request for the Lean model: per track ts:media:lang:w:h:entries
func modelLine(init *mp4.InitSegment, p *initPlan, exp []*expTrack) (string, error) {
	var s []string
	for i, t := range p.tracks {
		es := "-"
		stsd := init.Moov.Traks[i].Mdia.Minf.Stbl.Stsd
		var parts []string
		for _, c := range stsd.Children {
			var b bytes.Buffer
			if err := c.Encode(&b); err != nil {
				return "", err
			}
			parts = append(parts, hx(b.Bytes()))
		}
		if len(parts) > 0 {
			es = strings.Join(parts, "+")
		}
		w, h := 0, 0
		if exp[i].ps != nil {
			w, h = exp[i].w, exp[i].h
		}
		s = append(s, fmt.Sprintf("%d:%s:%s:%d:%d:%s", t.ts, t.media, t.lang, w, h, es))
	}
	return "init H=" + strings.ReplaceAll(strings.TrimPrefix(p.line(), "inithist "), " ", "/") + " " + strings.Join(s, " "), nil
}

func initState(init *mp4.InitSegment) string {
	var ids, trex, order []string
	for _, t := range init.Moov.Traks {
		ids = append(ids, fmt.Sprint(t.Tkhd.TrackID))
	}
	for _, t := range init.Moov.Mvex.Trexs {
		trex = append(trex, fmt.Sprint(t.TrackID))
	}
	for _, c := range init.Moov.Children {
		if tr, ok := c.(*mp4.TrakBox); ok {
			order = append(order, fmt.Sprintf("trak%d", tr.Tkhd.TrackID))
		} else {
			order = append(order, c.Type())
		}
	}
	j := func(x []string) string {
		if len(x) == 0 {
			return "-"
		}
		return strings.Join(x, ",")
	}
	return fmt.Sprintf("ids=%s trex=%s next=%d order=%s", j(ids), j(trex), init.Moov.Mvhd.NextTrackID, strings.Join(order, ","))
}

// runInitPlan evaluates the whole statement for one history; returns (fingerprint, what) of the first failure and
// the model request/answer
func runInitPlan(p *initPlan) (fp, what, mreq, mresp string) {
	var init *mp4.InitSegment
	var exp []*expTrack
	var err error
	if pn := safe(func() { init, exp, err = buildInit(p) }); pn != "" {
		return "C19-build-panic", pn, "", ""
	}
	if err != nil {
		return "C19-build-error", err.Error(), "", ""
	}
	if fp, what = checkInitTree(init, p, exp); fp != "" {
		return fp, "built: " + what, "", ""
	}
	var buf bytes.Buffer
	if pn := safe(func() { err = init.Encode(&buf) }); pn != "" {
		return "C19-encode-panic", pn, "", ""
	}
	if err != nil {
		return "C19-encode-error", err.Error(), "", ""
	}
	enc := buf.Bytes()
	if uint64(len(enc)) != init.Size() {
		return "C19-size", fmt.Sprintf("Size() %d, encoded %d", init.Size(), len(enc)), "", ""
	}
	mreq, err = modelLine(init, p, exp)
	if err == nil {
		mresp = initState(init) + " bytes=" + hx(enc)
	}
	for _, sr := range []bool{false, true} {
		var f *mp4.File
		if sr {
			f, err = mp4.DecodeFileSR(bits.NewFixedSliceReader(enc))
		} else {
			f, err = mp4.DecodeFile(bytes.NewReader(enc))
		}
		if err != nil {
			return "C19-decode", fmt.Sprintf("sr=%v: %v", sr, err), mreq, mresp
		}
		if f.Init == nil || !f.IsFragmented() {
			return "C19-fragmented", fmt.Sprintf("sr=%v: decoded init not recognised as fragmented (Init %v)", sr, f.Init != nil), mreq, mresp
		}
		if fp, what = checkInitTree(f.Init, p, exp); fp != "" {
			return fp, fmt.Sprintf("decoded sr=%v: %s", sr, what), mreq, mresp
		}
		if a, b := initInfo(init), initInfo(f.Init); a != b {
			return "C19-tree", fmt.Sprintf("sr=%v: decoded tree differs from the built one: %s", sr, firstDiffLine(a, b)), mreq, mresp
		}
		var b2 bytes.Buffer
		if err = f.Init.Encode(&b2); err != nil || !bytes.Equal(b2.Bytes(), enc) {
			return "C19-reencode", fmt.Sprintf("sr=%v: re-encoding differs (%v)", sr, err), mreq, mresp
		}
	}
	// fragments for the track ids decode against the init
	n := len(p.tracks)
	added := map[int][]addedSample{}
	var seg bytes.Buffer
	seq := uint32(1)
	mkSample := func(t, k int, dec uint64) mp4.FullSample {
		d := sampleData(t, k, uint32(5+(t*3+k)%9))
		return mp4.FullSample{Sample: mp4.Sample{Flags: mp4.SyncSampleFlags, Dur: uint32(100 + t), Size: uint32(len(d)), CompositionTimeOffset: int32(k % 2)}, DecodeTime: dec, Data: d}
	}
	for t := 1; t <= n; t++ {
		frag, err := mp4.CreateFragment(seq, uint32(t))
		if err != nil {
			return "C19-fragment", err.Error(), mreq, mresp
		}
		seq++
		for k := 0; k < 2; k++ {
			fs := mkSample(t, k, uint64(k*(100+t)))
			frag.AddFullSample(fs)
			added[t] = append(added[t], addedSample{fs.Sample, fs.DecodeTime, fs.Data})
		}
		if err := frag.Encode(&seg); err != nil {
			return "C19-fragment", err.Error(), mreq, mresp
		}
	}
	if n >= 2 {
		ids := make([]uint32, n)
		for i := range ids {
			ids[i] = uint32(i + 1)
		}
		frag, err := mp4.CreateMultiTrackFragment(seq, ids)
		if err != nil {
			return "C19-fragment", err.Error(), mreq, mresp
		}
		for t := 1; t <= n; t++ {
			fs := mkSample(t, 2, uint64(2*(100+t)))
			if err := frag.AddFullSampleToTrack(fs, uint32(t)); err != nil {
				return "C19-fragment", err.Error(), mreq, mresp
			}
			added[t] = append(added[t], addedSample{fs.Sample, fs.DecodeTime, fs.Data})
		}
		if err := frag.Encode(&seg); err != nil {
			return "C19-fragment", err.Error(), mreq, mresp
		}
	}
	for _, sr := range []bool{false, true} {
		var got map[int][]addedSample
		var err error
		if pn := safe(func() { got, err = readBack(enc, seg.Bytes(), sr, n) }); pn != "" {
			return "C19-fragment-panic", pn, mreq, mresp
		}
		if err != nil {
			return "C19-fragment", fmt.Sprintf("sr=%v: %v", sr, err), mreq, mresp
		}
		for t := 1; t <= n; t++ {
			if d := sameSamples(added[t], got[t]); d != "" {
				return "C19-fragment", fmt.Sprintf("sr=%v track %d: %s", sr, t, d), mreq, mresp
			}
		}
	}
	return "", "", mreq, mresp
}

func firstDiffLine(a, b string) string {
	x, y := strings.Split(a, "\n"), strings.Split(b, "\n")
	for i := 0; i < len(x) && i < len(y); i++ {
		if x[i] != y[i] {
			return fmt.Sprintf("line %d: %q vs %q", i+1, x[i], y[i])
		}
	}
	return fmt.Sprintf("%d vs %d lines", len(x), len(y))
}

func execC19(req string) string {
	f := strings.Fields(req)
	if len(f) == 0 {
		return "bad-op"
	}
	switch f[0] {
	case "inithist":
		fp, what, _, _ := runInitPlan(parseInitPlan(req))
		if fp != "" {
			return fp + ": " + what
		}
		return "ok"
	case "init":
		if len(f) < 2 || !strings.HasPrefix(f[1], "H=") {
			return "bad-op"
		}
		_, _, _, mresp := runInitPlan(parseInitPlan("inithist " + strings.ReplaceAll(f[1][2:], "/", " ")))
		if mresp == "" {
			return "error"
		}
		return mresp
	case "lang":
		if len(f) != 2 {
			return "bad-op"
		}
		init := mp4.CreateEmptyInit()
		init.AddEmptyTrack(1, "video", f[1])
		md := init.Moov.Trak.Mdia
		e := "-"
		if md.Elng != nil {
			e = md.Elng.Language
		}
		return fmt.Sprintf("%d %s %s", md.Mdhd.Language, e, md.Mdhd.GetLanguage())
	}
	return "bad-op"
}

func genC19(c *Ctx) {
	// all 3-letter lower-case codes + every tag of the list through the language path
	if c.Thorough() {
		for a := 'a'; a <= 'z'; a++ {
			for b := 'a'; b <= 'z'; b++ {
				for d := 'a'; d <= 'z'; d++ {
					l := string([]rune{a, b, d})
					req := "lang " + l
					resp := execC19(req)
					c.Case(req, resp)
					c.Eval("")
					if !strings.HasSuffix(resp, " - "+l) {
						c.Fail("C19-language", "3-letter code does not survive the mdhd packing", req, resp, "… - "+l)
					}
				}
			}
		}
	}
	for _, l := range langs19 {
		req := "lang " + l
		c.Case(req, execC19(req))
		c.Eval("")
	}
	n := c.N(1500, 20000)
	for i := 0; i < n; i++ {
		p := genInitPlan(c.R)
		req := p.line()
		fp, what, mreq, mresp := runInitPlan(p)
		key := ""
		if len(p.tracks) >= 2 {
			key = req
		}
		c.Eval(key)
		c.Count(fmt.Sprintf("tracks=%d", len(p.tracks)))
		for _, t := range p.tracks {
			d := t.desc
			if d == "" {
				d = "none"
			}
			c.Count("desc=" + d)
			switch d {
			case "ec3":
				if x := genDec319(rand.New(rand.NewSource(t.seed))); len(x.EC3Subs) > 1 {
					c.Count("ec3: >= 2 independent substreams")
					if x.NumIndSub == 0 {
						c.Count("ec3: >= 2 independent substreams, NumIndSub field left zero")
					}
				}
			case "hvc1", "hev1", "hev1nops":
				if x := genHEVCPS19(rand.New(rand.NewSource(t.seed))); x.tier {
					c.Count("hevc: High tier")
				}
			}
			c.Count("media=" + t.media)
			if len(t.lang) == 3 {
				c.Count("lang=3-letter")
			} else {
				c.Count("lang=tag")
			}
			if t.after > 0 {
				c.Count("descriptor-set-after-later-tracks")
			}
		}
		if i < 3 {
			c.Sample(req)
		}
		if fp != "" {
			c.Fail(fp, what, req, what, "")
		}
		if mreq != "" {
			c.Case(mreq, mresp)
		}
	}
}
