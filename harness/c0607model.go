package main

// Correspondence glue for the *box bookkeeping* of Common Encryption (Lean: Mp4ff/Model/Protect.lean, driver ops
// prot.* in Mp4ff/Driver/C06b.lean).  A fragment / moov structure is rendered in one canonical text (grammar in the
// Lean driver file).  Every request is self-contained: execProt rebuilds a fragment with exactly the described
// structure (box kinds, sizes, data offsets, sample sizes, decoded / in-memory state of senc) and runs the real
// mp4.EncryptFragment / Fragment.Encode + decode / mp4.DecryptFragment on it.  The emitter additionally renders
// the real results on the fragments of the C06/C07 generator (real AVC/HEVC/AAC samples, real protect-range
// functions) and checks that the rebuilt fragment answers the same.

import (
	"bytes"
	"encoding/binary"
	"fmt"
	"sort"
	"strconv"
	"strings"

	"github.com/Eyevinn/mp4ff/mp4"
)

func init() {
	// prot.* requests are executed by execProt (c0607.go sorts before this file, so its init has run)
	for _, id := range []string{"C06", "C07"} {
		p := props[id]
		if p == nil {
			continue
		}
		old := p.exec
		p.exec = func(req string) string {
			if strings.HasPrefix(req, "prot.") {
				return execProt(req)
			}
			return old(req)
		}
	}
}

// ---------------------------------------------------------------- description data

type pTC struct {
	kind string
	size int
	// trun
	off   int64
	wo    uint32
	sizes []uint32
	// saiz / saio
	aux   bool
	def   int
	count int
	info  []int
	ver   int
	offs  []int64
	// senc / usenc
	flag     bool
	iv       int
	subs     []int
	readSize int
	parsed   bool
	startPos uint64
}

type pMC struct {
	kind    string
	size    int
	isTraf  bool
	trackID uint32
	tcs     []pTC
}

type pFrag struct {
	ms, md uint64
	mh     int
	ch     []pMC
}

func kindName(k string) string {
	var sb strings.Builder
	for _, r := range k {
		if (r >= 'a' && r <= 'z') || (r >= 'A' && r <= 'Z') || (r >= '0' && r <= '9') {
			sb.WriteRune(r)
		} else {
			sb.WriteByte('_')
		}
	}
	if sb.Len() == 0 {
		return "_"
	}
	return sb.String()
}

func plusU32(l []uint32) string {
	if len(l) == 0 {
		return "-"
	}
	s := make([]string, len(l))
	for i, x := range l {
		s[i] = strconv.FormatUint(uint64(x), 10)
	}
	return strings.Join(s, "+")
}

func plusInts(l []int) string {
	if len(l) == 0 {
		return "-"
	}
	s := make([]string, len(l))
	for i, x := range l {
		s[i] = strconv.Itoa(x)
	}
	return strings.Join(s, "+")
}

func plusI64(l []int64) string {
	if len(l) == 0 {
		return "-"
	}
	s := make([]string, len(l))
	for i, x := range l {
		s[i] = strconv.FormatInt(x, 10)
	}
	return strings.Join(s, "+")
}

func pb01(b bool) string {
	if b {
		return "1"
	}
	return "0"
}

func parsePlus(s string) ([]int64, bool) {
	if s == "-" {
		return nil, true
	}
	var out []int64
	for _, x := range strings.Split(s, "+") {
		v, err := strconv.ParseInt(x, 10, 64)
		if err != nil {
			return nil, false
		}
		out = append(out, v)
	}
	return out, true
}

func toInts(l []int64) []int {
	out := make([]int, len(l))
	for i, x := range l {
		out[i] = int(x)
	}
	return out
}

// ---------------------------------------------------------------- rendering the library's structures

// sencTruth returns per-sample IV size and sub-sample counts of a senc box, parsing a copy if the box itself has
// only been read (ivHint = per-sample IV size to parse with; 0 lets the library infer it)
func sencTruth(s *mp4.SencBox, ivHint int) (iv int, subs []int) {
	src := s
	if s.ReadButNotParsed() {
		var buf bytes.Buffer
		if err := s.Encode(&buf); err != nil {
			return -1, nil
		}
		b, err := mp4.DecodeBox(0, bytes.NewReader(buf.Bytes()))
		if err != nil {
			return -1, nil
		}
		cpy := b.(*mp4.SencBox)
		if cpy.ReadButNotParsed() {
			if err := cpy.ParseReadBox(byte(ivHint), nil); err != nil {
				return -1, nil
			}
		}
		src = cpy
	}
	for _, ss := range src.SubSamples {
		subs = append(subs, len(ss))
	}
	return int(src.PerSampleIVSize()), subs
}

func renderTrafChild(c mp4.Box, ivHint int) string {
	switch b := c.(type) {
	case *mp4.TrunBox:
		sz := make([]uint32, len(b.Samples))
		for i, s := range b.Samples {
			sz[i] = s.Size
		}
		return fmt.Sprintf("trun:%d:%d:%d:%s", b.Size(), b.DataOffset, mp4.VerifTrunWriteOrderNr(b), plusU32(sz))
	case *mp4.SaizBox:
		info := make([]int, len(b.SampleInfo))
		for i, x := range b.SampleInfo {
			info[i] = int(x)
		}
		return fmt.Sprintf("saiz:%d:%s:%d:%d:%s", b.Size(), pb01(b.Flags&1 != 0), b.DefaultSampleInfoSize, b.SampleCount, plusInts(info))
	case *mp4.SaioBox:
		return fmt.Sprintf("saio:%d:%d:%s:%s", b.Size(), b.Version, pb01(b.Flags&1 != 0), plusI64(b.Offset))
	case *mp4.SencBox:
		iv, subs := sencTruth(b, ivHint)
		readSize := uint64(0)
		if b.StartPos != 0 || b.ReadButNotParsed() {
			readSize = b.Size()
		}
		return fmt.Sprintf("senc:%d:%s:%d:%d:%s:%d:%s:%d", b.Size(), pb01(b.Flags&mp4.UseSubSampleEncryption != 0), iv, b.SampleCount, plusInts(subs), readSize, pb01(!b.ReadButNotParsed()), b.StartPos)
	case *mp4.UUIDBox:
		if b.SubType() == "senc" {
			return fmt.Sprintf("usenc:%d:%s:%d", b.Size(), pb01(!b.Senc.ReadButNotParsed()), b.Senc.StartPos)
		}
	}
	return fmt.Sprintf("%s:%d", kindName(c.Type()), c.Size())
}

// renderFrag: canonical text of a fragment's moof structure; ivHint by track ID for senc boxes not parsed yet
func renderFrag(fr *mp4.Fragment, ivHint map[uint32]int) string {
	var items []string
	for _, c := range fr.Moof.Children {
		switch b := c.(type) {
		case *mp4.TrafBox:
			var tcs []string
			id := uint32(0)
			if b.Tfhd != nil {
				id = b.Tfhd.TrackID
			}
			for _, tc := range b.Children {
				tcs = append(tcs, renderTrafChild(tc, ivHint[id]))
			}
			l := "-"
			if len(tcs) > 0 {
				l = strings.Join(tcs, ",")
			}
			items = append(items, fmt.Sprintf("traf=%d=%s", id, l))
		case *mp4.PsshBox:
			items = append(items, fmt.Sprintf("pssh:%d", b.Size()))
		default:
			items = append(items, fmt.Sprintf("%s:%d", kindName(c.Type()), c.Size()))
		}
	}
	l := "-"
	if len(items) > 0 {
		l = strings.Join(items, ";")
	}
	return fmt.Sprintf("%d/%d/%d/%s", fr.Moof.StartPos, fr.Mdat.StartPos, fr.Mdat.HeaderSize(), l)
}

// ---------------------------------------------------------------- parsing a description

func parseTC(s string) (pTC, bool) {
	f := strings.Split(s, ":")
	atoiOK := func(x string) (int, bool) { v, err := strconv.Atoi(x); return v, err == nil }
	bool01 := func(x string) (bool, bool) { return x == "1", x == "0" || x == "1" }
	var t pTC
	var ok bool
	switch {
	case f[0] == "trun" && len(f) == 5:
		t.kind = "trun"
		if t.size, ok = atoiOK(f[1]); !ok {
			return t, false
		}
		o, err := strconv.ParseInt(f[2], 10, 64)
		w, ok2 := atoiOK(f[3])
		ss, ok3 := parsePlus(f[4])
		if err != nil || !ok2 || !ok3 {
			return t, false
		}
		t.off, t.wo = o, uint32(w)
		for _, x := range ss {
			t.sizes = append(t.sizes, uint32(x))
		}
		return t, true
	case f[0] == "saiz" && len(f) == 6:
		t.kind = "saiz"
		t.size, _ = atoiOK(f[1])
		var ok1, ok2, ok3, ok4 bool
		t.aux, ok1 = bool01(f[2])
		t.def, ok2 = atoiOK(f[3])
		t.count, ok3 = atoiOK(f[4])
		l, ok4 := parsePlus(f[5])
		t.info = toInts(l)
		return t, ok1 && ok2 && ok3 && ok4
	case f[0] == "saio" && len(f) == 5:
		t.kind = "saio"
		t.size, _ = atoiOK(f[1])
		var ok1, ok2, ok3 bool
		t.ver, ok1 = atoiOK(f[2])
		t.aux, ok2 = bool01(f[3])
		t.offs, ok3 = parsePlus(f[4])
		return t, ok1 && ok2 && ok3
	case f[0] == "senc" && len(f) == 9:
		t.kind = "senc"
		t.size, _ = atoiOK(f[1])
		var ok1, ok2, ok3, ok4, ok5, ok6, ok7 bool
		t.flag, ok1 = bool01(f[2])
		t.iv, ok2 = atoiOK(f[3])
		t.count, ok3 = atoiOK(f[4])
		l, ok4 := parsePlus(f[5])
		t.subs = toInts(l)
		t.readSize, ok5 = atoiOK(f[6])
		t.parsed, ok6 = bool01(f[7])
		sp, ok7 := atoiOK(f[8])
		t.startPos = uint64(sp)
		return t, ok1 && ok2 && ok3 && ok4 && ok5 && ok6 && ok7
	case f[0] == "usenc" && len(f) == 4:
		t.kind = "usenc"
		var ok1, ok2, ok3 bool
		t.size, ok1 = atoiOK(f[1])
		t.parsed, ok2 = bool01(f[2])
		sp, ok3 := atoiOK(f[3])
		t.startPos = uint64(sp)
		return t, ok1 && ok2 && ok3
	case len(f) == 2:
		t.kind = f[0]
		t.size, ok = atoiOK(f[1])
		return t, ok
	}
	return t, false
}

func parseFragDesc(s string) (*pFrag, bool) {
	f := strings.Split(s, "/")
	if len(f) != 4 {
		return nil, false
	}
	ms, e1 := strconv.ParseUint(f[0], 10, 64)
	md, e2 := strconv.ParseUint(f[1], 10, 64)
	mh, e3 := strconv.Atoi(f[2])
	if e1 != nil || e2 != nil || e3 != nil {
		return nil, false
	}
	p := &pFrag{ms: ms, md: md, mh: mh}
	if f[3] == "-" {
		return p, true
	}
	for _, item := range strings.Split(f[3], ";") {
		eq := strings.Split(item, "=")
		if len(eq) == 3 && eq[0] == "traf" {
			id, err := strconv.Atoi(eq[1])
			if err != nil {
				return nil, false
			}
			m := pMC{kind: "traf", isTraf: true, trackID: uint32(id)}
			if eq[2] != "-" {
				for _, tc := range strings.Split(eq[2], ",") {
					t, ok := parseTC(tc)
					if !ok {
						return nil, false
					}
					m.tcs = append(m.tcs, t)
				}
			}
			p.ch = append(p.ch, m)
			continue
		}
		if len(eq) != 1 {
			return nil, false
		}
		kv := strings.Split(item, ":")
		if len(kv) != 2 {
			return nil, false
		}
		sz, err := strconv.Atoi(kv[1])
		if err != nil {
			return nil, false
		}
		p.ch = append(p.ch, pMC{kind: kv[0], size: sz})
	}
	return p, true
}

func showTC(t pTC) string {
	switch t.kind {
	case "trun":
		return fmt.Sprintf("trun:%d:%d:%d:%s", t.size, t.off, t.wo, plusU32(t.sizes))
	case "saiz":
		return fmt.Sprintf("saiz:%d:%s:%d:%d:%s", t.size, pb01(t.aux), t.def, t.count, plusInts(t.info))
	case "saio":
		return fmt.Sprintf("saio:%d:%d:%s:%s", t.size, t.ver, pb01(t.aux), plusI64(t.offs))
	case "senc":
		return fmt.Sprintf("senc:%d:%s:%d:%d:%s:%d:%s:%d", t.size, pb01(t.flag), t.iv, t.count, plusInts(t.subs), t.readSize, pb01(t.parsed), t.startPos)
	case "usenc":
		return fmt.Sprintf("usenc:%d:%s:%d", t.size, pb01(t.parsed), t.startPos)
	}
	return fmt.Sprintf("%s:%d", t.kind, t.size)
}

func showDesc(p *pFrag) string {
	var items []string
	for _, c := range p.ch {
		if !c.isTraf {
			items = append(items, fmt.Sprintf("%s:%d", c.kind, c.size))
			continue
		}
		var tcs []string
		for _, t := range c.tcs {
			tcs = append(tcs, showTC(t))
		}
		l := "-"
		if len(tcs) > 0 {
			l = strings.Join(tcs, ",")
		}
		items = append(items, fmt.Sprintf("traf=%d=%s", c.trackID, l))
	}
	l := "-"
	if len(items) > 0 {
		l = strings.Join(items, ";")
	}
	return fmt.Sprintf("%d/%d/%d/%s", p.ms, p.md, p.mh, l)
}

func (p *pFrag) moofSize() int {
	n := 8
	for _, c := range p.ch {
		if !c.isTraf {
			n += c.size
			continue
		}
		n += 8
		for _, t := range c.tcs {
			n += t.size
		}
	}
	return n
}

// ---------------------------------------------------------------- rebuilding a fragment from a description

var piffSencUUID = []byte{0xa2, 0x39, 0x4f, 0x52, 0x5a, 0x9b, 0x4f, 0x14, 0xa2, 0x44, 0x6c, 0x42, 0x7c, 0x64, 0x8d, 0xf4}

// filler box of a given kind and size whose payload the library's decoder of that kind accepts (used when the
// rebuilt fragment is written and decoded again)
func fillerBox(kind string, size int) (mp4.Box, error) {
	if size < 8 {
		return nil, fmt.Errorf("box %s smaller than a header", kind)
	}
	payload := make([]byte, size-8)
	switch kind {
	case "tfdt":
		if size == 20 {
			payload[0] = 1
		}
	case "sbgp":
		if size == 28 {
			raw, _ := unhx("00000000726f6c6c000000010000000100010001")
			copy(payload, raw)
		}
	case "sgpd":
		if size == 26 {
			raw, _ := unhx("01000000726f6c6c0000000200000001ffff")
			copy(payload, raw)
		}
	}
	return mp4.CreateUnknownBox(kind, uint64(size), payload), nil
}

func buildTfhd(size int, trackID uint32, moofStart uint64) (*mp4.TfhdBox, error) {
	extra := size - 16
	if extra < 0 || extra%4 != 0 || extra > 24 {
		return nil, fmt.Errorf("tfhd size %d", size)
	}
	t := &mp4.TfhdBox{TrackID: trackID, Flags: 0x020000}
	n4 := extra / 4
	if n4 > 4 {
		t.Flags |= 0x01
		t.BaseDataOffset = moofStart
		n4 -= 2
	}
	for _, fl := range []uint32{0x20, 0x08, 0x02, 0x10} {
		if n4 > 0 {
			t.Flags |= fl
			n4--
		}
	}
	if int(t.Size()) != size {
		return nil, fmt.Errorf("tfhd size %d not constructible", size)
	}
	return t, nil
}

func buildTrun(d pTC) (*mp4.TrunBox, error) {
	t := mp4.CreateTrun(d.wo)
	n := len(d.sizes)
	flags := uint32(0)
	found := false
	for _, first := range []int{0, 4} {
		rest := d.size - 20 - first
		if n == 0 {
			if rest == 0 {
				flags = mp4.TrunDataOffsetPresentFlag | mp4.TrunSampleSizePresentFlag
				found = true
			}
		} else if rest > 0 && rest%(4*n) == 0 && rest/(4*n) <= 4 {
			k := rest / (4 * n)
			flags = mp4.TrunDataOffsetPresentFlag | mp4.TrunSampleSizePresentFlag
			if k >= 2 {
				flags |= mp4.TrunSampleDurationPresentFlag
			}
			if k >= 3 {
				flags |= mp4.TrunSampleFlagsPresentFlag
			}
			if k >= 4 {
				flags |= mp4.TrunSampleCompositionTimeOffsetPresentFlag
			}
			found = true
		}
		if found {
			if first == 4 {
				flags |= mp4.TrunFirstSampleFlagsPresentFlag
			}
			break
		}
	}
	if !found {
		return nil, fmt.Errorf("trun size %d with %d samples not constructible", d.size, n)
	}
	t.Flags = flags
	t.DataOffset = int32(d.off)
	for _, s := range d.sizes {
		t.AddSample(mp4.Sample{Size: s, Dur: 1})
	}
	if int(t.Size()) != d.size {
		return nil, fmt.Errorf("trun size mismatch")
	}
	return t, nil
}

func buildSenc(d pTC) (mp4.Box, error) {
	s := mp4.NewSencBox(d.count, d.count)
	if d.flag && len(d.subs) != d.count {
		return nil, fmt.Errorf("senc: %d sub-sample entries for %d samples", len(d.subs), d.count)
	}
	for i := 0; i < d.count; i++ {
		var smp mp4.SencSample
		if d.iv > 0 {
			smp.IV = make([]byte, d.iv)
		}
		if d.flag {
			smp.SubSamples = make([]mp4.SubSamplePattern, d.subs[i])
			if d.subs[i] == 0 {
				return nil, fmt.Errorf("senc: in-memory sample without sub-samples in a box with the flag")
			}
		}
		if err := s.AddSample(smp); err != nil {
			return nil, err
		}
	}
	if d.iv > 0 {
		s.SetPerSampleIVSize(byte(d.iv))
	}
	if d.readSize == 0 {
		if !d.parsed {
			return nil, fmt.Errorf("senc: unparsed box must have a read size")
		}
		return s, nil
	}
	var buf bytes.Buffer
	if err := s.Encode(&buf); err != nil {
		return nil, err
	}
	if buf.Len() != d.readSize {
		return nil, fmt.Errorf("senc: read size %d differs from the %d bytes of its content", d.readSize, buf.Len())
	}
	b, err := mp4.DecodeBox(d.startPos, bytes.NewReader(buf.Bytes()))
	if err != nil {
		return nil, err
	}
	dec := b.(*mp4.SencBox)
	if d.parsed && dec.ReadButNotParsed() {
		if err := dec.ParseReadBox(byte(d.iv), nil); err != nil {
			return nil, err
		}
	}
	if !d.parsed && !dec.ReadButNotParsed() {
		return nil, fmt.Errorf("senc: the library parses this box when reading it")
	}
	return dec, nil
}

// PIFF uuid senc: parsed = empty (sample count 0, filler); not parsed = one 8-byte IV per sample of the trun
func buildUsenc(d pTC, nSamples int) (mp4.Box, error) {
	if d.size < 32 || d.startPos < 16 {
		return nil, fmt.Errorf("usenc size/pos")
	}
	raw := make([]byte, d.size)
	binary.BigEndian.PutUint32(raw, uint32(d.size))
	copy(raw[4:], "uuid")
	copy(raw[8:], piffSencUUID)
	if !d.parsed {
		if nSamples == 0 || d.size != 32+8*nSamples {
			return nil, fmt.Errorf("usenc: unparsed box must hold one 8-byte IV per sample")
		}
		binary.BigEndian.PutUint32(raw[28:], uint32(nSamples))
	}
	b, err := mp4.DecodeBox(d.startPos-16, bytes.NewReader(raw))
	if err != nil {
		return nil, err
	}
	u, ok := b.(*mp4.UUIDBox)
	if !ok || u.SubType() != "senc" || u.Senc.ReadButNotParsed() == d.parsed {
		return nil, fmt.Errorf("usenc: not constructible")
	}
	return u, nil
}

func buildFrag(p *pFrag) (*mp4.Fragment, error) {
	fr := mp4.NewFragment()
	moof := &mp4.MoofBox{StartPos: p.ms}
	fr.AddChild(moof)
	var need uint64
	for _, c := range p.ch {
		if !c.isTraf {
			if c.kind == "pssh" {
				if c.size < 32 {
					return nil, fmt.Errorf("pssh size")
				}
				_ = moof.AddChild(&mp4.PsshBox{SystemID: make(mp4.UUID, 16), Data: make([]byte, c.size-32)})
				continue
			}
			b, err := fillerBox(c.kind, c.size)
			if err != nil {
				return nil, err
			}
			_ = moof.AddChild(b)
			continue
		}
		traf := &mp4.TrafBox{}
		nSamples := 0
		for _, tc := range c.tcs {
			if tc.kind == "trun" && nSamples == 0 {
				nSamples = len(tc.sizes)
			}
		}
		for _, tc := range c.tcs {
			var b mp4.Box
			var err error
			switch tc.kind {
			case "tfhd":
				if traf.Tfhd == nil {
					b, err = buildTfhd(tc.size, c.trackID, p.ms)
				} else {
					b, err = fillerBox(tc.kind, tc.size)
				}
			case "trun":
				var t *mp4.TrunBox
				t, err = buildTrun(tc)
				if err == nil {
					b = t
					var ds uint64
					for _, s := range tc.sizes {
						ds += uint64(s)
					}
					if o := int64(p.ms) + tc.off - int64(p.md) - int64(p.mh); o >= 0 && uint64(o)+ds > need {
						need = uint64(o) + ds
					}
				}
			case "saiz":
				info := make([]byte, len(tc.info))
				for i, x := range tc.info {
					info[i] = byte(x)
				}
				fl := uint32(0)
				if tc.aux {
					fl = 1
				}
				b = &mp4.SaizBox{Flags: fl, AuxInfoType: "cenc", DefaultSampleInfoSize: byte(tc.def), SampleCount: uint32(tc.count), SampleInfo: info}
			case "saio":
				fl := uint32(0)
				if tc.aux {
					fl = 1
				}
				b = &mp4.SaioBox{Version: byte(tc.ver), Flags: fl, AuxInfoType: "cenc", Offset: append([]int64{}, tc.offs...)}
			case "senc":
				b, err = buildSenc(tc)
			case "usenc":
				b, err = buildUsenc(tc, nSamples)
			default:
				b, err = fillerBox(tc.kind, tc.size)
			}
			if err != nil {
				return nil, err
			}
			_ = traf.AddChild(b)
		}
		if traf.Tfhd == nil {
			return nil, fmt.Errorf("traf without tfhd")
		}
		_ = moof.AddChild(traf)
	}
	mdat := &mp4.MdatBox{StartPos: p.md, LargeSize: p.mh == 16}
	if p.mh != 8 && p.mh != 16 {
		return nil, fmt.Errorf("mdat header size")
	}
	if need > 1<<26 {
		return nil, fmt.Errorf("mdat too large")
	}
	mdat.Data = make([]byte, need)
	fr.AddChild(mdat)
	return fr, nil
}

func hintsOf(p *pFrag) map[uint32]int {
	h := map[uint32]int{}
	for _, c := range p.ch {
		for _, tc := range c.tcs {
			if tc.kind == "senc" {
				h[c.trackID] = tc.iv
			}
		}
	}
	return h
}

// writeAndDecode: Fragment.Encode, then the library's file decoder on the bytes placed at the fragment's position
func writeAndDecode(fr *mp4.Fragment, prefix []byte) (*mp4.Fragment, []byte, error) {
	var buf bytes.Buffer
	if err := fr.Encode(&buf); err != nil {
		return nil, nil, err
	}
	all := append(cp(prefix), buf.Bytes()...)
	f, err := mp4.DecodeFile(bytes.NewReader(all))
	if err != nil {
		return nil, nil, err
	}
	if len(f.Segments) == 0 || len(f.Segments[len(f.Segments)-1].Fragments) == 0 {
		return nil, nil, fmt.Errorf("no fragment decoded")
	}
	seg := f.Segments[len(f.Segments)-1]
	return seg.Fragments[len(seg.Fragments)-1], buf.Bytes(), nil
}

func freePrefix(n uint64) ([]byte, error) {
	if n == 0 {
		return nil, nil
	}
	if n < 8 || n > 1<<24 {
		return nil, fmt.Errorf("moof start %d cannot be produced by a free box", n)
	}
	b := make([]byte, n)
	binary.BigEndian.PutUint32(b, uint32(n))
	copy(b[4:], "free")
	return b, nil
}

type decInfoEntry struct {
	id     uint32
	clear  bool
	scheme string
	iv     int
}

func parseDecInfo(s string) ([]decInfoEntry, bool) {
	if s == "-" {
		return nil, true
	}
	var out []decInfoEntry
	for _, p := range strings.Split(s, ",") {
		kv := strings.Split(p, "=")
		if len(kv) != 2 {
			return nil, false
		}
		id, err := strconv.Atoi(kv[0])
		if err != nil {
			return nil, false
		}
		if kv[1] == "-" {
			out = append(out, decInfoEntry{id: uint32(id), clear: true})
			continue
		}
		si := strings.Split(kv[1], ".")
		if len(si) != 2 {
			return nil, false
		}
		iv, err := strconv.Atoi(si[1])
		if err != nil {
			return nil, false
		}
		out = append(out, decInfoEntry{id: uint32(id), scheme: si[0], iv: iv})
	}
	return out, true
}

func showDecInfo(di mp4.DecryptInfo) string {
	if len(di.TrackInfos) == 0 {
		return "-"
	}
	var s []string
	for _, ti := range di.TrackInfos {
		if ti.Sinf == nil {
			s = append(s, fmt.Sprintf("%d=-", ti.TrackID))
		} else {
			s = append(s, fmt.Sprintf("%d=%s.%d", ti.TrackID, kindName(ti.Sinf.Schm.SchemeType), ti.Sinf.Schi.Tenc.DefaultPerSampleIVSize))
		}
	}
	return strings.Join(s, ",")
}

func mkDecryptInfo(l []decInfoEntry) mp4.DecryptInfo {
	var di mp4.DecryptInfo
	for _, e := range l {
		ti := mp4.DecryptTrackInfo{TrackID: e.id, Trex: &mp4.TrexBox{TrackID: e.id}}
		if !e.clear {
			tenc := &mp4.TencBox{DefaultIsProtected: 1, DefaultPerSampleIVSize: byte(e.iv)}
			if e.iv == 0 {
				tenc.Version = 1
				tenc.DefaultConstantIV = make([]byte, 16)
				tenc.DefaultCryptByteBlock, tenc.DefaultSkipByteBlock = 1, 9
			}
			sinf := &mp4.SinfBox{}
			sinf.AddChild(&mp4.FrmaBox{DataFormat: "avc1"})
			sinf.AddChild(&mp4.SchmBox{SchemeType: e.scheme, SchemeVersion: 65536})
			schi := &mp4.SchiBox{}
			schi.AddChild(tenc)
			sinf.AddChild(schi)
			ti.Sinf = sinf
		}
		di.TrackInfos = append(di.TrackInfos, ti)
	}
	return di
}

var protKey = []byte{0, 0x11, 0x22, 0x33, 0x44, 0x55, 0x66, 0x77, 0x88, 0x99, 0xaa, 0xbb, 0xcc, 0xdd, 0xee, 0xff}

func schemeTenc(scheme string) *mp4.TencBox {
	if scheme == "cbcs" {
		return &mp4.TencBox{Version: 1, DefaultCryptByteBlock: 1, DefaultSkipByteBlock: 9, DefaultIsProtected: 1, DefaultConstantIV: make([]byte, 16)}
	}
	return &mp4.TencBox{DefaultIsProtected: 1, DefaultPerSampleIVSize: 16}
}

// countingProtFunc returns, for the k-th sample it is asked about, subs[k] empty sub-sample entries
func countingProtFunc(subs []int, calls *int) mp4.ProtectionRangeFunc {
	return func(sample []byte, scheme string) ([]mp4.SubSamplePattern, error) {
		k := *calls
		*calls++
		if k >= len(subs) {
			return nil, fmt.Errorf("no sub-sample count for sample %d", k+1)
		}
		if subs[k] == 0 {
			return nil, nil
		}
		return make([]mp4.SubSamplePattern, subs[k]), nil
	}
}

// protectTrafs: the per-traf step of EncryptFragment applied to several trafs with the library's box API (the library
// function itself accepts one traf only): saiz/saio/senc filled by AddSampleInfo / AddSample, saio offset = position of
// the first senc entry from the moof start
func protectTrafs(fr *mp4.Fragment, params map[uint32]protParam) error {
	for _, traf := range fr.Moof.Trafs {
		p, ok := params[traf.Tfhd.TrackID]
		if !ok {
			continue
		}
		if len(traf.Truns) != 1 {
			return fmt.Errorf("only one trun supported")
		}
		n := int(traf.Trun.SampleCount())
		if len(p.subs) != n {
			return fmt.Errorf("sub-sample counts do not match the samples")
		}
		ivLen := 0
		if p.scheme == "cenc" {
			ivLen = 16
		}
		for i, k := range p.subs {
			sz := ivLen
			if k > 0 {
				sz += 2 + 6*k
			}
			if sz > 255 || (k > 0) != (p.subs[0] > 0) && i > 0 {
				return fmt.Errorf("sub-sample map not representable")
			}
		}
		saiz := mp4.NewSaizBox(n)
		saio := mp4.NewSaioBox()
		var senc *mp4.SencBox
		if p.scheme == "cenc" {
			senc = mp4.NewSencBox(n, n)
		} else {
			senc = mp4.NewSencBox(0, n)
		}
		_ = traf.AddChild(saiz)
		_ = traf.AddChild(saio)
		_ = traf.AddChild(senc)
		for _, k := range p.subs {
			var iv []byte
			if ivLen > 0 {
				iv = make([]byte, ivLen)
			}
			var pat []mp4.SubSamplePattern
			if k > 0 {
				pat = make([]mp4.SubSamplePattern, k)
			}
			_ = senc.AddSample(mp4.SencSample{IV: iv, SubSamples: pat})
			saiz.AddSampleInfo(iv, pat)
		}
	}
	// saio offsets by position
	offset := uint64(8)
	for _, c := range fr.Moof.Children {
		traf, ok := c.(*mp4.TrafBox)
		if !ok {
			offset += c.Size()
			continue
		}
		inner := offset + 8
		_, prot := params[traf.Tfhd.TrackID]
		for _, tc := range traf.Children {
			if tc.Type() == "senc" && prot {
				traf.Saio.Offset[0] = int64(inner + 16)
			}
			inner += tc.Size()
		}
		offset += traf.Size()
	}
	return nil
}

type protParam struct {
	scheme string
	subs   []int
}

func parseParams(s string) (map[uint32]protParam, bool) {
	out := map[uint32]protParam{}
	if s == "-" {
		return out, true
	}
	for _, p := range strings.Split(s, ",") {
		kv := strings.Split(p, "=")
		if len(kv) != 2 {
			return nil, false
		}
		id, err := strconv.Atoi(kv[0])
		sv := strings.Split(kv[1], ".")
		if err != nil || len(sv) != 2 || (sv[0] != "cenc" && sv[0] != "cbcs") {
			return nil, false
		}
		l, ok := parsePlus(sv[1])
		if !ok {
			return nil, false
		}
		if _, dup := out[uint32(id)]; !dup { // first entry wins, as in the model's lookup
			out[uint32(id)] = protParam{sv[0], toInts(l)}
		}
	}
	return out, true
}

// ---------------------------------------------------------------- executing a request on the library

func execProt(req string) string {
	f := strings.Fields(req)
	if len(f) == 0 {
		return ""
	}
	var out string
	p := safe(func() { out = execProtInner(f[0], f[1:]) })
	if p != "" {
		return p
	}
	return out
}

// protEncHook, when set, sees the fragment a successful prot.enc / prot.enciv request produced (the emitter's byte oracle)
var protEncHook func(fr *mp4.Fragment)

func execProtInner(op string, a []string) string {
	switch op {
	case "prot.enc", "prot.enciv":
		// prot.enc <scheme> <subs> <frag>: EncryptFragment with a 16-byte IV;
		// prot.enciv <ivlen> <scheme> <subs> <frag>: with an IV of the given length
		ivLen := 16
		if op == "prot.enciv" {
			if len(a) != 4 {
				return "bad-op"
			}
			n, err := strconv.Atoi(a[0])
			if err != nil || n < 0 || n > 64 {
				return "bad-desc"
			}
			ivLen, a = n, a[1:]
		}
		if len(a) != 3 {
			return "bad-op"
		}
		l, ok := parsePlus(a[1])
		p, ok2 := parseFragDesc(a[2])
		if !ok || !ok2 || (a[0] != "cenc" && a[0] != "cbcs") {
			return "bad-desc"
		}
		fr, err := buildFrag(p)
		if err != nil {
			return "bad-desc: " + err.Error()
		}
		subs := toInts(l)
		calls := 0
		var trex *mp4.TrexBox
		if fr.Moof.Traf != nil {
			trex = &mp4.TrexBox{TrackID: fr.Moof.Traf.Tfhd.TrackID}
		}
		ipd := &mp4.InitProtectData{Tenc: schemeTenc(a[0]), ProtFunc: countingProtFunc(subs, &calls), Trex: trex, Scheme: a[0]}
		if err := mp4.EncryptFragment(fr, protKey, make([]byte, ivLen), ipd); err != nil {
			return "err"
		}
		if calls != len(subs) {
			return "err"
		}
		out := renderFrag(fr, hintsOf(p))
		if protEncHook != nil {
			protEncHook(fr) // after rendering: writing the fragment sets its data offsets
		}
		return out
	case "prot.all":
		if len(a) != 2 {
			return "bad-op"
		}
		params, ok := parseParams(a[0])
		p, ok2 := parseFragDesc(a[1])
		if !ok || !ok2 {
			return "bad-desc"
		}
		fr, err := buildFrag(p)
		if err != nil {
			return "bad-desc: " + err.Error()
		}
		if err := protectTrafs(fr, params); err != nil {
			return "err"
		}
		return renderFrag(fr, hintsOf(p))
	case "prot.lay":
		if len(a) != 1 {
			return "bad-op"
		}
		p, ok := parseFragDesc(a[0])
		if !ok {
			return "bad-desc"
		}
		fr, err := buildFrag(p)
		if err != nil {
			return "bad-desc: " + err.Error()
		}
		pre, err := freePrefix(p.ms)
		if err != nil {
			return "bad-desc: " + err.Error()
		}
		fr2, _, err := writeAndDecode(fr, pre)
		if err != nil {
			return "err"
		}
		return renderFrag(fr2, hintsOf(p))
	case "prot.dec":
		if len(a) != 2 {
			return "bad-op"
		}
		dl, ok := parseDecInfo(a[0])
		p, ok2 := parseFragDesc(a[1])
		if !ok || !ok2 {
			return "bad-desc"
		}
		fr, err := buildFrag(p)
		if err != nil {
			return "bad-desc: " + err.Error()
		}
		if err := mp4.DecryptFragment(fr, mkDecryptInfo(dl), protKey); err != nil {
			return "err"
		}
		return renderFrag(fr, hintsOf(p))
	case "prot.init", "prot.deinit":
		return execProtInit(op, a)
	case "prot.trex":
		return execProtTrex(a) // c0607multi.go
	}
	return "bad-op"
}

// ---------------------------------------------------------------- init segment: rendering, scenarios

func renderEntryChild(c mp4.Box) string {
	if sinf, ok := c.(*mp4.SinfBox); ok && sinf.Frma != nil && sinf.Schm != nil && sinf.Schi != nil && sinf.Schi.Tenc != nil {
		t := sinf.Schi.Tenc
		return fmt.Sprintf("sinf:%d:%s:%s:%d:%d", sinf.Size(), kindName(sinf.Frma.DataFormat), kindName(sinf.Schm.SchemeType), t.DefaultPerSampleIVSize, len(t.DefaultConstantIV))
	}
	return fmt.Sprintf("%s:%d", kindName(c.Type()), c.Size())
}

func renderEntry(e mp4.Box) string {
	cls := "o"
	var ch []mp4.Box
	switch b := e.(type) {
	case *mp4.VisualSampleEntryBox:
		cls, ch = "v", b.Children
	case *mp4.AudioSampleEntryBox:
		cls, ch = "a", b.Children
	}
	var cs []string
	for _, c := range ch {
		cs = append(cs, renderEntryChild(c))
	}
	l := "-"
	if len(cs) > 0 {
		l = strings.Join(cs, ",")
	}
	return fmt.Sprintf("%s.%s.%d~%s", cls, kindName(e.Type()), e.Size(), l)
}

func renderMoov(m *mp4.MoovBox) string {
	var items []string
	for _, c := range m.Children {
		switch b := c.(type) {
		case *mp4.TrakBox:
			var es []string
			for _, e := range b.Mdia.Minf.Stbl.Stsd.Children {
				es = append(es, renderEntry(e))
			}
			l := "-"
			if len(es) > 0 {
				l = strings.Join(es, "|")
			}
			items = append(items, fmt.Sprintf("trak=%d=%s", b.Tkhd.TrackID, l))
		case *mp4.PsshBox:
			items = append(items, fmt.Sprintf("pssh:%d", b.Size()))
		default:
			items = append(items, fmt.Sprintf("%s:%d", kindName(c.Type()), c.Size()))
		}
	}
	if len(items) == 0 {
		return "-"
	}
	return strings.Join(items, ";")
}

type trakScen struct {
	src, typ, extra int
	prot            string // "", cenc, cbcs
}

type initScen struct {
	a     trakScen
	two   bool
	b     trakScen
	npssh int // pssh boxes already in the moov (sizes psshSizes[0..])
}

var psshSizes = []int{42, 60}

func mkPssh(size int) *mp4.PsshBox {
	sysID, _ := mp4.NewUUIDFromString("edef8ba979d64acea3c827dcd51d21ed")
	return &mp4.PsshBox{SystemID: sysID, Data: make([]byte, size-32)}
}

var protKID, _ = mp4.NewUUIDFromString("11112222333344445555666677778888")

func buildTrakScen(t trakScen) (*mp4.InitSegment, error) {
	srcs := loadClearSources()
	if t.src >= len(srcs) {
		return nil, fmt.Errorf("no source")
	}
	f, err := mp4.DecodeFile(bytes.NewReader(srcs[t.src].init))
	if err != nil {
		return nil, err
	}
	init := f.Init
	e := init.Moov.Trak.Mdia.Minf.Stbl.Stsd.Children[0]
	switch se := e.(type) {
	case *mp4.VisualSampleEntryBox:
		switch t.typ {
		case 1:
			se.SetType(map[string]string{"avc1": "avc3", "hvc1": "hev1"}[se.Type()])
		case 2:
			se.SetType("vp09")
		}
		if t.extra >= 2 {
			se.AddChild(&mp4.PaspBox{HSpacing: 1, VSpacing: 1})
		}
		if t.extra >= 1 {
			se.AddChild(&mp4.BtrtBox{MaxBitrate: 1000, AvgBitrate: 900})
		}
	case *mp4.AudioSampleEntryBox:
		switch t.typ {
		case 1:
			se.SetType("ac-3")
		case 2:
			se.SetType("ec-3")
		}
		if t.extra >= 1 {
			se.AddChild(&mp4.BtrtBox{MaxBitrate: 1000, AvgBitrate: 900})
		}
		if t.extra >= 2 {
			se.AddChild(mp4.CreateUnknownBox("xtra", 13, []byte{1, 2, 3, 4, 5}))
		}
	}
	if t.prot != "" {
		if _, err := mp4.InitProtect(init, protKey, make([]byte, 16), t.prot, protKID, nil); err != nil {
			return nil, err
		}
	}
	return init, nil
}

func buildScen(s initScen) (*mp4.InitSegment, error) {
	init, err := buildTrakScen(s.a)
	if err != nil {
		return nil, err
	}
	if s.two {
		ib, err := buildTrakScen(s.b)
		if err != nil {
			return nil, err
		}
		tb := ib.Moov.Trak
		tb.Tkhd.TrackID = init.Moov.Trak.Tkhd.TrackID + 1
		trex := ib.Moov.Mvex.Trex
		trex.TrackID = tb.Tkhd.TrackID
		init.Moov.AddChild(tb)
		init.Moov.Mvex.AddChild(trex)
	}
	for i := 0; i < s.npssh; i++ {
		init.Moov.AddChild(mkPssh(psshSizes[i]))
	}
	var buf bytes.Buffer
	if err := init.Encode(&buf); err != nil {
		return nil, err
	}
	f, err := mp4.DecodeFile(bytes.NewReader(buf.Bytes()))
	if err != nil {
		return nil, err
	}
	return f.Init, nil
}

func allInitScens() []initScen {
	var out []initScen
	prots := []string{"", "cenc", "cbcs"}
	n := len(loadClearSources())
	for src := 0; src < n; src++ {
		for typ := 0; typ < 3; typ++ {
			for extra := 0; extra < 3; extra++ {
				for _, pr := range prots {
					if pr != "" && typ == 2 && loadClearSources()[src].codec != "aac" {
						continue // InitProtect refuses this entry type
					}
					for np := 0; np <= 2; np++ {
						out = append(out, initScen{a: trakScen{src, typ, extra, pr}, npssh: np})
					}
				}
			}
		}
	}
	for s1 := 0; s1 < n; s1++ {
		for s2 := 0; s2 < n; s2++ {
			for _, p1 := range prots {
				for _, p2 := range prots {
					for np := 0; np <= 1; np++ {
						out = append(out, initScen{a: trakScen{s1, 0, 0, p1}, two: true, b: trakScen{s2, 0, 0, p2}, npssh: np})
					}
				}
			}
		}
	}
	return out
}

func findScen(desc string) *mp4.InitSegment {
	for _, s := range allInitScens() {
		init, err := buildScen(s)
		if err == nil && renderMoov(init.Moov) == desc {
			return init
		}
	}
	return nil
}

func runInitProtect(init *mp4.InitSegment, scheme string, add []int) string {
	var ps []*mp4.PsshBox
	for _, n := range add {
		if n < 32 {
			return "bad-desc"
		}
		ps = append(ps, mkPssh(n))
	}
	if _, err := mp4.InitProtect(init, protKey, make([]byte, 16), scheme, protKID, ps); err != nil {
		return "err"
	}
	return renderMoov(init.Moov)
}

func runDecryptInit(init *mp4.InitSegment) string {
	di, err := mp4.DecryptInit(init)
	if err != nil {
		return "err"
	}
	return renderMoov(init.Moov) + " " + showDecInfo(di)
}

func execProtInit(op string, a []string) string {
	switch op {
	case "prot.init":
		if len(a) != 3 || (a[0] != "cenc" && a[0] != "cbcs") {
			return "bad-op"
		}
		add, ok := parsePlus(a[1])
		if !ok {
			return "bad-desc"
		}
		init := findScen(a[2])
		if init == nil {
			return "bad-desc: no init scenario has this structure"
		}
		return runInitProtect(init, a[0], toInts(add))
	case "prot.deinit":
		if len(a) != 1 {
			return "bad-op"
		}
		init := findScen(a[0])
		if init == nil {
			return "bad-desc: no init scenario has this structure"
		}
		return runDecryptInit(init)
	}
	return "bad-op"
}

// ---------------------------------------------------------------- emitter (called from the C06 / C07 generators)

type protEmit struct {
	c        *Ctx
	which    string
	rebuilt  int
	mismatch int
	// the sweep around the one-byte saiz limit (emitProtModel): scheme, caller IV length and the number of sub-sample
	// entries of one sample are fixed for the next synthetic EncryptFragment case (forceEntries = 0: all drawn)
	forceScheme  string
	forceIV      int
	forceEntries int
}

// emit one model case; every few cases the self-contained rebuild of the request is executed too and must answer the same
func (pe *protEmit) emit(req, ans string, checkRebuild bool) {
	pe.c.Case(req, ans)
	pe.c.Count(strings.Fields(req)[0])
	if checkRebuild {
		pe.rebuilt++
		if got := execProt(req); got != ans {
			pe.mismatch++
			if pe.mismatch <= 3 {
				pe.c.Note("prot: rebuilt request answers differently: " + clip(req) + " => " + clip(got) + " vs " + clip(ans))
			}
		}
	}
}

func (pe *protEmit) fail(prop, kind, what, req, got, exp string) {
	if prop == pe.which {
		pe.c.Fail(prop+"-"+kind, what, clip(req), clip(got), clip(exp))
	}
}

func emitProtModel(c *Ctx, which string) {
	srcs := loadClearSources()
	if len(srcs) == 0 {
		c.Note("repository segments not found: prot.* cases skipped")
		return
	}
	pe := &protEmit{c: c, which: which}
	for it := 0; it < c.N(60, 800); it++ {
		pe.realTrack(srcs[it%len(srcs)], it)
	}
	for it := 0; it < c.N(40, 500); it++ {
		pe.multiTrack(srcs, it)
	}
	for it := 0; it < c.N(120, 1500); it++ {
		pe.synthetic(it)
	}
	// IV length 8 / 16 x scheme x sub-sample entries of one sample around (255 - IV size - 2) / 6 for IV sizes 0, 8, 16
	for _, sc := range []string{"cenc", "cbcs"} {
		for _, ivLen := range []int{8, 16} {
			for k := 36; k <= 45; k++ {
				pe.forceScheme, pe.forceIV, pe.forceEntries = sc, ivLen, k
				pe.synthetic(0)
			}
		}
	}
	pe.forceEntries = 0
	for it := 0; it < c.N(90, 700); it++ {
		pe.initCases(it)
	}
	c.Count("prot.rebuild-checked")
	c.St.Distribution["prot.rebuild-checked"] = pe.rebuilt
	if pe.mismatch > 0 {
		c.St.Distribution["prot.rebuild-mismatch"] = pe.mismatch
		c.Fail(which+"-prot-rebuild", "a fragment rebuilt from its structure description behaves differently from the original", "", fmt.Sprint(pe.mismatch), "0")
	}
}

func subsOf(pf mp4.ProtectionRangeFunc, scheme string, samples []mp4.FullSample) ([]int, bool) {
	var out []int
	for _, s := range samples {
		r, err := pf(s.Data, scheme)
		if err != nil {
			return nil, false
		}
		out = append(out, len(r))
	}
	return out, true
}

// a clear single-track fragment as the C06/C07 generator builds it (real samples of the repository's segments,
// synthetic AVC samples, extra boxes), through the library's encrypt / write / decrypt; every step rendered
func (pe *protEmit) realTrack(src *clearSource, it int) {
	c := pe.c
	scheme := []string{"cenc", "cbcs"}[c.R.Intn(2)]
	ivLen := []int{8, 16}[c.R.Intn(2)]
	iv := make([]byte, ivLen)
	c.R.Read(iv)
	extras := ""
	for _, ch := range "ufxgrp" {
		if c.R.Intn(4) == 0 {
			extras += string(ch)
		}
	}
	synthetic := src.codec == "avc" && scheme == "cenc" && c.R.Intn(3) == 0
	desc := fmt.Sprintf("prot real %s %s iv=%d extras=%s synth=%v", src.codec, scheme, ivLen, extras, synthetic)
	p := safe(func() {
		initF, err := mp4.DecodeFile(bytes.NewReader(src.init))
		if err != nil {
			return
		}
		ipd, err := mp4.InitProtect(initF.Init, protKey, iv, scheme, protKID, nil)
		if err != nil {
			return
		}
		var encInit bytes.Buffer
		if err := initF.Init.Encode(&encInit); err != nil {
			return
		}
		trackID := initF.Init.Moov.Trak.Tkhd.TrackID
		fr, _ := mp4.CreateFragment(uint32(it+1), trackID)
		ns := 1 + c.R.Intn(5)
		si := c.R.Intn(len(src.samples))
		var ss []mp4.FullSample
		for k := 0; k < ns; k++ {
			s := src.samples[(si+k)%len(src.samples)]
			d := cp(s.Data)
			if synthetic {
				d = synthAvcSample(c)
			}
			s.Data = d
			s.Size = uint32(len(d))
			fr.AddFullSample(s)
			ss = append(ss, s)
		}
		for _, ch := range extras {
			switch ch {
			case 'u':
				_ = fr.Moof.Traf.AddChild(mp4.NewTfxdBox(12345, 678))
			case 'f':
				_ = fr.Moof.AddChild(mp4.NewFreeBox([]byte{1, 2, 3}))
			case 'x':
				_ = fr.Moof.Traf.AddChild(mp4.CreateUnknownBox("abcd", 8+5, []byte{5, 4, 3, 2, 1}))
			case 'r':
				for _, hexBox := range []string{"0000001c7362677000000000726f6c6c00000001" + fmt.Sprintf("%08x", 1) + "00010001", "0000001a7367706401000000726f6c6c0000000200000001ffff"} {
					raw, _ := unhx(hexBox)
					if b, err := mp4.DecodeBox(0, bytes.NewReader(raw)); err == nil {
						_ = fr.Moof.Traf.AddChild(b)
					}
				}
			case 'g':
				fr.Moof.Children = append([]mp4.Box{fr.Moof.Children[0], mp4.NewFreeBox([]byte{9})}, fr.Moof.Children[1:]...)
			case 'p':
				if scheme == "cenc" { // a largesize mdat
					fr.Mdat.LargeSize = true
				}
			}
		}
		var clear bytes.Buffer
		if err := fr.Encode(&clear); err != nil {
			return
		}
		decode := func(b []byte) *mp4.Fragment {
			f, err := mp4.DecodeFile(bytes.NewReader(append(cp(encInit.Bytes()), b...)))
			if err != nil || len(f.Segments) == 0 {
				return nil
			}
			return f.Segments[0].Fragments[0]
		}
		f0 := decode(clear.Bytes())
		if f0 == nil {
			return
		}
		hint := map[uint32]int{trackID: 16}
		if scheme == "cbcs" {
			hint[trackID] = 0
		}
		subs, ok := subsOf(ipd.ProtFunc, scheme, ss)
		if !ok {
			return
		}
		d0 := renderFrag(f0, hint)
		reqEnc := fmt.Sprintf("prot.enc %s %s %s", scheme, plusInts(subs), d0)
		if err := mp4.EncryptFragment(f0, protKey, iv, ipd); err != nil {
			pe.emit(reqEnc, "err", true)
			pe.fail("C06", "prot-encrypt", "EncryptFragment fails on a clear fragment: "+err.Error(), reqEnc, err.Error(), "")
			return
		}
		d1 := renderFrag(f0, hint)
		pe.emit(reqEnc, d1, it%3 == 0)
		// write + decode
		var eb bytes.Buffer
		if err := f0.Encode(&eb); err != nil {
			pe.fail("C06", "prot-encode", "encrypted fragment does not encode", reqEnc, err.Error(), "")
			return
		}
		f2 := decode(eb.Bytes())
		if f2 == nil {
			pe.fail("C07", "prot-decode", "encrypted fragment does not decode", reqEnc, "", "")
			return
		}
		d2 := renderFrag(f2, hint)
		pe.emit("prot.lay "+d1, d2, it%3 == 0)
		pe.checkCenc(reqEnc, f2, eb.Bytes(), subs, hint[trackID], uint64(encInit.Len()))
		// decrypt the decoded fragment
		initD, err := mp4.DecodeFile(bytes.NewReader(encInit.Bytes()))
		if err != nil {
			return
		}
		di, err := mp4.DecryptInit(initD.Init)
		if err != nil {
			pe.fail("C06", "prot-decrypt-init", "DecryptInit fails: "+err.Error(), desc, err.Error(), "")
			return
		}
		reqDec := fmt.Sprintf("prot.dec %s %s", showDecInfo(di), d2)
		if err := mp4.DecryptFragment(f2, di, protKey); err != nil {
			pe.emit(reqDec, "err", true)
			pe.fail("C06", "prot-decrypt", "DecryptFragment fails on what the library encrypted: "+err.Error(), reqDec, err.Error(), "")
			return
		}
		d3 := renderFrag(f2, hint)
		pe.emit(reqDec, d3, it%3 == 0)
		// C06: structure, sizes and data offsets are those of the clear fragment
		f0b := decode(clear.Bytes())
		if want := renderFrag(f0b, hint); d3 != want {
			pe.fail("C06", "prot-structure-roundtrip", "decrypt(encrypt(fragment)) differs from the clear fragment in box structure, sizes or data offsets", reqDec, d3, want)
		}
		// the decrypted samples are found where the data offsets point
		if fss, err := f2.GetFullSamples(nil); err != nil || len(fss) != len(ss) {
			pe.fail("C06", "prot-offsets", "samples of the decrypted fragment cannot be read through its data offsets", reqDec, fmt.Sprint(err), "")
		} else {
			for i := range fss {
				if !bytes.Equal(fss[i].Data, ss[i].Data) {
					pe.fail("C06", "prot-offsets", "data offset of the decrypted fragment does not address the sample bytes", reqDec, clip(hx(fss[i].Data)), clip(hx(ss[i].Data)))
					break
				}
			}
		}
		// in-memory variant: decrypt directly after encrypting (senc parsed, nothing re-written)
		f1 := decode(clear.Bytes())
		if err := mp4.EncryptFragment(f1, protKey, iv, ipd); err == nil {
			reqDec2 := fmt.Sprintf("prot.dec %s %s", showDecInfo(di), renderFrag(f1, hint))
			if err := mp4.DecryptFragment(f1, di, protKey); err != nil {
				pe.emit(reqDec2, "err", true)
			} else {
				pe.emit(reqDec2, renderFrag(f1, hint), it%3 == 0)
			}
		}
	})
	c.Eval(desc + fmt.Sprint(it))
	if p != "" {
		pe.fail(pe.which, "prot-panic", "panic in the encrypt / write / decrypt pipeline: "+p, desc, p, "")
	}
}

// CENC well-formedness of an encrypted, written fragment, checked on the library's structures and the bytes
func (pe *protEmit) checkCenc(req string, fr *mp4.Fragment, enc []byte, subs []int, ivLen int, moofStart uint64) {
	traf := fr.Moof.Traf
	if traf.Saiz == nil || traf.Saio == nil || traf.Senc == nil {
		pe.fail("C07", "prot-aux-missing", "senc/saiz/saio missing in encrypted traf", req, "", "")
		return
	}
	n := int(traf.Trun.SampleCount())
	if int(traf.Senc.SampleCount) != n {
		pe.fail("C07", "prot-senc-count", "senc sample count differs from the trun sample count", req, fmt.Sprint(traf.Senc.SampleCount), fmt.Sprint(n))
	}
	anyInfo := false
	for i, k := range subs {
		want := ivLen
		if k > 0 {
			want += 2 + 6*k
		}
		if want > 0 {
			anyInfo = true
		}
		got := int(traf.Saiz.DefaultSampleInfoSize)
		if got == 0 && i < len(traf.Saiz.SampleInfo) {
			got = int(traf.Saiz.SampleInfo[i])
		}
		if got != want {
			pe.fail("C07", "prot-saiz-size", "saiz sample info size does not describe the senc entry", req, fmt.Sprint(got), fmt.Sprint(want))
		}
	}
	if anyInfo && int(traf.Saiz.SampleCount) != n {
		pe.fail("C07", "prot-saiz-count", "saiz sample count differs from the trun sample count", req, fmt.Sprint(traf.Saiz.SampleCount), fmt.Sprint(n))
	}
	var bx []rawBox
	walkBoxes(enc, 0, "", &bx)
	for _, b := range bx {
		if b.typ == "senc" {
			if len(traf.Saio.Offset) != 1 || int(traf.Saio.Offset[0]) != b.start+16 {
				pe.fail("C07", "prot-saio-offset", "saio offset != position of the first senc entry from the moof start", req, fmt.Sprint(traf.Saio.Offset), fmt.Sprint(b.start+16))
			}
			total := 0
			for _, k := range subs {
				total += ivLen
				if traf.Senc.Flags&mp4.UseSubSampleEncryption != 0 {
					total += 2 + 6*k
				}
			}
			if b.size != 16+total {
				pe.fail("C07", "prot-senc-size", "senc size is not header + per-sample entries", req, fmt.Sprint(b.size), fmt.Sprint(16+total))
			}
		}
		if b.typ == "mdat" {
			if want := b.start + b.hl; int(traf.Trun.DataOffset) != want {
				pe.fail("C07", "prot-data-offset", "trun data offset of the encrypted fragment is not the start of the mdat payload", req, fmt.Sprint(traf.Trun.DataOffset), fmt.Sprint(want))
			}
		}
	}
	_ = moofStart
}

// multi-track fragments built with the library's fragment API (several trafs, possibly several truns per traf),
// protected per traf with the library's box API, written, decoded and decrypted by the library
func (pe *protEmit) multiTrack(srcs []*clearSource, it int) {
	c := pe.c
	desc := fmt.Sprintf("prot multi %d", it)
	p := safe(func() {
		ntr := 2 + c.R.Intn(2)
		ids := make([]uint32, ntr)
		tsrc := make([]*clearSource, ntr)
		for i := range ids {
			ids[i] = uint32(i + 1)
			tsrc[i] = srcs[c.R.Intn(len(srcs))]
		}
		interleave := c.R.Intn(4) == 0
		type tdata struct{ ss []mp4.FullSample }
		build := func() (*mp4.Fragment, []tdata) {
			fr, _ := mp4.CreateMultiTrackFragment(uint32(it+1), ids)
			return fr, make([]tdata, ntr)
		}
		fr, td := build()
		// sample plan (fixed before adding so that the fragment can be rebuilt identically)
		type add struct{ tr, idx int }
		var plan []add
		cnt := make([]int, ntr)
		for i := 0; i < ntr; i++ {
			cnt[i] = 1 + c.R.Intn(3)
		}
		if interleave {
			for k := 0; k < 3; k++ {
				for i := 0; i < ntr; i++ {
					if k < cnt[i] {
						plan = append(plan, add{i, k})
					}
				}
			}
		} else {
			order := c.R.Perm(ntr)
			for _, i := range order {
				for k := 0; k < cnt[i]; k++ {
					plan = append(plan, add{i, k})
				}
			}
		}
		start := make([]int, ntr)
		for i := range start {
			start[i] = c.R.Intn(len(tsrc[i].samples))
		}
		fill := func(fr *mp4.Fragment, td []tdata) bool {
			for _, a := range plan {
				s := tsrc[a.tr].samples[(start[a.tr]+a.idx)%len(tsrc[a.tr].samples)]
				s.Data = cp(s.Data)
				if err := fr.AddFullSampleToTrack(s, ids[a.tr]); err != nil {
					return false
				}
				td[a.tr].ss = append(td[a.tr].ss, s)
			}
			return true
		}
		if !fill(fr, td) {
			return
		}
		npssh := c.R.Intn(3)
		extraFree := c.R.Intn(3) == 0
		decorate := func(fr *mp4.Fragment) {
			if extraFree {
				fr.Moof.Children = append([]mp4.Box{fr.Moof.Children[0], mp4.NewFreeBox([]byte{9, 9})}, fr.Moof.Children[1:]...)
			}
		}
		decorate(fr)
		moofStart := uint64(24 + 8*c.R.Intn(20))
		pre, _ := freePrefix(moofStart)
		// per-track protection parameters (some tracks stay clear)
		params := map[uint32]protParam{}
		var ps []string
		hint := map[uint32]int{}
		for i := 0; i < ntr; i++ {
			if c.R.Intn(4) == 0 || len(fr.Moof.Trafs[i].Truns) != 1 {
				continue
			}
			scheme := []string{"cenc", "cbcs"}[c.R.Intn(2)]
			var subs []int
			useSubs := tsrc[i].codec != "aac"
			for range td[i].ss {
				k := 0
				if useSubs {
					k = 1 + c.R.Intn(4)
				}
				subs = append(subs, k)
			}
			params[ids[i]] = protParam{scheme, subs}
			ps = append(ps, fmt.Sprintf("%d=%s.%s", ids[i], scheme, plusInts(subs)))
			if scheme == "cenc" {
				hint[ids[i]] = 16
			}
		}
		sort.Strings(ps)
		pstr := "-"
		if len(ps) > 0 {
			pstr = strings.Join(ps, ",")
		}
		// the clear fragment, in memory and written
		fr.Moof.StartPos = moofStart
		dClearMem := renderFrag(fr, hint)
		frClear2, _, err := writeAndDecode(fr, pre)
		if err != nil {
			return
		}
		dClear := renderFrag(frClear2, hint)
		pe.emit("prot.lay "+dClearMem, dClear, it%4 == 0)
		// protect (a second, identical in-memory fragment)
		fr2, td2 := build()
		if !fill(fr2, td2) {
			return
		}
		decorate(fr2)
		fr2.Moof.StartPos = moofStart
		reqAll := fmt.Sprintf("prot.all %s %s", pstr, renderFrag(fr2, hint))
		if err := protectTrafs(fr2, params); err != nil {
			pe.emit(reqAll, "err", true)
			return
		}
		for i := 0; i < npssh; i++ {
			_ = fr2.Moof.AddChild(mkPssh(psshSizes[i]))
		}
		dProtMem := renderFrag(fr2, hint)
		if npssh == 0 {
			pe.emit(reqAll, dProtMem, it%4 == 0)
		}
		frProt, _, err := writeAndDecode(fr2, pre)
		if err != nil {
			pe.fail("C06", "prot-multi-write", "protected multi-track fragment cannot be written and decoded: "+err.Error(), reqAll, err.Error(), "")
			return
		}
		dProt := renderFrag(frProt, hint)
		pe.emit("prot.lay "+dProtMem, dProt, it%4 == 0)
		// decrypt info: protected tracks (sometimes one is left out), clear tracks sometimes listed as clear
		var dl []decInfoEntry
		complete := true
		for i := 0; i < ntr; i++ {
			p, ok := params[ids[i]]
			switch {
			case ok && c.R.Intn(6) == 0:
				complete = false
			case ok:
				iv := 0
				if p.scheme == "cenc" {
					iv = 16
				}
				dl = append(dl, decInfoEntry{id: ids[i], scheme: p.scheme, iv: iv})
			case c.R.Intn(2) == 0:
				dl = append(dl, decInfoEntry{id: ids[i], clear: true})
			}
		}
		di := mkDecryptInfo(dl)
		reqDec := fmt.Sprintf("prot.dec %s %s", showDecInfo(di), dProt)
		if err := mp4.DecryptFragment(frProt, di, protKey); err != nil {
			pe.emit(reqDec, "err", true)
			pe.fail("C06", "prot-multi-decrypt", "DecryptFragment fails on a multi-track fragment: "+err.Error(), reqDec, err.Error(), "")
			return
		}
		dDec := renderFrag(frProt, hint)
		pe.emit(reqDec, dDec, it%4 == 0)
		if complete && dDec != dClear {
			pe.fail("C06", "prot-multi-structure", "decrypted multi-track fragment differs from the clear fragment in box structure, sizes or data offsets", reqDec, dDec, dClear)
		}
		if complete {
			// every track's samples are found through the shifted data offsets (clear tracks byte-identical)
			for i := 0; i < ntr; i++ {
				if _, prot := params[ids[i]]; prot {
					continue
				}
				fss, err := frProt.GetFullSamples(&mp4.TrexBox{TrackID: ids[i]})
				if err != nil || len(fss) != len(td2[i].ss) {
					pe.fail("C06", "prot-multi-offsets", "samples of a clear track cannot be read after decrypting the fragment", reqDec, fmt.Sprint(err), "")
					continue
				}
				for k := range fss {
					if !bytes.Equal(fss[k].Data, td2[i].ss[k].Data) {
						pe.fail("C06", "prot-multi-offsets", "data offset of a clear track does not address its sample bytes after decrypting the fragment", reqDec, clip(hx(fss[k].Data)), clip(hx(td2[i].ss[k].Data)))
						break
					}
				}
			}
		}
	})
	c.Eval(desc)
	if p != "" {
		pe.fail(pe.which, "prot-panic", "panic in the multi-track pipeline: "+p, desc, p, "")
	}
}

// synthetic structure descriptions executed on rebuilt fragments: error paths and states the pipelines do not reach
func (pe *protEmit) synthetic(it int) {
	c := pe.c
	r := c.R
	kinds := []string{"free", "skip", "abcd", "zzzz", "uuid"}
	ms := uint64(0)
	if r.Intn(5) > 0 {
		ms = uint64(8 + r.Intn(500))
	}
	mh := 8
	if r.Intn(6) == 0 {
		mh = 16
	}
	other := func() string {
		k := kinds[r.Intn(len(kinds))]
		n := 8 + r.Intn(40)
		if k == "uuid" {
			n = 24 + r.Intn(30)
		}
		return fmt.Sprintf("%s:%d", k, n)
	}
	mkTraf := func(id int, ntrun int, nsamp int) (string, int, []int) {
		tfhd := 16 + 4*r.Intn(5)
		parts := []string{fmt.Sprintf("tfhd:%d", tfhd)}
		size := 8 + tfhd
		if r.Intn(2) == 0 {
			n := []int{16, 20}[r.Intn(2)]
			parts = append(parts, fmt.Sprintf("tfdt:%d", n))
			size += n
		}
		var counts []int
		for t := 0; t < ntrun; t++ {
			n := nsamp
			if t > 0 {
				n = 1 + r.Intn(3)
			}
			k := 1 + r.Intn(4)
			first := 4 * r.Intn(2)
			tsz := 20 + first + 4*k*n
			if n == 0 {
				tsz = 20 + first
			}
			var ss []uint32
			for i := 0; i < n; i++ {
				ss = append(ss, uint32(1+r.Intn(300)))
			}
			parts = append(parts, fmt.Sprintf("trun:%d:%d:0:%s", tsz, 0, plusU32(ss)))
			size += tsz
			counts = append(counts, n)
			if r.Intn(3) == 0 {
				o := other()
				parts = append(parts, o)
				size += atoi(strings.Split(o, ":")[1])
			}
		}
		return fmt.Sprintf("traf=%d=%s", id, strings.Join(parts, ",")), size, counts
	}
	// a consistent clear fragment description: offsets as the writer sets them (single trun) or consecutive (several)
	mkFrag := func(ntraf int, trunsPer []int, nsamp int) (string, [][]int) {
		var items []string
		items = append(items, "mfhd:16")
		var counts [][]int
		for i := 0; i < ntraf; i++ {
			if r.Intn(4) == 0 {
				items = append(items, other())
			}
			t, _, cn := mkTraf(i+1, trunsPer[i], nsamp)
			items = append(items, t)
			counts = append(counts, cn)
		}
		if r.Intn(4) == 0 {
			items = append(items, other())
		}
		d := fmt.Sprintf("%d/%d/%d/%s", ms, 0, mh, strings.Join(items, ";"))
		// let the library write it once to obtain consistent offsets and positions
		p, ok := parseFragDesc(d)
		if !ok {
			return "", nil
		}
		// give write order numbers so that SetTrunDataOffsets handles several truns
		w := uint32(1)
		for i := range p.ch {
			for j := range p.ch[i].tcs {
				if p.ch[i].tcs[j].kind == "trun" {
					p.ch[i].tcs[j].wo = w
					w++
				}
			}
		}
		fr, err := buildFrag(p)
		if err != nil {
			return "", nil
		}
		pre, err := freePrefix(ms)
		if err != nil {
			return "", nil
		}
		fr2, _, err := writeAndDecode(fr, pre)
		if err != nil {
			return "", nil
		}
		return renderFrag(fr2, nil), counts
	}
	randSubs := func(n int, mode int) []int {
		var out []int
		for i := 0; i < n; i++ {
			switch mode {
			case 0:
				out = append(out, 0)
			case 1:
				out = append(out, 1+r.Intn(5))
			case 2: // around the one-byte limit of a saiz entry
				out = append(out, 38+r.Intn(6))
			case 4: // one sample around the limit ((255 - IV size - 2) / 6 +- 2 for IV sizes 0, 8, 16) among small ones
				out = append(out, 1+r.Intn(5))
			default: // mixed
				out = append(out, r.Intn(2)*(1+r.Intn(3)))
			}
		}
		if mode == 4 && n > 0 {
			out[r.Intn(n)] = 37 + r.Intn(8)
		}
		return out
	}
	scheme := []string{"cenc", "cbcs"}[r.Intn(2)]
	if pe.forceEntries > 0 {
		scheme = pe.forceScheme
	}
	iv := 16
	if scheme == "cbcs" {
		iv = 0
	}
	switch it % 6 {
	case 0, 1: // EncryptFragment on one traf / one trun with all kinds of sub-sample maps; then write, decrypt
		ns := r.Intn(6)
		if pe.forceEntries > 0 {
			ns = 1 + r.Intn(4)
		}
		d0, counts := mkFrag(1, []int{1}, ns)
		if d0 == "" {
			return
		}
		subs := randSubs(counts[0][0], r.Intn(5))
		// the IV the caller passes: 16 or 8 bytes (zero-extended by the library), now and then a length it must refuse
		ivArg := []int{16, 16, 8, 8, 8, []int{0, 4, 12, 15, 17, 24, 32}[r.Intn(7)]}[r.Intn(6)]
		if pe.forceEntries > 0 {
			subs = randSubs(counts[0][0], 1)
			subs[r.Intn(len(subs))] = pe.forceEntries
			ivArg = pe.forceIV
		}
		reqEnc := fmt.Sprintf("prot.enciv %d %s %s %s", ivArg, scheme, plusInts(subs), d0)
		var written []byte
		protEncHook = func(fr *mp4.Fragment) {
			var buf bytes.Buffer
			if err := fr.Encode(&buf); err == nil {
				written = buf.Bytes()
			}
		}
		d1 := execProt(reqEnc)
		protEncHook = nil
		pe.emit(reqEnc, d1, false)
		if written != nil { // the sizes and the offset describe the entries written (bytes parsed independently)
			if kind, got, exp := checkAuxBytes(written, iv, len(subs)); kind != "" {
				pe.fail("C07", "prot-"+kind, auxWhat[kind], reqEnc, got, exp)
			}
		}
		if d1 == "err" || strings.HasPrefix(d1, "panic") || strings.HasPrefix(d1, "bad") {
			if strings.HasPrefix(d1, "panic") {
				pe.fail(pe.which, "prot-panic", "EncryptFragment panics: "+d1, reqEnc, d1, "")
			}
			return
		}
		d2 := execProt("prot.lay " + d1)
		pe.emit("prot.lay "+d1, d2, false)
		if d2 == "err" || strings.HasPrefix(d2, "panic") || strings.HasPrefix(d2, "bad") {
			pe.fail("C07", "prot-decode", "encrypted fragment does not decode", "prot.lay "+d1, d2, "")
			return
		}
		di := fmt.Sprintf("1=%s.%d", scheme, iv)
		switch r.Intn(6) {
		case 0:
			di = "-"
		case 1:
			di = "1=-"
		case 2:
			di = fmt.Sprintf("1=%s.%d", []string{"cens", "piff", "cbc1"}[r.Intn(3)], iv)
		case 3:
			di = fmt.Sprintf("2=cenc.16,1=%s.%d", scheme, iv)
		}
		reqDec := fmt.Sprintf("prot.dec %s %s", di, d2)
		d3 := execProt(reqDec)
		pe.emit(reqDec, d3, false)
		if strings.HasPrefix(d3, "panic") {
			pe.fail(pe.which, "prot-panic", "DecryptFragment panics: "+d3, reqDec, d3, "")
		}
		if di == fmt.Sprintf("1=%s.%d", scheme, iv) && d3 != d0 {
			pe.fail("C06", "prot-structure-roundtrip", "decrypt(encrypt(fragment)) differs from the clear fragment in box structure, sizes or data offsets", reqDec, d3, d0)
		}
	case 2: // EncryptFragment refuses several trafs / truns, wrong number of sub-sample maps
		nt := 1 + r.Intn(2)
		tp := []int{1 + r.Intn(2), 1 + r.Intn(2)}
		if nt == 1 && tp[0] == 1 {
			tp[0] = 2
		}
		d0, counts := mkFrag(nt, tp, 1+r.Intn(3))
		if d0 == "" {
			return
		}
		subs := randSubs(counts[0][0], r.Intn(2))
		reqEnc := fmt.Sprintf("prot.enc %s %s %s", scheme, plusInts(subs), d0)
		pe.emit(reqEnc, execProt(reqEnc), false)
	case 3, 4: // several trafs: per-traf protection, write, decrypt with assorted decrypt infos, pssh boxes in the moof
		nt := 1 + r.Intn(3)
		d0, counts := mkFrag(nt, []int{1, 1, 1}, 1+r.Intn(4))
		if d0 == "" {
			return
		}
		var ps []string
		var di []string
		for i := 0; i < nt; i++ {
			if r.Intn(4) == 0 {
				if r.Intn(2) == 0 {
					di = append(di, fmt.Sprintf("%d=-", i+1))
				}
				continue
			}
			sc := []string{"cenc", "cbcs"}[r.Intn(2)]
			ps = append(ps, fmt.Sprintf("%d=%s.%s", i+1, sc, plusInts(randSubs(counts[i][0], r.Intn(2)))))
			if r.Intn(8) > 0 {
				di = append(di, fmt.Sprintf("%d=%s.%d", i+1, sc, map[string]int{"cenc": 16, "cbcs": 0}[sc]))
			}
		}
		pstr, dstr := "-", "-"
		if len(ps) > 0 {
			pstr = strings.Join(ps, ",")
		}
		if len(di) > 0 {
			dstr = strings.Join(di, ",")
		}
		reqAll := fmt.Sprintf("prot.all %s %s", pstr, d0)
		d1 := execProt(reqAll)
		pe.emit(reqAll, d1, false)
		if d1 == "err" || strings.HasPrefix(d1, "panic") || strings.HasPrefix(d1, "bad") {
			return
		}
		// pssh boxes in the moof: appended, or (rarely) in front of the trafs, which invalidates the saio offsets and
		// makes the decoder's saio check fail
		p0, _ := parseFragDesc(d0)
		p1, ok := parseFragDesc(d1)
		if !ok {
			return
		}
		for i, k := 0, r.Intn(3); i < k; i++ {
			ps := pMC{kind: "pssh", size: 32 + r.Intn(40)}
			if r.Intn(5) > 0 {
				p1.ch = append(p1.ch, ps)
			} else {
				p1.ch = append([]pMC{p1.ch[0], ps}, p1.ch[1:]...)
			}
		}
		// a decoded fragment with several truns has no write order: the writer leaves the data offsets alone, so
		// whoever adds boxes to such a moof has to move them (here: always, except in some single-trun cases)
		if nt > 1 || r.Intn(2) == 0 {
			growth := int64(p1.moofSize() - p0.moofSize())
			for i := range p1.ch {
				for j := range p1.ch[i].tcs {
					if p1.ch[i].tcs[j].kind == "trun" {
						p1.ch[i].tcs[j].off += growth
					}
				}
			}
		}
		d1 = showDesc(p1)
		d2 := execProt("prot.lay " + d1)
		pe.emit("prot.lay "+d1, d2, false)
		if strings.HasPrefix(d2, "err") || strings.HasPrefix(d2, "panic") || strings.HasPrefix(d2, "bad") {
			return
		}
		reqDec := fmt.Sprintf("prot.dec %s %s", dstr, d2)
		d3 := execProt(reqDec)
		pe.emit(reqDec, d3, false)
		if strings.HasPrefix(d3, "panic") {
			pe.fail(pe.which, "prot-panic", "DecryptFragment panics: "+d3, reqDec, d3, "")
		}
	case 5: // decrypt on hand-made protected trafs: missing senc, PIFF senc, parsed / unparsed, wrong saio offset, mdat before moof
		ns := 1 + r.Intn(4)
		d0, counts := mkFrag(1, []int{1}, ns)
		if d0 == "" {
			return
		}
		n := counts[0][0]
		p, _ := parseFragDesc(d0)
		// position of the end of the traf's children
		pos := int(p.ms) + 8
		ti := -1
		for i, ch := range p.ch {
			if ch.isTraf {
				ti = i
				break
			}
			pos += ch.size
		}
		if ti < 0 {
			return
		}
		f := strings.SplitN(d0, "/", 4)
		items := strings.Split(f[3], ";")
		inner := pos + 8 // absolute position of the end of the traf's children
		for _, tc := range p.ch[ti].tcs {
			inner += tc.size
		}
		var add []string
		dis := []string{"1=cenc.8", "1=cenc.0", "1=cbcs.0"} // per-sample IV size the senc payloads below parse with
		switch r.Intn(5) {
		case 0: // saiz + saio only
			add = []string{fmt.Sprintf("saiz:17:0:8:%d:-", n), fmt.Sprintf("saio:20:0:0:%d", inner-int(p.ms)+17+20+16)}
		case 1: // PIFF senc, parsed (empty)
			add = []string{fmt.Sprintf("usenc:%d:1:%d", 32+r.Intn(9), inner+16)}
		case 2: // PIFF senc, not parsed, with or without a matching saio
			sz := 32 + 8*n
			if r.Intn(2) == 0 {
				add = []string{fmt.Sprintf("usenc:%d:0:%d", sz, inner+16)}
			} else {
				off := inner - int(p.ms) + 20 + 32
				if r.Intn(2) == 0 {
					off += 1 + r.Intn(4)
				}
				add = []string{fmt.Sprintf("saio:20:0:0:%d", off), fmt.Sprintf("usenc:%d:0:%d", sz, inner+20+16)}
			}
		case 3: // senc read but not parsed, saio offset right or wrong, saio version 1 / aux type
			sencSize := 16 + 8*n
			ver, aux := r.Intn(2), r.Intn(2)
			saioSize := 16 + 8*aux + []int{4, 8}[ver]
			off := inner - int(p.ms) + saioSize + 16
			if r.Intn(3) == 0 {
				off += []int{-16, -1, 1, 8}[r.Intn(4)]
			}
			add = []string{fmt.Sprintf("saio:%d:%d:%d:%d", saioSize, ver, aux, off), fmt.Sprintf("senc:%d:0:8:%d:-:%d:0:%d", sencSize, n, sencSize, inner+saioSize)}
		case 4: // two senc boxes (first parsed in memory, second decoded)
			sencSize := 16 + 16*n
			add = []string{fmt.Sprintf("senc:%d:0:16:%d:-:0:1:0", sencSize, n), fmt.Sprintf("senc:%d:0:16:%d:-:%d:0:%d", sencSize, n, sencSize, inner+sencSize)}
			dis = []string{"1=cenc.16", "1=cenc.0", "1=cbcs.0"}
		}
		items[ti] += "," + strings.Join(add, ",")
		md := f[1]
		if r.Intn(5) == 0 {
			md = "0" // mdat position not after the moof
		}
		d1 := f[0] + "/" + md + "/" + f[2] + "/" + strings.Join(items, ";")
		di := dis[r.Intn(len(dis))]
		reqDec := fmt.Sprintf("prot.dec %s %s", di, d1)
		d3 := execProt(reqDec)
		if strings.HasPrefix(d3, "bad") {
			return
		}
		pe.emit(reqDec, d3, false)
	}
	c.Eval(fmt.Sprintf("prot synthetic %d", it))
}

// init segment cases: InitProtect / DecryptInit on the scenario space (entry types, extra children, one or two
// traks, pssh boxes)
func (pe *protEmit) initCases(it int) {
	c := pe.c
	scens := allInitScens()
	s := scens[c.R.Intn(len(scens))]
	if c.R.Intn(3) > 0 { // mostly: one clear trak (the case InitProtect is made for)
		s = initScen{a: trakScen{c.R.Intn(len(loadClearSources())), c.R.Intn(3), c.R.Intn(3), ""}, npssh: c.R.Intn(3) / 2}
	}
	if it < len(scens) && c.Thorough() {
		s = scens[it]
	}
	scheme := []string{"cenc", "cbcs"}[c.R.Intn(2)]
	var add []int
	for i := s.npssh; i < len(psshSizes) && c.R.Intn(2) == 0; i++ {
		add = append(add, psshSizes[i])
	}
	p := safe(func() {
		init, err := buildScen(s)
		if err != nil {
			return
		}
		m0 := renderMoov(init.Moov)
		reqInit := fmt.Sprintf("prot.init %s %s %s", scheme, plusInts(add), m0)
		m1 := runInitProtect(init, scheme, add)
		pe.emit(reqInit, m1, it%10 == 0)
		// DecryptInit on the scenario itself
		init2, _ := buildScen(s)
		reqDe := "prot.deinit " + m0
		pe.emit(reqDe, runDecryptInit(init2), it%10 == 1)
		if m1 == "err" {
			return
		}
		// and on the protected init after writing and decoding it
		var buf bytes.Buffer
		if err := init.Encode(&buf); err != nil {
			pe.fail("C06", "prot-init-encode", "protected init does not encode", reqInit, err.Error(), "")
			return
		}
		f, err := mp4.DecodeFile(bytes.NewReader(buf.Bytes()))
		if err != nil {
			pe.fail("C06", "prot-init-decode", "protected init does not decode", reqInit, err.Error(), "")
			return
		}
		m1d := renderMoov(f.Init.Moov)
		if m1d != m1 {
			pe.fail("C06", "prot-init-rewrite", "protected init changes structure when written and decoded", reqInit, m1d, m1)
		}
		reqDe2 := "prot.deinit " + m1d
		ans := runDecryptInit(f.Init)
		pe.emit(reqDe2, ans, it%10 == 2 && !s.two && s.a.prot == "") // (a twice-protected entry is outside the scenario space of the rebuild)
		// C06: the sample entry is restored, every other box kept, pssh boxes gone
		if s.npssh == 0 && !s.two && s.a.prot == "" {
			if got := strings.Fields(ans)[0]; got != m0 {
				pe.fail("C06", "prot-init-roundtrip", "DecryptInit(InitProtect(init)) differs from the clear init in sample entry or box structure", reqDe2, got, m0)
			}
		}
	})
	c.Eval(fmt.Sprintf("prot init %d", it))
	if p != "" {
		pe.fail(pe.which, "prot-panic", "panic in InitProtect / DecryptInit: "+p, fmt.Sprintf("%+v", s), p, "")
	}
}
