package main

import (
	"bytes"
	"fmt"
	"os"
	"path/filepath"
	"strconv"
	"strings"

	"github.com/Eyevinn/mp4ff/mp4"
)

// Correspondence glue for C11: the grouping computed by the Lean model (Model/Segmenter.lean) against the number of
// samples in every segment / fragment the real tools and the library API produce.

var c11Seen, c11ModelN int

func c11Case(c *Ctx, line, ans string) {
	c11Seen++
	if c11Seen%c.N(9, 25) != 0 || c11ModelN >= c.N(4000, 30000) {
		return
	}
	c11ModelN++
	c.Case(line, ans)
}

func samplesArg(ss []tsample) string {
	if len(ss) == 0 {
		return "-"
	}
	p := make([]string, len(ss))
	for i, s := range ss {
		sy := 0
		if s.sync {
			sy = 1
		}
		p[i] = fmt.Sprintf("%d:%d:%d", s.dur, s.cto, sy)
	}
	return strings.Join(p, ",")
}

func intsArg(l []int) string {
	if len(l) == 0 {
		return "-"
	}
	p := make([]string, len(l))
	for i, x := range l {
		p[i] = strconv.Itoa(x)
	}
	return strings.Join(p, ",")
}

func fragCounts(oe *outExpanded, id uint32) []int {
	var l []int
	for _, m := range oe.fragN {
		l = append(l, m[id])
	}
	return l
}

func segSizes(oe *outExpanded, id uint32) []int {
	var l []int
	for _, s := range oe.segs {
		l = append(l, len(s.perTrack[id]))
	}
	return l
}

// resegmenter: "seg.reseg H=<key> <chunkDur> <t0> <samples>" -> sizes of the output segments.
// The samples are taken as the tool sees them: sync = Sample.IsSync() = not flagged non-sync AND sample_depends_on = 2
// (computed here from the flag bits of the samples in the output, which the conservation oracle compares with the input).
func resegModelCase(c *Ctx, req string, tt *ttrack, oe *outExpanded) {
	f := strings.Fields(req)
	if len(f) < 2 || len(tt.samples) == 0 || len(oe.trackIDs) != 1 {
		return
	}
	fs := oe.tracks[oe.trackIDs[0]]
	if len(fs) != len(tt.samples) {
		return
	}
	// the model accumulates decode times from the first one: only contiguous inputs are comparable
	t := fs[0].DecodeTime
	p := make([]string, len(fs))
	for i, s := range fs {
		if s.DecodeTime != t {
			return
		}
		t += uint64(s.Dur)
		sy := 0
		if s.Flags&0x00010000 == 0 && (s.Flags>>24)&3 == 2 {
			sy = 1
		}
		p[i] = fmt.Sprintf("%d:%d:%d", s.Dur, s.CompositionTimeOffset, sy)
	}
	line := fmt.Sprintf("seg.reseg H=%s %s %d %s", strings.ReplaceAll(req, " ", "/"), f[1], fs[0].DecodeTime, strings.Join(p, ","))
	c11Case(c, line, intsArg(fragCounts(oe, oe.trackIDs[0])))
}

func fragSizes(t *ffTrack, segIdx int, dur uint32, withTrex bool) ([]int, error) {
	f, err := mp4.DecodeFile(bytes.NewReader(append(cp(t.init), t.segAt(segIdx, uint64(len(t.init)))...)))
	if err != nil || len(f.Segments) != 1 {
		return nil, fmt.Errorf("decode")
	}
	var trex *mp4.TrexBox
	if withTrex {
		trex = f.Init.Moov.Mvex.Trex
	}
	frags, err := f.Segments[0].Fragmentify(uint64(t.timescale), trex, dur)
	if err != nil {
		return nil, err
	}
	var l []int
	for _, fr := range frags {
		l = append(l, len(fr.Moof.Traf.Trun.Samples))
	}
	return l, nil
}

// Fragmentify: "seg.frag H=<key> <duration> <samples of input fragment 1> <fragment 2> ..." -> output fragment sizes
func fragModelCase(c *Ctx, req string, t *ffTrack, segIdx int, dur uint32, withTrex bool) {
	var sizes []int
	var err error
	if p := safe(func() { sizes, err = fragSizes(t, segIdx, dur, withTrex) }); p != "" || err != nil {
		return
	}
	tt := segTruth(t, segIdx)
	args := []string{}
	a := 0
	for _, n := range t.layout[segIdx] {
		args = append(args, samplesArg(tt.samples[a:a+n]))
		a += n
	}
	line := fmt.Sprintf("seg.frag H=%s %d %s", strings.ReplaceAll(req, " ", "/"), dur, strings.Join(args, " "))
	c11Case(c, line, intsArg(sizes))
}

func runs32(v []uint32) string {
	if len(v) == 0 {
		return "-"
	}
	var p []string
	i := 0
	for i < len(v) {
		j := i
		for j < len(v) && v[j] == v[i] {
			j++
		}
		p = append(p, fmt.Sprintf("%d:%d", j-i, v[i]))
		i = j
	}
	return strings.Join(p, ",")
}

func runsI32(v []int32) string {
	if len(v) == 0 {
		return "-"
	}
	var p []string
	i := 0
	for i < len(v) {
		j := i
		for j < len(v) && v[j] == v[i] {
			j++
		}
		p = append(p, fmt.Sprintf("%d:%d", j-i, v[i]))
		i = j
	}
	return strings.Join(p, ",")
}

func intervalsOf(sizes []int) string {
	if len(sizes) == 0 {
		return "-"
	}
	var p []string
	a := 1
	for _, n := range sizes {
		p = append(p, fmt.Sprintf("%d-%d", a, a+n-1))
		a += n
	}
	return strings.Join(p, ",")
}

// segmenter (multiplexed modes: segment index is aligned across tracks):
// "seg.iv H=<key> <segDurMS> <refTimescale> <refStts> <refCtts|-> <refStss> <trackTimescale> <trackStts> <total>"
func segmenterModelCase(c *Ctx, req string, in *rawProg, oe *outExpanded) {
	f := strings.Fields(req)
	if len(f) < 3 {
		return
	}
	var ref *rawTrack
	for _, t := range in.tracks {
		if t.hdlr == "vide" {
			ref = t
			break
		}
	}
	if ref == nil || !ref.hasStss || ref.n == 0 {
		return
	}
	var syncs []int
	for i, s := range ref.sync {
		if s {
			syncs = append(syncs, i+1)
		}
	}
	ctts := "-"
	if ref.hasCtts {
		ctts = runsI32(ref.cto)
	}
	for ti, t := range in.tracks {
		if ti >= len(oe.trackIDs) || t.n == 0 {
			continue
		}
		line := fmt.Sprintf("seg.iv H=%s/T%d %s %d %s %s %s %d %s %d", strings.ReplaceAll(req, " ", "/"), ti, f[2], ref.timescale,
			runs32(ref.dur), ctts, intsArg(syncs), t.timescale, runs32(t.dur), t.n)
		c11Case(c, line, intervalsOf(segSizes(oe, oe.trackIDs[ti])))
	}
}

// execSegModel replays a model request: the key is the harness request that produced it.
func execSegModel(op string, key string) string {
	track := -1
	if i := strings.LastIndex(key, "/T"); i >= 0 && op == "seg.iv" {
		track = atoi(key[i+2:])
		key = key[:i]
	}
	f := strings.Fields(strings.ReplaceAll(key, "/", " "))
	var ans string
	p := safe(func() {
		switch {
		case op == "seg.pos" && len(f) > 2 && f[0] == "readpacked":
			ans = execReadPacked(f[2:], atoi(f[1]))
		case op == "seg.reseg" && len(f) > 2 && f[0] == "reseg":
			ticks, _ := strconv.ParseUint(f[1], 10, 64)
			input, _, err := resegInputFromSpec(f[2:])
			if err != nil {
				ans = "input-err"
				return
			}
			dir, done := scratchDir("c11m")
			defer done()
			tr, oe, err := runResegmenter(dir, input, ticks, "m")
			if tr.exit != 0 || err != nil || len(oe.trackIDs) != 1 {
				ans = "fail"
				return
			}
			ans = intsArg(fragCounts(oe, oe.trackIDs[0]))
		case op == "seg.frag" && len(f) >= 8 && f[0] == "fragmentify":
			t, _, err := ffFromSpec(f[4:])
			if err != nil || atoi(f[1]) >= len(t.segs) {
				ans = "input-err"
				return
			}
			sizes, err := fragSizes(t, atoi(f[1]), uint32(atoi(f[2])), f[3] == "1")
			if err != nil {
				ans = "fail"
				return
			}
			ans = intsArg(sizes)
		case op == "seg.iv" && len(f) > 3 && f[0] == "segment":
			ms, _ := strconv.ParseUint(f[2], 10, 64)
			data, _, err := progInputBytes(f[3:])
			if err != nil {
				ans = "input-err"
				return
			}
			dir, done := scratchDir("c11m")
			defer done()
			in := filepath.Join(dir, "in.mp4")
			must(os.WriteFile(in, data, 0o644))
			tr, so, err := runSegmenter(dir, in, f[1], ms)
			if tr.exit != 0 || err != nil || so.exp["mux"] == nil || track < 0 || track >= len(so.exp["mux"].trackIDs) {
				ans = "fail"
				return
			}
			oe := so.exp["mux"]
			ans = intervalsOf(segSizes(oe, oe.trackIDs[track]))
		default:
			ans = "bad-op"
		}
	})
	if p != "" {
		return p
	}
	return ans
}
