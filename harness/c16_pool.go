package main

// C16 parent side: isolated worker children.

import (
	"bufio"
	"fmt"
	"io"
	"os"
	"os/exec"
	"regexp"
	"strconv"
	"strings"
	"sync"
	"sync/atomic"
	"syscall"
	"time"
)

// c16Res is the outcome of one protocol line.
type c16Res struct {
	canon string // "op:res;op:res" (empty if the worker died)
	stats string // "alloc,us;alloc,us"
	death string // "", "oom", "hang", "crash"
	site  string // first mp4ff frame of the fatal / SIGQUIT stack ("avc.ParsePPSNALUnit pps.go:73")
	fn    string // function part of site
	tail  string // first lines of the worker's fatal message
	opIdx int    // index (c16Ops) of the entry point that was running when the worker died; -1 unknown
}

func (r *c16Res) canonical() string {
	if r.death != "" {
		s := r.death
		if r.site != "" {
			s += " @ " + r.site
		}
		return s
	}
	return r.canon
}

type c16Worker struct {
	cmd    *exec.Cmd
	stdin  io.WriteCloser
	lines  chan string
	errBuf *c16Tail
	errEOF chan struct{}
}

type c16Tail struct {
	mu sync.Mutex
	b  []byte
}

func (t *c16Tail) Write(p []byte) (int, error) {
	t.mu.Lock()
	t.b = append(t.b, p...)
	if len(t.b) > 512<<10 { // keep the most recent output
		t.b = append(t.b[:0], t.b[len(t.b)-(256<<10):]...)
	}
	t.mu.Unlock()
	return len(p), nil
}

func (t *c16Tail) String() string {
	t.mu.Lock()
	defer t.mu.Unlock()
	return string(t.b)
}

func c16StartWorker() (*c16Worker, error) {
	cmd := exec.Command(os.Args[0], "-prop", "C16", "-exec", "/dev/stdin")
	cmd.Env = append(os.Environ(), "VERIF_WORKER=C16", "GOMAXPROCS=1", "GOTRACEBACK=all")
	in, err := cmd.StdinPipe()
	if err != nil {
		return nil, err
	}
	out, err := cmd.StdoutPipe()
	if err != nil {
		return nil, err
	}
	ep, err := cmd.StderrPipe()
	if err != nil {
		return nil, err
	}
	if err := cmd.Start(); err != nil {
		return nil, err
	}
	w := &c16Worker{cmd: cmd, stdin: in, lines: make(chan string, 64), errBuf: &c16Tail{}, errEOF: make(chan struct{})}
	go func() {
		rd := bufio.NewReaderSize(out, 1<<16)
		for {
			l, err := rd.ReadString('\n')
			if len(l) > 0 && strings.HasSuffix(l, "\n") {
				w.lines <- l[:len(l)-1]
			}
			if err != nil {
				close(w.lines)
				return
			}
		}
	}()
	go func() {
		io.Copy(w.errBuf, ep)
		close(w.errEOF)
	}()
	return w, nil
}

func (w *c16Worker) stop() {
	if w == nil || w.cmd == nil {
		return
	}
	w.stdin.Close()
	w.cmd.Process.Kill()
	for range w.lines {
	}
	<-w.errEOF
	w.cmd.Wait()
	w.cmd = nil
}

var c16FrameRe = regexp.MustCompile(`(?m)^github\.com/Eyevinn/mp4ff/([A-Za-z0-9_]+)\.((?:\(\*?[A-Za-z0-9_]+\)\.)?[A-Za-z0-9_.]+)\(.*\n\t\S*/([^/\s:]+\.go):(\d+)`)

// c16StackSite returns the first frame of the running goroutine inside mp4ff that is not in package bits.
func c16StackSite(stderr string) (site, fn string) {
	// restrict to the first goroutine block that contains a harness frame (the running main goroutine)
	blocks := strings.Split(stderr, "\n\ngoroutine ")
	for _, b := range blocks {
		if !strings.Contains(b, "main.c16RunOp") && !strings.Contains(b, "main.c16RunLine") {
			continue
		}
		var first string
		for _, m := range c16FrameRe.FindAllStringSubmatch(b, -1) {
			s := fmt.Sprintf("%s.%s %s:%s", m[1], m[2], m[3], m[4])
			if first == "" {
				first = s
			}
			if m[1] != "bits" {
				return s, m[1] + "." + m[2]
			}
		}
		if first != "" {
			return first, strings.Fields(first)[0]
		}
	}
	return "", ""
}

// die collects the death of the worker after its stdout reached EOF or after a timeout.
func (w *c16Worker) die(timedOut bool) c16Res {
	r := c16Res{}
	if timedOut {
		// ask the Go runtime for the stacks, then make sure it is gone
		w.cmd.Process.Signal(syscall.SIGQUIT)
		select {
		case <-w.errEOF:
		case <-time.After(3 * time.Second):
		}
		w.cmd.Process.Kill()
	}
	w.stdin.Close()
	for range w.lines {
	}
	<-w.errEOF
	w.cmd.Wait()
	w.cmd = nil
	se := w.errBuf.String()
	r.opIdx = -1
	if k := strings.LastIndex(se, "\x01"); k >= 0 {
		rest := se[k+1:]
		if e := strings.IndexByte(rest, '\n'); e >= 0 {
			if v, err := strconv.Atoi(rest[:e]); err == nil && v >= 0 && v < len(c16Ops) {
				r.opIdx = v
			} else if rest[:e] == "ctx" {
				r.opIdx = -2 // died while parsing the parameter-set context
			}
			se = rest[e+1:]
		}
	}
	r.site, r.fn = c16StackSite(se)
	switch {
	case timedOut:
		r.death = "hang"
	case strings.Contains(se, "out of memory") || strings.Contains(se, "cannot allocate memory") || strings.Contains(se, "failed to reserve") || strings.Contains(se, "cannot reserve"):
		r.death = "oom"
	default:
		r.death = "crash"
	}
	ls := strings.Split(se, "\n")
	if len(ls) > 4 {
		ls = ls[:4]
	}
	r.tail = strings.Join(ls, " | ")
	return r
}

// runLines executes lines on this worker slot (restarting the child after a death); res[i] receives the
// outcome of lines[i].
func c16RunLines(slot **c16Worker, lines []string, res []c16Res) error {
	i := 0
	for i < len(lines) {
		if *slot == nil || (*slot).cmd == nil {
			w, err := c16StartWorker()
			if err != nil {
				return err
			}
			*slot = w
		}
		w := *slot
		rest := lines[i:]
		wdone := make(chan struct{})
		go func() {
			bw := bufio.NewWriterSize(w.stdin, 1<<16)
			for _, l := range rest {
				if _, err := bw.WriteString(l); err != nil {
					break
				}
				if err := bw.WriteByte('\n'); err != nil {
					break
				}
			}
			bw.Flush()
			close(wdone)
		}()
		dead := false
		for k := 0; k < len(rest) && !dead; k++ {
			timer := time.NewTimer(c16KillTimeout + time.Duration(len(rest[k])/2)*40*time.Microsecond)
			select {
			case l, ok := <-w.lines:
				timer.Stop()
				if !ok {
					res[i] = w.die(false)
					dead = true
					break
				}
				if t := strings.IndexByte(l, '\t'); t >= 0 {
					res[i] = c16Res{canon: l[:t], stats: l[t+1:]}
				} else {
					res[i] = c16Res{canon: l}
				}
				i++
			case <-timer.C:
				res[i] = w.die(true)
				dead = true
			}
		}
		if dead {
			i++ // the culprit line is accounted for; continue with the next line in a fresh child
			<-wdone
			continue
		}
		<-wdone
	}
	return nil
}

// c16RunPool runs all lines on n isolated workers; deterministic per line.
func c16RunPool(lines []string, n int) []c16Res {
	res := make([]c16Res, len(lines))
	const chunk = 64
	var next int64
	var wg sync.WaitGroup
	for k := 0; k < n; k++ {
		wg.Add(1)
		go func() {
			defer wg.Done()
			var slot *c16Worker
			defer func() { slot.stop() }()
			for {
				lo := int(atomic.AddInt64(&next, chunk)) - chunk
				if lo >= len(lines) {
					return
				}
				hi := lo + chunk
				if hi > len(lines) {
					hi = len(lines)
				}
				if err := c16RunLines(&slot, lines[lo:hi], res[lo:hi]); err != nil {
					for j := lo; j < hi; j++ {
						if res[j].canon == "" && res[j].death == "" {
							res[j] = c16Res{death: "crash", tail: "worker start failed: " + err.Error()}
						}
					}
				}
			}
		}()
	}
	wg.Wait()
	return res
}

// ---- replay: one persistent worker, lockstep ----
var c16ReplaySlot *c16Worker
var c16ReplayMu sync.Mutex

func c16ReplayRun(line string) c16Res {
	c16ReplayMu.Lock()
	defer c16ReplayMu.Unlock()
	res := make([]c16Res, 1)
	if err := c16RunLines(&c16ReplaySlot, []string{line}, res); err != nil {
		return c16Res{death: "crash", tail: err.Error()}
	}
	return res[0]
}
