// Harness core: every property check generates protocol request lines, executes them on the
// real mp4ff code (exec), evaluates the property's direct oracle on the implementation's
// answer, and writes requests + answers so that bin/check can pipe the same requests to the
// Lean model driver and diff the two answer streams.
package main

import (
	"bufio"
	"crypto/sha256"
	"encoding/hex"
	"encoding/json"
	"flag"
	"fmt"
	"math/rand"
	"os"
	"path/filepath"
	"runtime/debug"
	"sort"
	"strings"
	"time"
)

type Failure struct {
	Fingerprint string `json:"fingerprint"` // identifies the failing input class (known-findings key)
	What        string `json:"what"`
	Request     string `json:"request"` // replayable protocol line (or description)
	Impl        string `json:"impl"`
	Expected    string `json:"expected,omitempty"`
}

type Stats struct {
	Property     string         `json:"property"`
	Tier         string         `json:"tier"`
	Seed         int64          `json:"seed"`
	Evaluations  int            `json:"evaluations"`
	Nontrivial   int            `json:"distinct_nontrivial"`
	Rule         string         `json:"rule"`
	Samples      []string       `json:"samples"`
	Distribution map[string]int `json:"input_distribution"`
	Failures     []Failure      `json:"failures"`
	Exhaustive   bool           `json:"exhaustive"`
	ModelCases   int            `json:"model_cases"` // lines written for the Lean driver
	Notes        []string       `json:"notes,omitempty"`
	WallS        float64        `json:"wall_s"`
}

type Ctx struct {
	Prop     string
	Tier     string
	Seed     int64
	R        *rand.Rand
	OutDir   string
	cases    *bufio.Writer
	impl     *bufio.Writer
	cf, ifl  *os.File
	St       Stats
	distinct map[[16]byte]struct{}
	failKeys map[string]int
	deadline time.Time
}

func (c *Ctx) Thorough() bool { return c.Tier == "thorough" }

// N picks a count by tier.
func (c *Ctx) N(quick, thorough int) int {
	if c.Thorough() {
		return thorough
	}
	return quick
}

// Case records a request line for the model and the implementation's answer.
func (c *Ctx) Case(req, resp string) {
	c.cases.WriteString(req)
	c.cases.WriteByte('\n')
	c.impl.WriteString(resp)
	c.impl.WriteByte('\n')
	c.St.ModelCases++
}

// Eval counts one evaluation; key != "" marks it as non-trivial with that identity.
func (c *Ctx) Eval(key string) {
	c.St.Evaluations++
	if key != "" {
		h := sha256.Sum256([]byte(key))
		var k [16]byte
		copy(k[:], h[:16])
		c.distinct[k] = struct{}{}
	}
}

func (c *Ctx) Count(bucket string) { c.St.Distribution[bucket]++ }

func (c *Ctx) Sample(s string) {
	if len(c.St.Samples) < 12 {
		if len(s) > 600 {
			s = s[:600] + "…"
		}
		c.St.Samples = append(c.St.Samples, s)
	}
}

func (c *Ctx) Note(s string) { c.St.Notes = append(c.St.Notes, s) }

// Fail records a direct-oracle failure on the implementation. At most 5 per fingerprint kept.
func (c *Ctx) Fail(fp, what, req, impl, expected string) {
	c.failKeys[fp]++
	if c.failKeys[fp] > 5 {
		return
	}
	if len(req) > 400000 {
		req = req[:400000] + "…"
	}
	c.St.Failures = append(c.St.Failures, Failure{fp, what, req, impl, expected})
}

func (c *Ctx) finish(start time.Time) {
	c.cases.Flush()
	c.impl.Flush()
	c.cf.Close()
	c.ifl.Close()
	c.St.Nontrivial = len(c.distinct)
	c.St.WallS = time.Since(start).Seconds()
	for fp, n := range c.failKeys {
		if n > 5 {
			c.St.Notes = append(c.St.Notes, fmt.Sprintf("fingerprint %s failed %d times (5 kept)", fp, n))
		}
	}
	sort.Strings(c.St.Notes)
	b, _ := json.MarshalIndent(&c.St, "", " ")
	os.WriteFile(filepath.Join(c.OutDir, "stats.json"), b, 0o644)
}

// safe runs f and converts a panic into a string describing it (site = first non-runtime frame).
func safe(f func()) (panicked string) {
	defer func() {
		if r := recover(); r != nil {
			panicked = fmt.Sprintf("panic: %v @ %s", r, panicSite(string(debug.Stack())))
		}
	}()
	f()
	return ""
}

func panicSite(stack string) string {
	lines := strings.Split(stack, "\n")
	seenPanic := false
	for i := 0; i < len(lines); i++ {
		l := lines[i]
		if strings.HasPrefix(l, "panic(") {
			seenPanic = true
			continue
		}
		if !seenPanic {
			continue
		}
		if strings.HasPrefix(l, "\t") || strings.HasPrefix(l, "runtime.") || strings.HasPrefix(l, "goroutine") || l == "" {
			continue
		}
		// function line; next line has file:line
		fn := l
		if j := strings.Index(fn, "("); j > 0 {
			fn = fn[:j]
		}
		if strings.Contains(fn, "Eyevinn/mp4ff") {
			fn = fn[strings.Index(fn, "mp4ff/")+6:]
			if i+1 < len(lines) {
				loc := strings.TrimSpace(lines[i+1])
				if k := strings.LastIndex(loc, "/"); k >= 0 {
					loc = loc[k+1:]
				}
				if k := strings.Index(loc, " "); k >= 0 {
					loc = loc[:k]
				}
				return fn + " " + loc
			}
			return fn
		}
	}
	return "?"
}

func hx(b []byte) string {
	if len(b) == 0 {
		return "-"
	}
	return hex.EncodeToString(b)
}

func unhx(s string) ([]byte, error) {
	if s == "-" {
		return []byte{}, nil
	}
	return hex.DecodeString(s)
}

type propDef struct {
	rule string
	gen  func(c *Ctx)              // generates cases (calls exec + oracle itself)
	exec func(req string) string   // runs one protocol line on the real code
}

var props = map[string]*propDef{}

func main() {
	prop := flag.String("prop", "", "property id")
	tier := flag.String("tier", "quick", "quick|thorough")
	seed := flag.Int64("seed", 1, "PRNG seed")
	out := flag.String("out", "", "output directory")
	replay := flag.String("exec", "", "execute the protocol lines of this file on the implementation; print answers")
	budget := flag.Int("budget", 0, "soft time budget in seconds for generators that honour it")
	flag.Parse()
	p, ok := props[*prop]
	if !ok {
		fmt.Fprintln(os.Stderr, "unknown property", *prop)
		os.Exit(2)
	}
	if *replay != "" {
		f, err := os.Open(*replay)
		if err != nil {
			fmt.Fprintln(os.Stderr, err)
			os.Exit(2)
		}
		sc := bufio.NewScanner(f)
		sc.Buffer(make([]byte, 1<<20), 1<<28)
		for sc.Scan() {
			fmt.Println(p.exec(sc.Text()))
		}
		return
	}
	start := time.Now()
	os.MkdirAll(*out, 0o755)
	cf, err := os.Create(filepath.Join(*out, "cases.txt"))
	if err != nil {
		fmt.Fprintln(os.Stderr, err)
		os.Exit(2)
	}
	ifl, _ := os.Create(filepath.Join(*out, "impl.txt"))
	c := &Ctx{Prop: *prop, Tier: *tier, Seed: *seed, R: rand.New(rand.NewSource(*seed)), OutDir: *out,
		cases: bufio.NewWriterSize(cf, 1<<20), impl: bufio.NewWriterSize(ifl, 1<<20), cf: cf, ifl: ifl,
		distinct: map[[16]byte]struct{}{}, failKeys: map[string]int{}}
	c.St = Stats{Property: *prop, Tier: *tier, Seed: *seed, Rule: p.rule, Distribution: map[string]int{}, Failures: []Failure{}, Samples: []string{}}
	if *budget > 0 {
		c.deadline = start.Add(time.Duration(*budget) * time.Second)
	}
	p.gen(c)
	c.finish(start)
}
