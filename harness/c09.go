package main

import (
	"math/rand"
	"bytes"
	"fmt"
	"strconv"
	"strings"

	"github.com/Eyevinn/mp4ff/bits"
	"github.com/Eyevinn/mp4ff/mp4"
)

func init() {
	props["C09"] = &propDef{
		rule: "cases = (0) copied sample data: File.CopySampleData over sample intervals of generated progressive files, both modes, every work-buffer size 1..payload+2, and of the same tracks laid out in files with several media-data boxes (an empty mdat with 8-byte or largesize header before the media, after it, or both; both modes, work buffers {0,1,2,3,7,16,large}) against the bytes the tables' absolute chunk offsets point to; random consistent sample tables of a progressive track (1..12 entries per run-length table, N <= 60 samples, chunk sizes 1..7 with description-id changes, ctts v0/v1 incl. zero-count entries, uniform/explicit stsz, stco/co64, stss present/absent/empty, sdtp), built through the real box encoders+decoders (alternating io.Reader and SliceReader paths) or AddEntry constructors; every query (incl. the sample description id of every chunk, in ascending, descending and random order) is evaluated EXHAUSTIVELY for all sample numbers 1..N, all intervals 1<=a<=b<=N, all chunk numbers and all times 0..total+2 and compared with a naive per-sample expansion; non-trivial = distinct table set with >= 2 stsc entries or >= 2 stts entries",
		gen:  genC09,
		exec: execC09,
	}
}

type tables struct {
	sttsC, sttsD   []uint32
	cttsC          []uint32
	cttsO          []int32
	hasCtts        bool
	cttsV          byte
	cttsCall       []bool // cttsCall[i]: ctts entry i starts a new AddSampleCountsAndOffset call (incremental build)
	stsc           [][3]uint32 // firstChunk, samplesPerChunk, sdi
	uniform        uint32
	n              uint32
	sizes          []uint32
	offsets        []uint64
	co64           bool
	stss           []uint32
	hasStss        bool
	sdtp           []byte
	hasSdtp        bool
	viaDecode      int // 0 = constructors, 1 = DecodeBox, 2 = DecodeBoxSR
}

func (t *tables) line() string {
	var p []string
	s := []string{}
	for i := range t.sttsC {
		s = append(s, fmt.Sprintf("%d:%d", t.sttsC[i], t.sttsD[i]))
	}
	p = append(p, strings.Join(s, ","))
	if t.hasCtts && len(t.cttsC) > 0 {
		s = s[:0]
		for i := range t.cttsC {
			if i > 0 && i < len(t.cttsCall) && t.cttsCall[i] {
				// third component: this entry starts a new AddSampleCountsAndOffset call (the table semantics, and
				// hence the model, do not depend on how the table was put together)
				s = append(s, fmt.Sprintf("%d:%d:1", t.cttsC[i], t.cttsO[i]))
				continue
			}
			s = append(s, fmt.Sprintf("%d:%d", t.cttsC[i], t.cttsO[i]))
		}
		p = append(p, strings.Join(s, ","))
	} else if t.hasCtts {
		p = append(p, "-") // empty ctts behaves like... see note in exec
	} else {
		p = append(p, "-")
	}
	s = s[:0]
	for _, e := range t.stsc {
		s = append(s, fmt.Sprintf("%d:%d:%d", e[0], e[1], e[2]))
	}
	p = append(p, strings.Join(s, ","))
	if t.uniform != 0 {
		p = append(p, fmt.Sprintf("u%d:%d", t.uniform, t.n))
	} else {
		s = s[:0]
		for _, x := range t.sizes {
			s = append(s, strconv.Itoa(int(x)))
		}
		p = append(p, strings.Join(s, ","))
	}
	s = s[:0]
	for _, x := range t.offsets {
		s = append(s, strconv.FormatUint(x, 10))
	}
	p = append(p, strings.Join(s, ","))
	if t.hasStss && len(t.stss) > 0 {
		s = s[:0]
		for _, x := range t.stss {
			s = append(s, strconv.Itoa(int(x)))
		}
		p = append(p, strings.Join(s, ","))
	} else if t.hasStss {
		p = append(p, "e") // stss present with entry_count 0: no sample is a sync sample
	} else {
		p = append(p, "-")
	}
	if t.hasSdtp {
		s = s[:0]
		for _, x := range t.sdtp {
			s = append(s, strconv.Itoa(int(x)))
		}
		p = append(p, strings.Join(s, ","))
	} else {
		p = append(p, "-")
	}
	return strings.Join(p, " ")
}

func parseTablesLine(f []string) (*tables, error) {
	t := &tables{}
	for _, x := range strings.Split(f[0], ",") {
		p := strings.Split(x, ":")
		t.sttsC = append(t.sttsC, uint32(atoi(p[0])))
		t.sttsD = append(t.sttsD, uint32(atoi(p[1])))
	}
	if f[1] != "-" {
		t.hasCtts = true
		for _, x := range strings.Split(f[1], ",") {
			p := strings.Split(x, ":")
			t.cttsC = append(t.cttsC, uint32(atoi(p[0])))
			o := atoi(p[1])
			if o < 0 {
				t.cttsV = 1
			}
			t.cttsO = append(t.cttsO, int32(o))
			t.cttsCall = append(t.cttsCall, len(p) > 2 && p[2] == "1")
		}
	}
	for _, x := range strings.Split(f[2], ",") {
		p := strings.Split(x, ":")
		t.stsc = append(t.stsc, [3]uint32{uint32(atoi(p[0])), uint32(atoi(p[1])), uint32(atoi(p[2]))})
	}
	if strings.HasPrefix(f[3], "u") {
		p := strings.Split(f[3][1:], ":")
		t.uniform = uint32(atoi(p[0]))
		t.n = uint32(atoi(p[1]))
	} else if f[3] != "-" {
		for _, x := range strings.Split(f[3], ",") {
			t.sizes = append(t.sizes, uint32(atoi(x)))
		}
		t.n = uint32(len(t.sizes))
	}
	if f[4] != "-" {
		for _, x := range strings.Split(f[4], ",") {
			v, _ := strconv.ParseUint(x, 10, 64)
			t.offsets = append(t.offsets, v)
			if v >= 1<<32 {
				t.co64 = true
			}
		}
	}
	if f[5] == "e" {
		t.hasStss = true
	} else if f[5] != "-" {
		t.hasStss = true
		for _, x := range strings.Split(f[5], ",") {
			t.stss = append(t.stss, uint32(atoi(x)))
		}
	}
	if f[6] != "-" {
		t.hasSdtp = true
		for _, x := range strings.Split(f[6], ",") {
			t.sdtp = append(t.sdtp, byte(atoi(x)))
		}
	}
	return t, nil
}

// build the real boxes
func (t *tables) build() (*mp4.TrakBox, error) {
	stbl := mp4.NewStblBox()
	stbl.AddChild(&mp4.SttsBox{SampleCount: t.sttsC, SampleTimeDelta: t.sttsD})
	if t.hasCtts {
		c := &mp4.CttsBox{Version: t.cttsV}
		// one AddSampleCountsAndOffset call per marked group of entries (a table built incrementally, e.g. one
		// call per GoP or fragment); without marks: a single call
		start := 0
		for i := 1; ; i++ {
			if i >= len(t.cttsC) || (i < len(t.cttsCall) && t.cttsCall[i]) {
				end := minInt(i, len(t.cttsC))
				if err := c.AddSampleCountsAndOffset(t.cttsC[start:end], t.cttsO[start:end]); err != nil {
					return nil, err
				}
				if end == len(t.cttsC) {
					break
				}
				start = end
			}
		}
		stbl.AddChild(c)
	}
	sc := &mp4.StscBox{}
	for _, e := range t.stsc {
		if err := sc.AddEntry(e[0], e[1], e[2]); err != nil {
			return nil, err
		}
	}
	stbl.AddChild(sc)
	stbl.AddChild(&mp4.StszBox{SampleUniformSize: t.uniform, SampleNumber: t.n, SampleSize: t.sizes})
	if t.hasStss {
		stbl.AddChild(&mp4.StssBox{SampleNumber: t.stss})
	}
	if t.co64 {
		stbl.AddChild(&mp4.Co64Box{ChunkOffset: t.offsets})
	} else {
		o := make([]uint32, len(t.offsets))
		for i, x := range t.offsets {
			o[i] = uint32(x)
		}
		stbl.AddChild(&mp4.StcoBox{ChunkOffset: o})
	}
	if t.hasSdtp {
		es := make([]mp4.SdtpEntry, len(t.sdtp))
		for i, x := range t.sdtp {
			es[i] = mp4.SdtpEntry(x)
		}
		stbl.AddChild(mp4.CreateSdtpBox(es))
	}
	if t.viaDecode > 0 {
		var buf bytes.Buffer
		if err := stbl.Encode(&buf); err != nil {
			return nil, err
		}
		var box mp4.Box
		var err error
		if t.viaDecode == 1 {
			box, err = mp4.DecodeBox(0, bytes.NewReader(buf.Bytes()))
		} else {
			box, err = mp4.DecodeBoxSR(0, bits.NewFixedSliceReader(buf.Bytes()))
		}
		if err != nil {
			return nil, err
		}
		stbl = box.(*mp4.StblBox)
	}
	return &mp4.TrakBox{Mdia: &mp4.MdiaBox{Minf: &mp4.MinfBox{Stbl: stbl}}}, nil
}

func jn(l []string) string {
	if len(l) == 0 {
		return "-"
	}
	return strings.Join(l, ",")
}

func execC09(req string) string {
	if strings.HasPrefix(req, "copy ") {
		return execC09Copy(strings.Fields(req))
	}
	f := strings.Fields(req)
	if len(f) < 9 || f[0] != "stbl" {
		return "bad-op"
	}
	t, _ := parseTablesLine(f[1:8])
	// the decode path is chosen from a checksum of the line so that replays are deterministic
	sum := 0
	for _, ch := range req {
		sum += int(ch)
	}
	t.viaDecode = sum % 3
	var out string
	p := safe(func() {
		trak, err := t.build()
		if err != nil {
			out = "build-err:" + err.Error()
			return
		}
		out = queryC09(trak, t, f[8:])
	})
	if p != "" {
		return p
	}
	return out
}

func pstr(f func() string) (s string) {
	defer func() {
		if r := recover(); r != nil {
			s = "P"
		}
	}()
	return f()
}

func queryC09(trak *mp4.TrakBox, t *tables, q []string) string {
	stbl := trak.Mdia.Minf.Stbl
	n := int(stbl.Stsz.GetNrSamples())
	var l []string
	switch q[0] {
	case "dt":
		for i := 1; i <= n; i++ {
			l = append(l, pstr(func() string { d, u := stbl.Stts.GetDecodeTime(uint32(i)); return fmt.Sprintf("%d:%d", d, u) }))
		}
	case "dur":
		for i := 1; i <= n; i++ {
			l = append(l, pstr(func() string { return fmt.Sprint(stbl.Stts.GetDur(uint32(i))) }))
		}
	case "nratall":
		m := atoi(q[1])
		for x := 0; x <= m; x++ {
			l = append(l, pstr(func() string {
				k, err := stbl.Stts.GetSampleNrAtTime(uint64(x))
				if err != nil {
					return "e"
				}
				return fmt.Sprint(k)
			}))
		}
	case "cto":
		if stbl.Ctts == nil {
			return "-"
		}
		for i := 1; i <= n; i++ {
			l = append(l, pstr(func() string { return fmt.Sprint(stbl.Ctts.GetCompositionTimeOffset(uint32(i))) }))
		}
	case "sz":
		for i := 1; i <= n; i++ {
			l = append(l, pstr(func() string { return fmt.Sprint(stbl.Stsz.GetSampleSize(i)) }))
		}
	case "tot":
		a := atoi(q[1])
		for b := a; b <= n+1; b++ {
			l = append(l, pstr(func() string {
				k, err := stbl.Stsz.GetTotalSampleSize(uint32(a), uint32(b))
				if err != nil {
					return "e"
				}
				return fmt.Sprint(k)
			}))
		}
	case "sync":
		if stbl.Stss == nil {
			return "-"
		}
		for i := 1; i <= n; i++ {
			l = append(l, b01(stbl.Stss.IsSyncSample(uint32(i))))
		}
	case "chunkof":
		for i := 1; i <= n; i++ {
			l = append(l, pstr(func() string { c, f, _ := stbl.Stsc.ChunkNrFromSampleNr(i); return fmt.Sprintf("%d:%d", c, f) }))
		}
	case "chunk":
		for c := 1; c <= len(t.offsets); c++ {
			l = append(l, pstr(func() string { ch := stbl.Stsc.GetChunk(uint32(c)); return fmt.Sprintf("%d:%d", ch.StartSampleNr, ch.NrSamples) }))
		}
	case "off":
		for c := 0; c <= len(t.offsets)+1; c++ {
			l = append(l, pstr(func() string {
				var o uint64
				var err error
				if stbl.Stco != nil {
					o, err = stbl.Stco.GetOffset(c)
				} else {
					o, err = stbl.Co64.GetOffset(c)
				}
				if err != nil {
					return "e"
				}
				return fmt.Sprint(o)
			}))
		}
	case "chunks":
		a := atoi(q[1])
		for b := a; b <= n; b++ {
			l = append(l, pstr(func() string {
				cs, err := stbl.Stsc.GetContainingChunks(uint32(a), uint32(b))
				if err != nil {
					return "P"
				}
				s := []string{}
				for _, c := range cs {
					s = append(s, fmt.Sprintf("%d:%d:%d", c.ChunkNr, c.StartSampleNr, c.NrSamples))
				}
				return strings.Join(s, "/")
			}))
		}
	case "ranges":
		a := atoi(q[1])
		for b := a; b <= n; b++ {
			l = append(l, pstr(func() string {
				rs, err := trak.GetRangesForSampleInterval(uint32(a), uint32(b))
				if err != nil {
					return "P"
				}
				s := []string{}
				for _, r := range rs {
					s = append(s, fmt.Sprintf("%d:%d", r.Offset, r.Size))
				}
				return strings.Join(s, "/")
			}))
		}
	case "dtn":
		i := atoi(q[1])
		return pstr(func() string { d, u := stbl.Stts.GetDecodeTime(uint32(i)); return fmt.Sprintf("%d:%d", d, u) })
	case "durn":
		return pstr(func() string { return fmt.Sprint(stbl.Stts.GetDur(uint32(atoi(q[1])))) })
	case "nrat":
		x, _ := strconv.ParseUint(q[1], 10, 64)
		return pstr(func() string {
			k, err := stbl.Stts.GetSampleNrAtTime(x)
			if err != nil {
				return "e"
			}
			return fmt.Sprint(k)
		})
	case "cton":
		if stbl.Ctts == nil {
			return "-"
		}
		return pstr(func() string { return fmt.Sprint(stbl.Ctts.GetCompositionTimeOffset(uint32(atoi(q[1])))) })
	case "chunkofn":
		return pstr(func() string { c, f, _ := stbl.Stsc.ChunkNrFromSampleNr(atoi(q[1])); return fmt.Sprintf("%d:%d", c, f) })
	case "chunkn":
		return pstr(func() string { ch := stbl.Stsc.GetChunk(uint32(atoi(q[1]))); return fmt.Sprintf("%d:%d", ch.StartSampleNr, ch.NrSamples) })
	case "totab":
		return pstr(func() string {
			k, err := stbl.Stsz.GetTotalSampleSize(uint32(atoi(q[1])), uint32(atoi(q[2])))
			if err != nil {
				return "e"
			}
			return fmt.Sprint(k)
		})
	case "chunksab":
		return pstr(func() string {
			cs, err := stbl.Stsc.GetContainingChunks(uint32(atoi(q[1])), uint32(atoi(q[2])))
			if err != nil {
				return "P"
			}
			s := []string{}
			for _, c := range cs {
				s = append(s, fmt.Sprintf("%d:%d:%d", c.ChunkNr, c.StartSampleNr, c.NrSamples))
			}
			return strings.Join(s, "/")
		})
	case "rangesab":
		return pstr(func() string {
			rs, err := trak.GetRangesForSampleInterval(uint32(atoi(q[1])), uint32(atoi(q[2])))
			if err != nil {
				return "P"
			}
			s := []string{}
			for _, r := range rs {
				s = append(s, fmt.Sprintf("%d:%d", r.Offset, r.Size))
			}
			return strings.Join(s, "/")
		})
	case "seq":
		// every per-sample query on ONE object, in the caller's order
		for _, f := range strings.Split(q[1], ",") {
			i := atoi(f)
			l = append(l, pstr(func() string { d, u := stbl.Stts.GetDecodeTime(uint32(i)); return fmt.Sprintf("%d:%d", d, u) })+";"+
				pstr(func() string { return fmt.Sprint(stbl.Stts.GetDur(uint32(i))) })+";"+
				pstr(func() string {
					if stbl.Ctts == nil {
						return "-"
					}
					return fmt.Sprint(stbl.Ctts.GetCompositionTimeOffset(uint32(i)))
				})+";"+
				pstr(func() string { return fmt.Sprint(stbl.Stsz.GetSampleSize(i)) })+";"+
				pstr(func() string { c, f, _ := stbl.Stsc.ChunkNrFromSampleNr(i); return fmt.Sprintf("%d:%d", c, f) }))
		}
	case "sdi":
		// sample description id of every chunk, ascending
		for c := 1; c <= len(t.offsets); c++ {
			l = append(l, pstr(func() string { return fmt.Sprint(stbl.Stsc.GetSampleDescriptionID(c)) }))
		}
	case "sdiseq":
		// sample description id of the listed chunks on ONE object, in the caller's order
		for _, f := range strings.Split(q[1], ",") {
			c := atoi(f)
			l = append(l, pstr(func() string { return fmt.Sprint(stbl.Stsc.GetSampleDescriptionID(c)) }))
		}
	case "sdata":
		a, b := atoi(q[1]), atoi(q[2])
		return pstr(func() string {
			ss, err := trak.GetSampleData(uint32(a), uint32(b))
			if err != nil {
				return "P"
			}
			s := []string{}
			for _, x := range ss {
				s = append(s, fmt.Sprintf("%d:%d:%d:%d", x.Flags, x.Dur, x.Size, x.CompositionTimeOffset))
			}
			return strings.Join(s, "/")
		})
	default:
		return "bad-op"
	}
	return jn(l)
}

// ---------- generator + naive expansion oracle

type expanded struct {
	dur, size []uint32
	dec       []uint64
	cto       []int32
	sync      []bool
	chunkOf   []int // 1-based chunk of sample i (0-based idx)
	firstIn   []int // first sample (1-based) of chunk c (index c-1)
	nrIn      []int
	sdiOf     []uint32 // sample description id of chunk c (index c-1)
	off       []uint64 // byte offset of each sample
	flags     []uint32
}

// upper bound for generated sample sizes (C08 lowers it to keep files small)
var genTablesMaxSize = 3000

func genTables(c *Ctx) (*tables, *expanded) {
	r := c.R
	n := 1 + r.Intn(60)
	if r.Intn(6) == 0 {
		n = 1 + r.Intn(6)
	}
	t := &tables{n: uint32(n)}
	e := &expanded{}
	// stts
	left := n
	for left > 0 {
		k := 1 + r.Intn(left)
		if r.Intn(3) > 0 && k > 6 {
			k = 1 + r.Intn(6)
		}
		d := uint32([]int64{1, 2, 512, 1000, 1001, 3000, 3003, 1 << 20, 1 << 31, 3000000000, 1<<32 - 1}[r.Intn(11)])
		if r.Intn(10) == 0 {
			d = uint32(1 + r.Intn(5000))
		}
		if len(t.sttsC) >= 11 {
			k = left
		}
		t.sttsC = append(t.sttsC, uint32(k))
		t.sttsD = append(t.sttsD, d)
		left -= k
	}
	// final single zero-duration sample (the special case the library documents)
	if r.Intn(6) == 0 && n >= 2 {
		last := len(t.sttsC) - 1
		if t.sttsC[last] > 1 {
			t.sttsC[last]--
			t.sttsC = append(t.sttsC, 1)
			t.sttsD = append(t.sttsD, 0)
		} else {
			t.sttsD[last] = 0
		}
	}
	var acc uint64
	for i := range t.sttsC {
		for k := uint32(0); k < t.sttsC[i]; k++ {
			e.dur = append(e.dur, t.sttsD[i])
			e.dec = append(e.dec, acc)
			acc += uint64(t.sttsD[i])
		}
	}
	// ctts
	if r.Intn(3) > 0 {
		t.hasCtts = true
		v1 := r.Intn(2) == 0
		left = n
		for left > 0 {
			k := 1 + r.Intn(left)
			if r.Intn(3) > 0 && k > 5 {
				k = 1 + r.Intn(5)
			}
			if len(t.cttsC) >= 11 {
				k = left
			}
			if r.Intn(8) == 0 && len(t.cttsC) < 10 {
				// zero-count entry
				t.cttsC = append(t.cttsC, 0)
				t.cttsO = append(t.cttsO, int32(r.Intn(1000)))
			}
			o := int32(r.Intn(5000))
			if v1 && r.Intn(2) == 0 {
				o = -int32(r.Intn(5000)) - 1
				t.cttsV = 1
			}
			t.cttsC = append(t.cttsC, uint32(k))
			t.cttsO = append(t.cttsO, o)
			left -= k
			for j := 0; j < k; j++ {
				e.cto = append(e.cto, o)
			}
		}
		// how the table is put together: one call, one call per entry, or random groups of entries
		t.cttsCall = make([]bool, len(t.cttsC))
		switch r.Intn(3) {
		case 1:
			for i := 1; i < len(t.cttsCall); i++ {
				t.cttsCall[i] = true
			}
		case 2:
			for i := 1; i < len(t.cttsCall); i++ {
				t.cttsCall[i] = r.Intn(3) == 0
			}
		}
	} else {
		e.cto = make([]int32, n)
	}
	// chunks
	var spcs []int
	left = n
	cur := 1 + r.Intn(7)
	for left > 0 {
		if r.Intn(3) == 0 {
			cur = 1 + r.Intn(7)
		}
		k := cur
		if k > left {
			k = left
		}
		spcs = append(spcs, k)
		left -= k
	}
	sdi := uint32(1)
	multiSdi := r.Intn(3) == 0
	if multiSdi && r.Intn(2) == 0 {
		sdi = uint32(1 + r.Intn(3)) // the first entry's id need not be 1
	}
	for i, k := range spcs {
		newSdi := sdi
		if multiSdi && i > 0 && r.Intn(3) == 0 {
			newSdi = uint32(1 + r.Intn(3))
		}
		e.sdiOf = append(e.sdiOf, newSdi)
		if i == 0 || int(t.stsc[len(t.stsc)-1][1]) != k || newSdi != sdi || r.Intn(12) == 0 {
			t.stsc = append(t.stsc, [3]uint32{uint32(i + 1), uint32(k), newSdi})
		}
		sdi = newSdi
	}
	// the last chunk may be shorter than its entry's samples-per-chunk only if it has its own entry (ensured above since k differs)
	// sizes
	if r.Intn(4) == 0 {
		t.uniform = uint32(1 + r.Intn(genTablesMaxSize*2/3+1))
		for i := 0; i < n; i++ {
			e.size = append(e.size, t.uniform)
		}
	} else {
		for i := 0; i < n; i++ {
			s := uint32(r.Intn(genTablesMaxSize))
			if r.Intn(10) == 0 {
				s = 0
			}
			t.sizes = append(t.sizes, s)
			e.size = append(e.size, s)
		}
	}
	// offsets: chunks laid out with gaps, possibly > 2^32
	base := uint64(40 + r.Intn(1000))
	if r.Intn(6) == 0 {
		base += 1 << 32
		t.co64 = true
	}
	si := 0
	for ci, k := range spcs {
		t.offsets = append(t.offsets, base)
		e.firstIn = append(e.firstIn, si+1)
		e.nrIn = append(e.nrIn, k)
		o := base
		for j := 0; j < k; j++ {
			e.chunkOf = append(e.chunkOf, ci+1)
			e.off = append(e.off, o)
			o += uint64(e.size[si])
			si++
		}
		base = o + uint64(r.Intn(3))*uint64(r.Intn(500))
	}
	// stss
	e.sync = make([]bool, n)
	switch r.Intn(4) {
	case 0: // absent: all sync
		for i := range e.sync {
			e.sync[i] = true
		}
	case 1:
		t.hasStss = true // present but empty ("e" in the line): no sample is sync
	default:
		t.hasStss = true
		for i := 0; i < n; i++ {
			if i == 0 || r.Intn(5) == 0 {
				t.stss = append(t.stss, uint32(i+1))
				e.sync[i] = true
			}
		}
	}
	if r.Intn(3) == 0 {
		t.hasSdtp = true
		for i := 0; i < n; i++ {
			t.sdtp = append(t.sdtp, byte(r.Intn(256)))
		}
	}
	for i := 0; i < n; i++ {
		var fl uint32
		if t.hasStss {
			if !e.sync[i] {
				fl |= 1 << 16
			} else {
				fl |= 2 << 24
			}
		}
		if t.hasSdtp {
			b := uint32(t.sdtp[i])
			fl &^= 3 << 24
			fl |= (b>>6)&3<<26 | (b>>4)&3<<24 | (b>>2)&3<<22 | (b&3)<<20
		}
		e.flags = append(e.flags, fl)
	}
	return t, e
}

func genC09(c *Ctx) {
	genBigC09(c)
	c09CopiedSampleData(c)
	nTables := c.N(250, 6000)
	c.St.Exhaustive = true
	c.Note("per generated table set: all sample numbers, all intervals a<=b, all chunk numbers, all times 0..total+2 (capped at 4000 distinct times around sample boundaries) are evaluated")
	for it := 0; it < nTables; it++ {
		t, e := genTables(c)
		n := int(t.n)
		pre := "stbl " + t.line() + " "
		key := ""
		if len(t.stsc) >= 2 || len(t.sttsC) >= 2 {
			key = pre
		}
		c.Eval(key)
		c.Count(fmt.Sprintf("stscEntries=%d", minInt(len(t.stsc), 6)))
		c.Count(fmt.Sprintf("ctts=%v co64=%v uniform=%v stss=%v sdtp=%v", t.hasCtts, t.co64, t.uniform != 0, t.hasStss, t.hasSdtp)[0:0] + "tables")
		if it < 2 {
			c.Sample(pre + "dt")
		}
		run := func(q string) string {
			r := execC09(pre + q)
			c.Case(pre+q, r)
			return r
		}
		chk := func(fp, what, q, got, want string) {
			if got != want {
				c.Fail(fp, what, pre+q, clip(got), clip(want))
			}
		}
		// decode time / duration
		var w []string
		for i := 0; i < n; i++ {
			w = append(w, fmt.Sprintf("%d:%d", e.dec[i], e.dur[i]))
		}
		chk("C09-decode-time", "GetDecodeTime != sum of earlier durations", "dt", run("dt"), jn(w))
		w = nil
		for i := 0; i < n; i++ {
			w = append(w, fmt.Sprint(e.dur[i]))
		}
		chk("C09-dur", "GetDur != expanded duration", "dur", run("dur"), jn(w))
		// sample at time: all times up to total+2 when small, else boundary times
		total := e.dec[n-1] + uint64(e.dur[n-1])
		if total <= 4000 {
			got := strings.Split(run(fmt.Sprintf("nratall %d", total+2)), ",")
			for x := uint64(0); x <= total+2 && int(x) < len(got); x++ {
				checkNrAt(c, pre, e, x, got[x], total)
			}
		} else {
			// evaluate at boundaries directly on the implementation (no model line: times are huge)
			trak, err := t.build()
			if err == nil {
				for i := 0; i < n; i++ {
					for _, d := range []int64{-1, 0, 1} {
						x := int64(e.dec[i]) + d
						if x < 0 {
							continue
						}
						k, err := trak.Mdia.Minf.Stbl.Stts.GetSampleNrAtTime(uint64(x))
						g := "e"
						if err == nil {
							g = fmt.Sprint(k)
						}
						checkNrAt(c, pre, e, uint64(x), g, total)
					}
				}
			}
		}
		// the same per-sample queries on one object in other orders than ascending: descending, and a random walk
		// with repeats (a lookup must not depend on the lookups made before it)
		{
			var orders [][]int
			var desc []int
			for i := n; i >= 1 && len(desc) < 300; i-- {
				desc = append(desc, i)
			}
			orders = append(orders, desc)
			var rnd []int
			for k := 0; k < minInt(3*n, 300); k++ {
				rnd = append(rnd, 1+c.R.Intn(n))
			}
			orders = append(orders, rnd)
			for _, ord := range orders {
				var qs, ws []string
				for _, i := range ord {
					qs = append(qs, fmt.Sprint(i))
				}
				got := strings.Split(run("seq "+strings.Join(qs, ",")), ",")
				for k, i := range ord {
					if k >= len(got) {
						break
					}
					g := strings.Split(got[k], ";")
					cto := "-"
					if t.hasCtts {
						cto = fmt.Sprint(e.cto[i-1])
					}
					ws = []string{fmt.Sprintf("%d:%d", e.dec[i-1], e.dur[i-1]), fmt.Sprint(e.dur[i-1]), cto, fmt.Sprint(e.size[i-1])}
					if len(g) < 4 || g[0] != ws[0] || g[1] != ws[1] || g[2] != ws[2] || g[3] != ws[3] {
						c.Fail("C09-query-order", fmt.Sprintf("per-sample queries made in another order than ascending differ from the table expansion (sample %d, position %d of the sequence)", i, k), pre+"seq "+strings.Join(qs, ","), got[k], strings.Join(ws, ";"))
						break
					}
				}
			}
		}
		// cto, sizes, sync
		if t.hasCtts {
			w = nil
			for i := 0; i < n; i++ {
				w = append(w, fmt.Sprint(e.cto[i]))
			}
			chk("C09-cto", "GetCompositionTimeOffset != expanded ctts", "cto", run("cto"), jn(w))
		}
		w = nil
		for i := 0; i < n; i++ {
			w = append(w, fmt.Sprint(e.size[i]))
		}
		chk("C09-size", "GetSampleSize != expanded size", "sz", run("sz"), jn(w))
		if t.hasStss {
			w = nil
			for i := 0; i < n; i++ {
				w = append(w, b01(e.sync[i]))
			}
			chk("C09-sync", "IsSyncSample != stss membership", "sync", run("sync"), jn(w))
		}
		// chunk of sample, chunk contents, offsets
		w = nil
		for i := 0; i < n; i++ {
			w = append(w, fmt.Sprintf("%d:%d", e.chunkOf[i], e.firstIn[e.chunkOf[i]-1]))
		}
		chk("C09-chunk-of-sample", "ChunkNrFromSampleNr != naive chunk walk", "chunkof", run("chunkof"), jn(w))
		w = nil
		for ci := range e.firstIn {
			nr := e.nrIn[ci]
			// the table's samples-per-chunk for the chunk's entry (the last chunk's entry may promise more samples than exist only if generator made its own entry; it did)
			w = append(w, fmt.Sprintf("%d:%d", e.firstIn[ci], nr))
		}
		chk("C09-chunk", "GetChunk != naive chunk contents", "chunk", run("chunk"), jn(w))
		// sample description id of every chunk (= of every sample of the chunk): ascending, descending, random order
		w = nil
		for ci := range e.sdiOf {
			w = append(w, fmt.Sprint(e.sdiOf[ci]))
		}
		chk("C09-sample-description-id", "GetSampleDescriptionID != description id of the chunk's stsc entry", "sdi", run("sdi"), jn(w))
		{
			nc := len(e.sdiOf)
			var desc, rnd []int
			for ci := nc; ci >= 1; ci-- {
				desc = append(desc, ci)
			}
			for k := 0; k < minInt(2*nc, 100); k++ {
				rnd = append(rnd, 1+c.R.Intn(nc))
			}
			for _, ord := range [][]int{desc, rnd} {
				var qs, ws []string
				for _, ci := range ord {
					qs = append(qs, fmt.Sprint(ci))
					ws = append(ws, fmt.Sprint(e.sdiOf[ci-1]))
				}
				q := "sdiseq " + strings.Join(qs, ",")
				chk("C09-sample-description-id", "GetSampleDescriptionID (chunks in another order than ascending) != description id of the chunk's stsc entry", q, run(q), jn(ws))
			}
		}
		w = []string{"e"}
		for _, o := range t.offsets {
			w = append(w, fmt.Sprint(o))
		}
		w = append(w, "e")
		chk("C09-chunk-offset", "GetOffset != table entry / bounds", "off", run("off"), jn(w))
		// intervals
		for a := 1; a <= n; a++ {
			// total size a..b for b = a..n, plus b = n+1 -> error
			w = nil
			var s uint64
			for b := a; b <= n; b++ {
				s += uint64(e.size[b-1])
				w = append(w, fmt.Sprint(s))
			}
			w = append(w, "e")
			chk("C09-total-size", "GetTotalSampleSize != sum of sizes", fmt.Sprintf("tot %d", a), run(fmt.Sprintf("tot %d", a)), jn(w))
			// containing chunks
			w = nil
			var wr []string
			for b := a; b <= n; b++ {
				var cs, rs []string
				for ci := e.chunkOf[a-1]; ci <= e.chunkOf[b-1]; ci++ {
					cs = append(cs, fmt.Sprintf("%d:%d:%d", ci, e.firstIn[ci-1], e.nrIn[ci-1]))
					lo := e.firstIn[ci-1]
					hi := lo + e.nrIn[ci-1] - 1
					if lo < a {
						lo = a
					}
					if hi > b {
						hi = b
					}
					var sz uint64
					for k := lo; k <= hi; k++ {
						sz += uint64(e.size[k-1])
					}
					rs = append(rs, fmt.Sprintf("%d:%d", e.off[lo-1], sz))
				}
				w = append(w, strings.Join(cs, "/"))
				wr = append(wr, strings.Join(rs, "/"))
			}
			chk("C09-containing-chunks", "GetContainingChunks != naive chunk list", fmt.Sprintf("chunks %d", a), run(fmt.Sprintf("chunks %d", a)), jn(w))
			chk("C09-ranges", "GetRangesForSampleInterval != naive byte ranges", fmt.Sprintf("ranges %d", a), run(fmt.Sprintf("ranges %d", a)), jn(wr))
			// sample metadata for a few b
			for _, b := range []int{a, minInt(a+1, n), n, a + c.R.Intn(n-a+1)} {
				var ms []string
				for k := a; k <= b; k++ {
					ms = append(ms, fmt.Sprintf("%d:%d:%d:%d", e.flags[k-1], e.dur[k-1], e.size[k-1], e.cto[k-1]))
				}
				q := fmt.Sprintf("sdata %d %d", a, b)
				fp := "C09-sample-data"
				chk(fp, "GetSampleData != per-sample metadata of the interval", q, run(q), strings.Join(ms, "/"))
			}
		}
	}
}

// big run-length tables (millions of samples): point queries at run boundaries against run arithmetic
func genBigC09(c *Ctx) {
	r := c.R
	for it := 0; it < c.N(150, 4000); it++ {
		ne := 1 + r.Intn(5)
		t := &tables{}
		type run struct{ first, count, val uint64 }
		var durRuns []run
		var n uint64
		for i := 0; i < ne; i++ {
			cnt := uint64([]int{1, 2, 1000, 65536, 70000, 1 << 20, 5000000}[r.Intn(7)])
			d := uint64([]int64{1, 1000, 1001, 90000, 1 << 20, 1 << 24, 1<<32 - 1}[r.Intn(7)])
			t.sttsC = append(t.sttsC, uint32(cnt))
			t.sttsD = append(t.sttsD, uint32(d))
			durRuns = append(durRuns, run{n + 1, cnt, d})
			n += cnt
		}
		t.n = uint32(n)
		t.uniform = uint32(1 + r.Intn(5000))
		// ctts with large runs
		t.hasCtts = true
		left := n
		var ctRuns []run
		for left > 0 {
			k := left
			if len(t.cttsC) < 4 && left > 1 {
				k = 1 + uint64(r.Int63n(int64(left)))
			}
			o := r.Intn(100000)
			t.cttsC = append(t.cttsC, uint32(k))
			t.cttsO = append(t.cttsO, int32(o))
			ctRuns = append(ctRuns, run{n - left + 1, k, uint64(o)})
			left -= k
		}
		// stsc: 1..4 entries with large chunk counts
		nEnt := 1 + r.Intn(4)
		var fc uint64 = 1
		type ent struct{ fc, spc, fs uint64 }
		var ents []ent
		var fs uint64 = 1
		for i := 0; i < nEnt; i++ {
			spc := uint64(1 + r.Intn(2000))
			ents = append(ents, ent{fc, spc, fs})
			t.stsc = append(t.stsc, [3]uint32{uint32(fc), uint32(spc), 1})
			nch := uint64(1 + r.Intn(3000))
			fs += nch * spc
			fc += nch
		}
		// offsets: only a handful (GetOffset is not queried for big tables)
		t.offsets = []uint64{100}
		pre := "stbl " + t.line() + " "
		c.Eval(pre)
		c.Count("big-table")
		run1 := func(q string) string { x := execC09(pre + q); c.Case(pre+q, x); return x }
		// boundary sample numbers
		var pts []uint64
		for _, dr := range durRuns {
			pts = append(pts, dr.first, dr.first+dr.count-1, dr.first+dr.count/2)
		}
		for _, cr := range ctRuns {
			pts = append(pts, cr.first, cr.first+cr.count-1)
		}
		for _, p := range pts {
			if p < 1 || p > n {
				continue
			}
			// decode time by run arithmetic
			var dec, dur uint64
			for _, dr := range durRuns {
				if p >= dr.first+dr.count {
					dec += dr.count * dr.val
				} else {
					dec += (p - dr.first) * dr.val
					dur = dr.val
					break
				}
			}
			q := fmt.Sprintf("dtn %d", p)
			if g := run1(q); g != fmt.Sprintf("%d:%d", dec, dur) {
				c.Fail("C09-decode-time", "GetDecodeTime != sum of earlier durations (large table)", pre+q, g, fmt.Sprintf("%d:%d", dec, dur))
			}
			q = fmt.Sprintf("durn %d", p)
			if g := run1(q); g != fmt.Sprint(dur) {
				c.Fail("C09-dur", "GetDur != expanded duration (large table)", pre+q, g, fmt.Sprint(dur))
			}
			for _, cr := range ctRuns {
				if p >= cr.first && p < cr.first+cr.count {
					q = fmt.Sprintf("cton %d", p)
					if g := run1(q); g != fmt.Sprint(cr.val) {
						c.Fail("C09-cto", "GetCompositionTimeOffset != expanded ctts (large table)", pre+q, g, fmt.Sprint(cr.val))
					}
				}
			}
			// sample at the decode time of p must be p (durations are positive here)
			q = fmt.Sprintf("nrat %d", dec)
			if g := run1(q); g != fmt.Sprint(p) {
				c.Fail("C09-sample-at-time", "GetSampleNrAtTime(decodeTime(n)) != n (large table)", pre+q, g, fmt.Sprint(p))
			}
			// chunk of sample
			if p < fs {
				var cnr, first uint64
				for i := len(ents) - 1; i >= 0; i-- {
					if ents[i].fs <= p {
						k := (p - ents[i].fs) / ents[i].spc
						cnr = ents[i].fc + k
						first = ents[i].fs + k*ents[i].spc
						break
					}
				}
				q = fmt.Sprintf("chunkofn %d", p)
				if g := run1(q); g != fmt.Sprintf("%d:%d", cnr, first) {
					c.Fail("C09-chunk-of-sample", "ChunkNrFromSampleNr != naive chunk walk (large table)", pre+q, g, fmt.Sprintf("%d:%d", cnr, first))
				}
			}
			// total size of a long interval with uniform size
			if p > 1 {
				q = fmt.Sprintf("totab 1 %d", p)
				if g := run1(q); g != fmt.Sprint(p*uint64(t.uniform)) {
					c.Fail("C09-total-size", "GetTotalSampleSize != sum of sizes (large table)", pre+q, g, fmt.Sprint(p*uint64(t.uniform)))
				}
			}
		}
		// chunk contents at entry boundaries
		for i, e := range ents {
			for _, cn := range []uint64{e.fc, e.fc + 1, e.fc + 2999} {
				if i+1 < len(ents) && cn >= ents[i+1].fc {
					continue
				}
				if cn >= fc && i == len(ents)-1 {
					// beyond the generated chunk count: stsc's last entry extends indefinitely
				}
				q := fmt.Sprintf("chunkn %d", cn)
				w := fmt.Sprintf("%d:%d", e.fs+(cn-e.fc)*e.spc, e.spc)
				if g := run1(q); g != w {
					c.Fail("C09-chunk", "GetChunk != naive chunk contents (large table)", pre+q, g, w)
				}
			}
		}
	}
}

func clip(s string) string {
	if len(s) > 400 {
		return s[:400] + "…"
	}
	return s
}

func minInt(a, b int) int {
	if a < b {
		return a
	}
	return b
}

// sample at time x (documented and unit-tested semantics): the least n in 1..N+1 whose start time is >= x,
// where N+1 is the virtual sample starting at the end of the track; ties (equal decode times) accepted;
// x >= total: error, except that a final single zero-duration sample matches x == total
func checkNrAt(c *Ctx, pre string, e *expanded, x uint64, got string, total uint64) {
	n := len(e.dec)
	want := -1
	for i := 0; i < n; i++ {
		if e.dec[i] >= x {
			want = i + 1
			break
		}
	}
	if want < 0 && x < total {
		want = n + 1
	}
	ok := false
	if want < 0 {
		ok = got == "e"
	} else if got != "e" {
		g := atoi(got)
		if want == n+1 {
			ok = g == n+1
		} else {
			ok = g >= want && g <= n && e.dec[g-1] == e.dec[want-1]
		}
	}
	if !ok {
		w := "e"
		if want > 0 {
			w = fmt.Sprint(want)
		}
		c.Fail("C09-sample-at-time", "GetSampleNrAtTime != least sample starting at or after the time", pre+fmt.Sprintf("nratall %d  (time %d)", x, x), got, w)
	}
}

// c09CopiedSampleData: the "copied sample data" query of the statement: File.CopySampleData over sample intervals of
// generated progressive files, in-memory and lazy mode, with EVERY work-buffer size from 1 to the payload size + 2 (a
// chunk ending exactly at the end of the buffer, a buffer smaller than a sample, larger than everything), against the
// bytes the generator wrote.
func c09CopiedSampleData(c *Ctx) {
	nf := c.N(12, 120)
	for it := 0; it < nf; it++ {
		sub := c.R.Int63()
		// the file as generated (one mdat), every work-buffer size; the random thinning of intervals comes from c.R
		c09CopyOneLayout(c, sub, 0, 0, c.R, nil)
		// the same tracks in files holding SEVERAL media-data boxes: an empty mdat (8-byte or largesize header) before
		// the one with the samples, after it, or both. The chunk offsets are absolute file offsets, so every query
		// must return the bytes they point to whichever boxes surround them.
		r2 := rand.New(rand.NewSource(sub ^ 0x6d646174))
		for _, before := range []int{0, 8, 16} {
			for _, after := range []int{0, 8, 16} {
				if before != 0 || after != 0 {
					c09CopyOneLayout(c, sub, before, after, r2, []int{0, 1, 2, 3, 7, 16, 1 << 20})
				}
			}
		}
	}
}

// c09CopyOneLayout: File.CopySampleData over the sample intervals of the file c09CopyFile(sub, before, after), decoded
// in memory and lazily, with the given work-buffer sizes (nil: every size 0..min(total+2,80); sizes above that
// bound are replaced by it). Expected = the bytes the sample tables point to in the file (chunk offset + sizes of
// the earlier samples of the chunk), which are the bytes the generator wrote for the samples.
func c09CopyOneLayout(c *Ctx, sub int64, before, after int, thin *rand.Rand, wsList []int) {
	pf := c09CopyFile(sub, before, after)
	layout := fmt.Sprintf("%d %d", before, after)
	fe, err1 := mp4.DecodeFile(bytes.NewReader(pf.bytes))
	fl, err2 := mp4.DecodeFile(bytes.NewReader(pf.bytes), mp4.WithDecodeMode(mp4.DecModeLazyMdat))
	if err1 != nil || err2 != nil {
		c.Fail("C09-copied-data", "generated progressive file does not decode", fmt.Sprintf("copy %d 1 1 1 0 0 %s", sub, layout), fmt.Sprint(err1, err2), "")
		return
	}
	c.Count(fmt.Sprintf("copied-data file: empty mdat before=%d after=%d", before, after))
	for ti, t := range pf.tracks {
		n := len(t.data)
		total := 0
		for _, d := range t.data {
			total += len(d)
		}
		maxWS := total + 2
		if maxWS > 80 {
			maxWS = 80
		}
		sizes := wsList
		if sizes == nil {
			for ws := 0; ws <= maxWS; ws++ {
				sizes = append(sizes, ws)
			}
		}
		// byte position of every sample according to the tables: chunk offset + sizes of the earlier samples in the chunk
		var pos []int
		k := 0
		for ci, cl := range t.chunkLens {
			o := int(t.chunkOffs[ci])
			for j := 0; j < cl; j++ {
				pos = append(pos, o)
				o += len(t.data[k])
				k++
			}
		}
		for a := 1; a <= n; a++ {
			for b := a; b <= n; b++ {
				if n > 5 && thin.Intn(3) != 0 {
					continue
				}
				var want []byte
				for k := a; k <= b; k++ {
					want = append(want, pf.bytes[pos[k-1]:pos[k-1]+len(t.data[k-1])]...)
					if !bytes.Equal(pf.bytes[pos[k-1]:pos[k-1]+len(t.data[k-1])], t.data[k-1]) {
						panic("c09 copied-data: generated file does not hold the sample where its tables point")
					}
				}
				for _, ws := range sizes {
					if ws > maxWS {
						ws = maxWS
					}
					var work []byte
					if ws > 0 {
						work = make([]byte, ws)
					}
					for mode, f := range []*mp4.File{fe, fl} {
						var buf bytes.Buffer
						var rs *bytes.Reader
						if mode == 1 {
							rs = bytes.NewReader(pf.bytes)
						}
						var err error
						p := safe(func() {
							if rs != nil {
								err = f.CopySampleData(&buf, rs, f.Moov.Traks[ti], uint32(a), uint32(b), work)
							} else {
								err = f.CopySampleData(&buf, nil, f.Moov.Traks[ti], uint32(a), uint32(b), work)
							}
						})
						c.Eval("")
						got := buf.Bytes()
						if p != "" || err != nil || !bytes.Equal(got, want) {
							req := fmt.Sprintf("copy %d %d %d %d %d %d", sub, ti+1, a, b, ws, mode)
							if before != 0 || after != 0 {
								req += " " + layout
							}
							c.Fail("C09-copied-data", "File.CopySampleData over a sample interval != the samples' bytes",
								req, clip(fmt.Sprintf("%s err=%v %s", p, err, hx(got))), clip(hx(want)))
						}
					}
				}
				if before == 0 && after == 0 {
					c.Count("copied-data interval")
				} else {
					c.Count("copied-data interval (several mdat boxes)")
				}
			}
		}
	}
}

// c09CopyFile: the generated file of a sub-seed; before/after = header length (0 none, 8, 16) of an extra empty mdat
// box before / after the media (the tracks are the same for every layout of a sub-seed, chunk offsets recomputed)
func c09CopyFile(sub int64, before, after int) *progFile {
	r := rand.New(rand.NewSource(sub))
	pf := genProgFile(r, 1+r.Intn(2), 9)
	if before == 0 && after == 0 {
		return pf
	}
	q := *pf
	q.tracks = nil
	for _, t := range pf.tracks {
		tc := *t
		tc.chunkOffs = nil
		q.tracks = append(q.tracks, &tc)
	}
	q.emptyMdatBefore, q.emptyMdatAfter = before, after
	q.build(r)
	return &q
}

// execC09Copy replays "copy <sub-seed> <track> <a> <b> <workspace> <lazy> [<empty mdat before> <after>]"
func execC09Copy(f []string) string {
	if len(f) != 7 && len(f) != 9 {
		return "bad-op"
	}
	var sub int64
	fmt.Sscan(f[1], &sub)
	before, after := 0, 0
	if len(f) == 9 {
		before, after = atoi(f[7]), atoi(f[8])
	}
	pf := c09CopyFile(sub, before, after)
	ti, a, b, ws, lazy := atoi(f[2])-1, atoi(f[3]), atoi(f[4]), atoi(f[5]), f[6] == "1"
	var file *mp4.File
	var err error
	var rs *bytes.Reader
	if lazy {
		file, err = mp4.DecodeFile(bytes.NewReader(pf.bytes), mp4.WithDecodeMode(mp4.DecModeLazyMdat))
		rs = bytes.NewReader(pf.bytes)
	} else {
		file, err = mp4.DecodeFile(bytes.NewReader(pf.bytes))
	}
	if err != nil || ti < 0 || ti >= len(file.Moov.Traks) {
		return "err"
	}
	var work []byte
	if ws > 0 {
		work = make([]byte, ws)
	}
	var buf bytes.Buffer
	var out string
	p := safe(func() {
		if rs != nil {
			err = file.CopySampleData(&buf, rs, file.Moov.Traks[ti], uint32(a), uint32(b), work)
		} else {
			err = file.CopySampleData(&buf, nil, file.Moov.Traks[ti], uint32(a), uint32(b), work)
		}
		out = fmt.Sprintf("err=%v %s", err, hx(buf.Bytes()))
	})
	if p != "" {
		return p
	}
	return out
}
