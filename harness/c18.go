package main

import (
	"bytes"
	"fmt"
	"strconv"
	"strings"
	"time"

	"github.com/Eyevinn/mp4ff/aac"
	"github.com/Eyevinn/mp4ff/bits"
	"github.com/Eyevinn/mp4ff/mp4"
)

func init() {
	props["C18"] = &propDef{
		rule: "cases = the complete grid of AudioSpecificConfig values the library supports (13 table + 64 explicit 24-bit frequencies incl. 1, 2^24-1 and table neighbours x 16 channel configurations x object types 2/5/29 x extension frequencies), every ADTS header (13 indices x 8 channel configs x payload 0..8184), ADTS junk prefixes 0..187 bytes (random and ff-heavy; for every length also junk made of sync-word fragments: ff runs, junk ending in ff / ff ff right before the sync word, ff + near-sync byte pairs, dense ff mixes), junk of 188..200 bytes and streams without any sync word (model correspondence), histories (2..8 and whole-grid sequences of ADTS / AudioSpecificConfig encode and decode calls whose results are all held and inspected after the last call), AAC sample entries via SetAACDescriptor, alone and in sequences (several tracks of one init / successive inits, all built before any is inspected or encoded; SetAACDescriptor called two or three times with different configurations on one track, fresh or of a decoded init, then written by both encoders and read by both decoders); non-trivial = distinct case with an explicit frequency, or a payload >= 4089, or a non-empty junk prefix, or an HE-AAC object type",
		gen:  genC18,
		exec: execC18,
	}
}

func execC18(req string) string {
	f := strings.Fields(req)
	if len(f) == 0 {
		return ""
	}
	run := func() string {
		var out string
		p := safe(func() { out = execC18Inner(f[0], f[1:]) })
		if p != "" {
			return p
		}
		return out
	}
	if f[0] != "adts.dec" && f[0] != "adts.reenc" && f[0] != "hist" {
		return run()
	}
	// the sync search is a loop over untrusted bytes: a search that never ends must not stall the whole check
	ch := make(chan string, 1)
	go func() { ch <- run() }()
	t := time.NewTimer(30 * time.Second)
	defer t.Stop()
	select {
	case r := <-ch:
		return r
	case <-t.C:
		return "timeout"
	}
}

func atoi(s string) int { v, _ := strconv.Atoi(s); return v }

func execC18Inner(op string, a []string) string {
	if op == "hist" {
		// hist <request> | <request> | ... : every request is executed in order and its result (the byte slice an encoder
		// returned, the struct a decoder returned) is held; only after the last one are all results rendered. Results are
		// values: a later call must not change what an earlier call returned.
		var late []func() string
		for _, sub := range strings.Split(strings.Join(a, " "), "|") {
			f := strings.Fields(sub)
			if len(f) == 0 {
				continue
			}
			late = append(late, prepC18(f[0], f[1:]))
		}
		out := make([]string, len(late))
		for i, r := range late {
			out[i] = r()
		}
		return strings.Join(out, " | ")
	}
	return prepC18(op, a)()
}

// prepC18 runs one request on the library and returns the renderer of the result it holds on to.
func prepC18(op string, a []string) func() string {
	konst := func(s string) func() string { return func() string { return s } }
	switch op {
	case "asc.enc":
		asc := &aac.AudioSpecificConfig{ObjectType: byte(atoi(a[0])), ChannelConfiguration: byte(atoi(a[1])),
			SamplingFrequency: atoi(a[2]), ExtensionFrequency: atoi(a[3])}
		buf := &bytes.Buffer{}
		if err := asc.Encode(buf); err != nil {
			return konst("err")
		}
		return func() string { return hx(buf.Bytes()) }
	case "asc.dec":
		d, _ := unhx(a[0])
		asc, err := aac.DecodeAudioSpecificConfig(bytes.NewReader(d))
		if err != nil {
			return konst("err")
		}
		return func() string {
			return fmt.Sprintf("%d %d %d %d %s %s", asc.ObjectType, asc.ChannelConfiguration, asc.SamplingFrequency,
				asc.ExtensionFrequency, b01(asc.SBRPresentFlag), b01(asc.PSPresentFlag))
		}
	case "adts.enc":
		h := aac.ADTSHeader{ObjectType: byte(atoi(a[0])), SamplingFrequencyIndex: byte(atoi(a[1])), ChannelConfig: byte(atoi(a[2])),
			HeaderLength: 7, PayloadLength: uint16(atoi(a[3])), BufferFullness: uint16(atoi(a[4]))}
		enc := h.Encode()
		return func() string { return hx(enc) }
	case "adts.dec":
		d, _ := unhx(a[0])
		h, off, err := aac.DecodeADTSHeader(bytes.NewReader(d))
		if err != nil {
			return konst("err")
		}
		return func() string {
			return fmt.Sprintf("%d %d %d %d %d %d %d off=%d", h.ID, h.ObjectType, h.SamplingFrequencyIndex, h.ChannelConfig, h.HeaderLength,
				h.PayloadLength, h.BufferFullness, off)
		}
	case "adts.reenc":
		d, _ := unhx(a[0])
		h, _, err := aac.DecodeADTSHeader(bytes.NewReader(d))
		if err != nil {
			return konst("err")
		}
		h2, off, err := aac.DecodeADTSHeader(bytes.NewReader(h.Encode()))
		if err != nil {
			return konst("err2")
		}
		return func() string {
			return fmt.Sprintf("%d %d %d %d %d %d %d off=%d", h2.ID, h2.ObjectType, h2.SamplingFrequencyIndex, h2.ChannelConfig, h2.HeaderLength,
				h2.PayloadLength, h2.BufferFullness, off)
		}
	}
	return konst("bad-op")
}

// genC18Reencode: headers as DecodeADTSHeader returns them (with and without CRC, i.e. header length 7 and 9) are
// encoded again; the second decode must give the same profile, frequency index, channels, payload length and fullness
func genC18Reencode(c *Ctx) {
	for i := 0; i < c.N(800, 20000); i++ {
		sfi, ch, pl := c.R.Intn(13), c.R.Intn(8), 2+c.R.Intn(8180)
		h := aac.ADTSHeader{ObjectType: byte(1 + c.R.Intn(4)), SamplingFrequencyIndex: byte(sfi), ChannelConfig: byte(ch), HeaderLength: 7,
			PayloadLength: uint16(pl), BufferFullness: uint16(c.R.Intn(2048))}
		data := h.Encode()
		crc := c.R.Intn(2) == 0
		if crc { // protection_absent = 0: two CRC bytes follow the 7 header bytes
			data[1] &^= 1
			data = append(data, byte(c.R.Intn(256)), byte(c.R.Intn(256)))
		}
		first := execC18("adts.dec " + hx(data))
		req := "adts.reenc " + hx(data)
		got := execC18(req)
		c.Case(req, got)
		c.Eval(req)
		c.Count(fmt.Sprintf("reenc.crc=%v", crc))
		ff, gf := strings.Fields(first), strings.Fields(got)
		if len(ff) != 8 || len(gf) != 8 {
			c.Fail("C18-adts-reencode", "a header returned by DecodeADTSHeader cannot be encoded and decoded again", req, got, first)
			continue
		}
		// fields: id ot sfi ch headerLength payloadLength fullness off ; Encode always writes a 7-byte header without CRC
		for _, k := range []int{0, 1, 2, 3, 5, 6} {
			if ff[k] != gf[k] {
				c.Fail("C18-adts-reencode", "DecodeADTSHeader(Encode(h)) differs from h for a header h returned by the decoder (field "+fmt.Sprint(k)+")", req, got, first)
				break
			}
		}
	}
}

var tableFreqs = []int{96000, 88200, 64000, 48000, 44100, 32000, 24000, 22050, 16000, 12000, 11025, 8000, 7350}

func genC18(c *Ctx) {
	// ---- ASC grid
	freqs := append([]int{}, tableFreqs...)
	explicit := []int{1, 2, 7349, 7351, 44099, 44101, 95999, 96001, 100000, 192000, 1 << 16, 1<<24 - 1, 1<<24 - 2, 1 << 23, 0}
	for len(explicit) < 64 {
		f := c.R.Intn(1 << 24)
		explicit = append(explicit, f)
	}
	freqs = append(freqs, explicit...)
	isTable := func(f int) bool {
		for _, t := range tableFreqs {
			if t == f {
				return true
			}
		}
		return false
	}
	c.St.Exhaustive = true
	c.Note("ASC grid: 77 sampling frequencies x 16 channel configs x {2,5,29} x extension frequency {2f (as SetAACDescriptor), each table value, explicit values}; ADTS: all 13x8x8185 headers")
	for _, ot := range []int{2, 5, 29} {
		for ch := 0; ch < 16; ch++ {
			for _, f := range freqs {
				exts := []int{0}
				if ot != 2 {
					exts = []int{2 * f % (1 << 24), tableFreqs[c.R.Intn(13)], explicit[c.R.Intn(len(explicit))], f}
				}
				for _, ef := range exts {
					req := fmt.Sprintf("asc.enc %d %d %d %d", ot, ch, f, ef)
					enc := execC18(req)
					c.Case(req, enc)
					dreq := "asc.dec " + enc
					dec := execC18(dreq)
					c.Case(dreq, dec)
					want := fmt.Sprintf("%d %d %d %d %s %s", ot, ch, f, ef, b01(ot != 2), b01(ot == 29))
					key := ""
					if !isTable(f) || ot != 2 {
						key = req
					}
					c.Eval(key)
					c.Count(fmt.Sprintf("asc.ot%d", ot))
					if dec != want {
						c.Fail("C18-asc-roundtrip", "DecodeAudioSpecificConfig(Encode(cfg)) != cfg", req, dec, want)
					}
					if ch == 2 && ot == 5 && f == 44100 && ef == 88200 {
						c.Sample(req + " -> " + enc + " -> " + dec)
					}
				}
			}
		}
	}
	// unsupported object types must be rejected by both
	for _, ot := range []int{0, 1, 3, 4, 6, 28, 30, 31} {
		req := fmt.Sprintf("asc.enc %d 2 48000 0", ot)
		c.Case(req, execC18(req))
		c.Eval("")
	}
	// arbitrary bytes into the ASC decoder (model must agree on accept/reject and values)
	for i := 0; i < c.N(4000, 60000); i++ {
		n := c.R.Intn(10)
		d := make([]byte, n)
		c.R.Read(d)
		if n > 0 && c.R.Intn(2) == 0 {
			d[0] = []byte{0x10, 0x11, 0x12, 0x13, 0x17, 0x28, 0x2b, 0x2f, 0xe9, 0xef}[c.R.Intn(10)]
		}
		req := "asc.dec " + hx(d)
		c.Case(req, execC18(req))
		c.Eval("")
		c.Count("asc.dec-arbitrary")
	}

	// ---- ADTS: full header grid (direct oracle on all; model correspondence on a slice of it)
	for sfi := 0; sfi < 13; sfi++ {
		for ch := 0; ch < 8; ch++ {
			modelThis := (sfi*8+ch)%c.N(13, 3) == 0
			for pl := 0; pl <= 8184; pl++ {
				h := aac.ADTSHeader{ObjectType: 2, SamplingFrequencyIndex: byte(sfi), ChannelConfig: byte(ch), HeaderLength: 7,
					PayloadLength: uint16(pl), BufferFullness: 0x7ff}
				enc := h.Encode()
				got, off, err := aac.DecodeADTSHeader(bytes.NewReader(enc))
				key := ""
				if pl >= 4089 {
					key = fmt.Sprintf("adts %d %d %d", sfi, ch, pl)
				}
				c.Eval(key)
				if err != nil || off != 0 || *got != h {
					c.Fail("C18-adts-roundtrip", "DecodeADTSHeader(Encode(h)) != h", fmt.Sprintf("adts.enc 2 %d %d %d 2047", sfi, ch, pl), fmt.Sprintf("%v off=%d err=%v", got, off, err), fmt.Sprintf("%v", h))
				}
				if modelThis || pl%512 == 0 || pl >= 8180 {
					req := fmt.Sprintf("adts.enc 2 %d %d %d 2047", sfi, ch, pl)
					c.Case(req, hx(enc))
					dreq := "adts.dec " + hx(enc)
					c.Case(dreq, execC18(dreq))
				}
			}
			c.Count("adts.grid")
		}
	}
	// other object types / buffer fullness values
	for i := 0; i < c.N(3000, 40000); i++ {
		ot := 1 + c.R.Intn(4)
		sfi := c.R.Intn(16)
		ch := c.R.Intn(8)
		pl := c.R.Intn(8185)
		bf := c.R.Intn(2048)
		req := fmt.Sprintf("adts.enc %d %d %d %d %d", ot, sfi, ch, pl, bf)
		enc := execC18(req)
		c.Case(req, enc)
		dreq := "adts.dec " + enc
		dec := execC18(dreq)
		c.Case(dreq, dec)
		want := fmt.Sprintf("0 %d %d %d 7 %d %d off=0", ot, sfi, ch, pl, bf)
		c.Eval(req)
		if dec != want {
			c.Fail("C18-adts-roundtrip", "DecodeADTSHeader(Encode(h)) != h", req, dec, want)
		}
	}
	// junk prefixes: every length 0..187, several junk styles
	for jl := 0; jl <= 187; jl++ {
		for style := 0; style < c.N(6, 40); style++ {
			junk := make([]byte, jl)
			for k := range junk {
				switch style % 3 {
				case 0:
					junk[k] = byte(c.R.Intn(255)) // never ff
				case 1:
					junk[k] = []byte{0xff, 0xff, 0x47, 0xfe, 0xe0, 0x0f}[c.R.Intn(6)]
				default:
					junk[k] = byte(c.R.Intn(256))
				}
			}
			// remove false syncs: ff followed by fx with layer 0
			for k := 0; k+1 < len(junk); k++ {
				if junk[k] == 0xff && junk[k+1]>>4 == 0xf && (junk[k+1]>>1)&3 == 0 {
					junk[k+1] |= 0x06
				}
			}
			sfi, ch, pl := c.R.Intn(13), c.R.Intn(8), c.R.Intn(8185)
			h := aac.ADTSHeader{ObjectType: 2, SamplingFrequencyIndex: byte(sfi), ChannelConfig: byte(ch), HeaderLength: 7,
				PayloadLength: uint16(pl), BufferFullness: 0x7ff}
			data := append(append([]byte{}, junk...), h.Encode()...)
			dreq := "adts.dec " + hx(data)
			dec := execC18(dreq)
			c.Case(dreq, dec)
			want := fmt.Sprintf("0 2 %d %d 7 %d 2047 off=%d", sfi, ch, pl, jl)
			key := ""
			if jl > 0 {
				key = dreq
			}
			c.Eval(key)
			c.Count(fmt.Sprintf("junk.style%d", style%3))
			if dec != want {
				c.Fail("C18-adts-junk-offset", "sync word offset / header wrong when junk precedes the header", dreq, dec, want)
			}
			if jl == 5 && style == 1 {
				c.Sample(dreq + " -> " + dec)
			}
		}
	}
	// beyond the window and no sync at all: both must reject alike
	for i := 0; i < c.N(300, 3000); i++ {
		jl := 186 + c.R.Intn(8)
		junk := bytes.Repeat([]byte{byte(c.R.Intn(255))}, jl)
		h := aac.ADTSHeader{ObjectType: 2, SamplingFrequencyIndex: 3, ChannelConfig: 2, HeaderLength: 7, PayloadLength: 100, BufferFullness: 0x7ff}
		dreq := "adts.dec " + hx(append(junk, h.Encode()...))
		c.Case(dreq, execC18(dreq))
		c.Eval("")
	}
	genC18SyncJunk(c)        // junk made of sync-word fragments (ff runs, ff + near-sync bytes), window edge, no sync at all
	genC18Reencode(c)
	genC18History(c, freqs) // results of earlier encode/decode calls after later calls have been made
	// ---- AAC sample entry: SetAACDescriptor -> esds -> DecSpecificInfo -> ASC
	for _, ot := range []int{2, 5, 29} {
		for _, f := range freqs {
			if f <= 0 || f >= 1<<23 {
				continue
			}
			req := fmt.Sprintf("aacentry %d %d", ot, f)
			var got string
			p := safe(func() { got = aacEntry(byte(ot), f) })
			if p != "" {
				got = p
			}
			wantCh := 2
			if ot == 29 {
				wantCh = 1
			}
			ef := 0
			if ot != 2 {
				ef = 2 * f
			}
			want := fmt.Sprintf("%d %d %d %d %s %s", ot, wantCh, f, ef, b01(ot != 2), b01(ot == 29))
			c.Eval(req)
			c.Count("aacentry")
			if got != want {
				c.Fail("C18-aac-sample-entry", "AAC sample entry does not decode back to its configuration", req, got, want)
			}
		}
	}
	genC18AACSeq(c, freqs) // several AAC sample entries built before any of them is inspected
	genC18AACReset(c, freqs) // SetAACDescriptor called again on a track that already has an AAC sample entry
	genC18Esds(c, freqs)   // esds descriptor model correspondence (c18model.go)
}

// ---- AAC sample entries set again: SetAACDescriptor is called two or three times on the SAME track (a fresh one, or the
// track of an init that was encoded and decoded), each time with another configuration. Whether the library adds a
// further sample entry or replaces the old one is its business; the clause demands that the entry built by the LAST call
// is there and decodes back to that call's configuration - in memory and, through both encoders and both decoders, in
// the written init. (Entries of earlier calls are not demanded.)

// mp4aConfigs lists what every mp4a sample entry of the track's stsd decodes to.
func mp4aConfigs(trak *mp4.TrakBox) []string {
	var out []string
	for _, ch := range trak.Mdia.Minf.Stbl.Stsd.Children {
		e, ok := ch.(*mp4.AudioSampleEntryBox)
		if !ok || e.Type() != "mp4a" {
			continue
		}
		// the esds the entry shows (Esds field) and the esds among its children (what is written / was found)
		all := []*mp4.EsdsBox{}
		if e.Esds != nil {
			all = append(all, e.Esds)
		}
		for _, ec := range e.Children {
			if x, ok := ec.(*mp4.EsdsBox); ok && x != e.Esds {
				all = append(all, x)
			}
		}
		if len(all) == 0 {
			out = append(out, "no-esds")
		}
		for _, esds := range all {
			dsi := esds.DecConfigDescriptor.DecSpecificInfo
			asc, err := aac.DecodeAudioSpecificConfig(bytes.NewReader(dsi.DecConfig))
			if err != nil {
				out = append(out, "err:"+err.Error())
				continue
			}
			out = append(out, fmt.Sprintf("%d %d %d %d %s %s", asc.ObjectType, asc.ChannelConfiguration, asc.SamplingFrequency,
				asc.ExtensionFrequency, b01(asc.SBRPresentFlag), b01(asc.PSPresentFlag)))
		}
	}
	return out
}

func hasCfg(l []string, want string) bool {
	for _, x := range l {
		if x == want {
			return true
		}
	}
	return false
}

// aacResetRun: cfgs[0] is set on a fresh track; when reopen is set the init is then written and decoded (decoder path
// picked by sr) and the remaining calls go to the decoded track. Returns "" or the stage that is wrong.
func aacResetRun(cfgs []aacCfg, reopen, sr, sw bool) (where, got, want string) {
	decode := func(data []byte, useSR bool) (*mp4.File, error) {
		if useSR {
			return mp4.DecodeFileSR(bits.NewFixedSliceReader(data))
		}
		return mp4.DecodeFile(bytes.NewReader(data))
	}
	encode := func(in *mp4.InitSegment, useSW bool) ([]byte, error) {
		if useSW {
			w := bits.NewFixedSliceWriter(int(in.Size()))
			err := in.EncodeSW(w)
			return w.Bytes(), err
		}
		var buf bytes.Buffer
		err := in.Encode(&buf)
		return buf.Bytes(), err
	}
	init := mp4.CreateEmptyInit()
	init.AddEmptyTrack(uint32(cfgs[0].f), "audio", "en")
	trak := init.Moov.Trak
	last := ""
	for k, a := range cfgs {
		if err := trak.SetAACDescriptor(a.ot, a.f); err != nil {
			if k == 0 {
				return "first call", "err:" + err.Error(), a.want()
			}
			// a refused further call builds nothing; what was there must still be there
		} else {
			last = a.want()
		}
		if k == 0 && reopen {
			data, err := encode(init, sw)
			if err != nil {
				return "encode after the first call", "err:" + err.Error(), "bytes"
			}
			file, err := decode(data, sr)
			if err != nil || file.Init == nil || file.Init.Moov.Trak == nil {
				return "decode after the first call", fmt.Sprintf("err:%v", err), "an init with one track"
			}
			init = file.Init
			trak = init.Moov.Trak
		}
	}
	if g := mp4aConfigs(trak); !hasCfg(g, last) {
		return "in memory", strings.Join(g, " | "), last
	}
	for _, useSW := range []bool{false, true} {
		data, err := encode(init, useSW)
		if err != nil {
			return fmt.Sprintf("encode (slice writer %v)", useSW), "err:" + err.Error(), "bytes"
		}
		for _, useSR := range []bool{false, true} {
			file, err := decode(data, useSR)
			if err != nil || file.Init == nil || file.Init.Moov.Trak == nil {
				return fmt.Sprintf("decode (slice writer %v, slice reader %v)", useSW, useSR), fmt.Sprintf("err:%v", err), "an init with one track"
			}
			if g := mp4aConfigs(file.Init.Moov.Trak); !hasCfg(g, last) {
				return fmt.Sprintf("written init (slice writer %v, slice reader %v)", useSW, useSR), strings.Join(g, " | "), last
			}
		}
	}
	return "", "", ""
}

func genC18AACReset(c *Ctx, freqs []int) {
	var dom []aacCfg
	for _, ot := range []byte{2, 5, 29} {
		for _, f := range freqs {
			if f > 0 && f < 1<<23 {
				dom = append(dom, aacCfg{ot, f})
			}
		}
	}
	run := func(cfgs []aacCfg, reopen, sr, sw bool, bucket string) {
		var t []string
		for _, a := range cfgs {
			t = append(t, fmt.Sprintf("%d:%d", a.ot, a.f))
		}
		req := fmt.Sprintf("aacreset reopen=%s sr=%s sw=%s %s", b01(reopen), b01(sr), b01(sw), strings.Join(t, ","))
		var where, got, want string
		if p := safe(func() { where, got, want = aacResetRun(cfgs, reopen, sr, sw) }); p != "" {
			where, got, want = "panic", p, "no panic"
		}
		c.Eval(req)
		c.Count(bucket)
		if where != "" {
			c.Fail("C18-aac-sample-entry-reset", "after SetAACDescriptor was called again on the same track no AAC sample entry decodes back to the configuration of the last call ("+where+")", req, got, want)
		}
	}
	// every ordered pair of object types, over a few table / explicit frequencies, fresh and reopened track
	pick := []int{}
	for _, f := range []int{96000, 48000, 44100, 24000, 22050, 7350} {
		pick = append(pick, f)
	}
	for _, o1 := range []byte{2, 5, 29} {
		for _, o2 := range []byte{2, 5, 29} {
			for i, f1 := range pick {
				f2 := pick[(i+1)%len(pick)]
				for _, reopen := range []bool{false, true} {
					run([]aacCfg{{o1, f1}, {o2, f2}}, reopen, i%2 == 0, i%3 == 0, "aacreset.pairs")
					if o1 != o2 {
						run([]aacCfg{{o1, f1}, {o2, f1}}, reopen, i%2 == 1, i%3 == 1, "aacreset.pairs")
					}
				}
			}
		}
	}
	// random histories of two or three calls over the whole domain
	for i := 0; i < c.N(300, 5000); i++ {
		n := 2 + c.R.Intn(2)
		cfgs := make([]aacCfg, n)
		for k := range cfgs {
			cfgs[k] = dom[c.R.Intn(len(dom))]
			for k > 0 && cfgs[k] == cfgs[k-1] {
				cfgs[k] = dom[c.R.Intn(len(dom))]
			}
		}
		run(cfgs, c.R.Intn(2) == 0, c.R.Intn(2) == 0, c.R.Intn(2) == 0, "aacreset.random")
		if i == 0 {
			c.Sample(fmt.Sprintf("aacreset %v", cfgs))
		}
	}
}

// ---- AAC sample entries in sequences: the clause "an AAC sample entry built from a configuration decodes back to that
// configuration" holds for every entry an application builds, not only for the one built last. A sequence is a list of
// configurations spread over one or more init segments (tracks of a multi-track init, or the next init); ALL
// SetAACDescriptor calls are made first, then every entry is inspected in memory, then every init is encoded, decoded and
// every entry inspected again.

type aacCfg struct {
	ot byte
	f  int
}

func (a aacCfg) want() string {
	ch, ef := 2, 0
	if a.ot == 29 {
		ch = 1
	}
	if a.ot != 2 {
		ef = 2 * a.f
	}
	return fmt.Sprintf("%d %d %d %d %s %s", a.ot, ch, a.f, ef, b01(a.ot != 2), b01(a.ot == 29))
}

func aacSeqLine(seq [][]aacCfg) string {
	var inits []string
	for _, in := range seq {
		var t []string
		for _, a := range in {
			t = append(t, fmt.Sprintf("%d:%d", a.ot, a.f))
		}
		inits = append(inits, strings.Join(t, ","))
	}
	return "aacseq " + strings.Join(inits, "|")
}

func ascOfTrak(trak *mp4.TrakBox) string {
	stsd := trak.Mdia.Minf.Stbl.Stsd
	if stsd.Mp4a == nil || stsd.Mp4a.Esds == nil {
		return "no-esds"
	}
	dsi := stsd.Mp4a.Esds.DecConfigDescriptor.DecSpecificInfo
	asc, err := aac.DecodeAudioSpecificConfig(bytes.NewReader(dsi.DecConfig))
	if err != nil {
		return "err:" + err.Error() + " decConfig=" + hx(dsi.DecConfig)
	}
	return fmt.Sprintf("%d %d %d %d %s %s", asc.ObjectType, asc.ChannelConfiguration, asc.SamplingFrequency,
		asc.ExtensionFrequency, b01(asc.SBRPresentFlag), b01(asc.PSPresentFlag))
}

// aacSeqRun builds the whole sequence, then inspects. Returns "" or (stage, got, want) of the first entry that is wrong.
func aacSeqRun(seq [][]aacCfg) (where, got, want string) {
	inits := make([]*mp4.InitSegment, len(seq))
	for i, in := range seq {
		inits[i] = mp4.CreateEmptyInit()
		for j, a := range in {
			inits[i].AddEmptyTrack(uint32(a.f), "audio", "en")
			if err := inits[i].Moov.Traks[j].SetAACDescriptor(a.ot, a.f); err != nil {
				return fmt.Sprintf("build init %d track %d", i+1, j+1), "err:" + err.Error(), a.want()
			}
		}
	}
	for i, in := range seq {
		for j, a := range in {
			if g := ascOfTrak(inits[i].Moov.Traks[j]); g != a.want() {
				return fmt.Sprintf("in memory, init %d track %d of %d", i+1, j+1, len(in)), g, a.want()
			}
		}
	}
	for i, in := range seq {
		var buf bytes.Buffer
		if err := inits[i].Encode(&buf); err != nil {
			return fmt.Sprintf("encode init %d", i+1), "err:" + err.Error(), "bytes"
		}
		file, err := mp4.DecodeFile(bytes.NewReader(buf.Bytes()))
		if err != nil || file.Init == nil || len(file.Init.Moov.Traks) != len(in) {
			return fmt.Sprintf("decode init %d", i+1), fmt.Sprintf("err:%v", err), fmt.Sprintf("%d tracks", len(in))
		}
		for j, a := range in {
			if g := ascOfTrak(file.Init.Moov.Traks[j]); g != a.want() {
				return fmt.Sprintf("decoded, init %d track %d of %d", i+1, j+1, len(in)), g, a.want()
			}
		}
	}
	return "", "", ""
}

func genC18AACSeq(c *Ctx, freqs []int) {
	var dom []aacCfg
	for _, ot := range []byte{2, 5, 29} {
		for _, f := range freqs {
			if f > 0 && f < 1<<23 {
				dom = append(dom, aacCfg{ot, f})
			}
		}
	}
	run := func(seq [][]aacCfg, bucket string) {
		req := aacSeqLine(seq)
		var where, got, want string
		if p := safe(func() { where, got, want = aacSeqRun(seq) }); p != "" {
			where, got, want = "panic", p, "no panic"
		}
		c.Eval(req)
		c.Count(bucket)
		if where != "" {
			c.Fail("C18-aac-sample-entry-sequence", "an AAC sample entry no longer decodes back to its configuration once further AAC sample entries have been built ("+where+")", req, got, want)
		}
	}
	// the complete domain as the tracks of one init (both orders), and as one init per configuration
	rev := make([]aacCfg, len(dom))
	single := make([][]aacCfg, len(dom))
	for i, a := range dom {
		rev[len(dom)-1-i] = a
		single[i] = []aacCfg{a}
	}
	run([][]aacCfg{dom}, "aacseq.domain")
	run([][]aacCfg{rev}, "aacseq.domain")
	run(single, "aacseq.domain")
	// random sequences: 2..8 configurations, each either a further track of the current init or the first track of a new one
	for i := 0; i < c.N(400, 6000); i++ {
		n := 2 + c.R.Intn(7)
		seq := [][]aacCfg{{}}
		for k := 0; k < n; k++ {
			if k > 0 && c.R.Intn(3) == 0 {
				seq = append(seq, []aacCfg{})
			}
			seq[len(seq)-1] = append(seq[len(seq)-1], dom[c.R.Intn(len(dom))])
		}
		run(seq, "aacseq.random")
		if i == 0 {
			c.Sample(aacSeqLine(seq))
		}
	}
}

func aacEntry(ot byte, f int) string {
	init := mp4.CreateEmptyInit()
	init.AddEmptyTrack(uint32(f), "audio", "en")
	trak := init.Moov.Trak
	if err := trak.SetAACDescriptor(ot, f); err != nil {
		return "err:" + err.Error()
	}
	var buf bytes.Buffer
	if err := init.Encode(&buf); err != nil {
		return "err:" + err.Error()
	}
	file, err := mp4.DecodeFile(bytes.NewReader(buf.Bytes()))
	if err != nil {
		return "err:" + err.Error()
	}
	stsd := file.Init.Moov.Trak.Mdia.Minf.Stbl.Stsd
	if stsd.Mp4a == nil || stsd.Mp4a.Esds == nil {
		return "no-esds"
	}
	dsi := stsd.Mp4a.Esds.DecConfigDescriptor.DecSpecificInfo
	asc, err := aac.DecodeAudioSpecificConfig(bytes.NewReader(dsi.DecConfig))
	if err != nil {
		return "err:" + err.Error()
	}
	return fmt.Sprintf("%d %d %d %d %s %s", asc.ObjectType, asc.ChannelConfiguration, asc.SamplingFrequency,
		asc.ExtensionFrequency, b01(asc.SBRPresentFlag), b01(asc.PSPresentFlag))
}

// ---- the sync search on junk that is made of sync-word fragments. The property's window is 0..187 junk bytes of ANY
// content that does not itself contain a sync word (ff, then fx with layer bits 00); the bytes that matter to the search
// are exactly the ones that look like the beginning of a sync word: 0xff (also in runs, also as the last junk byte right
// in front of the real sync word) and 0xff followed by a byte that is almost a sync second byte. Every family is run for
// EVERY junk length 0..187 (direct oracle: header and offset) and on the model; past the window (188..) and without any
// sync word there is no oracle beyond "terminates", model and code must classify alike.

// all second bytes x such that (ff, x) is not a sync word; the near misses first
func c18NearSyncSeconds() (near, all []byte) {
	for x := 0; x < 256; x++ {
		b := byte(x)
		if b>>4 == 0xf && (b>>1)&3 == 0 {
			continue
		}
		all = append(all, b)
		if b>>4 == 0xf || b>>4 == 0xe || b == 0x7f {
			near = append(near, b)
		}
	}
	return
}

var c18JunkFamilies = []string{"ff-run", "ends-ff", "ends-ffff", "ff-pairs", "ff-dense", "tail-ff-run"}

func c18SyncJunk(c *Ctx, fam string, jl int) []byte {
	near, _ := c18NearSyncSeconds()
	junk := make([]byte, jl)
	nonff := func() byte { return byte(c.R.Intn(255)) }
	switch fam {
	case "ff-run":
		for k := range junk {
			junk[k] = 0xff
		}
	case "ends-ff", "ends-ffff":
		for k := range junk {
			junk[k] = nonff()
		}
		n := 1
		if fam == "ends-ffff" {
			n = 2
		}
		for k := jl - n; k < jl; k++ {
			if k >= 0 {
				junk[k] = 0xff
			}
		}
	case "ff-pairs": // ff x ff x ..., optionally shifted by one byte
		shift := c.R.Intn(2)
		for k := range junk {
			if (k+shift)%2 == 0 {
				junk[k] = 0xff
			} else {
				junk[k] = near[c.R.Intn(len(near))]
			}
		}
	case "ff-dense":
		for k := range junk {
			if c.R.Intn(2) == 0 {
				junk[k] = 0xff
			} else {
				junk[k] = near[c.R.Intn(len(near))]
			}
		}
	case "tail-ff-run":
		for k := range junk {
			junk[k] = byte(c.R.Intn(256))
		}
		run := 1 + c.R.Intn(8)
		for k := jl - run; k < jl; k++ {
			if k >= 0 {
				junk[k] = 0xff
			}
		}
	}
	// no sync word inside the junk: ff followed by fx with layer bits 00 gets layer bits 11
	for k := 0; k+1 < len(junk); k++ {
		if junk[k] == 0xff && junk[k+1]>>4 == 0xf && (junk[k+1]>>1)&3 == 0 {
			junk[k+1] |= 0x06
		}
	}
	return junk
}

func genC18SyncJunk(c *Ctx) {
	c.Note("ADTS sync search: junk families " + strings.Join(c18JunkFamilies, ", ") + " x every junk length 0..187 (oracle + model), lengths 188..200 and streams without any sync word (model)")
	hang := func(req, ans string) bool {
		if ans == "timeout" {
			c.Fail("C18-adts-sync-search-hangs", "DecodeADTSHeader does not return within 30 s", req, ans, "an answer")
			return true
		}
		return false
	}
	for _, fam := range c18JunkFamilies {
		for jl := 0; jl <= 200; jl++ {
			for rep := 0; rep < c.N(1, 6); rep++ {
				junk := c18SyncJunk(c, fam, jl)
				sfi, ch, pl := c.R.Intn(13), c.R.Intn(8), c.R.Intn(8185)
				h := aac.ADTSHeader{ObjectType: 2, SamplingFrequencyIndex: byte(sfi), ChannelConfig: byte(ch), HeaderLength: 7,
					PayloadLength: uint16(pl), BufferFullness: 0x7ff}
				data := append(append([]byte{}, junk...), h.Encode()...)
				if c.R.Intn(3) == 0 {
					data = append(data, byte(c.R.Intn(256)), 0xff, 0xf1) // what follows the header is not looked at
				}
				dreq := "adts.dec " + hx(data)
				dec := execC18(dreq)
				c.Case(dreq, dec)
				if hang(dreq, dec) {
					continue
				}
				if jl > 187 {
					c.Eval("")
					c.Count("junk.beyond-window." + fam)
					continue
				}
				c.Eval(dreq)
				c.Count("junk." + fam)
				want := fmt.Sprintf("0 2 %d %d 7 %d 2047 off=%d", sfi, ch, pl, jl)
				if dec != want {
					c.Fail("C18-adts-junk-offset", "sync word offset / header wrong when junk precedes the header (junk family "+fam+")", dreq, dec, want)
				}
				if jl == 6 && rep == 0 && fam == "ff-dense" {
					c.Sample(dreq + " -> " + dec)
				}
			}
		}
		// no sync word at all: shorter than, equal to and longer than the window
		for _, n := range []int{0, 1, 2, 3, 7, 8, 9, 100, 186, 187, 188, 189, 190, 191, 200, 376, 377, 400} {
			junk := c18SyncJunk(c, fam, n)
			dreq := "adts.dec " + hx(junk)
			dec := execC18(dreq)
			c.Case(dreq, dec)
			hang(dreq, dec)
			c.Eval("")
			c.Count("junk.no-sync")
		}
	}
}

// ---- histories: the round trip Decode(Encode(x)) == x is stated for every x, not only for the x encoded last. An
// application encodes a number of headers / configurations (one ADTS header per AAC frame) and uses the results
// afterwards; likewise it keeps decoded values. The "hist" request executes its sub-requests in order, holds every
// result and renders them all at the end. Oracle: every held encoding still decodes to its own value, every held decoded
// value is still the value that was decoded. The model answers every sub-request on its own (pure functions).

func genC18History(c *Ctx, freqs []int) {
	type sub struct {
		req, kind, want string // want = the decoded form of the value
	}
	adtsEnc := func(ot, sfi, ch, pl, bf int) sub {
		return sub{fmt.Sprintf("adts.enc %d %d %d %d %d", ot, sfi, ch, pl, bf), "adts-encode",
			fmt.Sprintf("0 %d %d %d 7 %d %d off=0", ot, sfi, ch, pl, bf)}
	}
	ascEnc := func(ot, ch, f, ef int) sub {
		return sub{fmt.Sprintf("asc.enc %d %d %d %d", ot, ch, f, ef), "asc-encode",
			fmt.Sprintf("%d %d %d %d %s %s", ot, ch, f, ef, b01(ot != 2), b01(ot == 29))}
	}
	randSub := func() sub {
		var s sub
		switch c.R.Intn(2) {
		case 0:
			s = adtsEnc(1+c.R.Intn(4), c.R.Intn(16), c.R.Intn(8), c.R.Intn(8185), c.R.Intn(2048))
		default:
			ot := []int{2, 5, 29}[c.R.Intn(3)]
			f := freqs[c.R.Intn(len(freqs))]
			ef := 0
			if ot != 2 {
				ef = []int{2 * f % (1 << 24), tableFreqs[c.R.Intn(13)], f}[c.R.Intn(3)]
			}
			s = ascEnc(ot, c.R.Intn(16), f, ef)
		}
		if c.R.Intn(3) == 0 { // the decoder on a fresh encoding of the value (its result is held instead)
			enc := execC18(s.req)
			if s.kind == "adts-encode" {
				return sub{"adts.dec " + enc, "adts-decode", s.want}
			}
			return sub{"asc.dec " + enc, "asc-decode", s.want}
		}
		return s
	}
	run := func(subs []sub, bucket string) {
		var reqs []string
		for _, s := range subs {
			reqs = append(reqs, s.req)
		}
		req := "hist " + strings.Join(reqs, " | ")
		ans := execC18(req)
		c.Case(req, ans)
		c.Eval(req)
		c.Count(bucket)
		if ans == "timeout" {
			c.Fail("C18-adts-sync-search-hangs", "DecodeADTSHeader does not return within 30 s", req, ans, "an answer")
			return
		}
		late := strings.Split(ans, " | ")
		if len(late) != len(subs) {
			c.Fail("C18-history", "a sequence of encode/decode calls fails", req, ans, fmt.Sprintf("%d results", len(subs)))
			return
		}
		for i, s := range subs {
			got := late[i]
			switch s.kind {
			case "adts-encode":
				got = execC18("adts.dec " + late[i])
			case "asc-encode":
				got = execC18("asc.dec " + late[i])
			}
			if got != s.want {
				c.Fail("C18-"+s.kind+"-history", fmt.Sprintf("result %d of %d (%s) no longer is/decodes to its value once the later calls have been made", i+1, len(subs), s.req),
					req, late[i]+" -> "+got, s.want)
				return
			}
		}
	}
	// the whole ADTS index x channel grid encoded in one go, then all inspected; likewise a grid of configurations
	var grid []sub
	for sfi := 0; sfi < 13; sfi++ {
		for ch := 0; ch < 8; ch++ {
			grid = append(grid, adtsEnc(2, sfi, ch, (sfi*8+ch)*79%8185, 0x7ff))
		}
	}
	run(grid, "hist.adts-grid")
	grid = nil
	for _, ot := range []int{2, 5, 29} {
		for ch := 0; ch < 16; ch++ {
			f := freqs[(ch*5+ot)%len(freqs)]
			ef := 0
			if ot != 2 {
				ef = 2 * f % (1 << 24)
			}
			grid = append(grid, ascEnc(ot, ch, f, ef))
		}
	}
	run(grid, "hist.asc-grid")
	for i := 0; i < c.N(1500, 20000); i++ {
		n := 2 + c.R.Intn(7)
		subs := make([]sub, n)
		for k := range subs {
			subs[k] = randSub()
		}
		if i%4 == 0 { // same kind throughout (one header per frame)
			for k := range subs {
				subs[k] = adtsEnc(2, c.R.Intn(13), c.R.Intn(8), c.R.Intn(8185), 0x7ff)
			}
		}
		run(subs, "hist.random")
		if i == 0 {
			c.Sample("hist " + subs[0].req + " | " + subs[1].req + " ...")
		}
	}
}
