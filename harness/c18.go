package main

import (
	"bytes"
	"fmt"
	"strconv"
	"strings"

	"github.com/Eyevinn/mp4ff/aac"
	"github.com/Eyevinn/mp4ff/mp4"
)

func init() {
	props["C18"] = &propDef{
		rule: "cases = the complete grid of AudioSpecificConfig values the library supports (13 table + 64 explicit 24-bit frequencies incl. 1, 2^24-1 and table neighbours x 16 channel configurations x object types 2/5/29 x extension frequencies), every ADTS header (13 indices x 8 channel configs x payload 0..8184), ADTS junk prefixes 0..187 bytes (random and ff-heavy), AAC sample entries via SetAACDescriptor, alone and in sequences (several tracks of one init / successive inits, all built before any is inspected or encoded); non-trivial = distinct case with an explicit frequency, or a payload >= 4089, or a non-empty junk prefix, or an HE-AAC object type",
		gen:  genC18,
		exec: execC18,
	}
}

func execC18(req string) string {
	f := strings.Fields(req)
	if len(f) == 0 {
		return ""
	}
	var out string
	p := safe(func() { out = execC18Inner(f[0], f[1:]) })
	if p != "" {
		return p
	}
	return out
}

func atoi(s string) int { v, _ := strconv.Atoi(s); return v }

func execC18Inner(op string, a []string) string {
	switch op {
	case "asc.enc":
		asc := &aac.AudioSpecificConfig{ObjectType: byte(atoi(a[0])), ChannelConfiguration: byte(atoi(a[1])),
			SamplingFrequency: atoi(a[2]), ExtensionFrequency: atoi(a[3])}
		var buf bytes.Buffer
		if err := asc.Encode(&buf); err != nil {
			return "err"
		}
		return hx(buf.Bytes())
	case "asc.dec":
		d, _ := unhx(a[0])
		asc, err := aac.DecodeAudioSpecificConfig(bytes.NewReader(d))
		if err != nil {
			return "err"
		}
		return fmt.Sprintf("%d %d %d %d %s %s", asc.ObjectType, asc.ChannelConfiguration, asc.SamplingFrequency,
			asc.ExtensionFrequency, b01(asc.SBRPresentFlag), b01(asc.PSPresentFlag))
	case "adts.enc":
		h := aac.ADTSHeader{ObjectType: byte(atoi(a[0])), SamplingFrequencyIndex: byte(atoi(a[1])), ChannelConfig: byte(atoi(a[2])),
			HeaderLength: 7, PayloadLength: uint16(atoi(a[3])), BufferFullness: uint16(atoi(a[4]))}
		return hx(h.Encode())
	case "adts.dec":
		d, _ := unhx(a[0])
		h, off, err := aac.DecodeADTSHeader(bytes.NewReader(d))
		if err != nil {
			return "err"
		}
		return fmt.Sprintf("%d %d %d %d %d %d %d off=%d", h.ID, h.ObjectType, h.SamplingFrequencyIndex, h.ChannelConfig, h.HeaderLength,
			h.PayloadLength, h.BufferFullness, off)
	}
	return "bad-op"
}

var tableFreqs = []int{96000, 88200, 64000, 48000, 44100, 32000, 24000, 22050, 16000, 12000, 11025, 8000, 7350}

func genC18(c *Ctx) {
	// ---- ASC grid
	freqs := append([]int{}, tableFreqs...)
	explicit := []int{1, 2, 7349, 7351, 44099, 44101, 95999, 96001, 100000, 192000, 1 << 16, 1<<24 - 1, 1<<24 - 2, 1 << 23, 0}
	for len(explicit) < 64 {
		f := c.R.Intn(1 << 24)
		explicit = append(explicit, f)
	}
	freqs = append(freqs, explicit...)
	isTable := func(f int) bool {
		for _, t := range tableFreqs {
			if t == f {
				return true
			}
		}
		return false
	}
	c.St.Exhaustive = true
	c.Note("ASC grid: 77 sampling frequencies x 16 channel configs x {2,5,29} x extension frequency {2f (as SetAACDescriptor), each table value, explicit values}; ADTS: all 13x8x8185 headers")
	for _, ot := range []int{2, 5, 29} {
		for ch := 0; ch < 16; ch++ {
			for _, f := range freqs {
				exts := []int{0}
				if ot != 2 {
					exts = []int{2 * f % (1 << 24), tableFreqs[c.R.Intn(13)], explicit[c.R.Intn(len(explicit))], f}
				}
				for _, ef := range exts {
					req := fmt.Sprintf("asc.enc %d %d %d %d", ot, ch, f, ef)
					enc := execC18(req)
					c.Case(req, enc)
					dreq := "asc.dec " + enc
					dec := execC18(dreq)
					c.Case(dreq, dec)
					want := fmt.Sprintf("%d %d %d %d %s %s", ot, ch, f, ef, b01(ot != 2), b01(ot == 29))
					key := ""
					if !isTable(f) || ot != 2 {
						key = req
					}
					c.Eval(key)
					c.Count(fmt.Sprintf("asc.ot%d", ot))
					if dec != want {
						c.Fail("C18-asc-roundtrip", "DecodeAudioSpecificConfig(Encode(cfg)) != cfg", req, dec, want)
					}
					if ch == 2 && ot == 5 && f == 44100 && ef == 88200 {
						c.Sample(req + " -> " + enc + " -> " + dec)
					}
				}
			}
		}
	}
	// unsupported object types must be rejected by both
	for _, ot := range []int{0, 1, 3, 4, 6, 28, 30, 31} {
		req := fmt.Sprintf("asc.enc %d 2 48000 0", ot)
		c.Case(req, execC18(req))
		c.Eval("")
	}
	// arbitrary bytes into the ASC decoder (model must agree on accept/reject and values)
	for i := 0; i < c.N(4000, 60000); i++ {
		n := c.R.Intn(10)
		d := make([]byte, n)
		c.R.Read(d)
		if n > 0 && c.R.Intn(2) == 0 {
			d[0] = []byte{0x10, 0x11, 0x12, 0x13, 0x17, 0x28, 0x2b, 0x2f, 0xe9, 0xef}[c.R.Intn(10)]
		}
		req := "asc.dec " + hx(d)
		c.Case(req, execC18(req))
		c.Eval("")
		c.Count("asc.dec-arbitrary")
	}

	// ---- ADTS: full header grid (direct oracle on all; model correspondence on a slice of it)
	for sfi := 0; sfi < 13; sfi++ {
		for ch := 0; ch < 8; ch++ {
			modelThis := (sfi*8+ch)%c.N(13, 3) == 0
			for pl := 0; pl <= 8184; pl++ {
				h := aac.ADTSHeader{ObjectType: 2, SamplingFrequencyIndex: byte(sfi), ChannelConfig: byte(ch), HeaderLength: 7,
					PayloadLength: uint16(pl), BufferFullness: 0x7ff}
				enc := h.Encode()
				got, off, err := aac.DecodeADTSHeader(bytes.NewReader(enc))
				key := ""
				if pl >= 4089 {
					key = fmt.Sprintf("adts %d %d %d", sfi, ch, pl)
				}
				c.Eval(key)
				if err != nil || off != 0 || *got != h {
					c.Fail("C18-adts-roundtrip", "DecodeADTSHeader(Encode(h)) != h", fmt.Sprintf("adts.enc 2 %d %d %d 2047", sfi, ch, pl), fmt.Sprintf("%v off=%d err=%v", got, off, err), fmt.Sprintf("%v", h))
				}
				if modelThis || pl%512 == 0 || pl >= 8180 {
					req := fmt.Sprintf("adts.enc 2 %d %d %d 2047", sfi, ch, pl)
					c.Case(req, hx(enc))
					dreq := "adts.dec " + hx(enc)
					c.Case(dreq, execC18(dreq))
				}
			}
			c.Count("adts.grid")
		}
	}
	// other object types / buffer fullness values
	for i := 0; i < c.N(3000, 40000); i++ {
		ot := 1 + c.R.Intn(4)
		sfi := c.R.Intn(16)
		ch := c.R.Intn(8)
		pl := c.R.Intn(8185)
		bf := c.R.Intn(2048)
		req := fmt.Sprintf("adts.enc %d %d %d %d %d", ot, sfi, ch, pl, bf)
		enc := execC18(req)
		c.Case(req, enc)
		dreq := "adts.dec " + enc
		dec := execC18(dreq)
		c.Case(dreq, dec)
		want := fmt.Sprintf("0 %d %d %d 7 %d %d off=0", ot, sfi, ch, pl, bf)
		c.Eval(req)
		if dec != want {
			c.Fail("C18-adts-roundtrip", "DecodeADTSHeader(Encode(h)) != h", req, dec, want)
		}
	}
	// junk prefixes: every length 0..187, several junk styles
	for jl := 0; jl <= 187; jl++ {
		for style := 0; style < c.N(6, 40); style++ {
			junk := make([]byte, jl)
			for k := range junk {
				switch style % 3 {
				case 0:
					junk[k] = byte(c.R.Intn(255)) // never ff
				case 1:
					junk[k] = []byte{0xff, 0xff, 0x47, 0xfe, 0xe0, 0x0f}[c.R.Intn(6)]
				default:
					junk[k] = byte(c.R.Intn(256))
				}
			}
			// remove false syncs: ff followed by fx with layer 0
			for k := 0; k+1 < len(junk); k++ {
				if junk[k] == 0xff && junk[k+1]>>4 == 0xf && (junk[k+1]>>1)&3 == 0 {
					junk[k+1] |= 0x06
				}
			}
			sfi, ch, pl := c.R.Intn(13), c.R.Intn(8), c.R.Intn(8185)
			h := aac.ADTSHeader{ObjectType: 2, SamplingFrequencyIndex: byte(sfi), ChannelConfig: byte(ch), HeaderLength: 7,
				PayloadLength: uint16(pl), BufferFullness: 0x7ff}
			data := append(append([]byte{}, junk...), h.Encode()...)
			dreq := "adts.dec " + hx(data)
			dec := execC18(dreq)
			c.Case(dreq, dec)
			want := fmt.Sprintf("0 2 %d %d 7 %d 2047 off=%d", sfi, ch, pl, jl)
			key := ""
			if jl > 0 {
				key = dreq
			}
			c.Eval(key)
			c.Count(fmt.Sprintf("junk.style%d", style%3))
			if dec != want {
				c.Fail("C18-adts-junk-offset", "sync word offset / header wrong when junk precedes the header", dreq, dec, want)
			}
			if jl == 5 && style == 1 {
				c.Sample(dreq + " -> " + dec)
			}
		}
	}
	// beyond the window and no sync at all: both must reject alike
	for i := 0; i < c.N(300, 3000); i++ {
		jl := 186 + c.R.Intn(8)
		junk := bytes.Repeat([]byte{byte(c.R.Intn(255))}, jl)
		h := aac.ADTSHeader{ObjectType: 2, SamplingFrequencyIndex: 3, ChannelConfig: 2, HeaderLength: 7, PayloadLength: 100, BufferFullness: 0x7ff}
		dreq := "adts.dec " + hx(append(junk, h.Encode()...))
		c.Case(dreq, execC18(dreq))
		c.Eval("")
	}
	// ---- AAC sample entry: SetAACDescriptor -> esds -> DecSpecificInfo -> ASC
	for _, ot := range []int{2, 5, 29} {
		for _, f := range freqs {
			if f <= 0 || f >= 1<<23 {
				continue
			}
			req := fmt.Sprintf("aacentry %d %d", ot, f)
			var got string
			p := safe(func() { got = aacEntry(byte(ot), f) })
			if p != "" {
				got = p
			}
			wantCh := 2
			if ot == 29 {
				wantCh = 1
			}
			ef := 0
			if ot != 2 {
				ef = 2 * f
			}
			want := fmt.Sprintf("%d %d %d %d %s %s", ot, wantCh, f, ef, b01(ot != 2), b01(ot == 29))
			c.Eval(req)
			c.Count("aacentry")
			if got != want {
				c.Fail("C18-aac-sample-entry", "AAC sample entry does not decode back to its configuration", req, got, want)
			}
		}
	}
	genC18AACSeq(c, freqs) // several AAC sample entries built before any of them is inspected
	genC18Esds(c, freqs)   // esds descriptor model correspondence (c18model.go)
}

// ---- AAC sample entries in sequences: the clause "an AAC sample entry built from a configuration decodes back to that
// configuration" holds for every entry an application builds, not only for the one built last. A sequence is a list of
// configurations spread over one or more init segments (tracks of a multi-track init, or the next init); ALL
// SetAACDescriptor calls are made first, then every entry is inspected in memory, then every init is encoded, decoded and
// every entry inspected again.

type aacCfg struct {
	ot byte
	f  int
}

func (a aacCfg) want() string {
	ch, ef := 2, 0
	if a.ot == 29 {
		ch = 1
	}
	if a.ot != 2 {
		ef = 2 * a.f
	}
	return fmt.Sprintf("%d %d %d %d %s %s", a.ot, ch, a.f, ef, b01(a.ot != 2), b01(a.ot == 29))
}

func aacSeqLine(seq [][]aacCfg) string {
	var inits []string
	for _, in := range seq {
		var t []string
		for _, a := range in {
			t = append(t, fmt.Sprintf("%d:%d", a.ot, a.f))
		}
		inits = append(inits, strings.Join(t, ","))
	}
	return "aacseq " + strings.Join(inits, "|")
}

func ascOfTrak(trak *mp4.TrakBox) string {
	stsd := trak.Mdia.Minf.Stbl.Stsd
	if stsd.Mp4a == nil || stsd.Mp4a.Esds == nil {
		return "no-esds"
	}
	dsi := stsd.Mp4a.Esds.DecConfigDescriptor.DecSpecificInfo
	asc, err := aac.DecodeAudioSpecificConfig(bytes.NewReader(dsi.DecConfig))
	if err != nil {
		return "err:" + err.Error() + " decConfig=" + hx(dsi.DecConfig)
	}
	return fmt.Sprintf("%d %d %d %d %s %s", asc.ObjectType, asc.ChannelConfiguration, asc.SamplingFrequency,
		asc.ExtensionFrequency, b01(asc.SBRPresentFlag), b01(asc.PSPresentFlag))
}

// aacSeqRun builds the whole sequence, then inspects. Returns "" or (stage, got, want) of the first entry that is wrong.
func aacSeqRun(seq [][]aacCfg) (where, got, want string) {
	inits := make([]*mp4.InitSegment, len(seq))
	for i, in := range seq {
		inits[i] = mp4.CreateEmptyInit()
		for j, a := range in {
			inits[i].AddEmptyTrack(uint32(a.f), "audio", "en")
			if err := inits[i].Moov.Traks[j].SetAACDescriptor(a.ot, a.f); err != nil {
				return fmt.Sprintf("build init %d track %d", i+1, j+1), "err:" + err.Error(), a.want()
			}
		}
	}
	for i, in := range seq {
		for j, a := range in {
			if g := ascOfTrak(inits[i].Moov.Traks[j]); g != a.want() {
				return fmt.Sprintf("in memory, init %d track %d of %d", i+1, j+1, len(in)), g, a.want()
			}
		}
	}
	for i, in := range seq {
		var buf bytes.Buffer
		if err := inits[i].Encode(&buf); err != nil {
			return fmt.Sprintf("encode init %d", i+1), "err:" + err.Error(), "bytes"
		}
		file, err := mp4.DecodeFile(bytes.NewReader(buf.Bytes()))
		if err != nil || file.Init == nil || len(file.Init.Moov.Traks) != len(in) {
			return fmt.Sprintf("decode init %d", i+1), fmt.Sprintf("err:%v", err), fmt.Sprintf("%d tracks", len(in))
		}
		for j, a := range in {
			if g := ascOfTrak(file.Init.Moov.Traks[j]); g != a.want() {
				return fmt.Sprintf("decoded, init %d track %d of %d", i+1, j+1, len(in)), g, a.want()
			}
		}
	}
	return "", "", ""
}

func genC18AACSeq(c *Ctx, freqs []int) {
	var dom []aacCfg
	for _, ot := range []byte{2, 5, 29} {
		for _, f := range freqs {
			if f > 0 && f < 1<<23 {
				dom = append(dom, aacCfg{ot, f})
			}
		}
	}
	run := func(seq [][]aacCfg, bucket string) {
		req := aacSeqLine(seq)
		var where, got, want string
		if p := safe(func() { where, got, want = aacSeqRun(seq) }); p != "" {
			where, got, want = "panic", p, "no panic"
		}
		c.Eval(req)
		c.Count(bucket)
		if where != "" {
			c.Fail("C18-aac-sample-entry-sequence", "an AAC sample entry no longer decodes back to its configuration once further AAC sample entries have been built ("+where+")", req, got, want)
		}
	}
	// the complete domain as the tracks of one init (both orders), and as one init per configuration
	rev := make([]aacCfg, len(dom))
	single := make([][]aacCfg, len(dom))
	for i, a := range dom {
		rev[len(dom)-1-i] = a
		single[i] = []aacCfg{a}
	}
	run([][]aacCfg{dom}, "aacseq.domain")
	run([][]aacCfg{rev}, "aacseq.domain")
	run(single, "aacseq.domain")
	// random sequences: 2..8 configurations, each either a further track of the current init or the first track of a new one
	for i := 0; i < c.N(400, 6000); i++ {
		n := 2 + c.R.Intn(7)
		seq := [][]aacCfg{{}}
		for k := 0; k < n; k++ {
			if k > 0 && c.R.Intn(3) == 0 {
				seq = append(seq, []aacCfg{})
			}
			seq[len(seq)-1] = append(seq[len(seq)-1], dom[c.R.Intn(len(dom))])
		}
		run(seq, "aacseq.random")
		if i == 0 {
			c.Sample(aacSeqLine(seq))
		}
	}
}

func aacEntry(ot byte, f int) string {
	init := mp4.CreateEmptyInit()
	init.AddEmptyTrack(uint32(f), "audio", "en")
	trak := init.Moov.Trak
	if err := trak.SetAACDescriptor(ot, f); err != nil {
		return "err:" + err.Error()
	}
	var buf bytes.Buffer
	if err := init.Encode(&buf); err != nil {
		return "err:" + err.Error()
	}
	file, err := mp4.DecodeFile(bytes.NewReader(buf.Bytes()))
	if err != nil {
		return "err:" + err.Error()
	}
	stsd := file.Init.Moov.Trak.Mdia.Minf.Stbl.Stsd
	if stsd.Mp4a == nil || stsd.Mp4a.Esds == nil {
		return "no-esds"
	}
	dsi := stsd.Mp4a.Esds.DecConfigDescriptor.DecSpecificInfo
	asc, err := aac.DecodeAudioSpecificConfig(bytes.NewReader(dsi.DecConfig))
	if err != nil {
		return "err:" + err.Error()
	}
	return fmt.Sprintf("%d %d %d %d %s %s", asc.ObjectType, asc.ChannelConfiguration, asc.SamplingFrequency,
		asc.ExtensionFrequency, b01(asc.SBRPresentFlag), b01(asc.PSPresentFlag))
}
