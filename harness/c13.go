package main

import (
	"bytes"
	"fmt"
	"strconv"
	"strings"

	"github.com/Eyevinn/mp4ff/bits"
)

func init() {
	props["C13"] = &propDef{
		rule: "cases = (a) every byte string over {00,01,02,03,7f} up to the tier's length through EBSPWriter.Write(b,8) and EBSPReader (exhaustive), (b) random width/value/ue/se/flag sequences written by Writer, FixedSliceWriter and EBSPWriter and read back by Reader/EBSPReader; non-trivial = distinct request whose escaped output differs from the plain bytes or which contains an Exp-Golomb code of >= 3 bits or a field of >= 9 bits",
		gen:  genC13,
		exec: execC13,
	}
}

func execC13(req string) string {
	f := strings.Fields(req)
	if len(f) == 0 {
		return ""
	}
	var out string
	p := safe(func() { out = execC13Inner(f[0], f[1:]) })
	if p != "" {
		return p
	}
	return out
}

func u(s string) uint {
	v, err := strconv.ParseUint(s, 10, 64)
	if err != nil {
		panic("bad-op")
	}
	return uint(v)
}

func execC13Inner(op string, a []string) string {
	switch op {
	case "bw":
		var buf bytes.Buffer
		w := bits.NewWriter(&buf)
		for _, x := range a {
			p := strings.Split(x, ":")
			w.Write(u(p[1]), int(u(p[0])))
		}
		w.Flush()
		if w.AccError() != nil {
			return "err"
		}
		return hx(buf.Bytes())
	case "fw":
		total := 0
		for _, x := range a {
			p := strings.Split(x, ":")
			total += int(u(p[0]))
		}
		w := bits.NewFixedSliceWriter((total + 7) / 8)
		for _, x := range a {
			p := strings.Split(x, ":")
			w.WriteBits(u(p[1]), int(u(p[0])))
		}
		w.FlushBits()
		if w.AccError() != nil {
			return "err"
		}
		return hx(w.Bytes())
	case "ew":
		var buf bytes.Buffer
		w := bits.NewEBSPWriter(&buf)
		for _, x := range a {
			p := strings.Split(x, ":")
			switch p[0] {
			case "w":
				w.Write(u(p[2]), int(u(p[1])))
			case "ue":
				w.WriteExpGolomb(u(p[1]))
			case "sv":
				w.WriteSEIValue(u(p[1]))
			case "tb":
				w.WriteRbspTrailingBits()
			case "st":
				w.StuffByteWithZeros()
			default:
				return "bad-op"
			}
		}
		v, n := w.BitsInBuffer()
		return fmt.Sprintf("%s n=%d v=%d", hx(buf.Bytes()), n, v)
	case "br":
		data, _ := unhx(a[0])
		r := bits.NewReader(bytes.NewReader(data))
		vals := []string{}
		for _, x := range a[1:] {
			v := r.Read(int(u(x)))
			vals = append(vals, strconv.FormatUint(uint64(v), 10))
			if r.AccError() != nil {
				break
			}
		}
		vs := "-"
		if len(vals) > 0 {
			vs = strings.Join(vals, ",")
		}
		if r.AccError() != nil {
			return fmt.Sprintf("%s err nb=%d", vs, r.NrBytesRead())
		}
		return fmt.Sprintf("%s ok nb=%d nbits=%d", vs, r.NrBytesRead(), r.NrBitsRead())
	case "er":
		data, _ := unhx(a[0])
		r := bits.NewEBSPReader(bytes.NewReader(data))
		vals := []string{}
		for _, x := range a[1:] {
			if r.AccError() != nil {
				break
			}
			p := strings.Split(x, ":")
			switch p[0] {
			case "r":
				vals = append(vals, strconv.FormatUint(uint64(r.Read(int(u(p[1])))), 10))
			case "ue":
				vals = append(vals, strconv.FormatUint(uint64(r.ReadExpGolomb()), 10))
			case "se":
				vals = append(vals, strconv.Itoa(r.ReadSignedGolomb()))
			case "fl":
				if r.ReadFlag() {
					vals = append(vals, "1")
				} else {
					vals = append(vals, "0")
				}
			case "mo": // MoreRbspData look-ahead (state must be restored exactly)
				more, err := r.MoreRbspData()
				if err != nil {
					vals = append(vals, "merr")
				} else if more {
					vals = append(vals, "m1")
				} else {
					vals = append(vals, "m0")
				}
			case "by":
				b := r.ReadBytes(int(u(p[1])))
				if b == nil {
					vals = append(vals, "nil")
				} else {
					vals = append(vals, hx(b))
				}
			default:
				return "bad-op"
			}
		}
		vs := "-"
		if len(vals) > 0 {
			vs = strings.Join(vals, ",")
		}
		if r.AccError() != nil {
			return fmt.Sprintf("%s err nb=%d", vs, r.NrBytesRead())
		}
		return fmt.Sprintf("%s ok nb=%d nbits=%d", vs, r.NrBytesRead(), r.NrBitsRead())
	case "esc":
		data, _ := unhx(a[0])
		return hx(escImpl(data))
	case "unesc":
		data, _ := unhx(a[0])
		r := bits.NewEBSPReader(bytes.NewReader(data))
		var out []byte
		for {
			b := r.Read(8)
			if r.AccError() != nil {
				break
			}
			out = append(out, byte(b))
		}
		return hx(out)
	}
	return "bad-op"
}

func escImpl(data []byte) []byte {
	var buf bytes.Buffer
	w := bits.NewEBSPWriter(&buf)
	for _, b := range data {
		w.Write(uint(b), 8)
	}
	return buf.Bytes()
}

// reference escape, written from ISO/IEC 14496-10 7.4.1 (independent of the Lean model)
func escRef(data []byte) []byte {
	out := []byte{}
	z := 0
	for _, b := range data {
		if z == 2 && b <= 3 {
			out = append(out, 3)
			z = 0
		}
		out = append(out, b)
		if b == 0 {
			z++
		} else {
			z = 0
		}
	}
	return out
}

func hasForbidden(b []byte) bool {
	for i := 0; i+2 < len(b); i++ {
		if b[i] == 0 && b[i+1] == 0 && b[i+2] <= 2 {
			return true
		}
	}
	return false
}

func genC13(c *Ctx) {
	// (a) exhaustive alphabet strings
	alpha := []byte{0, 1, 2, 3, 0x7f}
	maxLen := c.N(7, 9)
	c.St.Exhaustive = true
	c.Note(fmt.Sprintf("exhaustive part: all strings over {00,01,02,03,7f} of length 0..%d", maxLen))
	var rec func(cur []byte)
	rec = func(cur []byte) {
		req := "esc " + hx(cur)
		got := escImpl(cur)
		c.Case(req, hx(got))
		key := ""
		if len(got) != len(cur) {
			key = req
		}
		c.Eval(key)
		c.Count(fmt.Sprintf("esc.len%d", len(cur)))
		if len(cur) == 6 && len(got) > 7 {
			c.Sample(req + " -> " + hx(got))
		}
		// direct oracle
		if hasForbidden(got) {
			c.Fail("C13-forbidden-triple", "escaped output contains 00 00 0{0,1,2}", req, hx(got), "")
		}
		if !bytes.Equal(got, escRef(cur)) {
			c.Fail("C13-escape-placement", "escape bytes not exactly where required", req, hx(got), hx(escRef(cur)))
		}
		// reader returns what was written, counters count escaped bytes
		r := bits.NewEBSPReader(bytes.NewReader(got))
		back := r.ReadBytes(len(cur))
		if len(cur) > 0 && (!bytes.Equal(back, cur) || r.NrBytesRead() != len(got) || r.NrBitsRead() != 8*len(got)) {
			c.Fail("C13-unescape", "reader does not return written bytes / counters off", "unesc "+hx(got), fmt.Sprintf("%s nb=%d nbits=%d", hx(back), r.NrBytesRead(), r.NrBitsRead()), hx(cur))
		}
		// model the reader on the same escaped bytes, and on the raw string as a (possibly ill-formed) stream
		if len(cur) <= 6 {
			rq := "unesc " + hx(cur)
			c.Case(rq, execC13(rq))
			c.Eval("")
		}
		if len(cur) < maxLen {
			for _, b := range alpha {
				rec(append(cur, b))
			}
		}
	}
	rec([]byte{})

	// (b) random op sequences
	nRand := c.N(30000, 400000)
	for i := 0; i < nRand; i++ {
		nops := 1 + c.R.Intn(12)
		var wops, rops []string   // ebsp writer / reader ops
		var pw []string            // plain writer ops (widths only)
		var expect []string
		plainOK := true
		nontriv := false
		for j := 0; j < nops; j++ {
			switch c.R.Intn(10) {
			case 0, 1, 2, 3:
				k := 1 + c.R.Intn(32)
				var v uint64
				switch c.R.Intn(4) {
				case 0:
					v = 0
				case 1:
					v = uint64(c.R.Intn(4))
				case 2:
					v = (1 << uint(k)) - 1
				default:
					v = c.R.Uint64() & ((1 << uint(k)) - 1)
				}
				v &= (1 << uint(k)) - 1
				wops = append(wops, fmt.Sprintf("w:%d:%d", k, v))
				rops = append(rops, fmt.Sprintf("r:%d", k))
				pw = append(pw, fmt.Sprintf("%d:%d", k, v))
				expect = append(expect, strconv.FormatUint(v, 10))
				if k >= 9 {
					nontriv = true
				}
				c.Count("op.w")
			case 4, 5:
				var v uint64
				switch c.R.Intn(4) {
				case 0:
					v = uint64(c.R.Intn(8))
				case 1:
					v = uint64(1)<<uint(c.R.Intn(32)) - 1 + uint64(c.R.Intn(3))
				case 2:
					v = uint64(c.R.Intn(70000))
				default:
					v = uint64(c.R.Uint32())
					if v >= 1<<32-1 {
						v = 1<<32 - 2
					}
				}
				wops = append(wops, fmt.Sprintf("ue:%d", v))
				rops = append(rops, "ue")
				expect = append(expect, strconv.FormatUint(v, 10))
				plainOK = false
				if v >= 1 {
					nontriv = true
				}
				c.Count("op.ue")
			case 6, 7:
				var s int64
				switch c.R.Intn(3) {
				case 0:
					s = int64(c.R.Intn(9)) - 4
				case 1:
					s = int64(c.R.Intn(1<<20)) - 1<<19
				default:
					s = int64(c.R.Int31()) - 1<<30
				}
				var ue uint64
				if s > 0 {
					ue = uint64(2*s - 1)
				} else {
					ue = uint64(-2 * s)
				}
				wops = append(wops, fmt.Sprintf("ue:%d", ue))
				rops = append(rops, "se")
				expect = append(expect, strconv.FormatInt(s, 10))
				plainOK = false
				nontriv = true
				c.Count("op.se")
			case 8:
				b := c.R.Intn(2)
				wops = append(wops, fmt.Sprintf("w:1:%d", b))
				rops = append(rops, "fl")
				pw = append(pw, fmt.Sprintf("1:%d", b))
				expect = append(expect, strconv.Itoa(b))
				c.Count("op.fl")
			default:
				// zero-heavy byte to provoke escapes
				v := []int{0, 0, 0, 1, 2, 3}[c.R.Intn(6)]
				wops = append(wops, fmt.Sprintf("w:8:%d", v))
				rops = append(rops, "r:8")
				pw = append(pw, fmt.Sprintf("8:%d", v))
				expect = append(expect, strconv.Itoa(v))
				c.Count("op.zbyte")
			}
		}
		// EBSP write (+ trailing bits), then EBSP read
		wreq := "ew " + strings.Join(wops, " ") + " tb"
		wres := execC13(wreq)
		c.Case(wreq, wres)
		hexOut := strings.Fields(wres)[0]
		outBytes, _ := unhx(hexOut)
		if hasForbidden(outBytes) {
			c.Fail("C13-forbidden-triple", "EBSP writer output contains 00 00 0{0,1,2}", wreq, wres, "")
		}
		rreq := "er " + hexOut + " " + strings.Join(rops, " ")
		rres := execC13(rreq)
		c.Case(rreq, rres)
		rf := strings.Fields(rres)
		if len(rf) < 2 || rf[0] != strings.Join(expect, ",") || rf[1] != "ok" {
			c.Fail("C13-ebsp-roundtrip", "values read back differ from values written", wreq+" | "+rreq, rres, strings.Join(expect, ","))
		}
		// the same read with a MoreRbspData look-ahead before every element: the look-ahead must leave no trace
		if i%2 == 0 {
			var rops2 []string
			for _, o := range rops {
				rops2 = append(rops2, "mo", o)
			}
			rops2 = append(rops2, "mo")
			mreq := "er " + hexOut + " " + strings.Join(rops2, " ")
			mres := execC13(mreq)
			c.Case(mreq, mres)
			mf := strings.Fields(mres)
			var kept []string
			if len(mf) > 0 {
				for _, v := range strings.Split(mf[0], ",") {
					if !strings.HasPrefix(v, "m") {
						kept = append(kept, v)
					}
				}
			}
			if len(mf) < 2 || strings.Join(kept, ",") != strings.Join(expect, ",") || mf[1] != "ok" || (len(rf) >= 3 && len(mf) >= 3 && mf[2] != rf[2]) {
				c.Fail("C13-lookahead-roundtrip", "values (or the byte counter) read back with MoreRbspData look-aheads in between differ from a plain read", wreq+" | "+mreq, mres, rres)
			}
			c.Count("lookahead-read")
		}
		key := ""
		if nontriv || bytes.Contains(outBytes, []byte{0, 0, 3}) {
			key = wreq
		}
		c.Eval(key)
		if i < 4 {
			c.Sample(wreq + " -> " + wres + " ; " + rreq + " -> " + rres)
		}
		if plainOK && len(pw) > 0 {
			// same fields through the plain writer, the slice writer, and the plain reader
			breq := "bw " + strings.Join(pw, " ")
			bres := execC13(breq)
			c.Case(breq, bres)
			freq := "fw " + strings.Join(pw, " ")
			fres := execC13(freq)
			c.Case(freq, fres)
			if bres != fres {
				c.Fail("C13-writer-vs-slicewriter", "Writer and FixedSliceWriter.WriteBits differ", breq, bres, fres)
			}
			widths := []string{}
			exp2 := []string{}
			for _, x := range pw {
				p := strings.Split(x, ":")
				widths = append(widths, p[0])
				exp2 = append(exp2, p[1])
			}
			rq := "br " + bres + " " + strings.Join(widths, " ")
			rs := execC13(rq)
			c.Case(rq, rs)
			f2 := strings.Fields(rs)
			if len(f2) < 2 || f2[0] != strings.Join(exp2, ",") || f2[1] != "ok" {
				c.Fail("C13-plain-roundtrip", "plain reader values differ from values written", breq+" | "+rq, rs, strings.Join(exp2, ","))
			}
			// plain bytes escaped == ebsp output without the trailing bits? (only when byte aligned)
			c.Eval("")
		}
		// reader on arbitrary (not writer-produced) bytes: model must agree incl. error state
		if i%4 == 0 {
			n := c.R.Intn(10)
			junk := make([]byte, n)
			for k := range junk {
				junk[k] = []byte{0, 0, 0, 1, 2, 3, 3, 0x80, 0xff, byte(c.R.Intn(256))}[c.R.Intn(10)]
			}
			jq := "er " + hx(junk) + " " + strings.Join(rops, " ")
			c.Case(jq, execC13(jq))
			jq2 := "er " + hx(junk) + " mo " + strings.Join(rops, " mo ")
			c.Case(jq2, execC13(jq2))
			c.Eval("")
			c.Count("junk-read")
		}
	}
}
