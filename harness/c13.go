package main

import (
	"bytes"
	"fmt"
	"strconv"
	"strings"

	"github.com/Eyevinn/mp4ff/bits"
)

func init() {
	props["C13"] = &propDef{
		rule: "cases = (a) every byte string over {00,01,02,03,7f} up to the tier's length through EBSPWriter.Write(b,8) and EBSPReader (exhaustive), (b) random width/value/ue/se/flag/byte-run sequences written by Writer, FixedSliceWriter and EBSPWriter and read back by Reader (Read, ReadSigned, ReadFlag, ReadRemainingBytes) / EBSPReader (Read, ReadFlag, ReadExpGolomb, ReadSignedGolomb, ReadBytes(0..40) at any bit position), with NrBytesRead/NrBitsRead asked at arbitrary points in the middle; non-trivial = distinct request whose escaped output differs from the plain bytes or which contains an Exp-Golomb code of >= 3 bits or a field of >= 9 bits",
		gen:  genC13,
		exec: execC13,
	}
}

func execC13(req string) string {
	f := strings.Fields(req)
	if len(f) == 0 {
		return ""
	}
	var out string
	p := safe(func() { out = execC13Inner(f[0], f[1:]) })
	if p != "" {
		return p
	}
	return out
}

func u(s string) uint {
	v, err := strconv.ParseUint(s, 10, 64)
	if err != nil {
		panic("bad-op")
	}
	return uint(v)
}

func execC13Inner(op string, a []string) string {
	switch op {
	case "bw":
		var buf bytes.Buffer
		w := bits.NewWriter(&buf)
		for _, x := range a {
			p := strings.Split(x, ":")
			w.Write(u(p[1]), int(u(p[0])))
		}
		w.Flush()
		if w.AccError() != nil {
			return "err"
		}
		return hx(buf.Bytes())
	case "fw":
		total := 0
		for _, x := range a {
			p := strings.Split(x, ":")
			total += int(u(p[0]))
		}
		w := bits.NewFixedSliceWriter((total + 7) / 8)
		for _, x := range a {
			p := strings.Split(x, ":")
			w.WriteBits(u(p[1]), int(u(p[0])))
		}
		w.FlushBits()
		if w.AccError() != nil {
			return "err"
		}
		return hx(w.Bytes())
	case "ew":
		var buf bytes.Buffer
		w := bits.NewEBSPWriter(&buf)
		for _, x := range a {
			p := strings.Split(x, ":")
			switch p[0] {
			case "w":
				w.Write(u(p[2]), int(u(p[1])))
			case "ue":
				w.WriteExpGolomb(u(p[1]))
			case "sv":
				w.WriteSEIValue(u(p[1]))
			case "tb":
				w.WriteRbspTrailingBits()
			case "st":
				w.StuffByteWithZeros()
			default:
				return "bad-op"
			}
		}
		v, n := w.BitsInBuffer()
		return fmt.Sprintf("%s n=%d v=%d", hx(buf.Bytes()), n, v)
	case "br":
		data, _ := unhx(a[0])
		r := bits.NewReader(bytes.NewReader(data))
		vals := []string{}
		for _, x := range a[1:] {
			switch {
			case x == "f": // Reader.ReadFlag
				if r.ReadFlag() {
					vals = append(vals, "1")
				} else {
					vals = append(vals, "0")
				}
			case x == "po": // position counters in the middle of a sequence
				vals = append(vals, fmt.Sprintf("p%d.%d", r.NrBytesRead(), r.NrBitsRead()))
			case x == "rem": // Reader.ReadRemainingBytes
				b := r.ReadRemainingBytes()
				if b == nil {
					vals = append(vals, "nil")
				} else {
					vals = append(vals, "x"+hx(b))
				}
			case strings.HasPrefix(x, "s"): // Reader.ReadSigned(k), k >= 1
				vals = append(vals, strconv.Itoa(r.ReadSigned(int(u(x[1:])))))
			default:
				v := r.Read(int(u(x)))
				vals = append(vals, strconv.FormatUint(uint64(v), 10))
			}
			if r.AccError() != nil {
				break
			}
		}
		vs := "-"
		if len(vals) > 0 {
			vs = strings.Join(vals, ",")
		}
		if r.AccError() != nil {
			return fmt.Sprintf("%s err nb=%d", vs, r.NrBytesRead())
		}
		return fmt.Sprintf("%s ok nb=%d nbits=%d", vs, r.NrBytesRead(), r.NrBitsRead())
	case "er":
		data, _ := unhx(a[0])
		r := bits.NewEBSPReader(bytes.NewReader(data))
		vals := []string{}
		for _, x := range a[1:] {
			if r.AccError() != nil {
				break
			}
			p := strings.Split(x, ":")
			switch p[0] {
			case "r":
				vals = append(vals, strconv.FormatUint(uint64(r.Read(int(u(p[1])))), 10))
			case "ue":
				vals = append(vals, strconv.FormatUint(uint64(r.ReadExpGolomb()), 10))
			case "se":
				vals = append(vals, strconv.Itoa(r.ReadSignedGolomb()))
			case "fl":
				if r.ReadFlag() {
					vals = append(vals, "1")
				} else {
					vals = append(vals, "0")
				}
			case "mo": // MoreRbspData look-ahead (state must be restored exactly)
				more, err := r.MoreRbspData()
				if err != nil {
					vals = append(vals, "merr")
				} else if more {
					vals = append(vals, "m1")
				} else {
					vals = append(vals, "m0")
				}
			case "by":
				b := r.ReadBytes(int(u(p[1])))
				if b == nil {
					vals = append(vals, "nil")
				} else {
					vals = append(vals, "x"+hx(b))
				}
			case "po": // position counters in the middle of a sequence
				vals = append(vals, fmt.Sprintf("p%d.%d", r.NrBytesRead(), r.NrBitsRead()))
			default:
				return "bad-op"
			}
		}
		vs := "-"
		if len(vals) > 0 {
			vs = strings.Join(vals, ",")
		}
		if r.AccError() != nil {
			return fmt.Sprintf("%s err nb=%d", vs, r.NrBytesRead())
		}
		return fmt.Sprintf("%s ok nb=%d nbits=%d", vs, r.NrBytesRead(), r.NrBitsRead())
	case "esc":
		data, _ := unhx(a[0])
		return hx(escImpl(data))
	case "unesc":
		data, _ := unhx(a[0])
		r := bits.NewEBSPReader(bytes.NewReader(data))
		var out []byte
		for {
			b := r.Read(8)
			if r.AccError() != nil {
				break
			}
			out = append(out, byte(b))
		}
		return hx(out)
	}
	return "bad-op"
}

func escImpl(data []byte) []byte {
	var buf bytes.Buffer
	w := bits.NewEBSPWriter(&buf)
	for _, b := range data {
		w.Write(uint(b), 8)
	}
	return buf.Bytes()
}

// reference escape, written from ISO/IEC 14496-10 7.4.1 (independent of the Lean model)
func escRef(data []byte) []byte {
	out := []byte{}
	z := 0
	for _, b := range data {
		if z == 2 && b <= 3 {
			out = append(out, 3)
			z = 0
		}
		out = append(out, b)
		if b == 0 {
			z++
		} else {
			z = 0
		}
	}
	return out
}

// length in bits of the Exp-Golomb code of v
func ueLen(v uint64) int {
	l := 0
	for x := v + 1; x > 1; x >>= 1 {
		l++
	}
	return 2*l + 1
}

func posStr(nb, nbits int) string { return fmt.Sprintf("p%d.%d", nb, nbits) }

// escapedUpTo[i] = number of bytes of the escaped stream up to and including payload byte i, where the payload is the
// stream without its emulation prevention bytes (ISO/IEC 14496-10 7.4.1; independent of the Lean model)
func escapedUpTo(esc []byte) []int {
	var out []int
	z := 0
	for i := 0; i < len(esc); i++ {
		if z == 2 && esc[i] == 3 {
			z = 0
			continue
		}
		out = append(out, i+1)
		if esc[i] == 0 {
			z++
		} else {
			z = 0
		}
	}
	return out
}

func hasForbidden(b []byte) bool {
	for i := 0; i+2 < len(b); i++ {
		if b[i] == 0 && b[i+1] == 0 && b[i+2] <= 2 {
			return true
		}
	}
	return false
}

func genC13(c *Ctx) {
	// (a) exhaustive alphabet strings
	alpha := []byte{0, 1, 2, 3, 0x7f}
	maxLen := c.N(7, 9)
	c.St.Exhaustive = true
	c.Note(fmt.Sprintf("exhaustive part: all strings over {00,01,02,03,7f} of length 0..%d", maxLen))
	var rec func(cur []byte)
	rec = func(cur []byte) {
		req := "esc " + hx(cur)
		got := escImpl(cur)
		c.Case(req, hx(got))
		key := ""
		if len(got) != len(cur) {
			key = req
		}
		c.Eval(key)
		c.Count(fmt.Sprintf("esc.len%d", len(cur)))
		if len(cur) == 6 && len(got) > 7 {
			c.Sample(req + " -> " + hx(got))
		}
		// direct oracle
		if hasForbidden(got) {
			c.Fail("C13-forbidden-triple", "escaped output contains 00 00 0{0,1,2}", req, hx(got), "")
		}
		if !bytes.Equal(got, escRef(cur)) {
			c.Fail("C13-escape-placement", "escape bytes not exactly where required", req, hx(got), hx(escRef(cur)))
		}
		// reader returns what was written, counters count escaped bytes
		r := bits.NewEBSPReader(bytes.NewReader(got))
		back := r.ReadBytes(len(cur))
		if len(cur) > 0 && (!bytes.Equal(back, cur) || r.NrBytesRead() != len(got) || r.NrBitsRead() != 8*len(got)) {
			c.Fail("C13-unescape", "reader does not return written bytes / counters off", "unesc "+hx(got), fmt.Sprintf("%s nb=%d nbits=%d", hx(back), r.NrBytesRead(), r.NrBitsRead()), hx(cur))
		}
		// model the reader on the same escaped bytes, and on the raw string as a (possibly ill-formed) stream
		if len(cur) <= 6 {
			rq := "unesc " + hx(cur)
			c.Case(rq, execC13(rq))
			c.Eval("")
		}
		if len(cur) < maxLen {
			for _, b := range alpha {
				rec(append(cur, b))
			}
		}
	}
	rec([]byte{})

	// (b) random op sequences
	nRand := c.N(30000, 400000)
	for i := 0; i < nRand; i++ {
		nops := 1 + c.R.Intn(12)
		var wops, rops []string   // ebsp writer / reader ops
		var pw []string            // plain writer ops (widths only)
		var prd, pexp []string     // plain reader ops (Read / ReadSigned / ReadFlag / counters) and their expected values
		var expect []string
		var bitPos []int           // payload bit position at which each "po" element of rops was placed
		nbit := 0                  // payload bits written so far
		withPos := c.R.Intn(3) == 0
		plainOK := true
		nontriv := false
		for j := 0; j < nops; j++ {
			if withPos && c.R.Intn(2) == 0 {
				// byte/bit counters asked in the middle of the sequence, at any bit position
				rops = append(rops, "po")
				prd = append(prd, "po")
				expect = append(expect, "?")
				pexp = append(pexp, posStr((nbit+7)/8, nbit))
				bitPos = append(bitPos, nbit)
				c.Count("op.po")
			}
			switch c.R.Intn(12) {
			case 10, 11:
				// a run of whole bytes written one by one and fetched with one ReadBytes(n), at any bit position
				var n int
				switch c.R.Intn(3) {
				case 0:
					n = c.R.Intn(41)
				case 1:
					n = []int{0, 1, 7, 8, 9, 15, 16, 17, 24, 31, 32, 33, 40}[c.R.Intn(13)]
				default:
					n = c.R.Intn(5)
				}
				run := make([]byte, n)
				zeroHeavy := c.R.Intn(2) == 0
				for k := range run {
					if zeroHeavy {
						run[k] = []byte{0, 0, 0, 1, 2, 3, 0x80, 0xff}[c.R.Intn(8)]
					} else {
						run[k] = byte(c.R.Intn(256))
					}
					wops = append(wops, fmt.Sprintf("w:8:%d", run[k]))
					pw = append(pw, fmt.Sprintf("8:%d", run[k]))
					prd = append(prd, "8")
					pexp = append(pexp, strconv.Itoa(int(run[k])))
				}
				rops = append(rops, fmt.Sprintf("by:%d", n))
				expect = append(expect, "x"+hx(run))
				nbit += 8 * n
				if n >= 2 {
					nontriv = true
				}
				c.Count("op.bytes")
				if nbit%8 != 0 {
					c.Count("op.bytes.unaligned")
				}
			case 0, 1, 2, 3:
				k := 1 + c.R.Intn(32)
				var v uint64
				switch c.R.Intn(4) {
				case 0:
					v = 0
				case 1:
					v = uint64(c.R.Intn(4))
				case 2:
					v = (1 << uint(k)) - 1
				default:
					v = c.R.Uint64() & ((1 << uint(k)) - 1)
				}
				v &= (1 << uint(k)) - 1
				wops = append(wops, fmt.Sprintf("w:%d:%d", k, v))
				rops = append(rops, fmt.Sprintf("r:%d", k))
				pw = append(pw, fmt.Sprintf("%d:%d", k, v))
				expect = append(expect, strconv.FormatUint(v, 10))
				if c.R.Intn(3) == 0 {
					// the plain reader takes the field as a two's complement number
					sv := int64(v)
					if v>>(uint(k)-1) == 1 {
						sv -= int64(1) << uint(k)
					}
					prd = append(prd, fmt.Sprintf("s%d", k))
					pexp = append(pexp, strconv.FormatInt(sv, 10))
					c.Count("op.signed")
				} else {
					prd = append(prd, strconv.Itoa(k))
					pexp = append(pexp, strconv.FormatUint(v, 10))
				}
				nbit += k
				if k >= 9 {
					nontriv = true
				}
				c.Count("op.w")
			case 4, 5:
				var v uint64
				switch c.R.Intn(4) {
				case 0:
					v = uint64(c.R.Intn(8))
				case 1:
					v = uint64(1)<<uint(c.R.Intn(32)) - 1 + uint64(c.R.Intn(3))
				case 2:
					v = uint64(c.R.Intn(70000))
				default:
					v = uint64(c.R.Uint32())
					if v >= 1<<32-1 {
						v = 1<<32 - 2
					}
				}
				wops = append(wops, fmt.Sprintf("ue:%d", v))
				rops = append(rops, "ue")
				expect = append(expect, strconv.FormatUint(v, 10))
				plainOK = false
				nbit += ueLen(v)
				if v >= 1 {
					nontriv = true
				}
				c.Count("op.ue")
			case 6, 7:
				var s int64
				switch c.R.Intn(3) {
				case 0:
					s = int64(c.R.Intn(9)) - 4
				case 1:
					s = int64(c.R.Intn(1<<20)) - 1<<19
				default:
					s = int64(c.R.Int31()) - 1<<30
				}
				var ue uint64
				if s > 0 {
					ue = uint64(2*s - 1)
				} else {
					ue = uint64(-2 * s)
				}
				wops = append(wops, fmt.Sprintf("ue:%d", ue))
				rops = append(rops, "se")
				expect = append(expect, strconv.FormatInt(s, 10))
				plainOK = false
				nbit += ueLen(ue)
				nontriv = true
				c.Count("op.se")
			case 8:
				b := c.R.Intn(2)
				wops = append(wops, fmt.Sprintf("w:1:%d", b))
				rops = append(rops, "fl")
				pw = append(pw, fmt.Sprintf("1:%d", b))
				prd = append(prd, "f")
				pexp = append(pexp, strconv.Itoa(b))
				expect = append(expect, strconv.Itoa(b))
				nbit++
				c.Count("op.fl")
			default:
				// zero-heavy byte to provoke escapes
				v := []int{0, 0, 0, 1, 2, 3}[c.R.Intn(6)]
				wops = append(wops, fmt.Sprintf("w:8:%d", v))
				rops = append(rops, "r:8")
				pw = append(pw, fmt.Sprintf("8:%d", v))
				prd = append(prd, "8")
				pexp = append(pexp, strconv.Itoa(v))
				expect = append(expect, strconv.Itoa(v))
				nbit += 8
				c.Count("op.zbyte")
			}
		}
		// EBSP write (+ trailing bits), then EBSP read
		wreq := "ew " + strings.Join(wops, " ") + " tb"
		wres := execC13(wreq)
		c.Case(wreq, wres)
		hexOut := strings.Fields(wres)[0]
		outBytes, _ := unhx(hexOut)
		if hasForbidden(outBytes) {
			c.Fail("C13-forbidden-triple", "EBSP writer output contains 00 00 0{0,1,2}", wreq, wres, "")
		}
		if len(bitPos) > 0 {
			// counters report positions in the ESCAPED stream: the reader has taken the escaped bytes up to and
			// including the payload byte that holds the last bit read (7.4.1: a 03 after two 00 is not payload)
			upTo := escapedUpTo(outBytes)
			pi := 0
			for k, o := range rops {
				if o != "po" {
					continue
				}
				nb := (bitPos[pi] + 7) / 8
				eb := 0
				if nb > 0 && nb <= len(upTo) {
					eb = upTo[nb-1]
				}
				expect[k] = posStr(eb, 8*eb-(8*nb-bitPos[pi]))
				pi++
			}
		}
		rreq := "er " + hexOut + " " + strings.Join(rops, " ")
		rres := execC13(rreq)
		c.Case(rreq, rres)
		rf := strings.Fields(rres)
		if len(rf) < 2 || rf[0] != strings.Join(expect, ",") || rf[1] != "ok" {
			c.Fail("C13-ebsp-roundtrip", "values read back differ from values written", wreq+" | "+rreq, rres, strings.Join(expect, ","))
		}
		// the same read with a MoreRbspData look-ahead before every element: the look-ahead must leave no trace
		if i%2 == 0 {
			var rops2 []string
			for _, o := range rops {
				rops2 = append(rops2, "mo", o)
			}
			rops2 = append(rops2, "mo")
			mreq := "er " + hexOut + " " + strings.Join(rops2, " ")
			mres := execC13(mreq)
			c.Case(mreq, mres)
			mf := strings.Fields(mres)
			var kept []string
			if len(mf) > 0 {
				for _, v := range strings.Split(mf[0], ",") {
					if !strings.HasPrefix(v, "m") {
						kept = append(kept, v)
					}
				}
			}
			if len(mf) < 2 || strings.Join(kept, ",") != strings.Join(expect, ",") || mf[1] != "ok" || (len(rf) >= 3 && len(mf) >= 3 && mf[2] != rf[2]) {
				c.Fail("C13-lookahead-roundtrip", "values (or the byte counter) read back with MoreRbspData look-aheads in between differ from a plain read", wreq+" | "+mreq, mres, rres)
			}
			c.Count("lookahead-read")
		}
		key := ""
		if nontriv || bytes.Contains(outBytes, []byte{0, 0, 3}) {
			key = wreq
		}
		c.Eval(key)
		if i < 4 {
			c.Sample(wreq + " -> " + wres + " ; " + rreq + " -> " + rres)
		}
		if plainOK && len(pw) > 0 {
			// same fields through the plain writer, the slice writer, and the plain reader
			breq := "bw " + strings.Join(pw, " ")
			bres := execC13(breq)
			c.Case(breq, bres)
			freq := "fw " + strings.Join(pw, " ")
			fres := execC13(freq)
			c.Case(freq, fres)
			if bres != fres {
				c.Fail("C13-writer-vs-slicewriter", "Writer and FixedSliceWriter.WriteBits differ", breq, bres, fres)
			}
			exp2 := pexp
			rq := "br " + bres + " " + strings.Join(prd, " ")
			rs := execC13(rq)
			c.Case(rq, rs)
			f2 := strings.Fields(rs)
			if len(f2) < 2 || f2[0] != strings.Join(exp2, ",") || f2[1] != "ok" {
				c.Fail("C13-plain-roundtrip", "plain reader values differ from values written", breq+" | "+rq, rs, strings.Join(exp2, ","))
			}
			// a prefix of the fields, then Reader.ReadRemainingBytes: the rest of the bytes at a byte boundary
			if i%3 == 0 {
				cut := c.R.Intn(len(pw) + 1)
				cbits := 0
				var cops, cexp []string
				for k := 0; k < cut; k++ {
					w, _ := strconv.Atoi(strings.Split(pw[k], ":")[0])
					cbits += w
					cops = append(cops, strconv.Itoa(w))
					cexp = append(cexp, strings.Split(pw[k], ":")[1])
				}
				all, _ := unhx(bres)
				q := "br " + bres + " " + strings.Join(append(cops, "rem"), " ")
				qs := execC13(q)
				c.Case(q, qs)
				// direct oracle only at a byte boundary (what happens elsewhere is compared with the model only)
				if cbits%8 == 0 && cbits/8 <= len(all) {
					want := strings.Join(append(cexp, "x"+hx(all[cbits/8:])), ",") + " ok "
					if !strings.HasPrefix(qs, want) {
						c.Fail("C13-plain-remaining", "ReadRemainingBytes after a prefix of the fields does not return the remaining bytes written", breq+" | "+q, qs, want)
					}
				}
				c.Count("plain-remaining")
			}
			c.Eval("")
		}
		// reader on arbitrary (not writer-produced) bytes: model must agree incl. error state
		if i%4 == 0 {
			n := c.R.Intn(10)
			junk := make([]byte, n)
			for k := range junk {
				junk[k] = []byte{0, 0, 0, 1, 2, 3, 3, 0x80, 0xff, byte(c.R.Intn(256))}[c.R.Intn(10)]
			}
			jq := "er " + hx(junk) + " " + strings.Join(rops, " ")
			c.Case(jq, execC13(jq))
			jq2 := "er " + hx(junk) + " mo " + strings.Join(rops, " mo ")
			c.Case(jq2, execC13(jq2))
			c.Eval("")
			c.Count("junk-read")
		}
	}
}
