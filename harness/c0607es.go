package main

// C06 / C07 — video samples with real, varied AVC slice headers, and the auxiliary-information byte oracle.
//
// The AVC parameter sets and slice headers come from the independent serialiser of the C15 harness (c15_esgen.go,
// written from ISO/IEC 14496-10, nothing of mp4ff in it): it knows, for every slice NAL unit it writes, how many bytes
// of the unit the slice header occupies (NAL header and emulation prevention bytes included).  That number is what
// ISO/IEC 23001-7 makes the clear part of a video NAL unit under cbcs, so the expected sub-sample map of a sample is
// known without the library's slice header parser:
//
//   - function level: `cbcs.avcranges <sps infos> <pps infos> <sps hex list> <pps hex list> <sample hex>` runs
//     mp4.GetAVCProtectRanges(..., "cbcs") with the parameter sets parsed the way EncryptFragment's protect function
//     parses them; the Lean driver answers the same line with Model/Cenc.lean `protectRanges` fed by the slice header
//     model Model/AvcSlice.lean on the serialiser's parameter-set values (the infos; the hex lists are ignored there);
//     the direct oracle (checkCbcsShape) compares the answer with the serialiser's header sizes;
//   - fragment level: tracks whose init segment is built from the generated parameter sets go through the same
//     encrypt / reference cipher / decrypt pipeline as the repository's segments (fragCase), under cenc and cbcs;
//   - auxiliary information: samples with so many slices that one sample's senc entry is around the 255 bytes a saiz
//     entry can express, with 8- and 16-byte IVs: EncryptFragment either refuses, or the written saiz entries are the
//     byte lengths of the written senc entries and saio offset + sum(saiz) is the end of the senc sample data
//     (checkAuxBytes parses the written bytes itself).

import (
	"bytes"
	"encoding/binary"
	"fmt"
	"math/rand"
	"strings"

	"github.com/Eyevinn/mp4ff/avc"
	"github.com/Eyevinn/mp4ff/mp4"
)

type esTrack struct {
	spss     []*avcSPSInfo
	ppss     []*avcPPSInfo
	spsN     [][]byte
	ppsN     [][]byte
	spsByID  map[uint32]*avcSPSInfo
	hdrSizes map[string]int // slice NAL unit bytes -> bytes occupied by its slice header (serialiser's count)
}

// genEsTrack: 1..2 SPS and 1..3 PPS with distinct ids. modest = picture sizes a sample entry can carry (and no slice
// groups), needed when an init segment is built from the sets.
func genEsTrack(r *rand.Rand, modest bool) *esTrack {
	t := &esTrack{spsByID: map[uint32]*avcSPSInfo{}, hdrSizes: map[string]int{}}
	for _, id := range distinctIDs(r, 1+r.Intn(2), 31) {
		s := genAVCSPSOpt(r, esOpt{ID: id, Modest: modest})
		t.spss = append(t.spss, s)
		t.spsN = append(t.spsN, s.NALU)
		t.spsByID[s.ID] = s
	}
	for _, id := range distinctIDs(r, 1+r.Intn(3), 255) {
		p := genAVCPPSOpt(r, t.spss[r.Intn(len(t.spss))], esOpt{ID: id, Modest: modest})
		t.ppss = append(t.ppss, p)
		t.ppsN = append(t.ppsN, p.NALU)
	}
	return t
}

// infos: the parameter-set values the slice header syntax depends on, as the serialiser chose them, in the text form
// of the Lean driver (Driver/C15.lean parseSpsInfos / parsePpsInfos). Picture size is given uncropped (crop offsets 0).
func (t *esTrack) infos() (string, string) {
	var ss, ps []string
	for _, s := range t.spss {
		fmo := uint64(0)
		if s.FrameMbsOnly {
			fmo = 1
		}
		pocLsb := 0
		if s.PocType == 0 {
			pocLsb = s.Log2MaxPocLsb - 4
		}
		ss = append(ss, fmt.Sprintf("%d:%d:%d:%s:%s:%d:%s:%d:%d:%d:0:0:0:0", s.ID, s.Log2MaxFrameNum-4, pocLsb,
			b01(s.SeparateColourPlane), b01(s.FrameMbsOnly), s.PocType, b01(s.DeltaPicAlwaysZero), s.ChromaFormatIDC,
			16*s.PicWidthInMbs, 16*(2-fmo)*s.PicHeightInMapUnits))
	}
	for _, p := range t.ppss {
		ps = append(ps, fmt.Sprintf("%d:%d:%s:%s:%d:%d:%s:%d:%s:%s:%d:%d:%d", p.ID, p.SPSID, b01(p.BottomFieldPicOrder),
			b01(p.RedundantPicCnt), p.NumRefIdxL0Def, p.NumRefIdxL1Def, b01(p.WeightedPred), p.WeightedBipredIDC,
			b01(p.Entropy), b01(p.DeblockCtrl), p.NumSliceGroupsM1, p.MapType, p.ChangeRateM1))
	}
	return strings.Join(ss, ","), strings.Join(ps, ",")
}

// slice: one slice NAL unit of type 1, 2 or 5 (the types 23001-7 and the library treat as video) from the serialiser,
// extended with slice data (non-zero bytes: no emulation prevention needed) to at least `want` bytes. Every kind of
// header the serialiser knows appears: I/P/B/SP/SI, reference list override on/off, list modification, explicit
// weighted prediction, reference picture marking, field pictures, all three POC types, PPS defaults for L0 and L1
// drawn independently of each other.
func (t *esTrack) slice(r *rand.Rand, want int) []byte {
	for {
		p := t.ppss[r.Intn(len(t.ppss))]
		sl := genAVCSlice(r, t.spsByID[p.SPSID], p)
		if sl.NALU[0]&0x1f == 19 { // auxiliary picture slice: not a video NAL unit for common encryption
			continue
		}
		n := sl.NALU
		for len(n) < want {
			n = append(n, byte(1+r.Intn(255)))
		}
		t.hdrSizes[string(n)] = sl.Size
		return n
	}
}

func (t *esTrack) hdrOf(nalu []byte) int {
	if h, ok := t.hdrSizes[string(nalu)]; ok {
		return h
	}
	return -1
}

func lenPrefix(nalus ...[]byte) []byte {
	var s []byte
	for _, n := range nalus {
		var l [4]byte
		binary.BigEndian.PutUint32(l[:], uint32(len(n)))
		s = append(s, l[:]...)
		s = append(s, n...)
	}
	return s
}

func nonVideoNALU(r *rand.Rand, typ byte, size int) []byte {
	n := make([]byte, size)
	for i := range n {
		n[i] = byte(1 + r.Intn(255))
	}
	n[0] = typ
	return n
}

// sample: an access unit: optional access unit delimiter, in-band parameter sets, SEI; nSlices slices whose sizes
// straddle the property's size classes (below / at / above 127 bytes, around the cenc 96+16 threshold, a few large
// ones); optional trailing SEI / end-of-sequence. minSlice > 0 forces every slice to at least that many bytes.
func (t *esTrack) sample(r *rand.Rand, nSlices, minSlice int) []byte {
	return t.sampleT(r, nSlices, minSlice, r.Intn(6))
}

// sampleT: trailing = 0: an SEI after the last slice, 1: an end-of-sequence unit, else nothing
func (t *esTrack) sampleT(r *rand.Rand, nSlices, minSlice, trailing int) []byte {
	var nalus [][]byte
	if r.Intn(2) == 0 {
		nalus = append(nalus, []byte{9, byte(0x10 | r.Intn(8)<<5)})
	}
	if r.Intn(5) == 0 {
		nalus = append(nalus, t.spsN[r.Intn(len(t.spsN))], t.ppsN[r.Intn(len(t.ppsN))])
	}
	if r.Intn(3) == 0 {
		nalus = append(nalus, nonVideoNALU(r, 6, 2+r.Intn(60)))
	}
	targets := []int{0, 0, 20, 60, 100, 108, 112, 120, 126, 127, 128, 129, 140, 200, 400, 1000}
	for i := 0; i < nSlices; i++ {
		want := targets[r.Intn(len(targets))]
		if r.Intn(40) == 0 {
			want = 3000 + r.Intn(3000)
		}
		if want < minSlice {
			want = minSlice + r.Intn(8)
		}
		nalus = append(nalus, t.slice(r, want))
	}
	switch trailing {
	case 0:
		nalus = append(nalus, nonVideoNALU(r, 6, 2+r.Intn(30)))
	case 1:
		nalus = append(nalus, []byte{10})
	}
	return lenPrefix(nalus...)
}

// psMaps: parameter-set maps as mp4.InitProtect's protect function builds them (getAVCPSMaps)
func psMaps(spsN, ppsN [][]byte) (map[uint32]*avc.SPS, map[uint32]*avc.PPS, error) {
	spsMap := map[uint32]*avc.SPS{}
	for _, n := range spsN {
		s, err := avc.ParseSPSNALUnit(n, false)
		if err != nil {
			return nil, nil, err
		}
		spsMap[s.ParameterID] = s
	}
	ppsMap := map[uint32]*avc.PPS{}
	for _, n := range ppsN {
		p, err := avc.ParsePPSNALUnit(n, spsMap)
		if err != nil {
			return nil, nil, err
		}
		ppsMap[p.PicParameterSetID] = p
	}
	return spsMap, ppsMap, nil
}

// execCbcsAvcRanges: a = [sps infos, pps infos, sps hex list, pps hex list, sample hex]
func execCbcsAvcRanges(a []string) string {
	if len(a) != 5 {
		return "bad-op"
	}
	spsN, err1 := unhxList(a[2])
	ppsN, err2 := unhxList(a[3])
	s, err3 := unhx(a[4])
	if err1 != nil || err2 != nil || err3 != nil {
		return "bad-op"
	}
	spsMap, ppsMap, err := psMaps(spsN, ppsN)
	if err != nil {
		return "err"
	}
	r, err := mp4.GetAVCProtectRanges(spsMap, ppsMap, s, "cbcs")
	if err != nil {
		return "err"
	}
	return showRanges(r)
}

// checkCbcsShape: the cbcs clauses of the property on one sample's sub-sample entries: they partition the sample; NAL
// length fields, NAL headers, non-video units and slice headers are clear; what is protected in a unit runs to the
// unit's end; a video unit longer than 127 bytes is protected from exactly the end of its slice header.
// hdrOf = the independent slice header size of a video unit (-1: not known, nothing demanded about its header).
func checkCbcsShape(c *Ctx, codec string, s []byte, rs []mp4.SubSamplePattern, hdrOf func([]byte) int, req string) {
	tot := 0
	for _, r := range rs {
		tot += int(r.BytesOfClearData) + int(r.BytesOfProtectedData)
	}
	if tot != len(s) {
		c.Fail("C07-partition", "sub-sample entries do not partition the sample", req, showRanges(rs), fmt.Sprint(len(s)))
		return
	}
	mask := make([]bool, 0, len(s))
	for _, r := range rs {
		for i := 0; i < int(r.BytesOfClearData); i++ {
			mask = append(mask, false)
		}
		for i := 0; i < int(r.BytesOfProtectedData); i++ {
			mask = append(mask, true)
		}
	}
	pos := 0
	for pos+4 <= len(s) {
		n := int(binary.BigEndian.Uint32(s[pos:]))
		start := pos + 4
		end := start + n
		if end > len(s) || n == 0 {
			break
		}
		for i := pos; i < start; i++ {
			if mask[i] {
				c.Fail("C07-length-field-protected", "a NAL length field is inside a protected range", req, showRanges(rs), "")
				return
			}
		}
		if mask[start] || (codec == "hevc" && n >= 2 && mask[start+1]) { // HEVC: two-byte NAL unit header
			c.Fail("C07-header-protected", "a NAL header byte is protected", req, showRanges(rs), "")
			return
		}
		firstProt := -1
		for i := start; i < end; i++ {
			if mask[i] && firstProt < 0 {
				firstProt = i
			}
			if firstProt >= 0 && !mask[i] {
				c.Fail("C07-protected-not-to-end", "a protected range does not extend to the end of its NAL unit", req, showRanges(rs), "")
				return
			}
		}
		video := s[start]&0x1f >= 1 && s[start]&0x1f <= 5
		if codec == "hevc" {
			video = (s[start]>>1)&0x3f <= 31 // VCL NAL unit types (H.265 Table 7-1)
		}
		if !video {
			if firstProt >= 0 {
				c.Fail("C07-nonvideo-protected", "a non-video NAL unit is protected", req, showRanges(rs), "")
				return
			}
		} else if h := hdrOf(s[start:end]); h >= 0 {
			where := fmt.Sprintf("NAL unit at %d, %d bytes, slice header occupies %d bytes, first protected byte at %d", start, n, h, firstProt-start)
			if firstProt >= 0 && firstProt-start < h {
				c.Fail("C07-cbcs-slice-header-protected", "cbcs: a byte of a slice header is inside a protected range", req, showRanges(rs), where)
				return
			}
			if n > 127 && h < n && firstProt != start+h {
				c.Fail("C07-cbcs-start", "cbcs: a video NAL unit longer than 127 bytes is not protected from the end of its slice header", req, showRanges(rs), where)
				return
			}
		}
		pos = end
	}
}

// genCbcsRanges: function-level cases of the cbcs range computation on generated access units
func genCbcsRanges(c *Ctx, which string) {
	var t *esTrack
	var ss, ps string
	for it := 0; it < c.N(500, 8000); it++ {
		if it%4 == 0 {
			t = genEsTrack(c.R, c.R.Intn(4) > 0)
			ss, ps = t.infos()
		}
		s := t.sample(c.R, 1+c.R.Intn(4), 0)
		req := fmt.Sprintf("cbcs.avcranges %s %s %s %s %s", ss, ps, hxList(t.spsN), hxList(t.ppsN), hx(s))
		ans := execCrypto(req)
		c.Case(req, ans)
		c.Eval(req)
		c.Count("ranges.avc.cbcs")
		if which != "C07" {
			continue
		}
		if ans == "err" || strings.HasPrefix(ans, "panic") || strings.HasPrefix(ans, "bad") {
			c.Fail("C07-ranges-error", "protect ranges of a well-formed sample fail", req, ans, "")
			continue
		}
		checkCbcsShape(c, "avc", s, parseRanges(ans), t.hdrOf, req)
	}
}

// esClearSource: a clear track for fragCase: init segment built through the API from generated parameter sets,
// samples = generated access units
func esClearSource(c *Ctx, nSamples int) *clearSource {
	for try := 0; try < 8; try++ {
		t := genEsTrack(c.R, true)
		init := mp4.CreateEmptyInit()
		init.AddEmptyTrack(90000, "video", "und")
		entry := []string{"avc1", "avc3"}[c.R.Intn(2)]
		if err := init.Moov.Trak.SetAVCDescriptor(entry, t.spsN, t.ppsN, true); err != nil {
			continue
		}
		var buf bytes.Buffer
		if err := init.Encode(&buf); err != nil {
			continue
		}
		cs := &clearSource{name: "generated AVC elementary stream", codec: "avc", init: buf.Bytes(), hdrOf: t.hdrOf, es: t}
		for i := 0; i < nSamples; i++ {
			d := t.sample(c.R, 1+c.R.Intn(4), 0)
			flags := uint32(mp4.NonSyncSampleFlags)
			if i == 0 {
				flags = mp4.SyncSampleFlags
			}
			cs.samples = append(cs.samples, mp4.FullSample{
				Sample: mp4.Sample{Flags: flags, Dur: uint32(1000 + c.R.Intn(3000)), Size: uint32(len(d)), CompositionTimeOffset: int32(c.R.Intn(3) * 1500)},
				Data:   d})
		}
		return cs
	}
	return nil
}

// ---------------------------------------------------------------- auxiliary information, from the written bytes

type auxBytes struct {
	saizCount   int
	saizDefault int
	saizTable   []int
	saioOffsets []int64
	sencStart   int   // position of the senc box from the moof start
	sencEnd     int   // end of the senc box from the moof start
	sencEntries []int // byte length of every per-sample entry as written
	err         string
}

// parseAuxBytes reads saiz, saio and senc of the (single) traf of an encoded fragment, from the bytes, by the box
// definitions of ISO/IEC 14496-12 8.7.8 / 8.7.9 and 23001-7 7.2. ivSize = Per_Sample_IV_Size the track's tenc declares.
func parseAuxBytes(frag []byte, ivSize int) auxBytes {
	var a auxBytes
	var bx []rawBox
	walkBoxes(frag, 0, "", &bx)
	moof := -1
	seen := map[string]int{}
	for _, b := range bx {
		if b.typ == "moof" && moof < 0 {
			moof = b.start
		}
		if b.path != "/moof/traf/"+b.typ {
			continue
		}
		p := frag[b.start+b.hl : b.start+b.size]
		switch b.typ {
		case "saiz", "saio", "senc":
			seen[b.typ]++
			if len(p) < 4 {
				a.err = b.typ + " too short"
				return a
			}
		}
		flags := 0
		if len(p) >= 4 {
			flags = int(binary.BigEndian.Uint32(p)) & 0xffffff
		}
		switch b.typ {
		case "saiz":
			q := p[4:]
			if flags&1 != 0 {
				if len(q) < 8 {
					a.err = "saiz too short"
					return a
				}
				q = q[8:]
			}
			if len(q) < 5 {
				a.err = "saiz too short"
				return a
			}
			a.saizDefault = int(q[0])
			a.saizCount = int(binary.BigEndian.Uint32(q[1:]))
			q = q[5:]
			if a.saizDefault == 0 {
				if len(q) != a.saizCount {
					a.err = fmt.Sprintf("saiz table has %d bytes for sample_count %d", len(q), a.saizCount)
					return a
				}
				for _, x := range q {
					a.saizTable = append(a.saizTable, int(x))
				}
			} else if len(q) != 0 {
				a.err = "saiz with a default size carries a table"
				return a
			}
		case "saio":
			version := p[0]
			q := p[4:]
			if flags&1 != 0 {
				if len(q) < 8 {
					a.err = "saio too short"
					return a
				}
				q = q[8:]
			}
			if len(q) < 4 {
				a.err = "saio too short"
				return a
			}
			n := int(binary.BigEndian.Uint32(q))
			q = q[4:]
			w := 4
			if version == 1 {
				w = 8
			}
			if len(q) != n*w {
				a.err = "saio entry count does not match its size"
				return a
			}
			for i := 0; i < n; i++ {
				if w == 4 {
					a.saioOffsets = append(a.saioOffsets, int64(binary.BigEndian.Uint32(q[4*i:])))
				} else {
					a.saioOffsets = append(a.saioOffsets, int64(binary.BigEndian.Uint64(q[8*i:])))
				}
			}
		case "senc":
			a.sencStart, a.sencEnd = b.start-moof, b.start+b.size-moof
			if len(p) < 8 {
				a.err = "senc too short"
				return a
			}
			n := int(binary.BigEndian.Uint32(p[4:]))
			q := p[8:]
			for i := 0; i < n; i++ {
				l := ivSize
				if len(q) < l {
					a.err = fmt.Sprintf("senc ends inside the entry of sample %d", i+1)
					return a
				}
				if flags&2 != 0 {
					if len(q) < l+2 {
						a.err = fmt.Sprintf("senc ends inside the entry of sample %d", i+1)
						return a
					}
					l += 2 + 6*int(binary.BigEndian.Uint16(q[l:]))
					if len(q) < l {
						a.err = fmt.Sprintf("senc ends inside the entry of sample %d", i+1)
						return a
					}
				}
				a.sencEntries = append(a.sencEntries, l)
				q = q[l:]
			}
			if len(q) != 0 {
				a.err = fmt.Sprintf("%d bytes left in senc after the last sample entry", len(q))
				return a
			}
		}
	}
	for _, k := range []string{"saiz", "saio", "senc"} {
		if seen[k] != 1 {
			a.err = fmt.Sprintf("%d %s boxes in the traf", seen[k], k)
			return a
		}
	}
	return a
}

// checkAuxBytes: "the auxiliary-information sizes and offset describe the per-sample entries actually written".
// Returns (kind, got, expected) of the first clause that fails, kind "" if all hold.
func checkAuxBytes(frag []byte, ivSize, nSamples int) (string, string, string) {
	a := parseAuxBytes(frag, ivSize)
	if a.err != "" {
		return "aux-bytes-parse", a.err, ""
	}
	if len(a.sencEntries) != nSamples {
		return "aux-senc-count", fmt.Sprint(len(a.sencEntries)), fmt.Sprint(nSamples)
	}
	total := 0
	for _, l := range a.sencEntries {
		total += l
	}
	if len(a.saioOffsets) != 1 || int(a.saioOffsets[0]) != a.sencStart+16 {
		return "aux-saio-start", fmt.Sprint(a.saioOffsets), fmt.Sprint(a.sencStart + 16)
	}
	sum := 0
	if a.saizCount != nSamples {
		// no auxiliary information at all (constant IV, no sub-samples) may be described by an empty saiz
		if !(a.saizCount == 0 && total == 0) {
			return "aux-saiz-count", fmt.Sprint(a.saizCount), fmt.Sprint(nSamples)
		}
	} else {
		for i, l := range a.sencEntries {
			got := a.saizDefault
			if got == 0 {
				got = a.saizTable[i]
			}
			if got != l {
				return "aux-entry-size", fmt.Sprintf("saiz entry %d of sample %d", got, i+1), fmt.Sprintf("%d bytes written in senc for that sample", l)
			}
			sum += got
		}
	}
	if int(a.saioOffsets[0])+sum != a.sencEnd {
		return "aux-extent", fmt.Sprintf("saio offset %d + saiz sizes %d = %d", a.saioOffsets[0], sum, int(a.saioOffsets[0])+sum), fmt.Sprintf("end of the senc sample data %d", a.sencEnd)
	}
	return "", "", ""
}

var auxWhat = map[string]string{
	"aux-bytes-parse": "saiz / saio / senc of the written fragment cannot be read by their definitions",
	"aux-senc-count":  "senc does not hold one entry per sample",
	"aux-saio-start":  "saio offset is not the position of the first senc sample entry from the moof start",
	"aux-saiz-count":  "saiz sample count differs from the number of samples",
	"aux-entry-size":  "a saiz entry is not the byte length of that sample's senc entry as written",
	"aux-extent":      "saio offset + sum of saiz sizes does not reach exactly the end of the senc sample data",
}

// auxLimitCase: one fragment with a sample of k sub-sample entries (so many slices that the sample's auxiliary
// information is around the 255 bytes one saiz byte expresses), IV of ivLen bytes. EncryptFragment may refuse a sample
// whose entry (by the IV size the protected init declares) does not fit; it must not write something else.
func auxLimitCase(c *Ctx, which, scheme string, ivLen, k int, key []byte) {
	desc := fmt.Sprintf("auxlimit avc %s ivlen=%d entries=%d", scheme, ivLen, k)
	fail := func(prop, kind, what, got, exp string) {
		if prop == which {
			c.Fail(prop+"-"+kind, what, desc, clip(got), clip(exp))
		}
	}
	p := safe(func() {
		src := esClearSource(c, 0)
		if src == nil {
			return
		}
		t := src.es
		iv := make([]byte, ivLen)
		c.R.Read(iv)
		initF, err := mp4.DecodeFile(bytes.NewReader(src.init))
		if err != nil {
			return
		}
		kid, _ := mp4.NewUUIDFromString("11112222333344445555666677778888")
		ipd, err := mp4.InitProtect(initF.Init, key, iv, scheme, kid, nil)
		if err != nil {
			fail("C06", "initprotect", "InitProtect fails", err.Error(), "")
			return
		}
		var encInit bytes.Buffer
		if err := initF.Init.Encode(&encInit); err != nil {
			return
		}
		declaredIV := int(ipd.Tenc.DefaultPerSampleIVSize)
		// samples: a few ordinary ones around the one with k slices
		var datas [][]byte
		ns := 1 + c.R.Intn(3)
		big := c.R.Intn(ns)
		maxEntry := 0
		for i := 0; i < ns; i++ {
			n := 1 + c.R.Intn(3) // sub-sample entries of this sample: one per slice, one more for a trailing non-video unit
			if i == big {
				n = k
			}
			trailing := c.R.Intn(4)
			slices := n
			if trailing < 2 {
				slices--
			}
			if slices == 0 {
				slices, trailing = 1, 2
			}
			d := t.sampleT(c.R, slices, 112, trailing) // every slice is protected under cenc as well (>= 112 bytes)
			if e := declaredIV + 2 + 6*n; e > maxEntry {
				maxEntry = e
			}
			datas = append(datas, d)
		}
		desc += fmt.Sprintf(" samples=%d largest-entry=%d", len(datas), maxEntry)
		fr, _ := mp4.CreateFragment(1, initF.Init.Moov.Trak.Tkhd.TrackID)
		var clearSamples []mp4.FullSample
		dt := uint64(c.R.Intn(100000))
		for i, d := range datas {
			fl := uint32(mp4.NonSyncSampleFlags)
			if i == 0 {
				fl = mp4.SyncSampleFlags
			}
			fs := mp4.FullSample{Sample: mp4.Sample{Flags: fl, Dur: 3000, Size: uint32(len(d))}, DecodeTime: dt, Data: d}
			dt += 3000
			fr.AddFullSample(fs)
			clearSamples = append(clearSamples, fs)
		}
		var cb bytes.Buffer
		if err := fr.Encode(&cb); err != nil {
			return
		}
		ff, err := mp4.DecodeFile(bytes.NewReader(append(cp(encInit.Bytes()), cb.Bytes()...)))
		if err != nil || len(ff.Segments) == 0 {
			fail("C06", "clear-decode", "clear fragment does not decode against the protected init", fmt.Sprint(err), "")
			return
		}
		efr := ff.Segments[0].Fragments[0]
		if err := mp4.EncryptFragment(efr, key, iv, ipd); err != nil {
			c.Count("auxlimit.refused")
			if maxEntry <= 255 {
				fail("C06", "encrypt", "EncryptFragment fails on a clear fragment whose auxiliary information fits", err.Error(), "")
			}
			return
		}
		c.Count("auxlimit.written")
		var eb bytes.Buffer
		if err := efr.Encode(&eb); err != nil {
			fail("C06", "encrypt-encode", "encrypted fragment does not encode", err.Error(), "")
			return
		}
		if kind, got, exp := checkAuxBytes(eb.Bytes(), declaredIV, len(datas)); kind != "" {
			fail("C07", kind, auxWhat[kind], got, exp)
		}
		// C06: what was written decrypts to the clear samples
		df, err := mp4.DecodeFile(bytes.NewReader(append(cp(encInit.Bytes()), eb.Bytes()...)))
		if err != nil {
			fail("C06", "enc-decode", "encrypted file does not decode", err.Error(), "")
			fail("C07", "enc-decode", "encrypted fragment does not decode", err.Error(), "")
			return
		}
		di, err := mp4.DecryptInit(df.Init)
		if err != nil {
			fail("C06", "decrypt-init", "DecryptInit fails", err.Error(), "")
			return
		}
		for _, seg := range df.Segments {
			if err := mp4.DecryptSegment(seg, di, key); err != nil {
				fail("C06", "decrypt", "DecryptSegment fails on what the library encrypted", err.Error(), "")
				return
			}
		}
		fss, err := df.Segments[0].Fragments[0].GetFullSamples(df.Init.Moov.Mvex.Trex)
		if err != nil || len(fss) != len(clearSamples) {
			fail("C06", "sample-count", "sample count differs after decryption", fmt.Sprint(err, len(fss)), fmt.Sprint(len(clearSamples)))
			return
		}
		for i := range fss {
			if !bytes.Equal(fss[i].Data, clearSamples[i].Data) {
				fail("C06", "sample-bytes", "decrypted sample bytes differ from the clear input", clip(hx(fss[i].Data)), clip(hx(clearSamples[i].Data)))
				break
			}
		}
	})
	c.Eval(desc)
	c.Count("auxlimit." + scheme)
	if p != "" {
		fail(which, "panic", "panic in encrypt/decrypt pipeline: "+p, p, "")
	}
}

// genAuxLimit: IV length {8, 16} x scheme x number of slices around (255 - IV - 2) / 6 for the IV sizes 0, 8 and 16
func genAuxLimit(c *Ctx, which string, key []byte) {
	for _, scheme := range []string{"cenc", "cbcs"} {
		for _, ivLen := range []int{8, 16} {
			for k := 36; k <= 45; k++ {
				auxLimitCase(c, which, scheme, ivLen, k, key)
			}
		}
	}
}
