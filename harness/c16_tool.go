package main

// C16 tool-level family: the BUILT command-line tools (cmd/mp4ff-pslister, cmd/mp4ff-nallister; package main, built by bin/check into
// $VERIF_BUILD/tools) are run as processes on parameter-set material. The `pslister.*` / `nallister.*` entry
// points of c16_ops.go only re-enact the library calls of the tools; the code of the tools themselves (which
// parameter set is listed, what happens after one of them failed to parse, which input mode hands which NAL
// units to which parser) is only reached here.
//
// Protocol line:  tool.pslister.<mode> <p1> <p2> - - <entries>
//   mode     hex | annexb | mp4init | mp4frag | mp4prog   (every way the tool accepts parameter sets)
//   p1       bit0: -c hevc (otherwise the default, avc)   bit1: -v   bit2: HEVC sample entry (mp4 modes)
//   p2       layout bits of the mode (start code lengths, trailing start code, file extension, in-band entry type)
//   entries  ordered list of NAL units, each: role byte ('V' 'S' 'P' = given to the tool as VPS / SPS / PPS,
//            'X' = any other NAL unit) + 4-byte big-endian length + bytes
// How a mode uses the list:
//   hex      first V / S / P entry -> -vps / -sps / -pps
//   annexb   all entries in order, separated by start codes, written to a file given with -i
//   mp4init  V / S / P entries -> the arrays of the avcC / hvcC box of an init segment
//   mp4frag  init segment without parameter sets + one fragment whose first sample holds all entries in order
//   mp4prog  progressive file without parameter sets in the sample entry, first sample holds all entries
// Only the elementary-stream bytes are hostile; the container around them is well formed.
//
// Protocol line:  tool.nallister.<mode> <p1> <p2> - - <entries>      (cmd/mp4ff-nallister)
//   mode     annexb | mp4frag | mp4prog   (every kind of input the tool reads)
//   p1       bit0: -c hevc   bit1: -ps   bit2: HEVC sample entry (mp4 modes)   bits3-4: -sei 0|1|2|3 (0 = option absent)
//            bits5-6: -raw absent|1|4|100000   bits7-8: -m absent|1|2|0
//   p2       annexb: the layout bits of tool.pslister.annexb; mp4 modes: bit0 co64 (mp4prog), bit3: the length field
//            of the last NAL unit of the sample is 3 too large, bit4: the sample ends 2 bytes early, bit5: the V/S/P
//            entries are ALSO the parameter-set arrays of the avcC / hvcC box (otherwise the box carries none),
//            bit6: avc3 / hev1 sample entry
//   entries  as above; all entries in order are the Annex B stream / the first sample
// Answer: "ok" (exit 0) | "err" (exit 1) | "panic: <message> @ <func> <file:line>" | "oom" | "hang" | "crash ...",
// followed by " !mem" / " !time" when the resident set / the CPU time of the process exceeds its bound.

import (
	"bytes"
	"context"
	"crypto/sha256"
	"encoding/binary"
	"encoding/hex"
	"fmt"
	"math/rand"
	"os"
	"os/exec"
	"path/filepath"
	"runtime"
	"strconv"
	"strings"
	"sync"
	"syscall"
	"time"

	"github.com/Eyevinn/mp4ff/hevc"
	"github.com/Eyevinn/mp4ff/mp4"
)

const (
	c16TFHevc    = 1
	c16TFVerbose = 2
	c16TFBoxHevc = 4

	c16TTimeout = 4 * time.Second // a run takes 2..10 ms of CPU
	// address space of a tool process (ulimit -v, KiB): a count-driven allocation dies quickly instead of
	// taking the machine down
	c16TAddrKiB = 1536 << 10
	// resident set bound: c16TRssC + c16TRssK*len(entries). A tool process rests at 3..9 MiB (measured, see the
	// calib note); the bound of the in-process oracle (512 B/byte) plus a constant for the process itself
	c16TRssC = 64 << 20
	c16TRssK = 1024
	// CPU time (user+sys) bound of a tool process: c16TCpuC + 4us/byte (measured: 2..6 ms)
	c16TCpuC = time.Second
)

type c16TEntry struct {
	role byte
	n    []byte
}

func c16TEnc(l []c16TEntry) []byte {
	var b []byte
	for _, e := range l {
		b = append(b, e.role)
		b = binary.BigEndian.AppendUint32(b, uint32(len(e.n)))
		b = append(b, e.n...)
	}
	return b
}

func c16TDec(d []byte) ([]c16TEntry, error) {
	var l []c16TEntry
	for len(d) > 0 {
		if len(d) < 5 {
			return nil, fmt.Errorf("short entry")
		}
		n := int(binary.BigEndian.Uint32(d[1:5]))
		if n > len(d)-5 {
			return nil, fmt.Errorf("entry beyond the end")
		}
		l = append(l, c16TEntry{d[0], d[5 : 5+n]})
		d = d[5+n:]
	}
	return l, nil
}

func c16TByRole(l []c16TEntry, role byte) [][]byte {
	var o [][]byte
	for _, e := range l {
		if e.role == role {
			o = append(o, e.n)
		}
	}
	return o
}

// ---------------------------------------------------------------- containers around the parameter sets

var (
	c16TTmplAvcSps  = c16Hex("6764001eacd940a02ff9610000030001000003003c8f162d96")
	c16TTmplAvcPps  = c16Hex("68ebecb22c")
	c16TTmplHevcVps = c16Hex("40010c01ffff016000000300900000030000030078959809")
	c16TTmplHevcSps = c16Hex("420101016000000300900000030000030078a00502016965959a4932bc05a80808082000000300200000030321")
	c16TTmplHevcPps = c16Hex("4401c172b46240")
)

// c16TMoov: init segment with one video track. The sample entry is created from well-formed template parameter
// sets (the library parses them for width/height), then its parameter-set arrays are replaced by v/s/p
// (nil = no parameter sets in the sample entry).
func c16TInit(boxHevc, inband bool, v, s, p [][]byte) *mp4.InitSegment {
	init := mp4.CreateEmptyInit()
	init.AddEmptyTrack(90000, "video", "und")
	trak := init.Moov.Trak
	if !boxHevc {
		typ := "avc1"
		if inband {
			typ = "avc3"
		}
		must(trak.SetAVCDescriptor(typ, [][]byte{c16TTmplAvcSps}, [][]byte{c16TTmplAvcPps}, true))
		a := trak.Mdia.Minf.Stbl.Stsd.AvcX.AvcC
		a.SPSnalus, a.PPSnalus = s, p
	} else {
		typ := "hvc1"
		if inband {
			typ = "hev1"
		}
		must(trak.SetHEVCDescriptor(typ, [][]byte{c16TTmplHevcVps}, [][]byte{c16TTmplHevcSps}, [][]byte{c16TTmplHevcPps}, nil, true))
		h := trak.Mdia.Minf.Stbl.Stsd.HvcX.HvcC
		h.NaluArrays = nil
		for _, a := range []struct {
			t hevc.NaluType
			l [][]byte
		}{{hevc.NALU_VPS, v}, {hevc.NALU_SPS, s}, {hevc.NALU_PPS, p}} {
			if len(a.l) > 0 {
				h.NaluArrays = append(h.NaluArrays, hevc.NewNaluArray(!inband, a.t, a.l))
			}
		}
	}
	return init
}

func c16TFileInit(boxHevc, inband bool, v, s, p [][]byte) []byte {
	var buf bytes.Buffer
	must(c16TInit(boxHevc, inband, v, s, p).Encode(&buf))
	return buf.Bytes()
}

func c16TFileFrag(boxHevc bool, sample []byte) []byte {
	return c16TFileFragPS(boxHevc, true, nil, nil, nil, sample)
}

func c16TFileFragPS(boxHevc, inband bool, v, s, p [][]byte, sample []byte) []byte {
	var buf bytes.Buffer
	must(c16TInit(boxHevc, inband, v, s, p).Encode(&buf))
	seg := mp4.NewMediaSegment()
	frag, err := mp4.CreateFragment(1, 1)
	must(err)
	seg.AddFragment(frag)
	for i, d := range [][]byte{sample, {0, 0, 0, 2, 9, 0x10}} {
		frag.AddFullSample(mp4.FullSample{Sample: mp4.Sample{Flags: mp4.SyncSampleFlags, Dur: 3000, Size: uint32(len(d))},
			DecodeTime: uint64(3000 * i), Data: d})
	}
	must(seg.Encode(&buf))
	return buf.Bytes()
}

func c16TFileProg(boxHevc, co64 bool, sample []byte) []byte {
	return c16TFileProgPS(boxHevc, co64, true, nil, nil, nil, sample)
}

func c16TFileProgPS(boxHevc, co64, inband bool, v, s, p [][]byte, sample []byte) []byte {
	init := c16TInit(boxHevc, inband, v, s, p)
	moov := init.Moov
	var kids []mp4.Box
	for _, c := range moov.Children {
		if c.Type() != "mvex" {
			kids = append(kids, c)
		}
	}
	moov.Children, moov.Mvex = kids, nil
	second := []byte{0, 0, 0, 2, 9, 0x10}
	trak := moov.Trak
	trak.Mdia.Mdhd.Duration = 6000
	trak.Tkhd.Duration = 6000
	moov.Mvhd.Duration = 6000
	old := trak.Mdia.Minf.Stbl
	stbl := mp4.NewStblBox()
	stbl.AddChild(old.Stsd)
	old.Stts.SampleCount, old.Stts.SampleTimeDelta = []uint32{2}, []uint32{3000}
	stbl.AddChild(old.Stts)
	sc := &mp4.StscBox{}
	must(sc.AddEntry(1, 2, 1))
	stbl.AddChild(sc)
	stbl.AddChild(&mp4.StszBox{SampleNumber: 2, SampleSize: []uint32{uint32(len(sample)), uint32(len(second))}})
	if co64 {
		stbl.AddChild(&mp4.Co64Box{ChunkOffset: []uint64{0}})
	} else {
		stbl.AddChild(&mp4.StcoBox{ChunkOffset: []uint32{0}})
	}
	minf := trak.Mdia.Minf
	for i, c := range minf.Children {
		if c.Type() == "stbl" {
			minf.Children[i] = stbl
		}
	}
	minf.Stbl = stbl
	ftyp := mp4.NewFtyp("isom", 0x200, []string{"isom", "iso2", "mp41"})
	off := ftyp.Size() + moov.Size() + 8
	if co64 {
		stbl.Co64.ChunkOffset[0] = off
	} else {
		stbl.Stco.ChunkOffset[0] = uint32(off)
	}
	mdat := &mp4.MdatBox{}
	mdat.SetData(append(cp(sample), second...))
	var buf bytes.Buffer
	must(ftyp.Encode(&buf))
	must(moov.Encode(&buf))
	must(mdat.Encode(&buf))
	return buf.Bytes()
}

// ---------------------------------------------------------------- one line -> command line (+ input file)

type c16TLine struct {
	tool, mode string
	p1, p2     int
	entries    []c16TEntry
	n          int // bytes of hostile material
}

func c16TParse(req string) (*c16TLine, error) {
	f := strings.Fields(req)
	if len(f) != 6 {
		return nil, fmt.Errorf("bad line")
	}
	op := strings.Split(f[0], ".")
	if len(op) != 3 || op[0] != "tool" {
		return nil, fmt.Errorf("bad tool op")
	}
	l := &c16TLine{tool: "mp4ff-" + op[1], mode: op[2]}
	if op[1] != "pslister" && op[1] != "nallister" {
		return nil, fmt.Errorf("unknown tool")
	}
	l.p1, _ = strconv.Atoi(f[1])
	l.p2, _ = strconv.Atoi(f[2])
	d, err := unhx(f[5])
	if err != nil {
		return nil, err
	}
	if l.entries, err = c16TDec(d); err != nil {
		return nil, err
	}
	for _, e := range l.entries {
		l.n += len(e.n)
	}
	return l, nil
}

// c16TCommand returns the argument list and, for the file modes, the name and content of the input file.
func (l *c16TLine) command() (args []string, fname string, file []byte, err error) {
	if l.tool == "mp4ff-nallister" {
		return l.nallisterCommand()
	}
	if l.p1&c16TFHevc != 0 {
		args = append(args, "-c", "hevc")
	}
	if l.p1&c16TFVerbose != 0 {
		args = append(args, "-v")
	}
	boxHevc := l.p1&c16TFBoxHevc != 0
	var all [][]byte
	for _, e := range l.entries {
		all = append(all, e.n)
	}
	if p := safe(func() {
		switch l.mode {
		case "hex":
			for _, o := range []struct {
				role byte
				opt  string
			}{{'V', "-vps"}, {'S', "-sps"}, {'P', "-pps"}} {
				if ns := c16TByRole(l.entries, o.role); len(ns) > 0 {
					h := hex.EncodeToString(ns[0])
					if l.p2&1 != 0 {
						h = strings.ToUpper(h)
					}
					args = append(args, o.opt, h)
				}
			}
		case "annexb":
			fname = []string{"in.264", "in.bin"}[(l.p2>>4)&1]
			if l.p2&4 != 0 {
				file = append(file, 0, 0)
			}
			for i, n := range all {
				if l.p2&1 != 0 || (l.p2&8 != 0 && i%2 == 0) {
					file = append(file, 0)
				}
				file = append(file, 0, 0, 1)
				file = append(file, n...)
			}
			if l.p2&2 != 0 {
				file = append(file, 0, 0, 1)
			}
		case "mp4init":
			fname = []string{"in.mp4", "in.m4v", "in.cmfv", "in.m4s"}[(l.p2>>1)&3]
			file = c16TFileInit(boxHevc, l.p2&1 != 0, c16TByRole(l.entries, 'V'), c16TByRole(l.entries, 'S'), c16TByRole(l.entries, 'P'))
		case "mp4frag":
			fname = []string{"in.mp4", "in.m4v", "in.cmfv", "in.m4s"}[(l.p2>>1)&3]
			file = c16TFileFrag(boxHevc, c16LenPrefixed(all))
		case "mp4prog":
			fname = "in.mp4"
			file = c16TFileProg(boxHevc, l.p2&1 != 0, c16LenPrefixed(all))
		default:
			err = fmt.Errorf("unknown mode")
		}
	}); p != "" {
		err = fmt.Errorf("could not build the input: %s", p)
	}
	if fname != "" {
		args = append(args, "-i", fname)
	}
	return
}

// c16TAnnexB writes the NAL units behind start codes (layout bits as documented at the top).
func c16TAnnexB(p2 int, all [][]byte) (file []byte) {
	if p2&4 != 0 {
		file = append(file, 0, 0)
	}
	for i, n := range all {
		if p2&1 != 0 || (p2&8 != 0 && i%2 == 0) {
			file = append(file, 0)
		}
		file = append(file, 0, 0, 1)
		file = append(file, n...)
	}
	if p2&2 != 0 {
		file = append(file, 0, 0, 1)
	}
	return file
}

// nallisterCommand: mp4ff-nallister [-c hevc] [-ps] [-sei n] [-raw n] [-m n] [-annexb] infile
func (l *c16TLine) nallisterCommand() (args []string, fname string, file []byte, err error) {
	if l.p1&c16TFHevc != 0 {
		args = append(args, "-c", "hevc")
	}
	if l.p1&c16TFVerbose != 0 {
		args = append(args, "-ps")
	}
	if v := (l.p1 >> 3) & 3; v != 0 {
		args = append(args, "-sei", strconv.Itoa(v))
	}
	if v := (l.p1 >> 5) & 3; v != 0 {
		args = append(args, "-raw", []string{"", "1", "4", "100000"}[v])
	}
	if v := (l.p1 >> 7) & 3; v != 0 {
		args = append(args, "-m", []string{"", "1", "2", "0"}[v])
	}
	boxHevc := l.p1&c16TFBoxHevc != 0
	var all [][]byte
	for _, e := range l.entries {
		all = append(all, e.n)
	}
	sample := func() []byte {
		d := c16LenPrefixed(all)
		if l.p2&8 != 0 && len(all) > 0 {
			k := len(d) - len(all[len(all)-1]) - 4
			binary.BigEndian.PutUint32(d[k:], uint32(len(all[len(all)-1])+3))
		}
		if l.p2&16 != 0 && len(d) >= 2 {
			d = d[:len(d)-2]
		}
		return d
	}
	var v, s, p [][]byte
	if l.p2&32 != 0 {
		v, s, p = c16TByRole(l.entries, 'V'), c16TByRole(l.entries, 'S'), c16TByRole(l.entries, 'P')
	}
	inband := l.p2&64 != 0
	if pn := safe(func() {
		switch l.mode {
		case "annexb":
			args = append(args, "-annexb")
			fname = []string{"in.264", "in.bin"}[(l.p2>>4)&1]
			file = c16TAnnexB(l.p2, all)
		case "mp4frag":
			fname = "in.mp4"
			file = c16TFileFragPS(boxHevc, inband, v, s, p, sample())
		case "mp4prog":
			fname = "in.mp4"
			file = c16TFileProgPS(boxHevc, l.p2&1 != 0, inband, v, s, p, sample())
		default:
			err = fmt.Errorf("unknown mode")
		}
	}); pn != "" {
		err = fmt.Errorf("could not build the input: %s", pn)
	}
	args = append(args, fname)
	return
}

// ---------------------------------------------------------------- running the tool

type c16TRes struct {
	class  string // ok err panic oom hang crash harness
	detail string // panic message / signal / harness problem
	fn     string // function at the panic site ("hevc.CodecString", "mp4ff-pslister.printHevcPS")
	loc    string // file:line
	rssKiB int64
	cpu    time.Duration
	flags  string // " !mem" " !time"
}

func (r *c16TRes) canonical() string {
	s := r.class
	switch r.class {
	case "panic":
		s = "panic: " + r.detail + " @ " + r.fn + " " + r.loc
	case "crash", "harness":
		s += " " + r.detail
	}
	return s + r.flags
}

// c16TSite finds the first frame of a Go crash report that is neither the runtime nor panic().
func c16TSite(tool, stderr string) (fn, loc string) {
	k := strings.Index(stderr, "\ngoroutine ")
	if k < 0 {
		return "?", "?"
	}
	lines := strings.Split(stderr[k+1:], "\n")
	for i := 1; i+1 < len(lines); i++ {
		l := lines[i]
		if l == "" {
			break
		}
		if strings.HasPrefix(l, "\t") || strings.HasPrefix(l, "panic(") || strings.HasPrefix(l, "runtime.") || strings.HasPrefix(l, "runtime/") {
			continue
		}
		fn = l
		if j := strings.LastIndex(fn, "("); j > 0 {
			fn = fn[:j]
		}
		fn = strings.TrimPrefix(fn, "github.com/Eyevinn/mp4ff/")
		if strings.HasPrefix(fn, "main.") {
			fn = tool + fn[4:]
		}
		loc = strings.TrimSpace(lines[i+1])
		if j := strings.LastIndex(loc, "/"); j >= 0 {
			loc = loc[j+1:]
		}
		if j := strings.Index(loc, " "); j >= 0 {
			loc = loc[:j]
		}
		return fn, loc
	}
	return "?", "?"
}

func c16TRun(req string) c16TRes {
	l, err := c16TParse(req)
	if err != nil {
		return c16TRes{class: "harness", detail: "bad-line: " + err.Error()}
	}
	args, fname, file, err := l.command()
	if err != nil {
		return c16TRes{class: "harness", detail: err.Error()}
	}
	bin := toolPath(l.tool)
	if _, err := os.Stat(bin); err != nil {
		return c16TRes{class: "harness", detail: "tool binary missing: " + bin + " (bin/check builds it; set VERIF_BUILD)"}
	}
	dir, err := os.MkdirTemp("", "c16tool")
	if err != nil {
		return c16TRes{class: "harness", detail: err.Error()}
	}
	defer os.RemoveAll(dir)
	if fname != "" {
		if err := os.WriteFile(filepath.Join(dir, fname), file, 0o644); err != nil {
			return c16TRes{class: "harness", detail: err.Error()}
		}
	}
	ctx, cancel := context.WithTimeout(context.Background(), c16TTimeout)
	defer cancel()
	sh := fmt.Sprintf(`ulimit -v %d; exec "$0" "$@"`, c16TAddrKiB)
	cmd := exec.CommandContext(ctx, "/bin/sh", append([]string{"-c", sh, bin}, args...)...)
	cmd.Dir = dir
	cmd.WaitDelay = time.Second
	errBuf := &c16Tail{}
	cmd.Stderr = errBuf // stdout is discarded
	runErr := cmd.Run()
	r := c16TRes{}
	if ps := cmd.ProcessState; ps != nil {
		r.cpu = ps.UserTime() + ps.SystemTime()
		if ru, ok := ps.SysUsage().(*syscall.Rusage); ok && ru != nil {
			r.rssKiB = int64(ru.Maxrss)
		}
	}
	stderr := errBuf.String()
	switch {
	case ctx.Err() != nil:
		r.class = "hang"
	case runErr == nil:
		r.class = "ok"
	default:
		ee, ok := runErr.(*exec.ExitError)
		if !ok {
			return c16TRes{class: "harness", detail: "could not run the tool: " + runErr.Error()}
		}
		ws, _ := ee.Sys().(syscall.WaitStatus)
		goCrash := strings.Contains(stderr, "\ngoroutine ") && (strings.Contains(stderr, "panic: ") || strings.Contains(stderr, "fatal error: "))
		switch {
		case goCrash && (strings.Contains(stderr, "out of memory") || strings.Contains(stderr, "cannot allocate memory")):
			r.class = "oom"
			r.fn, r.loc = c16TSite(l.tool, stderr)
		case goCrash:
			r.class = "panic"
			k := strings.Index(stderr, "panic: ")
			if k < 0 {
				k = strings.Index(stderr, "fatal error: ")
			}
			msg := stderr[k:]
			if j := strings.IndexByte(msg, '\n'); j >= 0 {
				msg = msg[:j]
			}
			if len(msg) > 160 {
				msg = msg[:160]
			}
			r.detail = strings.TrimPrefix(msg, "panic: ")
			r.fn, r.loc = c16TSite(l.tool, stderr)
		case ws.Signaled():
			r.class, r.detail = "crash", "signal "+ws.Signal().String()
		case ee.ExitCode() == 1:
			r.class = "err"
		default:
			t := stderr
			if len(t) > 200 {
				t = t[len(t)-200:]
			}
			return c16TRes{class: "harness", detail: fmt.Sprintf("exit code %d: %s", ee.ExitCode(), strings.ReplaceAll(t, "\n", " "))}
		}
	}
	if r.rssKiB<<10 > int64(c16TRssC)+int64(c16TRssK)*int64(l.n) {
		r.flags += " !mem"
	}
	if r.class != "hang" && r.cpu > c16TCpuC+time.Duration(l.n)*c16TimePerByte {
		r.flags += " !time"
	}
	return r
}

// execC16Tool: replay of one tool line.
func execC16Tool(req string) string {
	r := c16TRun(req)
	return strings.Fields(req)[0] + ":" + r.canonical()
}

// ---------------------------------------------------------------- generator

// c16TSet: well-formed parameter sets of one codec that belong together, written by the C15 serialiser.
type c16TSet struct {
	codec string
	hdr   int    // NAL unit header bytes
	vps   []byte // hevc only
	sps   []byte // id a
	sps2  []byte // id b != a
	pps   []byte // -> a
	pps2  []byte // -> a, other pps id
	pps3  []byte // -> b
	ppsM  []byte // -> an SPS id that is in no SPS of the set
	slice []byte
	aud   []byte
	other []byte // an SPS of the other codec
	sei   []byte // SEI NAL units (tool.nallister only, set by nallisterCases)
	sei2  []byte
}

func c16TNewSet(r *rand.Rand, codec string) *c16TSet {
	t := &c16TSet{codec: codec}
	if codec == "avc" {
		t.hdr = 1
		ids := distinctIDs(r, 3, 31)
		s := genAVCSPSOpt(r, esOpt{ID: ids[0], Modest: true})
		s2 := genAVCSPSOpt(r, esOpt{ID: ids[1], Modest: true})
		miss := *s
		miss.ID = uint32(ids[2])
		pid := distinctIDs(r, 2, 255)
		p := genAVCPPSOpt(r, s, esOpt{ID: pid[0]})
		t.sps, t.sps2, t.pps = s.NALU, s2.NALU, p.NALU
		t.pps2 = genAVCPPSOpt(r, s, esOpt{ID: pid[1]}).NALU
		t.pps3 = genAVCPPSOpt(r, s2, esOpt{ID: -1}).NALU
		t.ppsM = genAVCPPSOpt(r, &miss, esOpt{ID: -1}).NALU
		t.slice = c16Cut(genAVCSlice(r, s, p).NALU, 160)
		t.aud = []byte{9, 0x10}
		t.other = genHEVCSPSOpt(r, esOpt{ID: -1, Modest: true}).NALU
		if r.Intn(4) == 0 { // the pair of the tool's own tests (SPS id 0, PPS id 0)
			t.sps, t.pps = cp(c16TTmplAvcSps), cp(c16TTmplAvcPps)
		}
		return t
	}
	t.hdr = 2
	ids := distinctIDs(r, 3, 15)
	s := genHEVCSPSOpt(r, esOpt{ID: ids[0], Modest: true})
	s2 := genHEVCSPSOpt(r, esOpt{ID: ids[1], Modest: true})
	miss := *s
	miss.ID = uint32(ids[2])
	pid := distinctIDs(r, 2, 63)
	p := genHEVCPPSOpt(r, s, esOpt{ID: pid[0]})
	t.vps = genHEVCVPS(r, s)
	t.sps, t.sps2, t.pps = s.NALU, s2.NALU, p.NALU
	t.pps2 = genHEVCPPSOpt(r, s, esOpt{ID: pid[1]}).NALU
	t.pps3 = genHEVCPPSOpt(r, s2, esOpt{ID: -1}).NALU
	t.ppsM = genHEVCPPSOpt(r, &miss, esOpt{ID: -1}).NALU
	t.slice = c16Cut(genHEVCSlice(r, s, p).NALU, 160)
	t.aud = []byte{35 << 1, 1, 0x50}
	t.other = genAVCSPSOpt(r, esOpt{ID: -1, Modest: true}).NALU
	if r.Intn(4) == 0 {
		t.vps, t.sps, t.pps = cp(c16TTmplHevcVps), cp(c16TTmplHevcSps), cp(c16TTmplHevcPps)
	}
	return t
}

// the ways one parameter set of an otherwise well-formed stream can be broken
var c16TBadKinds = []string{"empty", "short", "hdronly", "trunc", "garbage", "fill", "hugeue", "tail", "flip", "wrongtype", "wrongbody", "othercodec"}

// bad returns a broken version of the well-formed NAL unit v; alt is a well-formed NAL unit of another type.
func (g *c16G) toolBad(kind string, t *c16TSet, v, alt []byte) []byte {
	h := t.hdr
	if len(v) < h+1 {
		return cp(v)
	}
	switch kind {
	case "empty":
		return []byte{}
	case "len1", "len2", "len3": // NAL units of 1, 2, 3 bytes (tool.nallister)
		if n := int(kind[3] - '0'); n < len(v) {
			return cp(v[:n])
		}
		return cp(v)
	case "short": // shorter than the NAL unit header plus the first fixed-length fields
		if n := 1 + g.r.Intn(h+2); n < len(v) {
			return cp(v[:n])
		}
		return cp(v[:len(v)-1])
	case "hdronly":
		return cp(v[:h])
	case "trunc":
		if len(v) == h+1 {
			return cp(v[:h])
		}
		return cp(v[:h+1+g.r.Intn(len(v)-h-1)])
	case "garbage":
		return append(cp(v[:h]), g.randBytes(1+g.r.Intn(48))...)
	case "fill":
		return append(cp(v[:h]), bytes.Repeat([]byte{[]byte{0, 0xff, 0xaa, 0x80}[g.r.Intn(4)]}, 1+g.r.Intn(64))...)
	case "hugeue":
		return g.spliceUE(v, h*8)
	case "tail":
		return append(cp(v), g.randBytes(1+g.r.Intn(8))...)
	case "flip":
		d := cp(v)
		for i, n := 0, 1+g.r.Intn(3); i < n; i++ {
			d[h+g.r.Intn(len(d)-h)] ^= 1 << uint(g.r.Intn(8))
		}
		return d
	case "wrongtype": // a well-formed NAL unit of another type in this place
		return cp(alt)
	case "wrongbody": // the header of this type in front of the body of another type
		if len(alt) > h {
			return append(cp(v[:h]), alt[h:]...)
		}
		return cp(v[:h])
	case "othercodec":
		return cp(t.other)
	}
	panic("unknown kind " + kind)
}

type c16TScenario struct {
	name string
	bad  bool // has positions marked '!' that take a broken parameter set
	hevc bool // only meaningful with a VPS
	form string
}

// form: V S s P p q m = vps, sps, sps2, pps(->sps), pps2(->sps), pps3(->sps2), pps(->missing id); A = AUD, L = slice;
// '!' after a letter = that unit is broken
var c16TScenarios = []c16TScenario{
	{name: "valid", form: "VSP"},
	{name: "valid2", form: "VSsPpq"},
	{name: "sps1bad", bad: true, form: "VS!P"},
	{name: "sps1bad-sps2good", bad: true, form: "VS!sq"},
	{name: "sps2bad", bad: true, form: "VSs!Pp"},
	{name: "pps1bad", bad: true, form: "VSP!"},
	{name: "pps1bad-pps2good", bad: true, form: "VSP!p"},
	{name: "pps2bad", bad: true, form: "VSPp!"},
	{name: "vpsbad", bad: true, hevc: true, form: "V!SP"},
	{name: "allbad", bad: true, form: "V!S!P!"},
	{name: "onlysps-bad", bad: true, form: "S!"},
	{name: "pps-missing-sps-id", form: "VSm"},
	{name: "pps-of-later-sps", form: "VSqs"},
	{name: "ppsonly", form: "P"},
	{name: "vpsonly", hevc: true, form: "V"},
	{name: "spsonly", form: "S"},
	{name: "novps", hevc: true, form: "SP"},
	{name: "sps-again", form: "VSPLVSsPq"},
	{name: "reversed", form: "PSV"},
	{name: "dup", form: "VVSSPP"},
	{name: "in-stream", form: "AVSPL"},
	{name: "noparamsets", form: "AL"},
	{name: "nothing", form: ""},
}

func (g *c16G) toolEntries(t *c16TSet, sc *c16TScenario, kind string) []c16TEntry {
	var l []c16TEntry
	f := sc.form
	for i := 0; i < len(f); i++ {
		var role byte
		var v, alt []byte
		switch f[i] {
		case 'V':
			role, v, alt = 'V', t.vps, t.sps
		case 'S':
			role, v, alt = 'S', t.sps, t.pps
		case 's':
			role, v, alt = 'S', t.sps2, t.slice
		case 'P':
			role, v, alt = 'P', t.pps, t.sps
		case 'p':
			role, v, alt = 'P', t.pps2, t.slice
		case 'q':
			role, v, alt = 'P', t.pps3, t.sps2
		case 'm':
			role, v = 'P', t.ppsM
		case 'A':
			role, v = 'X', t.aud
		case 'L':
			role, v, alt = 'X', t.slice, t.aud
		case 'E':
			role, v, alt = 'X', t.sei, t.aud
		case 'F':
			role, v, alt = 'X', t.sei2, t.slice
		}
		if f[i] == 'A' {
			alt = t.slice
		}
		bad := i+1 < len(f) && f[i+1] == '!'
		if bad {
			i++
		}
		if role == 'V' && t.codec != "hevc" {
			continue
		}
		if bad {
			if role == 'V' && (kind == "wrongtype" || kind == "wrongbody") && g.r.Intn(2) == 0 {
				alt = t.pps
			}
			v = g.toolBad(kind, t, v, alt)
		}
		l = append(l, c16TEntry{role, cp(v)})
	}
	return l
}

var c16TModes = []string{"hex", "annexb", "mp4init", "mp4frag", "mp4prog"}

type c16TCase struct {
	tool           string // pslister | nallister
	flags          string // tool.nallister: the option combination, for the statistics
	line           string
	mode, scn, knd string
	n              int
}

func (g *c16G) toolCases(reps int) []c16TCase {
	var out []c16TCase
	for rep := 0; rep < reps; rep++ {
		for _, codec := range []string{"avc", "hevc"} {
			for si := range c16TScenarios {
				sc := &c16TScenarios[si]
				if sc.hevc && codec != "hevc" {
					continue
				}
				kinds := []string{"-"}
				if sc.bad {
					kinds = c16TBadKinds
				}
				for _, kind := range kinds {
					t := c16TNewSet(g.r, codec)
					entries := g.toolEntries(t, sc, kind)
					d := c16TEnc(entries)
					for _, mode := range c16TModes {
						p1 := 0
						// the codec option follows the material, except that now and then the tool is told the other codec
						if (codec == "hevc") != (g.r.Intn(6) == 0) {
							p1 |= c16TFHevc
						}
						if (codec == "hevc") != (g.r.Intn(12) == 0) {
							p1 |= c16TFBoxHevc
						}
						// every (scenario, kind, mode) runs with and without -v over the repetitions
						if (rep+g.r.Intn(2))%2 == 1 || (rep >= 2 && g.r.Intn(2) == 0) {
							p1 |= c16TFVerbose
						}
						p2 := g.r.Intn(32)
						out = append(out, c16TCase{tool: "pslister", line: c16Line("tool.pslister."+mode, p1, p2, nil, nil, d), mode: mode, scn: codec + "/" + sc.name, knd: kind, n: len(d)})
					}
				}
			}
		}
	}
	return out
}

// ---------------------------------------------------------------- tool.nallister

var c16TNalModes = []string{"annexb", "mp4frag", "mp4prog"}

// the ways of breaking a unit for mp4ff-nallister: those of the parameter-set lists plus NAL units of 1, 2, 3 bytes
var c16TNalBadKinds = append(append([]string{}, c16TBadKinds...), "len1", "len2", "len3")

// c16TNalScenarios: the list shapes of tool.pslister, plus access units with SEI NAL units (E, F) in which the unit at
// each position in turn is broken, plus streams that consist of SEI NAL units only.
func c16TNalScenarios() []c16TScenario {
	l := append([]c16TScenario{}, c16TScenarios...)
	for _, form := range []string{"AVSPEL", "EAVSPLF"} {
		for i := 0; i < len(form); i++ {
			l = append(l, c16TScenario{name: fmt.Sprintf("%s-pos%d", form, i), bad: true, hevc: form[i] == 'V',
				form: form[:i+1] + "!" + form[i+1:]})
		}
	}
	return append(l,
		c16TScenario{name: "access-unit-sei", form: "AVSPEFL"},
		c16TScenario{name: "sei-only", form: "EF"},
		c16TScenario{name: "sei-only-bad", bad: true, form: "E!"},
		c16TScenario{name: "sei-bad-twice", bad: true, form: "AE!LAF!L"},
		c16TScenario{name: "two-access-units", form: "AVSPELAEL"},
	)
}

// toolSei: an SEI NAL unit of the codec: NAL unit header + a payload of the C16 SEI generator (0..4 messages, typed
// payloads cut below their fixed headers, declared sizes beyond the end, ...) or a captured SEI NAL unit.
func (g *c16G) toolSei(codec string, suffix bool) []byte {
	if g.k != nil && g.r.Intn(4) == 0 {
		if codec == "avc" {
			if d := g.pick(g.k.avcSei); len(d) > 1 {
				return cp(d)
			}
		} else if d := g.pick(g.k.hevcSei); len(d) > 2 {
			return cp(d)
		}
	}
	hdr := []byte{6}
	if codec == "hevc" {
		hdr = []byte{39 << 1, 1}
		if suffix {
			hdr[0] = 40 << 1
		}
	}
	return append(hdr, g.seiRbsp()...)
}

func (g *c16G) nallisterCases(reps int) []c16TCase {
	var out []c16TCase
	scns := c16TNalScenarios()
	combo := g.r.Intn(1 << 16)
	for rep := 0; rep < reps; rep++ {
		for _, codec := range []string{"avc", "hevc"} {
			for si := range scns {
				sc := &scns[si]
				if sc.hevc && codec != "hevc" {
					continue
				}
				kinds := []string{"-"}
				if sc.bad {
					kinds = c16TNalBadKinds
				}
				for _, kind := range kinds {
					t := c16TNewSet(g.r, codec)
					t.sei, t.sei2 = g.toolSei(codec, false), g.toolSei(codec, true)
					entries := g.toolEntries(t, sc, kind)
					d := c16TEnc(entries)
					for _, mode := range c16TNalModes {
						p1 := 0
						if (codec == "hevc") != (g.r.Intn(6) == 0) {
							p1 |= c16TFHevc
						}
						if (codec == "hevc") != (g.r.Intn(12) == 0) {
							p1 |= c16TFBoxHevc
						}
						// the option combinations are walked through in turn: -sei {absent,1,2,3} x -ps x -raw x -m
						combo++
						sei := combo & 3
						ps := (combo >> 2) & 1
						raw := (combo >> 3) & 3
						m := (combo >> 5) & 3
						if sei == 0 && g.r.Intn(2) == 0 { // the SEI code is what most of the material is for
							sei = 1 + g.r.Intn(2)
						}
						p1 |= ps<<1 | sei<<3 | raw<<5 | m<<7
						p2 := g.r.Intn(128)
						if mode != "annexb" && g.r.Intn(4) != 0 {
							p2 &^= 8 | 16 // most samples keep consistent length fields
						}
						out = append(out, c16TCase{tool: "nallister", line: c16Line("tool.nallister."+mode, p1, p2, nil, nil, d),
							flags: fmt.Sprintf("sei%d/ps%d/raw%d/m%d", sei, ps, raw, m),
							mode:  mode, scn: codec + "/" + sc.name, knd: kind, n: len(d)})
					}
				}
			}
		}
	}
	return out
}

// c16ToolFamily generates, runs and evaluates the tool-level cases.
func c16ToolFamily(c *Ctx, g *c16G) {
	for _, tn := range []string{"mp4ff-pslister", "mp4ff-nallister"} {
		if _, err := os.Stat(toolPath(tn)); err != nil {
			c.Fail("C16-harness-tool-missing", "tool binary missing: "+toolPath(tn)+" (bin/check builds cmd/"+tn+" into $VERIF_BUILD/tools)", "", "", "")
			return
		}
	}
	t0 := time.Now()
	cases := g.toolCases(c.N(2, 12))
	// a generator of its own: the tool.pslister lines do not depend on the tool.nallister ones
	gn := &c16G{r: rand.New(rand.NewSource(c.Seed*7919 + 17)), k: g.k}
	cases = append(cases, gn.nallisterCases(c.N(2, 10))...)
	res := make([]c16TRes, len(cases))
	nw := runtime.NumCPU()
	if nw > 12 {
		nw = 12
	}
	var wg sync.WaitGroup
	next := make(chan int, len(cases))
	for i := range cases {
		next <- i
	}
	close(next)
	for w := 0; w < nw; w++ {
		wg.Add(1)
		go func() {
			defer wg.Done()
			for i := range next {
				res[i] = c16TRun(cases[i].line)
			}
		}()
	}
	wg.Wait()
	var maxRss int64
	var maxCpu time.Duration
	confirmed := map[string]int{}
	for i := range cases {
		cs, r := &cases[i], &res[i]
		op := "tool." + cs.tool + "." + cs.mode
		if r.class == "hang" || r.flags != "" {
			// confirm alone (nothing else is running now) before reporting; on a tree where the tool hangs on many
			// inputs only the first few suspects of a mode are confirmed (each costs the timeout), the others are
			// counted but not reported
			if confirmed[op] >= 2 || confirmed[""] >= 6 {
				c.Count("tool-suspect-not-rerun=" + op)
				c.Count("result=" + op + "/suspect")
				continue
			}
			rr := c16TRun(cs.line)
			if rr.class != r.class || rr.flags != r.flags {
				c.Count("tool-suspect-not-reproduced-alone")
			}
			if rr.class == "hang" || rr.flags != "" {
				confirmed[op]++
				confirmed[""]++
			}
			*r = rr
		}
		h := sha256.Sum256([]byte(cs.line))
		c.Eval(op + string(h[:12]))
		c.Count("group=tool." + cs.tool)
		c.Count("kind=tool." + cs.tool + "/" + cs.mode)
		if cs.flags != "" {
			c.Count("toolflags=" + cs.tool + "/" + cs.flags)
		}
		c.Count("size=" + c16SizeBucket(cs.n))
		c.Count("result=" + op + "/" + r.class)
		if cs.tool == "pslister" {
			c.Count("toolscenario=" + cs.scn + ":" + r.class)
			if cs.knd != "-" {
				c.Count("toolbroken=" + cs.knd + ":" + r.class)
			}
		} else {
			c.Count("toolscenario." + cs.tool + "=" + cs.scn + ":" + r.class)
			if cs.knd != "-" {
				c.Count("toolbroken." + cs.tool + "=" + cs.knd + ":" + r.class)
			}
		}
		if i%997 == 1 {
			c.Sample(cs.line)
		}
		if r.rssKiB > maxRss {
			maxRss = r.rssKiB
		}
		if r.cpu > maxCpu {
			maxCpu = r.cpu
		}
		where := fmt.Sprintf("built tool mp4ff-%s, mode %s, scenario %s, broken unit: %s", cs.tool, cs.mode, cs.scn, cs.knd)
		switch r.class {
		case "panic":
			c.Fail("C16-panic-"+r.fn+" "+r.loc, "the tool process ends with a Go panic instead of a listing or an error ("+where+")", cs.line, op+":"+r.canonical(), "returns a value or an error")
		case "oom":
			c.Fail("C16-oom-"+op, "the tool process dies of a fatal out of memory (address space capped at 1.5 GiB), site "+r.fn+" "+r.loc+" ("+where+")", cs.line, op+":"+r.canonical(), "memory bounded by a small multiple of the input")
		case "hang":
			c.Fail("C16-hang-"+op, fmt.Sprintf("no exit within %v, also when run alone (%s)", c16TTimeout, where), cs.line, op+":"+r.canonical(), "returns a value or an error")
		case "crash":
			c.Fail("C16-crash-"+op, "the tool process was killed by a signal ("+where+")", cs.line, op+":"+r.canonical(), "returns a value or an error")
		case "harness":
			c.Fail("C16-harness-tool", "could not run the tool: "+r.detail, cs.line, op+":"+r.canonical(), "")
		}
		if strings.Contains(r.flags, "!mem") {
			c.Fail("C16-oom-"+op, fmt.Sprintf("resident set %d KiB for %d input bytes, bound %d KiB (%s)", r.rssKiB, cs.n, (c16TRssC+c16TRssK*cs.n)>>10, where), cs.line, op+":"+r.canonical(), "memory bounded by a small multiple of the input")
		}
		if strings.Contains(r.flags, "!time") {
			c.Fail("C16-hang-"+op, fmt.Sprintf("CPU time %v for %d input bytes, also when run alone (%s)", r.cpu, cs.n, where), cs.line, op+":"+r.canonical(), "returns within 1s + 4us/byte")
		}
	}
	c.Note(fmt.Sprintf("calib tool.pslister+tool.nallister: n=%d maxRss=%dKiB maxCpu=%v wall=%.1fs (bounds: rss <= %d MiB + %d*len, cpu <= %v + %v/byte, timeout %v)",
		len(cases), maxRss, maxCpu, time.Since(t0).Seconds(), c16TRssC>>20, c16TRssK, c16TCpuC, c16TimePerByte, c16TTimeout))
}
