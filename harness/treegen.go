// Nested round trip (Model/Tree.lean, op tree.rt): plain containers whose leaves are all modelled are sent to the
// model; trees are taken from the repository's media and composed from model-generated leaves.
package main

import (
	"encoding/binary"
	"encoding/hex"
	"fmt"
	"math/rand"
	"strings"
)

var plainContainerTypes = []string{"moov", "trak", "mdia", "minf", "stbl", "dinf", "edts", "mvex", "moof", "traf", "mfra", "udta", "sinf", "schi", "ludt",
	"stsd", "dref", "avc1", "avc3", "hvc1", "hev1", "encv", "av01", "vp08", "vp09", "vttc", "wvtt"}

// prefixLen: bytes between the header and the first child (Model/Tree.lean `prefixed`)
func prefixLen(t string) int {
	switch t {
	case "stsd", "dref", "wvtt":
		return 8
	case "avc1", "avc3", "hvc1", "hev1", "encv", "av01", "vp08", "vp09":
		return 78
	}
	return 0
}

func isPlainContainer(t string) bool {
	for _, p := range plainContainerTypes {
		if p == t {
			return true
		}
	}
	return false
}

// allModelled: every leaf below this box has a layout term in the model (otherwise the model answers "unmodelled")
func allModelled(bs []byte, depth int) bool {
	if len(bs) < 8 || depth > 32 {
		return true // the model decides (rejects) without looking at leaves
	}
	typ := string(bs[4:8])
	if !isPlainContainer(typ) {
		return modelledBoxes[typ] || !registeredTypes()[typ]
	}
	if binary.BigEndian.Uint32(bs) == 1 {
		return true // rejected before any child is looked at
	}
	if len(bs) < 8+prefixLen(typ) {
		return true // rejected: the prefix does not fit
	}
	p := bs[8+prefixLen(typ):]
	for len(p) >= 8 {
		sz := uint64(binary.BigEndian.Uint32(p))
		if sz == 1 {
			if len(p) < 16 {
				return true
			}
			sz = binary.BigEndian.Uint64(p[8:])
			if sz < 16 {
				return true
			}
		} else if sz < 8 {
			return true
		}
		if sz > uint64(len(p)) {
			return true
		}
		if !allModelled(p[:sz], depth+1) {
			return false
		}
		p = p[sz:]
	}
	return true
}

var registeredCache map[string]bool

// registeredTypes: the decoder registry as the model sees it (regenerated from mp4/box.go by the fact extractor); a
// type outside it is an UnknownBox, which the model keeps verbatim
func registeredTypes() map[string]bool {
	if registeredCache != nil {
		return registeredCache
	}
	registeredCache = map[string]bool{}
	if r := askDriver([]string{"box.registered"}); r != nil {
		for _, h := range strings.Fields(r[0]) {
			if b, err := hex.DecodeString(h); err == nil {
				registeredCache[string(b)] = true
			}
		}
	}
	if len(registeredCache) == 0 { // no driver: nothing counts as unknown
		registeredCache["\x00none"] = true
	}
	return registeredCache
}

func treeCase(c *Ctx, which string, bs []byte) {
	if len(bs) < 8 || len(bs) > 16384 || !isPlainContainer(string(bs[4:8])) || !allModelled(bs, 0) || !exactBox(bs) {
		return
	}
	c.Case("tree.rt "+hx(bs), boxRT(bs))
	c.Count("tree." + string(bs[4:8]))
}

func wrapBox(typ string, payload []byte) []byte {
	out := make([]byte, 8, 8+len(payload))
	binary.BigEndian.PutUint32(out, uint32(8+len(payload)))
	copy(out[4:], typ)
	return append(out, payload...)
}

var likelyChildren = map[string][]string{
	"moov": {"mvhd", "trak", "trak", "trak", "mvex", "pssh", "udta", "free"},
	"trak": {"tkhd", "edts", "mdia", "free"},
	"mdia": {"mdhd", "hdlr", "minf", "free"},
	"minf": {"vmhd", "smhd", "nmhd", "sthd", "dinf", "stbl"},
	"stsd": {"avc1", "hvc1", "encv", "hev1", "avc3", "av01", "vp09", "vp08", "wvtt"},
	"dref": {"free", "skip", "cdat"},
	"wvtt": {"vttC", "vlab", "btrt"}, "vttc": {"iden", "ctim", "sttg", "payl", "vsid"},
	"avc1": {"btrt", "pasp", "clap", "SmDm", "CoLL", "sinf"}, "avc3": {"btrt", "pasp"}, "hvc1": {"btrt", "pasp", "clap", "sinf"},
	"hev1": {"btrt", "pasp"}, "encv": {"sinf", "btrt", "pasp", "sinf"}, "av01": {"av1C", "btrt", "pasp"},
	"vp08": {"vpcC", "btrt"}, "vp09": {"vpcC", "btrt", "SmDm", "CoLL"},
	"stbl": {"stsd", "stts", "ctts", "stsc", "stsz", "stco", "co64", "stss", "sdtp", "sbgp", "subs", "saiz", "saio"},
	"edts": {"elst", "elst", "elst", "elst", "free"},
	"mvex": {"mehd", "trex", "trex", "leva"},
	"moof": {"mfhd", "traf", "traf", "pssh", "free"},
	"traf": {"tfhd", "tfhd", "tfdt", "trun", "trun", "saiz", "saio", "sbgp", "subs"},
	"mfra": {"mfro", "free"},
	"udta": {"cdat", "free", "kind"},
	"sinf": {"frma", "schm", "schi"},
	"schi": {"tenc", "free"},
	"dinf": {"dref", "free"},
	"ludt": {"free"},
}

func randTree(r *rand.Rand, pool map[string][][]byte, types []string, typ string, depth int) []byte {
	var payload []byte
	n := r.Intn(6)
	nkids := 0
	for i := 0; i < n; i++ {
		var ct string
		if l := likelyChildren[typ]; len(l) > 0 && r.Intn(8) != 0 {
			ct = l[r.Intn(len(l))]
		} else if r.Intn(3) == 0 {
			ct = plainContainerTypes[r.Intn(len(plainContainerTypes))]
		} else {
			ct = types[r.Intn(len(types))]
		}
		if isPlainContainer(ct) {
			if depth >= 3 {
				continue
			}
			payload = append(payload, randTree(r, pool, types, ct, depth+1)...)
			nkids++
		} else if l := pool[ct]; len(l) > 0 {
			payload = append(payload, l[r.Intn(len(l))]...)
			nkids++
		}
	}
	if pl := prefixLen(typ); pl > 0 {
		pre := make([]byte, pl)
		for i := range pre {
			if r.Intn(3) != 0 {
				pre[i] = byte(r.Intn(256))
			}
		}
		switch pl {
		case 8: // version, flags, entry count (mostly the right one); wvtt: reserved bytes + data reference index
			if typ == "wvtt" {
				break
			}
			cnt := nkids
			if r.Intn(10) == 0 {
				cnt += r.Intn(3) - 1
			}
			binary.BigEndian.PutUint32(pre[4:], uint32(cnt))
		case 78: // compressor name length byte at offset 42, at most 31 (mostly)
			if r.Intn(12) != 0 {
				pre[42] = byte(r.Intn(32))
			}
		}
		payload = append(pre, payload...)
	}
	switch r.Intn(24) {
	case 0: // stray tail shorter than a header
		payload = append(payload, make([]byte, 1+r.Intn(7))...)
	case 1: // 16-byte header on the container
		out := []byte{0, 0, 0, 1}
		out = append(out, typ...)
		var sz [8]byte
		binary.BigEndian.PutUint64(sz[:], uint64(16+len(payload)))
		return append(append(out, sz[:]...), payload...)
	}
	return wrapBox(typ, payload)
}

// genTrees: containers of the repository's media + composed trees, through the direct oracle and the tree model
func genTrees(c *Ctx, which string, seeds []seedBox) {
	for _, sb := range seeds {
		treeCase(c, which, sb.bs)
	}
	boxes, err := modelGenBoxes(c.N(12, 60), c.Seed+77)
	if err != nil {
		c.Note("composed trees skipped: " + err.Error())
		return
	}
	pool := map[string][][]byte{}
	var types []string
	for _, sb := range boxes {
		t := string(sb.bs[4:8])
		if len(pool[t]) == 0 {
			types = append(types, t)
		}
		pool[t] = append(pool[t], sb.bs)
	}
	// leaves of every other type the corpus has (repository media, API-built boxes, committed regression boxes):
	// the model does not answer for trees that contain them, the direct oracle (four code paths) does — a leaf decoder
	// that reads beyond its box is only seen when siblings follow it
	for _, sb := range seeds {
		t := string(sb.bs[4:8])
		if len(sb.bs) > 300 || isPlainContainer(t) || modelledBoxes[t] || t == "mdat" {
			continue
		}
		if _, isContainer := walkContainers[t]; isContainer {
			continue
		}
		if len(pool[t]) == 0 {
			types = append(types, t)
		}
		if len(pool[t]) < 8 {
			pool[t] = append(pool[t], sb.bs)
		}
	}
	// the same leaves with slack: payload bytes behind the last field the box defines (a size field that says more than
	// the content needs). A decoder that stops reading early leaves a slice reader inside the box, and the container
	// then parses the slack as boxes: both decode paths must treat such a leaf alike
	rs := rand.New(rand.NewSource(c.Seed*31337 + 1))
	for _, t := range append([]string{}, types...) {
		l := pool[t]
		if len(l) == 0 || modelledBoxes[t] || binary.BigEndian.Uint32(l[0]) == 1 {
			continue
		}
		src := l[rs.Intn(len(l))]
		var slack []byte
		if rs.Intn(2) == 0 {
			slack = []byte{0, 0, 0, 8, 'f', 'r', 'e', 'e'} // looks like a box
		} else {
			slack = make([]byte, 1+rs.Intn(16))
			rs.Read(slack)
		}
		b := append(append([]byte{}, src...), slack...)
		binary.BigEndian.PutUint32(b, uint32(len(b)))
		if len(pool[t]) < 10 {
			pool[t] = append(pool[t], b)
		}
	}
	r := rand.New(rand.NewSource(c.Seed*7919 + 13))
	// boxes of types the registry does not know (UnknownBox: kept verbatim)
	if reg := registeredTypes(); len(reg) > 1 {
		for k := 0; k < 16; k++ {
			t := make([]byte, 4)
			for i := range t {
				t[i] = "abcdxyzABCXYZ0189 -_"[r.Intn(20)]
				if r.Intn(12) == 0 {
					t[i] = byte(r.Intn(256))
				}
			}
			ts := string(t)
			if reg[ts] || isPlainContainer(ts) || modelledBoxes[ts] || ts == "mdat" {
				continue
			}
			if _, isContainer := walkContainers[ts]; isContainer {
				continue
			}
			pl := make([]byte, r.Intn(21))
			r.Read(pl)
			if len(pool[ts]) == 0 {
				types = append(types, ts)
			}
			pool[ts] = append(pool[ts], wrapBox(ts, pl))
		}
	}
	for it := 0; it < c.N(1500, 30000); it++ {
		typ := plainContainerTypes[r.Intn(len(plainContainerTypes))]
		if r.Intn(3) == 0 {
			typ = []string{"moov", "traf", "edts", "moof"}[r.Intn(4)]
		}
		bs := randTree(r, pool, types, typ, 0)
		if len(bs) > 16384 {
			continue
		}
		v := checkBoxBytes(c, which, bs, fmt.Sprintf("composed tree #%d", it))
		treeCase(c, which, bs)
		key := ""
		if v.accepted {
			key = string(bs)
			c.Count("tree-accepted")
		} else {
			c.Count("tree-rejected")
		}
		c.Eval(key)
	}
}
