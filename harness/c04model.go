package main

import (
	"bytes"
	"fmt"
	"strings"

	"github.com/Eyevinn/mp4ff/bits"
	"github.com/Eyevinn/mp4ff/mp4"
)

// Correspondence glue for C04: the structural walk of Model/Walk.lean against mp4.DecodeFileSR on hostile inputs.
// "walk <hex>" is answered inside an isolated worker: "ok <type skeleton>" when the file decodes, "err" when the
// decoder returns one of its *structural* errors, "leaf-err" for every other error (leaf decoders are not modelled).

var c04PlainContainers = map[string]bool{"moov": true, "trak": true, "mdia": true, "minf": true, "stbl": true, "dinf": true, "edts": true,
	"mvex": true, "moof": true, "traf": true, "mfra": true, "udta": true, "sinf": true, "schi": true, "ludt": true}

// c04TypeText renders a four-byte type with every byte outside the plain printable range as ~HH
func c04TypeText(t string) string {
	var sb strings.Builder
	for i := 0; i < len(t); i++ {
		ch := t[i]
		if ch < 0x21 || ch > 0x7d || ch == '(' || ch == ')' || ch == ',' {
			fmt.Fprintf(&sb, "~%02x", ch)
		} else {
			sb.WriteByte(ch)
		}
	}
	return sb.String()
}

func c04Skel(b mp4.Box) string {
	raw := b.Type()
	t := c04TypeText(raw)
	if c04PlainContainers[raw] {
		if cb, ok := b.(c04HasChildren); ok {
			var p []string
			for _, ch := range cb.GetChildren() {
				p = append(p, c04Skel(ch))
			}
			if len(p) > 0 {
				return t + "(" + strings.Join(p, ",") + ")"
			}
		}
	}
	return t
}

func c04SkelOld(b mp4.Box) string {
	t := b.Type()
	if c04PlainContainers[t] {
		if cb, ok := b.(c04HasChildren); ok {
			var p []string
			for _, ch := range cb.GetChildren() {
				p = append(p, c04Skel(ch))
			}
			if len(p) > 0 {
				return t + "(" + strings.Join(p, ",") + ")"
			}
		}
	}
	return t
}

func c04WalkAnswer(d []byte) (ans string) {
	defer func() {
		if r := recover(); r != nil {
			ans = fmt.Sprintf("panic: %v", r)
		}
	}()
	// Both decoders must accept the input: the slice-reader path lets a leaf decoder consume more or less than its
	// box (then the next header is read from the wrong place), the reader path accounts positions with the
	// recomputed Size(); an input both accept has leaf boxes that fill their boxes exactly, which is what the
	// structural model assumes.
	f, err := mp4.DecodeFileSR(bits.NewFixedSliceReader(d))
	if err == nil {
		_, err = mp4.DecodeFile(bytes.NewReader(d))
	}
	if err != nil {
		return "leaf-err"
	}
	// … and the library must reproduce the input from what it decoded (every Size() equals the header size it read):
	// the decoders are lenient about a leaf whose header size disagrees with what its syntax occupies, which the
	// header-size-based structural model cannot follow.
	var enc bytes.Buffer
	if e := f.Encode(&enc); e != nil || !bytes.Equal(enc.Bytes(), d) {
		return "noncanonical"
	}
	var p []string
	for _, ch := range f.Children {
		p = append(p, c04Skel(ch))
	}
	if len(p) == 0 {
		return "ok -"
	}
	return "ok " + strings.Join(p, ",")
}

// c04WalkCorrespondence: a sample of the generated inputs (small ones) goes to workers as "walk" requests; the answers
// that the model can be held to ("ok …" and structural "err") become model cases.
func c04WalkCorrespondence(c *Ctx, lines []string, workers int) {
	var reqs []string
	for _, l := range lines {
		d, _, err := c04DecodeLine(l)
		if err != nil || len(d) == 0 || len(d) > 3000 {
			continue
		}
		reqs = append(reqs, "walk "+hx(d))
	}
	if len(reqs) == 0 {
		return
	}
	answers := c04RunPool(reqs, workers, 200, nil)
	for i, a := range answers {
		a = strings.Split(a, " | ")[0]
		switch {
		case strings.HasPrefix(a, "ok "):
			c.Count("walk correspondence: file decodes")
			c.Case(reqs[i], a)
		case a == "leaf-err":
			c.Count("walk correspondence: rejected by a decoder (not comparable)")
		case a == "noncanonical":
			c.Count("walk correspondence: accepted but not reproduced by Encode (not comparable)")
		default:
			c.Count("walk correspondence: other answer")
		}
	}
}

func (cs c04Case) kindTop() string {
	switch cs.origin {
	case "F", "S", "P", "G", "scenario":
		return "file"
	}
	return "box"
}
