package main

import (
	"bytes"
	"fmt"
	"strings"

	"github.com/Eyevinn/mp4ff/bits"
	"github.com/Eyevinn/mp4ff/mp4"
)

// Correspondence glue for C04: the structural walk of Model/Walk.lean against mp4.DecodeFileSR on hostile inputs.
// "walk <hex>" is answered inside an isolated worker: "ok <type skeleton>" when the file decodes, "err" when the
// decoder returns one of its *structural* errors, "leaf-err" for every other error (leaf decoders are not modelled).

var c04PlainContainers = map[string]bool{"moov": true, "trak": true, "mdia": true, "minf": true, "stbl": true, "dinf": true, "edts": true,
	"mvex": true, "moof": true, "traf": true, "mfra": true, "udta": true, "sinf": true, "schi": true, "ludt": true}

// c04TypeText renders a four-byte type with every byte outside the plain printable range as ~HH
func c04TypeText(t string) string {
	var sb strings.Builder
	for i := 0; i < len(t); i++ {
		ch := t[i]
		if ch < 0x21 || ch > 0x7d || ch == '(' || ch == ')' || ch == ',' {
			fmt.Fprintf(&sb, "~%02x", ch)
		} else {
			sb.WriteByte(ch)
		}
	}
	return sb.String()
}

func c04Skel(b mp4.Box) string {
	raw := b.Type()
	t := c04TypeText(raw)
	if c04PlainContainers[raw] {
		if cb, ok := b.(c04HasChildren); ok {
			var p []string
			for _, ch := range cb.GetChildren() {
				p = append(p, c04Skel(ch))
			}
			if len(p) > 0 {
				return t + "(" + strings.Join(p, ",") + ")"
			}
		}
	}
	return t
}

func c04SkelOld(b mp4.Box) string {
	t := b.Type()
	if c04PlainContainers[t] {
		if cb, ok := b.(c04HasChildren); ok {
			var p []string
			for _, ch := range cb.GetChildren() {
				p = append(p, c04Skel(ch))
			}
			if len(p) > 0 {
				return t + "(" + strings.Join(p, ",") + ")"
			}
		}
	}
	return t
}

func c04WalkAnswer(d []byte) (ans string) {
	defer func() {
		if r := recover(); r != nil {
			ans = fmt.Sprintf("panic: %v", r)
		}
	}()
	// Both decoders must accept the input: the slice-reader path lets a leaf decoder consume more or less than its
	// box (then the next header is read from the wrong place), the reader path accounts positions with the
	// recomputed Size(); an input both accept has leaf boxes that fill their boxes exactly, which is what the
	// structural model assumes.
	f, err := mp4.DecodeFileSR(bits.NewFixedSliceReader(d))
	if err == nil {
		_, err = mp4.DecodeFile(bytes.NewReader(d))
	}
	if err != nil {
		return "leaf-err"
	}
	// … and the library must reproduce the input from what it decoded (every Size() equals the header size it read):
	// the decoders are lenient about a leaf whose header size disagrees with what its syntax occupies, which the
	// header-size-based structural model cannot follow.
	var enc bytes.Buffer
	if e := f.Encode(&enc); e != nil || !bytes.Equal(enc.Bytes(), d) {
		return "noncanonical"
	}
	var p []string
	for _, ch := range f.Children {
		p = append(p, c04Skel(ch))
	}
	if len(p) == 0 {
		return "ok -"
	}
	return "ok " + strings.Join(p, ",")
}

// c04WalkCorrespondence: a sample of the generated inputs (small ones) goes to workers as "walk" requests; the answers
// that the model can be held to ("ok …" and structural "err") become model cases.
func c04WalkCorrespondence(c *Ctx, lines []string, workers int) {
	var reqs []string
	for _, l := range lines {
		d, _, err := c04DecodeLine(l)
		if err != nil || len(d) == 0 || len(d) > 3000 {
			continue
		}
		reqs = append(reqs, "walk "+hx(d))
	}
	if len(reqs) == 0 {
		return
	}
	answers := c04RunPool(reqs, workers, 200, nil)
	for i, a := range answers {
		a = strings.Split(a, " | ")[0]
		switch {
		case strings.HasPrefix(a, "ok "):
			c.Count("walk correspondence: file decodes")
			c.Case(reqs[i], a)
		case a == "leaf-err":
			c.Count("walk correspondence: rejected by a decoder (not comparable)")
		case a == "noncanonical":
			c.Count("walk correspondence: accepted but not reproduced by Encode (not comparable)")
		default:
			c.Count("walk correspondence: other answer")
		}
	}
}

// ---- senc size check: Model/SencSize.lean against SencBox.ParseReadBox

// "sencsize <iv> <count> <left>": a senc box without the sub-sample flag that announces <count> samples over <left>
// per-sample bytes is decoded as a box and handed to its second-stage parser with the IV size <iv> of the context
// (0 = unknown). Answer: "ok <IV size recorded> <IVs read>" or "err". Runs inside a worker (address-space limit).
func c04SencSizeAnswer(req string) (ans string) {
	defer func() {
		if r := recover(); r != nil {
			ans = fmt.Sprintf("panic: %v", r)
		}
	}()
	f := strings.Fields(req)
	if len(f) != 4 {
		return "bad-request"
	}
	iv, count, left := atoi(f[1]), atoi(f[2]), atoi(f[3])
	if iv < 0 || iv > 255 || count <= 0 || count > 0xffffffff || left <= 0 || left > 1<<20 {
		return "bad-request"
	}
	bx, err := mp4.DecodeBox(0, bytes.NewReader(box("senc", c04Cat(c04U32(0, uint32(count)), make([]byte, left)))))
	if err != nil {
		return "decode-err"
	}
	s, ok := bx.(*mp4.SencBox)
	if !ok || !s.ReadButNotParsed() {
		return "not-pending"
	}
	if err := s.ParseReadBox(byte(iv), nil); err != nil {
		return "err"
	}
	return fmt.Sprintf("ok %d %d", s.PerSampleIVSize(), len(s.IVs))
}

// c04SencSizeCorrespondence: IV sizes x payload lengths x the boundary sample counts (what fits, one more, and the
// counts whose product with 8 / 16 / 24 / the IV size wraps 32 bits); a worker that dies on a request is a disagreement.
func c04SencSizeCorrespondence(c *Ctx, workers int) {
	r := c.R
	var reqs []string
	seen := map[string]bool{}
	for _, iv := range []int{0, 8, 16, 1, 4, 7, 9, 24, 128, 255} {
		for _, left := range []int{1, 7, 8, 9, 15, 16, 17, 24, 32, 48, 255, 256, 257, 1000 + r.Intn(3000)} {
			per := iv
			if per == 0 {
				per = 8
			}
			counts := c04WrapSet([]int{8, 16, 24, iv}, uint32(left/per))
			for _, d := range []int{8, 16, per, 1} {
				counts = append(counts, uint32(left/d), uint32(left/d)+1)
			}
			counts = append(counts, 1, 2, 3, r.Uint32(), uint32(1+r.Intn(left+2)))
			for _, n := range counts {
				q := fmt.Sprintf("sencsize %d %d %d", iv, n, left)
				if n == 0 || seen[q] {
					continue
				}
				seen[q] = true
				reqs = append(reqs, q)
			}
		}
	}
	answers := c04RunPool(reqs, workers, 400, nil)
	for i, a := range answers {
		a = strings.Split(a, " | ")[0]
		switch {
		case strings.HasPrefix(a, "ok "):
			c.Count("senc size correspondence: accepted")
		case a == "err":
			c.Count("senc size correspondence: rejected")
		case a == "-":
			a = "worker died"
			c.Count("senc size correspondence: worker died")
		default:
			c.Count("senc size correspondence: other answer")
		}
		c.Case(reqs[i], a)
	}
}

func (cs c04Case) kindTop() string {
	switch cs.origin {
	case "F", "S", "P", "G", "E", "scenario":
		return "file"
	}
	return "box"
}
