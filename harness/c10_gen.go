package main

import (
	"bytes"
	"fmt"
	"math/rand"

	"github.com/Eyevinn/mp4ff/mp4"
)

// Extended progressive-file generator for C10/C11 (progfile.go is left untouched). It reuses progTrack/progFile
// and progFile.buildMoov, and adds the dimensions progfile.go lacks:
//   - edit lists (edts/elst) on tracks,
//   - uniform sample size (stsz sample_size != 0),
//   - ctts version 1 with negative offsets,
//   - more time scales (600, 1000, 15360, 24000, 48000, 44100 ...) and movie time scales (600, 1000, 90000),
//   - audio-only files and audio before video (reference track is not track 1),
//   - tracks of comparable length (so that the tools do not just fail because a track ends early),
//   - layouts: random interleaving, round robin, track after track,
//   - directed coincidences: a sync sample of the reference track that starts a fraction of a millisecond
//     before a whole millisecond, and samples of other tracks that start within one tick of the end time
//     converted to their time scale (the places where rounding direction decides the cut).

type progExt struct {
	*progFile
	edts      []bool
	shortPct  []int // with an edit list: the presentation (tkhd duration, elst segment) covers only this percentage of the media (0 = all)
	mediaTime []int64
	elstSplit []int // with an edit list: percentage of the presentation taken by a leading empty edit (0 = single entry)
	mvhdMode  int   // movie header duration: 0 = longest track, 1 = shortest track, 2 = 0 ("unknown": under-reports)
	uniform   []bool
	cttsV1    []bool
	mvhdTS    uint32
	layout    string
	flavor    string
}

type trackOpts struct {
	media     string
	timescale uint32
	n         int
	base      uint32
	irregular int // 1/irregular samples get an odd duration; 0 = none
	hasStss   bool
	hasCtts   bool
	cttsV1    bool
	hasSdtp   bool
	uniform   bool
	gop       int
	chunking  int // 0 random runs, 1 one sample per chunk, 2 single chunk, 3 long chunks
}

func genTrackExt(r *rand.Rand, o trackOpts) *progTrack {
	t := &progTrack{media: o.media, timescale: o.timescale, hasStss: o.hasStss, hasCtts: o.hasCtts, hasSdtp: o.hasSdtp}
	usz := uint32(1 + r.Intn(30))
	// empty samples (size 0: empty cues of a text / metadata track) in stretches long enough to fill whole chunks
	emptyRuns := !o.uniform && r.Intn(6) == 0
	emptyLeft := 0
	for i := 0; i < o.n; i++ {
		d := o.base
		if o.irregular > 0 && r.Intn(o.irregular) == 0 {
			d = 1 + uint32(r.Intn(int(2*o.base)))
		}
		t.durs = append(t.durs, d)
		isSync := !o.hasStss || i%o.gop == 0 || r.Intn(25) == 0
		t.sync = append(t.sync, isSync)
		cto := int32(0)
		if o.hasCtts {
			cto = int32(r.Intn(4)) * int32(o.base)
			if o.cttsV1 {
				cto -= int32(o.base)
			}
		}
		t.ctos = append(t.ctos, cto)
		sz := uint32(1 + r.Intn(40))
		if r.Intn(8) == 0 {
			sz = uint32(1 + r.Intn(700))
		}
		if o.uniform {
			sz = usz
		}
		if emptyRuns {
			if emptyLeft == 0 && r.Intn(5) == 0 {
				emptyLeft = 1 + r.Intn(8)
			}
			if emptyLeft > 0 {
				emptyLeft--
				sz = 0
			}
		}
		t.sizes = append(t.sizes, sz)
		d2 := make([]byte, sz)
		r.Read(d2)
		t.data = append(t.data, d2)
		if o.hasSdtp {
			t.sdtp = append(t.sdtp, byte(r.Intn(256)))
		}
	}
	left := o.n
	cur := 1 + r.Intn(6)
	for left > 0 {
		switch o.chunking {
		case 1:
			cur = 1
		case 2:
			cur = left
		case 3:
			if r.Intn(3) == 0 {
				cur = 1 + r.Intn(25)
			}
		default:
			if r.Intn(3) == 0 {
				cur = 1 + r.Intn(6)
			}
		}
		k := cur
		if k > left {
			k = left
		}
		t.chunkLens = append(t.chunkLens, k)
		left -= k
	}
	return t
}

var extVideoTS = []uint32{90000, 25000, 30000, 12800, 600, 1000, 15360, 24000, 10000000}
var extAudioTS = []uint32{48000, 44100, 22050, 16000, 11025}

// genProgExt: flavor = "mixed" (1..nTracks tracks in any order), "va" (one video, at most one audio: the
// segmenter's documented input), "audio" (audio only)
func genProgExt(r *rand.Rand, nTracks, maxSamples int, flavor string) *progExt {
	pe := &progExt{progFile: &progFile{mdatFirst: r.Intn(3) == 0, largeMdat: r.Intn(4) == 0, co64: r.Intn(4) == 0}, flavor: flavor}
	pe.mvhdTS = []uint32{1000, 1000, 600, 90000}[r.Intn(4)]
	pe.layout = []string{"random", "random", "roundrobin", "sequential"}[r.Intn(4)]
	var medias []string
	switch flavor {
	case "audio":
		for i := 0; i < nTracks; i++ {
			medias = append(medias, "audio")
		}
	case "va":
		medias = []string{"video"}
		if nTracks > 1 {
			medias = append(medias, "audio")
			if r.Intn(3) == 0 {
				medias[0], medias[1] = medias[1], medias[0]
			}
		}
	default:
		for i := 0; i < nTracks; i++ {
			medias = append(medias, []string{"video", "audio", "audio"}[r.Intn(3)])
		}
	}
	aligned := r.Intn(3) > 0 || flavor == "va"
	// target length in seconds of the first track; others follow when aligned
	var targetSec float64
	for i, m := range medias {
		o := trackOpts{media: m}
		if m == "video" {
			o.timescale = extVideoTS[r.Intn(len(extVideoTS))]
			fps := []int{24, 25, 30, 50, 12}[r.Intn(5)]
			o.base = o.timescale / uint32(fps)
			if o.base == 0 {
				o.base = 1
			}
			o.hasStss = r.Intn(5) > 0
			if flavor == "va" {
				o.hasStss = r.Intn(12) > 0
			}
			o.hasCtts = r.Intn(3) > 0
			o.cttsV1 = o.hasCtts && r.Intn(3) == 0
			o.hasSdtp = r.Intn(3) == 0
			o.gop = 1 + r.Intn(12)
		} else {
			o.timescale = extAudioTS[r.Intn(len(extAudioTS))]
			o.base = 1024
			if o.timescale <= 1000 {
				o.base = 20
			}
			o.uniform = r.Intn(3) == 0
			o.hasSdtp = r.Intn(10) == 0
			o.gop = 1
		}
		switch r.Intn(4) {
		case 0:
			o.irregular = 0
		case 1:
			o.irregular = 2
		default:
			o.irregular = 9
		}
		o.chunking = []int{0, 0, 0, 1, 2, 3}[r.Intn(6)]
		n := 1 + r.Intn(maxSamples)
		if i > 0 && aligned {
			n = int(targetSec*float64(o.timescale)/float64(o.base)) + r.Intn(5) - 1
			if flavor == "va" && r.Intn(4) > 0 {
				n += 2 // a little longer than the first track
			}
			if n < 1 {
				n = 1
			}
			if n > 4*maxSamples {
				n = 4 * maxSamples
			}
		}
		o.n = n
		t := genTrackExt(r, o)
		if i == 0 {
			var tot uint64
			for _, d := range t.durs {
				tot += uint64(d)
			}
			targetSec = float64(tot) / float64(t.timescale)
		}
		pe.tracks = append(pe.tracks, t)
		pe.edts = append(pe.edts, r.Intn(3) == 0)
		sp := 0
		if pe.edts[len(pe.edts)-1] && r.Intn(3) == 0 {
			sp = 30 + r.Intn(60)
		}
		pe.shortPct = append(pe.shortPct, sp)
		// derived generator: does not disturb the main random stream
		r2 := rand.New(rand.NewSource(int64(len(t.durs))*7919 + int64(o.timescale)*31 + int64(i)))
		es := 0
		if r2.Intn(3) == 0 {
			es = 5 + r2.Intn(60)
		}
		pe.elstSplit = append(pe.elstSplit, es)
		if i == 0 {
			switch r2.Intn(12) {
			case 0:
				pe.mvhdMode = 1
			case 1:
				pe.mvhdMode = 2
			}
		}
		mt := int64(0)
		if t.hasCtts && r.Intn(2) == 0 {
			mt = int64(o.base)
		}
		pe.mediaTime = append(pe.mediaTime, mt)
		pe.uniform = append(pe.uniform, o.uniform)
		pe.cttsV1 = append(pe.cttsV1, o.cttsV1)
	}
	pe.alignCoincidences(r)
	pe.buildExt(r)
	return pe
}

// refIdx mirrors the tools' choice of the reference track.
func (pe *progExt) refIdx() int {
	for i, t := range pe.tracks {
		if t.media == "video" {
			return i
		}
	}
	return 0
}

func starts(t *progTrack) []uint64 {
	s := make([]uint64, len(t.durs)+1)
	for i, d := range t.durs {
		s[i+1] = s[i] + uint64(d)
	}
	return s
}

// alignCoincidences nudges single durations so that rounding-sensitive situations occur often.
func (pe *progExt) alignCoincidences(r *rand.Rand) {
	ref := pe.tracks[pe.refIdx()]
	T := uint64(ref.timescale)
	// (a) a sync sample of the reference track starting just below a whole millisecond
	if r.Intn(2) == 0 && len(ref.durs) > 2 {
		var syncs []int
		for i := 1; i < len(ref.durs); i++ {
			if ref.sync[i] {
				syncs = append(syncs, i)
			}
		}
		if len(syncs) > 0 {
			j := syncs[r.Intn(len(syncs))]
			st := starts(ref)
			ms := (st[j]*1000 + T/2) / T
			if ms == 0 {
				ms = 1
			}
			target := ms * T / 1000 // floor: starts at or a fraction of a ms before ms
			nd := int64(ref.durs[j-1]) + int64(target) - int64(st[j])
			if nd >= 1 {
				ref.durs[j-1] = uint32(nd)
			}
		}
	}
	// (b) samples of the other tracks starting within a tick of a reference sync sample's start
	st := starts(ref)
	for ti, t := range pe.tracks {
		if ti == pe.refIdx() || r.Intn(3) == 0 || len(t.durs) < 2 {
			continue
		}
		for rep := 0; rep < 3; rep++ {
			var syncs []int
			for i := 1; i < len(ref.durs); i++ {
				if ref.sync[i] {
					syncs = append(syncs, i)
				}
			}
			if len(syncs) == 0 {
				break
			}
			j := syncs[r.Intn(len(syncs))]
			x := st[j] * uint64(t.timescale) / T // floor of the end time in this track's scale
			target := int64(x) + int64(r.Intn(4)) - 1
			ts := starts(t)
			// nearest sample start
			best := -1
			var bd int64 = 1 << 62
			for m := 1; m < len(t.durs); m++ {
				d := int64(ts[m]) - target
				if d < 0 {
					d = -d
				}
				if d < bd {
					bd, best = d, m
				}
			}
			if best < 1 {
				break
			}
			nd := int64(t.durs[best-1]) + target - int64(ts[best])
			if nd >= 1 && nd < 1<<31 {
				t.durs[best-1] = uint32(nd)
			}
		}
	}
}

func (pe *progExt) buildExt(r *rand.Rand) {
	pf := pe.progFile
	moov := pf.buildMoov()
	moov.Mvhd.Timescale = pe.mvhdTS
	var maxDur uint64
	for i, t := range pf.tracks {
		trak := moov.Traks[i]
		stbl := trak.Mdia.Minf.Stbl
		var total uint64
		for _, d := range t.durs {
			total += uint64(d)
		}
		trak.Tkhd.Duration = total * uint64(pe.mvhdTS) / uint64(t.timescale)
		if pe.edts[i] && pe.shortPct[i] > 0 && trak.Tkhd.Duration > 1 {
			trak.Tkhd.Duration = trak.Tkhd.Duration * uint64(pe.shortPct[i]) / 100
		}
		if trak.Tkhd.Duration > maxDur {
			maxDur = trak.Tkhd.Duration
		}
		if pe.uniform[i] {
			stbl.Stsz.SampleUniformSize = t.sizes[0]
			stbl.Stsz.SampleSize = nil
		}
		if pe.cttsV1[i] && stbl.Ctts != nil {
			stbl.Ctts.Version = 1
		}
		if pe.edts[i] {
			edts := &mp4.EdtsBox{}
			elst := &mp4.ElstBox{Entries: []mp4.ElstEntry{{SegmentDuration: trak.Tkhd.Duration, MediaTime: pe.mediaTime[i], MediaRateInteger: 1}}}
			if es := pe.elstSplit[i]; es > 0 && trak.Tkhd.Duration > 2 {
				d0 := trak.Tkhd.Duration * uint64(es) / 100
				elst.Entries = []mp4.ElstEntry{{SegmentDuration: d0, MediaTime: -1, MediaRateInteger: 1},
					{SegmentDuration: trak.Tkhd.Duration - d0, MediaTime: pe.mediaTime[i], MediaRateInteger: 1}}
			}
			edts.Elst = append(edts.Elst, elst)
			edts.Children = append(edts.Children, elst)
			var kids []mp4.Box
			for _, c := range trak.Children {
				kids = append(kids, c)
				if c.Type() == "tkhd" {
					kids = append(kids, edts)
				}
			}
			trak.Children = kids
			trak.Edts = edts
		}
	}
	moov.Mvhd.Duration = maxDur
	switch pe.mvhdMode {
	case 1:
		for _, trak := range moov.Traks {
			if trak.Tkhd.Duration < moov.Mvhd.Duration {
				moov.Mvhd.Duration = trak.Tkhd.Duration
			}
		}
	case 2:
		moov.Mvhd.Duration = 0
	}
	ftyp := mp4.NewFtyp("isom", 0x200, []string{"isom", "iso2", "avc1", "mp41"})
	hdr := 8
	if pf.largeMdat {
		hdr = 16
	}
	pf.mdatHdr = hdr
	var payloadStart uint64
	if pf.mdatFirst {
		payloadStart = ftyp.Size() + uint64(hdr)
	} else {
		payloadStart = ftyp.Size() + moov.Size() + uint64(hdr)
	}
	var payload []byte
	next := make([]int, len(pf.tracks))
	nextS := make([]int, len(pf.tracks))
	rr := 0
	for {
		var cand []int
		for i, t := range pf.tracks {
			if next[i] < len(t.chunkLens) {
				cand = append(cand, i)
			}
		}
		if len(cand) == 0 {
			break
		}
		var i int
		switch pe.layout {
		case "sequential":
			i = cand[0]
		case "roundrobin":
			i = cand[rr%len(cand)]
			rr++
		default:
			i = cand[r.Intn(len(cand))]
		}
		t := pf.tracks[i]
		if r.Intn(5) == 0 {
			payload = append(payload, make([]byte, r.Intn(5))...)
		}
		t.chunkOffs = append(t.chunkOffs, payloadStart+uint64(len(payload)))
		for k := 0; k < t.chunkLens[next[i]]; k++ {
			payload = append(payload, t.data[nextS[i]]...)
			nextS[i]++
		}
		next[i]++
	}
	for i, t := range pf.tracks {
		stbl := moov.Traks[i].Mdia.Minf.Stbl
		if stbl.Co64 != nil {
			stbl.Co64.ChunkOffset = t.chunkOffs
		} else {
			for k, o := range t.chunkOffs {
				stbl.Stco.ChunkOffset[k] = uint32(o)
			}
		}
	}
	mdat := &mp4.MdatBox{LargeSize: pf.largeMdat}
	mdat.SetData(payload)
	var buf bytes.Buffer
	must(ftyp.Encode(&buf))
	if pf.mdatFirst {
		pf.mdatStart = uint64(buf.Len())
		must(mdat.Encode(&buf))
		must(moov.Encode(&buf))
	} else {
		must(moov.Encode(&buf))
		pf.mdatStart = uint64(buf.Len())
		must(mdat.Encode(&buf))
	}
	pf.mdatSize = uint64(hdr + len(payload))
	pf.bytes = buf.Bytes()
	if pf.mdatStart+uint64(hdr) != payloadStart {
		panic(fmt.Sprintf("layout mismatch %d %d", pf.mdatStart+uint64(hdr), payloadStart))
	}
}

// selfCheck compares the generator's own per-sample knowledge with the raw expansion of the bytes it wrote
// (guards the oracle's input side: a generator or parser slip shows up here, not as a tool failure).
func progSelfCheck(pf *progFile, rp *rawProg) string {
	if len(rp.tracks) != len(pf.tracks) {
		return "track count"
	}
	if p := rp.problems(); len(p) > 0 {
		return p[0]
	}
	for i, t := range pf.tracks {
		rt := rp.tracks[i]
		if rt.n != len(t.durs) {
			return fmt.Sprintf("track %d: n %d vs %d", i+1, rt.n, len(t.durs))
		}
		for k := range t.durs {
			if rt.dur[k] != t.durs[k] || rt.cto[k] != t.ctos[k] || rt.sync[k] != t.sync[k] || !bytes.Equal(rt.data[k], t.data[k]) {
				return fmt.Sprintf("track %d sample %d differs", i+1, k+1)
			}
		}
	}
	return ""
}
