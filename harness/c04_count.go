package main

// C04: the "count x element size" family. Every table in the format is announced by a count that the decoder multiplies
// by an element size before it compares the product with the bytes it has, allocates, or loops. The hostile values of
// such a count are not only the huge round numbers but the ones for which count*elem, computed in 32 bits, WRAPS to a
// small number (0, the real table size, something that still fits the payload): count = ceil(k*2^32/elem) + j.
//   * c04WrapSet / c04WrapCount: the boundary counts (deterministic set for the scenarios, random member for the mutator)
//   * c04CountScenarios: every count-prefixed table box with a few real entries x those counts, bare and inside its
//     container chain; the senc box inside moof/traf in every context that fixes its per-sample IV size (none = inferred,
//     seig sample group, tenc of a preceding init segment), with/without saiz+saio, without and with sub-sample entries,
//     plain and PIFF uuid form
//   * E:<seed> bases: fragmented files encrypted through the library (cenc with 8/16-byte IVs, cbcs; video with
//     sub-samples, audio without) as mutation seeds, so that the mutator reaches the second-stage senc parser
//   * countCase: a mutation aimed at a count-prefixed box of a seed (instead of a random box)

import (
	"bytes"
	"encoding/binary"
	"fmt"
	"math/rand"
	"strings"
	"sync"

	"github.com/Eyevinn/mp4ff/mp4"
)

// ---- boundary counts

// c04WrapSet: for every element size e (>= 2) the counts around ceil(k*2^32/e), k = 1 and k = e-1 (product wraps to
// about 0, to e, and to exactly n*e = the size of a real table of n entries), plus the classic round values.
func c04WrapSet(es []int, n uint32) []uint32 {
	seen := map[uint32]bool{}
	var out []uint32
	add := func(v uint64) {
		if v <= 0xffffffff && !seen[uint32(v)] {
			seen[uint32(v)] = true
			out = append(out, uint32(v))
		}
	}
	for _, e := range es {
		if e < 2 {
			continue
		}
		ks := []int{1}
		if e > 2 {
			ks = append(ks, e-1)
		}
		for _, k := range ks {
			base := (uint64(k)<<32 + uint64(e) - 1) / uint64(e)
			add(base - 1)
			add(base)
			add(base + 1)
			add(base + uint64(n))
		}
	}
	for _, v := range []uint64{0, uint64(n) + 1, 1 << 24, 1<<31 - 1, 1 << 31, 1<<31 + uint64(n), 1<<32 - 2, 1<<32 - 1} {
		add(v)
	}
	return out
}

var c04WrapElems = []int{2, 3, 4, 5, 6, 8, 9, 10, 11, 12, 16, 17, 18, 19, 20, 24, 28, 32, 40, 48, 64, 255}

// c04WrapCount picks a count whose 32-bit product with an element size e wraps to a value that fits the `room` bytes
// behind the count field. e = the element size the box itself exhibits (room / old count, when that divides), one of the
// usual table element sizes, or any small number.
func c04WrapCount(r *rand.Rand, old uint32, room int) (uint32, int) {
	e := c04WrapElems[r.Intn(len(c04WrapElems))]
	switch r.Intn(4) {
	case 0, 1:
		if old > 0 && room > 0 && room%int(old) == 0 && room/int(old) >= 2 && room/int(old) <= 4096 {
			e = room / int(old)
		}
	case 2:
		e = 2 + r.Intn(63)
	}
	k := 1
	switch r.Intn(4) {
	case 0:
		k = e - 1
	case 1:
		k = 1 + r.Intn(e-1)
	}
	base := (uint64(k)<<32 + uint64(e) - 1) / uint64(e)
	fit := 0
	if room > 0 {
		fit = room / e
	}
	js := []int{0, 0, 1, int(old), int(old), fit, fit + 1, r.Intn(fit + 1), 2}
	v := base + uint64(js[r.Intn(len(js))])
	if v > 0xffffffff {
		v = base
	}
	return uint32(v), e
}

// ---- scenarios

type c04Table struct {
	name string
	typ  string
	head []byte   // payload in front of the count field
	mid  []byte   // payload between the count field and the entries
	ent  []byte   // one entry
	tail []byte   // payload behind the entries
	wrap []string // container chain (innermost first) of the file-level variant
}

var c04PiffSencUUID = []byte{0xa2, 0x39, 0x4f, 0x52, 0x5a, 0x9b, 0x4f, 0x14, 0xa2, 0x44, 0x6c, 0x42, 0x7c, 0x64, 0x8d, 0xf4}

func c04Tables() []c04Table {
	stbl := []string{"stbl", "minf", "mdia", "trak", "moov"}
	traf := []string{"traf", "moof"}
	z := func(n int) []byte { return make([]byte, n) }
	return []c04Table{
		{"stts", "stts", z(4), nil, c04U32(1, 1000), nil, stbl},
		{"ctts", "ctts", z(4), nil, c04U32(1, 0), nil, stbl},
		{"ctts v1", "ctts", []byte{1, 0, 0, 0}, nil, c04U32(1, 0xffffff00), nil, stbl},
		{"stsc", "stsc", z(4), nil, c04U32(1, 1, 1), nil, stbl},
		{"stco", "stco", z(4), nil, c04U32(40), nil, stbl},
		{"co64", "co64", z(4), nil, c04U32(0, 40), nil, stbl},
		{"stss", "stss", z(4), nil, c04U32(1), nil, stbl},
		{"stsz", "stsz", z(8), nil, c04U32(5), nil, stbl},
		{"stz2 8-bit", "stz2", []byte{0, 0, 0, 0, 0, 0, 0, 8}, nil, []byte{5}, nil, stbl},
		{"stz2 16-bit", "stz2", []byte{0, 0, 0, 0, 0, 0, 0, 16}, nil, []byte{0, 5}, nil, stbl},
		{"sdtp-less stsd of empty entries", "stsd", z(4), nil, box("mp4s", z(8)), nil, stbl},
		{"dref", "dref", z(4), nil, box("url ", []byte{0, 0, 0, 1}), nil, []string{"dinf", "minf", "mdia", "trak", "moov"}},
		{"elst v0", "elst", z(4), nil, c04Cat(c04U32(1000, 0), []byte{0, 1, 0, 0}), nil, []string{"edts", "trak", "moov"}},
		{"elst v1", "elst", []byte{1, 0, 0, 0}, nil, c04Cat(c04U32(0, 1000, 0, 0), []byte{0, 1, 0, 0}), nil, []string{"edts", "trak", "moov"}},
		// runs whose samples carry no per-sample field at all: the count is then not backed by any payload byte
		{"trun no fields", "trun", z(4), nil, nil, nil, traf},
		{"trun data offset only", "trun", []byte{0, 0, 0, 1}, c04U32(0), nil, nil, traf},
		{"trun first sample flags only", "trun", []byte{0, 0, 0, 4}, c04U32(0x02000000), nil, nil, traf},
		{"trun data offset + first sample flags only", "trun", []byte{0, 0, 0, 5}, c04U32(0, 0x02000000), nil, nil, traf},
		{"trun durations", "trun", []byte{0, 0, 1, 0}, nil, c04U32(1000), nil, traf},
		{"trun offset+duration+size", "trun", []byte{0, 0, 3, 1}, c04U32(0), c04U32(1000, 2), nil, traf},
		{"trun all fields", "trun", []byte{0, 0, 0x0f, 5}, c04U32(0, 0), c04U32(1000, 2, 0, 0), nil, traf},
		{"saiz", "saiz", []byte{0, 0, 0, 0, 0}, nil, []byte{8}, nil, traf},
		{"saiz with aux info type", "saiz", c04Cat([]byte{0, 0, 0, 1}, []byte("cenc"), c04U32(0), []byte{0}), nil, []byte{8}, nil, traf},
		{"saio v0", "saio", z(4), nil, c04U32(100), nil, traf},
		{"saio v1", "saio", []byte{1, 0, 0, 0}, nil, c04U32(0, 100), nil, traf},
		{"saio v1 with aux info type", "saio", c04Cat([]byte{1, 0, 0, 1}, []byte("cenc"), c04U32(0)), nil, c04U32(0, 100), nil, traf},
		{"sbgp", "sbgp", c04Cat(z(4), []byte("roll")), nil, c04U32(1, 1), nil, traf},
		{"sbgp v1", "sbgp", c04Cat([]byte{1, 0, 0, 0}, []byte("roll"), c04U32(0)), nil, c04U32(1, 1), nil, traf},
		{"sgpd v1 roll", "sgpd", c04Cat([]byte{1, 0, 0, 0}, []byte("roll"), c04U32(2)), nil, []byte{0xff, 0xff}, nil, traf},
		{"sgpd v1 seig", "sgpd", c04Cat([]byte{1, 0, 0, 0}, []byte("seig"), c04U32(20)), nil, c04Cat([]byte{0, 0, 1, 8}, z(16)), nil, traf},
		{"sgpd v1 unknown type", "sgpd", c04Cat([]byte{1, 0, 0, 0}, []byte("zzzz"), c04U32(4)), nil, z(4), nil, traf},
		{"subs", "subs", z(4), nil, []byte{0, 0, 0, 1, 0, 0}, nil, traf},
		{"subs with one sub-sample each", "subs", z(4), nil, []byte{0, 0, 0, 1, 0, 1, 0, 9, 0, 0, 0, 0, 0, 0}, nil, traf},
		{"tfra v0", "tfra", c04U32(0, 1, 0), nil, c04Cat(c04U32(0, 0), []byte{1, 1, 1}), nil, []string{"mfra"}},
		{"tfra v1 wide fields", "tfra", c04U32(1<<24, 1, 0x3f), nil, c04Cat(c04U32(0, 0, 0, 0), c04U32(1, 1, 1)), nil, []string{"mfra"}},
		{"pssh v1 key IDs", "pssh", c04Cat([]byte{1, 0, 0, 0}, z(16)), nil, z(16), c04U32(0), []string{"moov"}},
		{"pssh v0 data", "pssh", c04Cat(z(4), z(16)), nil, []byte{7}, nil, []string{"moov"}},
		{"ssix", "ssix", z(4), nil, c04U32(0), nil, nil},
		{"ssix with one range each", "ssix", z(4), nil, c04U32(1, 0x01000010), nil, nil},
		{"senc 8-byte IVs", "senc", z(4), nil, z(8), nil, traf},
		{"senc 16-byte IVs", "senc", z(4), nil, z(16), nil, traf},
		{"senc sub-samples only", "senc", []byte{0, 0, 0, 2}, nil, []byte{0, 1, 0, 3, 0, 0, 0, 9}, nil, traf},
		{"senc 8-byte IVs + sub-samples", "senc", []byte{0, 0, 0, 2}, nil, c04Cat(z(8), []byte{0, 1, 0, 3, 0, 0, 0, 9}), nil, traf},
		{"PIFF uuid senc 8-byte IVs", "uuid", c04Cat(c04PiffSencUUID, z(4)), nil, z(8), nil, traf},
		{"PIFF uuid senc sub-samples", "uuid", c04Cat(c04PiffSencUUID, []byte{0, 0, 0, 2}), nil, c04Cat(z(8), []byte{0, 1, 0, 3, 0, 0, 0, 9}), nil, traf},
	}
}

// c04InitOf: the top-level boxes of a file up to and including its moov
func c04InitOf(file []byte) []byte {
	pos := 0
	for pos+8 <= len(file) {
		sz := int(binary.BigEndian.Uint32(file[pos:]))
		if sz < 8 || pos+sz > len(file) {
			return nil
		}
		if string(file[pos+4:pos+8]) == "moov" {
			return file[:pos+sz]
		}
		pos += sz
	}
	return nil
}

// c04PatchTencIV returns a copy of init with the per-sample IV size byte of every version-0 tenc box set to iv
func c04PatchTencIV(init []byte, iv byte) []byte {
	out := append([]byte{}, init...)
	var bx []rawBox
	c04Walk(out, 0, "", &bx)
	for _, b := range bx {
		if b.typ == "tenc" && b.size >= b.hl+24 && out[b.start+b.hl] == 0 {
			out[b.start+b.hl+7] = iv
		}
	}
	return out
}

type c04SencCtx struct {
	name  string
	init  []byte // bytes in front of the moof (nil: the moof starts the input)
	group []byte // sgpd + sbgp of the traf (nil: none)
	known int    // per-sample IV size this context announces (-1: none, the decoder infers it)
}

func c04CountScenarios(add func(name string, d []byte), readRepo func(rel string) []byte) {
	const n = 3
	// (a) every table box
	for _, t := range c04Tables() {
		var ents []byte
		for i := 0; i < n; i++ {
			ents = append(ents, t.ent...)
		}
		es := []int{len(t.ent)}
		if t.typ == "senc" || t.typ == "uuid" {
			es = append(es, 2, 6, 8, 16)
		}
		for _, cnt := range c04WrapSet(es, n) {
			b := box(t.typ, c04Cat(t.head, c04U32(cnt), t.mid, ents, t.tail))
			add(fmt.Sprintf("table %s: %d entries, count %#x", t.name, n, cnt), b)
			if len(t.wrap) > 0 {
				w := b
				for _, c := range t.wrap {
					switch c {
					case "traf":
						w = box(c, c04Cat(box("tfhd", c04U32(0x020000, 1)), w))
					case "moof":
						w = box(c, c04Cat(box("mfhd", c04U32(0, 1)), w))
					default:
						w = box(c, w)
					}
				}
				if t.wrap[len(t.wrap)-1] == "moof" {
					w = c04Cat(w, box("mdat", []byte{1, 2, 3, 4}))
				}
				add(fmt.Sprintf("table %s in %s: %d entries, count %#x", t.name, strings.Join(t.wrap, "<"), n, cnt), w)
			}
		}
	}
	// (b) senc inside moof/traf, second-stage parsing with the IV size the context announces
	seig := func(iv byte) []byte {
		ent := c04Cat([]byte{0, 0, 1, iv}, make([]byte, 16))
		if iv == 0 {
			ent = c04Cat(ent, []byte{8}, make([]byte, 8)) // constant IV
		}
		sgpd := box("sgpd", c04Cat(c04U32(1<<24), []byte("seig"), c04U32(uint32(len(ent)), 1), ent))
		return sgpd
	}
	ctxs := []c04SencCtx{{"no context", nil, nil, -1}}
	for _, iv := range []byte{0, 1, 8, 16, 255} {
		ctxs = append(ctxs, c04SencCtx{fmt.Sprintf("seig group with IV size %d", iv), nil, seig(iv), int(iv)})
	}
	if init := c04InitOf(readRepo("mp4/testdata/prog_8s_enc_dashinit.mp4")); init != nil {
		ctxs = append(ctxs, c04SencCtx{"init with tenc IV size 8", init, nil, 8})
		ctxs = append(ctxs, c04SencCtx{"init with tenc IV size 16", c04PatchTencIV(init, 16), nil, 16})
		ctxs = append(ctxs, c04SencCtx{"init with tenc IV size 8 + seig group with IV size 16", init, seig(16), 16})
	}
	if init := c04InitOf(readRepo("mp4/testdata/cbcs.mp4")); init != nil {
		ctxs = append(ctxs, c04SencCtx{"init with tenc IV size 0 (constant IV)", init, nil, 0})
	}
	mfhd := box("mfhd", c04U32(0, 1))
	tfhd := box("tfhd", c04U32(0x020000, 1))
	trun := box("trun", c04U32(0x000301, n, 0, 1000, 2, 1000, 2, 1000, 2))
	mdat := box("mdat", []byte{1, 2, 3, 4, 5, 6})
	for _, cx := range ctxs {
		layouts := []int{cx.known} // IV size the real entries are laid out with
		if cx.known != 0 && cx.known != 8 && cx.known != 16 {
			layouts = []int{0, 8, 16}
		}
		for _, lay := range layouts {
			for _, subs := range []bool{false, true} {
				if lay == 0 && !subs && cx.known != 0 {
					continue // no per-sample bytes at all
				}
				var ent []byte
				ent = append(ent, make([]byte, lay)...)
				if subs {
					ent = append(ent, 0, 1, 0, 1, 0, 0, 0, 1)
				}
				flags := uint32(0)
				if subs {
					flags = 2
				}
				es := []int{2, 6, 8, 16, len(ent), lay + 2}
				if cx.known > 0 {
					es = append(es, cx.known)
				}
				for _, aux := range []bool{false, true} {
					for _, piff := range []bool{false, true} {
						if piff && (cx.known < 8 || aux) {
							continue
						}
						for _, cnt := range c04WrapSet(es, n) {
							pl := c04Cat(c04U32(flags, cnt), bytes.Repeat(ent, n))
							var senc []byte
							dataOff := 16
							if piff {
								senc = box("uuid", c04Cat(c04PiffSencUUID, pl))
								dataOff = 32
							} else {
								senc = box("senc", pl)
							}
							pre := tfhd
							if cx.group != nil {
								pre = c04Cat(pre, cx.group, box("sbgp", c04Cat(c04U32(0), []byte("seig"), c04U32(1, cnt, 65537))))
							}
							if aux {
								saiz := box("saiz", c04Cat(c04U32(0), []byte{byte(len(ent))}, c04U32(cnt)))
								// saio: offset of the first per-sample byte of the senc, relative to the moof start
								off := 8 + len(mfhd) + 8 + len(pre) + len(saiz) + 20 + dataOff
								pre = c04Cat(pre, saiz, box("saio", c04U32(0, 1, uint32(off))))
							}
							moof := box("moof", c04Cat(mfhd, box("traf", c04Cat(pre, senc, trun))))
							kind := "senc"
							if piff {
								kind = "PIFF uuid senc"
							}
							if subs {
								kind += " with sub-samples"
							}
							if aux {
								kind += ", saiz+saio"
							}
							add(fmt.Sprintf("%s in traf, %s, %d entries with %d-byte IVs, sample_count %#x", kind, cx.name, n, lay, cnt), c04Cat(cx.init, moof, mdat))
						}
					}
				}
			}
		}
	}
}

// ---- E bases: fragmented files encrypted through the library

var c04EncMu sync.Mutex

// c04EncBase: init (InitProtect) + 1..3 fragments (EncryptFragment) of 1..4 samples each, from the repository's clear
// AVC / HEVC / AAC material; scheme and IV length from the seed. Long samples are cut (the bytes behind the NAL unit
// header do not matter here), so the file stays small.
func c04EncBase(seed int64) (out []byte, err error) {
	c04EncMu.Lock()
	defer c04EncMu.Unlock()
	defer func() {
		if p := recover(); p != nil {
			out, err = nil, fmt.Errorf("panic while building an encrypted base: %v", p)
		}
	}()
	srcs := loadClearSources()
	if len(srcs) == 0 {
		return nil, fmt.Errorf("no clear sources")
	}
	r := rand.New(rand.NewSource(seed))
	src := srcs[int(seed)%len(srcs)]
	scheme, ivLen := "cenc", 8
	switch (seed / 3) % 3 {
	case 1:
		ivLen = 16
	case 2:
		scheme, ivLen = "cbcs", 16
	}
	key := []byte{0, 0x11, 0x22, 0x33, 0x44, 0x55, 0x66, 0x77, 0x88, 0x99, 0xaa, 0xbb, 0xcc, 0xdd, 0xee, 0xff}
	iv := make([]byte, ivLen)
	r.Read(iv)
	initF, err := mp4.DecodeFile(bytes.NewReader(src.init))
	if err != nil {
		return nil, err
	}
	kid, _ := mp4.NewUUIDFromString("11112222333344445555666677778888")
	ipd, err := mp4.InitProtect(initF.Init, key, iv, scheme, kid, nil)
	if err != nil {
		return nil, err
	}
	var res bytes.Buffer
	if err := initF.Init.Encode(&res); err != nil {
		return nil, err
	}
	encInit := cp(res.Bytes())
	trackID := initF.Init.Moov.Trak.Tkhd.TrackID
	si := r.Intn(len(src.samples))
	decTime := uint64(0)
	nfr := 1 + r.Intn(3)
	for fi := 0; fi < nfr; fi++ {
		fr, err := mp4.CreateFragment(uint32(fi+1), trackID)
		if err != nil {
			return nil, err
		}
		ns := 1 + r.Intn(4)
		for k := 0; k < ns; k++ {
			s := src.samples[(si+k)%len(src.samples)]
			d := cp(s.Data)
			if src.codec == "aac" && len(d) > 48 {
				d = d[:48]
			}
			s.Data = d
			s.Size = uint32(len(d))
			s.DecodeTime = decTime
			decTime += uint64(s.Dur)
			fr.AddFullSample(s)
		}
		si += ns
		var cb bytes.Buffer
		if err := fr.Encode(&cb); err != nil {
			return nil, err
		}
		ff, err := mp4.DecodeFile(bytes.NewReader(append(cp(encInit), cb.Bytes()...)))
		if err != nil || len(ff.Segments) == 0 || len(ff.Segments[0].Fragments) == 0 {
			return nil, fmt.Errorf("clear fragment does not decode: %v", err)
		}
		efr := ff.Segments[0].Fragments[0]
		if err := mp4.EncryptFragment(efr, key, iv, ipd); err != nil {
			return nil, err
		}
		if err := efr.Encode(&res); err != nil {
			return nil, err
		}
	}
	return c04Strip(res.Bytes()), nil
}

// ---- countCase: 1-2 steps on a count-prefixed box of a seed, the first one a count mutation

func (g *c04Gen) countCase() (c04Case, bool) {
	r := g.c.R
	s := g.pickSeed()
	if len(g.encSeeds) > 0 && r.Intn(3) == 0 {
		s = g.encSeeds[r.Intn(len(g.encSeeds))]
	}
	m := &c04M{r: r, ref: s.ref, buf: s.data, types: g.types, bank: g.bank}
	var cands []rawBox
	for _, b := range m.walk() {
		if off := c04CountOffset(b.typ, m.buf[b.start:b.start+b.size]); off > 0 && off+b.hl-8+4 <= b.size {
			cands = append(cands, b)
		}
	}
	if len(cands) == 0 {
		return c04Case{}, false
	}
	t := cands[r.Intn(len(cands))]
	kinds := []string{"aimed", m.countStep(m.walk(), t)}
	if r.Intn(4) == 0 {
		if k := m.step(); k != "" {
			kinds = append(kinds, k)
		}
	}
	if r.Intn(3) == 0 {
		if k := m.resync(); k != "" {
			kinds = append(kinds, k)
		}
	}
	return c04Case{m.line(c04RandLevel(r)), strings.Join(kinds, "+"), s.ref[:1], true, len(m.buf)}, true
}
