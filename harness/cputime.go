package main

import (
	"syscall"
	"time"
)

// cpuNow returns the CPU time (user + system) consumed by this process so far. The robustness harnesses (C04, C16)
// measure an operation's cost in CPU time of the single-threaded worker rather than wall time, so that a loaded machine
// (other checks running in parallel) cannot turn descheduling into a "slow" verdict; a genuine endless or quadratic
// loop burns CPU time all the same.
func cpuNow() time.Duration {
	var ru syscall.Rusage
	if err := syscall.Getrusage(syscall.RUSAGE_SELF, &ru); err != nil {
		return 0
	}
	return time.Duration(ru.Utime.Nano() + ru.Stime.Nano())
}
