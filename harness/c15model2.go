package main

import (
	"fmt"
	"math/rand"
	"sort"
	"strings"

	"github.com/Eyevinn/mp4ff/avc"
	"github.com/Eyevinn/mp4ff/hevc"
)

// Correspondence glue for C15/C16, second part: AVC PPS (`avcppsm`), HEVC SPS (`hevcspsm`) rendered in the canonical
// text of lean/Mp4ff/Driver/C15.lean, and the model cases (valid NAL unit, truncations, hostile variants).

var c15Model2Cases = map[string]int{}

// modelBudget: at most n cases of one op per run
func modelBudget(c *Ctx, op string) bool {
	n := c.N(6000, 40000)
	if op == "hevcslicem" { // the model parses the request's parameter sets for every line: ~15 ms per case
		n = c.N(2000, 12000)
	}
	if c15Model2Cases[op] >= n {
		return false
	}
	c15Model2Cases[op]++
	return true
}

// modelVariants: the NAL unit itself, (sometimes) a truncation, (sometimes) a hostile variant: bit flips, an inserted
// zero run (huge Exp-Golomb value), a random tail, a random body behind a valid header
func modelVariants(r *rand.Rand, nalu []byte, hdrLen int, emit func(kind string, b []byte)) {
	emit("valid", nalu)
	min := hdrLen + 1
	if len(nalu) <= min+2 {
		return
	}
	if r.Intn(3) == 0 {
		emit("truncated", nalu[:min+r.Intn(len(nalu)-min)])
	}
	if r.Intn(2) == 0 {
		b := cp(nalu)
		kind := ""
		switch r.Intn(5) {
		case 0:
			kind = "bitflip"
			for k := 0; k < 1+r.Intn(3); k++ {
				b[hdrLen+r.Intn(len(b)-hdrLen)] ^= byte(1 << uint(r.Intn(8)))
			}
		case 1:
			kind = "zerorun"
			at := min + r.Intn(len(b)-min)
			z := make([]byte, 1+r.Intn(9))
			b = append(append(append([]byte{}, b[:at]...), z...), b[at:]...)
		case 2:
			kind = "randomtail"
			t := make([]byte, 1+r.Intn(12))
			r.Read(t)
			b = append(b[:min+r.Intn(len(b)-min)], t...)
		case 3:
			kind = "lastbyte" // disturb the trailing bits / more_rbsp_data decision
			b[len(b)-1] = byte(r.Intn(256))
			if r.Intn(2) == 0 {
				b = append(b, byte(r.Intn(3)*0x40))
			}
		default:
			kind = "randombody"
			b = make([]byte, hdrLen+2+r.Intn(40))
			r.Read(b)
			copy(b, nalu[:hdrLen])
		}
		emit(kind, b)
	}
}

// ---------------------------------------------------------------------------------------------------------- AVC PPS

func avcPPSRecord(nalu []byte, spsMap map[uint32]*avc.SPS) (ans string) {
	defer func() {
		if r := recover(); r != nil {
			ans = fmt.Sprintf("panic: %v", r)
		}
	}()
	s, err := avc.ParsePPSNALUnit(nalu, spsMap)
	if err != nil || s == nil {
		return "err"
	}
	var p []string
	add := func(n string, v interface{}) { p = append(p, fmt.Sprintf("%s=%v", n, v)) }
	add("pic_parameter_set_id", s.PicParameterSetID)
	add("seq_parameter_set_id", s.SeqParameterSetID)
	add("entropy_coding_mode_flag", b01i(s.EntropyCodingModeFlag))
	add("bottom_field_pic_order_in_frame_present_flag", b01i(s.BottomFieldPicOrderInFramePresentFlag))
	add("num_slice_groups_minus1", s.NumSliceGroupsMinus1)
	if s.NumSliceGroupsMinus1 > 0 {
		add("slice_group_map_type", s.SliceGroupMapType)
		switch s.SliceGroupMapType {
		case 0:
			for _, x := range s.RunLengthMinus1 {
				add("run_length_minus1", x)
			}
		case 2:
			for i := range s.TopLeft {
				add("top_left", s.TopLeft[i])
				add("bottom_right", s.BottomRight[i])
			}
		case 3, 4, 5:
			add("slice_group_change_direction_flag", b01i(s.SliceGroupChangeDirectionFlag))
			add("slice_group_change_rate_minus1", s.SliceGroupChangeRateMinus1)
		case 6:
			add("pic_size_in_map_units_minus1", s.PicSizeInMapUnitsMinus1)
			for _, x := range s.SliceGroupID {
				add("slice_group_id", x)
			}
		}
	}
	add("num_ref_idx_l0_default_active_minus1", s.NumRefIdxI0DefaultActiveMinus1)
	add("num_ref_idx_l1_default_active_minus1", s.NumRefIdxI1DefaultActiveMinus1)
	add("weighted_pred_flag", b01i(s.WeightedPredFlag))
	add("weighted_bipred_idc", s.WeightedBipredIDC)
	add("pic_init_qp_minus26", s.PicInitQpMinus26)
	add("pic_init_qs_minus26", s.PicInitQsMinus26)
	add("chroma_qp_index_offset", s.ChromaQpIndexOffset)
	add("deblocking_filter_control_present_flag", b01i(s.DeblockingFilterControlPresentFlag))
	add("constrained_intra_pred_flag", b01i(s.ConstrainedIntraPredFlag))
	add("redundant_pic_cnt_present_flag", b01i(s.RedundantPicCntPresentFlag))
	add("transform_8x8_mode_flag", b01i(s.Transform8x8ModeFlag))
	add("pic_scaling_matrix_present_flag", b01i(s.PicScalingMatrixPresentFlag))
	if s.PicScalingMatrixPresentFlag {
		var ls []string
		for _, l := range s.PicScalingLists {
			if l == nil {
				ls = append(ls, "nil")
				continue
			}
			var vs []string
			for _, x := range l {
				vs = append(vs, fmt.Sprint(x))
			}
			ls = append(ls, strings.Join(vs, ","))
		}
		add("lists", strings.Join(ls, "|"))
	}
	add("second_chroma_qp_index_offset", s.SecondChromaQpIndexOffset)
	return strings.Join(p, " ")
}

// avcPPSModelCases: `avcppsm <id:chroma,...|-> <hex>`; the SPS map is the one the scenario's SPS NAL units give
// (sometimes emptied or reduced, so that the "sps ID not found" branch is taken)
func avcPPSModelCases(c *Ctx, r *rand.Rand, nalu []byte, spsNALUs [][]byte) {
	if !modelBudget(c, "avcppsm") {
		return
	}
	spsMap := map[uint32]*avc.SPS{}
	if r.Intn(8) != 0 {
		for _, n := range spsNALUs {
			if s, err := avc.ParseSPSNALUnit(n, true); err == nil && s != nil {
				spsMap[s.ParameterID] = s
			}
		}
	}
	var ids []int
	for id := range spsMap {
		ids = append(ids, int(id))
	}
	sort.Ints(ids)
	var ms []string
	for _, id := range ids {
		ms = append(ms, fmt.Sprintf("%d:%d", id, spsMap[uint32(id)].ChromaFormatIDC))
	}
	m := "-"
	if len(ms) > 0 {
		m = strings.Join(ms, ",")
	}
	modelVariants(r, nalu, 1, func(kind string, b []byte) {
		c.Count("model:avcppsm:" + kind)
		c.Case("avcppsm "+m+" "+hx(b), avcPPSRecord(b, spsMap))
	})
}

// --------------------------------------------------------------------------------------------------------- HEVC SPS

func hevcRPSText(p hevc.ShortTermRPS) string {
	l := func(d []uint32, u []bool) string {
		if len(d) == 0 && len(u) == 0 {
			return "-"
		}
		var v []string
		for i := range d {
			ub := false
			if i < len(u) {
				ub = u[i]
			}
			v = append(v, fmt.Sprintf("%d.%d", d[i], b01i(ub)))
		}
		return strings.Join(v, ",")
	}
	return fmt.Sprintf("s0:%s;s1:%s;n=%d", l(p.DeltaPocS0, p.UsedByCurrPicS0), l(p.DeltaPocS1, p.UsedByCurrPicS1), p.NumDeltaPocs)
}

func hevcSPSRecord(nalu []byte) (ans string) {
	defer func() {
		if r := recover(); r != nil {
			ans = fmt.Sprintf("panic: %v", r)
		}
	}()
	s, err := hevc.ParseSPSNALUnit(nalu)
	if err != nil || s == nil {
		return "err"
	}
	var p []string
	add := func(n string, v interface{}) { p = append(p, fmt.Sprintf("%s=%v", n, v)) }
	addf := func(n string, b bool) { add(n, b01i(b)) }
	add("sps_video_parameter_set_id", s.VpsID)
	add("sps_max_sub_layers_minus1", s.MaxSubLayersMinus1)
	addf("sps_temporal_id_nesting_flag", s.TemporalIDNestingFlag)
	t := s.ProfileTierLevel
	add("general_profile_space", t.GeneralProfileSpace)
	addf("general_tier_flag", t.GeneralTierFlag)
	add("general_profile_idc", t.GeneralProfileIDC)
	add("general_profile_compatibility_flags", t.GeneralProfileCompatibilityFlags)
	add("general_constraint_flags", t.GeneralConstraintIndicatorFlags)
	add("general_level_idc", t.GeneralLevelIDC)
	for _, l := range t.SubLayers {
		addf("sub_layer_profile_present_flag", l.ProfilePresentFlag)
		addf("sub_layer_level_present_flag", l.LevelPresentFlag)
	}
	for _, l := range t.SubLayers {
		if l.ProfilePresentFlag {
			add("sub_layer_profile_space", l.ProfileSpace)
			addf("sub_layer_tier_flag", l.TierFlag)
			add("sub_layer_profile_idc", l.ProfileIDC)
			add("sub_layer_profile_compatibility_flags", l.ProfileCompatibilityFlags)
			add("sub_layer_constraint_flags", l.ConstraintFlags)
		}
		if l.LevelPresentFlag {
			add("sub_layer_level_idc", l.LayerIDC)
		}
	}
	add("sps_seq_parameter_set_id", s.SpsID)
	add("chroma_format_idc", s.ChromaFormatIDC)
	if s.ChromaFormatIDC == 3 {
		addf("separate_colour_plane_flag", s.SeparateColourPlaneFlag)
	}
	add("pic_width_in_luma_samples", s.PicWidthInLumaSamples)
	add("pic_height_in_luma_samples", s.PicHeightInLumaSamples)
	addf("conformance_window_flag", s.ConformanceWindowFlag)
	if s.ConformanceWindowFlag {
		add("conf_win_left_offset", s.ConformanceWindow.LeftOffset)
		add("conf_win_right_offset", s.ConformanceWindow.RightOffset)
		add("conf_win_top_offset", s.ConformanceWindow.TopOffset)
		add("conf_win_bottom_offset", s.ConformanceWindow.BottomOffset)
	}
	add("bit_depth_luma_minus8", s.BitDepthLumaMinus8)
	add("bit_depth_chroma_minus8", s.BitDepthChromaMinus8)
	add("log2_max_pic_order_cnt_lsb_minus4", s.Log2MaxPicOrderCntLsbMinus4)
	addf("sps_sub_layer_ordering_info_present_flag", s.SubLayerOrderingInfoPresentFlag)
	for _, o := range s.SubLayeringOrderingInfos {
		add("sps_max_dec_pic_buffering_minus1", o.MaxDecPicBufferingMinus1)
		add("sps_max_num_reorder_pics", o.MaxNumReorderPics)
		add("sps_max_latency_increase_plus1", o.MaxLatencyIncreasePlus1)
	}
	add("log2_min_luma_coding_block_size_minus3", s.Log2MinLumaCodingBlockSizeMinus3)
	add("log2_diff_max_min_luma_coding_block_size", s.Log2DiffMaxMinLumaCodingBlockSize)
	add("log2_min_luma_transform_block_size_minus2", s.Log2MinLumaTransformBlockSizeMinus2)
	add("log2_diff_max_min_luma_transform_block_size", s.Log2DiffMaxMinLumaTransformBlockSize)
	add("max_transform_hierarchy_depth_inter", s.MaxTransformHierarchyDepthInter)
	add("max_transform_hierarchy_depth_intra", s.MaxTransformHierarchyDepthIntra)
	addf("scaling_list_enabled_flag", s.ScalingListEnabledFlag)
	if s.ScalingListEnabledFlag {
		addf("sps_scaling_list_data_present_flag", s.ScalingListDataPresentFlag)
	}
	addf("amp_enabled_flag", s.AmpEnabledFlag)
	addf("sample_adaptive_offset_enabled_flag", s.SampleAdaptiveOffsetEnabledFlag)
	addf("pcm_enabled_flag", s.PCMEnabledFlag)
	if s.PCMEnabledFlag {
		add("pcm_sample_bit_depth_luma_minus1", s.PcmSampleBitDepthLumaMinus1)
		add("pcm_sample_bit_depth_chroma_minus1", s.PcmSampleBitDepthChromaMinus1)
		add("log2_min_pcm_luma_coding_block_size_minus3", s.Log2MinPcmLumaCodingBlockSize)
		add("log2_diff_max_min_pcm_luma_coding_block_size", s.Log2DiffMaxMinPcmLumaCodingBlockSize)
		addf("pcm_loop_filter_disabled_flag", s.PcmLoopFilterDisabledFlag)
	}
	add("num_short_term_ref_pic_sets", s.NumShortTermRefPicSets)
	if len(s.ShortTermRefPicSets) == 0 {
		add("rps", "-")
	} else {
		var l []string
		for _, x := range s.ShortTermRefPicSets {
			l = append(l, hevcRPSText(x))
		}
		add("rps", strings.Join(l, "|"))
	}
	addf("long_term_ref_pics_present_flag", s.LongTermRefPicsPresentFlag)
	if s.LongTermRefPicsPresentFlag {
		add("num_long_term_ref_pics_sps", s.NumLongTermRefPics)
		for _, x := range s.LongTermRefPicSets {
			add("lt_ref_pic_poc_lsb_sps", x.PocLsbLt)
			addf("used_by_curr_pic_lt_sps_flag", x.UsedByCurrPicLtFlag)
		}
	}
	addf("sps_temporal_mvp_enabled_flag", s.SpsTemporalMvpEnabledFlag)
	addf("strong_intra_smoothing_enabled_flag", s.StrongIntraSmoothingEnabledFlag)
	addf("vui_parameters_present_flag", s.VUIParametersPresentFlag)
	if v := s.VUI; s.VUIParametersPresentFlag && v != nil {
		p = append(p, fmt.Sprintf("sar=%d:%d", v.SampleAspectRatioWidth, v.SampleAspectRatioHeight))
		addf("overscan_info_present_flag", v.OverscanInfoPresentFlag)
		if v.OverscanInfoPresentFlag {
			addf("overscan_appropriate_flag", v.OverscanAppropriateFlag)
		}
		addf("video_signal_type_present_flag", v.VideoSignalTypePresentFlag)
		if v.VideoSignalTypePresentFlag {
			add("video_format", v.VideoFormat)
			addf("video_full_range_flag", v.VideoFullRangeFlag)
			addf("colour_description_present_flag", v.ColourDescriptionFlag)
			if v.ColourDescriptionFlag {
				add("colour_primaries", v.ColourPrimaries)
				add("transfer_characteristics", v.TransferCharacteristics)
				add("matrix_coeffs", v.MatrixCoefficients)
			}
		}
		addf("chroma_loc_info_present_flag", v.ChromaLocInfoPresentFlag)
		if v.ChromaLocInfoPresentFlag {
			add("chroma_sample_loc_type_top_field", v.ChromaSampleLocTypeTopField)
			add("chroma_sample_loc_type_bottom_field", v.ChromaSampleLocTypeBottomField)
		}
		addf("neutral_chroma_indication_flag", v.NeutralChromaIndicationFlag)
		addf("field_seq_flag", v.FieldSeqFlag)
		addf("frame_field_info_present_flag", v.FrameFieldInfoPresentFlag)
		addf("default_display_window_flag", v.DefaultDisplayWindowFlag)
		if v.DefaultDisplayWindowFlag {
			add("def_disp_win_left_offset", v.DefDispWinLeftOffset)
			add("def_disp_win_right_offset", v.DefDispWinRightOffset)
			add("def_disp_win_top_offset", v.DefDispWinTopOffset)
			add("def_disp_win_bottom_offset", v.DefDispWinBottomOffset)
		}
		addf("vui_timing_info_present_flag", v.TimingInfoPresentFlag)
		if v.TimingInfoPresentFlag {
			add("vui_num_units_in_tick", v.NumUnitsInTick)
			add("vui_time_scale", v.TimeScale)
			addf("vui_poc_proportional_to_timing_flag", v.PocProportionalToTimingFlag)
			if v.PocProportionalToTimingFlag {
				add("vui_num_ticks_poc_diff_one_minus1", v.NumTicksPocDiffOneMinus1)
			}
			addf("vui_hrd_parameters_present_flag", v.HrdParametersPresentFlag)
			if h := v.HrdParameters; v.HrdParametersPresentFlag && h != nil {
				addf("nal_hrd_parameters_present_flag", h.NalHrdParametersPresentFlag)
				addf("vcl_hrd_parameters_present_flag", h.VclHrdParametersPresentFlag)
				if h.NalHrdParametersPresentFlag || h.VclHrdParametersPresentFlag {
					addf("sub_pic_hrd_params_present_flag", h.SubPicHrdParamsPresentFlag)
					if h.SubPicHrdParamsPresentFlag {
						add("tick_divisor_minus2", h.TickDivisorMinus2)
						add("du_cpb_removal_delay_increment_length_minus1", h.DuCpbRemovalDelayIncrementLengthMinus1)
						addf("sub_pic_cpb_params_in_pic_timing_sei_flag", h.SubPicCpbParamsInPicTimingSeiFlag)
						add("dpb_output_delay_du_length_minus1", h.DpbOutputDelayDuLengthMinus1)
					}
					add("bit_rate_scale", h.BitRateScale)
					add("cpb_size_scale", h.CpbSizeScale)
					if h.SubPicHrdParamsPresentFlag {
						add("cpb_size_du_scale", h.CpbSizeDuScale)
					}
					add("initial_cpb_removal_delay_length_minus1", h.InitialCpbRemovalDelayLengthMinus1)
					add("au_cpb_removal_delay_length_minus1", h.AuCpbRemovalDelayLengthMinus1)
					add("dpb_output_delay_length_minus1", h.DpbOutputDelayLengthMinus1)
				}
				params := func(l []hevc.SubLayerHrdParameters) {
					for _, e := range l {
						add("bit_rate_value_minus1", e.BitRateValueMinus1)
						add("cpb_size_value_minus1", e.CpbSizeValueMinus1)
						if h.SubPicHrdParamsPresentFlag {
							add("cpb_size_du_value_minus1", e.CpbSizeDuValueMinus1)
							add("bit_rate_du_value_minus1", e.BitRateDuValueMinus1)
						}
						addf("cbr_flag", e.CbrFlag)
					}
				}
				for _, l := range h.SubLayerHrd {
					addf("fixed_pic_rate_general_flag", l.FixedPicRateGeneralFlag)
					if !l.FixedPicRateGeneralFlag {
						addf("fixed_pic_rate_within_cvs_flag", l.FixedPicRateWithinCvsFlag)
					}
					if l.FixedPicRateWithinCvsFlag {
						add("elemental_duration_in_tc_minus1", l.ElementalDurationInTcMinus1)
					} else {
						addf("low_delay_hrd_flag", l.LowDelayHrdFlag)
					}
					if !l.LowDelayHrdFlag {
						add("cpb_cnt_minus1", l.CpbCntMinus1)
					}
					if h.NalHrdParametersPresentFlag {
						params(l.NalHrdParameters)
					}
					if h.VclHrdParametersPresentFlag {
						params(l.VclHrdParameters)
					}
				}
			}
		}
		addf("bitstream_restriction_flag", v.BitstreamRestrictionFlag)
		if b := v.BitstreamResctrictions; v.BitstreamRestrictionFlag && b != nil {
			addf("tiles_fixed_structure_flag", b.TilesFixedStructureFlag)
			addf("motion_vectors_over_pic_boundaries_flag", b.MVOverPicBoundariesFlag)
			addf("restricted_ref_pic_lists_flag", b.RestrictedRefsPicsListsFlag)
			add("min_spatial_segmentation_idc", b.MinSpatialSegmentationIDC)
			add("max_bytes_per_pic_denom", b.MaxBytesPerPicDenom)
			add("max_bits_per_min_cu_denom", b.MaxBitsPerMinCuDenom)
			add("log2_max_mv_length_horizontal", b.Log2MaxMvLengthHorizontal)
			add("log2_max_mv_length_vertical", b.Log2MaxMvLengthVertical)
		}
	}
	addf("sps_extension_present_flag", s.ExtensionPresentFlag)
	if s.ExtensionPresentFlag {
		addf("sps_range_extension_flag", s.RangeExtensionFlag)
		addf("sps_multilayer_extension_flag", s.MultilayerExtensionFlag)
		addf("sps_3d_extension_flag", s.D3ExtensionFlag)
		addf("sps_scc_extension_flag", s.SccExtensionFlag)
		add("sps_extension_4bits", s.Extension4bits)
	}
	if e := s.RangeExtension; e != nil {
		addf("transform_skip_rotation_enabled_flag", e.TransformSkipRotationEnabledFlag)
		addf("transform_skip_context_enabled_flag", e.TransformSkipContextEnabledFlag)
		addf("implicit_rdpcm_enabled_flag", e.ImplicitRdpcmEnabledFlag)
		addf("explicit_rdpcm_enabled_flag", e.ExplicitRdpcmEnabledFlag)
		addf("extended_precision_processing_flag", e.ExtendedPrecisionProcessingFlag)
		addf("intra_smoothing_disabled_flag", e.IntraSmoothingDisabledFlag)
		addf("high_precision_offsets_enabled_flag", e.HighPrecisionOffsetsEnabledFlag)
		addf("persistent_rice_adaptation_enabled_flag", e.PersistentRiceAdaptationEnabledFlag)
		addf("cabac_bypass_alignment_enabled_flag", e.CabacBypassAlignmentEnabledFlag)
	}
	if e := s.MultilayerExtension; e != nil {
		addf("inter_view_mv_vert_constraint_flag", e.InterViewMvVertConstraintFlag)
	}
	if e := s.D3Extension; e != nil {
		addf("iv_di_mc_enabled_flag0", e.IvDiMcEnabledFlag0)
		addf("iv_mv_scal_enabled_flag0", e.IvMvScalEnabledFlag0)
		add("log2_ivmc_sub_pb_size_minus3", e.Og2IvmcSubPbSizeMinus3)
		addf("iv_res_pred_enabled_flag", e.IvResPredEnabledFlag)
		addf("depth_ref_enabled_flag", e.DepthRefEnabledFlag)
		addf("vsp_mc_enabled_flag", e.VspMcEnabledFlag)
		addf("dbbp_enabled_flag", e.DbbpEnabledFlag)
		addf("iv_di_mc_enabled_flag1", e.IvDiMcEnabledFlag1)
		addf("iv_mv_scal_enabled_flag1", e.IvMvScalEnabledFlag1)
		addf("tex_mc_enabled_flag", e.TexMcEnabledFlag)
		add("log2_texmc_sub_pb_size_minus3", e.Log2TexmcSubPbSizeMinus3)
		addf("intra_contour_enabled_flag", e.IntraContourEnabledFlag)
		addf("intra_dc_only_wedge_enabled_flag", e.IntraDcOnlyWedgeEnabledFlag)
		addf("cqt_cu_part_pred_enabled_flag", e.CqtCuPartPredEnabledFlag)
		addf("inter_dc_only_enabled_flag", e.InterDcOnlyEnabledFlag)
		addf("skip_intra_enabled_flag", e.SkipIntraEnabledFlag)
	}
	if e := s.SccExtension; e != nil {
		addf("sps_curr_pic_ref_enabled_flag", e.CurrPicRefEnabledFlag)
		addf("palette_mode_enabled_flag", e.PaletteModeEnabledFlag)
		if e.PaletteModeEnabledFlag {
			add("palette_max_size", e.PaletteMaxSize)
			add("delta_palette_max_predictor_size", e.DeltaPaletteMaxPredictorSize)
			addf("sps_palette_predictor_initializers_present_flag", e.PalettePredictorInitializersPresentFlag)
			if e.PalettePredictorInitializersPresentFlag {
				add("sps_num_palette_predictor_initializers_minus1", e.NumPalettePredictorInitializersMinus1)
				names := []string{"palette_predictor_initializer_luma", "palette_predictor_initializer_cb", "palette_predictor_initializer_cr"}
				for ci, comp := range e.PalettePredictorInitializer {
					for _, x := range comp {
						add(names[ci%3], x)
					}
				}
			}
		}
		add("motion_vector_resolution_control_idc", e.MotionVectorResolutionControlIdc)
		addf("intra_boundary_filtering_disabled_flag", e.IntraBoundaryFilteringDisabledFlag)
	}
	ed := "-"
	if len(s.ExtensionDataFlag) > 0 {
		ed = ""
		for _, b := range s.ExtensionDataFlag {
			ed += fmt.Sprint(b01i(b))
		}
	}
	add("ext_data", ed)
	w, h := s.ImageSize()
	return strings.Join(p, " ") + fmt.Sprintf(" dims=%dx%d", w, h)
}

// hevcSPSModelCases: `hevcspsm <hex>`: the generated SPS, truncations, hostile variants
func hevcSPSModelCases(c *Ctx, r *rand.Rand, nalu []byte) {
	if !modelBudget(c, "hevcspsm") {
		return
	}
	modelVariants(r, nalu, 2, func(kind string, b []byte) {
		c.Count("model:hevcspsm:" + kind)
		c.Case("hevcspsm "+hx(b), hevcSPSRecord(b))
	})
}

// --------------------------------------------------------------------------------------------------------- HEVC PPS

func hevcOctantText(m map[string][4]hevc.Octant) string {
	type ent struct {
		k [3]int
		s string
	}
	var l []ent
	for key, oct := range m {
		var e ent
		fmt.Sscanf(key, "%d-%d-%d", &e.k[0], &e.k[1], &e.k[2])
		var js []string
		for j := 0; j < 4; j++ {
			if !oct[j].CodedResFlag {
				js = append(js, "0")
				continue
			}
			var cs []string
			for c := 0; c < 3; c++ {
				r := oct[j].CodedRes[c]
				cs = append(cs, fmt.Sprintf("%d.%d.%d", r.ResCoeffQ, r.ResCoeffR, b01i(r.ResCoeffS)))
			}
			js = append(js, "1:"+strings.Join(cs, ";"))
		}
		e.s = fmt.Sprintf("%d-%d-%d=%s", e.k[0], e.k[1], e.k[2], strings.Join(js, "/"))
		l = append(l, e)
	}
	if len(l) == 0 {
		return "-"
	}
	sort.Slice(l, func(a, b int) bool {
		for i := 0; i < 3; i++ {
			if l[a].k[i] != l[b].k[i] {
				return l[a].k[i] < l[b].k[i]
			}
		}
		return false
	})
	var out []string
	for _, e := range l {
		out = append(out, e.s)
	}
	return strings.Join(out, "|")
}

func hevcPPSRecord(nalu []byte, spsMap map[uint32]*hevc.SPS) (ans string) {
	defer func() {
		if r := recover(); r != nil {
			ans = fmt.Sprintf("panic: %v", r)
		}
	}()
	s, err := hevc.ParsePPSNALUnit(nalu, spsMap)
	if err != nil || s == nil {
		return "err"
	}
	var p []string
	add := func(n string, v interface{}) { p = append(p, fmt.Sprintf("%s=%v", n, v)) }
	addf := func(n string, b bool) { add(n, b01i(b)) }
	add("pps_pic_parameter_set_id", s.PicParameterSetID)
	add("pps_seq_parameter_set_id", s.SeqParameterSetID)
	addf("dependent_slice_segments_enabled_flag", s.DependentSliceSegmentsEnabledFlag)
	addf("output_flag_present_flag", s.OutputFlagPresentFlag)
	add("num_extra_slice_header_bits", s.NumExtraSliceHeaderBits)
	addf("sign_data_hiding_enabled_flag", s.SignDataHidingEnabledFlag)
	addf("cabac_init_present_flag", s.CabacInitPresentFlag)
	add("num_ref_idx_l0_default_active_minus1", s.NumRefIdxL0DefaultActiveMinus1)
	add("num_ref_idx_l1_default_active_minus1", s.NumRefIdxL1DefaultActiveMinus1)
	add("init_qp_minus26", s.InitQpMinus26)
	addf("constrained_intra_pred_flag", s.ConstrainedIntraPredFlag)
	addf("transform_skip_enabled_flag", s.TransformSkipEnabledFlag)
	addf("cu_qp_delta_enabled_flag", s.CuQpDeltaEnabledFlag)
	if s.CuQpDeltaEnabledFlag {
		add("diff_cu_qp_delta_depth", s.DiffCuQpDeltaDepth)
	}
	add("pps_cb_qp_offset", s.CbQpOffset)
	add("pps_cr_qp_offset", s.CrQpOffset)
	addf("pps_slice_chroma_qp_offsets_present_flag", s.SliceChromaQpOffsetsPresentFlag)
	addf("weighted_pred_flag", s.WeightedPredFlag)
	addf("weighted_bipred_flag", s.WeightedBipredFlag)
	addf("transquant_bypass_enabled_flag", s.TransquantBypassEnabledFlag)
	addf("tiles_enabled_flag", s.TilesEnabledFlag)
	addf("entropy_coding_sync_enabled_flag", s.EntropyCodingSyncEnabledFlag)
	if s.TilesEnabledFlag {
		add("num_tile_columns_minus1", s.NumTileColumnsMinus1)
		add("num_tile_rows_minus1", s.NumTileRowsMinus1)
		addf("uniform_spacing_flag", s.UniformSpacingFlag)
		if !s.UniformSpacingFlag {
			for _, x := range s.ColumnWidthMinus1 {
				add("column_width_minus1", x)
			}
			for _, x := range s.RowHeightMinus1 {
				add("row_height_minus1", x)
			}
		}
		addf("loop_filter_across_tiles_enabled_flag", s.LoopFilterAcrossTilesEnabledFlag)
	}
	addf("pps_loop_filter_across_slices_enabled_flag", s.LoopFilterAcrossSlicesEnabledFlag)
	addf("deblocking_filter_control_present_flag", s.DeblockingFilterControlPresentFlag)
	if s.DeblockingFilterControlPresentFlag {
		addf("deblocking_filter_override_enabled_flag", s.DeblockingFilterOverrideEnabledFlag)
		addf("pps_deblocking_filter_disabled_flag", s.DeblockingFilterDisabledFlag)
		if !s.DeblockingFilterDisabledFlag {
			add("pps_beta_offset_div2", s.BetaOffsetDiv2)
			add("pps_tc_offset_div2", s.TcOffsetDiv2)
		}
	}
	addf("pps_scaling_list_data_present_flag", s.ScalingListDataPresentFlag)
	addf("lists_modification_present_flag", s.ListsModificationPresentFlag)
	add("log2_parallel_merge_level_minus2", s.Log2ParallelMergeLevelMinus2)
	addf("slice_segment_header_extension_present_flag", s.SliceSegmentHeaderExtensionPresentFlag)
	addf("pps_extension_present_flag", s.ExtensionPresentFlag)
	if s.ExtensionPresentFlag {
		addf("pps_range_extension_flag", s.RangeExtensionFlag)
		addf("pps_multilayer_extension_flag", s.MultilayerExtensionFlag)
		addf("pps_3d_extension_flag", s.D3ExtensionFlag)
		addf("pps_scc_extension_flag", s.SccExtensionFlag)
		add("pps_extension_4bits", s.Extension4bits)
	}
	if e := s.RangeExtension; e != nil {
		if s.TransformSkipEnabledFlag {
			add("log2_max_transform_skip_block_size_minus2", e.Log2MaxTransformSkipBlockSizeMinus2)
		}
		addf("cross_component_prediction_enabled_flag", e.CrossComponentPredictionEnabledFlag)
		addf("chroma_qp_offset_list_enabled_flag", e.ChromaQpOffsetListEnabledFlag)
		if e.ChromaQpOffsetListEnabledFlag {
			add("diff_cu_chroma_qp_offset_depth", e.DiffCuChromaQpOffsetDepth)
			add("chroma_qp_offset_list_len_minus1", e.ChromaQpOffsetListLenMinus1)
			for i := range e.CbQpOffsetList {
				add("cb_qp_offset_list", e.CbQpOffsetList[i])
				add("cr_qp_offset_list", e.CrQpOffsetList[i])
			}
		}
		add("log2_sao_offset_scale_luma", e.Log2SaoOffsetScaleLuma)
		add("log2_sao_offset_scale_chroma", e.Log2SaoOffsetScaleChroma)
	}
	if e := s.MultilayerExtension; e != nil {
		addf("poc_reset_info_present_flag", e.PocResetInfoPresentFlag)
		addf("pps_infer_scaling_list_flag", e.InferScalingListFlag)
		if e.InferScalingListFlag {
			add("pps_scaling_list_ref_layer_id", e.ScalingListRefLayerId)
		}
		add("num_ref_loc_offsets", e.NumRefLocOffsets)
		var gs []string
		for _, id := range e.RefLocOffsetLayerIds {
			o := e.RefLocOffsets[id]
			var f []string
			a := func(n string, v interface{}) { f = append(f, fmt.Sprintf("%s=%v", n, v)) }
			a("scaled_ref_layer_offset_present_flag", b01i(o.ScaledRefLayerOffsetPresentFlag))
			if o.ScaledRefLayerOffsetPresentFlag {
				a("scaled_ref_layer_left_offset", o.ScaledRefLayerLeftOffset)
				a("scaled_ref_layer_top_offset", o.ScaledRefLayerTopOffset)
				a("scaled_ref_layer_right_offset", o.ScaledRefLayerRightOffset)
				a("scaled_ref_layer_bottom_offset", o.ScaledRefLayerBottomOffset)
			}
			a("ref_region_offset_present_flag", b01i(o.RefRegionOffsetPresentFlag))
			if o.RefRegionOffsetPresentFlag {
				a("ref_region_left_offset", o.RefRegionLeftOffset)
				a("ref_region_top_offset", o.RefRegionTopOffset)
				a("ref_region_right_offset", o.RefRegionRightOffset)
				a("ref_region_bottom_offset", o.RefRegionBottomOffset)
			}
			a("resample_phase_set_present_flag", b01i(o.ResamplePhaseSetPresentFlag))
			if o.ResamplePhaseSetPresentFlag {
				a("phase_hor_luma", o.PhaseHorLuma)
				a("phase_ver_luma", o.PhaseVerLuma)
				a("phase_hor_chroma_plus8", o.PhaseHorChromaPlus8)
				a("phase_ver_chroma_plus8", o.PhaseVerChromaPlus8)
			}
			gs = append(gs, fmt.Sprintf("%d:%s", id, strings.Join(f, ",")))
		}
		if len(gs) == 0 {
			add("ref_loc", "-")
		} else {
			add("ref_loc", strings.Join(gs, "|"))
		}
		addf("colour_mapping_enabled_flag", e.ColourMappingEnabledFlag)
		if cm := e.ColourMappingTable; e.ColourMappingEnabledFlag && cm != nil {
			add("octants", hevcOctantText(cm.Octants))
			add("num_cm_ref_layers_minus1", cm.NumCmRefLayersMinus1)
			for _, x := range cm.RefLayerId {
				add("cm_ref_layer_id", x)
			}
			add("cm_octant_depth", cm.OctantDepth)
			add("cm_y_part_num_log2", cm.YPartNumLog2)
			add("luma_bit_depth_cm_input_minus8", cm.LumaBitDepthCmInputMinus8)
			add("chroma_bit_depth_cm_input_minus8", cm.ChromaBitDepthCmInputMinus8)
			add("luma_bit_depth_cm_output_minus8", cm.LumaBitDepthCmOutputMinus8)
			add("chroma_bit_depth_cm_output_minus8", cm.ChromaBitDepthCmOutputMinus8)
			add("cm_res_quant_bits", cm.ResQuantBits)
			add("cm_delta_flc_bits_minus1", cm.DeltaFlcBitsMinus1)
			if cm.OctantDepth == 1 {
				add("cm_adapt_threshold_u_delta", cm.AdaptThresholdUDelta)
				add("cm_adapt_threshold_v_delta", cm.AdaptThresholdVDelta)
			}
		}
	}
	if e := s.D3Extension; e != nil {
		addf("dlts_present_flag", e.DltsPresentFlag)
		if e.DltsPresentFlag {
			add("pps_depth_layers_minus1", e.NumDepthLayersMinus1)
			add("pps_bit_depth_for_depth_layers_minus8", e.BitDepthForDepthLayersMinus8)
			for _, l := range e.DepthLayers {
				addf("dlt_flag", l.DltFlag)
				if !l.DltFlag {
					continue
				}
				addf("dlt_pred_flag", l.DltPredFlag)
				if !l.DltPredFlag {
					addf("dlt_val_flags_present_flag", l.DltValFlagsPresentFlag)
				}
				if l.DltValFlagsPresentFlag {
					for _, b := range l.DltValueFlag {
						addf("dlt_value_flag", b)
					}
				} else if d := l.DeltaDlt; d != nil {
					add("num_val_delta_dlt", d.NumValDeltaDlt)
					if d.NumValDeltaDlt > 0 {
						if d.NumValDeltaDlt > 1 {
							add("max_diff", d.MaxDiff)
						}
						if d.NumValDeltaDlt > 2 && d.MaxDiff > 0 {
							add("min_diff_minus1", d.MinDiffMinus1)
						}
						add("delta_dlt_val0", d.DeltaDltVal0)
						for _, x := range d.DeltaValDiffMinusMin {
							add("delta_val_diff_minus_min", x)
						}
					}
				}
			}
		}
	}
	if e := s.SccExtension; e != nil {
		addf("pps_curr_pic_ref_enabled_flag", e.CurrPicRefEnabledFlag)
		addf("residual_adaptive_colour_transform_enabled_flag", e.ResidualAdaptiveColourTransformEnabledFlag)
		if e.ResidualAdaptiveColourTransformEnabledFlag {
			addf("pps_slice_act_qp_offsets_present_flag", e.SliceActQpOffsetsPresentFlag)
			add("pps_act_y_qp_offset_plus5", e.ActYQpOffsetPlus5)
			add("pps_act_cb_qp_offset_plus5", e.ActCbQpOffsetPlus5)
			add("pps_act_cr_qp_offset_plus3", e.ActCrQpOffsetPlus3)
		}
		addf("pps_palette_predictor_initializers_present_flag", e.PalettePredictorInitializersPresentFlag)
		if e.PalettePredictorInitializersPresentFlag {
			add("pps_num_palette_predictor_initializers", e.NumPalettePredictorInitializers)
			if e.NumPalettePredictorInitializers > 0 {
				addf("monochrome_palette_flag", e.MonochromePaletteFlag)
				add("luma_bit_depth_entry_minus8", e.LumaBitDepthEntryMinus8)
				if !e.MonochromePaletteFlag {
					add("chroma_bit_depth_entry_minus8", e.ChromaBitDepthEntryMinus8)
				}
				names := []string{"pps_palette_predictor_initializer_luma", "pps_palette_predictor_initializer_cb", "pps_palette_predictor_initializer_cr"}
				for ci, comp := range e.PalettePredictorInitializer {
					for _, x := range comp {
						add(names[ci%3], x)
					}
				}
			}
		}
	}
	ed := "-"
	if len(s.ExtensionDataFlag) > 0 {
		ed = ""
		for _, b := range s.ExtensionDataFlag {
			ed += fmt.Sprint(b01i(b))
		}
	}
	add("ext_data", ed)
	return strings.Join(p, " ")
}

// hevcPPSModelCases: `hevcppsm <sps ids|-> <hex>`; the SPS map is the scenario's (sometimes emptied: "sps ID not found")
func hevcPPSModelCases(c *Ctx, r *rand.Rand, nalu []byte, spsNALUs [][]byte) {
	if !modelBudget(c, "hevcppsm") {
		return
	}
	spsMap := map[uint32]*hevc.SPS{}
	if r.Intn(10) != 0 {
		for _, n := range spsNALUs {
			if s, err := hevc.ParseSPSNALUnit(n); err == nil && s != nil {
				spsMap[uint32(s.SpsID)] = s
			}
		}
	}
	var ids []int
	for id := range spsMap {
		ids = append(ids, int(id))
	}
	sort.Ints(ids)
	m := "-"
	if len(ids) > 0 {
		var ms []string
		for _, id := range ids {
			ms = append(ms, fmt.Sprint(id))
		}
		m = strings.Join(ms, ",")
	}
	modelVariants(r, nalu, 2, func(kind string, b []byte) {
		c.Count("model:hevcppsm:" + kind)
		c.Case("hevcppsm "+m+" "+hx(b), hevcPPSRecord(b, spsMap))
	})
}

// ---------------------------------------------------------------------------------------------------- AVC slice header

func avcSliceCtx(spsMap map[uint32]*avc.SPS, ppsMap map[uint32]*avc.PPS) (string, string) {
	var sids, pids []int
	for id := range spsMap {
		sids = append(sids, int(id))
	}
	for id := range ppsMap {
		pids = append(pids, int(id))
	}
	sort.Ints(sids)
	sort.Ints(pids)
	var ss, ps []string
	for _, id := range sids {
		x := spsMap[uint32(id)]
		ss = append(ss, fmt.Sprintf("%d:%d:%d:%d:%d:%d:%d:%d:%d:%d:%d:%d:%d:%d", id, x.Log2MaxFrameNumMinus4,
			x.Log2MaxPicOrderCntLsbMinus4, b01i(x.SeparateColourPlaneFlag), b01i(x.FrameMbsOnlyFlag), x.PicOrderCntType,
			b01i(x.DeltaPicOrderAlwaysZeroFlag), x.ChromaFormatIDC, x.Width, x.Height, x.FrameCropLeftOffset,
			x.FrameCropRightOffset, x.FrameCropTopOffset, x.FrameCropBottomOffset))
	}
	for _, id := range pids {
		x := ppsMap[uint32(id)]
		ps = append(ps, fmt.Sprintf("%d:%d:%d:%d:%d:%d:%d:%d:%d:%d:%d:%d:%d", id, x.SeqParameterSetID,
			b01i(x.BottomFieldPicOrderInFramePresentFlag), b01i(x.RedundantPicCntPresentFlag),
			x.NumRefIdxI0DefaultActiveMinus1, x.NumRefIdxI1DefaultActiveMinus1, b01i(x.WeightedPredFlag), x.WeightedBipredIDC,
			b01i(x.EntropyCodingModeFlag), b01i(x.DeblockingFilterControlPresentFlag), x.NumSliceGroupsMinus1,
			x.SliceGroupMapType, x.SliceGroupChangeRateMinus1))
	}
	j := func(l []string) string {
		if len(l) == 0 {
			return "-"
		}
		return strings.Join(l, ",")
	}
	return j(ss), j(ps)
}

// avcSliceRecord: the SliceHeader struct field by field; "trunc" when the NAL unit ends inside the header (the parser
// does not report that: it is detected by parsing the unit again with bytes appended and looking at the header size)
func avcSliceRecord(nalu []byte, spsMap map[uint32]*avc.SPS, ppsMap map[uint32]*avc.PPS) (ans string) {
	defer func() {
		if r := recover(); r != nil {
			ans = fmt.Sprintf("panic: %v", r)
		}
	}()
	h, err := avc.ParseSliceHeader(nalu, spsMap, ppsMap)
	if err != nil || h == nil {
		return "err"
	}
	ext := append(cp(nalu), 0x55, 0x55, 0x55, 0x55, 0x55, 0x55, 0x55, 0x55, 0x55, 0x55, 0x55, 0x55, 0x55, 0x55, 0x55, 0x55)
	if h2, err2 := avc.ParseSliceHeader(ext, spsMap, ppsMap); err2 != nil || h2 == nil || int(h2.Size) > len(nalu) {
		return "trunc"
	}
	var p []string
	add := func(n string, v interface{}) { p = append(p, fmt.Sprintf("%s=%v", n, v)) }
	add("SliceType", uint(h.SliceType))
	add("FirstMBInSlice", h.FirstMBInSlice)
	add("PicParamID", h.PicParamID)
	add("SeqParamID", h.SeqParamID)
	add("ColorPlaneID", h.ColorPlaneID)
	add("FrameNum", h.FrameNum)
	add("IDRPicID", h.IDRPicID)
	add("PicOrderCntLsb", h.PicOrderCntLsb)
	add("DeltaPicOrderCntBottom", h.DeltaPicOrderCntBottom)
	add("DeltaPicOrderCnt0", h.DeltaPicOrderCnt[0])
	add("DeltaPicOrderCnt1", h.DeltaPicOrderCnt[1])
	add("RedundantPicCnt", h.RedundantPicCnt)
	add("NumRefIdxL0ActiveMinus1", h.NumRefIdxL0ActiveMinus1)
	add("NumRefIdxL1ActiveMinus1", h.NumRefIdxL1ActiveMinus1)
	add("ModificationOfPicNumsIDC", h.ModificationOfPicNumsIDC)
	add("AbsDiffPicNumMinus1", h.AbsDiffPicNumMinus1)
	add("LongTermPicNum", h.LongTermPicNum)
	add("AbsDiffViewIdxMinus1", h.AbsDiffViewIdxMinus1)
	add("LumaLog2WeightDenom", h.LumaLog2WeightDenom)
	add("ChromaLog2WeightDenom", h.ChromaLog2WeightDenom)
	add("DifferenceOfPicNumsMinus1", h.DifferenceOfPicNumsMinus1)
	add("LongTermFramIdx", h.LongTermFramIdx)
	add("MaxLongTermFrameIdxPlus1", h.MaxLongTermFrameIdxPlus1)
	add("CabacInitIDC", h.CabacInitIDC)
	add("SliceQPDelta", h.SliceQPDelta)
	add("SliceQSDelta", h.SliceQSDelta)
	add("DisableDeblockingFilterIDC", h.DisableDeblockingFilterIDC)
	add("SliceAlphaC0OffsetDiv2", h.SliceAlphaC0OffsetDiv2)
	add("SliceBetaOffsetDiv2", h.SliceBetaOffsetDiv2)
	add("SliceGroupChangeCycle", h.SliceGroupChangeCycle)
	add("Size", h.Size)
	add("FieldPicFlag", b01i(h.FieldPicFlag))
	add("BottomFieldFlag", b01i(h.BottomFieldFlag))
	add("DirectSpatialMvPredFlag", b01i(h.DirectSpatialMvPredFlag))
	add("NumRefIdxActiveOverrideFlag", b01i(h.NumRefIdxActiveOverrideFlag))
	add("RefPicListModificationL0Flag", b01i(h.RefPicListModificationL0Flag))
	add("RefPicListModificationL1Flag", b01i(h.RefPicListModificationL1Flag))
	add("NoOutputOfPriorPicsFlag", b01i(h.NoOutputOfPriorPicsFlag))
	add("LongTermReferenceFlag", b01i(h.LongTermReferenceFlag))
	add("SPForSwitchFlag", b01i(h.SPForSwitchFlag))
	add("AdaptiveRefPicMarkingModeFlag", b01i(h.AdaptiveRefPicMarkingModeFlag))
	return strings.Join(p, " ")
}

// avcSliceModelCases: `avcslicem <sps infos|-> <pps infos|-> <hex>`: the generated slice NAL unit (header + some slice
// data), truncations, hostile variants; the maps are the scenario's (sometimes without the SPSs / without everything)
func avcSliceModelCases(c *Ctx, r *rand.Rand, nalu []byte, spsNALUs, ppsNALUs [][]byte) {
	if !modelBudget(c, "avcslicem") {
		return
	}
	spsMap := map[uint32]*avc.SPS{}
	ppsMap := map[uint32]*avc.PPS{}
	for _, n := range spsNALUs {
		if s, err := avc.ParseSPSNALUnit(n, true); err == nil && s != nil {
			spsMap[s.ParameterID] = s
		}
	}
	for _, n := range ppsNALUs {
		if p, err := avc.ParsePPSNALUnit(n, spsMap); err == nil && p != nil {
			ppsMap[p.PicParameterSetID] = p
		}
	}
	switch r.Intn(16) {
	case 0:
		spsMap = map[uint32]*avc.SPS{}
	case 1:
		ppsMap = map[uint32]*avc.PPS{}
	}
	ss, ps := avcSliceCtx(spsMap, ppsMap)
	modelVariants(r, nalu, 1, func(kind string, b []byte) {
		c.Count("model:avcslicem:" + kind)
		c.Case("avcslicem "+ss+" "+ps+" "+hx(b), avcSliceRecord(b, spsMap, ppsMap))
	})
}

// --------------------------------------------------------------------------------------------------- HEVC slice header

func hevcSliceRecord(nalu []byte, spsMap map[uint32]*hevc.SPS, ppsMap map[uint32]*hevc.PPS) (ans string) {
	defer func() {
		if r := recover(); r != nil {
			ans = fmt.Sprintf("panic: %v", r)
		}
	}()
	h, err := hevc.ParseSliceHeader(nalu, spsMap, ppsMap)
	if err != nil || h == nil {
		return "err"
	}
	var p []string
	add := func(n string, v interface{}) { p = append(p, fmt.Sprintf("%s=%v", n, v)) }
	addf := func(n string, b bool) { add(n, b01i(b)) }
	lst := func(n string, l []string) {
		if len(l) == 0 {
			add(n, "-")
		} else {
			add(n, strings.Join(l, ","))
		}
	}
	add("SliceType", uint(h.SliceType))
	addf("FirstSliceSegmentInPicFlag", h.FirstSliceSegmentInPicFlag)
	addf("NoOutputOfPriorPicsFlag", h.NoOutputOfPriorPicsFlag)
	add("PicParameterSetId", h.PicParameterSetId)
	addf("DependentSliceSegmentFlag", h.DependentSliceSegmentFlag)
	add("SegmentAddress", h.SegmentAddress)
	addf("PicOutputFlag", h.PicOutputFlag)
	add("ColourPlaneId", h.ColourPlaneId)
	add("PicOrderCntLsb", h.PicOrderCntLsb)
	addf("ShortTermRefPicSetSpsFlag", h.ShortTermRefPicSetSpsFlag)
	add("ShortTermRefPicSet", hevcRPSText(h.ShortTermRefPicSet))
	add("ShortTermRefPicSetIdx", h.ShortTermRefPicSetIdx)
	add("NumLongTermSps", h.NumLongTermSps)
	add("NumLongTermPics", h.NumLongTermPics)
	var poc, used, msbp, msbc []string
	for _, lt := range h.LongTermRefPicSets {
		poc = append(poc, fmt.Sprint(lt.PocLsbLt))
		used = append(used, fmt.Sprint(b01i(lt.UsedByCurrPicLtFlag)))
		msbp = append(msbp, fmt.Sprint(b01i(lt.DeltaPocMsbPresentFlag)))
		if lt.DeltaPocMsbPresentFlag {
			msbc = append(msbc, fmt.Sprint(lt.DeltaPocMsbCycleLt))
		}
	}
	lst("LtPoc", poc)
	lst("LtUsed", used)
	lst("LtMsbPresent", msbp)
	lst("LtMsbCycle", msbc)
	addf("TemporalMvpEnabledFlag", h.TemporalMvpEnabledFlag)
	addf("SaoLumaFlag", h.SaoLumaFlag)
	addf("SaoChromaFlag", h.SaoChromaFlag)
	addf("NumRefIdxActiveOverrideFlag", h.NumRefIdxActiveOverrideFlag)
	add("NumRefIdxL0ActiveMinus1", h.NumRefIdxL0ActiveMinus1)
	add("NumRefIdxL1ActiveMinus1", h.NumRefIdxL1ActiveMinus1)
	var l0, l1 []string
	f0, f1 := false, false
	if m := h.RefPicListsModification; m != nil {
		f0, f1 = m.RefPicListModificationFlagL0, m.RefPicListModificationFlagL1
		for _, x := range m.ListEntryL0 {
			l0 = append(l0, fmt.Sprint(x))
		}
		for _, x := range m.ListEntryL1 {
			l1 = append(l1, fmt.Sprint(x))
		}
	}
	addf("RplmL0", f0)
	lst("ListEntryL0", l0)
	addf("RplmL1", f1)
	lst("ListEntryL1", l1)
	addf("MvdL1ZeroFlag", h.MvdL1ZeroFlag)
	addf("CabacInitFlag", h.CabacInitFlag)
	addf("CollocatedFromL0Flag", h.CollocatedFromL0Flag)
	add("CollocatedRefIdx", h.CollocatedRefIdx)
	w := h.PredWeightTable
	if w == nil {
		w = &hevc.PredWeightTable{}
	}
	add("LumaLog2WeightDenom", w.LumaLog2WeightDenom)
	add("DeltaChromaLog2WeightDenom", w.DeltaChromaLog2WeightDenom)
	chromaCoded := h.PredWeightTable != nil && hevcChromaArrayType(h, spsMap, ppsMap) != 0
	weights := func(sfx string, l []hevc.WeightingFactors) {
		var lf, cf, dl, lo, dcw, dco []string
		for _, x := range l {
			lf = append(lf, fmt.Sprint(b01i(x.LumaWeightFlag)))
			if chromaCoded {
				cf = append(cf, fmt.Sprint(b01i(x.ChromaWeightFlag)))
			}
		}
		for _, x := range l {
			if x.LumaWeightFlag {
				dl = append(dl, fmt.Sprint(x.DeltaLumaWeight))
				lo = append(lo, fmt.Sprint(x.LumaOffset))
			}
			if x.ChromaWeightFlag {
				for j := 0; j < 2; j++ {
					dcw = append(dcw, fmt.Sprint(x.DeltaChromaWeight[j]))
					dco = append(dco, fmt.Sprint(x.DeltaChromaOffset[j]))
				}
			}
		}
		lst("LumaWeightFlag"+sfx, lf)
		lst("ChromaWeightFlag"+sfx, cf)
		lst("DeltaLumaWeight"+sfx, dl)
		lst("LumaOffset"+sfx, lo)
		lst("DeltaChromaWeight"+sfx, dcw)
		lst("DeltaChromaOffset"+sfx, dco)
	}
	weights("L0", w.WeightsL0)
	weights("L1", w.WeightsL1)
	add("FiveMinusMaxNumMergeCand", h.FiveMinusMaxNumMergeCand)
	addf("UseIntegerMvFlag", h.UseIntegerMvFlag)
	add("QpDelta", h.QpDelta)
	add("CbQpOffset", h.CbQpOffset)
	add("CrQpOffset", h.CrQpOffset)
	add("ActYQpOffset", h.ActYQpOffset)
	add("ActCbQpOffset", h.ActCbQpOffset)
	add("ActCrQpOffset", h.ActCrQpOffset)
	addf("CuChromaQpOffsetEnabledFlag", h.CuChromaQpOffsetEnabledFlag)
	addf("DeblockingFilterOverrideFlag", h.DeblockingFilterOverrideFlag)
	addf("DeblockingFilterDisabledFlag", h.DeblockingFilterDisabledFlag)
	add("BetaOffsetDiv2", h.BetaOffsetDiv2)
	add("TcOffsetDiv2", h.TcOffsetDiv2)
	addf("LoopFilterAcrossSlicesEnabledFlag", h.LoopFilterAcrossSlicesEnabledFlag)
	add("NumEntryPointOffsets", h.NumEntryPointOffsets)
	add("OffsetLenMinus1", h.OffsetLenMinus1)
	var ep, eb []string
	for _, x := range h.EntryPointOffsetMinus1 {
		ep = append(ep, fmt.Sprint(x))
	}
	for _, x := range h.SegmentHeaderExtensionDataByte {
		eb = append(eb, fmt.Sprint(x))
	}
	lst("EntryPointOffsetMinus1", ep)
	add("SegmentHeaderExtensionLength", h.SegmentHeaderExtensionLength)
	lst("SegmentHeaderExtensionDataByte", eb)
	add("Size", h.Size)
	return strings.Join(p, " ")
}

// hevcChromaArrayType: ChromaArrayType of the SPS the slice refers to (only to know whether chroma weight flags were coded)
func hevcChromaArrayType(h *hevc.SliceHeader, spsMap map[uint32]*hevc.SPS, ppsMap map[uint32]*hevc.PPS) byte {
	pps := ppsMap[h.PicParameterSetId]
	if pps == nil {
		return 0
	}
	sps := spsMap[pps.SeqParameterSetID]
	if sps == nil {
		return 0
	}
	if sps.SeparateColourPlaneFlag && sps.ChromaFormatIDC == 3 {
		return 0
	}
	return sps.ChromaFormatIDC
}

// hevcSliceModelCases: `hevcslicem <sps NAL units|-> <pps NAL units|-> <hex>`: the model parses the parameter sets itself
func hevcSliceModelCases(c *Ctx, r *rand.Rand, nalu []byte, spsNALUs, ppsNALUs [][]byte) {
	if !modelBudget(c, "hevcslicem") {
		return
	}
	switch r.Intn(16) {
	case 0:
		spsNALUs = nil
	case 1:
		ppsNALUs = nil
	}
	spsMap := map[uint32]*hevc.SPS{}
	ppsMap := map[uint32]*hevc.PPS{}
	for _, n := range spsNALUs {
		if s, err := hevc.ParseSPSNALUnit(n); err == nil && s != nil {
			spsMap[uint32(s.SpsID)] = s
		}
	}
	for _, n := range ppsNALUs {
		if p, err := hevc.ParsePPSNALUnit(n, spsMap); err == nil && p != nil {
			ppsMap[p.PicParameterSetID] = p
		}
	}
	j := func(l [][]byte) string {
		if len(l) == 0 {
			return "-"
		}
		var o []string
		for _, b := range l {
			o = append(o, hx(b))
		}
		return strings.Join(o, ",")
	}
	ss, ps := j(spsNALUs), j(ppsNALUs)
	modelVariants(r, nalu, 2, func(kind string, b []byte) {
		c.Count("model:hevcslicem:" + kind)
		c.Case("hevcslicem "+ss+" "+ps+" "+hx(b), hevcSliceRecord(b, spsMap, ppsMap))
	})
}
