package main

import (
	"bytes"
	"encoding/hex"
	"fmt"
	"os"
	"path/filepath"
	"strconv"
	"strings"

	"github.com/Eyevinn/mp4ff/mp4"
)

// Correspondence glue for C10: the sample tables of the input file go to the Lean model of cmd/mp4ff-crop
// (Model/Crop.lean `cropAll`), the tables of the tool's output file are the implementation's answer.

// tablesOfTrak reads the raw tables from the decoded boxes (struct fields only, no query helpers).
func tablesOfTrak(trak *mp4.TrakBox) *tables {
	stbl := trak.Mdia.Minf.Stbl
	t := &tables{}
	if stbl.Stts != nil {
		t.sttsC = append(t.sttsC, stbl.Stts.SampleCount...)
		t.sttsD = append(t.sttsD, stbl.Stts.SampleTimeDelta...)
	}
	if stbl.Ctts != nil {
		t.hasCtts = true
		for i := 0; i+1 < len(stbl.Ctts.EndSampleNr); i++ {
			t.cttsC = append(t.cttsC, stbl.Ctts.EndSampleNr[i+1]-stbl.Ctts.EndSampleNr[i])
		}
		t.cttsO = append(t.cttsO, stbl.Ctts.SampleOffset...)
	}
	if stbl.Stsc != nil {
		for i, e := range stbl.Stsc.Entries {
			sdi := uint32(1)
			if len(stbl.Stsc.SampleDescriptionID) > i {
				sdi = stbl.Stsc.SampleDescriptionID[i]
			} else if len(stbl.Stsc.Entries) > 0 {
				sdi = stbl.Stsc.GetSampleDescriptionID(1)
			}
			t.stsc = append(t.stsc, [3]uint32{e.FirstChunk, e.SamplesPerChunk, sdi})
		}
	}
	if stbl.Stsz != nil {
		t.uniform = stbl.Stsz.SampleUniformSize
		t.n = stbl.Stsz.SampleNumber
		t.sizes = append(t.sizes, stbl.Stsz.SampleSize...)
	}
	if stbl.Stco != nil {
		for _, o := range stbl.Stco.ChunkOffset {
			t.offsets = append(t.offsets, uint64(o))
		}
	} else if stbl.Co64 != nil {
		t.co64 = true
		t.offsets = append(t.offsets, stbl.Co64.ChunkOffset...)
	}
	if stbl.Stss != nil {
		t.hasStss = true
		t.stss = append(t.stss, stbl.Stss.SampleNumber...)
	}
	if stbl.Sdtp != nil {
		t.hasSdtp = true
		for _, e := range stbl.Sdtp.Entries {
			t.sdtp = append(t.sdtp, byte(e))
		}
	}
	return t
}

func u32s(l []uint32) string {
	if len(l) == 0 {
		return "-"
	}
	s := make([]string, len(l))
	for i, x := range l {
		s[i] = strconv.FormatUint(uint64(x), 10)
	}
	return strings.Join(s, ",")
}

// cropAnswer renders the output file's tables in the format of Driver/C10.lean `showTrack`.
func cropAnswer(in, out *mp4.File, ranges string) string {
	var tr []string
	for i, trak := range out.Moov.Traks {
		t := tablesOfTrak(trak)
		f := strings.Fields(t.line()) // stts ctts stsc stsz stco stss sdtp
		if t.uniform == 0 && len(t.sizes) == 0 {
			f[3] = "-"
		}
		if len(t.offsets) == 0 {
			f[4] = "-"
		}
		if len(t.sttsC) == 0 {
			f[0] = "-"
		}
		if len(t.stsc) == 0 {
			f[2] = "-"
		}
		inT := tablesOfTrak(in.Moov.Traks[i])
		if inT.hasStss && len(inT.stss) > 0 && len(t.stss) == 0 {
			f[5] = "e"
		}
		if inT.hasSdtp && len(t.sdtp) == 0 {
			f[6] = "e"
		}
		tr = append(tr, fmt.Sprintf("k=%d %s", t.n, strings.Join(f, " ")))
	}
	return strings.Join(tr, " T ") + " R " + ranges
}

// cropRequest: "crop H=<replay-key> <ms> <payloadStart> {hdlr timescale stts ctts stsc stsz stco stss sdtp}*"
func cropRequest(key string, in *mp4.File, ms int, payloadStart uint64) string {
	p := []string{"crop", "H=" + key, strconv.Itoa(ms), strconv.FormatUint(payloadStart, 10)}
	for _, trak := range in.Moov.Traks {
		t := tablesOfTrak(trak)
		p = append(p, trak.Mdia.Hdlr.HandlerType, strconv.FormatUint(uint64(trak.Mdia.Mdhd.Timescale), 10), t.line())
	}
	return strings.Join(p, " ")
}

// mdatRanges locates, for the output mdat payload, the maximal runs of bytes that are contiguous in the input
// file's mdat, by following the model-independent chunk lists of input and output (used as the implementation's
// "R" answer): computed from the two files' chunk tables, not from the tool's internals.
func mdatRanges(in, out *mp4.File) string {
	type piece struct{ inOff, outOff, size uint64 }
	var ps []piece
	for i, trak := range out.Moov.Traks {
		ot := tablesOfTrak(trak)
		it := tablesOfTrak(in.Moov.Traks[i])
		// chunk sizes of the output track
		spc := func(t *tables, c uint32) uint32 {
			var v uint32
			for _, e := range t.stsc {
				if e[0] <= c {
					v = e[1]
				}
			}
			return v
		}
		sz := func(t *tables, n uint32) uint64 {
			if t.uniform != 0 {
				return uint64(t.uniform)
			}
			return uint64(t.sizes[n-1])
		}
		sample := uint32(1)
		for c := 1; c <= len(ot.offsets); c++ {
			n := spc(ot, uint32(c))
			var size uint64
			for k := uint32(0); k < n; k++ {
				size += sz(ot, sample+k)
			}
			sample += n
			if c-1 < len(it.offsets) && size > 0 { // an empty chunk (size-0 samples only) copies nothing
				ps = append(ps, piece{it.offsets[c-1], ot.offsets[c-1], size})
			}
		}
	}
	// order by output offset, merge runs contiguous in the input
	for i := 1; i < len(ps); i++ {
		for j := i; j > 0 && ps[j].outOff < ps[j-1].outOff; j-- {
			ps[j], ps[j-1] = ps[j-1], ps[j]
		}
	}
	var rs []string
	var cur *piece
	for i := range ps {
		p := ps[i]
		if cur != nil && cur.inOff+cur.size == p.inOff {
			cur.size += p.size
			continue
		}
		if cur != nil {
			rs = append(rs, fmt.Sprintf("%d:%d", cur.inOff, cur.size))
		}
		q := p
		cur = &q
	}
	if cur != nil {
		rs = append(rs, fmt.Sprintf("%d:%d", cur.inOff, cur.size))
	}
	if len(rs) == 0 {
		return "-"
	}
	return strings.Join(rs, ",")
}

// ---- wiring into the C10 harness ----

var c10CurIn *mp4.File // decoded input of the file currently being cropped
var c10ModelCases, c10Successes int

// cropModelCase emits one model correspondence line for a successful crop (bounded number per run).
func cropModelCase(c *Ctx, req string, out *mp4.File, ms uint64) {
	limit := c.N(3000, 22000)
	if c10CurIn == nil || c10CurIn.Moov == nil || out.Moov == nil || out.Mdat == nil || c10ModelCases >= limit {
		return
	}
	if len(out.Moov.Traks) != len(c10CurIn.Moov.Traks) {
		return
	}
	c10Successes++
	if c10Successes%c.N(17, 30) != 0 {
		return
	}
	c10ModelCases++
	key := strings.ReplaceAll(req, " ", "/")
	c.Case(cropRequest(key, c10CurIn, int(ms), out.Mdat.PayloadAbsoluteOffset()), cropAnswer(c10CurIn, out, mdatRanges(c10CurIn, out)))
	c.Case(cropHdrRequest(key, c10CurIn, int(ms)), cropHdrAnswer(out))
	c.Count("model.crophdr")
}

// ---- op "cropmdat": the bytes of the new mdat (writeMdat) against the model's `copied file (mergeRanges pieces)`

var c10CurInBytes []byte // raw bytes of the file currently being cropped
var c10CurKind string    // its input family (spec[0])
var c10MdatSeen, c10MdatCases = map[string]int{}, map[string]int{}

// mediaMdat returns the one non-empty mdat of a raw file (ok=false if there is none or more than one).
func (rp *rawProg) mediaMdat() (m rawMdat, ok bool) {
	n := 0
	for _, x := range rp.mdats {
		if x.end > x.payload {
			m = x
			n++
		}
	}
	return m, n == 1
}

func hexOrDash(b []byte) string {
	if len(b) == 0 {
		return "-"
	}
	return hex.EncodeToString(b)
}

// cropMdatCase emits, for a sample of the successful crops of small files of every input family, one line that
// sends the input's media bytes and tables to the model and compares the model's new mdat payload with the bytes
// of the mdat in the file the tool wrote (mdat located by the harness' own box walker).
func cropMdatCase(c *Ctx, req string, ms uint64, in, o *rawProg, out []byte) {
	if c10CurIn == nil || c10CurIn.Moov == nil || c10CurInBytes == nil || len(o.mdats) != 1 {
		return
	}
	m, ok := in.mediaMdat()
	if !ok || m.end-m.payload > 4096 || m.end > len(c10CurInBytes) {
		return
	}
	c10MdatSeen[c10CurKind]++
	if c10MdatSeen[c10CurKind]%7 != 0 || c10MdatCases[c10CurKind] >= c.N(60, 400) {
		return
	}
	c10MdatCases[c10CurKind]++
	om := o.mdats[0]
	p := []string{"cropmdat", "H=" + strings.ReplaceAll(req, " ", "/"), strconv.FormatUint(ms, 10), strconv.Itoa(om.payload),
		strconv.Itoa(m.payload), hexOrDash(c10CurInBytes[m.payload:m.end])}
	for _, trak := range c10CurIn.Moov.Traks {
		t := tablesOfTrak(trak)
		p = append(p, trak.Mdia.Hdlr.HandlerType, strconv.FormatUint(uint64(trak.Mdia.Mdhd.Timescale), 10), t.line())
	}
	c.Case(strings.Join(p, " "), hexOrDash(out[om.payload:om.end]))
	c.Count("model.cropmdat")
}

// execCropMdat replays "crop <ms> <input spec>" and returns the payload of the output's mdat.
func execCropMdat(req string) string {
	f := strings.Fields(req)
	if len(f) < 4 || f[0] != "crop" {
		return "bad-op"
	}
	ms, err := strconv.ParseUint(f[1], 10, 64)
	if err != nil {
		return "bad-op"
	}
	var ans string
	p := safe(func() {
		data, _, err := progInputBytes(f[2:])
		if err != nil {
			ans = "input-err " + err.Error()
			return
		}
		dir, done := scratchDir("c10b")
		defer done()
		in := filepath.Join(dir, "in.mp4")
		if err := os.WriteFile(in, data, 0o644); err != nil {
			ans = "input-err " + err.Error()
			return
		}
		r, out := runCrop(dir, in, ms, "b")
		if r.exit != 0 {
			ans = "fail"
			return
		}
		o, err := expandProg(out)
		if err != nil || len(o.mdats) != 1 {
			ans = "unparsable-output"
			return
		}
		ans = hexOrDash(out[o.mdats[0].payload:o.mdats[0].end])
	})
	if p != "" {
		return p
	}
	return ans
}

func elstDurs(trak *mp4.TrakBox) string {
	var d []string
	if trak.Edts != nil {
		for _, e := range trak.Edts.Elst {
			for _, en := range e.Entries {
				d = append(d, strconv.FormatUint(en.SegmentDuration, 10))
			}
		}
	}
	if len(d) == 0 {
		return "-"
	}
	return strings.Join(d, ",")
}

// cropHdrRequest: "crophdr H=<key> <ms> <mvhd timescale> <mvhd duration> <n> {tkhdDur elst}*n {hdlr timescale tables}*n"
func cropHdrRequest(key string, in *mp4.File, ms int) string {
	mv := in.Moov.Mvhd
	p := []string{"crophdr", "H=" + key, strconv.Itoa(ms), strconv.FormatUint(uint64(mv.Timescale), 10), strconv.FormatUint(mv.Duration, 10), strconv.Itoa(len(in.Moov.Traks))}
	for _, trak := range in.Moov.Traks {
		p = append(p, strconv.FormatUint(trak.Tkhd.Duration, 10), elstDurs(trak))
	}
	for _, trak := range in.Moov.Traks {
		t := tablesOfTrak(trak)
		p = append(p, trak.Mdia.Hdlr.HandlerType, strconv.FormatUint(uint64(trak.Mdia.Mdhd.Timescale), 10), t.line())
	}
	return strings.Join(p, " ")
}

// cropHdrAnswer renders the output file's header durations in the format of Driver/C10.lean `crophdr`.
func cropHdrAnswer(out *mp4.File) string {
	s := fmt.Sprintf("mvhd=%d", out.Moov.Mvhd.Duration)
	for _, trak := range out.Moov.Traks {
		s += fmt.Sprintf(" T %d %s", trak.Tkhd.Duration, elstDurs(trak))
	}
	return s
}

// execCropModel replays "crop <ms> <input spec>" and renders the output in the model's format.
func execCropModel(req string) string {
	f := strings.Fields(req)
	if len(f) < 4 || f[0] != "crop" {
		return "bad-op"
	}
	ms, err := strconv.ParseUint(f[1], 10, 64)
	if err != nil {
		return "bad-op"
	}
	var ans string
	p := safe(func() {
		data, _, err := progInputBytes(f[2:])
		if err != nil {
			ans = "input-err " + err.Error()
			return
		}
		dir, done := scratchDir("c10m")
		defer done()
		in := filepath.Join(dir, "in.mp4")
		if err := os.WriteFile(in, data, 0o644); err != nil {
			ans = "input-err " + err.Error()
			return
		}
		r, out := runCrop(dir, in, ms, "m")
		if r.exit != 0 {
			ans = "fail"
			return
		}
		inF, e1 := mp4.DecodeFile(bytes.NewReader(data))
		outF, e2 := mp4.DecodeFile(bytes.NewReader(out))
		if e1 != nil || e2 != nil {
			ans = "decode-err"
			return
		}
		ans = cropAnswer(inF, outF, mdatRanges(inF, outF))
	})
	if p != "" {
		return p
	}
	return ans
}
