package main

import (
	"bytes"
	"errors"
	"fmt"
	"strings"

	"github.com/Eyevinn/mp4ff/avc"
	"github.com/Eyevinn/mp4ff/hevc"
	"github.com/Eyevinn/mp4ff/sei"
)

func init() {
	props["C17"] = &propDef{
		rule: "cases = SEI message lists (0..6 messages, types around 255/510 and large, sizes {0,1,2,254,255,256,509,510,511,random}, payload bytes biased to 00/01/02/03/ff incl. payloads ending in 00) written and extracted; typed messages: time code (all flag combinations x time-offset lengths 0..31 x 0..3 clocks), AVC picture timing (pict_struct 0..8, with/without HRD delays, signed time offsets), MDCV, CLL, and pass-through messages (types 4, 5, CEA-608, HEVC pic timing); complete SEI NAL units (AVC / HEVC header + written list of 1..6 messages mixing types without a dedicated decoder with the codec's typed and pass-through ones) parsed through avc.ParseSEINalu / hevc.ParseSEINalu without and with an SPS (VUI only, NAL/VCL HRD), 1..3 NAL units parsed before any returned list is inspected; non-trivial = distinct list with >= 2 messages or a type/size >= 255 or an escape in the output; distinct typed message value",
		gen:  genC17,
		exec: execC17,
	}
}

func execC17(req string) string {
	f := strings.Fields(req)
	if len(f) == 0 {
		return ""
	}
	var out string
	p := safe(func() { out = execC17Inner(f[0], f[1:]) })
	if p != "" {
		return p
	}
	return out
}

func ints(s string) []int {
	if s == "-" {
		return nil
	}
	var out []int
	for _, x := range strings.Split(s, ",") {
		out = append(out, atoi(x))
	}
	return out
}

func joinInts(v []int) string {
	if len(v) == 0 {
		return "-"
	}
	s := make([]string, len(v))
	for i, x := range v {
		s[i] = fmt.Sprint(x)
	}
	return strings.Join(s, ",")
}

func bi(b bool) int {
	if b {
		return 1
	}
	return 0
}

func clockFrom(v []int) sei.ClockTS {
	return sei.ClockTS{TimeOffsetValue: uint32(v[0]), NFrames: uint16(v[1]), Hours: byte(v[2]), Minutes: byte(v[3]), Seconds: byte(v[4]),
		ClockTimeStampFlag: v[5] != 0, UnitsFieldBasedFlag: v[6] != 0, FullTimeStampFlag: v[7] != 0, SecondsFlag: v[8] != 0,
		MinutesFlag: v[9] != 0, HoursFlag: v[10] != 0, DiscontinuityFlag: v[11] != 0, CntDroppedFlag: v[12] != 0,
		CountingType: byte(v[13]), TimeOffsetLength: byte(v[14])}
}

func clockTo(c sei.ClockTS) []int {
	return []int{int(c.TimeOffsetValue), int(c.NFrames), int(c.Hours), int(c.Minutes), int(c.Seconds), bi(c.ClockTimeStampFlag),
		bi(c.UnitsFieldBasedFlag), bi(c.FullTimeStampFlag), bi(c.SecondsFlag), bi(c.MinutesFlag), bi(c.HoursFlag),
		bi(c.DiscontinuityFlag), bi(c.CntDroppedFlag), int(c.CountingType), int(c.TimeOffsetLength)}
}

func clockAvcFrom(v []int) sei.ClockTSAvc {
	return sei.ClockTSAvc{CtType: byte(v[0]), NuitFieldBasedFlag: v[1] != 0, CountingType: byte(v[2]), NFrames: byte(v[3]), Hours: byte(v[4]),
		Minutes: byte(v[5]), Seconds: byte(v[6]), ClockTimeStampFlag: v[7] != 0, FullTimeStampFlag: v[8] != 0, SecondsFlag: v[9] != 0,
		MinutesFlag: v[10] != 0, HoursFlag: v[11] != 0, DiscontinuityFlag: v[12] != 0, CntDroppedFlag: v[13] != 0,
		TimeOffsetLength: byte(v[14]), TimeOffsetValue: v[15]}
}

func clockAvcTo(c sei.ClockTSAvc) []int {
	return []int{int(c.CtType), bi(c.NuitFieldBasedFlag), int(c.CountingType), int(c.NFrames), int(c.Hours), int(c.Minutes), int(c.Seconds),
		bi(c.ClockTimeStampFlag), bi(c.FullTimeStampFlag), bi(c.SecondsFlag), bi(c.MinutesFlag), bi(c.HoursFlag), bi(c.DiscontinuityFlag),
		bi(c.CntDroppedFlag), int(c.TimeOffsetLength), c.TimeOffsetValue}
}

func execC17Inner(op string, a []string) string {
	switch op {
	case "sei.write":
		var msgs []sei.SEIMessage
		for _, x := range a {
			if x == "none" {
				continue
			}
			p := strings.Split(x, ":")
			pl, _ := unhx(p[1])
			msgs = append(msgs, sei.NewSEIData(uint(atoi(p[0])), pl))
		}
		var buf bytes.Buffer
		if err := sei.WriteSEIMessages(&buf, msgs); err != nil {
			return "err"
		}
		return hx(buf.Bytes())
	case "sei.extract":
		d, _ := unhx(a[0])
		l, err := sei.ExtractSEIData(bytes.NewReader(d))
		s := []string{}
		for _, m := range l {
			s = append(s, fmt.Sprintf("%d:%s", m.Type(), hx(m.Payload())))
		}
		out := "none"
		if len(s) > 0 {
			out = strings.Join(s, " ")
		}
		if err == sei.ErrRbspTrailingBitsMissing {
			return out + " trailing-missing"
		}
		if err != nil {
			return "err"
		}
		return out
	case "sei.nalu":
		var nalus [][]byte
		for _, x := range a[2:] {
			d, _ := unhx(x)
			nalus = append(nalus, d)
		}
		_, _, late := c17ParseNalus(a[0], a[1], nalus)
		return strings.Join(late(), " | ")
	case "tc.pl":
		tc := sei.TimeCodeSEI{}
		for _, x := range a {
			if x != "none" {
				tc.Clocks = append(tc.Clocks, clockFrom(ints(x)))
			}
		}
		return fmt.Sprintf("%s size=%d", hx(tc.Payload()), tc.Size())
	case "tc.dec":
		d, _ := unhx(a[0])
		m, err := sei.DecodeTimeCodeSEI(sei.NewSEIData(136, d))
		tc := m.(*sei.TimeCodeSEI)
		s := []string{}
		for _, c := range tc.Clocks {
			s = append(s, joinInts(clockTo(c)))
		}
		out := "none"
		if len(s) > 0 {
			out = strings.Join(s, " ")
		}
		return fmt.Sprintf("%s err=%d", out, bi(err != nil))
	case "mdcv.pl":
		v := ints(a[0])
		m := sei.MasteringDisplayColourVolumeSEI{DisplayPrimariesX: [3]uint16{uint16(v[0]), uint16(v[2]), uint16(v[4])},
			DisplayPrimariesY: [3]uint16{uint16(v[1]), uint16(v[3]), uint16(v[5])}, WhitePointX: uint16(v[6]), WhitePointY: uint16(v[7]),
			MaxDisplayMasteringLuminance: uint32(v[8]), MinDisplayMasteringLuminance: uint32(v[9])}
		return hx(m.Payload())
	case "mdcv.dec":
		d, _ := unhx(a[0])
		mm, err := sei.DecodeMasteringDisplayColourVolumeSEI(sei.NewSEIData(137, d))
		if err != nil {
			return "err"
		}
		m := mm.(*sei.MasteringDisplayColourVolumeSEI)
		return joinInts([]int{int(m.DisplayPrimariesX[0]), int(m.DisplayPrimariesY[0]), int(m.DisplayPrimariesX[1]), int(m.DisplayPrimariesY[1]),
			int(m.DisplayPrimariesX[2]), int(m.DisplayPrimariesY[2]), int(m.WhitePointX), int(m.WhitePointY),
			int(m.MaxDisplayMasteringLuminance), int(m.MinDisplayMasteringLuminance)})
	case "cll.pl":
		m := sei.ContentLightLevelInformationSEI{MaxContentLightLevel: uint16(atoi(a[0])), MaxPicAverageLightLevel: uint16(atoi(a[1]))}
		return hx(m.Payload())
	case "cll.dec":
		d, _ := unhx(a[0])
		mm, err := sei.DecodeContentLightLevelInformationSEI(sei.NewSEIData(144, d))
		if err != nil {
			return "err"
		}
		m := mm.(*sei.ContentLightLevelInformationSEI)
		return fmt.Sprintf("%d,%d", m.MaxContentLightLevel, m.MaxPicAverageLightLevel)
	case "pt.pl":
		p := sei.PicTimingAvcSEI{PictStruct: uint8(atoi(a[1]))}
		if a[0] != "-" {
			v := ints(a[0])
			p.CbpDbpDelay = &sei.CbpDbpDelay{CpbRemovalDelay: uint(v[0]), DpbOutputDelay: uint(v[1]), CpbRemovalDelayLengthMinus1: byte(v[2]), DpbOutputDelayLengthMinus1: byte(v[3])}
		}
		for _, x := range a[2:] {
			if x != "none" {
				p.Clocks = append(p.Clocks, clockAvcFrom(ints(x)))
			}
		}
		return fmt.Sprintf("%s size=%d", hx(p.Payload()), p.Size())
	case "pt.dec":
		d, _ := unhx(a[2])
		var cd *sei.CbpDbpDelay
		if a[0] != "-" {
			v := ints(a[0])
			cd = &sei.CbpDbpDelay{CpbRemovalDelayLengthMinus1: byte(v[0]), DpbOutputDelayLengthMinus1: byte(v[1])}
		}
		mm, err := sei.DecodePicTimingAvcSEIHRD(sei.NewSEIData(1, d), cd, byte(atoi(a[1])))
		if mm == nil {
			return "err"
		}
		m := mm.(*sei.PicTimingAvcSEI)
		h := "-"
		if m.CbpDbpDelay != nil {
			h = joinInts([]int{int(m.CbpDbpDelay.CpbRemovalDelay), int(m.CbpDbpDelay.DpbOutputDelay), int(m.CbpDbpDelay.CpbRemovalDelayLengthMinus1), int(m.CbpDbpDelay.DpbOutputDelayLengthMinus1)})
		}
		s := []string{}
		for _, c := range m.Clocks {
			s = append(s, joinInts(clockAvcTo(c)))
		}
		cs := "none"
		if len(s) > 0 {
			cs = strings.Join(s, " ")
		}
		return fmt.Sprintf("%s %d %s err=%d", h, m.PictStruct, cs, bi(err != nil))
	}
	return "bad-op"
}

func genClock136(c *Ctx, tol int) []int {
	// tov,nf,h,m,s,ctf,ufb,full,sf,mf,hf,disc,cnt,ct,tol (canonical: unused fields zero)
	v := make([]int, 15)
	if c.R.Intn(6) == 0 {
		return v // clock_timestamp_flag = 0
	}
	v[5] = 1
	v[6] = c.R.Intn(2)
	v[13] = c.R.Intn(32)
	v[11] = c.R.Intn(2)
	v[12] = c.R.Intn(2)
	v[1] = c.R.Intn(512)
	if c.R.Intn(3) == 0 {
		v[7] = 1
		v[4], v[3], v[2] = c.R.Intn(64), c.R.Intn(64), c.R.Intn(32)
	} else {
		depth := c.R.Intn(4)
		if depth >= 1 {
			v[8] = 1
			v[4] = c.R.Intn(64)
		}
		if depth >= 2 {
			v[9] = 1
			v[3] = c.R.Intn(64)
		}
		if depth >= 3 {
			v[10] = 1
			v[2] = c.R.Intn(32)
		}
	}
	v[14] = tol
	if tol > 0 {
		switch c.R.Intn(3) {
		case 0:
			v[0] = 0
		case 1:
			v[0] = 1<<uint(tol) - 1
		default:
			v[0] = int(c.R.Int63n(1 << uint(tol)))
		}
	}
	return v
}

func genClockAvc(c *Ctx, tol int) []int {
	// ctt,nfb,ct,nf,h,m,s,ctf,full,sf,mf,hf,disc,cnt,tol,tov
	v := make([]int, 16)
	v[14] = tol
	if c.R.Intn(6) == 0 {
		return v
	}
	v[7] = 1
	v[0] = c.R.Intn(4)
	v[1] = c.R.Intn(2)
	v[2] = c.R.Intn(32)
	v[12] = c.R.Intn(2)
	v[13] = c.R.Intn(2)
	v[3] = c.R.Intn(256)
	if c.R.Intn(3) == 0 {
		v[8] = 1
		v[6], v[5], v[4] = c.R.Intn(64), c.R.Intn(64), c.R.Intn(32)
	} else {
		depth := c.R.Intn(4)
		if depth >= 1 {
			v[9] = 1
			v[6] = c.R.Intn(64)
		}
		if depth >= 2 {
			v[10] = 1
			v[5] = c.R.Intn(64)
		}
		if depth >= 3 {
			v[11] = 1
			v[4] = c.R.Intn(32)
		}
	}
	if tol > 0 {
		half := int64(1) << uint(tol-1)
		switch c.R.Intn(4) {
		case 0:
			v[15] = 0
		case 1:
			v[15] = int(-half)
		case 2:
			v[15] = int(half - 1)
		default:
			v[15] = int(c.R.Int63n(2*half) - half)
		}
	}
	return v
}

func genC17(c *Ctx) {
	sizes := []int{0, 1, 2, 3, 16, 254, 255, 256, 300, 509, 510, 511, 766}
	types := []int{0, 1, 4, 5, 6, 45, 128, 136, 137, 144, 254, 255, 256, 300, 510, 511, 1000, 70000}
	n := c.N(8000, 150000)
	for it := 0; it < n; it++ {
		nm := c.R.Intn(7)
		if it%10 == 0 {
			nm = 1 + c.R.Intn(2)
		}
		reqParts := []string{}
		big := false
		for i := 0; i < nm; i++ {
			t := types[c.R.Intn(len(types))]
			if c.R.Intn(5) == 0 {
				t = c.R.Intn(600)
			}
			sz := sizes[c.R.Intn(len(sizes))]
			if c.R.Intn(3) == 0 {
				sz = c.R.Intn(24)
			}
			pl := make([]byte, sz)
			for k := range pl {
				pl[k] = []byte{0, 0, 0, 1, 2, 3, 3, 0xff, 0x80, byte(c.R.Intn(256))}[c.R.Intn(10)]
			}
			if sz > 0 && c.R.Intn(4) == 0 {
				pl[sz-1] = 0
			}
			if t >= 255 || sz >= 255 {
				big = true
			}
			reqParts = append(reqParts, fmt.Sprintf("%d:%s", t, hx(pl)))
		}
		if nm == 0 {
			reqParts = []string{"none"}
		}
		wreq := "sei.write " + strings.Join(reqParts, " ")
		wres := execC17(wreq)
		c.Case(wreq, wres)
		ereq := "sei.extract " + wres
		eres := execC17(ereq)
		c.Case(ereq, eres)
		want := strings.Join(reqParts, " ")
		out, _ := unhx(wres)
		key := ""
		if nm >= 2 || big || bytes.Contains(out, []byte{0, 0, 3}) {
			key = wreq
		}
		c.Eval(key)
		c.Count(fmt.Sprintf("msgs=%d", nm))
		if it < 3 {
			c.Sample(wreq + " -> " + wres)
		}
		if hasForbidden(out) {
			c.Fail("C17-forbidden-triple", "SEI NAL payload contains a start-code-like triple", wreq, wres, "")
		}
		if nm > 0 && eres != want {
			c.Fail("C17-framing-roundtrip", "ExtractSEIData(WriteSEIMessages(msgs)) != msgs", wreq, eres, want)
		}
		// truncated / arbitrary streams: model and implementation must classify alike
		if it%5 == 0 && len(out) > 1 {
			cut := out[:c.R.Intn(len(out))]
			rq := "sei.extract " + hx(cut)
			c.Case(rq, execC17(rq))
			c.Eval("")
			c.Count("extract-truncated")
		}
	}
	genC17Nalu(c) // complete SEI NAL units through avc.ParseSEINalu / hevc.ParseSEINalu, results held across calls
	// ---- time code 136: all flag shapes x tol 0..31 x 0..3 clocks
	for tol := 0; tol <= 31; tol++ {
		for rep := 0; rep < c.N(60, 800); rep++ {
			nc := c.R.Intn(4)
			cs := []string{}
			for i := 0; i < nc; i++ {
				t := tol
				if c.R.Intn(4) == 0 {
					t = c.R.Intn(32)
				}
				cs = append(cs, joinInts(genClock136(c, t)))
			}
			if nc == 0 {
				cs = []string{"none"}
			}
			preq := "tc.pl " + strings.Join(cs, " ")
			pres := execC17(preq)
			c.Case(preq, pres)
			pf := strings.Fields(pres)
			if len(pf) < 2 {
				c.Fail("C17-timecode-payload", "TimeCodeSEI.Payload failed", preq, pres, "")
				continue
			}
			plBytes, _ := unhx(pf[0])
			if pf[1] != fmt.Sprintf("size=%d", len(plBytes)) {
				c.Fail("C17-timecode-size", "TimeCodeSEI.Size() != len(Payload())", preq, pres, "")
			}
			dreq := "tc.dec " + pf[0]
			dres := execC17(dreq)
			c.Case(dreq, dres)
			want := strings.Join(cs, " ") + " err=0"
			c.Eval(preq)
			c.Count("timecode")
			if dres != want {
				c.Fail("C17-timecode-roundtrip", "DecodeTimeCodeSEI(Payload(m)) != m", preq, dres, want)
			}
			if tol == 5 && rep == 0 {
				c.Sample(preq + " -> " + pres)
			}
		}
	}
	// ---- AVC pic timing
	for it := 0; it < c.N(3000, 40000); it++ {
		ps := c.R.Intn(9)
		nc := 1
		if ps > 2 {
			nc = 2
		}
		if ps > 4 {
			nc = 3
		}
		tol := c.R.Intn(32)
		if c.R.Intn(3) == 0 {
			tol = 0
		}
		hrd := "-"
		hrdLens := "-"
		if c.R.Intn(2) == 0 {
			a, b := c.R.Intn(24), c.R.Intn(24)
			cpb := int(c.R.Int63n(1 << uint(a+1)))
			dpb := int(c.R.Int63n(1 << uint(b+1)))
			hrd = joinInts([]int{cpb, dpb, a, b})
			hrdLens = joinInts([]int{a, b})
		}
		cs := []string{}
		for i := 0; i < nc; i++ {
			cs = append(cs, joinInts(genClockAvc(c, tol)))
		}
		preq := fmt.Sprintf("pt.pl %s %d %s", hrd, ps, strings.Join(cs, " "))
		pres := execC17(preq)
		c.Case(preq, pres)
		pf := strings.Fields(pres)
		if len(pf) < 2 {
			c.Fail("C17-pictiming-payload", "PicTimingAvcSEI.Payload failed", preq, pres, "")
			continue
		}
		plBytes, _ := unhx(pf[0])
		if pf[1] != fmt.Sprintf("size=%d", len(plBytes)) {
			c.Fail("C17-pictiming-size", "PicTimingAvcSEI.Size() != len(Payload())", preq, pres, "")
		}
		dreq := fmt.Sprintf("pt.dec %s %d %s", hrdLens, tol, pf[0])
		dres := execC17(dreq)
		c.Case(dreq, dres)
		want := fmt.Sprintf("%s %d %s err=0", hrd, ps, strings.Join(cs, " "))
		c.Eval(preq)
		c.Count("pictiming")
		if dres != want {
			c.Fail("C17-pictiming-roundtrip", "DecodePicTimingAvcSEIHRD(Payload(m)) != m", preq, dres, want)
		}
	}
	// ---- MDCV / CLL
	for it := 0; it < c.N(2000, 20000); it++ {
		v := make([]int, 10)
		for k := 0; k < 8; k++ {
			v[k] = []int{0, 1, 255, 256, 65535, c.R.Intn(65536)}[c.R.Intn(6)]
		}
		for k := 8; k < 10; k++ {
			v[k] = []int{0, 1, 65536, 1<<32 - 1, int(c.R.Uint32())}[c.R.Intn(5)]
		}
		preq := "mdcv.pl " + joinInts(v)
		pres := execC17(preq)
		c.Case(preq, pres)
		dreq := "mdcv.dec " + pres
		dres := execC17(dreq)
		c.Case(dreq, dres)
		c.Eval(preq)
		plb, _ := unhx(pres)
		if dres != joinInts(v) || len(plb) != 24 {
			c.Fail("C17-mdcv-roundtrip", "MDCV decode(Payload(m)) != m or Size != 24", preq, dres, joinInts(v))
		}
		a, b := v[0], v[1]
		creq := fmt.Sprintf("cll.pl %d %d", a, b)
		cres := execC17(creq)
		c.Case(creq, cres)
		cd := execC17("cll.dec " + cres)
		c.Case("cll.dec "+cres, cd)
		c.Eval(creq)
		if cd != fmt.Sprintf("%d,%d", a, b) {
			c.Fail("C17-cll-roundtrip", "CLL decode(Payload(m)) != m", creq, cd, fmt.Sprintf("%d,%d", a, b))
		}
		// wrong-size payloads are rejected by both
		if it%20 == 0 {
			bad := make([]byte, c.R.Intn(30))
			rq := "mdcv.dec " + hx(bad)
			c.Case(rq, execC17(rq))
			rq = "cll.dec " + hx(bad)
			c.Case(rq, execC17(rq))
		}
	}
	// ---- pass-through messages (direct oracle only): payload returned unchanged, Size = len
	for it := 0; it < c.N(3000, 30000); it++ {
		n := 24 + c.R.Intn(40)
		pl := make([]byte, n)
		c.R.Read(pl)
		var typ uint
		var codec sei.Codec = sei.AVC
		kind := it % 4
		switch kind {
		case 0:
			typ = 5
		case 1:
			typ = 4
		case 2: // CEA-608: country 0xb5, provider 0x31, user id GA94, type 3
			typ = 4
			copy(pl, []byte{0xb5, 0x00, 0x31, 0x47, 0x41, 0x39, 0x34, 0x03})
			cc := (n - 10) / 3
			if cc > 31 {
				cc = 31
			}
			pl[8] = 0xc0 | byte(cc)
			pl[9] = 0xff
		case 3:
			typ = 1
			codec = sei.HEVC
		}
		req := fmt.Sprintf("passthrough %d %d %s", typ, kind, hx(pl))
		var got []byte
		var size uint
		p := safe(func() {
			var m sei.SEIMessage
			var err error
			if kind == 3 {
				m, err = sei.DecodePicTimingHevcSEI(sei.NewSEIData(typ, pl), sei.HEVCPicTimingParams{FrameFieldInfoPresentFlag: true, CpbDpbDelaysPresentFlag: true, AuCbpRemovalDelayLengthMinus1: 7, DpbOutputDelayLengthMinus1: 7})
			} else {
				m, err = sei.DecodeSEIMessage(sei.NewSEIData(typ, pl), codec)
			}
			if err != nil || m == nil {
				return
			}
			got = m.Payload()
			size = m.Size()
		})
		c.Eval(req)
		c.Count(fmt.Sprintf("passthrough.kind%d", kind))
		if p != "" || !bytes.Equal(got, pl) || int(size) != len(pl) {
			c.Fail("C17-passthrough", "pass-through SEI message does not return its payload unchanged", req, p+hx(got), hx(pl))
		}
	}
}

// ---- complete SEI NAL units. The round trip of the property is observed where an application observes it: a NAL unit
// (header + WriteSEIMessages output) handed to avc.ParseSEINalu / hevc.ParseSEINalu (anchors avc/sei.go, hevc/sei.go),
// with and without an SPS. Lists mix messages without a dedicated decoder (any payload) with the typed and pass-through
// ones of the codec (payloads valid for their decoder: serialised from message values / long enough user data).
// The returned list must be the written list of (type, payload), in order; Size() of a typed / pass-through message is
// its payload length. Several NAL units are parsed one after the other and all results inspected afterwards: a returned
// list is a value, later calls must not change it.
//
//   sei.nalu <avc|hevc> <sps> <NAL hex>+   sps: "-" none | AVC "vui", "nal:a,b,tol", "vcl:a,b,tol" (HRD lengths-1,
//                                           time offset length) | HEVC "vui:ffi", "hrd:ffi,au,dpb"
//   answer: per NAL unit "type:payload ..." (as sei.extract), joined by " | ", rendered after the last call

func c17AvcSPS(desc string) *avc.SPS {
	switch {
	case desc == "-":
		return nil
	case desc == "vui":
		return &avc.SPS{VUI: &avc.VUIParameters{}}
	}
	p := strings.SplitN(desc, ":", 2)
	v := ints(p[1])
	hrd := &avc.HrdParameters{CpbRemovalDelayLengthMinus1: uint(v[0]), DpbOutputDelayLengthMinus1: uint(v[1]), TimeOffsetLength: uint(v[2])}
	if p[0] == "vcl" {
		return &avc.SPS{VUI: &avc.VUIParameters{VclHrdParametersPresentFlag: true, VclHrdParameters: hrd}}
	}
	return &avc.SPS{VUI: &avc.VUIParameters{NalHrdParametersPresentFlag: true, NalHrdParameters: hrd}}
}

func c17HevcSPS(desc string) *hevc.SPS {
	if desc == "-" {
		return nil
	}
	p := strings.SplitN(desc, ":", 2)
	v := ints(p[1])
	vui := &hevc.VUIParameters{FrameFieldInfoPresentFlag: v[0] != 0}
	if p[0] == "hrd" {
		vui.HrdParameters = &hevc.HrdParameters{NalHrdParametersPresentFlag: true, AuCpbRemovalDelayLengthMinus1: uint8(v[1]), DpbOutputDelayLengthMinus1: uint8(v[2])}
	}
	return &hevc.SPS{VUI: vui}
}

func c17RenderMsgs(msgs []sei.SEIMessage, err error) string {
	if errors.Is(err, avc.ErrNotSEINalu) || errors.Is(err, hevc.ErrNotSEINalu) {
		return "not-sei"
	}
	s := []string{}
	for _, m := range msgs {
		if m == nil {
			s = append(s, "nil")
			continue
		}
		s = append(s, fmt.Sprintf("%d:%s", m.Type(), hx(m.Payload())))
	}
	out := "none"
	if len(s) > 0 {
		out = strings.Join(s, " ")
	}
	if errors.Is(err, sei.ErrRbspTrailingBitsMissing) {
		return out + " trailing-missing"
	}
	if err != nil {
		return "err"
	}
	return out
}

// c17ParseNalus parses the NAL units in order and holds on to every result: `immediate` is each result rendered right
// after its own call, `late()` renders all held results again.
func c17ParseNalus(codec, spsDesc string, nalus [][]byte) (held [][]sei.SEIMessage, immediate []string, late func() []string) {
	errs := make([]error, len(nalus))
	held = make([][]sei.SEIMessage, len(nalus))
	var asps *avc.SPS
	var hsps *hevc.SPS
	if codec == "avc" {
		asps = c17AvcSPS(spsDesc)
	} else {
		hsps = c17HevcSPS(spsDesc)
	}
	for i, n := range nalus {
		if codec == "avc" {
			held[i], errs[i] = avc.ParseSEINalu(n, asps)
		} else {
			held[i], errs[i] = hevc.ParseSEINalu(n, hsps)
		}
		immediate = append(immediate, c17RenderMsgs(held[i], errs[i]))
	}
	late = func() []string {
		out := make([]string, len(nalus))
		for i := range nalus {
			out[i] = c17RenderMsgs(held[i], errs[i])
		}
		return out
	}
	return
}

type c17Msg struct {
	typ     uint
	payload []byte
	obj     sei.SEIMessage // what is handed to WriteSEIMessages (the typed message value where there is one)
	typed   bool           // has a dedicated decoder in this codec / SPS setting
}

func c17CEA608(c *Ctx, n int) []byte {
	pl := make([]byte, n)
	c.R.Read(pl)
	copy(pl, []byte{0xb5, 0x00, 0x31, 0x47, 0x41, 0x39, 0x34, 0x03})
	cc := (n - 10) / 3
	if cc > 31 {
		cc = 31
	}
	pl[8] = 0xc0 | byte(cc)
	pl[9] = 0xff
	return pl
}

// a message with a dedicated decoder for (codec, sps), with a payload that decoder accepts
func c17TypedMsg(c *Ctx, codec, spsDesc string) c17Msg {
	rnd := func(n int) []byte { b := make([]byte, n); c.R.Read(b); return b }
	kinds := []int{4, 5, 608}
	if codec == "avc" {
		kinds = append(kinds, 1, 1)
	} else {
		kinds = append(kinds, 136, 136, 137, 144)
		if spsDesc != "-" {
			kinds = append(kinds, 1)
		}
	}
	switch k := kinds[c.R.Intn(len(kinds))]; k {
	case 4:
		pl := rnd(8 + c.R.Intn(24))
		pl[0] &= 0x7f // not the CEA-608 country code
		return c17Msg{4, pl, sei.NewSEIData(4, pl), true}
	case 608:
		pl := c17CEA608(c, 24+c.R.Intn(40))
		return c17Msg{4, pl, sei.NewSEIData(4, pl), true}
	case 5:
		pl := rnd(16 + c.R.Intn(24))
		return c17Msg{5, pl, sei.NewSEIData(5, pl), true}
	case 136:
		tc := &sei.TimeCodeSEI{}
		tol := c.R.Intn(32)
		for i, nc := 0, c.R.Intn(4); i < nc; i++ {
			tc.Clocks = append(tc.Clocks, clockFrom(genClock136(c, tol)))
		}
		return c17Msg{136, tc.Payload(), tc, true}
	case 137:
		m := &sei.MasteringDisplayColourVolumeSEI{WhitePointX: uint16(c.R.Intn(65536)), WhitePointY: uint16(c.R.Intn(65536)),
			MaxDisplayMasteringLuminance: c.R.Uint32(), MinDisplayMasteringLuminance: c.R.Uint32()}
		for i := 0; i < 3; i++ {
			m.DisplayPrimariesX[i], m.DisplayPrimariesY[i] = uint16(c.R.Intn(65536)), uint16(c.R.Intn(4))
		}
		return c17Msg{137, m.Payload(), m, true}
	case 144:
		m := &sei.ContentLightLevelInformationSEI{MaxContentLightLevel: uint16(c.R.Intn(65536)), MaxPicAverageLightLevel: uint16(c.R.Intn(3))}
		return c17Msg{144, m.Payload(), m, true}
	default: // 1
		if codec == "hevc" { // pass-through; long enough for every field the SPS settings make the decoder read
			pl := rnd(16 + c.R.Intn(24))
			return c17Msg{1, pl, sei.NewSEIData(1, pl), true}
		}
		p := &sei.PicTimingAvcSEI{PictStruct: uint8(c.R.Intn(9))}
		tol := 0
		if i := strings.Index(spsDesc, ":"); i > 0 {
			v := ints(spsDesc[i+1:])
			a, b := v[0], v[1]
			tol = v[2]
			p.CbpDbpDelay = &sei.CbpDbpDelay{CpbRemovalDelay: uint(c.R.Int63n(1 << uint(a+1))), DpbOutputDelay: uint(c.R.Int63n(1 << uint(b+1))),
				CpbRemovalDelayLengthMinus1: byte(a), DpbOutputDelayLengthMinus1: byte(b)}
		}
		p.TimeOffsetLength = uint8(tol)
		nc := 1
		if p.PictStruct > 2 {
			nc = 2
		}
		if p.PictStruct > 4 {
			nc = 3
		}
		for i := 0; i < nc; i++ {
			p.Clocks = append(p.Clocks, clockAvcFrom(genClockAvc(c, tol)))
		}
		return c17Msg{1, p.Payload(), p, true}
	}
}

func c17IsTypedType(codec, spsDesc string, t int) bool {
	switch t {
	case 4, 5:
		return true
	case 1:
		return codec == "avc" || spsDesc != "-"
	case 136, 137, 144:
		return codec == "hevc"
	}
	return false
}

func genC17Nalu(c *Ctx) {
	c.Note("SEI NAL units: header + WriteSEIMessages(1..6 messages, general types mixed with the codec's typed / pass-through messages) through avc.ParseSEINalu and hevc.ParseSEINalu, without SPS and with SPS (VUI only, NAL/VCL HRD); 1..3 NAL units parsed before any result is inspected")
	types := []int{0, 1, 2, 3, 6, 7, 45, 128, 129, 136, 137, 144, 147, 254, 255, 256, 300, 510, 511, 1000, 70000}
	sizes := []int{0, 1, 2, 3, 16, 24, 254, 255, 256, 300}
	for it := 0; it < c.N(2500, 40000); it++ {
		codec := []string{"avc", "hevc"}[it%2]
		spsDesc := "-"
		hdrs := [][]byte{{0x06}, {0x06}, {0x26}, {0x66}}
		if codec == "avc" {
			switch c.R.Intn(5) {
			case 0:
				spsDesc = "vui"
			case 1, 2:
				tol := c.R.Intn(32)
				if c.R.Intn(3) == 0 {
					tol = 0
				}
				spsDesc = fmt.Sprintf("%s:%d,%d,%d", []string{"nal", "vcl"}[c.R.Intn(2)], c.R.Intn(24), c.R.Intn(24), tol)
			}
		} else {
			hdrs = [][]byte{{0x4e, 0x01}, {0x4e, 0x01}, {0x50, 0x01}, {0x4e, 0x03}}
			switch c.R.Intn(5) {
			case 0:
				spsDesc = fmt.Sprintf("vui:%d", c.R.Intn(2))
			case 1, 2:
				spsDesc = fmt.Sprintf("hrd:%d,%d,%d", c.R.Intn(2), c.R.Intn(32), c.R.Intn(32))
			}
		}
		nNalus := 1 + c.R.Intn(3)
		var nalus [][]byte
		var lists [][]c17Msg
		var want []string
		writeFailed := false
		for k := 0; k < nNalus; k++ {
			nm := 1 + c.R.Intn(6)
			if c.R.Intn(8) == 0 {
				nm = 1
			}
			var msgs []c17Msg
			for i := 0; i < nm; i++ {
				if c.R.Intn(5) < 2 {
					msgs = append(msgs, c17TypedMsg(c, codec, spsDesc))
					continue
				}
				t := types[c.R.Intn(len(types))]
				if c.R.Intn(5) == 0 {
					t = c.R.Intn(600)
				}
				for c17IsTypedType(codec, spsDesc, t) {
					t = types[c.R.Intn(len(types))]
				}
				sz := sizes[c.R.Intn(len(sizes))]
				if c.R.Intn(2) == 0 {
					sz = c.R.Intn(24)
				}
				pl := make([]byte, sz)
				for j := range pl {
					pl[j] = []byte{0, 0, 0, 1, 2, 3, 3, 0xff, 0x80, byte(c.R.Intn(256))}[c.R.Intn(10)]
				}
				if sz > 0 && c.R.Intn(4) == 0 {
					pl[sz-1] = 0
				}
				msgs = append(msgs, c17Msg{uint(t), pl, sei.NewSEIData(uint(t), pl), false})
			}
			var objs []sei.SEIMessage
			var w []string
			for _, m := range msgs {
				objs = append(objs, m.obj)
				w = append(w, fmt.Sprintf("%d:%s", m.typ, hx(m.payload)))
			}
			var buf bytes.Buffer
			if p := safe(func() {
				if err := sei.WriteSEIMessages(&buf, objs); err != nil {
					writeFailed = true
				}
			}); p != "" {
				writeFailed = true
			}
			hdr := hdrs[c.R.Intn(len(hdrs))]
			wreq := "sei.write " + strings.Join(w, " ")
			if k == 0 {
				c.Case(wreq, hx(buf.Bytes())) // the typed message values are written as themselves: same bytes as the model writes for (type, payload)
			}
			if writeFailed {
				c.Fail("C17-nalu-write", "WriteSEIMessages fails on a list of typed message values and raw messages", wreq, "error", "bytes")
				break
			}
			nalus = append(nalus, append(append([]byte{}, hdr...), buf.Bytes()...))
			lists = append(lists, msgs)
			want = append(want, strings.Join(w, " "))
		}
		if writeFailed {
			continue
		}
		if it%40 == 7 { // not an SEI NAL unit (other NAL type, or shorter than a header): both refuse
			body := nalus[0][len(hdrs[0]):]
			bad := [][]byte{append([]byte{0x05}, body...), append([]byte{0x67}, body...), {}}
			if codec == "hevc" {
				bad = [][]byte{append([]byte{0x40, 0x01}, body...), append([]byte{0x26, 0x01}, body...), {0x4e}, {}}
			}
			nalus, lists, want = append(nalus, bad[c.R.Intn(len(bad))]), append(lists, nil), append(want, "not-sei")
		}
		hxs := make([]string, len(nalus))
		for i, n := range nalus {
			hxs[i] = hx(n)
		}
		req := fmt.Sprintf("sei.nalu %s %s %s", codec, spsDesc, strings.Join(hxs, " "))
		var held [][]sei.SEIMessage
		var immediate, late []string
		var sizeBad string
		p := safe(func() {
			var lf func() []string
			held, immediate, lf = c17ParseNalus(codec, spsDesc, nalus)
			late = lf()
			for i, l := range lists {
				if l == nil || len(held[i]) != len(l) {
					continue
				}
				for j, m := range l {
					if m.typed && held[i][j] != nil && int(held[i][j].Size()) != len(m.payload) {
						sizeBad = fmt.Sprintf("NAL unit %d message %d (type %d): Size()=%d, payload length %d", i+1, j+1, m.typ, held[i][j].Size(), len(m.payload))
					}
				}
			}
		})
		if p != "" {
			c.Case(req, p)
			c.Fail("C17-"+codec+"-nalu-panic", "ParseSEINalu panics on a written SEI NAL unit", req, p, strings.Join(want, " | "))
			continue
		}
		c.Case(req, strings.Join(late, " | "))
		c.Eval(req)
		c.Count(fmt.Sprintf("nalu.%s.sps=%s.units=%d", codec, strings.SplitN(spsDesc, ":", 2)[0], len(nalus)))
		if it < 2 {
			c.Sample(req + " -> " + strings.Join(late, " | "))
		}
		bad := false
		for i := range nalus {
			if immediate[i] != want[i] {
				c.Fail("C17-"+codec+"-nalu-roundtrip", fmt.Sprintf("%s.ParseSEINalu(header + WriteSEIMessages(msgs)) != msgs (NAL unit %d of %d, inspected right after its call)", codec, i+1, len(nalus)),
					req, immediate[i], want[i])
				bad = true
				break
			}
		}
		if bad {
			continue
		}
		for i := range nalus {
			if late[i] != want[i] {
				c.Fail("C17-"+codec+"-nalu-history", fmt.Sprintf("the message list returned by %s.ParseSEINalu for NAL unit %d of %d changed after the later NAL units were parsed", codec, i+1, len(nalus)),
					req, late[i], want[i])
				break
			}
		}
		if sizeBad != "" {
			c.Fail("C17-"+codec+"-nalu-size", "Size() of a typed / pass-through message returned by ParseSEINalu is not its payload length", req, sizeBad, "")
		}
	}
}
